import Blue.Proofs.LogCrash
import Blue.Proofs.LogTrunc
import Blue.Proofs.FlushCrash
import Blue.Proofs.StoreCrash
import Blue.Proofs.StoreFault
import Blue.Proofs.StoreGc
import Blue.Proofs.StoreHist
import Blue.Proofs.StoreRollover
import Blue.Proofs.FsyncCore
import Blue.Proofs.ConcWriters
import Blue.Proofs.ConcWritersEntries
import Blue.Proofs.ConcWritersStore
/-! # Property C02 — acknowledged writes survive any crash; recovery is all-or-nothing per batch

Property theorems only.  `Blue.StoreCrash` models the store's file-system protocol: the
operation list `opsOf h` that a history `h` of puts, flushes, clean reopens and compactions
issues (log append / sync / ack; write and sync an SST under tmp/, link it, append and sync one
manifest transaction, move the inputs to the trash, unlink the temporaries), a logical file
system with per-file durable content, and `recoverA` / `recoverB` — `KeyValueStore::open` on the
image a crash leaves under (a) "completed calls persist" and (b) "unsynced bytes are lost".
The correspondence check derives the same operation list from an `strace` of the real store and
compares it with `opsOf` (canonicalisation rules spelled out in `harness/src/c02.rs`), and reopens
the real crash image of every prefix with the real code.

`crash_recover` is at batch granularity with whole system calls: a batch is an ATOM of the model
(its sequence number), so "an in-flight write is there completely or not at all" holds by
construction here — the byte level is C12 (`truncated_log_prefix`, `cut_delivers_exactly`,
`crash_torn_prefix`) and C13 (`torn_manifest`).  The history alphabet: `put`, `flush`, clean
`reopen`, and `compact p outs` — a MERGE compaction whose outputs hold exactly the inputs' batches
under names that are not names of files of the tree (`validCompact`; any other request is a no-op
of the model, and an output byte-identical to an existing file — names are content setsums — is
excluded: that case is C08 `Blue.FileLink`); blocks are sequential (no put overlaps a flush or a
compaction block); external ingest and the manifest's own rollover are not operations.  SST names
are taken to be injective in the content (a name IS its content list).  Assumption shared with the
run-time images: directory operations are durable at once and in program order (the code never
fsyncs a directory).

`Blue.StoreFault` continues past the first crash.  `image b fs` is the directory a new process
finds (persistence model a / b).  ASSUMPTION built into `image false` / `settle false`: bytes that
survive a process crash (or a surfaced fault) count as DURABLE from then on.  For the manifest this
is what the rollover of every `Manifest::open` achieves (`rollover_settles_manifest`; without it
an acknowledged batch can be lost: example below); for a log's unsynced tail nothing in the code
achieves it (`recover_one` never syncs the log) and without it the batch-list bookkeeping of `Ok`
fails (example below: a batch in two files) — the epoch theorems are relative to it.
`epochs_ok_rollover` is the variant with the rollover as an operation at the head of every
incarnation and the manifest transactions of a process crash left PENDING: it needs the file half
of the assumption only.
`recoverOps` is what `KeyValueStore::open` does to ANY such directory
(`recover_one` per log in ascending order — build and sync the SST, link it unless a file of that
content is there, add it to the manifest unless listed, remove the temporary, move the log to the
trash —, `cleanup_orphans`, `start_new_log`); an `Epoch` is one incarnation of the store (open,
then a history, cut anywhere).  A system call that FAILS (`faultOps`) ends the block and the
incarnation — every call of the write, flush, compaction and recovery paths is followed by `?` —
except the renames into trash/ whose result the code ignores (`absorbed`); the client gets the
error and no acknowledgement (`faultAcked`), drops the store (which flushes the log's BufWriter:
`retried`) and opens it again.  The check injects the failure into the real store with
`strace -e inject=` and compares: kind of the failed call, surfaced or absorbed, acknowledgements,
calls issued after it, batches found by the reopen under both models (`crash fault`); it traces the
reopen of sampled crash images, compares its calls with `recoverOps` (`crash recover`), crashes it
before each of its own calls and compares again (`crash recover2`).

GC compactions: `gc_compaction_atomic` (a compaction with any outputs is all-or-nothing at every
crash point; its operation list `compactOps` is compared with every compaction block of the real
store); a HISTORY that continues after a GC compaction is outside `crash_recover`, whose
invariant counts batches (what may be dropped is C05).  Not modelled: a flush racing a compaction.
`KeyValueStore::poison` is a no-op in the code (`// TODO(rescrv): Actually poison here`): that the
client stops using a store instance after an error is an assumption about the CLIENT.

CONCURRENT WRITERS (block `ConcWriters` at the end; `Blue/Proofs/ConcWriters.lean`,
`ConcWritersEntries.lean`, `ConcWritersStore.lean`, over the composed model `Blue.ConcLog` of C12 —
write queue, write core, log writer, file, fsync queue, fsync core of ONE log).  Every client of
`KeyValueStore::write` appends ONE buffer holding all entries of its `WriteBatch`; the write core
merges the buffers of the callers a leader took into ONE log record (`WriteBatch::merge`), so a
record holds several client batches and a crash keeps or loses the record as a whole: a client
batch is all-or-nothing because it lies wholly inside exactly one record
(`client_batch_in_one_record`).  For every run (any number of writers, any coalescing, overtaking
between the queues, failing `fdatasync`s) and every crash image (both models, every torn write in
between): the iterator delivers the first `j` merged records = the buffers of exactly the first
`gstart s j` callers in link order, every acknowledged caller among them
(`concurrent_acked_writes_survive_crash`, `concurrent_batches_all_or_nothing`,
`no_invented_batches`); a caller whose `fdatasync` failed is not acknowledged, its record is in the
file and is delivered whole or not at all (`failed_sync_writer_not_acked_but_may_survive`: an `Err`
from `write` does not mean the batch is absent after a reopen); entry by entry
(`concurrent_recovery_entries`, with `built_buffer_clean` for the buffers `WriteBatch::insert`
builds): what `log_to_builder` collects is exactly the entries of those client batches, each with
all its entries.  Link to the sequential theorems (`concurrent_run_is_some_sequential_history`,
`sequential_puts_recover`): the model (b) / (a) images are byte for byte the files of the
sequential writer `write; fdatasync; ack` of the merged records after `k` / all rounds (what is
durable always ends at a record boundary), the reader ends without an error there, and
`crash_recover` speaks about the history of `k` puts with batch `b` := merged record `b`; a torn
image delivers the records of that history after `j ≥ k` rounds and may end with a reader error
(then `log_to_builder` returns it and `open` fails, as for a single writer: C12).  NOT in it:
the memtable insert and the wait-list hand-off after `log.append` (visibility: C06), several logs
(a memtable rotation between two writers: each log is its own `ConcLog`), a failing `write`/`flush`
of the write core, and everything `Blue.ConcLog` leaves out (its header); the driver does not
replay `Blue.ConcLog` as a whole (the multi-writer fault family stays the run-time evidence). -/
namespace Blue.Props.C02
open Blue.StoreCrash

/-- **for every history, every crash point `n` in its system-call sequence, both persistence
    models: the reopen succeeds and yields exactly the batches `0 … k-1` (as a permutation) with
    `acknowledged ≤ k ≤ appended`** — every acknowledged write, at most the one in flight in
    addition, nothing invented, nothing partial -/
theorem crash_recover (h : List Client) (n : Nat) :
    Ok (recoverB (run fs0 ((opsOf h kv0).take n))) (acked ((opsOf h kv0).take n)) (appended ((opsOf h kv0).take n))
    ∧ Ok (recoverA (run fs0 ((opsOf h kv0).take n))) (acked ((opsOf h kv0).take n)) (appended ((opsOf h kv0).take n)) :=
  crash_recover_init h n

/-- **every acknowledged batch is recovered**: `Ok` bounds the NUMBER of recovered batches by the
    number of acknowledgements; the acknowledgements of a history are `ack 0, ack 1, …` in this
    order (`ack_lt`), so the batch of every acknowledgement issued before the crash point is among
    the recovered ones, under both models -/
theorem ack_mem (h : List Client) (n b : Nat) (hack : Op.ack b ∈ (opsOf h kv0).take n) :
    (∃ l, recoverB (run fs0 ((opsOf h kv0).take n)) = some l ∧ b ∈ l)
    ∧ (∃ l, recoverA (run fs0 ((opsOf h kv0).take n)) = some l ∧ b ∈ l) :=
  Blue.StoreCrash.ack_mem h n b hack

/-- what `Ok` says -/
theorem ok_means (r : Option (List Nat)) (lo hi : Nat) :
    Ok r lo hi ↔ ∃ l k, r = some l ∧ l.Perm (List.range k) ∧ lo ≤ k ∧ k ≤ hi := Iff.rfl

/-- operations on tmp/, acknowledgements, creating an empty log, linking or trashing a name the
    manifest does not list cannot change what a reopen sees (the justification of the
    canonicalisation rules of the trace comparison) -/
theorem frame_ops_invisible {view : File → List Nat} (hv : view ⟨[], []⟩ = []) {txs : List Tx} {fs : Fs} {op : Op}
    (h : FrameOp (live txs) op) :
    recover view txs (step fs op) = recover view txs fs
    ∧ (step fs op).maniDurable = fs.maniDurable ∧ (step fs op).maniPending = fs.maniPending :=
  frame_step hv h

/-- mutants at model level (each a closed counterexample): trashing the log before the manifest
    edit loses an acknowledged write; linking an unsynced SST, or trashing compaction inputs before
    the transaction is durable, makes the reopen fail -/
theorem mutants :
    Blue.FlushCrash.recoverB (Blue.FlushCrash.run Blue.FlushCrash.fs0
        ((Blue.FlushCrash.opsOf [.put] Blue.FlushCrash.kv0 ++ Blue.FlushCrash.flushBad [0] 0).take 8)) = some []
    ∧ Blue.FlushCrash.recoverB (Blue.FlushCrash.run Blue.FlushCrash.fs0
        (Blue.FlushCrash.opsOf [.put] Blue.FlushCrash.kv0 ++ Blue.FlushCrash.flushNoSync [0] 0)) = none :=
  ⟨Blue.FlushCrash.trash_before_manifest_loses, Blue.FlushCrash.unsynced_sst_breaks_reopen⟩

/-- non-vacuity: two flushed files are compacted into one; the crash falls right after the manifest
    transaction is synced, with the inputs still in sst/ -/
example :
    let h : List Client := [.put, .flush, .put, .flush, .compact (fun _ => true) [[1, 0]], .put]
    recoverB (run fs0 ((opsOf h kv0).take 28)) = some [1, 0] := by decide

/-! ### faults, and crashes during recovery -/
section Fault
open Blue.StoreFault

/-- **the directory a failed system call leaves reopens with every acknowledged write**.  Conjuncts
    1 and 2 are MODEL FACTS (definitions unfolded: `surfaced` is `!absorbed op`, `faultAcked` counts
    the acknowledgements before the failed call — that the real store surfaces the error and
    acknowledges nothing more is what the check compares, `crash fault`); the content is conjuncts
    3 and 4: in the fault model (a non-absorbed failed call ends the operation list there, with or
    without its own effect) the directory reopens under (b) and (a).  Whatever history, whichever of its system calls fails (`op`, call
    number `i`; every call except the renames into trash/ the code ignores the result of), whether
    or not the failed call took effect nevertheless: the client gets the error, it holds exactly the
    acknowledgements issued before the failed call, and the directory reopens — after the process
    exit (a) and after a power loss on top of it (b) — to a permutation of the batches `0 … k-1`
    with `acknowledged ≤ k ≤ appended` -/
theorem fault_surfaces (h : List Client) (i : Nat) (e : Bool) (op : Op)
    (hi : (opsOf h kv0)[i]? = some op) (hc : isCall op = true) (hs : absorbed op = false) :
    surfaced (opsOf h kv0) i = true
    ∧ faultAcked (opsOf h kv0) i = acked ((opsOf h kv0).take i)
    ∧ Ok (recoverB (run fs0 (faultOps (opsOf h kv0) i e))) (faultAcked (opsOf h kv0) i)
        (appended ((opsOf h kv0).take (i + 1)))
    ∧ Ok (recoverA (run fs0 (faultOps (opsOf h kv0) i e))) (faultAcked (opsOf h kv0) i)
        (appended ((opsOf h kv0).take (i + 1))) :=
  Blue.StoreFault.fault_surfaces h i e op hi hc hs

/-- **absorbed faults**: any number of renames of SSTs into trash/ fail (the code goes on, the
    files stay in sst/), the run is crashed anywhere: the reopen yields what `crash_recover` says -/
theorem absorbed_faults (h : List Client) {ops' : List Op} (hs : Skips ops' (opsOf h kv0)) (n : Nat) :
    Ok (recoverB (run fs0 (ops'.take n))) (acked (ops'.take n)) (appended (ops'.take n))
    ∧ Ok (recoverA (run fs0 (ops'.take n))) (acked (ops'.take n)) (appended (ops'.take n)) :=
  Blue.StoreFault.absorbed_faults h hs n

/-- **an absorbed failure, and the history goes on on the directory as it is** (`skip = some i`:
    call `i` is a rename into trash/ that fails; `opsOfA`: from then on a reopen does what `open`
    does to the directory it finds, `cleanup_orphans` included), crashed anywhere: the reopen yields
    a permutation of the batches `0 … k-1` with `acknowledged ≤ k ≤ appended`.  (`opsOfA … none`
    is the fault-free list `opsOf`: checked by the driver on every compared history.) -/
theorem absorbed_fault_run (h : List Client) (skip : Option Nat) (n : Nat) :
    Ok (recoverB (run fs0 ((opsOfA h fs0 kv0 skip).take n)))
        (acked ((opsOfA h fs0 kv0 skip).take n)) (appended ((opsOfA h fs0 kv0 skip).take n))
    ∧ Ok (recoverA (run fs0 ((opsOfA h fs0 kv0 skip).take n)))
        (acked ((opsOfA h fs0 kv0 skip).take n)) (appended ((opsOfA h fs0 kv0 skip).take n)) :=
  crash_recover_A_init h skip n

/-- a single absorbed fault is such a run -/
theorem absorbed_fault_is_skip {ops : List Op} {i : Nat} {x : Name} (h : ops[i]? = some (Op.sstTrash x)) :
    Skips (faultOps ops i false) ops := skips_fault h

/-- **recovery is crash safe** (a second crash during recovery): for any directory `fs` of the
    CLASS `Img fs k` (whole synced SSTs, no manifest transaction pending, logs synced, model (a)
    reopen succeeds with the batches `0 … k-1`; every crash image of every history is of the class:
    `crash_image_is_img` — with `image false` counting surviving bytes as durable, see the header),
    every prefix of what `KeyValueStore::open` does to it leaves a directory that reopens, under
    both persistence models, to exactly what `fs` reopens to; the whole of it establishes the
    block-boundary invariant from which `crash_recover` starts, with next sequence number `k` -/
theorem recover_block {fs : Fs} {k : Nat} (h : Img fs k) :
    (∀ m, recoverB (run fs ((recoverOps fs).take m)) = recoverB fs
        ∧ recoverA (run fs ((recoverOps fs).take m)) = recoverA fs)
    ∧ Inv (run fs (recoverOps fs)) (kvAfter fs)
    ∧ (kvAfter fs).next = k
    ∧ Guarded fs (recoverOps fs)
    ∧ (∀ op ∈ recoverOps fs, Quiet op) :=
  Blue.StoreFault.recover_block h

/-- every crash point of every history leaves such a directory: the crash images are in the class
    `recover_block` is about -/
theorem crash_image_is_img (h : List Client) (n : Nat) (b : Bool) :
    ∃ k, acked ((opsOf h kv0).take n) ≤ k ∧ k ≤ appended ((opsOf h kv0).take n)
      ∧ Img (image b (run fs0 ((opsOf h kv0).take n))) k :=
  crash_image_img h n b

/-- **any number of incarnations, faults and crashes**: each incarnation opens whatever directory
    the previous one left, runs any history and is cut at any point of its system-call sequence —
    inside its recovery too — by a crash under either persistence model, or by a failed call
    (`fault_epoch`: the same directory).  The last directory is again of the class `Img` and
    reopens to a permutation of `0 … k'-1` with `k'` between all the acknowledgements the client
    ever got and all the appends.  (Weaker across incarnations than `crash_recover` within one: a
    batch in flight that a crash loses frees its sequence number, the next incarnation reuses it —
    "`0 … k'-1`" identifies batches by number only.  Relative to the `image false` assumption.) -/
theorem epochs_ok (es : List Epoch) (fs : Fs) (k : Nat) (h : Img fs k) :
    ∃ k', Img (runEpochs fs es) k' ∧ k + ackedEpochs fs es ≤ k' ∧ k' ≤ k + appendedEpochs fs es :=
  Blue.StoreFault.epochs_ok es fs k h

/-- what `Img … k'` gives: the reopen succeeds under both models with the same permutation of
    `0 … k'-1` -/
theorem img_means {fs : Fs} {k : Nat} (h : Img fs k) :
    ∃ lB lA, recoverB fs = some lB ∧ lB.Perm (List.range k) ∧ recoverA fs = some lA ∧ lA.Perm (List.range k) :=
  h.recOk

/-- an incarnation ended by a surfaced fault at any call of its recovery or its history is an
    `Epoch` cut at that call (or right after it, if the call took effect) -/
theorem fault_epoch {fs : Fs} {k : Nat} (h : Img fs k) (hist : List Client) (i : Nat) (e b : Bool) (op : Op)
    (hi : (recoverOps fs ++ opsOf hist (kvAfter fs))[i]? = some op)
    (hc : isCall op = true) (hs : absorbed op = false) :
    faultOps (recoverOps fs ++ opsOf hist (kvAfter fs)) i e
      = epochOps fs ⟨hist, if e then i + 1 else i, b⟩
    ∧ ∃ k', Img (image b (run fs (faultOps (recoverOps fs ++ opsOf hist (kvAfter fs)) i e))) k'
      ∧ k + faultAcked (recoverOps fs ++ opsOf hist (kvAfter fs)) i ≤ k'
      ∧ k' ≤ k + appended ((recoverOps fs ++ opsOf hist (kvAfter fs)).take (i + 1)) :=
  Blue.StoreFault.fault_epoch h hist i e b op hi hc hs

/-- **a compaction with ANY outputs is all-or-nothing** — in particular a garbage-collecting
    compaction into the last level, whose outputs hold only a part of the inputs' entries: at every
    crash point of its system-call sequence (`compactOps`, compared with the trace of every
    compaction of the real store that writes files) the reopen sees the file set before the
    manifest transaction or the one after it, whole files either way, plus the log; under both
    persistence models.  What a GC compaction may drop is C05. -/
theorem gc_compaction_atomic {fs : Fs} {kv : Kv} (h : Inv fs kv) (ins outs : List Name)
    (hins : ∀ x ∈ ins, x ∈ kv.files) (houts : ∀ o ∈ outs, o ∉ kv.files) (hc : kv.content ∉ outs)
    (n : Nat) :
    (recoverB (run fs ((compactOps ins outs).take n)) = some (kv.files.flatten ++ kv.content)
      ∨ recoverB (run fs ((compactOps ins outs).take n))
          = some ((applyTx kv.files ⟨outs, ins⟩).flatten ++ kv.content))
    ∧ (recoverA (run fs ((compactOps ins outs).take n)) = some (kv.files.flatten ++ kv.content)
      ∨ recoverA (run fs ((compactOps ins outs).take n))
          = some ((applyTx kv.files ⟨outs, ins⟩).flatten ++ kv.content)) :=
  any_compact_block h ins outs hins houts hc n

/-- the block of a merge compaction in a history is such a list -/
theorem merge_block_is_compactOps (kv : Kv) (p : Name → Bool) (outs : List Name) (hv : validCompact kv p outs) :
    block kv (.compact p outs) = compactOps (kv.files.filter p) outs :=
  block_compact_eq kv p outs hv

/-- non-vacuity of `gc_compaction_atomic`: the files {0,1} and {2} are compacted into one output
    holding 1 and 2 (batch 0 is garbage collected): before the manifest sync a crash reopens to all
    three batches, after it to the two that were kept -/
example :
    let pre := opsOf [.put, .put, .flush, .put, .flush] kv0
    recoverB (run fs0 (pre ++ (compactOps [[0, 1], [2]] [[1, 2]]).take 5)) = some [0, 1, 2]
    ∧ recoverB (run fs0 (pre ++ (compactOps [[0, 1], [2]] [[1, 2]]).take 6)) = some [1, 2] := by decide

/-- … and the hypotheses of `gc_compaction_atomic` are discharged on that store: `Inv` after the
    history (`inv_hist`), inputs in the tree, the output a new name -/
theorem inv_hist (h : List Client) : Inv (run fs0 (opsOf h kv0)) (kvOf h kv0) :=
  Blue.StoreCrash.inv_hist h fs0 kv0 inv0

example (n : Nat) :=
  gc_compaction_atomic (inv_hist [.put, .put, .flush, .put, .flush]) [[0, 1], [2]] [[1, 2]]
    (by decide) (by decide) (by decide) n
example : (kvOf [.put, .put, .flush, .put, .flush] kv0).files = [[0, 1], [2]]
    ∧ (kvOf [.put, .put, .flush, .put, .flush] kv0).content = [] := by decide

/-- mutant at model level: moving the outputs of a compaction to the trash after its manifest
    transaction was written but the sync reported an error (what /repo dc44e03 did on its error
    path until it was corrected) leaves a manifest that lists a file which is gone: the store does
    not reopen after the process exit -/
theorem trash_outputs_after_manifest_error_breaks_reopen :
    let ops := opsOf [.put, .flush, .put, .flush] kv0
      ++ [Op.tmpCreate [1, 0] [1, 0], .tmpSync [1, 0], .link [1, 0], .tmpUnlink [1, 0],
          .maniAppend ⟨[[1, 0]], [[0], [1]]⟩, .sstTrash [1, 0]]
    recoverA (run fs0 ops) = none := by decide

/-- non-vacuity of `absorbed_fault_run`: the first rename into trash/ of a compaction fails, the
    history goes on with a put and a reopen, whose `cleanup_orphans` moves the left-over file -/
example :
    let h : List Client := [.put, .flush, .put, .flush, .compact (fun _ => true) [[1, 0]], .put, .reopen]
    opsOfA h fs0 kv0 none = opsOf h kv0
    ∧ (opsOfA h fs0 kv0 (some 28)).drop 38 = [Op.logTrash 2, Op.sstTrash [0], Op.logCreate 3] := by decide

/-- the empty store is of the class -/
theorem img_empty : Img fs0 0 := img0

/-- non-vacuity of `fault_surfaces`: the log sync of the second put fails; one acknowledgement; the
    reopen finds both batches after the process exit, the acknowledged one after a power loss -/
example :
    let ops := opsOf [.put, .put] kv0
    ops[4]? = some (Op.logSync 0) ∧ faultAcked ops 4 = 1
    ∧ recoverA (run fs0 (faultOps ops 4 false)) = some [0, 1]
    ∧ recoverB (run fs0 (faultOps ops 4 false)) = some [0] := by decide

/-- non-vacuity of `recover_block` / `epochs_ok`: a flush is cut after the SST is linked and before
    the manifest is written (model b); the recovery of that image is cut right after ITS manifest
    append, unsynced (model b again); the third incarnation finds both acknowledged batches -/
example :
    let e1 : Epoch := ⟨[.put, .put, .flush], 2 + 6 + 4, true⟩
    let e2 : Epoch := ⟨[], 3, true⟩
    recoverA (runEpochs fs0 [e1, e2]) = some [0, 1]
    ∧ (epochOps (runEpochs fs0 [e1]) ⟨[], 100, true⟩).length = 8 := by decide

/-- non-vacuity of `absorbed_faults`: the first of the two renames into trash/ of a compaction fails -/
example :
    let ops := opsOf [.put, .flush, .put, .flush, .compact (fun _ => true) [[1, 0]], .put] kv0
    ops[28]? = some (Op.sstTrash [0]) ∧ surfaced ops 28 = false
    ∧ recoverB (run fs0 (faultOps ops 28 false)) = some [1, 0, 2] := by decide

/-! ### the assumption inside `image false`, and the open-time rollover -/

/-- the manifest half of `image false` is what the rollover of `Manifest::open` does: on the
    directory a process crash leaves (files as `settle false` has them, manifest transactions
    still pending) one `maniSync` — the rename of the rolled-over manifest, before anything else
    `open` does — gives the directory `image false` postulates; after a power loss it is a no-op -/
theorem rollover_settles_manifest (fs : Fs) :
    step (settleFiles false fs) .maniSync = image false fs
    ∧ step (image true fs) .maniSync = image true fs :=
  ⟨Blue.StoreFault.rollover_settles_manifest fs, rollover_noop_after_power_loss fs⟩

/-- **incarnations with the rollover in the operation list, without the manifest half of the
    assumption** (`Blue/Proofs/StoreRollover.lean`): a process crash leaves the unsynced manifest
    transactions PENDING (`imageR false`: only the file half is kept — a log's unsynced bytes count
    as on disk); a power loss loses everything unsynced (`imageR true = image true`, no
    assumption); every incarnation starts with the rollover of `Manifest::open` (`maniSync`), then
    does what `open` does to the directory it finds then, then any history, and is cut anywhere —
    before the rollover's rename too — by a process crash, a power loss or a surfaced fault
    (`fault_epoch_rollover`).  After the rollover of the next open the last directory is of the
    class `Img`, reopening to a permutation of `0 … k'-1` with `k'` between all acknowledgements
    and all appends.  Hypothesis `e.n = 0 → e.b = false`: a power loss before the incarnation has
    done anything is the power loss of the preceding cut. -/
theorem epochs_ok_rollover (es : List Epoch) (fs : Fs) (k : Nat) (h : PreImg fs k)
    (hz : ∀ e ∈ es, e.n = 0 → e.b = false) :
    ∃ k', PreImg (runEpochsR fs es) k' ∧ k + ackedEpochsR fs es ≤ k' ∧ k' ≤ k + appendedEpochsR fs es :=
  Blue.StoreFault.epochs_ok_rollover es fs k h hz

/-- what `PreImg … k` gives, and the empty store has it -/
theorem preImg_means {fs : Fs} {k : Nat} (h : PreImg fs k) :
    (∃ lA, recoverA fs = some lA ∧ lA.Perm (List.range k))
    ∧ ∃ lB, recoverB (step fs .maniSync) = some lB ∧ lB.Perm (List.range k) :=
  Blue.StoreFault.preImg_means h

theorem preImg_empty : PreImg fs0 0 := preImg0

theorem fault_epoch_rollover (fs : Fs) (hist : List Client) (i : Nat) (e b : Bool) (op : Op)
    (hi : (Op.maniSync :: (recoverOps (step fs .maniSync) ++ opsOf hist (kvAfter (step fs .maniSync))))[i]? = some op)
    (hs : absorbed op = false) :
    faultOps (Op.maniSync :: (recoverOps (step fs .maniSync) ++ opsOf hist (kvAfter (step fs .maniSync)))) i e
      = epochOpsR fs ⟨hist, if e then i + 1 else i, b⟩ :=
  Blue.StoreFault.fault_epoch_rollover fs hist i e b op hi hs

/-- non-vacuity of `epochs_ok_rollover`, on the scenario that breaks without the rollover: a flush
    is cut by a PROCESS crash right after its manifest append (the transaction stays pending:
    `maniPending` has one entry in the image); the second incarnation is cut by a power loss after
    its rollover and three calls of its recovery; the third finds both acknowledged batches -/
example :
    let e1 : Epoch := ⟨[.put, .put, .flush], 1 + 2 + 6 + 5, false⟩
    let e2 : Epoch := ⟨[], 4, true⟩
    (runEpochsR fs0 [e1]).maniPending.length = 1 ∧ (runEpochsR fs0 [e1]).maniDurable = []
    ∧ recoverB (runEpochsR fs0 [e1, e2]) = some [0, 1]
    ∧ ackedEpochsR fs0 [e1, e2] = 2 := by decide

/-- WITHOUT the rollover the manifest half of the assumption is false in the code's protocol: a
    flush is cut by a process crash right after its manifest append (unsynced, in the page cache);
    the next incarnation sees the transaction, trashes the log, and a power loss then leaves a
    manifest without the file — the acknowledged batch 0 is gone.  With the rollover (`maniSync`
    first) it is there.  (`recoverOps` run on the directory AS IS, no `image`.) -/
example :
    let ops := (opsOf [.put, .flush] kv0).take 8
    let fs := run fs0 ops
    acked ops = 1
    ∧ recoverB (run fs (recoverOps fs)) = some []
    ∧ recoverB (run fs (.maniSync :: recoverOps fs)) = some [0] := by decide

/-- the same for a compaction cut after its manifest append: without the rollover the next
    incarnation trashes the inputs and a power loss leaves a manifest that names them — the store
    does not reopen; with the rollover it does -/
example :
    let h : List Client := [.put, .flush, .put, .flush, .compact (fun _ => true) [[1, 0]]]
    let fs := run fs0 ((opsOf h kv0).take 27)
    recoverB (run fs (recoverOps fs)) = none
    ∧ recoverB (run fs (.maniSync :: recoverOps fs)) = some [1, 0] := by decide

/-- the LOG half of the assumption has no such justification, and the batch-list bookkeeping needs
    it: batch 0 acknowledged, batch 1 appended and not synced, process crash; the next incarnation
    (rollover, then `recover_one` on the log it reads through the page cache: SST `{0,1}`, manifest
    synced) is cut by a power loss before the log goes to the trash.  With the unsynced tail NOT
    counted as durable the directory holds the SST `{0,1}` and the log `[0]`: batch 0 twice — not a
    permutation of `0 … k-1` (every acknowledged batch is there; a further reopen would write an
    SST `{0}` next to `{0,1}`).  With `image false` (tail durable) every prefix reopens to `[0, 1]`. -/
example :
    let fs := run fs0 ((opsOf [.put, .put] kv0).take 4)
    recoverB (run fs ((Op.maniSync :: recoverOps fs).take 6)) = some [0, 1, 0]
    ∧ recoverB (run (image false fs) ((recoverOps (image false fs)).take 5)) = some [0, 1] := by decide

end Fault

-- BEGIN ConcWriters
/-! ## concurrent writers (`Blue/Proofs/ConcWriters.lean`, over the composed model `Blue.ConcLog`)

`Blue.ConcLog.run P lim evs`: `ConcurrentLogBuilder` after the events `evs` — any number of clients
inside `KeyValueStore::write` at once (each calls `log.append` with ONE buffer holding all entries
of its `WriteBatch`: caller `i`, buffer `s.bufs[i]`), any coalescing by the write core and the fsync
core, any overtaking between the two queues, any `fdatasync` failing.  The write core MERGES the
buffers of the callers a leader took into one log record (`WriteBatch::merge`: concatenation), so a
record holds several client batches and a crash keeps or loses the RECORD as a whole; a client
batch is all-or-nothing because it lies wholly inside one record.  Entries are opaque (a client
batch is its buffer), as in C12; what `recover_one` replays is the concatenation of the delivered
records.  `delivered P s t`: the records the reopened iterator hands out when `t` of the bytes
written since the last successful `fdatasync` survive (`t = 0`: model (b); `t ≥ |pending|`: model
(a); in between: torn). -/
section ConcWriters
open Blue.Log
open Blue.ConcWriters (gstart LiesAt delivered readerError seqRun toyP good_toyP toyRun entriesOf Clean shared0
  buildBuffer toyPB good_toyPB toyEntryRun toyEntryRun_clean toyB0 toyB1 toyB2 toyC0 toyC1 toyC2)

/-- **a client batch lies wholly inside exactly one log record**, at a stated offset -/
theorem client_batch_in_one_record {P : Params} {lim : Nat} (evs : List Blue.ConcLog.Ev) (i : Nat)
    (w : Blue.ConcLog.WRet) (hw : (Blue.ConcLog.run P lim evs).wrets[i]? = some w) :
    let s := Blue.ConcLog.run P lim evs
    ∃ (grp : List (List Nat)) (b : List Nat),
      s.groups[w.round]? = some grp ∧ s.bufs[i]? = some b ∧ (Blue.ConcLog.merged s)[w.round]? = some grp.flatten
      ∧ gstart s w.round ≤ i ∧ i < gstart s (w.round + 1)
      ∧ grp[i - gstart s w.round]? = some b
      ∧ LiesAt b grp.flatten (grp.take (i - gstart s w.round)).flatten.length
      ∧ ∀ r', gstart s r' ≤ i → i < gstart s (r' + 1) → r' = w.round :=
  Blue.ConcWriters.client_batch_in_one_record evs i w hw

/-- **acknowledged writes of concurrent writers survive every crash**: the delivered records are
    the first `j` link-order merged records = the buffers of exactly the first `gstart s j` callers,
    each whole; every acknowledged caller is among them, its buffer wholly inside the delivered
    record `w.round` -/
theorem concurrent_acked_writes_survive_crash {P : Params} {lim : Nat} (g : Good P) (hlim : lim ≤ P.tableFull)
    (evs : List Blue.ConcLog.Ev) (t : Nat) :
    let s := Blue.ConcLog.run P lim evs
    ∃ j, j ≤ s.groups.length
      ∧ delivered P s t = (Blue.ConcLog.merged s).take j
      ∧ delivered P s t = (s.groups.take j).map List.flatten
      ∧ (s.groups.take j).flatten = s.bufs.take (gstart s j)
      ∧ gstart s j ≤ s.wrets.length
      ∧ (delivered P s t).flatten = (s.bufs.take (gstart s j)).flatten
      ∧ ∀ i, Blue.ConcLog.acked s i = true →
          i < gstart s j
          ∧ ∃ (w : Blue.ConcLog.WRet) (grp : List (List Nat)) (b : List Nat),
              s.wrets[i]? = some w ∧ w.round < j ∧ s.groups[w.round]? = some grp ∧ s.bufs[i]? = some b
              ∧ (delivered P s t)[w.round]? = some grp.flatten
              ∧ LiesAt b grp.flatten (grp.take (i - gstart s w.round)).flatten.length :=
  Blue.ConcWriters.concurrent_acked_writes_survive_crash g hlim evs t

/-- **all-or-nothing per client batch**, acknowledged or not: a caller is among the first
    `gstart s j` — its record is delivered and holds its buffer wholly — or the record that holds it
    is not delivered at all -/
theorem concurrent_batches_all_or_nothing {P : Params} {lim : Nat} (g : Good P) (hlim : lim ≤ P.tableFull)
    (evs : List Blue.ConcLog.Ev) (t : Nat) :
    let s := Blue.ConcLog.run P lim evs
    ∃ j, delivered P s t = (Blue.ConcLog.merged s).take j ∧ j ≤ s.groups.length
      ∧ (delivered P s t).flatten = (s.bufs.take (gstart s j)).flatten
      ∧ ∀ (i : Nat) (b : List Nat), s.bufs[i]? = some b →
        (i < gstart s j ∧ ∃ (w : Blue.ConcLog.WRet) (grp : List (List Nat)),
            s.wrets[i]? = some w ∧ w.round < j ∧ (delivered P s t)[w.round]? = some grp.flatten
            ∧ LiesAt b grp.flatten (grp.take (i - gstart s w.round)).flatten.length)
        ∨ (gstart s j ≤ i ∧ ∀ w, s.wrets[i]? = some w → j ≤ w.round ∧ (delivered P s t)[w.round]? = none) :=
  Blue.ConcWriters.concurrent_batches_all_or_nothing g hlim evs t

/-- **nothing no client wrote**: a delivered record is the concatenation of buffers clients called
    `append` with (`link` events) -/
theorem no_invented_batches {P : Params} {lim : Nat} (g : Good P) (hlim : lim ≤ P.tableFull)
    (evs : List Blue.ConcLog.Ev) (t : Nat) :
    (∀ record ∈ delivered P (Blue.ConcLog.run P lim evs) t,
        ∃ grp ∈ (Blue.ConcLog.run P lim evs).groups, record = grp.flatten ∧ ∀ b ∈ grp, b ∈ (Blue.ConcLog.run P lim evs).bufs)
    ∧ (∀ record ∈ delivered P (Blue.ConcLog.run P lim evs) t,
        ∃ grp : List (List Nat), record = grp.flatten ∧ ∀ b ∈ grp, Blue.ConcLog.Ev.link b ∈ evs) :=
  ⟨Blue.ConcWriters.no_invented_batches g hlim evs t, Blue.ConcWriters.delivered_buffers_are_clients g hlim evs t⟩

/-- **a writer whose covering `fdatasync` failed is not acknowledged, yet its record may survive**:
    it is in the file, delivered when all written bytes survive, and at every crash image delivered
    whole or not at all -/
theorem failed_sync_writer_not_acked_but_may_survive {P : Params} {lim : Nat} (g : Good P) (hlim : lim ≤ P.tableFull)
    (evs : List Blue.ConcLog.Ev) (i : Nat) (hf : Blue.ConcLog.failed (Blue.ConcLog.run P lim evs) i = true) :
    let s := Blue.ConcLog.run P lim evs
    Blue.ConcLog.acked s i = false
    ∧ ∃ (w : Blue.ConcLog.WRet) (grp : List (List Nat)) (b : List Nat),
        s.wrets[i]? = some w ∧ s.groups[w.round]? = some grp ∧ s.bufs[i]? = some b
        ∧ (Blue.ConcLog.merged s)[w.round]? = some grp.flatten
        ∧ LiesAt b grp.flatten (grp.take (i - gstart s w.round)).flatten.length
        ∧ (∀ t, s.file.pending.length ≤ t →
            delivered P s t = Blue.ConcLog.merged s ∧ readerError P s t = false
            ∧ (delivered P s t)[w.round]? = some grp.flatten)
        ∧ (∀ t, (delivered P s t)[w.round]? = some grp.flatten ∨ (delivered P s t)[w.round]? = none) :=
  Blue.ConcWriters.failed_sync_writer_not_acked_but_may_survive g hlim evs i hf

/-- **every crash image of a concurrent run is a crash image of a sequential history**: the
    sequential writer `write; fdatasync; acknowledge` (`Blue.LogCrash.protocol`, the log half of the
    `put` block of `Blue.StoreCrash` with batch `b` := merged record `b`) of the link-order merged
    records, stopped after `k` complete rounds, leaves BYTE FOR BYTE the model (b) image of the
    concurrent run, every acknowledged caller's record among those `k`; after all rounds, the model
    (a) image; under both models the reader ends WITHOUT an error (same bytes, same recovery);
    a torn image delivers the records of that history after `j ≥ k` rounds (the reader may then end
    with an error, as it may for the sequential writer: C12 `crash_torn_prefix`) -/
theorem concurrent_run_is_some_sequential_history {P : Params} {lim : Nat} (g : Good P) (hlim : lim ≤ P.tableFull)
    (evs : List Blue.ConcLog.Ev) :
    let s := Blue.ConcLog.run P lim evs
    let recs := Blue.ConcLog.merged s
    ∃ k, k ≤ recs.length
      ∧ Blue.LogCrash.crashB s.file = Blue.LogCrash.crashB (seqRun P recs (3 * k))
      ∧ Blue.LogCrash.crashB (seqRun P recs (3 * k)) = Blue.LogCrash.crashA (seqRun P recs (3 * k))
      ∧ Blue.LogCrash.acked ((Blue.LogCrash.protocol P recs 0 0).take (3 * k)) = k
      ∧ (∀ i, Blue.ConcLog.acked s i = true → ∃ w, s.wrets[i]? = some w ∧ w.round < k)
      ∧ Blue.LogCrash.crashA s.file = Blue.LogCrash.crashA (seqRun P recs (3 * recs.length))
      ∧ (delivered P s 0 = recs.take k ∧ readerError P s 0 = false)
      ∧ (∀ t, s.file.pending.length ≤ t → delivered P s t = recs ∧ readerError P s t = false)
      ∧ ∀ t, ∃ j, k ≤ j ∧ j ≤ recs.length ∧ delivered P s t = recs.take j
          ∧ delivered P s t = (readSome P (Blue.LogCrash.crashB (seqRun P recs (3 * j))) (recs.length + 1) 0).1 :=
  Blue.ConcWriters.concurrent_run_is_some_sequential_history g hlim evs

/-- non-vacuity, on the run `toyRun` (= C12 `concToyRun`): three client writers, callers 0 and 1
    coalesced into ONE record, ONE `fdatasync` covering the two, caller 2's record written while it
    is in flight.  `s`: right after that call returned — callers 0 and 1 acknowledged, caller 2 not.
    Crash with none (model (b)) / 5 (torn) / all 12 (model (a)) of the pending bytes: one record and
    a clean end / one record and a reader error / both records.  Caller 1's buffer `[4,5]` lies in
    record 0 at offset 3.  `s'`: caller 2's own `fdatasync` has FAILED — not acknowledged, record
    not delivered after a power loss, delivered whole after a process crash.  The model (b) image is
    the file of the sequential writer after 1 round, the model (a) image after 2. -/
example :
    let s := Blue.ConcLog.run toyP 12 (toyRun.take 9)
    let s' := Blue.ConcLog.run toyP 12 toyRun
    s.bufs = [[1, 2, 3], [4, 5], [6, 7, 8, 9]]
    ∧ Blue.ConcLog.merged s = [[1, 2, 3, 4, 5], [6, 7, 8, 9]]
    ∧ (gstart s 0, gstart s 1, gstart s 2) = (0, 2, 3)
    ∧ (Blue.ConcLog.acked s 0, Blue.ConcLog.acked s 1, Blue.ConcLog.acked s 2) = (true, true, false)
    ∧ (delivered toyP s 0, readerError toyP s 0) = ([[1, 2, 3, 4, 5]], false)
    ∧ (delivered toyP s 5, readerError toyP s 5) = ([[1, 2, 3, 4, 5]], true)
    ∧ (delivered toyP s 12, readerError toyP s 12) = ([[1, 2, 3, 4, 5], [6, 7, 8, 9]], false)
    ∧ LiesAt [4, 5] [1, 2, 3, 4, 5] 3
    ∧ (Blue.ConcLog.failed s' 2, Blue.ConcLog.acked s' 2) = (true, false)
    ∧ s'.file.pending.length = 12
    ∧ delivered toyP s' 0 = [[1, 2, 3, 4, 5]]
    ∧ delivered toyP s' 12 = [[1, 2, 3, 4, 5], [6, 7, 8, 9]]
    ∧ Blue.LogCrash.crashB s.file = Blue.LogCrash.crashB (seqRun toyP (Blue.ConcLog.merged s) 3)
    ∧ Blue.LogCrash.crashA s.file = Blue.LogCrash.crashA (seqRun toyP (Blue.ConcLog.merged s) 6) := by decide

/-- … and the theorems apply to it (hypotheses discharged) -/
example := client_batch_in_one_record (P := toyP) (lim := 12) (toyRun.take 9) 1 ⟨0, 5⟩ (by decide)
example (t : Nat) := concurrent_acked_writes_survive_crash good_toyP (lim := 12) (by decide) (toyRun.take 9) t
example (t : Nat) := concurrent_batches_all_or_nothing good_toyP (lim := 12) (by decide) toyRun t
example (t : Nat) := no_invented_batches good_toyP (lim := 12) (by decide) toyRun t
example := failed_sync_writer_not_acked_but_may_survive good_toyP (lim := 12) (by decide) toyRun 2 (by decide)
example := concurrent_run_is_some_sequential_history good_toyP (lim := 12) (by decide) toyRun
/-- **the store-level sequential history**: `k` sequential puts of `Blue.StoreCrash` are, per batch,
    `append to the log; fdatasync; acknowledge` (the events of `Blue.LogCrash.protocol`, whose file
    is `seqRun`); after them there are `k` acknowledgements and the reopen yields exactly the
    batches `0 … k-1` under both models (`crash_recover` at the end of that history).  With `k` of
    `concurrent_run_is_some_sequential_history` and batch `b` := merged record `b`, the log of that
    store is byte for byte the model (b) image of the concurrent run. -/
theorem sequential_puts_recover (k : Nat) :
    opsOf (List.replicate k Client.put) kv0
      = (List.range k).flatMap (fun b => [Op.logAppend 0 (0 + b), .logSync 0, .ack (0 + b)])
    ∧ Blue.StoreCrash.acked (opsOf (List.replicate k Client.put) kv0) = k
    ∧ appended (opsOf (List.replicate k Client.put) kv0) = k
    ∧ (∃ l, recoverB (run fs0 (opsOf (List.replicate k Client.put) kv0)) = some l ∧ l.Perm (List.range k))
    ∧ (∃ l, recoverA (run fs0 (opsOf (List.replicate k Client.put) kv0)) = some l ∧ l.Perm (List.range k)) :=
  ⟨Blue.ConcWriters.puts_ops k kv0, Blue.ConcWriters.sequential_puts_recover k⟩

/-- **recovery, entry by entry** (`LogIterator::next` decodes each delivered record entry by entry,
    `Blue.Damage.batchEntries` / `deliver`; `log_to_builder` collects the entries, `replayOf`).
    Every caller's buffer decodes cleanly (`hclean`; discharged for the buffers `WriteBatch::insert`
    builds by `built_buffer_clean`).  At every crash image: the entries handed to `log_to_builder`
    are exactly the entries of the client batches of callers `0 … gstart s j - 1`, in link order —
    each of those batches with ALL its entries, no entry of any other batch; every acknowledged
    caller is below `gstart s j`; when the frame reader ends without an error (always under the two
    persistence models) that is what the recovered SST is built from -/
theorem concurrent_recovery_entries {P : Params} {lim : Nat} (g : Good P) (hlim : lim ≤ P.tableFull)
    (evs : List Blue.ConcLog.Ev) (t : Nat) (hclean : ∀ b ∈ (Blue.ConcLog.run P lim evs).bufs, Clean b) :
    let s := Blue.ConcLog.run P lim evs
    ∃ j, j ≤ s.groups.length ∧ delivered P s t = (Blue.ConcLog.merged s).take j
      ∧ Blue.Damage.deliver (delivered P s t) (readerError P s t)
          = (((s.bufs.take (gstart s j)).map entriesOf).flatten, readerError P s t)
      ∧ (∀ i, Blue.ConcLog.acked s i = true → i < gstart s j)
      ∧ (readerError P s t = false →
          Blue.Damage.replayOf (Blue.Damage.deliver (delivered P s t) (readerError P s t))
            = Blue.Damage.replayOf (((s.bufs.take (gstart s j)).map entriesOf).flatten, false)) :=
  Blue.ConcWriters.concurrent_recovery_entries g hlim evs t hclean

/-- the buffer `WriteBatch::insert` builds from a non-empty list of well-formed entries (`shared = 0`)
    decodes cleanly, to exactly those entries -/
theorem built_buffer_clean (es : List Blue.EntryCodec.Entry) (hne : es ≠ [])
    (hw : ∀ e ∈ es, e.Wf ∧ shared0 e) :
    Clean (buildBuffer es) ∧ entriesOf (buildBuffer es) = es.map Blue.ConcWriters.kvOf :=
  Blue.ConcWriters.built_buffer_clean es hne hw

/-- non-vacuity with real entries: client 0's `WriteBatch` has TWO entries, clients 1 and 2 one
    each (`toyB0/1/2` are the bytes `WriteBatch::insert` builds: `toy_buffers_built`); clients 0 and
    1 are merged into one record and acknowledged by one `fdatasync`; after a power loss the
    iterator hands out the two entries of client 0 and the entry of client 1, nothing of client 2;
    after a process crash all four -/
example :
    let s := Blue.ConcLog.run toyPB 40 (toyEntryRun.take 9)
    s.bufs = [toyB0, toyB1, toyB2]
    ∧ (Blue.ConcLog.acked s 0, Blue.ConcLog.acked s 1, Blue.ConcLog.acked s 2) = (true, true, false)
    ∧ (delivered toyPB s 0, readerError toyPB s 0) = ([toyB0 ++ toyB1], false)
    ∧ (gstart s 1, gstart s 2) = (2, 3)
    ∧ Blue.Damage.deliver (delivered toyPB s 0) false = ((toyC0 ++ toyC1).map Blue.ConcWriters.kvOf, false)
    ∧ Blue.Damage.deliver (delivered toyPB s 16) false = ((toyC0 ++ toyC1 ++ toyC2).map Blue.ConcWriters.kvOf, false) := by
  decide +kernel
example (t : Nat) :=
  concurrent_recovery_entries good_toyPB (lim := 40) (by decide) (toyEntryRun.take 9) t (toyEntryRun_clean 9)
example := Blue.ConcWriters.toy_buffers_built
example := Blue.ConcWriters.toy_buffers_clean
end ConcWriters
-- END ConcWriters

end Blue.Props.C02

#print axioms Blue.Props.C02.crash_recover
#print axioms Blue.Props.C02.ok_means
#print axioms Blue.Props.C02.ack_mem
#print axioms Blue.Props.C02.inv_hist
#print axioms Blue.Props.C02.rollover_settles_manifest
#print axioms Blue.Props.C02.epochs_ok_rollover
#print axioms Blue.Props.C02.preImg_means
#print axioms Blue.Props.C02.preImg_empty
#print axioms Blue.Props.C02.fault_epoch_rollover
#print axioms Blue.Props.C02.frame_ops_invisible
#print axioms Blue.Props.C02.mutants
#print axioms Blue.Props.C02.fault_surfaces
#print axioms Blue.Props.C02.absorbed_faults
#print axioms Blue.Props.C02.absorbed_fault_is_skip
#print axioms Blue.Props.C02.absorbed_fault_run
#print axioms Blue.Props.C02.gc_compaction_atomic
#print axioms Blue.Props.C02.merge_block_is_compactOps
#print axioms Blue.Props.C02.trash_outputs_after_manifest_error_breaks_reopen
#print axioms Blue.Props.C02.recover_block
#print axioms Blue.Props.C02.crash_image_is_img
#print axioms Blue.Props.C02.epochs_ok
#print axioms Blue.Props.C02.img_means
#print axioms Blue.Props.C02.fault_epoch
#print axioms Blue.Props.C02.img_empty
#print axioms Blue.Props.C02.client_batch_in_one_record
#print axioms Blue.Props.C02.concurrent_acked_writes_survive_crash
#print axioms Blue.Props.C02.concurrent_batches_all_or_nothing
#print axioms Blue.Props.C02.no_invented_batches
#print axioms Blue.Props.C02.failed_sync_writer_not_acked_but_may_survive
#print axioms Blue.Props.C02.concurrent_run_is_some_sequential_history
#print axioms Blue.Props.C02.sequential_puts_recover
#print axioms Blue.Props.C02.concurrent_recovery_entries
#print axioms Blue.Props.C02.built_buffer_clean
#print axioms Blue.LogCrash.crash_prefix
#print axioms Blue.FlushCrash.crash_recover_B
#print axioms Blue.FlushCrash.crash_recover_A
#print axioms Blue.StoreCrash.tx_block
#print axioms Blue.FsyncCore.answered_true_is_durable
#print axioms Blue.FsyncCore.run_answered_true_is_durable
#print axioms Blue.FsyncCore.synced_before_failed_call_loses_durability
#print axioms Blue.StoreCrash.trash_inputs_early_breaks_reopen
