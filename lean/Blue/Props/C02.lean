import Blue.Proofs.LogCrash
import Blue.Proofs.LogTrunc
import Blue.Proofs.FlushCrash
import Blue.Proofs.StoreCrash
import Blue.Proofs.FsyncCore
/-! # Property C02 — acknowledged writes survive any crash; recovery is all-or-nothing per batch

Property theorems only.  `Blue.StoreCrash` models the store's file-system protocol: the
operation list `opsOf h` that a history `h` of puts, flushes, clean reopens and compactions
issues (log append / sync / ack; write and sync an SST under tmp/, link it, append and sync one
manifest transaction, move the inputs to the trash, unlink the temporaries), a logical file
system with per-file durable content, and `recoverA` / `recoverB` — `KeyValueStore::open` on the
image a crash leaves under (a) "completed calls persist" and (b) "unsynced bytes are lost".
The correspondence check derives the same operation list from an `strace` of the real store and
compares it with `opsOf` (canonicalisation rules spelled out in `harness/src/c02.rs`), and reopens
the real crash image of every prefix with the real code.

`crash_recover` is at batch granularity with whole system calls; a torn log tail is
`truncated_log_prefix` (C12), a torn manifest `torn_manifest` (C13).  Assumption shared with the
run-time images: directory operations are durable at once and in program order (the code never
fsyncs a directory).  Not covered by a theorem: GC drops inside a compaction (C05), a flush
racing a compaction, a crash during recovery from an earlier crash (explored by the check). -/
namespace Blue.Props.C02
open Blue.StoreCrash

/-- **for every history, every crash point `n` in its system-call sequence, both persistence
    models: the reopen succeeds and yields exactly the batches `0 … k-1` (as a permutation) with
    `acknowledged ≤ k ≤ appended`** — every acknowledged write, at most the one in flight in
    addition, nothing invented, nothing partial -/
theorem crash_recover (h : List Client) (n : Nat) :
    Ok (recoverB (run fs0 ((opsOf h kv0).take n))) (acked ((opsOf h kv0).take n)) (appended ((opsOf h kv0).take n))
    ∧ Ok (recoverA (run fs0 ((opsOf h kv0).take n))) (acked ((opsOf h kv0).take n)) (appended ((opsOf h kv0).take n)) :=
  crash_recover_init h n

/-- what `Ok` says -/
theorem ok_means (r : Option (List Nat)) (lo hi : Nat) :
    Ok r lo hi ↔ ∃ l k, r = some l ∧ l.Perm (List.range k) ∧ lo ≤ k ∧ k ≤ hi := Iff.rfl

/-- operations on tmp/, acknowledgements, creating an empty log, linking or trashing a name the
    manifest does not list cannot change what a reopen sees (the justification of the
    canonicalisation rules of the trace comparison) -/
theorem frame_ops_invisible {view : File → List Nat} (hv : view ⟨[], []⟩ = []) {txs : List Tx} {fs : Fs} {op : Op}
    (h : FrameOp (live txs) op) :
    recover view txs (step fs op) = recover view txs fs
    ∧ (step fs op).maniDurable = fs.maniDurable ∧ (step fs op).maniPending = fs.maniPending :=
  frame_step hv h

/-- mutants at model level (each a closed counterexample): trashing the log before the manifest
    edit loses an acknowledged write; linking an unsynced SST, or trashing compaction inputs before
    the transaction is durable, makes the reopen fail -/
theorem mutants :
    Blue.FlushCrash.recoverB (Blue.FlushCrash.run Blue.FlushCrash.fs0
        ((Blue.FlushCrash.opsOf [.put] Blue.FlushCrash.kv0 ++ Blue.FlushCrash.flushBad [0] 0).take 8)) = some []
    ∧ Blue.FlushCrash.recoverB (Blue.FlushCrash.run Blue.FlushCrash.fs0
        (Blue.FlushCrash.opsOf [.put] Blue.FlushCrash.kv0 ++ Blue.FlushCrash.flushNoSync [0] 0)) = none :=
  ⟨Blue.FlushCrash.trash_before_manifest_loses, Blue.FlushCrash.unsynced_sst_breaks_reopen⟩

/-- non-vacuity: two flushed files are compacted into one; the crash falls right after the manifest
    transaction is synced, with the inputs still in sst/ -/
example :
    let h : List Client := [.put, .flush, .put, .flush, .compact (fun _ => true) [[1, 0]], .put]
    recoverB (run fs0 ((opsOf h kv0).take 28)) = some [1, 0] := by decide

end Blue.Props.C02

#print axioms Blue.Props.C02.crash_recover
#print axioms Blue.Props.C02.ok_means
#print axioms Blue.Props.C02.frame_ops_invisible
#print axioms Blue.Props.C02.mutants
#print axioms Blue.LogCrash.crash_prefix
#print axioms Blue.FlushCrash.crash_recover_B
#print axioms Blue.FlushCrash.crash_recover_A
#print axioms Blue.StoreCrash.tx_block
#print axioms Blue.FsyncCore.answered_true_is_durable
#print axioms Blue.StoreCrash.trash_inputs_early_breaks_reopen
