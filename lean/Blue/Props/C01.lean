import Blue.Proofs.LoadVisible
import Blue.Proofs.Compaction
import Blue.Proofs.LevelSlice
import Blue.Proofs.SelectorClosed
import Blue.Proofs.BoundsFixed
import Blue.Proofs.Kvs
import Blue.Proofs.TrivialMove
import Blue.Proofs.ExpandClosed
import Blue.Proofs.NextCompactionMain
import Blue.Proofs.ConstsTieC01
/-! # Property C01 — point reads return the latest write, whatever the tree did in between

Property theorems only.  The store is modelled as the list of its components in *search order*
(memtable, immutable memtable, level-0 files by descending newest timestamp, then each deeper
level's files); a version is `(key, timestamp)`.  `Blue.Kvs.kvsLoad` is the executable model of
`KeyValueStore::load` on a dumped state — the function the correspondence check runs against the
implementation after every operation of every history — and `Blue.Kvs.invB` is the decidable form
of the tree invariants I1 (levels ≥ 1 sorted, ranges at most touching) ∧ I2 ("newer above").

`invB` is more than "levels sorted": I1 = every level ≥ 1 sorted by key with at most touching
ranges (`sortedB`) AND every file's version keys inside its `[first, last]` with `first ≤ last`
(`wfB`); I2 = "newer above" in search order (`newerAboveB`).

What is proved: on every state satisfying I1 ∧ I2 the read returns exactly the visible
`(key, timestamp)` version (`read_returns_latest`); on *component lists*, every *closed* compaction
with any outputs and any cut points (with or without GC drops) and trivial moves preserve I2 and,
when nothing is dropped, every read at every timestamp (`step_compaction*`); a component put on top
preserves I2 **if** it is newer than everything stored — that is a hypothesis of `step_ingest`
(a model fact: the two conjuncts of the definition of `NewerAbove (c :: cs)`), not something proved
of `put`/`flush`/ingest; the selector's slices (`selector_slices_closed`), the
trivial move and `expand_compaction` as repaired (`trivial_move_closed`, `expansion_closed`) are
closed, each from the guarantee its loop establishes (`Selection.Ok`, `Expansion.Ok`).

The selector itself is modelled as a function: `Blue.NextCompaction.nextCompaction` follows
`Version::next_compaction` path by path (trivial moves, the level-0 hull, the per-file candidates of
the deeper levels, `compute_bounds`, `find_best_compaction` with its limits, `expand_compaction`,
`may_choose_compaction` with the compactions in flight, the mandatory rule, the level curve and
the `f64` score scaling) and is compared with the real choice — levels, key range, input ids in
order — at every compaction step of every history.  For that function it is proved, for ALL trees
satisfying the tree invariant `Inv` (files well-formed, levels below level 0 sorted by key, ids
distinct), all options, all compactions in flight and all floating-point tables, that the modelled
loops establish `Selection.Ok` / `Expansion.Ok` / the trivial-move side conditions
(`compute_bounds_establishes_selection_ok`, `expand_candidate_closed`) and hence that whatever it
returns is closed (`nextCompaction_closed`), keeps I2 (`nextCompaction_keeps_newer_above`), names
no input of a compaction in flight (`nextCompaction_respects_ongoing`) and respects the file limits
up to the one-file overshoot of `expand_compaction` (`nextCompaction_within_limits`).

What is NOT modelled (see `partial`/`assumptions` of the claim): values and tombstones — a version
is a `(key, timestamp)` pair, which determines the payload; "a deleted key reads as `None`" and
"the read timestamp is the last completed sequence number" are compared by the oracle only.  There
is no history / step relation of the store in C01: no theorem for put/del/batch, memtable
rollover, flush, reopen or the verifier/trash clean-ups, none that ties `kept ++ outs ++ post` to
the `allComps` of the successor state (`apply_compaction_inner`), none for I1, and none relating
`Blue.Kvs.invB` to `Blue.NextCompaction.Inv`.  "The last completed write of the history" is
therefore a statement about each dumped state, tied to the history by the check.

What is checked per run rather than proved: that the implementation's reached states satisfy
`invB` (and the trees the selector runs on `Blue.NextCompaction.invB`), that the function model
returns what the real selector returns, and — independently of the model — that every compaction
the real selector chose is `closedB` on the state it was chosen in.
`recover` (level reassignment on reopen) does **not** preserve I1/I2 — known finding D-9. -/
namespace Blue.Props.C01
open Blue.Spec Blue.Kvs

/-- **reads return the latest write**: if the decidable invariant check passes on a store state,
    the model `kvsLoad` of `KeyValueStore::load` returns exactly the newest `(key, timestamp)`
    version not newer than `t` of the union of everything the store holds, and nothing if there is
    none.  Values and tombstones are not in the model (the pair determines the payload; tombstone
    → `None` and "read timestamp = last completed sequence number" are oracle-only). -/
theorem read_returns_latest (s : KState) (h : invB s = true) (k t : Nat) :
    (kvsLoad s k t = none → NoneVisible (allComps s).flatten k t)
    ∧ (∀ b, kvsLoad s k t = some b → IsVisible (allComps s).flatten k t b) :=
  kvsLoad_visible s h k t

/-- the abstract form: early-exit lookup through components ordered "newer above" -/
theorem load_visible {K : Type} [DecidableEq K] (cs : List (List (Ver K))) (k : K) (t : Nat)
    (h : NewerAbove cs) :
    match load cs k t with
    | none => NoneVisible cs.flatten k t
    | some b => IsVisible cs.flatten k t b := Blue.Spec.load_visible cs k t h

/-- `Version::load`'s `lower_bound..upper_bound` slices find what searching whole levels finds -/
theorem tree_lookup_slices (l0 : List (List (Ver Nat))) (levels : List (List TFile))
    (hs : ∀ l ∈ levels, LevelSorted l) (hw : ∀ l ∈ levels, ∀ f ∈ l, f.Wf) (k t : Nat) :
    treeLoad l0 levels k t = load (l0 ++ levels.flatMap (fun l => l.map (·.vers))) k t :=
  treeLoad_eq l0 levels hs hw k t

/-- MODEL FACT (restated definition, not a step theorem of the store): a component put on top of
    the search order keeps "newer above" **provided** it is newer than everything stored for the
    keys it shares — `hn` and `h` are exactly the two conjuncts of `NewerAbove (c :: cs)`.  That a
    rolled-over memtable / an ingested file IS newer than everything stored is proved nowhere in
    C01 (it is the sequence-number discipline of C06, observed here through `invB` on every dumped
    state); a flush does not even put its file on top (the file replaces the immutable memtable
    in level 0, below the memtables): no theorem covers put/del/batch, rollover or flush. -/
theorem step_ingest {K : Type} [DecidableEq K] (c : List (Ver K)) (cs : List (List (Ver K)))
    (h : NewerAbove cs) (hn : ∀ a ∈ c, ∀ b ∈ cs.flatten, a.1 = b.1 → b.2 < a.2) :
    NewerAbove (c :: cs) := ingest_preserves c cs h hn

/-- compaction (any outputs made of input versions, any cut points, GC drops allowed): a *closed*
    selection keeps "newer above" -/
theorem step_compaction {K : Type} [DecidableEq K] (pre : Tagged K) (post outs : List (List (Ver K)))
    (h : NewerAbove (pre.map (·.2) ++ post)) (hclosed : Closed pre)
    (hsub : ∀ e ∈ outs.flatten, e ∈ (inputs pre).flatten) (houts : NewerAbove outs) :
    NewerAbove (kept pre ++ outs ++ post) := compaction_preserves pre post outs h hclosed hsub houts

/-- … and when nothing is dropped, no read at any key and timestamp changes -/
theorem step_compaction_reads {K : Type} [DecidableEq K] (pre : Tagged K) (post outs : List (List (Ver K)))
    (h : NewerAbove (pre.map (·.2) ++ post)) (hclosed : Closed pre)
    (hsame : ∀ e, e ∈ outs.flatten ↔ e ∈ (inputs pre).flatten) (houts : NewerAbove outs)
    (k : K) (t : Nat) :
    load (kept pre ++ outs ++ post) k t = load (pre.map (·.2) ++ post) k t :=
  compaction_reads_unchanged pre post outs h hclosed hsame houts k t

/-- the driver's decidable closedness check is sound for `Closed` -/
theorem closed_check_sound (pre : Tagged Nat) (h : closedB pre = true) : Closed pre := closedB_sound pre h

/-- a selection read off ranges that widen with depth and cover what they take is closed -/
theorem selector_slices_closed (s : Selection) (levels : List (Nat × List TFile))
    (hlv : levels.Pairwise (fun a b => a.1 < b.1)) (hup : ∀ l ∈ levels, l.1 ≤ s.upper)
    (hwf : ∀ p ∈ levels, ∀ f ∈ p.2, f.Wf) (hok : s.Ok levels) : Closed (tagLevels s levels) :=
  selection_closed s levels hlv hup hwf hok

/-- the trivial move as repaired (nothing else in the file's own level and nothing in the next
    level meets its key range) is a closed selection -/
theorem trivial_move_closed (lvl : Nat) (f : TFile) (levels : List (Nat × List TFile))
    (hlv : levels.Pairwise (fun a b => a.1 < b.1)) (hup : ∀ l ∈ levels, l.1 ≤ lvl + 1)
    (hwf : ∀ l ∈ levels, ∀ g ∈ l.2, g.Wf)
    (halone : ∀ l ∈ levels, ∀ g ∈ l.2, lvl ≤ l.1 → (⟨f.first, f.last⟩ : Rng).meets g = true → g = f) :
    Closed (tagLevels (moveSel lvl f) levels) := Blue.Spec.trivial_move_closed lvl f levels hlv hup hwf halone

/-- `expand_compaction` as repaired (a level's files inside the window are added only if every file
    of that level meeting the window lies inside it; the window narrows to what was added) yields a
    closed selection -/
theorem expansion_closed (e : Expansion) (levels : List (Nat × List TFile))
    (hlv : levels.Pairwise (fun a b => a.1 < b.1)) (hup : ∀ l ∈ levels, l.1 ≤ e.base.upper)
    (hwf : ∀ l ∈ levels, ∀ f ∈ l.2, f.Wf) (hok : e.Ok levels) :
    Closed (tagBy e.inp levels) := Blue.Spec.expansion_closed e levels hlv hup hwf hok

/-- why closedness is needed (the shape of the trivial-move defect D-25 and of D-8): an input above
    and below a kept component sharing a key — the read returns the kept, older version -/
theorem open_compaction_stale_read_witness :
    let pre : Tagged Nat := [(true, [(1, 9)]), (false, [(1, 5)]), (true, [(1, 2)])]
    NewerAbove (pre.map (·.2)) ∧
    load (pre.map (·.2)) 1 10 = some (1, 9) ∧
    load (kept pre ++ [[(1, 9), (1, 2)]]) 1 10 = some (1, 5) := open_compaction_stale_read


/-! ## the selector as a function -/

open Blue.NextCompaction in
/-- **the loops of `compute_bounds` establish `Selection.Ok`**: on every tree satisfying `Inv`, for
    every lower level and starting range (for level 0: a range covering level 0, as the hull
    `next_compaction` passes does), the selection `selOf` made of the computed bounds' `[first,
    last]` per level has ranges that widen with depth and cover what they take — the hypothesis of
    `selector_slices_closed`.  (`selOf` reads only `first`/`last` of the computed slices; that the
    *index slices* `lo..hi` the code takes are exactly the files that selection takes is the next
    theorem.) -/
theorem compute_bounds_establishes_selection_ok {t : Tree} (hinv : Inv t) (lower first last upper : Nat)
    (hhull : lower = 0 → ∀ g ∈ level t 0, first ≤ g.first ∧ g.last ≤ last) (hup : upper < t.length) :
    (selOf (computeBounds t lower first last) lower upper).Ok (toTL (numLevels t upper)) :=
  selection_ok (computeBounds_ok hinv lower first last hhull) hup

open Blue.NextCompaction in
/-- … and the files in the computed index slices are exactly the files whose key range meets the
    selection's range of their level: `selOf` takes what `compute_bounds`' slices hold -/
theorem compute_bounds_slices_are_taken_files {t : Tree} (hinv : Inv t) (lower first last upper : Nat)
    (hhull : lower = 0 → ∀ g ∈ level t 0, first ≤ g.first ∧ g.last ≤ last) (hup : upper < t.length)
    {l : Nat} {g : File} (hg : g ∈ level t l) :
    (selOf (computeBounds t lower first last) lower upper).takes l (toT g) = true ↔
      lower ≤ l ∧ l ≤ upper ∧ g ∈ sliceFiles (level t l) ((computeBounds t lower first last).getD l ⟨0, 0, 0, 0⟩) :=
  takes_selOf (computeBounds_ok hinv lower first last hhull) hup hg

open Blue.NextCompaction in
/-- **the loop of `expand_compaction` (repaired) establishes `Expansion.Ok`, and every candidate of
    `find_best_compaction` is closed**: the slices of levels `lower ..= lower + d` plus whatever
    `expand_compaction` adds (proved inside via `expansion_closed`) -/
theorem expand_candidate_closed (o : Opts) {t : Tree} (hinv : Inv t) (lower first last d sz : Nat)
    (hhull : lower = 0 → ∀ g ∈ level t 0, first ≤ g.first ∧ g.last ≤ last) (hup : lower + d < t.length) :
    Closed (tagTree t (candOver o t lower (computeBounds t lower first last) d sz)) :=
  (expand_closed o hinv (computeBounds_ok hinv lower first last hhull) hup sz).1

open Blue.NextCompaction in
/-- **every compaction the selector returns is closed** on the tree it was chosen in — all trees
    satisfying `Inv`, all options, all compactions in flight, all floating-point tables -/
theorem nextCompaction_closed (n : Num) (o : Opts) (t : Tree) (og : List Core) (hinv : Inv t)
    {c : Core} (h : nextCompaction n o t og = some c) : Closed (tagTree t c) :=
  Blue.NextCompaction.nextCompaction_closed n o t og hinv h

open Blue.NextCompaction in
/-- … and therefore keeps "newer above" (I2), whatever outputs the compaction writes — **on the
    tree the choice was made on** (`hna` is about `tagTree t c`): applying the compaction after
    another compaction in flight finished or after intervening flushes changed the tree is not
    covered by a theorem (the check compares every real choice on the tree it was made on and
    `invB` on every state reached afterwards) -/
theorem nextCompaction_keeps_newer_above (n : Num) (o : Opts) (t : Tree) (og : List Core) (hinv : Inv t)
    {c : Core} (h : nextCompaction n o t og = some c)
    (mems post outs : List (List (Ver Nat)))
    (hna : NewerAbove ((mems.map (fun m => (false, m)) ++ tagTree t c).map (·.2) ++ post))
    (hsub : ∀ e ∈ outs.flatten, e ∈ (inputs (mems.map (fun m => (false, m)) ++ tagTree t c)).flatten)
    (houts : NewerAbove outs) :
    NewerAbove (kept (mems.map (fun m => (false, m)) ++ tagTree t c) ++ outs ++ post) :=
  Blue.NextCompaction.nextCompaction_keeps_newer_above n o t og hinv h mems post outs hna hsub houts

open Blue.NextCompaction in
/-- **the chosen inputs are disjoint from the inputs of every compaction in flight** (whose inputs,
    as far as they are still in the tree, lie at its levels and inside its key range — which
    `nextCompaction_inputs_within` proves of every compaction the selector itself returned) -/
theorem nextCompaction_respects_ongoing (n : Num) (o : Opts) (t : Tree) (og : List Core) (hinv : Inv t)
    (hog : ∀ g ∈ og, OngoingWf t g) {c : Core} (h : nextCompaction n o t og = some c) :
    ∀ g ∈ og, ∀ id ∈ c.inputs, id ∉ g.inputs :=
  Blue.NextCompaction.nextCompaction_respects_ongoing n o t og hinv hog h

open Blue.NextCompaction in
/-- every input of a returned compaction is a file of the tree at one of its levels, inside its key range -/
theorem nextCompaction_inputs_within (n : Num) (o : Opts) (t : Tree) (og : List Core) (hinv : Inv t)
    {c : Core} (h : nextCompaction n o t og = some c) : InputsWithin t c :=
  Blue.NextCompaction.nextCompaction_inputs_within n o t og hinv h

open Blue.NextCompaction in
/-- **limits**: at most `max_compaction_files + 1` inputs (`expand_compaction` tests the limit before
    it adds a file: the bound is reached in the runs), and with the inputs of the compactions in
    flight fewer than `max_open_files` -/
theorem nextCompaction_within_limits (n : Num) (o : Opts) (t : Tree) (og : List Core)
    {c : Core} (h : nextCompaction n o t og = some c) :
    c.inputs.length ≤ o.maxCompactionFiles + 1
    ∧ c.inputs.length + (og.map (fun g => g.inputs.length)).sum < o.maxOpenFiles :=
  Blue.NextCompaction.nextCompaction_within_limits n o t og h

open Blue.NextCompaction in
/-- the driver's decidable tree-invariant check is sound for `Inv` -/
theorem tree_invariant_check_sound {t : Tree} (h : Blue.NextCompaction.invB t = true) : Inv t := invB_sound h

open Blue.NextCompaction in
/-- the `while !fixed_point` loop of `compute_bounds` ends at a fixed point within the model's fuel,
    on any level whatsoever (sorted or not) -/
theorem compute_bounds_loop_reaches_fixed_point (lvl : List File) (first last : Nat) :
    Fixed lvl first last (levelBounds lvl first last) := levelBounds_fixed lvl first last

/-! non-vacuity: a five-level tree (two overlapping files in level 0, three in level 1 under a wide
    file of level 2, a wide file in level 3, level 4 empty) satisfies `Inv`; the selector's three
    kinds of answer on it, all by evaluation of the function model:
    * nothing in flight: the trivial move of the level-3 file;
    * that move in flight: the level-0 hull merged through levels 0..2 (six inputs, chosen by score);
    * level 0 at the mandatory threshold: the "clear out for level 0" replacement — the candidate
      started from the first level-1 file, whose slices are files 3 and 6 and to which
      `expand_compaction` adds files 4 and 5. -/
namespace Example
open Blue.NextCompaction

def mk (id first last size bts : Nat) (vers : List (Nat × Nat)) : File := ⟨id, first, last, size, bts, vers⟩

def tree : Tree :=
  [[mk 1 2 6 100 10 [(2, 10), (6, 9)], mk 2 4 9 100 12 [(4, 12), (9, 11)]],
   [mk 3 1 3 100 5 [(1, 5), (3, 4)], mk 4 5 7 100 6 [(5, 6)], mk 5 9 12 100 7 [(9, 7), (12, 3)]],
   [mk 6 0 20 400 2 [(0, 2), (6, 1)]],
   [mk 7 0 30 5000 1 [(30, 0)]],
   []]

def opts : Opts := ⟨100, 1000000, 8, 4, 1000000⟩
def move : Core := ⟨3, 4, 0, 30, [7], 5000⟩

theorem tree_inv : Inv tree := invB_sound (by decide +kernel)

theorem chooses_move : nextCompaction ieee opts tree [] = some move := by decide +kernel

theorem chooses_merge_with_move_in_flight :
    nextCompaction ieee opts tree [move] = some ⟨0, 2, 0, 20, [1, 2, 3, 4, 5, 6], 900⟩ := by decide +kernel

theorem chooses_expanded_mandatory :
    nextCompaction ieee { opts with mandFiles := 2 } tree [move] = some ⟨1, 2, 0, 20, [3, 6, 4, 5], 500⟩ := by
  decide +kernel

/-- the hypotheses of `nextCompaction_closed` / `_respects_ongoing` are satisfiable with a
    compaction in flight; `_respects_ongoing` says something (six inputs, none of them file 7).
    NOTE: in this example and the next-but-one no kept component lies below an input (tags
    `[T,T,T,T,T,T]` and `[F,F,T,T,T,T]`), so `Closed` would hold for any versions; the instance
    on which `Closed` has content is `t2` below. -/
example : Closed (tagTree tree ⟨0, 2, 0, 20, [1, 2, 3, 4, 5, 6], 900⟩) :=
  Blue.Props.C01.nextCompaction_closed ieee opts tree [move] tree_inv chooses_merge_with_move_in_flight

example : ∀ g ∈ [move], ∀ id ∈ [1, 2, 3, 4, 5, 6], id ∉ g.inputs :=
  Blue.Props.C01.nextCompaction_respects_ongoing ieee opts tree [move] tree_inv
    (by
      intro g hg
      simp only [List.mem_singleton] at hg
      subst hg
      exact nextCompaction_inputs_within_wf tree_inv chooses_move)
    chooses_merge_with_move_in_flight

example : Closed (tagTree tree ⟨1, 2, 0, 20, [3, 6, 4, 5], 500⟩) :=
  Blue.Props.C01.nextCompaction_closed ieee _ tree [move] tree_inv chooses_expanded_mandatory

/-- the expanded candidate is also an instance of `expand_candidate_closed` -/
example : (candOver { opts with mandFiles := 2 } tree 1 (computeBounds tree 1 1 3) 1 500).inputs = [3, 6, 4, 5] := by
  decide +kernel

/-! ### an instance on which `Closed`, `step_compaction`, `step_compaction_reads` and
    `nextCompaction_keeps_newer_above` have content

    Four levels; the selector (mandatory threshold 2) answers `⟨1, 2, 5, 8, [3, 6], 400⟩`: file 3
    of level 1 with file 6 of level 2.  In search order the tags are `[F, F, T, F, F, T, F]`: kept
    files 4 and 5 lie *between* the two inputs, kept file 7 and the level-3 file below both (four kept
    components below input file 3), so `Closed` constrains the versions. -/

def t2 : Tree :=
  [[mk 1 2 6 600 30 [(2, 30), (6, 29)]],
   [mk 2 1 3 100 20 [(1, 20), (3, 19)], mk 3 5 7 300 22 [(5, 22), (7, 21)], mk 4 9 12 100 23 [(9, 23), (12, 18)]],
   [mk 5 0 4 100 10 [(0, 10), (3, 9)], mk 6 5 8 100 12 [(5, 12), (8, 11)], mk 7 9 20 100 13 [(9, 13), (20, 8)]],
   [mk 8 0 30 50000 1 [(5, 1), (30, 0)]]]
def o2 : Opts := ⟨100, 1000000, 2, 4, 1000000⟩
def c2 : Core := ⟨1, 2, 5, 8, [3, 6], 400⟩

theorem t2_inv : Inv t2 := invB_sound (by decide +kernel)
theorem t2_choice : nextCompaction ieee o2 t2 [] = some c2 := by decide +kernel

theorem t2_closed : Closed (tagTree t2 c2) :=
  Blue.Props.C01.nextCompaction_closed ieee o2 t2 [] t2_inv t2_choice

/-- kept components between and below the inputs -/
example : ((tagTree t2 c2).map (·.1)) = [false, false, true, false, false, true, false] := by decide +kernel

/-- the search order with one memtable in front (`pre2`), the untouched level 3 (`post2`) and the
    outputs of the merge cut into two files, key 5 split across the cut (`outs2`) -/
def pre2 : Tagged Nat := ([[(5, 40)]].map (fun m => (false, m)) ++ tagTree t2 c2)
def post2 : List (List (Ver Nat)) := [[(5, 1), (30, 0)]]
def outs2 : List (List (Ver Nat)) := [[(5, 22)], [(5, 12), (7, 21), (8, 11)]]

theorem pre2_eq : pre2 = [(false, [(5, 40)]), (false, [(2, 30), (6, 29)]), (false, [(1, 20), (3, 19)]),
    (true, [(5, 22), (7, 21)]), (false, [(9, 23), (12, 18)]), (false, [(0, 10), (3, 9)]),
    (true, [(5, 12), (8, 11)]), (false, [(9, 13), (20, 8)])] := by decide +kernel

theorem pre2_closed : Closed pre2 := closed_under_memtables _ _ t2_closed

theorem pre2_same : ∀ e, e ∈ outs2.flatten ↔ e ∈ (inputs pre2).flatten := by
  rw [pre2_eq]; intro e; simp [outs2, inputs]
  constructor <;> (intro h; rcases h with h | h | h | h <;> simp [h])

/-- `nextCompaction_keeps_newer_above`: all hypotheses hold on the selector's own answer -/
example : NewerAbove (kept pre2 ++ outs2 ++ post2) :=
  Blue.Props.C01.nextCompaction_keeps_newer_above ieee o2 t2 [] t2_inv t2_choice [[(5, 40)]] post2 outs2
    (by show NewerAbove (pre2.map (·.2) ++ post2); rw [pre2_eq]; decide)
    (by show ∀ e ∈ outs2.flatten, e ∈ (inputs pre2).flatten; rw [pre2_eq]; decide)
    (by decide)

/-- `step_compaction_reads`: no read changes, at any key and timestamp -/
example (k t : Nat) : load (kept pre2 ++ outs2 ++ post2) k t = load (pre2.map (·.2) ++ post2) k t :=
  Blue.Props.C01.step_compaction_reads pre2 post2 outs2
    (by rw [pre2_eq]; decide) pre2_closed pre2_same (by decide) k t

/-- `step_compaction` with a GC drop (version `5@12` left out of the outputs) -/
example : NewerAbove (kept pre2 ++ [[(5, 22)], [(7, 21), (8, 11)]] ++ post2) :=
  Blue.Props.C01.step_compaction pre2 post2 [[(5, 22)], [(7, 21), (8, 11)]]
    (by rw [pre2_eq]; decide) pre2_closed (by rw [pre2_eq]; decide) (by decide)

/-- what the reads of key 5 are on the successor list: memtable, first output, second output, level 3 -/
example : load (kept pre2 ++ outs2 ++ post2) 5 50 = some (5, 40) ∧ load (kept pre2 ++ outs2 ++ post2) 5 30 = some (5, 22)
    ∧ load (kept pre2 ++ outs2 ++ post2) 5 15 = some (5, 12) ∧ load (kept pre2 ++ outs2 ++ post2) 5 5 = some (5, 1) := by
  rw [pre2_eq]; decide

end Example

/-! ### non-vacuity of `read_returns_latest`: memtable, immutable memtable, two overlapping level-0
    files (given out of search order, so `l0Order` works), level 1 with three files of which two
    share the boundary key 5 (a key straddling two files), level 2 with two files.  Key 5 has six
    versions in five components.  (`decide +kernel` alone gets stuck on `List.mergeSort` once level
    0 has two files: `l0Order` is evaluated by `simp` first.) -/

def s1 : KState :=
  { mem := [(5, 40), (7, 39)], imm := some [(5, 30), (2, 31)],
    l0 := [⟨1, 9, 20, [(1, 20), (5, 19), (9, 18)]⟩, ⟨4, 8, 25, [(4, 25), (5, 24), (8, 23)]⟩],
    levels := [[⟨0, 5, 15, [(0, 15), (5, 14)]⟩, ⟨5, 7, 13, [(5, 12), (7, 11)]⟩, ⟨8, 12, 10, [(8, 10), (12, 9)]⟩],
               [⟨0, 6, 5, [(2, 5), (5, 4), (6, 3)]⟩, ⟨7, 20, 2, [(7, 2), (20, 1)]⟩]] }

theorem s1_l0 : l0Order s1.l0
    = [⟨4, 8, 25, [(4, 25), (5, 24), (8, 23)]⟩, ⟨1, 9, 20, [(1, 20), (5, 19), (9, 18)]⟩] := by
  simp [l0Order, s1, List.mergeSort, List.MergeSort.Internal.splitInTwo]

theorem s1_inv : invB s1 = true := by
  unfold invB allComps l0Comps
  rw [s1_l0]
  decide +kernel

/-- one read out of each component holding key 5, a read below every version, a key of the last
    file, an absent key -/
theorem s1_reads : kvsLoad s1 5 100 = some (5, 40) ∧ kvsLoad s1 5 29 = some (5, 24) ∧ kvsLoad s1 5 20 = some (5, 19)
    ∧ kvsLoad s1 5 13 = some (5, 12) ∧ kvsLoad s1 5 11 = some (5, 4) ∧ kvsLoad s1 5 3 = none
    ∧ kvsLoad s1 20 9 = some (20, 1) ∧ kvsLoad s1 3 100 = none := by
  unfold kvsLoad l0Comps
  rw [s1_l0]
  decide +kernel

/-- the theorem instantiated: both conjuncts -/
example : IsVisible (allComps s1).flatten 5 13 (5, 12) :=
  (read_returns_latest s1 s1_inv 5 13).2 _ s1_reads.2.2.2.1
example : NoneVisible (allComps s1).flatten 5 3 :=
  (read_returns_latest s1 s1_inv 5 3).1 s1_reads.2.2.2.2.2.1

/-- … and `invB` rejects a stale order: an older version of key 5 (`5@13`) in level 0 above the
    newer `5@14` of level 1 -/
def s1bad : KState :=
  { s1 with l0 := [⟨1, 9, 20, [(1, 20), (5, 13), (9, 18)]⟩, ⟨4, 8, 25, [(4, 25), (5, 24), (8, 23)]⟩] }

theorem s1bad_l0 : l0Order s1bad.l0
    = [⟨4, 8, 25, [(4, 25), (5, 24), (8, 23)]⟩, ⟨1, 9, 20, [(1, 20), (5, 13), (9, 18)]⟩] := by
  simp [l0Order, s1bad, s1, List.mergeSort, List.MergeSort.Internal.splitInTwo]

example : invB s1bad = false := by
  unfold invB allComps l0Comps
  rw [s1bad_l0]
  decide +kernel

end Blue.Props.C01

#print axioms Blue.Props.C01.read_returns_latest
#print axioms Blue.Props.C01.load_visible
#print axioms Blue.Props.C01.tree_lookup_slices
#print axioms Blue.Props.C01.step_ingest
#print axioms Blue.Props.C01.step_compaction
#print axioms Blue.Props.C01.step_compaction_reads
#print axioms Blue.Props.C01.closed_check_sound
#print axioms Blue.Props.C01.selector_slices_closed
#print axioms Blue.Props.C01.trivial_move_closed
#print axioms Blue.Props.C01.expansion_closed
#print axioms Blue.Props.C01.compute_bounds_establishes_selection_ok
#print axioms Blue.Props.C01.compute_bounds_slices_are_taken_files
#print axioms Blue.Props.C01.expand_candidate_closed
#print axioms Blue.Props.C01.nextCompaction_closed
#print axioms Blue.Props.C01.nextCompaction_keeps_newer_above
#print axioms Blue.Props.C01.nextCompaction_respects_ongoing
#print axioms Blue.Props.C01.nextCompaction_inputs_within
#print axioms Blue.Props.C01.nextCompaction_within_limits
#print axioms Blue.Props.C01.tree_invariant_check_sound
#print axioms Blue.Props.C01.compute_bounds_loop_reaches_fixed_point
#print axioms Blue.Props.C01.Example.t2_closed
#print axioms Blue.Props.C01.Example.pre2_closed
#print axioms Blue.Props.C01.s1_inv
#print axioms Blue.Props.C01.s1_reads
#print axioms Blue.NextCompaction.nextCompaction_origin
#print axioms Blue.ConstsTie.c01_selector_defaults
#print axioms Blue.ConstsTie.c01_level_factor_expr
#print axioms Blue.ConstsTie.c01_scale_dyadic
#print axioms Blue.Spec.trivial_move_unrepaired_open
#print axioms Blue.Spec.expansion_unrepaired_open
#print axioms Blue.Spec.closed_of_cover
#print axioms Blue.Props.C01.open_compaction_stale_read_witness
#print axioms Blue.Spec.pieces_newer
#print axioms Blue.Spec.swap_disjoint_blocks
#print axioms Blue.Spec.level_reorder
#print axioms Blue.Spec.l0_newer
#print axioms Blue.Spec.sliceR_mem_iff
#print axioms Blue.Spec.exit_covers
#print axioms Blue.Spec.lower_bound_mutant_misses
