import Blue.Proofs.LoadVisible
import Blue.Proofs.Compaction
import Blue.Proofs.LevelSlice
import Blue.Proofs.SelectorClosed
import Blue.Proofs.BoundsFixed
import Blue.Proofs.Kvs
import Blue.Proofs.TrivialMove
import Blue.Proofs.ExpandClosed
/-! # Property C01 — point reads return the latest write, whatever the tree did in between

Property theorems only.  The store is modelled as the list of its components in *search order*
(memtable, immutable memtable, level-0 files by descending newest timestamp, then each deeper
level's files); a version is `(key, timestamp)`.  `Blue.Kvs.kvsLoad` is the executable model of
`KeyValueStore::load` on a dumped state — the function the correspondence check runs against the
implementation after every operation of every history — and `Blue.Kvs.invB` is the decidable form
of the tree invariants I1 (levels ≥ 1 sorted, ranges at most touching) ∧ I2 ("newer above").

What is proved: on every state satisfying I1 ∧ I2 the read returns exactly the visible version
(`read_returns_latest`); ingest/flush, every *closed* compaction with any outputs and any cut
points (with or without GC drops) and trivial moves preserve I2 and, when nothing is dropped,
every read at every timestamp (`step_*`); the selector's slices (`selector_slices_closed`), the
trivial move and `expand_compaction` as repaired (`trivial_move_closed`, `expansion_closed`) are
closed, each from the guarantee its loop establishes (`Selection.Ok`, `Expansion.Ok`).  What is checked per run rather than proved: that the implementation's
reached states satisfy `invB`, and that every compaction the real selector chose is `closedB` on
the state it was chosen in (both are evaluated by the driver on the dumped states).
`recover` (level reassignment on reopen) does **not** preserve I1/I2 — known finding D-9. -/
namespace Blue.Props.C01
open Blue.Spec Blue.Kvs

/-- **reads return the latest write**: if the decidable invariant check passes on a store state,
    `KeyValueStore::load` returns exactly the newest version not newer than `t` of the union of
    everything the store holds, and nothing if there is none -/
theorem read_returns_latest (s : KState) (h : invB s = true) (k t : Nat) :
    (kvsLoad s k t = none → NoneVisible (allComps s).flatten k t)
    ∧ (∀ b, kvsLoad s k t = some b → IsVisible (allComps s).flatten k t b) :=
  kvsLoad_visible s h k t

/-- the abstract form: early-exit lookup through components ordered "newer above" -/
theorem load_visible {K : Type} [DecidableEq K] (cs : List (List (Ver K))) (k : K) (t : Nat)
    (h : NewerAbove cs) :
    match load cs k t with
    | none => NoneVisible cs.flatten k t
    | some b => IsVisible cs.flatten k t b := Blue.Spec.load_visible cs k t h

/-- `Version::load`'s `lower_bound..upper_bound` slices find what searching whole levels finds -/
theorem tree_lookup_slices (l0 : List (List (Ver Nat))) (levels : List (List TFile))
    (hs : ∀ l ∈ levels, LevelSorted l) (hw : ∀ l ∈ levels, ∀ f ∈ l, f.Wf) (k t : Nat) :
    treeLoad l0 levels k t = load (l0 ++ levels.flatMap (fun l => l.map (·.vers))) k t :=
  treeLoad_eq l0 levels hs hw k t

/-- flush / ingest: a component newer than everything stored goes on top -/
theorem step_ingest {K : Type} [DecidableEq K] (c : List (Ver K)) (cs : List (List (Ver K)))
    (h : NewerAbove cs) (hn : ∀ a ∈ c, ∀ b ∈ cs.flatten, a.1 = b.1 → b.2 < a.2) :
    NewerAbove (c :: cs) := ingest_preserves c cs h hn

/-- compaction (any outputs made of input versions, any cut points, GC drops allowed): a *closed*
    selection keeps "newer above" -/
theorem step_compaction {K : Type} [DecidableEq K] (pre : Tagged K) (post outs : List (List (Ver K)))
    (h : NewerAbove (pre.map (·.2) ++ post)) (hclosed : Closed pre)
    (hsub : ∀ e ∈ outs.flatten, e ∈ (inputs pre).flatten) (houts : NewerAbove outs) :
    NewerAbove (kept pre ++ outs ++ post) := compaction_preserves pre post outs h hclosed hsub houts

/-- … and when nothing is dropped, no read at any key and timestamp changes -/
theorem step_compaction_reads {K : Type} [DecidableEq K] (pre : Tagged K) (post outs : List (List (Ver K)))
    (h : NewerAbove (pre.map (·.2) ++ post)) (hclosed : Closed pre)
    (hsame : ∀ e, e ∈ outs.flatten ↔ e ∈ (inputs pre).flatten) (houts : NewerAbove outs)
    (k : K) (t : Nat) :
    load (kept pre ++ outs ++ post) k t = load (pre.map (·.2) ++ post) k t :=
  compaction_reads_unchanged pre post outs h hclosed hsame houts k t

/-- the driver's decidable closedness check is sound for `Closed` -/
theorem closed_check_sound (pre : Tagged Nat) (h : closedB pre = true) : Closed pre := closedB_sound pre h

/-- a selection read off ranges that widen with depth and cover what they take is closed -/
theorem selector_slices_closed (s : Selection) (levels : List (Nat × List TFile))
    (hlv : levels.Pairwise (fun a b => a.1 < b.1)) (hup : ∀ l ∈ levels, l.1 ≤ s.upper)
    (hwf : ∀ p ∈ levels, ∀ f ∈ p.2, f.Wf) (hok : s.Ok levels) : Closed (tagLevels s levels) :=
  selection_closed s levels hlv hup hwf hok

/-- the trivial move as repaired (nothing else in the file's own level and nothing in the next
    level meets its key range) is a closed selection -/
theorem trivial_move_closed (lvl : Nat) (f : TFile) (levels : List (Nat × List TFile))
    (hlv : levels.Pairwise (fun a b => a.1 < b.1)) (hup : ∀ l ∈ levels, l.1 ≤ lvl + 1)
    (hwf : ∀ l ∈ levels, ∀ g ∈ l.2, g.Wf)
    (halone : ∀ l ∈ levels, ∀ g ∈ l.2, lvl ≤ l.1 → (⟨f.first, f.last⟩ : Rng).meets g = true → g = f) :
    Closed (tagLevels (moveSel lvl f) levels) := Blue.Spec.trivial_move_closed lvl f levels hlv hup hwf halone

/-- `expand_compaction` as repaired (a level's files inside the window are added only if every file
    of that level meeting the window lies inside it; the window narrows to what was added) yields a
    closed selection -/
theorem expansion_closed (e : Expansion) (levels : List (Nat × List TFile))
    (hlv : levels.Pairwise (fun a b => a.1 < b.1)) (hup : ∀ l ∈ levels, l.1 ≤ e.base.upper)
    (hwf : ∀ l ∈ levels, ∀ f ∈ l.2, f.Wf) (hok : e.Ok levels) :
    Closed (tagBy e.inp levels) := Blue.Spec.expansion_closed e levels hlv hup hwf hok

/-- why closedness is needed (the shape of the trivial-move defect D-25 and of D-8): an input above
    and below a kept component sharing a key — the read returns the kept, older version -/
theorem open_compaction_stale_read_witness :
    let pre : Tagged Nat := [(true, [(1, 9)]), (false, [(1, 5)]), (true, [(1, 2)])]
    NewerAbove (pre.map (·.2)) ∧
    load (pre.map (·.2)) 1 10 = some (1, 9) ∧
    load (kept pre ++ [[(1, 9), (1, 2)]]) 1 10 = some (1, 5) := open_compaction_stale_read

/-! non-vacuity: a state with versions of one key in memtable, level 0 and level 1 passes the check -/
example :
    let s : KState := { mem := [(1, 9)], imm := none,
                        l0 := [⟨0, 1, 7, [(0, 7), (1, 6)]⟩], levels := [[⟨1, 2, 4, [(1, 4), (2, 3)]⟩]] }
    invB s = true ∧ kvsLoad s 1 8 = some (1, 6) ∧ kvsLoad s 1 5 = some (1, 4) := by decide +kernel

end Blue.Props.C01

#print axioms Blue.Props.C01.read_returns_latest
#print axioms Blue.Props.C01.load_visible
#print axioms Blue.Props.C01.tree_lookup_slices
#print axioms Blue.Props.C01.step_ingest
#print axioms Blue.Props.C01.step_compaction
#print axioms Blue.Props.C01.step_compaction_reads
#print axioms Blue.Props.C01.closed_check_sound
#print axioms Blue.Props.C01.selector_slices_closed
#print axioms Blue.Props.C01.trivial_move_closed
#print axioms Blue.Props.C01.expansion_closed
#print axioms Blue.Spec.trivial_move_unrepaired_open
#print axioms Blue.Spec.expansion_unrepaired_open
#print axioms Blue.Spec.closed_of_cover
#print axioms Blue.Props.C01.open_compaction_stale_read_witness
#print axioms Blue.Spec.pieces_newer
#print axioms Blue.Spec.swap_disjoint_blocks
#print axioms Blue.Spec.level_reorder
#print axioms Blue.Spec.l0_newer
#print axioms Blue.Spec.sliceR_mem_iff
#print axioms Blue.Spec.exit_covers
#print axioms Blue.Spec.lower_bound_mutant_misses
