import Blue.Proofs.LoadVisible
import Blue.Proofs.Compaction
import Blue.Proofs.LevelSlice
import Blue.Proofs.SelectorClosed
import Blue.Proofs.BoundsFixed
import Blue.Proofs.Kvs
import Blue.Proofs.TrivialMove
import Blue.Proofs.ExpandClosed
import Blue.Proofs.NextCompactionMain
import Blue.Proofs.ConstsTieC01
import Blue.Proofs.ApplyCompaction
import Blue.Proofs.ApplyCompactionB
import Blue.Proofs.StoreHistRefine
import Blue.Proofs.StoreHistTree
import Blue.Proofs.ApplyLater
import Blue.Proofs.StoreHistLater
import Blue.Proofs.StoreHistLaterGc
import Blue.Proofs.StoreHistWindow
import Blue.Proofs.Recover
import Blue.Proofs.RecoverHist
/-! # Property C01 — point reads return the latest write, whatever the tree did in between

Property theorems only.  The store is modelled as the list of its components in *search order*
(memtable, immutable memtable, level-0 files by descending newest timestamp, then each deeper
level's files); a version is `(key, timestamp)`.  `Blue.Kvs.kvsLoad` is the executable model of
`KeyValueStore::load` on a dumped state — the function the correspondence check runs against the
implementation after every operation of every history — and `Blue.Kvs.invB` is the decidable form
of the tree invariants I1 (levels ≥ 1 sorted, ranges at most touching) ∧ I2 ("newer above").

`invB` is more than "levels sorted": I1 = every level ≥ 1 sorted by key with at most touching
ranges (`sortedB`) AND every file's version keys inside its `[first, last]` with `first ≤ last`
(`wfB`); I2 = "newer above" in search order (`newerAboveB`).

What is proved: on every state satisfying I1 ∧ I2 the read returns exactly the visible
`(key, timestamp)` version (`read_returns_latest`); on *component lists*, every *closed* compaction
with any outputs and any cut points (with or without GC drops) and trivial moves preserve I2 and,
when nothing is dropped, every read at every timestamp (`step_compaction*`); a component put on top
preserves I2 **if** it is newer than everything stored — that is a hypothesis of `step_ingest`
(a model fact: the two conjuncts of the definition of `NewerAbove (c :: cs)`); for the store's own
writes and flushes it is PROVED at history level (below); the selector's slices (`selector_slices_closed`), the
trivial move and `expand_compaction` as repaired (`trivial_move_closed`, `expansion_closed`) are
closed, each from the guarantee its loop establishes (`Selection.Ok`, `Expansion.Ok`).

The selector itself is modelled as a function: `Blue.NextCompaction.nextCompaction` follows
`Version::next_compaction` path by path (trivial moves, the level-0 hull, the per-file candidates of
the deeper levels, `compute_bounds`, `find_best_compaction` with its limits, `expand_compaction`,
`may_choose_compaction` with the compactions in flight, the mandatory rule, the level curve and
the `f64` score scaling) and is compared with the real choice — levels, key range, input ids in
order — at every compaction step of every history.  For that function it is proved, for ALL trees
satisfying the tree invariant `Inv` (files well-formed, levels below level 0 sorted by key, ids
distinct), all options, all compactions in flight and all floating-point tables, that the modelled
loops establish `Selection.Ok` / `Expansion.Ok` / the trivial-move side conditions
(`compute_bounds_establishes_selection_ok`, `expand_candidate_closed`) and hence that whatever it
returns is closed (`nextCompaction_closed`), keeps I2 (`nextCompaction_keeps_newer_above`), names
no input of a compaction in flight (`nextCompaction_respects_ongoing`) and respects the file limits
up to the one-file overshoot of `expand_compaction` (`nextCompaction_within_limits`).

What is NOT modelled (see `partial`/`assumptions` of the claim): values and tombstones — a version
is a `(key, timestamp)` pair, which determines the payload; "a deleted key reads as `None`" and
"the read timestamp is the last completed sequence number" are compared by the oracle only.  The
STORE's history relation (put/del/batch, rollover, flush, compaction) is the section `History`
further down; the verifier/trash clean-ups have no step relation; reopen has one (block `Recover`,
valid inside the class `NoKeyTsOverlap` only).

The TREE has a step relation (block `ApplyCompaction` below): `Blue.NextCompaction.applyCompaction`
follows `Version::apply_compaction_inner` (inputs removed by id at the levels `lower .. upper`
EXCLUSIVE; the output level cut by POSITION at `lower_bound(first_key)` / `upper_bound(last_key)`
and the outputs spliced in as given, no sort), `applyTrivialMove` the moving compaction, `ingest`
`Version::ingest`.  Proved: every answer of the selector meets what that code relies on
(`nextCompaction_chosen`; in particular the files the positional cut drops are exactly the inputs
of the output level, `output_level_cut_drops_exactly_inputs`); the search order of the successor
tree is `above ++ before ++ outs ++ after ++ below` where `kept (tagTree t c) = above ++ before ++
after` and `treeComps t = (tagTree t c).map snd ++ below` (`apply_components`: the successor is
NOT literally `kept ++ outs ++ post`, the outputs stand inside the output level); `Inv` — I1
included — and I2 are preserved (`apply_preserves_inv`, `apply_preserves_newer_above`);
`Blue.Kvs.invB` ∧ level-0 files well-formed ∧ ids distinct ⇔ `Inv` ∧ I2 on the same tree
(`inv_bridge`); and from the empty version, after any sequence of ingests / compactions chosen by
the selector / moving compactions, `Inv` ∧ I2 hold (`tree_invariant_inductive`).  Hypotheses that
remain (not proved of the implementation): in `tree_invariant_inductive` a compaction is applied
to the tree it was chosen on (the block `ApplyLater` at the end removes this: flushes and installs
of other compactions in flight may lie between choice and install); the outputs are well-formed, sorted with at most
touching ranges, inside the compaction's key range, with fresh ids, hold only input versions and
are "newer above" among themselves (C03's subject); an ingested file is well-formed, has a fresh
id, a newest timestamp above those of level 0 and versions newer than the tree's for their keys
(the sequence-number discipline of C06).  Memtables, rollover and flush are outside THIS relation;
the block `StoreHistTree` at the end composes it with the store's history.
History level (section `History` below, model `Blue.StoreHist`, proofs `Blue.Proofs.StoreHistRefine`): a
sequential store over the SAME `KState` / `kvsLoad`, with `seq_no`, `visible_seq_no` and a payload
map `(key, timestamp) ↦ value | tombstone`, and the operations `write batch` (put/del/batch; a batch
naming a key twice is rejected), `rollover`, `flush`, `compact`.  Proved by induction over ANY
operation list from the empty store (`history_invariant`, `history_refines`,
`history_reads_last_write`, `read_after_write`, `batch_all_visible`, `history_states_pass_invB`):
the invariant (I1, I2 over memtable :: immutable memtable :: tree components, every timestamp
published, memtable newer than immutable memtable, level-0 metadata below the memtables) is
preserved by every operation; `kvsLoad` at the published sequence number returns the version of the
last accepted write naming the key (none if never written) and the payload map gives its value or
tombstone.  For write / rollover / flush NOTHING is assumed (that a flushed file is searched first in
level 0 is proved from `l0Order`'s sort).  A `compact` step carries its obligations `CompactionOk`
as hypotheses: (1) `hsplit`: the tree's components in search order are `pre ++ post` for a tagging
`pre`; (2) `hclosed`: `Closed pre` — discharged by `nextCompaction_closed` when `pre` is
`tagTree t c` of the selector's answer (`compaction_step_from_selector`), by `trivial_move_closed`
for a move; (3) `hsame`: the outputs hold exactly the inputs' versions (NO GC drop: a history with
a dropping compaction is outside `history_refines`; I2 alone is `step_compaction`); (4) `houts`:
outputs "newer above" among themselves (`pieces_newer` for pieces of one sorted run); (5)
`hkept`/`hdis`/`hplace`: the successor's tree components are the kept components of `pre` with
the outputs below them, possibly left of kept files they share no key with — the tie to
`apply_compaction_inner` is a HYPOTHESIS of THIS section; (6) `hl0`: no file is added to level 0;
(7) `hI1`: I1 of the successor — a HYPOTHESIS of this section (outputs inserted in key order).
GC drops at history level: `Blue.Props.C05` `history_refines_gc` (a `compact` step may carry
`GcCompactionOk` — outputs ⊆ inputs, newest version kept or a tombstone — instead of (3)).

The two relations ARE composed (block `StoreHistTree` at the end, proofs `Blue.Proofs.StoreHistTree`):
one state (memtables, counters, payloads, a `Blue.NextCompaction.Tree`; the dumped-state record is
`toKState mem imm tree`), operations `write | rollover | flush id size | compactSel n o og outs |
moveSel n o og` where a compaction step IS `applyCompaction` / `applyTrivialMove` of what
`nextCompaction` answers on the current tree and a flush IS `ingest`.  `compactionOk_of_apply`
discharges (1), (2), (5), (6), (7) from `apply_components`, `nextCompaction_chosen`,
`apply_preserves_inv` and the bridge `treeComps_toKState`; `store_history_refines` /
`store_history_reads_last_write` / `store_history_states_pass_invB` are `history_refines` etc. for
that relation, with BOTH invariants (`Blue.StoreHist.Inv` and the selector's `Inv`, ids distinct)
in every reached state.  Left as hypotheses of a history there: the id of a flushed table is fresh;
the outputs of a merge meet `OutsOk`, hold exactly the inputs' versions — (3), no GC drop — and are
"newer above" among themselves — (4).  In THAT relation a compaction is applied to the tree it was
chosen on (the step is atomic: no flush between choice and application).

Choice and install SEPARATED (block `ApplyLater` at the end, proofs `Blue.Proofs.ApplyLater`,
`Blue.Proofs.StoreHistLater`): the code chooses under the `compaction` mutex on a snapshot
(`compaction_thread`: `take_snapshot`, `next_compaction`, which pushes the answer onto the shared
`ongoing` list), merges WITHOUT the mutex, and installs under the mutex on a FRESH snapshot
(`apply_manifest_compaction` / `apply_moving_compaction`); the flush (`apply_manifest_ingest`) and
the installs of other compaction threads change the version under the same mutex in between.
Proved: `Chosen t c` — all that `apply_compaction_inner` needs of a compaction — survives
`ingest` (`chosen_stable_under_ingest`: the new file is no input and is searched above every
input) and survives the install of another compaction `c₁` provided `overlapping c₁ c = false`
(`chosen_stable_under_disjoint_apply`), which is exactly what `may_choose_compaction` tests against
every compaction in flight (`nextCompaction_not_overlapping`: level intervals disjoint or key
ranges disjoint).  With "no common input" (`nextCompaction_respects_ongoing`) in its place the
lemma is FALSE (`no_common_input_not_enough`: three levels, two files; the later install cuts a
non-input file out of its output level by position).  The history relation with operations
`write | rollover | flush | choose n o | install i outs | moveInstall i | abort i` — any number of
compactions in flight, anything in between — satisfies `store_history_refines_concurrent`: reads
return the last accepted write, both invariants hold in every reached state, every compaction in
flight stays admissible on the current tree and no two overlap.  The hypotheses on a merge's
outputs (`OutsOk`, exactly the inputs' versions, "newer above") are asked at INSTALL time on the
tree installed on.  With garbage-collecting installs (`gcInstall i outs`: output level the last,
`GcCompactionOk` from `gcCompactionOk_of_chosen`) the same holds with the exception of C05
`history_refines_gc` — a deleted key may read "no version"
(`store_history_refines_concurrent_gc`).  Steps are still completed critical sections of the
`compaction` mutex: a reader holding an old snapshot is C06's subject; `Vec::swap_remove` on the
in-flight list is modelled by `List.eraseIdx` (the invariant is independent of the order).

What is NOT modelled (see `partial`/`assumptions` of the claim): reopen / `recover` OUTSIDE the class
`NoKeyTsOverlap` (block `Recover`: inside it a reopen is a step of the history), the
verifier/trash clean-ups, external ingest, failing writes, concurrency (operations are completed
calls, reads happen between them; the window in which a flushed file and the immutable memtable
are both visible IS modelled at history level: block `StoreHistWindow` at the end — `flush` split
into `flushInstall` / `flushClear`, `window_invariant`, `window_reads_unchanged`,
`history_refines_window`; `Blue.Rollover` has it for C06's concurrent model), `(key, timestamp)` uniqueness
(not needed: the payload map is keyed by the pair and a batch cannot name a key twice).  That the Rust code performs these
model operations is the correspondence check (`kvsLoad` and `invB` are evaluated on every dumped
state of every history), not a theorem.

What is checked per run rather than proved: that the implementation's reached states satisfy
`invB` (and the trees the selector runs on `Blue.NextCompaction.invB`), that the function model
returns what the real selector returns, and — independently of the model — that every compaction
the real selector chose is `closedB` on the state it was chosen in.
`recover` (level reassignment on reopen, lsmtk/src/tree/recover.rs) is modelled (block `Recover`,
`Blue.Recover.recoverTree`; the unrolled Tarjan loop is replaced by the partition it computes).
It does **not** preserve I1/I2 in general — known finding D-9, here the theorem
`recover_breaks_inv_witness` about the model of the code as it stands: three files of a legitimate
tree, recovered with two overlapping files in level 1, the older first, and a stale read.  It DOES
preserve the tree invariant, I2 and every read when no two files overlap in key range AND in
timestamp range (`recover_preserves_inv`, `recoverTree_preserves_inv`, `recover_reads_same`), and a
reopen inside that class is a step of the composed history (`reopen_step`,
`store_history_refines_reopen`).  The class is sufficient, not necessary: a component of mutually
overlapping files with nothing above it lands in level 0, where overlap is allowed
(`overlap_harmless_at_level0`). -/
namespace Blue.Props.C01
open Blue.Spec Blue.Kvs

/-- **reads return the latest write**: if the decidable invariant check passes on a store state,
    the model `kvsLoad` of `KeyValueStore::load` returns exactly the newest `(key, timestamp)`
    version not newer than `t` of the union of everything the store holds, and nothing if there is
    none.  Values and tombstones are not in THIS model (the pair determines the payload); the
    history model `Blue.StoreHist` below carries a payload map and the published sequence number
    (`history_refines`, `history_reads_last_write`). -/
theorem read_returns_latest (s : KState) (h : invB s = true) (k t : Nat) :
    (kvsLoad s k t = none → NoneVisible (allComps s).flatten k t)
    ∧ (∀ b, kvsLoad s k t = some b → IsVisible (allComps s).flatten k t b) :=
  kvsLoad_visible s h k t

/-- the abstract form: early-exit lookup through components ordered "newer above" -/
theorem load_visible {K : Type} [DecidableEq K] (cs : List (List (Ver K))) (k : K) (t : Nat)
    (h : NewerAbove cs) :
    match load cs k t with
    | none => NoneVisible cs.flatten k t
    | some b => IsVisible cs.flatten k t b := Blue.Spec.load_visible cs k t h

/-- `Version::load`'s `lower_bound..upper_bound` slices find what searching whole levels finds -/
theorem tree_lookup_slices (l0 : List (List (Ver Nat))) (levels : List (List TFile))
    (hs : ∀ l ∈ levels, LevelSorted l) (hw : ∀ l ∈ levels, ∀ f ∈ l, f.Wf) (k t : Nat) :
    treeLoad l0 levels k t = load (l0 ++ levels.flatMap (fun l => l.map (·.vers))) k t :=
  treeLoad_eq l0 levels hs hw k t

/-- MODEL FACT (restated definition, not a step theorem of the store): a component put on top of
    the search order keeps "newer above" **provided** it is newer than everything stored for the
    keys it shares — `hn` and `h` are exactly the two conjuncts of `NewerAbove (c :: cs)`.  That a
    rolled-over memtable / an ingested file IS newer than everything stored is proved nowhere in
    C01 (it is the sequence-number discipline of C06, observed here through `invB` on every dumped
    state); a flush does not even put its file on top (the file replaces the immutable memtable
    in level 0, below the memtables).  THIS theorem covers no put/del/batch, rollover or flush; the
    history theorems at the end of this file (`history_invariant`, `history_refines`) do, for the
    modelled store `Blue.StoreHist`. -/
theorem step_ingest {K : Type} [DecidableEq K] (c : List (Ver K)) (cs : List (List (Ver K)))
    (h : NewerAbove cs) (hn : ∀ a ∈ c, ∀ b ∈ cs.flatten, a.1 = b.1 → b.2 < a.2) :
    NewerAbove (c :: cs) := ingest_preserves c cs h hn

/-- compaction (any outputs made of input versions, any cut points, GC drops allowed): a *closed*
    selection keeps "newer above" -/
theorem step_compaction {K : Type} [DecidableEq K] (pre : Tagged K) (post outs : List (List (Ver K)))
    (h : NewerAbove (pre.map (·.2) ++ post)) (hclosed : Closed pre)
    (hsub : ∀ e ∈ outs.flatten, e ∈ (inputs pre).flatten) (houts : NewerAbove outs) :
    NewerAbove (kept pre ++ outs ++ post) := compaction_preserves pre post outs h hclosed hsub houts

/-- … and when nothing is dropped, no read at any key and timestamp changes -/
theorem step_compaction_reads {K : Type} [DecidableEq K] (pre : Tagged K) (post outs : List (List (Ver K)))
    (h : NewerAbove (pre.map (·.2) ++ post)) (hclosed : Closed pre)
    (hsame : ∀ e, e ∈ outs.flatten ↔ e ∈ (inputs pre).flatten) (houts : NewerAbove outs)
    (k : K) (t : Nat) :
    load (kept pre ++ outs ++ post) k t = load (pre.map (·.2) ++ post) k t :=
  compaction_reads_unchanged pre post outs h hclosed hsame houts k t

/-- the driver's decidable closedness check is sound for `Closed` -/
theorem closed_check_sound (pre : Tagged Nat) (h : closedB pre = true) : Closed pre := closedB_sound pre h

/-- a selection read off ranges that widen with depth and cover what they take is closed -/
theorem selector_slices_closed (s : Selection) (levels : List (Nat × List TFile))
    (hlv : levels.Pairwise (fun a b => a.1 < b.1)) (hup : ∀ l ∈ levels, l.1 ≤ s.upper)
    (hwf : ∀ p ∈ levels, ∀ f ∈ p.2, f.Wf) (hok : s.Ok levels) : Closed (tagLevels s levels) :=
  selection_closed s levels hlv hup hwf hok

/-- the trivial move as repaired (nothing else in the file's own level and nothing in the next
    level meets its key range) is a closed selection -/
theorem trivial_move_closed (lvl : Nat) (f : TFile) (levels : List (Nat × List TFile))
    (hlv : levels.Pairwise (fun a b => a.1 < b.1)) (hup : ∀ l ∈ levels, l.1 ≤ lvl + 1)
    (hwf : ∀ l ∈ levels, ∀ g ∈ l.2, g.Wf)
    (halone : ∀ l ∈ levels, ∀ g ∈ l.2, lvl ≤ l.1 → (⟨f.first, f.last⟩ : Rng).meets g = true → g = f) :
    Closed (tagLevels (moveSel lvl f) levels) := Blue.Spec.trivial_move_closed lvl f levels hlv hup hwf halone

/-- `expand_compaction` as repaired (a level's files inside the window are added only if every file
    of that level meeting the window lies inside it; the window narrows to what was added) yields a
    closed selection -/
theorem expansion_closed (e : Expansion) (levels : List (Nat × List TFile))
    (hlv : levels.Pairwise (fun a b => a.1 < b.1)) (hup : ∀ l ∈ levels, l.1 ≤ e.base.upper)
    (hwf : ∀ l ∈ levels, ∀ f ∈ l.2, f.Wf) (hok : e.Ok levels) :
    Closed (tagBy e.inp levels) := Blue.Spec.expansion_closed e levels hlv hup hwf hok

/-- why closedness is needed (the shape of the trivial-move defect D-25 and of D-8): an input above
    and below a kept component sharing a key — the read returns the kept, older version -/
theorem open_compaction_stale_read_witness :
    let pre : Tagged Nat := [(true, [(1, 9)]), (false, [(1, 5)]), (true, [(1, 2)])]
    NewerAbove (pre.map (·.2)) ∧
    load (pre.map (·.2)) 1 10 = some (1, 9) ∧
    load (kept pre ++ [[(1, 9), (1, 2)]]) 1 10 = some (1, 5) := open_compaction_stale_read


/-! ## the selector as a function -/

open Blue.NextCompaction in
/-- **the loops of `compute_bounds` establish `Selection.Ok`**: on every tree satisfying `Inv`, for
    every lower level and starting range (for level 0: a range covering level 0, as the hull
    `next_compaction` passes does), the selection `selOf` made of the computed bounds' `[first,
    last]` per level has ranges that widen with depth and cover what they take — the hypothesis of
    `selector_slices_closed`.  (`selOf` reads only `first`/`last` of the computed slices; that the
    *index slices* `lo..hi` the code takes are exactly the files that selection takes is the next
    theorem.) -/
theorem compute_bounds_establishes_selection_ok {t : Tree} (hinv : Inv t) (lower first last upper : Nat)
    (hhull : lower = 0 → ∀ g ∈ level t 0, first ≤ g.first ∧ g.last ≤ last) (hup : upper < t.length) :
    (selOf (computeBounds t lower first last) lower upper).Ok (toTL (numLevels t upper)) :=
  selection_ok (computeBounds_ok hinv lower first last hhull) hup

open Blue.NextCompaction in
/-- … and the files in the computed index slices are exactly the files whose key range meets the
    selection's range of their level: `selOf` takes what `compute_bounds`' slices hold -/
theorem compute_bounds_slices_are_taken_files {t : Tree} (hinv : Inv t) (lower first last upper : Nat)
    (hhull : lower = 0 → ∀ g ∈ level t 0, first ≤ g.first ∧ g.last ≤ last) (hup : upper < t.length)
    {l : Nat} {g : File} (hg : g ∈ level t l) :
    (selOf (computeBounds t lower first last) lower upper).takes l (toT g) = true ↔
      lower ≤ l ∧ l ≤ upper ∧ g ∈ sliceFiles (level t l) ((computeBounds t lower first last).getD l ⟨0, 0, 0, 0⟩) :=
  takes_selOf (computeBounds_ok hinv lower first last hhull) hup hg

open Blue.NextCompaction in
/-- **the loop of `expand_compaction` (repaired) establishes `Expansion.Ok`, and every candidate of
    `find_best_compaction` is closed**: the slices of levels `lower ..= lower + d` plus whatever
    `expand_compaction` adds (proved inside via `expansion_closed`) -/
theorem expand_candidate_closed (o : Opts) {t : Tree} (hinv : Inv t) (lower first last d sz : Nat)
    (hhull : lower = 0 → ∀ g ∈ level t 0, first ≤ g.first ∧ g.last ≤ last) (hup : lower + d < t.length) :
    Closed (tagTree t (candOver o t lower (computeBounds t lower first last) d sz)) :=
  (expand_closed o hinv (computeBounds_ok hinv lower first last hhull) hup sz).1

open Blue.NextCompaction in
/-- **every compaction the selector returns is closed** on the tree it was chosen in — all trees
    satisfying `Inv`, all options, all compactions in flight, all floating-point tables -/
theorem nextCompaction_closed (n : Num) (o : Opts) (t : Tree) (og : List Core) (hinv : Inv t)
    {c : Core} (h : nextCompaction n o t og = some c) : Closed (tagTree t c) :=
  Blue.NextCompaction.nextCompaction_closed n o t og hinv h

open Blue.NextCompaction in
/-- … and therefore keeps "newer above" (I2), whatever outputs the compaction writes — **on the
    tree the choice was made on** (`hna` is about `tagTree t c`): applying the compaction after
    another compaction in flight finished or after intervening flushes changed the tree is not
    covered by a theorem (the check compares every real choice on the tree it was made on and
    `invB` on every state reached afterwards) -/
theorem nextCompaction_keeps_newer_above (n : Num) (o : Opts) (t : Tree) (og : List Core) (hinv : Inv t)
    {c : Core} (h : nextCompaction n o t og = some c)
    (mems post outs : List (List (Ver Nat)))
    (hna : NewerAbove ((mems.map (fun m => (false, m)) ++ tagTree t c).map (·.2) ++ post))
    (hsub : ∀ e ∈ outs.flatten, e ∈ (inputs (mems.map (fun m => (false, m)) ++ tagTree t c)).flatten)
    (houts : NewerAbove outs) :
    NewerAbove (kept (mems.map (fun m => (false, m)) ++ tagTree t c) ++ outs ++ post) :=
  Blue.NextCompaction.nextCompaction_keeps_newer_above n o t og hinv h mems post outs hna hsub houts

open Blue.NextCompaction in
/-- **the chosen inputs are disjoint from the inputs of every compaction in flight** (whose inputs,
    as far as they are still in the tree, lie at its levels and inside its key range — which
    `nextCompaction_inputs_within` proves of every compaction the selector itself returned) -/
theorem nextCompaction_respects_ongoing (n : Num) (o : Opts) (t : Tree) (og : List Core) (hinv : Inv t)
    (hog : ∀ g ∈ og, OngoingWf t g) {c : Core} (h : nextCompaction n o t og = some c) :
    ∀ g ∈ og, ∀ id ∈ c.inputs, id ∉ g.inputs :=
  Blue.NextCompaction.nextCompaction_respects_ongoing n o t og hinv hog h

open Blue.NextCompaction in
/-- every input of a returned compaction is a file of the tree at one of its levels, inside its key range -/
theorem nextCompaction_inputs_within (n : Num) (o : Opts) (t : Tree) (og : List Core) (hinv : Inv t)
    {c : Core} (h : nextCompaction n o t og = some c) : InputsWithin t c :=
  Blue.NextCompaction.nextCompaction_inputs_within n o t og hinv h

open Blue.NextCompaction in
/-- **limits**: at most `max_compaction_files + 1` inputs (`expand_compaction` tests the limit before
    it adds a file: the bound is reached in the runs), and with the inputs of the compactions in
    flight fewer than `max_open_files` -/
theorem nextCompaction_within_limits (n : Num) (o : Opts) (t : Tree) (og : List Core)
    {c : Core} (h : nextCompaction n o t og = some c) :
    c.inputs.length ≤ o.maxCompactionFiles + 1
    ∧ c.inputs.length + (og.map (fun g => g.inputs.length)).sum < o.maxOpenFiles :=
  Blue.NextCompaction.nextCompaction_within_limits n o t og h

open Blue.NextCompaction in
/-- the driver's decidable tree-invariant check is sound for `Inv` -/
theorem tree_invariant_check_sound {t : Tree} (h : Blue.NextCompaction.invB t = true) : Inv t := invB_sound h

open Blue.NextCompaction in
/-- the `while !fixed_point` loop of `compute_bounds` ends at a fixed point within the model's fuel,
    on any level whatsoever (sorted or not) -/
theorem compute_bounds_loop_reaches_fixed_point (lvl : List File) (first last : Nat) :
    Fixed lvl first last (levelBounds lvl first last) := levelBounds_fixed lvl first last

/-! non-vacuity: a five-level tree (two overlapping files in level 0, three in level 1 under a wide
    file of level 2, a wide file in level 3, level 4 empty) satisfies `Inv`; the selector's three
    kinds of answer on it, all by evaluation of the function model:
    * nothing in flight: the trivial move of the level-3 file;
    * that move in flight: the level-0 hull merged through levels 0..2 (six inputs, chosen by score);
    * level 0 at the mandatory threshold: the "clear out for level 0" replacement — the candidate
      started from the first level-1 file, whose slices are files 3 and 6 and to which
      `expand_compaction` adds files 4 and 5. -/
namespace Example
open Blue.NextCompaction

def mk (id first last size bts : Nat) (vers : List (Nat × Nat)) : File := ⟨id, first, last, size, bts, vers⟩

def tree : Tree :=
  [[mk 1 2 6 100 10 [(2, 10), (6, 9)], mk 2 4 9 100 12 [(4, 12), (9, 11)]],
   [mk 3 1 3 100 5 [(1, 5), (3, 4)], mk 4 5 7 100 6 [(5, 6)], mk 5 9 12 100 7 [(9, 7), (12, 3)]],
   [mk 6 0 20 400 2 [(0, 2), (6, 1)]],
   [mk 7 0 30 5000 1 [(30, 0)]],
   []]

def opts : Opts := ⟨100, 1000000, 8, 4, 1000000⟩
def move : Core := ⟨3, 4, 0, 30, [7], 5000⟩

theorem tree_inv : Inv tree := invB_sound (by decide +kernel)

theorem chooses_move : nextCompaction ieee opts tree [] = some move := by decide +kernel

theorem chooses_merge_with_move_in_flight :
    nextCompaction ieee opts tree [move] = some ⟨0, 2, 0, 20, [1, 2, 3, 4, 5, 6], 900⟩ := by decide +kernel

theorem chooses_expanded_mandatory :
    nextCompaction ieee { opts with mandFiles := 2 } tree [move] = some ⟨1, 2, 0, 20, [3, 6, 4, 5], 500⟩ := by
  decide +kernel

/-- the hypotheses of `nextCompaction_closed` / `_respects_ongoing` are satisfiable with a
    compaction in flight; `_respects_ongoing` says something (six inputs, none of them file 7).
    NOTE: in this example and the next-but-one no kept component lies below an input (tags
    `[T,T,T,T,T,T]` and `[F,F,T,T,T,T]`), so `Closed` would hold for any versions; the instance
    on which `Closed` has content is `t2` below. -/
example : Closed (tagTree tree ⟨0, 2, 0, 20, [1, 2, 3, 4, 5, 6], 900⟩) :=
  Blue.Props.C01.nextCompaction_closed ieee opts tree [move] tree_inv chooses_merge_with_move_in_flight

example : ∀ g ∈ [move], ∀ id ∈ [1, 2, 3, 4, 5, 6], id ∉ g.inputs :=
  Blue.Props.C01.nextCompaction_respects_ongoing ieee opts tree [move] tree_inv
    (by
      intro g hg
      simp only [List.mem_singleton] at hg
      subst hg
      exact nextCompaction_inputs_within_wf tree_inv chooses_move)
    chooses_merge_with_move_in_flight

example : Closed (tagTree tree ⟨1, 2, 0, 20, [3, 6, 4, 5], 500⟩) :=
  Blue.Props.C01.nextCompaction_closed ieee _ tree [move] tree_inv chooses_expanded_mandatory

/-- the expanded candidate is also an instance of `expand_candidate_closed` -/
example : (candOver { opts with mandFiles := 2 } tree 1 (computeBounds tree 1 1 3) 1 500).inputs = [3, 6, 4, 5] := by
  decide +kernel

/-! ### an instance on which `Closed`, `step_compaction`, `step_compaction_reads` and
    `nextCompaction_keeps_newer_above` have content

    Four levels; the selector (mandatory threshold 2) answers `⟨1, 2, 5, 8, [3, 6], 400⟩`: file 3
    of level 1 with file 6 of level 2.  In search order the tags are `[F, F, T, F, F, T, F]`: kept
    files 4 and 5 lie *between* the two inputs, kept file 7 and the level-3 file below both (four kept
    components below input file 3), so `Closed` constrains the versions. -/

def t2 : Tree :=
  [[mk 1 2 6 600 30 [(2, 30), (6, 29)]],
   [mk 2 1 3 100 20 [(1, 20), (3, 19)], mk 3 5 7 300 22 [(5, 22), (7, 21)], mk 4 9 12 100 23 [(9, 23), (12, 18)]],
   [mk 5 0 4 100 10 [(0, 10), (3, 9)], mk 6 5 8 100 12 [(5, 12), (8, 11)], mk 7 9 20 100 13 [(9, 13), (20, 8)]],
   [mk 8 0 30 50000 1 [(5, 1), (30, 0)]]]
def o2 : Opts := ⟨100, 1000000, 2, 4, 1000000⟩
def c2 : Core := ⟨1, 2, 5, 8, [3, 6], 400⟩

theorem t2_inv : Inv t2 := invB_sound (by decide +kernel)
theorem t2_choice : nextCompaction ieee o2 t2 [] = some c2 := by decide +kernel

theorem t2_closed : Closed (tagTree t2 c2) :=
  Blue.Props.C01.nextCompaction_closed ieee o2 t2 [] t2_inv t2_choice

/-- kept components between and below the inputs -/
example : ((tagTree t2 c2).map (·.1)) = [false, false, true, false, false, true, false] := by decide +kernel

/-- the search order with one memtable in front (`pre2`), the untouched level 3 (`post2`) and the
    outputs of the merge cut into two files, key 5 split across the cut (`outs2`) -/
def pre2 : Tagged Nat := ([[(5, 40)]].map (fun m => (false, m)) ++ tagTree t2 c2)
def post2 : List (List (Ver Nat)) := [[(5, 1), (30, 0)]]
def outs2 : List (List (Ver Nat)) := [[(5, 22)], [(5, 12), (7, 21), (8, 11)]]

theorem pre2_eq : pre2 = [(false, [(5, 40)]), (false, [(2, 30), (6, 29)]), (false, [(1, 20), (3, 19)]),
    (true, [(5, 22), (7, 21)]), (false, [(9, 23), (12, 18)]), (false, [(0, 10), (3, 9)]),
    (true, [(5, 12), (8, 11)]), (false, [(9, 13), (20, 8)])] := by decide +kernel

theorem pre2_closed : Closed pre2 := closed_under_memtables _ _ t2_closed

theorem pre2_same : ∀ e, e ∈ outs2.flatten ↔ e ∈ (inputs pre2).flatten := by
  rw [pre2_eq]; intro e; simp [outs2, inputs]
  constructor <;> (intro h; rcases h with h | h | h | h <;> simp [h])

/-- `nextCompaction_keeps_newer_above`: all hypotheses hold on the selector's own answer -/
example : NewerAbove (kept pre2 ++ outs2 ++ post2) :=
  Blue.Props.C01.nextCompaction_keeps_newer_above ieee o2 t2 [] t2_inv t2_choice [[(5, 40)]] post2 outs2
    (by show NewerAbove (pre2.map (·.2) ++ post2); rw [pre2_eq]; decide)
    (by show ∀ e ∈ outs2.flatten, e ∈ (inputs pre2).flatten; rw [pre2_eq]; decide)
    (by decide)

/-- `step_compaction_reads`: no read changes, at any key and timestamp -/
example (k t : Nat) : load (kept pre2 ++ outs2 ++ post2) k t = load (pre2.map (·.2) ++ post2) k t :=
  Blue.Props.C01.step_compaction_reads pre2 post2 outs2
    (by rw [pre2_eq]; decide) pre2_closed pre2_same (by decide) k t

/-- `step_compaction` with a GC drop (version `5@12` left out of the outputs) -/
example : NewerAbove (kept pre2 ++ [[(5, 22)], [(7, 21), (8, 11)]] ++ post2) :=
  Blue.Props.C01.step_compaction pre2 post2 [[(5, 22)], [(7, 21), (8, 11)]]
    (by rw [pre2_eq]; decide) pre2_closed (by rw [pre2_eq]; decide) (by decide)

/-- what the reads of key 5 are on the successor list: memtable, first output, second output, level 3 -/
example : load (kept pre2 ++ outs2 ++ post2) 5 50 = some (5, 40) ∧ load (kept pre2 ++ outs2 ++ post2) 5 30 = some (5, 22)
    ∧ load (kept pre2 ++ outs2 ++ post2) 5 15 = some (5, 12) ∧ load (kept pre2 ++ outs2 ++ post2) 5 5 = some (5, 1) := by
  rw [pre2_eq]; decide

end Example

/-! ### non-vacuity of `read_returns_latest`: memtable, immutable memtable, two overlapping level-0
    files (given out of search order, so `l0Order` works), level 1 with three files of which two
    share the boundary key 5 (a key straddling two files), level 2 with two files.  Key 5 has six
    versions in five components.  (`decide +kernel` alone gets stuck on `List.mergeSort` once level
    0 has two files: `l0Order` is evaluated by `simp` first.) -/

def s1 : KState :=
  { mem := [(5, 40), (7, 39)], imm := some [(5, 30), (2, 31)],
    l0 := [⟨1, 9, 20, [(1, 20), (5, 19), (9, 18)]⟩, ⟨4, 8, 25, [(4, 25), (5, 24), (8, 23)]⟩],
    levels := [[⟨0, 5, 15, [(0, 15), (5, 14)]⟩, ⟨5, 7, 13, [(5, 12), (7, 11)]⟩, ⟨8, 12, 10, [(8, 10), (12, 9)]⟩],
               [⟨0, 6, 5, [(2, 5), (5, 4), (6, 3)]⟩, ⟨7, 20, 2, [(7, 2), (20, 1)]⟩]] }

theorem s1_l0 : l0Order s1.l0
    = [⟨4, 8, 25, [(4, 25), (5, 24), (8, 23)]⟩, ⟨1, 9, 20, [(1, 20), (5, 19), (9, 18)]⟩] := by
  simp [l0Order, s1, List.mergeSort, List.MergeSort.Internal.splitInTwo]

theorem s1_inv : invB s1 = true := by
  unfold invB allComps l0Comps
  rw [s1_l0]
  decide +kernel

/-- one read out of each component holding key 5, a read below every version, a key of the last
    file, an absent key -/
theorem s1_reads : kvsLoad s1 5 100 = some (5, 40) ∧ kvsLoad s1 5 29 = some (5, 24) ∧ kvsLoad s1 5 20 = some (5, 19)
    ∧ kvsLoad s1 5 13 = some (5, 12) ∧ kvsLoad s1 5 11 = some (5, 4) ∧ kvsLoad s1 5 3 = none
    ∧ kvsLoad s1 20 9 = some (20, 1) ∧ kvsLoad s1 3 100 = none := by
  unfold kvsLoad l0Comps
  rw [s1_l0]
  decide +kernel

/-- the theorem instantiated: both conjuncts -/
example : IsVisible (allComps s1).flatten 5 13 (5, 12) :=
  (read_returns_latest s1 s1_inv 5 13).2 _ s1_reads.2.2.2.1
example : NoneVisible (allComps s1).flatten 5 3 :=
  (read_returns_latest s1 s1_inv 5 3).1 s1_reads.2.2.2.2.2.1

/-- … and `invB` rejects a stale order: an older version of key 5 (`5@13`) in level 0 above the
    newer `5@14` of level 1 -/
def s1bad : KState :=
  { s1 with l0 := [⟨1, 9, 20, [(1, 20), (5, 13), (9, 18)]⟩, ⟨4, 8, 25, [(4, 25), (5, 24), (8, 23)]⟩] }

theorem s1bad_l0 : l0Order s1bad.l0
    = [⟨4, 8, 25, [(4, 25), (5, 24), (8, 23)]⟩, ⟨1, 9, 20, [(1, 20), (5, 13), (9, 18)]⟩] := by
  simp [l0Order, s1bad, s1, List.mergeSort, List.MergeSort.Internal.splitInTwo]

example : invB s1bad = false := by
  unfold invB allComps l0Comps
  rw [s1bad_l0]
  decide +kernel

-- BEGIN ApplyCompaction
/-! ## the successor tree of a compaction, and the tree invariant as an inductive invariant

    `applyCompaction` models `Version::apply_compaction_inner` as written: the levels
    `lower .. upper` (upper EXCLUDED) `retain` the files that are no inputs; the output level is
    `ssts[..lower_bound(first_key)] ++ outputs ++ ssts[upper_bound(last_key)..]` — cut by position,
    outputs in the order given.  `Chosen t c` is what that code needs of a compaction; every answer
    of the selector has it. -/
section ApplyCompaction
open Blue.NextCompaction

/-- every answer of the selector is `Chosen`: levels differ and exist, the key range is
    non-empty, the selection is closed, the inputs lie in the levels `lower ..= upper` inside the
    key range, and every file of the output level meeting the key range is an input -/
theorem nextCompaction_chosen (n : Num) (o : Opts) (t : Tree) (og : List Core) (hinv : Inv t)
    {c : Core} (h : nextCompaction n o t og = some c) : Chosen t c :=
  Blue.NextCompaction.nextCompaction_chosen n o t og hinv h

/-- the Boolean check the driver evaluates on every REAL compaction step (the tree the step was
    applied to, the compaction the real selector returned) is sound for `Chosen` -/
theorem chosen_check_sound {t : Tree} {c : Core} (h : chosenB t c = true) : Chosen t c :=
  Blue.NextCompaction.chosenB_sound h

/-- the Boolean check the driver evaluates on the REAL outputs of every compaction step is sound
    for `OutsOk` -/
theorem outs_check_sound {t : Tree} {c : Core} {outs : List File} (h : outsOkB t c outs = true) :
    OutsOk t c outs :=
  Blue.NextCompaction.outsOkB_sound h

/-- FINDING, proved harmless: the output level is cut by position, not by id; on every `Chosen`
    compaction what the cut keeps is exactly what `retain(not an input)` keeps (and
    `lower_bound ≤ upper_bound`, so the capacity subtraction does not underflow: `lb_le_ub`) -/
theorem output_level_cut_drops_exactly_inputs {t : Tree} {c : Core} (hinv : Inv t) (hc : Chosen t c) :
    dropInputs c.inputs (level t c.upper)
      = (level t c.upper).take (lowerBound (level t c.upper) c.first)
        ++ (level t c.upper).drop (upperBound (level t c.upper) c.last) :=
  spliceUpper_drops_inputs hinv hc

/-- **gap (a)**: the search order of the real successor against the shape `kept ++ outs ++ post` of
    `step_compaction*`: with `pre = tagTree t c` and `post = belowComps t c.upper`,
    the tree is `pre.map snd ++ post`, `kept pre = above ++ before ++ after`, and the successor is
    `above ++ before ++ outs ++ after ++ post` — the outputs stand inside the output level, before
    the kept files right of the key range -/
theorem apply_components {t : Tree} {c : Core} (hinv : Inv t) (hc : Chosen t c) (outs : List File) :
    treeComps t = (tagTree t c).map (·.2) ++ belowComps t c.upper
    ∧ kept (tagTree t c) = aboveComps t c ++ beforeComps t c ++ afterComps t c
    ∧ treeComps (applyCompaction t c outs)
        = aboveComps t c ++ beforeComps t c ++ comps outs ++ afterComps t c ++ belowComps t c.upper :=
  ⟨treeComps_split t c hc.upper_lt, kept_tagTree hinv hc, Blue.NextCompaction.apply_components hinv hc outs⟩

/-- **gap (b)**: `Inv` (files well-formed, I1, ids distinct) is preserved by `apply_compaction_inner` -/
theorem apply_preserves_inv {t : Tree} {c : Core} {outs : List File} (hinv : Inv t) (hc : Chosen t c)
    (ho : OutsOk t c outs) : Inv (applyCompaction t c outs) :=
  Blue.NextCompaction.apply_preserves_inv hinv hc ho

/-- I2 is preserved on the real successor (`mems`: what is searched before the tree) -/
theorem apply_preserves_newer_above {t : Tree} {c : Core} {outs : List File} (hinv : Inv t) (hc : Chosen t c)
    (ho : OutsOk t c outs) (mems : List (List (Ver Nat)))
    (hna : NewerAbove (mems ++ treeComps t))
    (hsub : ∀ o ∈ outs, ∀ e ∈ o.vers, ∃ i f, f ∈ level t i ∧ f.id ∈ c.inputs ∧ e ∈ f.vers)
    (hnew : NewerAbove (comps outs)) :
    NewerAbove (mems ++ treeComps (applyCompaction t c outs)) :=
  Blue.NextCompaction.apply_preserves_newer_above hinv hc ho mems hna hsub hnew

/-- **gap (c)**: `Blue.Kvs.invB` lacks "level-0 files well-formed" and "ids distinct"; `Inv` lacks
    I2; with those added they are the same statement about the same tree, and the search orders
    agree (`allComps = memComps ++ treeComps`) -/
theorem inv_bridge (mem : List (Ver Nat)) (imm : Option (List (Ver Nat))) (t : Tree) :
    allComps (toKState mem imm t) = memComps (toKState mem imm t) ++ treeComps t
    ∧ ((Blue.Kvs.invB (toKState mem imm t) = true
        ∧ (∀ f ∈ level t 0, f.first ≤ f.last ∧ ∀ v ∈ f.vers, f.first ≤ v.1 ∧ v.1 ≤ f.last)
        ∧ (t.flatten.map (·.id)).Nodup)
      ↔ (Inv t ∧ NewerAbove (memComps (toKState mem imm t) ++ treeComps t))) :=
  ⟨allComps_toKState mem imm t, Blue.NextCompaction.inv_bridge mem imm t⟩

/-- one step of the tree keeps `Inv` ∧ I2 -/
theorem tree_step_preserves {n : Num} {o : Opts} {t t' : Tree} (hs : Step n o t t')
    (hinv : Inv t) (hna : NewerAbove (treeComps t)) : Inv t' ∧ NewerAbove (treeComps t') :=
  step_preserves hs hinv hna

/-- **the tree invariant is inductive**: from the version with `k` empty levels, after any sequence
    of `Step`s (ingest / compaction chosen by the selector on this tree / moving compaction),
    `Inv` and I2 hold -/
theorem tree_invariant_inductive {n : Num} {o : Opts} {k : Nat} {t : Tree} (h : Reachable n o k t) :
    Inv t ∧ NewerAbove (treeComps t) :=
  Blue.NextCompaction.tree_invariant_inductive h

/-! non-vacuity on the selector's own answer `c2 = ⟨1, 2, 5, 8, [3, 6], 400⟩` on `Example.t2`:
    the merged run `5@22, 5@12, 7@21, 8@11` cut into two files that touch at key 5 -/
namespace ApplyExample
open Example

def outA : File := mk 9 5 5 150 22 [(5, 22)]
def outB : File := mk 10 5 8 250 21 [(5, 12), (7, 21), (8, 11)]

theorem t2_chosen : Chosen t2 c2 := Blue.Props.C01.nextCompaction_chosen ieee o2 t2 [] t2_inv t2_choice

theorem outs_ok : OutsOk t2 c2 [outA, outB] :=
  outsOk_of_flatten (by decide) (by decide) (by decide) (by decide) (by decide)

/-- both checks answer `true` on the example (non-vacuity of the two soundness theorems) -/
example : chosenB t2 c2 = true := by decide +kernel
example : outsOkB t2 c2 [outA, outB] = true := by decide +kernel

theorem outs_sub : ∀ o ∈ [outA, outB], ∀ e ∈ o.vers, ∃ i f, f ∈ level t2 i ∧ f.id ∈ c2.inputs ∧ e ∈ f.vers :=
  sub_of_flatten (by decide)

/-- the successor is what one expects: file 3 gone from level 1, file 6 of level 2 replaced in
    place by the two outputs (between files 5 and 7), levels 0 and 3 untouched -/
theorem successor : applyCompaction t2 c2 [outA, outB] =
    [[mk 1 2 6 600 30 [(2, 30), (6, 29)]],
     [mk 2 1 3 100 20 [(1, 20), (3, 19)], mk 4 9 12 100 23 [(9, 23), (12, 18)]],
     [mk 5 0 4 100 10 [(0, 10), (3, 9)], outA, outB, mk 7 9 20 100 13 [(9, 13), (20, 8)]],
     [mk 8 0 30 50000 1 [(5, 1), (30, 0)]]] := by rfl

example : Inv (applyCompaction t2 c2 [outA, outB]) :=
  Blue.Props.C01.apply_preserves_inv t2_inv t2_chosen outs_ok

/-- the conclusion agrees with the decidable check evaluated on the successor -/
example : Blue.NextCompaction.invB (applyCompaction t2 c2 [outA, outB]) = true := by decide +kernel

theorem t2_comps : treeComps t2 = [[(2, 30), (6, 29)], [(1, 20), (3, 19)], [(5, 22), (7, 21)], [(9, 23), (12, 18)],
    [(0, 10), (3, 9)], [(5, 12), (8, 11)], [(9, 13), (20, 8)], [(5, 1), (30, 0)]] := by decide +kernel

/-- I2 on the successor under a memtable holding `5@40` -/
example : NewerAbove ([[(5, 40)]] ++ treeComps (applyCompaction t2 c2 [outA, outB])) :=
  Blue.Props.C01.apply_preserves_newer_above t2_inv t2_chosen outs_ok [[(5, 40)]]
    (by rw [t2_comps]; decide) outs_sub (by decide)

/-- the search order of the successor: the outputs stand between file 5 and file 7 -/
example : treeComps (applyCompaction t2 c2 [outA, outB]) =
    [[(2, 30), (6, 29)], [(1, 20), (3, 19)], [(9, 23), (12, 18)], [(0, 10), (3, 9)],
     [(5, 22)], [(5, 12), (7, 21), (8, 11)], [(9, 13), (20, 8)], [(5, 1), (30, 0)]] := by
  rw [successor]; decide +kernel

/-- the hypotheses of the `compact` step are satisfiable, and so are those of `ingest`: two
    reachable trees -/
example : Step ieee o2 t2 (applyCompaction t2 c2 [outA, outB]) :=
  .compact t2 [] c2 [outA, outB] t2_choice outs_ok outs_sub (by decide)

example : Reachable ieee o2 4 (ingest (emptyTree 4) (mk 1 2 6 600 30 [(2, 30), (6, 29)])) :=
  .step .init (.ingest _ _ (by decide)
    (by intro l g hg; rw [level_emptyTree] at hg; cases hg)
    (by intro g hg; rw [level_emptyTree] at hg; cases hg)
    (by rw [treeComps_emptyTree]; intro a _ b hb; cases hb))

/-- `inv_bridge` on `t2` under a memtable: both sides hold -/
example : Blue.Kvs.invB (toKState [(5, 40)] none t2) = true :=
  (((Blue.Props.C01.inv_bridge [(5, 40)] none t2).2).mpr
    ⟨t2_inv, by rw [t2_comps]; decide⟩).1

end ApplyExample
end ApplyCompaction
-- END ApplyCompaction

/-! ## histories: put / del / batch, memtable rollover, flush, compaction

`Blue.StoreHist` (Model/StoreHist.lean) is a sequential store built on the SAME state record
`KState` and the SAME read function `kvsLoad` as above, with `seq_no` / `visible_seq_no` and a
payload map `(key, timestamp) ↦ value | tombstone`.  Operations: `write batch` (rejected when it
names a key twice, else `seq_no + 1` for every entry, into the memtable, published), `rollover`
(only without an immutable memtable; takes a sequence number as the code does), `flush` (the
immutable memtable becomes a level-0 file, found by `l0Order` — proved to be the first of level 0 —
and is cleared), `compact` (the tree is replaced; the step owes `CompactionOk`).  `Valid init ops`
says exactly: every `compact` step of `ops` meets `CompactionOk` on the state it is applied to;
writes, rollovers and flushes owe nothing. -/
section History
open Blue.StoreHist

/-- **the invariant is inductive**: I1, I2 over memtable :: immutable memtable :: tree components
    in search order, `visible_seq_no ≤ seq_no`, every stored timestamp `≤ visible_seq_no`, memtable
    newer than the immutable memtable, level-0 metadata below both — after ANY list of operations
    from the empty store.  I1/I2 are PROVED for write, rollover and flush; for a compaction step I2
    is proved from the step's closedness (`step_compaction` + `swap_disjoint_blocks`) and I1 of the
    successor is one of the step's hypotheses (`CompactionOk.hI1`). -/
theorem history_invariant (ops : List Op) (hv : Valid init ops) : Blue.StoreHist.Inv (run init ops) :=
  Blue.StoreHist.history_invariant ops hv

/-- … hence every reached state passes the decidable check `invB` the driver evaluates on the dumps
    (the hypothesis of `read_returns_latest`) -/
theorem history_states_pass_invB (ops : List Op) (hv : Valid init ops) : invB (run init ops).st = true :=
  Blue.StoreHist.history_invB ops hv

/-- **history_refines**: after any history, for every key, `kvsLoad` at any read timestamp from the
    published sequence number on (`visible_seq_no`, and `seq_no ≥` it) returns exactly the
    specification map's entry — the `(key, timestamp)` of the last accepted write naming the key,
    nothing if there was none — and the payload map holds that write's payload at that version
    (for a delete: the tombstone). -/
theorem history_refines (ops : List Op) (hv : Valid init ops) (k t : Nat) (ht : (run init ops).vis ≤ t) :
    kvsLoad (run init ops).st k t = (spec ops k).map (fun e => (k, e.1))
    ∧ ∀ ts p, spec ops k = some (ts, p) → (run init ops).pay k ts = some p :=
  Blue.StoreHist.history_refines ops hv k t ht

/-- the same at `seq_no` (`visible_seq_no ≤ seq_no` is part of the invariant) -/
theorem history_refines_at_seq (ops : List Op) (hv : Valid init ops) (k : Nat) :
    kvsLoad (run init ops).st k (run init ops).seq = (spec ops k).map (fun e => (k, e.1)) :=
  (Blue.StoreHist.history_refines ops hv k _ (Blue.StoreHist.history_invariant ops hv).vis_le).1

/-- **load returns the value of the last completed write**: `lastWrite ops` is a function of the
    operation list alone (no timestamps, no store): the payload of the last accepted write naming
    the key.  `none`: never written; `some none`: last write was a delete; `some (some v)`: a put. -/
theorem history_reads_last_write (ops : List Op) (hv : Valid init ops) (k : Nat) :
    Blue.StoreHist.read (run init ops) k = lastWrite ops k :=
  Blue.StoreHist.history_reads_last_write ops hv k

/-- **read_after_write**: an accepted write of `(k, p)` followed by any operations that are not
    accepted writes naming `k` (rollovers, flushes, compactions, writes to other keys, rejected
    batches) reads back `p` -/
theorem read_after_write (ops₁ ops₂ : List Op) (b : List (Nat × Payload)) (k : Nat) (p : Payload)
    (hv : Valid init (ops₁ ++ .write b :: ops₂)) (hb : batchOk b = true) (hk : (k, p) ∈ b)
    (hun : ∀ op ∈ ops₂, touches k op = false) :
    Blue.StoreHist.read (run init (ops₁ ++ .write b :: ops₂)) k = some p :=
  Blue.StoreHist.read_after_write ops₁ ops₂ b k p hv hb hk hun

/-- **batch_all_visible**: after an accepted batch every entry reads back and every other key
    reads what the history before the batch says -/
theorem batch_all_visible (ops : List Op) (b : List (Nat × Payload)) (hv : Valid init (ops ++ [.write b]))
    (hb : batchOk b = true) :
    (∀ k p, (k, p) ∈ b → Blue.StoreHist.read (run init (ops ++ [.write b])) k = some p)
    ∧ (∀ k, k ∉ b.map (·.1) → Blue.StoreHist.read (run init (ops ++ [.write b])) k = lastWrite ops k) :=
  Blue.StoreHist.batch_all_visible ops b hv hb

open Blue.NextCompaction in
/-- the closedness obligation of a compaction step is discharged by `nextCompaction_closed` for
    whatever the selector function returns on a tree whose tagged search order is the `pre` of the
    step; what remains are the facts about the merge's outputs and their placement -/
theorem compaction_step_from_selector (n : Num) (o : Opts) (t : Tree) (og : List Core) (hinv : Blue.NextCompaction.Inv t)
    {c : Core} (hc : nextCompaction n o t og = some c) (s s' : KState)
    (post outs a x : List (List (Ver Nat)))
    (hmem : s'.mem = s.mem) (himm : s'.imm = s.imm)
    (hsplit : treeComps s = (tagTree t c).map (·.2) ++ post)
    (hsame : ∀ e, e ∈ outs.flatten ↔ e ∈ (inputs (tagTree t c)).flatten)
    (houts : NewerAbove outs)
    (hkept : kept (tagTree t c) = a ++ x)
    (hdis : ∀ c ∈ x, ∀ d ∈ outs, Disjoint c d)
    (hplace : treeComps s' = a ++ outs ++ x ++ post)
    (hl0 : ∀ g ∈ s'.l0, g ∈ s.l0) (hI1 : I1 s') : CompactionOk s s' :=
  compactionOk_of_nextCompaction n o t og hinv hc s s' post outs a x hmem himm hsplit hsame houts hkept hdis
    hplace hl0 hI1

/-! ### non-vacuity: a twelve-operation history — batch, delete, two rollover/flush rounds (two
    overlapping level-0 files), a compaction of level 0 into level 1 whose obligations are
    discharged, a rejected batch (key 9 twice), a batch with a delete, a rollover -/
namespace Hist

def merged : List (Ver Nat) := [(3, 4), (5, 2), (5, 1), (7, 5), (7, 1)]

def ops : List Op :=
  [.write [(5, some 50), (7, some 70)], .write [(5, none)], .rollover, .write [(3, some 30)], .flush,
   .write [(7, some 71)], .rollover, .flush,
   .compact [] [[⟨3, 7, 5, merged⟩]],
   .write [(9, some 90), (9, none)], .write [(3, none), (8, some 80)], .rollover]

/-- the state the compaction is applied to: two level-0 files sharing key 7 -/
theorem before_compaction : (run init (ops.take 8)).st
    = ⟨[], none, [⟨3, 7, 5, [(7, 5), (3, 4)]⟩, ⟨5, 7, 2, [(5, 2), (5, 1), (7, 1)]⟩], []⟩ := by rfl

theorem ops_valid : Valid init ops := by
  refine ⟨trivial, trivial, trivial, trivial, trivial, trivial, trivial, trivial, ?_, trivial, trivial, trivial, trivial⟩
  show CompactionOk (run init (ops.take 8)).st _
  rw [before_compaction]
  refine .mk [(true, [(7, 5), (3, 4)]), (true, [(5, 2), (5, 1), (7, 1)])] [] [merged] [] [] rfl rfl ?_
    (closedB_sound _ (by decide)) (mem_iff_of_subsets (by decide) (by decide)) (by decide) rfl
    (fun c hc => by cases hc) ?_ (fun g hg => by cases hg) (i1_of_check _ (by decide))
  · unfold treeComps l0Comps
    rw [l0Order_cons_top _ _ (by decide), l0Order_cons_top _ _ (by decide), l0Order_nil]
    rfl
  · unfold treeComps l0Comps
    show (l0Order []).map _ ++ _ = _
    rw [l0Order_nil]
    rfl

theorem final_state : (run init ops).st = ⟨[], some [(3, 7), (8, 7)], [], [[⟨3, 7, 5, merged⟩]]⟩
    ∧ (run init ops).seq = 8 ∧ (run init ops).vis = 7 := ⟨by rfl, by rfl, by rfl⟩

/-- the specification side, by evaluation: keys 3 and 5 end deleted, 7 overwritten, 8 put by the
    last batch, 9 only ever named by the rejected batch -/
theorem last_writes : lastWrite ops 5 = some none ∧ lastWrite ops 7 = some (some 71) ∧ lastWrite ops 3 = some none
    ∧ lastWrite ops 8 = some (some 80) ∧ lastWrite ops 9 = none := by decide

/-- the theorem instantiated … -/
example : Blue.StoreHist.read (run init ops) 5 = some none ∧ Blue.StoreHist.read (run init ops) 7 = some (some 71)
    ∧ Blue.StoreHist.read (run init ops) 9 = none := by
  simp only [Blue.Props.C01.history_reads_last_write ops ops_valid]
  exact ⟨last_writes.1, last_writes.2.1, last_writes.2.2.2.2⟩

/-- … and the store side by evaluation of `kvsLoad` itself on the final state: key 5 is found in
    level 1 (the tombstone's version `5@2`, above `5@1`), key 7 there too (`7@5`), key 3 in the
    immutable memtable -/
example : kvsLoad (run init ops).st 5 7 = some (5, 2) ∧ (run init ops).pay 5 2 = some none
    ∧ kvsLoad (run init ops).st 7 7 = some (7, 5) ∧ (run init ops).pay 7 5 = some (some 71)
    ∧ kvsLoad (run init ops).st 3 7 = some (3, 7) ∧ kvsLoad (run init ops).st 9 7 = none := by
  rw [final_state.1]
  refine ⟨by decide +kernel, by rfl, by decide +kernel, by rfl, by decide +kernel, by decide +kernel⟩

example : invB (run init ops).st = true := Blue.Props.C01.history_states_pass_invB ops ops_valid

end Hist
end History

-- BEGIN StoreHistTree
/-! ## ONE step relation: the store's history over the tree `apply_compaction_inner` builds

`Blue.StoreHistTree` (Proofs/StoreHistTree.lean) composes the two developments above.  The state
`TState` holds the memtables, the counters, the payload map and a `Blue.NextCompaction.Tree`; the
dumped-state record the read model runs on is `toKState mem imm tree`.  Operations: `write`,
`rollover`, `flush id size` (= `Version::ingest` of the table holding the immutable memtable's
versions), `compactSel n o og outs` (= `applyCompaction tree c outs` for `c` the answer of
`nextCompaction n o tree og` on the CURRENT tree; nothing happens when the selector answers
nothing), `moveSel n o og` (= `applyTrivialMove` when the answer has exactly one input).  No step
carries a hypothesis about WHERE the outputs go: `compactionOk_of_apply` proves the placement
obligations of `CompactionOk` (`hsplit`, `hclosed`, `hkept`, `hdis`, `hplace`, `hl0`, `hI1`) from
`apply_components`, `nextCompaction_chosen`, `apply_preserves_inv` and the bridge
`treeComps_toKState`.  What `TValid` still asks: the id of a flushed table is fresh in the tree; the
outputs of a merge meet `OutsOk` (well-formed, sorted with at most touching ranges, inside the key
range, fresh ids), hold EXACTLY the inputs' versions (no GC drop) and are "newer above" among
themselves — C03/C05's subject.  A moving compaction owes nothing. -/
section StoreHistTree
open Blue.NextCompaction Blue.StoreHist Blue.StoreHistTree

/-- **the representation gap**: the tree part of the search order of the store state holding `t`
    (level 0 in `l0Order`, then `levels`) is `treeComps t` (level 0 in `l0Search`, then levels 1 …) -/
theorem treeComps_toKState (mem : List (Ver Nat)) (imm : Option (List (Ver Nat))) (t : Tree) :
    Blue.StoreHist.treeComps (toKState mem imm t) = Blue.NextCompaction.treeComps t :=
  Blue.StoreHistTree.treeComps_toKState mem imm t

/-- **the key lemma**: the successor `apply_compaction_inner` builds from an answer of the selector,
    under the same memtables, IS a compaction step of the history model — the placement, "level 0
    gains nothing" and I1 of the successor are proved, the hypotheses left concern the outputs only -/
theorem compactionOk_of_apply (n : Num) (o : Opts) (og : List Core) (mem : List (Ver Nat)) (imm : Option (List (Ver Nat)))
    {t : Tree} {c : Core} {outs : List File} (hinv : Blue.NextCompaction.Inv t)
    (hsel : nextCompaction n o t og = some c) (ho : OutsOk t c outs)
    (hsub : ∀ o ∈ outs, ∀ e ∈ o.vers, ∃ i f, f ∈ level t i ∧ f.id ∈ c.inputs ∧ e ∈ f.vers)
    (hsup : ∀ i f, f ∈ level t i → f.id ∈ c.inputs → ∀ e ∈ f.vers, ∃ o ∈ outs, e ∈ o.vers)
    (hnew : NewerAbove (comps outs)) :
    CompactionOk (toKState mem imm t) (toKState mem imm (applyCompaction t c outs)) :=
  Blue.StoreHistTree.compactionOk_of_apply n o og mem imm hinv hsel ho hsub hsup hnew

/-- … and for a moving compaction nothing is left to assume -/
theorem compactionOk_of_move (n : Num) (o : Opts) (og : List Core) (mem : List (Ver Nat)) (imm : Option (List (Ver Nat)))
    {t : Tree} {c : Core} {l : Nat} {f : File} (hinv : Blue.NextCompaction.Inv t)
    (hsel : nextCompaction n o t og = some c) (hf : f ∈ level t l) (hone : c.inputs = [f.id]) :
    CompactionOk (toKState mem imm t) (toKState mem imm (applyTrivialMove t c f)) :=
  Blue.StoreHistTree.compactionOk_of_move n o og mem imm hinv hsel hf hone

/-- **store_history_refines**: after ANY list of writes, rollovers, flushes, selector-chosen
    compactions and moving compactions from the empty store (a version with `k + 1` empty levels),
    `kvsLoad` on `toKState mem imm tree` at any read timestamp from the published sequence number
    on returns the `(key, timestamp)` of the last accepted write naming the key (nothing if there
    was none), the payload map holds that write's payload, and BOTH invariants hold: that of the
    history model (I1, I2 over memtables and tree, counters, level-0 metadata) and the tree
    invariant the selector relies on (files well-formed, I1, ids distinct) -/
theorem store_history_refines (k : Nat) (ops : List TOp) (hv : TValid (tinit k) ops) (key t : Nat)
    (ht : (trun (tinit k) ops).vis ≤ t) :
    kvsLoad (toKState (trun (tinit k) ops).mem (trun (tinit k) ops).imm (trun (tinit k) ops).tree) key t
        = (tspec k ops key).map (fun e => (key, e.1))
    ∧ (∀ ts p, tspec k ops key = some (ts, p) → (trun (tinit k) ops).pay key ts = some p)
    ∧ TInv (trun (tinit k) ops) :=
  Blue.StoreHistTree.store_history_refines k ops hv key t ht

/-- the answer of `load`, as payload, is the payload of the last accepted write of the history
    (`lastWrite` of `Blue.StoreHist`: a function of the operation list alone) -/
theorem store_history_reads_last_write (k : Nat) (ops : List TOp) (hv : TValid (tinit k) ops) (key : Nat) :
    Blue.StoreHist.read (trun (tinit k) ops).toH key = lastWrite (ops.map toOp) key :=
  Blue.StoreHistTree.store_history_reads_last_write k ops hv key

/-- every reached state passes the check `Blue.Kvs.invB` evaluated on the dumps, and its tree
    satisfies the invariant the selector theorems assume -/
theorem store_history_states_pass_invB (k : Nat) (ops : List TOp) (hv : TValid (tinit k) ops) :
    invB (toKState (trun (tinit k) ops).mem (trun (tinit k) ops).imm (trun (tinit k) ops).tree) = true
    ∧ Blue.NextCompaction.Inv (trun (tinit k) ops).tree :=
  Blue.StoreHistTree.store_history_invB k ops hv

/-! ### non-vacuity: thirteen operations over a two-level version — two rollover/flush rounds leave
    two level-0 tables sharing keys 5 and 7; the selector (real tables, default-like options) answers
    a MOVE of the older table (id 1) to level 1, then a MERGE of the newer level-0 table (id 2) with
    it; then a rejected batch, a batch with a delete, a rollover.  Every successor tree is computed
    by `applyTrivialMove` / `applyCompaction` from the selector's answer. -/
namespace TreeHist
open Example

def merged : List (Ver Nat) := [(3, 4), (5, 2), (5, 1), (7, 5), (7, 1)]
def out : File := mk 3 3 7 200 5 merged

def ops : List TOp :=
  [.write [(5, some 50), (7, some 70)], .write [(5, none)], .rollover, .write [(3, some 30)], .flush 1 100,
   .write [(7, some 71)], .rollover, .flush 2 100,
   .moveSel ieee opts [],
   .compactSel ieee opts [] [out],
   .write [(9, some 90), (9, none)], .write [(3, none), (8, some 80)], .rollover]

def f1 : File := mk 1 5 7 100 2 [(5, 2), (5, 1), (7, 1)]
def f2 : File := mk 2 3 7 100 5 [(7, 5), (3, 4)]

theorem tree4 : (trun (tinit 1) (ops.take 4)).tree = [[], []] := by rfl
theorem tree7 : (trun (tinit 1) (ops.take 7)).tree = [[f1], []] := by rfl
/-- `ingest` pushed the second table at the END of level 0 (it is searched FIRST: `l0Order`) -/
theorem tree8 : (trun (tinit 1) (ops.take 8)).tree = [[f1, f2], []] := by rfl

/-- the selector moves the OLDER level-0 table: closed, because the newer one stays above it -/
theorem choice8 : nextCompaction ieee opts [[f1, f2], []] [] = some ⟨0, 1, 5, 7, [1], 100⟩ := by decide +kernel

theorem tree9 : (trun (tinit 1) (ops.take 9)).tree = [[f2], [f1]] := by
  show (tapply (trun (tinit 1) (ops.take 8)) (.moveSel ieee opts [])).tree = _
  rw [tapply_move_some _ ieee opts [] (c := ⟨0, 1, 5, 7, [1], 100⟩) (f := f1) (by rw [tree8]; exact choice8)
    (by rw [tree8]; rfl)]
  show applyTrivialMove (trun (tinit 1) (ops.take 8)).tree _ f1 = _
  rw [tree8]; rfl

theorem choice9 : nextCompaction ieee opts [[f2], [f1]] [] = some ⟨0, 1, 3, 7, [2, 1], 200⟩ := by decide +kernel

theorem tree10 : (trun (tinit 1) (ops.take 10)).tree = [[], [out]] := by
  show (tapply (trun (tinit 1) (ops.take 9)) (.compactSel ieee opts [] [out])).tree = _
  rw [tapply_compact_some _ ieee opts [] [out] (c := ⟨0, 1, 3, 7, [2, 1], 200⟩) (by rw [tree9]; exact choice9)]
  show applyCompaction (trun (tinit 1) (ops.take 9)).tree _ [out] = _
  rw [tree9]; rfl

theorem ops_valid : TValid (tinit 1) ops := by
  refine ⟨trivial, trivial, trivial, trivial, ?_, trivial, trivial, ?_, trivial, ?_, trivial, trivial, trivial, trivial⟩
  · intro _ _ _ l g hg
    have hg' : g ∈ level (trun (tinit 1) (ops.take 4)).tree l := hg
    have := mem_flatten_level.mpr ⟨l, hg'⟩
    rw [tree4] at this
    cases this
  · intro _ _ _ l g hg
    have hg' : g ∈ level (trun (tinit 1) (ops.take 7)).tree l := hg
    have := mem_flatten_level.mpr ⟨l, hg'⟩
    rw [tree7] at this
    simp only [List.flatten_cons, List.flatten_nil, List.append_nil, List.mem_singleton] at this
    rw [this]; decide
  · show TOpOk (trun (tinit 1) (ops.take 9)) (.compactSel ieee opts [] [out])
    intro c hc
    have hc' : nextCompaction ieee opts (trun (tinit 1) (ops.take 9)).tree [] = some c := hc
    rw [tree9, choice9] at hc'
    cases hc'
    show OutsOk (trun (tinit 1) (ops.take 9)).tree _ _ ∧ _
    rw [tree9]
    exact ⟨outsOk_of_flatten (by decide) (by decide) (by decide) (by decide) (by decide),
      sub_of_flatten (by decide), sup_of_flatten (by decide), by decide⟩

theorem final_state : (trun (tinit 1) ops).tree = [[], [out]]
    ∧ (trun (tinit 1) ops).mem = [] ∧ (trun (tinit 1) ops).imm = some [(3, 7), (8, 7)]
    ∧ (trun (tinit 1) ops).seq = 8 ∧ (trun (tinit 1) ops).vis = 7 := by
  have e : trun (tinit 1) ops = trun (trun (tinit 1) (ops.take 10)) (ops.drop 10) := by
    rw [trun, trun, trun, ← List.foldl_append, List.take_append_drop]
  have ht : (trun (tinit 1) ops).tree = (trun (tinit 1) (ops.take 10)).tree := by rw [e]; rfl
  refine ⟨by rw [ht, tree10], ?_, ?_, ?_, ?_⟩ <;> rw [e] <;> rfl

theorem last_writes : lastWrite (ops.map toOp) 5 = some none ∧ lastWrite (ops.map toOp) 7 = some (some 71)
    ∧ lastWrite (ops.map toOp) 3 = some none ∧ lastWrite (ops.map toOp) 8 = some (some 80)
    ∧ lastWrite (ops.map toOp) 9 = none := by decide

/-- the theorem instantiated: key 5 ends deleted, 7 overwritten, 9 only ever named by the rejected
    batch -/
example : Blue.StoreHist.read (trun (tinit 1) ops).toH 5 = some none
    ∧ Blue.StoreHist.read (trun (tinit 1) ops).toH 7 = some (some 71)
    ∧ Blue.StoreHist.read (trun (tinit 1) ops).toH 9 = none := by
  simp only [Blue.Props.C01.store_history_reads_last_write 1 ops ops_valid]
  exact ⟨last_writes.1, last_writes.2.1, last_writes.2.2.2.2⟩

/-- … and the store side by evaluation of `kvsLoad` on the final state: keys 5 and 7 are found in
    the merged table at level 1, key 3 in the immutable memtable -/
example : kvsLoad (toKState [] (some [(3, 7), (8, 7)]) [[], [out]]) 5 7 = some (5, 2)
    ∧ kvsLoad (toKState [] (some [(3, 7), (8, 7)]) [[], [out]]) 7 7 = some (7, 5)
    ∧ kvsLoad (toKState [] (some [(3, 7), (8, 7)]) [[], [out]]) 3 7 = some (3, 7)
    ∧ kvsLoad (toKState [] (some [(3, 7), (8, 7)]) [[], [out]]) 9 7 = none := by
  refine ⟨by decide +kernel, by decide +kernel, by decide +kernel, by decide +kernel⟩

example : Blue.NextCompaction.Inv (trun (tinit 1) ops).tree :=
  (Blue.Props.C01.store_history_states_pass_invB 1 ops ops_valid).2

/-- `compactionOk_of_apply` on the larger tree `t2` of `ApplyExample` (outputs inside the output
    level, kept files on both sides), under a memtable and an immutable memtable -/
example : CompactionOk (toKState [(5, 40)] (some [(9, 39)]) t2)
    (toKState [(5, 40)] (some [(9, 39)]) (applyCompaction t2 c2 [ApplyExample.outA, ApplyExample.outB])) :=
  Blue.Props.C01.compactionOk_of_apply ieee o2 [] _ _ t2_inv t2_choice ApplyExample.outs_ok ApplyExample.outs_sub
    (sup_of_flatten (by decide)) (by decide)

end TreeHist
end StoreHistTree
-- END StoreHistTree

-- BEGIN ApplyLater
/-! ## a compaction is installed LATER than it was chosen

`Tree::compaction_thread` holds the `compaction` mutex while it takes a snapshot and runs
`next_compaction` on it (which registers the answer in the shared `ongoing` list,
`emit_compaction`), releases it for the merge (`perform_compaction`), and
`apply_manifest_compaction` / `apply_moving_compaction` take it again, take a FRESH snapshot and
apply the compaction to THAT version.  `apply_manifest_ingest` (the flush) changes the version under
the same mutex.  So the tree a compaction is applied to is the tree it was chosen on plus any number
of flushes and installs of other compactions in flight.  What `may_choose_compaction` guarantees of
two compactions in flight is `!CompactionCore::overlapping`: level intervals `[lower, upper]`
disjoint OR key ranges disjoint — more than "no common input" (`nextCompaction_respects_ongoing`),
and the difference is needed (`no_common_input_not_enough`). -/
section ApplyLater
open Blue.NextCompaction Blue.StoreHist Blue.StoreHistTree Blue.StoreHistLater

/-- **a flush between choice and install is harmless**: a compaction admissible on `t` is
    admissible on `ingest t f` (fresh id, newest timestamp of level 0): the new file is no input
    and is searched ABOVE every input; `Closed` constrains only what lies below an input -/
theorem chosen_stable_under_ingest {t : Tree} {c : Core} (hc : Chosen t c) {f : File}
    (hfresh : ∀ l g, g ∈ level t l → g.id ≠ f.id) (hbts : ∀ g ∈ level t 0, g.bts < f.bts) :
    Chosen (ingest t f) c :=
  Blue.NextCompaction.chosen_stable_under_ingest hc hfresh hbts

/-- … hence, applied to the tree reached by ANY number of flushes, it preserves the tree invariant
    (I1 included) and I2 under any memtables (hypotheses on the outputs as in
    `apply_preserves_inv` / `apply_preserves_newer_above`, on the tree it is applied to) -/
theorem apply_after_ingests {t t' : Tree} {c : Core} {outs : List File} (hi : Ingests t t') (hc : Chosen t c)
    (hinv' : Blue.NextCompaction.Inv t') (ho : OutsOk t' c outs) (mems : List (List (Ver Nat)))
    (hna : NewerAbove (mems ++ Blue.NextCompaction.treeComps t'))
    (hsub : ∀ o ∈ outs, ∀ e ∈ o.vers, ∃ i f, f ∈ level t' i ∧ f.id ∈ c.inputs ∧ e ∈ f.vers)
    (hnew : NewerAbove (comps outs)) :
    Chosen t' c ∧ Blue.NextCompaction.Inv (applyCompaction t' c outs)
      ∧ NewerAbove (mems ++ Blue.NextCompaction.treeComps (applyCompaction t' c outs)) :=
  Blue.NextCompaction.apply_after_ingests hi hc hinv' ho mems hna hsub hnew

/-- what the selector guarantees of the compactions in flight: `may_choose_compaction`'s
    `overlapping` test -/
theorem nextCompaction_not_overlapping (n : Num) (o : Opts) (t : Tree) (og : List Core) {c : Core}
    (h : nextCompaction n o t og = some c) : ∀ g ∈ og, overlapping g c = false :=
  Blue.NextCompaction.nextCompaction_not_overlapping n o t og h

/-- **another install between choice and install is harmless**: `c₁`, `c₂` admissible on `t` and
    not `overlapping`; after `apply_compaction_inner` of `c₁`, `c₂` is still admissible -/
theorem chosen_stable_under_disjoint_apply {t : Tree} {c₁ c₂ : Core} {outs₁ : List File}
    (hinv : Blue.NextCompaction.Inv t) (h1 : Chosen t c₁) (ho : OutsOk t c₁ outs₁) (h2 : Chosen t c₂)
    (hno : overlapping c₁ c₂ = false) : Chosen (applyCompaction t c₁ outs₁) c₂ :=
  Blue.NextCompaction.chosen_stable_under_disjoint_apply hinv h1 ho h2 hno

/-- two compactions in flight can be installed in either order -/
theorem install_either_order {t : Tree} {c₁ c₂ : Core} {o₁ o₂ : List File} (hinv : Blue.NextCompaction.Inv t)
    (h1 : Chosen t c₁) (h2 : Chosen t c₂) (hno : overlapping c₁ c₂ = false)
    (ho1 : OutsOk t c₁ o₁) (ho2 : OutsOk t c₂ o₂)
    (ho21 : OutsOk (applyCompaction t c₁ o₁) c₂ o₂) (ho12 : OutsOk (applyCompaction t c₂ o₂) c₁ o₁) :
    Blue.NextCompaction.Inv (applyCompaction (applyCompaction t c₁ o₁) c₂ o₂)
      ∧ Blue.NextCompaction.Inv (applyCompaction (applyCompaction t c₂ o₂) c₁ o₁) :=
  Blue.NextCompaction.install_either_order hinv h1 h2 hno ho1 ho2 ho21 ho12

/-- **with "no common input" alone it is FALSE** (three levels, two files; the second install then
    drops a file that is none of its inputs: `NoCommonInputIsNotEnough.install_drops_A`) -/
theorem no_common_input_not_enough : ∃ (t : Tree) (c₁ c₂ : Core) (outs₁ : List File),
    Blue.NextCompaction.Inv t ∧ Chosen t c₁ ∧ OutsOk t c₁ outs₁ ∧ Chosen t c₂
      ∧ (∀ id ∈ c₁.inputs, id ∉ c₂.inputs) ∧ ¬ Chosen (applyCompaction t c₁ outs₁) c₂ :=
  Blue.NextCompaction.no_common_input_not_enough

/-- **store_history_refines_concurrent**: the composed history with choosing and installing as
    SEPARATE operations (`choose n o | install i outs | moveInstall i | abort i`, any number of
    compactions in flight, writes / rollovers / flushes in between): `kvsLoad` returns the last
    accepted write, the payload map holds its payload, and `LInv` holds in the state reached — both
    invariants of `store_history_refines`, every compaction in flight admissible on the CURRENT
    tree, no two overlapping -/
theorem store_history_refines_concurrent (k : Nat) (ops : List LOp) (hv : LValid (linit k) ops) (key t : Nat)
    (ht : (lrun (linit k) ops).base.vis ≤ t) :
    kvsLoad (toKState (lrun (linit k) ops).base.mem (lrun (linit k) ops).base.imm (lrun (linit k) ops).base.tree) key t
        = (lspec k ops key).map (fun e => (key, e.1))
    ∧ (∀ ts p, lspec k ops key = some (ts, p) → (lrun (linit k) ops).base.pay key ts = some p)
    ∧ LInv (lrun (linit k) ops) :=
  Blue.StoreHistLater.store_history_refines_concurrent k ops hv key t ht

theorem concurrent_reads_last_write (k : Nat) (ops : List LOp) (hv : LValid (linit k) ops) (key : Nat) :
    Blue.StoreHist.read (lrun (linit k) ops).base.toH key = lastWrite (ops.map ltoOp) key :=
  Blue.StoreHistLater.concurrent_reads_last_write k ops hv key

/-- … garbage-collecting installs included (`gcInstall i outs`: output level the last, outputs may
    drop versions — `GcCompactionOk` through `gcCompactionOk_of_chosen`): the read answers the
    payload of the last accepted write, except that a deleted key may read "no version" once its
    tombstone has been collected (the exception of C05 `history_refines_gc`) -/
theorem store_history_refines_concurrent_gc (k : Nat) (ops : List Blue.StoreHistLaterGc.GOp)
    (hv : Blue.StoreHistLaterGc.GValid (linit k) ops) (key : Nat) :
    (Blue.StoreHist.read (Blue.StoreHistLaterGc.grun (linit k) ops).base.toH key
        = lastWrite (ops.map Blue.StoreHistLaterGc.gtoOp) key
      ∨ (lastWrite (ops.map Blue.StoreHistLaterGc.gtoOp) key = some none
          ∧ Blue.StoreHist.read (Blue.StoreHistLaterGc.grun (linit k) ops).base.toH key = none))
    ∧ LInv (Blue.StoreHistLaterGc.grun (linit k) ops) :=
  Blue.StoreHistLaterGc.store_history_refines_concurrent_gc k ops hv key

/-- the atomic step of `store_history_refines` is `choose` directly followed by `install` -/
theorem atomic_is_choose_then_install (s : LState) (n : Num) (o : Opts) (outs : List File) :
    (lapply (lapply s (.choose n o)) (.install s.og.length outs)).base.tree
      = (tapply s.base (.compactSel n o s.og outs)).tree :=
  Blue.StoreHistLater.atomic_is_choose_then_install s n o outs

/-! ### non-vacuity: the history of `TreeHist`, with the move of table 1 CHOSEN while it is alone in
    level 0, table 2 flushed in between, the move installed on the tree holding both; then the merge
    chosen, a write in between, the merge installed. -/
namespace LaterHist
open Example TreeHist

def mv : Core := ⟨0, 1, 5, 7, [1], 100⟩
def mg : Core := ⟨0, 1, 3, 7, [2, 1], 200⟩

def lops : List LOp :=
  [.write [(5, some 50), (7, some 70)], .write [(5, none)], .rollover, .write [(3, some 30)], .flush 1 100,
   .write [(7, some 71)], .rollover,
   .choose ieee opts, .flush 2 100, .moveInstall 0,
   .choose ieee opts, .write [(9, some 90), (9, none)], .write [(3, none), (8, some 80)], .install 0 [out], .rollover]

theorem choice7 : nextCompaction ieee opts [[f1], []] [] = some mv := by decide +kernel

/-- the state after `j` operations -/
def st (j : Nat) : LState := lrun (linit 1) (lops.take j)

theorem st_succ (j : Nat) (op : LOp) (h : lops[j]? = some op) : st (j + 1) = lapply (st j) op := by
  unfold st lrun
  rw [List.take_add_one, h, List.foldl_append]; rfl

theorem tree7 : (st 7).base.tree = [[f1], []] ∧ (st 7).og = [] := ⟨rfl, rfl⟩

/-- `choose`: the move of table 1 is in flight, the tree is as it was -/
theorem st8 : st 8 = ⟨(st 7).base, [mv]⟩ := by
  rw [st_succ 7 _ rfl, lapply_choose_some (st 7) ieee opts (c := mv) (by rw [tree7.1, tree7.2]; exact choice7)]
  rfl

/-- the flush in between: table 2 is pushed onto level 0, the move still in flight -/
theorem tree9 : (st 9).base.tree = [[f1, f2], []] ∧ (st 9).og = [mv] := by
  rw [st_succ 8 _ rfl, st8]; exact ⟨rfl, rfl⟩

/-- the move is installed on the tree holding BOTH tables (not the one it was chosen on) -/
theorem tree10 : (st 10).base.tree = [[f2], [f1]] ∧ (st 10).og = [] := by
  rw [st_succ 9 _ rfl, lapply_move_some (st 9) (c := mv) (f := f1) (by rw [tree9.2]; rfl) (by rw [tree9.1]; rfl)]
  show applyTrivialMove (st 9).base.tree mv f1 = _ ∧ (st 9).og.eraseIdx 0 = _
  rw [tree9.1, tree9.2]; exact ⟨rfl, rfl⟩

theorem st11 : st 11 = ⟨(st 10).base, [mg]⟩ := by
  rw [st_succ 10 _ rfl, lapply_choose_some (st 10) ieee opts (c := mg) (by rw [tree10.1, tree10.2]; exact choice9)]
  rw [tree10.2]; rfl

theorem tree13 : (st 13).base.tree = [[f2], [f1]] ∧ (st 13).og = [mg] := by
  rw [st_succ 12 _ rfl, st_succ 11 _ rfl, st11]
  refine ⟨?_, rfl⟩
  show (st 10).base.tree = _
  exact tree10.1

theorem tree14 : (st 14).base.tree = [[], [out]] ∧ (st 14).og = [] := by
  rw [st_succ 13 _ rfl, lapply_install_some (st 13) [out] (c := mg) (by rw [tree13.2]; rfl)]
  show applyCompaction (st 13).base.tree mg [out] = _ ∧ (st 13).og.eraseIdx 0 = _
  rw [tree13.1, tree13.2]; exact ⟨rfl, rfl⟩

theorem lvalid_from (j : Nat) (ops : List LOp) (h : lops.drop j = ops) : LValid (st j) ops ↔ LValid (st j) (lops.drop j) := by
  rw [h]

theorem lops_valid : LValid (linit 1) lops := by
  have key : ∀ (j : Nat) (rest : List LOp) (op : LOp), lops[j]? = some op →
      LOpOk (st j) op → LValid (st (j + 1)) rest → LValid (st j) (op :: rest) := by
    intro j rest op h ok hv
    refine ⟨ok, ?_⟩
    rw [← st_succ j op h]; exact hv
  show LValid (st 0) lops
  refine key 0 _ _ rfl trivial <| key 1 _ _ rfl trivial <| key 2 _ _ rfl trivial <| key 3 _ _ rfl trivial <|
    key 4 _ _ rfl ?_ <| key 5 _ _ rfl trivial <| key 6 _ _ rfl trivial <| key 7 _ _ rfl trivial <|
    key 8 _ _ rfl ?_ <| key 9 _ _ rfl trivial <| key 10 _ _ rfl trivial <| key 11 _ _ rfl trivial <|
    key 12 _ _ rfl trivial <| key 13 _ _ rfl ?_ <| key 14 _ _ rfl trivial <| trivial
  · intro _ _ _ l g hg
    have := mem_flatten_level.mpr ⟨l, hg⟩
    have e : (st 4).base.tree = [[], []] := rfl
    rw [e] at this
    cases this
  · intro _ _ _ l g hg
    have := mem_flatten_level.mpr ⟨l, hg⟩
    rw [st8, tree7.1] at this
    simp only [List.flatten_cons, List.flatten_nil, List.append_nil, List.mem_singleton] at this
    rw [this]; decide
  · intro c hc
    rw [tree13.2] at hc
    cases hc
    rw [tree13.1]
    exact ⟨outsOk_of_flatten (by decide) (by decide) (by decide) (by decide) (by decide),
      sub_of_flatten (by decide), sup_of_flatten (by decide), by decide⟩

theorem final_tree : (lrun (linit 1) lops).base.tree = [[], [out]] ∧ (lrun (linit 1) lops).og = [] := by
  have e : lrun (linit 1) lops = st 15 := rfl
  rw [e, st_succ 14 _ rfl]
  exact ⟨tree14.1, tree14.2⟩

theorem last_writes : lastWrite (lops.map ltoOp) 5 = some none ∧ lastWrite (lops.map ltoOp) 7 = some (some 71)
    ∧ lastWrite (lops.map ltoOp) 9 = none := by decide

/-- the theorem instantiated: key 5 ends deleted, 7 overwritten, 9 only named by the rejected batch -/
example : Blue.StoreHist.read (lrun (linit 1) lops).base.toH 5 = some none
    ∧ Blue.StoreHist.read (lrun (linit 1) lops).base.toH 7 = some (some 71)
    ∧ Blue.StoreHist.read (lrun (linit 1) lops).base.toH 9 = none := by
  simp only [Blue.Props.C01.concurrent_reads_last_write 1 lops lops_valid]
  exact last_writes

example : LInv (lrun (linit 1) lops) :=
  (Blue.Props.C01.store_history_refines_concurrent 1 lops lops_valid 0 (lrun (linit 1) lops).base.vis (Nat.le_refl _)).2.2

/-- `chosen_stable_under_ingest` instantiated: the move chosen on `[[f1], []]` is admissible on the
    tree after the flush of table 2 -/
example : Chosen [[f1, f2], []] mv :=
  Blue.Props.C01.chosen_stable_under_ingest (t := [[f1], []]) (f := f2)
    (nextCompaction_chosen ieee opts _ [] (Blue.NextCompaction.invB_sound (by decide +kernel)) choice7)
    (by
      intro l g hg
      have := mem_flatten_level.mpr ⟨l, hg⟩
      simp only [List.flatten_cons, List.flatten_nil, List.append_nil, List.mem_singleton] at this
      rw [this]; decide)
    (by
      intro g hg
      have hg' : g ∈ [f1] := hg
      simp only [List.mem_singleton] at hg'
      rw [hg']; decide)

/-- two compactions in flight: on `ApplyExample`'s tree the selector, told that its first answer
    `c2` (levels 1 → 2, keys 5..8) is in flight, answers a second one at the SAME levels with the
    disjoint key range 0..4 -/
theorem t2_second : nextCompaction ieee o2 t2 [c2] = some ⟨1, 2, 0, 4, [2, 5], 200⟩ := by decide +kernel

/-- `nextCompaction_not_overlapping` / `chosen_stable_under_disjoint_apply` with hypotheses that
    hold: the first installed, the second is still admissible on the successor -/
example : Chosen (applyCompaction t2 c2 [ApplyExample.outA, ApplyExample.outB]) ⟨1, 2, 0, 4, [2, 5], 200⟩ :=
  Blue.Props.C01.chosen_stable_under_disjoint_apply t2_inv
    (nextCompaction_chosen ieee o2 t2 [] t2_inv t2_choice) ApplyExample.outs_ok
    (nextCompaction_chosen ieee o2 t2 [c2] t2_inv t2_second)
    (Blue.Props.C01.nextCompaction_not_overlapping ieee o2 t2 [c2] t2_second c2 (List.mem_singleton.mpr rfl))

/-- the counterexample evaluated: both admissible, no common input, overlapping; after the first
    install the second is not admissible, and installing it leaves only its own output -/
example : chosenB NoCommonInputIsNotEnough.t NoCommonInputIsNotEnough.c₁ = true
    ∧ chosenB NoCommonInputIsNotEnough.t NoCommonInputIsNotEnough.c₂ = true
    ∧ overlapping NoCommonInputIsNotEnough.c₁ NoCommonInputIsNotEnough.c₂ = true
    ∧ chosenB (applyCompaction NoCommonInputIsNotEnough.t NoCommonInputIsNotEnough.c₁ [NoCommonInputIsNotEnough.A])
        NoCommonInputIsNotEnough.c₂ = false := by
  refine ⟨by decide +kernel, by decide +kernel, by decide, by decide +kernel⟩

/-- the same history with the merge installed as a GARBAGE COLLECTION (level 1 is the last level of
    this version, so `perform_garbage_collection` is what the code runs): the output keeps the
    newest version of every key and drops `5@1` and `7@1` -/
def outG : File := mk 3 3 7 200 5 [(3, 4), (5, 2), (7, 5)]

open Blue.StoreHistLaterGc in
def gops : List GOp := (lops.take 13).map .plain ++ [.gcInstall 0 [outG], .plain .rollover]

open Blue.StoreHistLaterGc in
theorem gops_valid : GValid (linit 1) gops := by
  apply gvalid_plain_append
  · exact LValid.prefix (lops.take 13) (lops.drop 13) _ (by rw [List.take_append_drop]; exact lops_valid)
  · refine ⟨?_, trivial, trivial⟩
    show GOpOk (st 13) (.gcInstall 0 [outG])
    intro c hc
    rw [tree13.2] at hc
    cases hc
    rw [tree13.1]
    refine ⟨outsOk_of_flatten (by decide) (by decide) (by decide) (by decide) (by decide), rfl,
      sub_of_flatten (by decide), ?_, by decide⟩
    exact Blue.StoreHistGc.newestKeptB_sound _ _ _ (by decide +kernel)

open Blue.StoreHistLaterGc in
example : (grun (linit 1) gops).base.tree.map (fun l => l.map (·.vers)) = [[], [[(3, 4), (5, 2), (7, 5)]]] := by
  unfold gops
  rw [grun_append, grun_plain]
  show (gapply (gapply (st 13) (.gcInstall 0 [outG])) (.plain .rollover)).base.tree.map _ = _
  show ((lapply (st 13) (.install 0 [outG])).base.tree).map _ = _
  rw [lapply_install_some (st 13) [outG] (c := mg) (by rw [tree13.2]; rfl)]
  show (applyCompaction (st 13).base.tree mg [outG]).map _ = _
  rw [tree13.1]; rfl

open Blue.StoreHistLaterGc in
example : LInv (grun (linit 1) gops) :=
  (Blue.Props.C01.store_history_refines_concurrent_gc 1 gops gops_valid 0).2

end LaterHist
end ApplyLater
-- END ApplyLater

-- BEGIN StoreHistWindow
/-! ## the FLUSH WINDOW at history level (Model/StoreHistWindow.lean, Proofs/StoreHistWindow.lean)

`flush` of `Blue.StoreHist` is ONE step; `_memtable_thread` does it in two critical sections:
`self.tree._ingest(…)` installs the version holding the new level-0 file (kvs/mod.rs line 310) and
`state.imm = None` comes later under the state lock (line 322).  `load` clones `mem`, `imm` and the
tree snapshot under the state lock (lines 555–565), so between the two it sees the flushed versions
through `imm` AND through the tree.  `Blue.StoreHistWindow` has the split alphabet `write | rollover |
flushInstall | flushClear | compact` over `WState = (HState, win)`.  Inside the window the code
allows writes (`write` never waits for `imm`), compactions (the compaction thread may pick the new
file) and reads; NOT a rollover (rotation and clear are head and tail of one iteration of the single
`_memtable_thread` loop) — `rollover` on a state with an immutable memtable is the no-op it is in
`Blue.StoreHist`.

`WInv` (the weakened invariant): every clause of `Blue.StoreHist.Inv` for `shadow w` (the state
with the duplicate child `imm` removed: I1, I2 over `mem :: tree`, counters, published timestamps,
level-0 metadata), and for a window state `Extra`: `imm`'s versions are a SUBSET of the tree's
versions (right after the install the file holds exactly them; a compaction may merge the file
away), the memtable is newer than `imm`, and a tree version of a key of `b ∈ imm` is a copy of a
version of `imm` or older than `b`.  NOT true in a window (and not claimed): "newer above" with `≤`
over `mem :: imm :: tree` — `imm` may hold `k@5, k@3` and the tree's copy `k@5` is newer than `imm`'s
`k@3`; the lookup is still right because `imm` answers with ITS newest version of the key. -/
section HistoryWindow
open Blue.StoreHist Blue.StoreHistWindow

/-- **window_invariant**: after ANY valid history of the split alphabet (ending inside a window or
    not; nothing assumed for write / rollover / flushInstall / flushClear, `CompactionOk` for a
    compaction step as in `history_invariant`) -/
theorem window_invariant (ops : List WOp) (hv : ValidW initW ops) : WInv (runW initW ops) :=
  Blue.StoreHistWindow.window_invariant ops hv

/-- … and it is inductive (one step, any reachable-or-not state satisfying it) -/
theorem window_invariant_step (w : WState) (op : WOp) (ok : OpOkW w op) (inv : WInv w) : WInv (applyW w op) :=
  Blue.StoreHistWindow.winv_step w op ok inv

/-- **window_reads_unchanged**: in every state satisfying the window invariant, `kvsLoad` — at EVERY
    key and EVERY timestamp, `imm` searched before level 0 — answers what it answers once `imm` is
    cleared (`shadow w`: the state `flushClear` leads to) -/
theorem window_reads_unchanged {w : WState} (inv : WInv w) (k t : Nat) :
    kvsLoad w.h.st k t = kvsLoad (shadow w).st k t :=
  Blue.StoreHistWindow.window_reads_unchanged inv k t

/-- the two ends of the window: `flushInstall` changes no read, `flushClear` changes no read -/
theorem window_reads_install_clear {w : WState} (inv : WInv w) (k t : Nat) :
    kvsLoad (applyW w .flushInstall).h.st k t = kvsLoad w.h.st k t
    ∧ kvsLoad (applyW w .flushClear).h.st k t = kvsLoad w.h.st k t :=
  ⟨Blue.StoreHistWindow.window_reads_install inv k t, Blue.StoreHistWindow.window_reads_clear inv k t⟩

/-- **history_refines_window**: `history_refines` for the split alphabet — ANY valid list of
    operations, every `flushInstall` followed by its `flushClear` or not yet -/
theorem history_refines_window (ops : List WOp) (hv : ValidW initW ops) (k t : Nat)
    (ht : (runW initW ops).h.vis ≤ t) :
    kvsLoad (runW initW ops).h.st k t = (specW ops k).map (fun e => (k, e.1))
    ∧ ∀ ts p, specW ops k = some (ts, p) → (runW initW ops).h.pay k ts = some p :=
  Blue.StoreHistWindow.history_refines_window ops hv k t ht

/-- `load` answers the payload of the last accepted write, in window states too -/
theorem history_reads_last_write_window (ops : List WOp) (hv : ValidW initW ops) (k : Nat) :
    Blue.StoreHist.read (runW initW ops).h k = lastWriteW ops k :=
  Blue.StoreHistWindow.history_reads_last_write_window ops hv k

/-! non-vacuity: a batch, a delete of key 5, rollover, `flushInstall`; INSIDE the window an
    overwrite of key 7 and a compaction moving the just-installed file to level 1; reads there
    (`opsW` ends inside the window); `flushClear` last (`opsAll`). -/
namespace WinHist

def file : KFile := ⟨5, 7, 2, [(5, 2), (5, 1), (7, 1), (6, 1)]⟩

def opsW : List WOp :=
  [.write [(5, some 50), (7, some 70), (6, some 60)], .write [(5, none)], .rollover, .flushInstall,
   .write [(7, some 71)], .compact [] [[file]]]

def opsAll : List WOp := opsW ++ [.flushClear]

theorem before_compaction : (runW initW (opsW.take 5)).h.st
    = ⟨[(7, 4)], some [(5, 2), (5, 1), (7, 1), (6, 1)], [file], []⟩ := by rfl

theorem compaction_ok : CompactionOk (runW initW (opsW.take 5)).h.st
    { (runW initW (opsW.take 5)).h.st with l0 := [], levels := [[file]] } := by
  rw [before_compaction]
  refine .mk [(true, [(5, 2), (5, 1), (7, 1), (6, 1)])] [] [[(5, 2), (5, 1), (7, 1), (6, 1)]] [] [] rfl rfl ?_
    (closedB_sound _ (by decide)) (fun e => Iff.rfl) (by decide) rfl
    (fun c hc => by cases hc) ?_ (fun g hg => by cases hg) (i1_of_check _ (by decide))
  · unfold treeComps l0Comps
    rw [l0Order_cons_top _ _ (by decide), l0Order_nil]
    rfl
  · unfold treeComps l0Comps
    show (l0Order []).map _ ++ _ = _
    rw [l0Order_nil]
    rfl

theorem opsW_valid : ValidW initW opsW :=
  ⟨trivial, trivial, trivial, trivial, trivial, compaction_ok, trivial⟩

theorem opsAll_valid : ValidW initW opsAll :=
  ⟨trivial, trivial, trivial, trivial, trivial, compaction_ok, trivial, trivial⟩

/-- the reached WINDOW state: `imm` still present, level 1 holds the same versions -/
theorem in_window : (runW initW opsW).h.st
      = ⟨[(7, 4)], some [(5, 2), (5, 1), (7, 1), (6, 1)], [], [[file]]⟩
    ∧ (runW initW opsW).win = true ∧ (runW initW opsW).h.vis = 4 := ⟨by rfl, by rfl, by rfl⟩

theorem after_clear : (runW initW opsAll).h.st = ⟨[(7, 4)], none, [], [[file]]⟩
    ∧ (runW initW opsAll).win = false := ⟨by rfl, by rfl⟩

/-- I2 does NOT hold of the window state's component list (it holds of the shadow's) -/
example : invB (runW initW opsW).h.st = false ∧ invB (shadow (runW initW opsW)).st = true := by
  refine ⟨?_, invB_of_inv (Blue.Props.C01.window_invariant opsW opsW_valid).base⟩
  rw [in_window.1]; decide +kernel

theorem last_writes : lastWriteW opsW 5 = some none ∧ lastWriteW opsW 7 = some (some 71)
    ∧ lastWriteW opsW 6 = some (some 60) ∧ lastWriteW opsW 9 = none := by decide

/-- the theorem instantiated INSIDE the window … -/
example : Blue.StoreHist.read (runW initW opsW).h 5 = some none
    ∧ Blue.StoreHist.read (runW initW opsW).h 7 = some (some 71)
    ∧ Blue.StoreHist.read (runW initW opsW).h 6 = some (some 60) := by
  simp only [Blue.Props.C01.history_reads_last_write_window opsW opsW_valid]
  exact ⟨last_writes.1, last_writes.2.1, last_writes.2.2.1⟩

/-- … and the store side by evaluation of `kvsLoad` on the window state and after the clear: inside
    the window key 5 is answered by `imm` (the tombstone `5@2`), key 7 by the memtable (the write
    made inside the window), key 6 by `imm`; after the clear the level-1 file answers the same -/
example : kvsLoad (runW initW opsW).h.st 5 4 = some (5, 2) ∧ (runW initW opsW).h.pay 5 2 = some none
    ∧ kvsLoad (runW initW opsW).h.st 7 4 = some (7, 4) ∧ kvsLoad (runW initW opsW).h.st 6 4 = some (6, 1)
    ∧ kvsLoad (runW initW opsAll).h.st 5 4 = some (5, 2) ∧ kvsLoad (runW initW opsAll).h.st 6 4 = some (6, 1) := by
  rw [in_window.1, after_clear.1]
  refine ⟨by decide +kernel, by rfl, by decide +kernel, by decide +kernel, by decide +kernel, by decide +kernel⟩

/-- the hypotheses of `window_reads_unchanged`, `window_reads_install_clear`, `window_invariant_step`
    are met: by the window state itself, by the state right after the rollover (entering the
    window), and by the step that leaves the window -/
example : kvsLoad (runW initW opsW).h.st 5 4 = kvsLoad (shadow (runW initW opsW)).st 5 4 :=
  Blue.Props.C01.window_reads_unchanged (Blue.Props.C01.window_invariant opsW opsW_valid) 5 4

example : kvsLoad (applyW (runW initW (opsW.take 3)) .flushInstall).h.st 5 2 = kvsLoad (runW initW (opsW.take 3)).h.st 5 2 :=
  (Blue.Props.C01.window_reads_install_clear
    (Blue.Props.C01.window_invariant (opsW.take 3) ⟨trivial, trivial, trivial, trivial⟩) 5 2).1

example : WInv (applyW (runW initW opsW) .flushClear) :=
  Blue.Props.C01.window_invariant_step _ .flushClear trivial (Blue.Props.C01.window_invariant opsW opsW_valid)

end WinHist
end HistoryWindow
-- END StoreHistWindow
-- BEGIN Recover
/-! ## `recover`: the version a reopen builds from the SST metadata (known finding D-9)

`Blue.Recover.recoverTree` follows `tree::recover::recover` (lsmtk/src/tree/recover.rs:53-160): the
graph of `construct_adj_list` (an edge `u → v`, "u above v", for overlapping key ranges unless `u`
is entirely older; BOTH edges when the timestamp ranges intersect too), the components, the
longest-path levels of the stack loop, the clamp to `NUM_LEVELS`, the two sorts.  The general
theorems hold for EVERY version `recover` may build (`IsRecovered`: any level assignment with the
guarantees of the algorithm — `LevelsOk` — and the version `treeOf` builds from it); inside the
class `recoverTree` is such a version (`recoverTree_isRecovered`), outside it this is checked on
the instances.  `smallest_timestamp` is the minimum over the versions of the file (`sts`). -/
section Recover
open Blue.NextCompaction Blue.Recover Blue.StoreHist Blue.StoreHistTree Blue.RecoverHist

/-- **inside the class a reopen keeps the tree invariant and I2**: the files of a tree with the tree
    invariant, `biggest_timestamp` bounding the versions of each file, no two files overlapping in key
    range and in timestamp range: every version `recover` may build satisfies `Inv` and I2 -/
theorem recover_preserves_inv {t0 t : Tree} (hinv : Inv t0)
    (hts : ∀ f ∈ t0.flatten, ∀ v ∈ f.vers, v.2 ≤ f.bts)
    (hno : NoKeyTsOverlap t0.flatten) (hr : IsRecovered t0.flatten t) :
    Inv t ∧ NewerAbove (treeComps t) := Blue.Recover.recover_preserves_inv hinv hts hno hr

/-- the same for the function, with "exactly the files given" and "reads what the tree read" -/
theorem recoverTree_preserves_inv {t0 : Tree} (hinv : Inv t0)
    (hts : ∀ f ∈ t0.flatten, ∀ v ∈ f.vers, v.2 ≤ f.bts) (hno : NoKeyTsOverlap t0.flatten) :
    Inv (recoverTree t0.flatten) ∧ NewerAbove (treeComps (recoverTree t0.flatten))
    ∧ (∀ f, f ∈ (recoverTree t0.flatten).flatten ↔ f ∈ t0.flatten)
    ∧ (NewerAbove (treeComps t0) → ∀ k ts, load (treeComps (recoverTree t0.flatten)) k ts = load (treeComps t0) k ts) :=
  Blue.Recover.recoverTree_preserves_inv hinv hts hno

/-- reads are unchanged by a reopen inside the class -/
theorem recover_reads_same {t0 t : Tree} (hinv : Inv t0) (hna : NewerAbove (treeComps t0))
    (hts : ∀ f ∈ t0.flatten, ∀ v ∈ f.vers, v.2 ≤ f.bts)
    (hno : NoKeyTsOverlap t0.flatten) (hr : IsRecovered t0.flatten t) (k ts : Nat) :
    load (treeComps t) k ts = load (treeComps t0) k ts :=
  Blue.Recover.recover_reads_same hinv hna hts hno hr k ts

/-- the mechanism of D-9: two files that overlap in key range and in timestamp range get the SAME
    level, whatever levels they had -/
theorem overlap_same_level {fs : List File} {L : File → Nat} (hL : LevelsOk fs L) {a b : File}
    (ha : a ∈ fs) (hb : b ∈ fs) (hid : a.id ≠ b.id) (hk : keyOverlap a b = true) (ht : tsOverlap a b = true) :
    L a = L b := Blue.Recover.overlap_same_level hL ha hb hid hk ht

/-- **D-9**: a legitimate tree (`A = {2@10}` over `B = {3@6, 5@7, 5@1}` over `C = {2@2, 3@3, 4@4}`; history
    in `Blue.Proofs.Recover`) whose recovered version breaks I1, I2 and the read of key 3 -/
theorem recover_breaks_inv_witness :
    (Inv d9T0 ∧ NewerAbove (treeComps d9T0))
    ∧ noKeyTsOverlapB d9T0.flatten = false
    ∧ recoverTree d9T0.flatten = d9T1
    ∧ ¬ Inv d9T1
    ∧ ¬ NewerAbove (treeComps d9T1)
    ∧ load (treeComps d9T0) 3 100 = some (3, 6)
    ∧ load (treeComps d9T1) 3 100 = some (3, 3) := Blue.Recover.recover_breaks_inv_witness

/-- the class is not the exact boundary: overlap is harmless when the component lands in level 0 -/
theorem overlap_harmless_at_level0 :
    noKeyTsOverlapB [d9B, d9C] = false
    ∧ recoverTree [d9B, d9C] = [[d9B, d9C]] ++ List.replicate 15 []
    ∧ Inv (recoverTree [d9B, d9C])
    ∧ NewerAbove (treeComps (recoverTree [d9B, d9C]))
    ∧ load (treeComps (recoverTree [d9B, d9C])) 3 100 = some (3, 6) := Blue.Recover.overlap_harmless_at_level0

/-- **a reopen inside the class is a step of the history**: both invariants and the relation to the
    specification are kept -/
theorem reopen_step (s : TState) (L : File → Nat) (m : SpecMap) (ok : ReopenOk s L) (inv : TInv s)
    (r : Rel s.toH m) : TInv (reopenState s L) ∧ Rel (reopenState s L).toH m :=
  Blue.RecoverHist.reopen_step s L m ok inv r

/-- **reads return the last accepted write across reopens that satisfy the side condition**.  Outside
    it (two files overlapping in key range and in timestamp range) D-9 applies: nothing is claimed. -/
theorem store_history_refines_reopen (k : Nat) (ops : List ROp) (hv : RValid (tinit k) ops) (key t : Nat)
    (ht : (rrun (tinit k) ops).vis ≤ t) :
    kvsLoad (toKState (rrun (tinit k) ops).mem (rrun (tinit k) ops).imm (rrun (tinit k) ops).tree) key t
        = (rspec k ops key).map (fun e => (key, e.1))
    ∧ (∀ ts p, rspec k ops key = some (ts, p) → (rrun (tinit k) ops).pay key ts = some p)
    ∧ TInv (rrun (tinit k) ops) := Blue.RecoverHist.store_history_refines_reopen k ops hv key t ht

theorem store_history_reads_last_write_reopen (k : Nat) (ops : List ROp) (hv : RValid (tinit k) ops) (key : Nat) :
    read (rrun (tinit k) ops).toH key = lastWrite (ops.map rtoOp) key :=
  Blue.RecoverHist.store_history_reads_last_write_reopen k ops hv key

/-! ### non-vacuity -/

/-- four files, `A` over `B, C` over `D`, no two overlapping in keys and timestamps: recovered to the
    same levels -/
example : recoverTree okT0.flatten = okT0 := ok_recovered_same

/-- the hypotheses of `recover_preserves_inv` / `recoverTree_preserves_inv` / `recover_reads_same`
    hold of it -/
example : Inv (recoverTree okT0.flatten) ∧ NewerAbove (treeComps (recoverTree okT0.flatten)) :=
  let h := Blue.Props.C01.recoverTree_preserves_inv (t0 := okT0) (invB_sound (by decide +kernel))
    (by decide +kernel) (noKeyTsOverlap_of_check ok_noOverlap)
  ⟨h.1, h.2.1⟩

example : IsRecovered okT0.flatten (recoverTree okT0.flatten) :=
  recoverTree_isRecovered (filesOk_of_inv (invB_sound (by decide +kernel)) (by decide +kernel))
    (noKeyTsOverlap_of_check ok_noOverlap)

example (k ts : Nat) : load (treeComps (recoverTree okT0.flatten)) k ts = load (treeComps okT0) k ts :=
  Blue.Props.C01.recover_reads_same (invB_sound (by decide +kernel))
    (Blue.Kvs.newerAboveB_sound _ (by decide +kernel)) (by decide +kernel)
    (noKeyTsOverlap_of_check ok_noOverlap)
    (recoverTree_isRecovered (filesOk_of_inv (invB_sound (by decide +kernel)) (by decide +kernel))
      (noKeyTsOverlap_of_check ok_noOverlap)) k ts

/-- the D-9 files are a version `recover` may build (so `overlap_same_level` applies to it): `B` and
    `C` share level 1 -/
example : IsRecovered d9T0.flatten d9T1 := d9_isRecovered
example : keyOverlap d9B d9C = true ∧ tsOverlap d9B d9C = true ∧ rawLevel d9T0.flatten d9B = 1
    ∧ rawLevel d9T0.flatten d9C = 1 := by decide +kernel

/-- a history with a reopen: write, rollover, flush, reopen, delete — valid, and the read of key 1
    after it is the tombstone of the last write -/
example : RValid (tinit 15) demoOps := demo_valid
example : read (rrun (tinit 15) demoOps).toH 1 = some none := by
  rw [Blue.Props.C01.store_history_reads_last_write_reopen 15 demoOps demo_valid 1]
  decide

end Recover
-- END Recover

end Blue.Props.C01

#print axioms Blue.Props.C01.read_returns_latest
#print axioms Blue.Props.C01.load_visible
#print axioms Blue.Props.C01.tree_lookup_slices
#print axioms Blue.Props.C01.step_ingest
#print axioms Blue.Props.C01.step_compaction
#print axioms Blue.Props.C01.step_compaction_reads
#print axioms Blue.Props.C01.closed_check_sound
#print axioms Blue.Props.C01.selector_slices_closed
#print axioms Blue.Props.C01.trivial_move_closed
#print axioms Blue.Props.C01.expansion_closed
#print axioms Blue.Props.C01.compute_bounds_establishes_selection_ok
#print axioms Blue.Props.C01.compute_bounds_slices_are_taken_files
#print axioms Blue.Props.C01.expand_candidate_closed
#print axioms Blue.Props.C01.nextCompaction_closed
#print axioms Blue.Props.C01.nextCompaction_keeps_newer_above
#print axioms Blue.Props.C01.nextCompaction_respects_ongoing
#print axioms Blue.Props.C01.nextCompaction_inputs_within
#print axioms Blue.Props.C01.nextCompaction_within_limits
#print axioms Blue.Props.C01.tree_invariant_check_sound
#print axioms Blue.Props.C01.compute_bounds_loop_reaches_fixed_point
#print axioms Blue.Props.C01.history_invariant
#print axioms Blue.Props.C01.history_states_pass_invB
#print axioms Blue.Props.C01.history_refines
#print axioms Blue.Props.C01.history_refines_at_seq
#print axioms Blue.Props.C01.history_reads_last_write
#print axioms Blue.Props.C01.read_after_write
#print axioms Blue.Props.C01.batch_all_visible
#print axioms Blue.Props.C01.compaction_step_from_selector
#print axioms Blue.Props.C01.Hist.ops_valid
#print axioms Blue.Props.C01.Example.t2_closed
#print axioms Blue.Props.C01.Example.pre2_closed
#print axioms Blue.Props.C01.s1_inv
#print axioms Blue.Props.C01.s1_reads
#print axioms Blue.NextCompaction.nextCompaction_origin
#print axioms Blue.ConstsTie.c01_selector_defaults
#print axioms Blue.ConstsTie.c01_level_factor_expr
#print axioms Blue.ConstsTie.c01_scale_dyadic
#print axioms Blue.Spec.trivial_move_unrepaired_open
#print axioms Blue.Spec.expansion_unrepaired_open
#print axioms Blue.Spec.closed_of_cover
#print axioms Blue.Props.C01.open_compaction_stale_read_witness
#print axioms Blue.Spec.pieces_newer
#print axioms Blue.Spec.swap_disjoint_blocks
#print axioms Blue.Spec.level_reorder
#print axioms Blue.Spec.l0_newer
#print axioms Blue.Spec.sliceR_mem_iff
#print axioms Blue.Spec.exit_covers
#print axioms Blue.Spec.lower_bound_mutant_misses
#print axioms Blue.Props.C01.nextCompaction_chosen
#print axioms Blue.Props.C01.output_level_cut_drops_exactly_inputs
#print axioms Blue.Props.C01.chosen_check_sound
#print axioms Blue.Props.C01.outs_check_sound
#print axioms Blue.Props.C01.apply_components
#print axioms Blue.Props.C01.apply_preserves_inv
#print axioms Blue.Props.C01.apply_preserves_newer_above
#print axioms Blue.Props.C01.inv_bridge
#print axioms Blue.Props.C01.tree_step_preserves
#print axioms Blue.Props.C01.tree_invariant_inductive
#print axioms Blue.Props.C01.ApplyExample.successor
#print axioms Blue.Props.C01.treeComps_toKState
#print axioms Blue.Props.C01.compactionOk_of_apply
#print axioms Blue.Props.C01.compactionOk_of_move
#print axioms Blue.Props.C01.store_history_refines
#print axioms Blue.Props.C01.store_history_reads_last_write
#print axioms Blue.Props.C01.store_history_states_pass_invB
#print axioms Blue.Props.C01.chosen_stable_under_ingest
#print axioms Blue.Props.C01.apply_after_ingests
#print axioms Blue.Props.C01.nextCompaction_not_overlapping
#print axioms Blue.Props.C01.chosen_stable_under_disjoint_apply
#print axioms Blue.Props.C01.install_either_order
#print axioms Blue.Props.C01.no_common_input_not_enough
#print axioms Blue.Props.C01.store_history_refines_concurrent
#print axioms Blue.Props.C01.concurrent_reads_last_write
#print axioms Blue.Props.C01.store_history_refines_concurrent_gc
#print axioms Blue.Props.C01.atomic_is_choose_then_install
#print axioms Blue.Props.C01.LaterHist.lops_valid
#print axioms Blue.Props.C01.window_invariant
#print axioms Blue.Props.C01.window_invariant_step
#print axioms Blue.Props.C01.window_reads_unchanged
#print axioms Blue.Props.C01.window_reads_install_clear
#print axioms Blue.Props.C01.history_refines_window
#print axioms Blue.Props.C01.history_reads_last_write_window
#print axioms Blue.Props.C01.WinHist.opsW_valid
#print axioms Blue.NextCompaction.NoCommonInputIsNotEnough.install_drops_A
#print axioms Blue.Props.C01.recover_preserves_inv
#print axioms Blue.Props.C01.recoverTree_preserves_inv
#print axioms Blue.Props.C01.recover_reads_same
#print axioms Blue.Props.C01.overlap_same_level
#print axioms Blue.Props.C01.recover_breaks_inv_witness
#print axioms Blue.Props.C01.overlap_harmless_at_level0
#print axioms Blue.Props.C01.reopen_step
#print axioms Blue.Props.C01.store_history_refines_reopen
#print axioms Blue.Props.C01.store_history_reads_last_write_reopen
