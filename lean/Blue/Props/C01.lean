import Blue.Proofs.LoadVisible
import Blue.Proofs.Compaction
import Blue.Proofs.LevelSlice
import Blue.Proofs.SelectorClosed
import Blue.Proofs.BoundsFixed
/-! Property C01: the theorems the check builds and audits (spike inventory; the build phase
    completes the list from DESIGN Appendix C.0). -/
#print axioms Blue.Spec.load_visible
#print axioms Blue.Spec.ingest_preserves
#print axioms Blue.Spec.compaction_preserves
#print axioms Blue.Spec.compaction_reads_unchanged
#print axioms Blue.Spec.pieces_newer
#print axioms Blue.Spec.swap_disjoint_blocks
#print axioms Blue.Spec.level_reorder
#print axioms Blue.Spec.l0_newer
#print axioms Blue.Spec.slice_load
#print axioms Blue.Spec.treeLoad_eq
#print axioms Blue.Spec.selection_closed
#print axioms Blue.Spec.sliceR_mem_iff
#print axioms Blue.Spec.exit_covers
#print axioms Blue.Spec.open_compaction_stale_read
#print axioms Blue.Spec.lower_bound_mutant_misses
