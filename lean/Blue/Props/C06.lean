import Blue.Proofs.KvsWrite
import Blue.Proofs.Rollover
import Blue.Proofs.KvsConc
import Blue.Proofs.KvsConcHandoff
import Blue.Proofs.KvsConcReads
import Blue.Proofs.KvsConcFirstHit
import Blue.Proofs.KvsConcSnapBridge
import Blue.Proofs.KvsConcFail
import Blue.Proofs.ConstsTieC06
import Blue.Proofs.KvsConcTree
import Blue.Proofs.KvsConcTreeLin
/-! # Property C06 — concurrent reads/writes are linearizable; batches become visible atomically

Property theorems only (helper lemmas and invariants live in `Blue/Proofs/{KvsWrite,Rollover,KvsConc,
KvsConcHandoff,KvsConcTree,KvsConcTreeLin}.lean`).

Three executable models of `lsmtk/src/kvs/mod.rs` (and a fourth, `Blue.KvsConcTree`, that wraps the first:
block `KvsConcTree`), one step per critical section or lock-free access,
theorems for *every* interleaving of their events:

* `Blue.KvsConc` — the joined system the correspondence check replays recorded runs through:
  writers (`seq` assigned and memtable picked under the mutex and linked into the wait list; log
  append; entry-by-entry skiplist inserts; return as head of the wait list), the flush thread
  (rotate `mem → imm` and link; pass the wait list; install the version; clear `imm`), readers
  (clone of the tree version — a step of its own, `rTree`, which the code makes inside the critical
  section in which it takes `mem`, `imm` and a timestamp, `rSnap`; lookups afterwards).
  `completed = true`: the timestamp is `visible`, the number of the last writer that left the
  wait list (the repaired store, /repo fix 000c41c); `completed = false`:
  the last *assigned* number (the store as found, D-6).
* `Blue.KvsWrite` — the writers alone, timestamp as found (the first model, kept: its theorems are
  the as-found statements).
* `Blue.Rollover` — rotate / install / clear as a snapshot sees them, entries = sequence numbers.

Linearization: writes in sequence-number order, each at the moment it leaves the wait list
(`wFin`, where `visible` becomes its number); a read at its snapshot.  `write_order` (numbers respect
real time), `no_stale_read` + `snapshot_after_return_covers` (a read is not older than any write
that returned before it began), `no_phantom` (it returns an entry some write put there, with a
number its timestamp covers) + `read_sees_only_returned` (repaired: that write had RETURNED when
the snapshot was taken), `later_snapshot_ts_ge` + `read_monotone` / `reads_never_go_back` (reads
do not go back in time against each other), `batch_atomic` + `snapshot_stable` (a snapshot sees a
batch entirely or not at all, and never changes) are the obligations of that linearization on the
model.  `first_hit_eq_newest` ties the model's `lookup` (newest over the union of mem, imm and the
version's tables) to what `KeyValueStore::load` does (first hit searching mem → imm → version).

Writes that fail (`wFail`: the log refuses the batch after the write has taken its sequence number
and its place in the wait list) leave the list without publishing anything and without having
inserted anything; the published sequence has gaps.  Every theorem above holds with such steps
anywhere in the run (they are steps of `Blue.KvsConc.step`; `reachable_inv` covers them), and
`failed_write_invisible` / `wFail_changes_nothing_readable` say that a failed write has no effect
on any read.  `failed_write_publishes_tears_batch` is the counterexample for a store whose failed
writes publish their number on the way out.

What `Blue.KvsConc` does NOT have (said here once): a compaction is a version-number bump only
(`tInstall`: same tables, other files) and garbage collection is absent; flush / clear / install
steps do not touch table contents, so for those events `snapshot_stable` holds by construction (its
content is the `wIns` case: every later insert is numbered above every existing snapshot's timestamp
— `late_inserts_above_snapshot_ts`).  Block `KvsConcTree` at the end closes that: `Blue.KvsConcTree`
wraps the same writer / reader / flush steps with a tree of real files (version lists per file, a
flush writes the file of `imm`) and two installs that CHANGE what the tables hold — `tCompact`
(conserving: the outputs hold exactly the versions of the inputs) and `tGc` (collecting, under the
obligations of `Blue.StoreHistGc.GcCompactionOk`: outputs ⊆ inputs, newest version per key kept or
tombstone → nothing / older tombstone, nothing below).  Readers keep the file ids of the version
they cloned.  `snapshot_stable_tree` (a snapshot's view, point reads, values and scan lists do not
change under any later event, installs included), `install_invisible_to_new_readers` /
`gc_invisible_to_new_readers` (a snapshot taken after the install answers as one taken before it:
conserving — same entry at every timestamp; collecting — same value at every timestamp
`visible_seq_no` had reached, which is every timestamp a reader can have; entry level with the
tombstone exception; false for older timestamps, example), `tree_reads_refine` +
`linearizable_with_installs` + `order_with_installs` (every tree snapshot reads, value for value,
what the `Blue.KvsConc` reader of the same `rSnap` reads, so the obligations above hold for the
values read in runs with installs).  Search order inside the tree (first hit over the files of a
version = newest version, closed compactions keep "newer above") stays C01; a batch naming one key
twice stays outside (D-16; `wBegin` of the tree model asks for distinct keys).
`flushed_table_complete` / `insert_only_into_open_table` /
`first_hit_eq_newest` take `mem0 < seq0` (the store opens with `mem_seq_no < seq_no`, as
`verif_state` reports and the driver checks on every trace). -/
namespace Blue.Props.C06
open Blue.KvsWrite (Entry)

/-! ## the joined model, repaired read timestamp -/
section conc
open Blue.KvsConc

/-- **batches become visible atomically** (repaired): in every reachable state, every snapshot a
    reader holds and that is clean (tree version and mem / imm taken with no `imm := none` in between:
    `snapshot_tree_consistent`; the driver checks it on every recorded trace) sees, of every write
    that has begun, the whole batch or nothing — at every later moment too (`snapshot_stable`) -/
theorem batch_atomic {seq0 mem0 : Nat} {evs : List Ev} {s : St}
    (hrun : run (init true seq0 mem0) evs = some s)
    (r : Nat × Snap) (hr : r ∈ s.readers) (hclean : r.2.clean = true) (w : Writer) (hw : w ∈ s.writers) :
    (∀ kv ∈ w.batch, (⟨kv.1, w.seq, kv.2⟩ : Entry) ∈ view s r.2) ∨ (∀ e ∈ view s r.2, e.seq ≠ w.seq) :=
  Blue.KvsConc.batch_atomic hrun r hr hclean w hw

/-- non-vacuity: a run with a rollover in the middle of a two-key batch and snapshots before,
    between the two inserts, and after; the middle snapshot sees nothing of the batch, the last
    sees both keys -/
example :
    (run (init true 2 1) [.rTree 0 0, .rSnap 0 2 1 false, .wBegin 3 1 [(1, some 7), (2, some 8)], .wLog 3,
        .wIns 3 0, .fRotate 3 1, .rTree 1 0, .rSnap 1 2 3 true, .wIns 3 1, .wFin 3, .fHead 3, .rTree 2 0,
        .rSnap 2 3 3 true, .fInstall 1 1, .fClear 1]).map
      (fun s => s.readers.map (fun r => (r.1, r.2.clean, value s r.2 1, value s r.2 2)))
      = some [(2, true, some 7, some 8), (1, true, none, none), (0, true, none, none)] := by decide

/-- **an open cursor is a stable snapshot** (repaired): no later *insert* — in particular none of a
    writer in flight when the snapshot was taken — changes what the snapshot sees.  (Only the
    `wIns` case has content, see `late_inserts_above_snapshot_ts`; flush / clear / version-install
    steps do not touch table contents in this model, by construction.) -/
theorem snapshot_stable (evs : List Ev) {s s' : St} (h : Inv s) (hc : s.completed = true)
    (r : Nat × Snap) (hr : r ∈ s.readers) (hrun : run s evs = some s') : view s' r.2 = view s r.2 :=
  Blue.KvsConc.snapshot_stable evs h hc r hr hrun

/-- … from the start: every reachable state satisfies the invariant -/
theorem reachable_inv {c : Bool} {seq0 mem0 : Nat} {evs : List Ev} {s : St}
    (hrun : run (init c seq0 mem0) evs = some s) : Inv s :=
  Blue.KvsConc.inv_run evs (Blue.KvsConc.inv_init c seq0 mem0) hrun

/-- **no stale read** (both read policies, all interleavings incl. rollover and flush): a reader
    with a clean snapshot whose timestamp covers a write that has returned finds that write or a
    newer one for each of its keys, whenever it looks -/
theorem no_stale_read {c : Bool} {seq0 mem0 : Nat} {evs : List Ev} {s : St}
    (hrun : run (init c seq0 mem0) evs = some s)
    (r : Nat × Snap) (hr : r ∈ s.readers) (hclean : r.2.clean = true)
    (w : Writer) (hw : w ∈ s.writers) (hf : w.finished = true)
    (hcov : w.seq ≤ r.2.ts) (k : Nat) (v : Option Nat) (hkv : (k, v) ∈ w.batch) :
    ∃ e, lookup s r.2 k = some e ∧ w.seq ≤ e.seq :=
  Blue.KvsConc.no_stale_read hrun r hr hclean w hw hf hcov k v hkv

/-- … and a snapshot taken after the write returned has such a timestamp -/
theorem snapshot_after_return_covers {c : Bool} {seq0 mem0 : Nat} {evs : List Ev} {s s' : St}
    (hrun : run (init c seq0 mem0) evs = some s)
    (w : Writer) (hw : w ∈ s.writers) (hf : w.finished = true)
    (rid ts mem : Nat) (imm : Bool) (hs : step s (.rSnap rid ts mem imm) = some s') : w.seq ≤ ts :=
  Blue.KvsConc.snapshot_after_return_covers hrun w hw hf rid ts mem imm hs

example : ∃ s, run (init true 2 1) [.wBegin 3 1 [(1, some 7)], .wLog 3, .wIns 3 0, .wFin 3, .rTree 0 0,
    .rSnap 0 3 1 false] = some s ∧ (s.readers.map (fun r => (r.2.clean, value s r.2 1))) = [(true, some 7)] := by decide

/-- **never a value that was not written, never one from the future**: what a lookup through ANY
    snapshot record `sn` returns is an entry of the batch of the write with that sequence number,
    for the key asked, and that number is not beyond `sn.ts`.  (That the write had begun — and on
    the repaired store returned — when the snapshot was TAKEN needs `sn` to be a reader's snapshot:
    `read_result_was_returned` below.) -/
theorem no_phantom {c : Bool} {seq0 mem0 : Nat} {evs : List Ev} {s : St}
    (hrun : run (init c seq0 mem0) evs = some s) (sn : Snap) (k : Nat) (e : Entry)
    (hl : lookup s sn k = some e) :
    e.seq ≤ sn.ts ∧ ∃ w ∈ s.writers, w.seq = e.seq ∧ (k, e.val) ∈ w.batch :=
  Blue.KvsConc.no_phantom hrun sn k e hl

/-- **the write order respects real time**: a write that begins gets a number beyond that of every
    write that exists, in particular of every write that has returned -/
theorem write_order {c : Bool} {seq0 mem0 : Nat} {evs : List Ev} {s s' : St}
    (hrun : run (init c seq0 mem0) evs = some s) (q t : Nat) (b : List (Nat × Option Nat))
    (hs : step s (.wBegin q t b) = some s') : ∀ w ∈ s.writers, w.seq < q :=
  Blue.KvsConc.write_order hrun q t b hs

/-- **a read sees only writes that have returned** (repaired): every write whose number a
    reader's timestamp covers has left the wait list -/
theorem read_sees_only_returned {seq0 mem0 : Nat} {evs : List Ev} {s : St}
    (hrun : run (init true seq0 mem0) evs = some s) (r : Nat × Snap) (hr : r ∈ s.readers)
    (w : Writer) (hw : w ∈ s.writers) (hle : w.seq ≤ r.2.ts) : w.finished = true :=
  Blue.KvsConc.read_sees_only_returned hrun r hr w hw hle

/-- … so what a reader's lookup returns was written by a write that has returned -/
theorem read_result_was_returned {seq0 mem0 : Nat} {evs : List Ev} {s : St}
    (hrun : run (init true seq0 mem0) evs = some s) (r : Nat × Snap) (hr : r ∈ s.readers)
    (k : Nat) (e : Entry) (hl : lookup s r.2 k = some e) :
    ∃ w ∈ s.writers, w.seq = e.seq ∧ w.finished = true ∧ (k, e.val) ∈ w.batch :=
  Blue.KvsConc.read_result_was_returned hrun r hr k e hl

/-- **the content of `snapshot_stable`** (repaired; hypothesis (i) of C07's
    `cursor_sees_snapshot_partial` as a step fact of this model): a memtable insert enabled in a
    reachable state carries a number above the timestamp of every snapshot that exists -/
theorem late_inserts_above_snapshot_ts {seq0 mem0 : Nat} {evs : List Ev} {s s' : St}
    (hrun : run (init true seq0 mem0) evs = some s) (seq idx : Nat)
    (hs : step s (.wIns seq idx) = some s') : ∀ r ∈ s.readers, r.2.ts < seq :=
  Blue.KvsConc.late_inserts_above_snapshot_ts hrun seq idx hs

/-- **read-to-read, timestamps** (both policies): a snapshot taken now reads at a timestamp at
    least that of every snapshot that exists -/
theorem later_snapshot_ts_ge {c : Bool} {seq0 mem0 : Nat} {evs : List Ev} {s s' : St}
    (hrun : run (init c seq0 mem0) evs = some s) (rid ts mem : Nat) (imm : Bool)
    (hs : step s (.rSnap rid ts mem imm) = some s') : ∀ r ∈ s.readers, r.2.ts ≤ ts :=
  Blue.KvsConc.later_snapshot_ts_ge hrun rid ts mem imm hs

/-- **read-to-read, contents** (both policies, one state): a read through a clean snapshot with a
    timestamp at least that of another snapshot returns, for every key, the entry the other
    returns or a newer one -/
theorem read_monotone {c : Bool} {seq0 mem0 : Nat} {evs : List Ev} {s : St}
    (hrun : run (init c seq0 mem0) evs = some s) (sn : Snap) (r2 : Nat × Snap) (hr2 : r2 ∈ s.readers)
    (hclean : r2.2.clean = true) (hts : sn.ts ≤ r2.2.ts) (k : Nat) (e1 : Entry)
    (hl : lookup s sn k = some e1) : ∃ e2, lookup s r2.2 k = some e2 ∧ e1.seq ≤ e2.seq :=
  Blue.KvsConc.read_monotone hrun sn r2 hr2 hclean hts k e1 hl

/-- **reads never go back** (repaired, across time): a read made in `s1` through `r1` returned `e1`;
    after any further events a read through a clean snapshot with a timestamp at least `r1`'s — by
    `later_snapshot_ts_ge` every snapshot taken after `r1` — returns `e1` or a newer entry -/
theorem reads_never_go_back {seq0 mem0 : Nat} {evs evs' : List Ev} {s1 s2 : St}
    (hrun : run (init true seq0 mem0) evs = some s1) (hrun' : run s1 evs' = some s2)
    (r1 : Nat × Snap) (hr1 : r1 ∈ s1.readers) (r2 : Nat × Snap) (hr2 : r2 ∈ s2.readers)
    (hclean : r2.2.clean = true) (hts : r1.2.ts ≤ r2.2.ts) (k : Nat) (e1 : Entry)
    (hl : lookup s1 r1.2 k = some e1) : ∃ e2, lookup s2 r2.2 k = some e2 ∧ e1.seq ≤ e2.seq :=
  Blue.KvsConc.reads_never_go_back hrun hrun' r1 hr1 r2 hr2 hclean hts k e1 hl

/-- **`load`'s first hit is the newest visible version**: searching mem, then imm, then the tables
    of the version newest first and stopping at the first table that has a visible version of the
    key (`firstHit`, what `KeyValueStore::load` does) returns the entry `lookup` returns (the newest
    visible version over the union) — for every reader's snapshot in every reachable state -/
theorem first_hit_eq_newest {c : Bool} {seq0 mem0 : Nat} (hm : mem0 < seq0) {evs : List Ev} {s : St}
    (hrun : run (init c seq0 mem0) evs = some s) (r : Nat × Snap) (hr : r ∈ s.readers) (k : Nat) :
    firstHit s r.2 k = lookup s r.2 k :=
  Blue.KvsConc.first_hit_eq_newest hm hrun r hr k

/-- **`visible_seq_no` and C07's `readTs` select the same entries**: the two numbers differ (a
    rotation consumes a sequence number no write carries — `numbers_differ_after_rotation`), but
    no entry of any table is numbered in between, so a snapshot reading at `visible` and one reading
    at `Blue.Snap.readTs seqNo (numbers in flight)` have the same view, in every reachable state -/
theorem view_visible_eq_view_readTs {c : Bool} {seq0 mem0 : Nat} {evs : List Ev} {s : St}
    (hrun : run (init c seq0 mem0) evs = some s) (tbls : List Nat) (cl : Bool) :
    view s ⟨s.visible, tbls, cl⟩ = view s ⟨Blue.Snap.readTs s.seqNo (inflight s), tbls, cl⟩ :=
  Blue.KvsConc.view_visible_eq_view_readTs hrun tbls cl

theorem numbers_differ_after_rotation :
    (run (init true 2 1) [.fRotate 2 1]).map
      (fun s => (s.visible, Blue.Snap.readTs s.seqNo (inflight s))) = some (2, 3) :=
  Blue.KvsConc.numbers_differ_after_rotation

/-- non-vacuity (20 events): two writers overlap (batch 3 over keys 1, 2; write 4 over key 1, which
    inserts first), a rotation falls between the two inserts of batch 3, three clean readers take
    their snapshots before, between and after the returns, a compaction and the flush install
    versions.  Reader 0 (ts 2) sees nothing, reader 1 (ts 3) sees batch 3 whole and not write 4,
    reader 2 (ts 4) sees write 4 over batch 3; first hit and newest agree for all of them. -/
example : ∃ s, run (init true 2 1) [.wBegin 3 1 [(1, some 7), (2, some 8)], .wBegin 4 1 [(1, some 9)], .wLog 4, .wIns 4 0, .wLog 3,
        .wIns 3 0, .fRotate 4 1, .rTree 0 0, .rSnap 0 2 4 true, .wIns 3 1, .wFin 3, .rTree 1 0, .rSnap 1 3 4 true, .wFin 4, .fHead 4, .tInstall 5,
        .fInstall 1 6, .rTree 2 6, .rSnap 2 4 4 true, .fClear 1] = some s ∧
    s.readers.map (fun r => (r.1, r.2.clean, value s r.2 1, value s r.2 2))
      = [(2, true, some 9, some 8), (1, true, some 7, some 8), (0, true, none, none)] ∧
    s.readers.all (fun r => firstHit s r.2 1 == lookup s r.2 1 && firstHit s r.2 2 == lookup s r.2 2) = true := by
  decide

/-- **rollover joined with the writers**: at every instant the tables a snapshot searches (mem, imm,
    flushed) hold every entry inserted so far -/
theorem snapshot_covers_all {c : Bool} {seq0 mem0 : Nat} {evs : List Ev} {s : St}
    (hrun : run (init c seq0 mem0) evs = some s) : ∀ te ∈ s.ents, te.1 ∈ liveTables s :=
  Blue.KvsConc.snapshot_covers_all hrun

/-- **in-order completion through the wait list, flush side**: once the flush thread has passed the
    wait list, every writer that picked the now immutable memtable has returned and the table holds
    its whole batch (the file the flush writes is complete); the same for every flushed table -/
theorem flushed_table_complete {c : Bool} {seq0 mem0 : Nat} (hm : mem0 < seq0) {evs : List Ev} {s : St}
    (hrun : run (init c seq0 mem0) evs = some s) (t : Nat)
    (ht : (s.sealed = true ∧ s.imm = some t) ∨ t ∈ s.flushed) :
    ∀ w ∈ s.writers, w.tbl = t → w.finished = true ∧
      ∀ kv ∈ w.batch, (t, (⟨kv.1, w.seq, kv.2⟩ : Entry)) ∈ s.ents :=
  Blue.KvsConc.flushed_table_complete hm hrun t ht

/-- … so nothing is ever inserted into a table that is being or has been flushed -/
theorem insert_only_into_open_table {c : Bool} {seq0 mem0 : Nat} (hm : mem0 < seq0) {evs : List Ev} {s s' : St}
    (hrun : run (init c seq0 mem0) evs = some s) (seq idx : Nat) (w : Writer)
    (hf : findWriter s seq = some w) (hs : step s (.wIns seq idx) = some s') :
    (s.sealed = true → s.imm ≠ some w.tbl) ∧ w.tbl ∉ s.flushed :=
  Blue.KvsConc.insert_only_into_open_table hm hrun seq idx w hf hs

example : ∃ s, run (init true 2 1) [.wBegin 3 1 [(1, some 7)], .wLog 3, .fRotate 3 1, .wIns 3 0, .wFin 3, .fHead 3,
    .fInstall 1 1] = some s ∧ s.sealed = true ∧ s.flushed = [1] ∧ s.imm = some 1 := by decide

/-! ### the tree version is taken in a step of its own -/

/-- the steps that may fall between a reader's `rTree` and its `rSnap` without harm: all but
    `fClear` and the reader's own `rTree` / `rSnap` -/
example : keepsTree 7 (.fClear 1) = false ∧ keepsTree 7 (.fInstall 1 2) = true ∧ keepsTree 7 (.wFin 3) = true
    ∧ keepsTree 7 (.rSnap 8 0 0 false) = true ∧ keepsTree 7 (.rSnap 7 0 0 false) = false := by decide

/-- **`snapshot_tree_consistent`**: if no `imm := none` step of the flush thread (nor another
    snapshot of the same reader) falls between a reader's cloning the tree version and its taking
    mem / imm / timestamp — as is the case whenever the clone is made while the store mutex is held
    — the three-part snapshot is clean and complete: every entry of every write that has returned
    and that the timestamp covers is in mem ∪ imm ∪ tree.  This trace condition is the hypothesis
    `clean` of `batch_atomic` and `no_stale_read`; the driver checks it on every recorded trace -/
theorem snapshot_tree_consistent {c : Bool} {seq0 mem0 : Nat} {pre mid : List Ev} {rid vid ts mem : Nat}
    {imm : Bool} {s : St}
    (hrun : run (init c seq0 mem0) (pre ++ (Ev.rTree rid vid :: mid) ++ [Ev.rSnap rid ts mem imm]) = some s)
    (hmid : ∀ e ∈ mid, keepsTree rid e = true) :
    ∃ sn, s.readers.head? = some (rid, sn) ∧ sn.clean = true ∧ sn.ts = ts ∧
      ∀ w ∈ s.writers, w.finished = true → w.seq ≤ ts →
        ∀ kv ∈ w.batch, (⟨kv.1, w.seq, kv.2⟩ : Entry) ∈ view s sn :=
  Blue.KvsConc.snapshot_tree_consistent hrun hmid

/-- non-vacuity: version install and a writer's whole life between the two steps of the reader -/
example : ∃ s, run (init true 2 1) ([.wBegin 3 1 [(1, some 7)], .wLog 3, .wIns 3 0, .wFin 3, .fRotate 3 1, .fHead 3]
      ++ (Ev.rTree 0 0 :: [.fInstall 1 1, .wBegin 5 3 [(2, some 9)], .wLog 5, .wIns 5 0, .wFin 5])
      ++ [Ev.rSnap 0 5 3 true]) = some s
    ∧ s.readers.map (fun r => (r.2.clean, value s r.2 1, value s r.2 2)) = [(true, some 7, some 9)] := by decide

/-- … in the flag form: a clean snapshot, in any reachable state, holds every covered returned write -/
theorem snapshot_complete_of_clean {c : Bool} {seq0 mem0 : Nat} {evs : List Ev} {s : St}
    (hrun : run (init c seq0 mem0) evs = some s) (r : Nat × Snap) (hr : r ∈ s.readers)
    (hclean : r.2.clean = true) :
    ∀ w ∈ s.writers, w.finished = true → w.seq ≤ r.2.ts →
      ∀ kv ∈ w.batch, (⟨kv.1, w.seq, kv.2⟩ : Entry) ∈ view s r.2 :=
  Blue.KvsConc.snapshot_complete_of_clean hrun r hr hclean

/-- **`stale_read_as_mutated`**: what a store that clones its tree version BEFORE taking the store
    mutex admits — `rTree` (old version), the flush installs the new version and clears `imm`,
    `rSnap`: the put of key 1 returned long before, the timestamp covers it, the reader finds
    nothing; its snapshot is not clean (the harness reproduces this run on such a store with a
    directed schedule) -/
theorem stale_read_as_mutated :
    (run (init true 2 1) [.wBegin 3 1 [(1, some 7)], .wLog 3, .wIns 3 0, .wFin 3, .fRotate 3 1, .fHead 3,
        .rTree 0 0, .fInstall 1 1, .fClear 1, .rSnap 0 3 3 false]).map
      (fun s => s.readers.map (fun r => (r.2.ts, r.2.tbls, r.2.clean, value s r.2 1)))
      = some [(3, [3], false, none)] :=
  Blue.KvsConc.stale_read_as_mutated

/-- the same flush with the clone inside the critical section, at each of its three possible
    places, finds the value -/
theorem same_schedule_clone_under_mutex :
    (run (init true 2 1) [.wBegin 3 1 [(1, some 7)], .wLog 3, .wIns 3 0, .wFin 3, .fRotate 3 1, .fHead 3,
        .rTree 0 0, .rSnap 0 3 3 true, .fInstall 1 1, .rTree 1 1, .rSnap 1 3 3 true, .fClear 1,
        .rTree 2 1, .rSnap 2 3 3 false]).map
      (fun s => s.readers.map (fun r => (r.1, r.2.tbls, r.2.clean, value s r.2 1)))
      = some [(2, [3, 1], true, some 7), (1, [3, 1, 1], true, some 7), (0, [3, 1], true, some 7)] :=
  Blue.KvsConc.same_schedule_clone_under_mutex

/-! ### writes that fail -/

/-- **a failed write has no effect on any read**: in every reachable state — any interleaving of
    writers, failing writers, rotations, hand-offs, installs, readers — no entry of any table
    carries the number of a write that failed, and no lookup through any snapshot returns one -/
theorem failed_write_invisible {c : Bool} {seq0 mem0 : Nat} {evs : List Ev} {s : St}
    (hrun : run (init c seq0 mem0) evs = some s) (q : Nat) (hq : q ∈ s.failed) :
    (∀ te ∈ s.ents, te.2.seq ≠ q) ∧ ∀ (sn : Snap) (k : Nat) (e : Entry), lookup s sn k = some e → e.seq ≠ q :=
  Blue.KvsConc.failed_write_invisible hrun q hq

/-- the number of a failed write is never the published one, is out of the wait list, and no
    writer carries it: the published sequence has a gap there for ever -/
theorem failed_never_published {c : Bool} {seq0 mem0 : Nat} {evs : List Ev} {s : St}
    (hrun : run (init c seq0 mem0) evs = some s) (q : Nat) (hq : q ∈ s.failed) :
    s.visible ≠ q ∧ Ticket.w q ∉ s.queue ∧ q ≤ s.seqNo ∧ ∀ w ∈ s.writers, w.seq ≠ q :=
  Blue.KvsConc.failed_never_published hrun q hq

/-- … and is not handed out again -/
theorem failed_number_not_reused {c : Bool} {seq0 mem0 : Nat} {evs : List Ev} {s s' : St}
    (hrun : run (init c seq0 mem0) evs = some s) (q t : Nat) (b : List (Nat × Option Nat))
    (hs : step s (.wBegin q t b) = some s') : ∀ f ∈ s.failed, f < q :=
  Blue.KvsConc.failed_number_not_reused hrun q t b hs

/-- **the failing step moves nothing a reader can see**: `visible`, the timestamp a reader would
    take, every table and every snapshot's view are as before; the number is recorded as failed,
    the ticket is out of the wait list, the writer is forgotten -/
theorem wFail_changes_nothing_readable {s s' : St} {q : Nat} (hs : step s (.wFail q) = some s') :
    s'.visible = s.visible ∧ s'.seqNo = s.seqNo ∧ readTs s' = readTs s ∧ s'.ents = s.ents
      ∧ s'.readers = s.readers ∧ (∀ sn, view s' sn = view s sn)
      ∧ s'.failed = q :: s.failed ∧ Ticket.w q ∉ s'.queue ∧ ∀ w ∈ s'.writers, w.seq ≠ q :=
  Blue.KvsConc.wFail_changes_nothing_readable hs

/-- when the step is enabled: the write has begun, has not left the list, has inserted nothing and
    its log append has not returned -/
theorem wFail_enabled_iff {s : St} {q : Nat} :
    (∃ s', step s (.wFail q) = some s') ↔
      ∃ w, findWriter s q = some w ∧ w.finished = false ∧ w.todo = w.batch ∧ q ∉ s.logged :=
  Blue.KvsConc.wFail_enabled_iff

/-! non-vacuity: a failing write queued behind a batch that is being inserted, a reader in the
    window, then the successor: the gap at 4 is covered by 5 and both later readers see batch 3
    whole; and a failing write AT THE HEAD with a successor behind it -/
theorem gap_is_covered_by_successor :
    (run (init true 2 1) [.wBegin 3 1 [(1, some 7), (2, some 7)], .wLog 3, .wIns 3 0, .wBegin 4 1 [], .wFail 4,
        .rTree 0 0, .rSnap 0 2 1 false, .wIns 3 1, .wBegin 5 1 [(1, some 9)], .wLog 5, .wIns 5 0, .wFin 3,
        .rTree 1 0, .rSnap 1 3 1 false, .wFin 5, .rTree 2 0, .rSnap 2 5 1 false]).map
      (fun s => (s.failed, s.visible, s.queue.length)) = some ([4], 5, 0) ∧
    (run (init true 2 1) [.wBegin 3 1 [(1, some 7), (2, some 7)], .wLog 3, .wIns 3 0, .wBegin 4 1 [], .wFail 4,
        .rTree 0 0, .rSnap 0 2 1 false, .wIns 3 1, .wBegin 5 1 [(1, some 9)], .wLog 5, .wIns 5 0, .wFin 3,
        .rTree 1 0, .rSnap 1 3 1 false, .wFin 5, .rTree 2 0, .rSnap 2 5 1 false]).map
      (fun s => s.readers.map (fun r => (r.2.ts, value s r.2 1, value s r.2 2)))
      = some [(5, some 9, some 7), (3, some 7, some 7), (2, none, none)] :=
  Blue.KvsConc.gap_is_covered_by_successor

theorem failed_head_hands_on :
    (run (init true 2 1) [.wBegin 3 1 [], .wBegin 4 1 [(1, some 7)], .wLog 4, .wIns 4 0, .wFail 3, .wFin 4,
        .rTree 0 0, .rSnap 0 4 1 false]).map
      (fun s => (s.failed, s.visible, s.queue.length, s.readers.map (fun r => (r.2.ts, value s r.2 1))))
      = some ([3], 4, 0, [(4, some 7)]) :=
  Blue.KvsConc.failed_head_hands_on

example : ((run (init true 2 1) [.wBegin 3 1 [(1, some 7)], .wBegin 4 1 []]).bind (fun s => step s (.wFail 4))).map
    (fun s' => s'.failed) = some [4] := by decide

/-- **`failed_write_publishes_tears_batch`** (the seeded restructuring of `write`'s error path: a
    failed write does not wait for its turn and publishes `max visible seq`; `stepMut`): write 3
    has inserted the first key of its two-key batch, write 4 fails behind it and publishes 4, a
    reader that comes now reads at 4 and finds key 1 of the batch and not key 2 -/
theorem failed_write_publishes_tears_batch :
    (runMut (init true 2 1) [.wBegin 3 1 [(1, some 7), (2, some 7)], .wLog 3, .wIns 3 0, .wBegin 4 1 [],
        .wFail 4, .rTree 0 0, .rSnap 0 4 1 false]).map
      (fun s => s.readers.map (fun r => (r.2.ts, value s r.2 1, value s r.2 2))) = some [(4, some 7, none)] :=
  Blue.KvsConc.failed_write_publishes_tears_batch

/-- … the same events on the model of the code: the timestamp is 2, nothing of the batch shows -/
theorem same_schedule_failed_write_publishes_nothing :
    run (init true 2 1) [.wBegin 3 1 [(1, some 7), (2, some 7)], .wLog 3, .wIns 3 0, .wBegin 4 1 [],
        .wFail 4, .rTree 0 0, .rSnap 0 4 1 false] = none ∧
    (run (init true 2 1) [.wBegin 3 1 [(1, some 7), (2, some 7)], .wLog 3, .wIns 3 0, .wBegin 4 1 [],
        .wFail 4, .rTree 0 0, .rSnap 0 2 1 false]).map
      (fun s => s.readers.map (fun r => (r.2.ts, value s r.2 1, value s r.2 2))) = some [(2, none, none)] :=
  Blue.KvsConc.same_schedule_failed_write_publishes_nothing

end conc

/-! ## the read timestamp as found (D-6) -/
section asfound
open Blue.KvsConc

/-- `batch_atomic` is false for the store as found: a snapshot taken between the two inserts of one
    batch sees the first entry and not the second (joined model; the harness reproduces this run
    on the real store with a directed schedule) -/
theorem batch_atomic_fails_as_found :
    (run (init false 2 1) [.wBegin 3 1 [(1, some 7), (2, some 7)], .wLog 3, .wIns 3 0, .rTree 0 0,
        .rSnap 0 3 1 false]).map
      (fun s => (value s ⟨3, [1], true⟩ 1, value s ⟨3, [1], true⟩ 2)) = some (some 7, none) :=
  Blue.KvsConc.batch_atomic_fails_as_found

/-- … and an open cursor is not a stable snapshot as found: a writer in flight when the snapshot is
    taken becomes visible to it when it completes -/
theorem snapshot_unstable_as_found :
    (run (init false 2 1) [.wBegin 3 1 [(1, some 7)], .wLog 3, .rTree 0 0, .rSnap 0 3 1 false]).map
      (fun s => value s ⟨3, [1], true⟩ 1) = some none ∧
    (run (init false 2 1) [.wBegin 3 1 [(1, some 7)], .wLog 3, .rTree 0 0, .rSnap 0 3 1 false, .wIns 3 0,
        .wFin 3]).map
      (fun s => value s ⟨3, [1], true⟩ 1) = some (some 7) :=
  Blue.KvsConc.snapshot_unstable_as_found

/-- the same schedule on the repaired store -/
theorem repaired_same_schedule :
    run (init true 2 1) [.wBegin 3 1 [(1, some 7), (2, some 7)], .wLog 3, .wIns 3 0, .rTree 0 0,
        .rSnap 0 3 1 false] = none ∧
    (run (init true 2 1) [.wBegin 3 1 [(1, some 7), (2, some 7)], .wLog 3, .wIns 3 0, .rTree 0 0,
        .rSnap 0 2 1 false, .wIns 3 1, .wFin 3]).map
      (fun s => (value s ⟨2, [1], true⟩ 1, value s ⟨2, [1], true⟩ 2, readTs s)) = some (none, none, 3) :=
  Blue.KvsConc.repaired_same_schedule

end asfound

/-! ## the writers alone, as found (`Blue.KvsWrite`) -/
section kvswrite
open Blue.KvsWrite

/-- D-6 on the first model: after the first of two entries of a batch is in the memtable a reader
    sees it and not the second -/
theorem partial_batch_visible :
    let s := run [.begin [(1, some 7), (2, some 7)], .insertOne 1]
    (load s 1).map (·.val) = some (some 7) ∧ load s 2 = none :=
  Blue.KvsWrite.partial_batch_visible

/-- what does hold as found (`batch_atomic_partial`): a batch whose write has returned is entirely
    visible to every scan opened afterwards.  Missing for the full statement: batches still being
    inserted — that part is false as found (`partial_batch_visible`) and is `batch_atomic` above for
    the repaired store -/
theorem returned_batch_fully_visible (evs : List Ev) (w : Writer) (hw : w ∈ (run evs).writers)
    (hfin : w.finished = true) :
    ∀ kv ∈ w.batch, (⟨kv.1, w.seq, kv.2⟩ : Entry) ∈ scanView (run evs) :=
  Blue.KvsWrite.returned_batch_fully_visible evs w hw hfin

/-- once a write has returned, every later `load` of one of its keys returns it or a newer one -/
theorem no_stale_read_as_found (evs : List Ev) (w : Writer) (hw : w ∈ (run evs).writers) (hfin : w.finished = true)
    (k : Nat) (v : Option Nat) (hkv : (k, v) ∈ w.batch) :
    ∃ r, load (run evs) k = some r ∧ w.seq ≤ r.seq :=
  Blue.KvsWrite.no_stale_read evs w hw hfin k v hkv

example : ∃ w ∈ (run [.begin [(1, some 7)], .insertOne 1, .finish 1]).writers, w.finished = true ∧ w.batch = [(1, some 7)] := by
  decide

/-- the writers' invariant holds in every reachable state -/
theorem winv_run (evs : List Ev) : WInv (run evs) := Blue.KvsWrite.winv_run evs

/-- every entry in the memtable carries a sequence number that has been assigned -/
theorem mem_seq_assigned (evs : List Ev) : ∀ e ∈ (run evs).mem, 1 ≤ e.seq ∧ e.seq ≤ (run evs).seqNo :=
  Blue.KvsWrite.mem_seq_assigned evs

end kvswrite

/-! ## rollover as a snapshot sees it (`Blue.Rollover`) -/
section rollover
open Blue.Rollover

/-- at every instant of rotate / install / clear a snapshot taken under the mutex holds exactly the
    entries written so far, newest first; the only thing it can hold twice is the immutable
    memtable, then also the first file of the version -/
theorem snapshot_complete (evs : List Ev) :
    let s := evs.foldl step init
    (∀ e, e < s.next ↔ e ∈ (snapshot s).flatten)
    ∧ (canon s).flatten.Pairwise (fun a b => b < a)
    ∧ (snapshot s = canon s ∨ ∃ m rest, snapshot s = s.mem :: m :: m :: rest ∧ canon s = s.mem :: m :: rest) :=
  Blue.Rollover.snapshot_complete evs

/-- mutant: dropping the immutable memtable before the version is installed loses acknowledged
    writes for a snapshot taken in between -/
theorem clear_before_install_loses :
    let s := [Ev.write, .write, .rotate, .clear].foldl stepBad init
    (snapshot s).flatten = [] ∧ s.next = 2 :=
  Blue.Rollover.clear_before_install_loses

end rollover

-- BEGIN KvsConcTree
/-! ## tree installs that change what the tables hold (`Blue.KvsConcTree`) -/
section conctree
open Blue.KvsConcTree Blue.KvsConc

/-- the run of the non-vacuity examples below: batch 3 over keys 1, 2; flush (file 0); writers 5
    (delete key 1) and 6 (put key 2) overlap, reader 0 snapshots between their returns (ts 5, holds
    memtable 3 and file 0); second flush (file 1); reader 1 snapshots (files 1, 0); `tCompact`
    merges files 1 and 0 into file 2 (same four versions); reader 2 snapshots (file 2); `tGc`
    rewrites file 2 into file 3 dropping the tombstone of key 1 with the put below it and the
    overwritten put of key 2; reader 3 snapshots (file 3); write 8 puts key 1 -/
def exTreeRun : List TEv :=
  [.base (.wBegin 3 1 [(1, some 7), (2, some 8)]), .base (.wLog 3), .base (.wIns 3 0), .base (.wIns 3 1), .base (.wFin 3),
   .base (.fRotate 3 1), .base (.fHead 3), .base (.fInstall 1 1), .base (.fClear 1),
   .base (.wBegin 5 3 [(1, none)]), .base (.wBegin 6 3 [(2, some 9)]), .base (.wLog 6), .base (.wIns 6 0),
   .base (.wLog 5), .base (.wIns 5 0), .base (.wFin 5),
   .base (.rTree 0 1), .base (.rSnap 0 5 3 false),
   .base (.wFin 6),
   .base (.fRotate 6 3), .base (.fHead 6), .base (.fInstall 3 2), .base (.fClear 3),
   .base (.rTree 1 2), .base (.rSnap 1 6 6 false),
   .tCompact 3 [1, 0] [[⟨1, 5, none⟩, ⟨1, 3, some 7⟩, ⟨2, 6, some 9⟩, ⟨2, 3, some 8⟩]],
   .base (.rTree 2 3), .base (.rSnap 2 6 6 false),
   .tGc 4 [2] [[⟨2, 6, some 9⟩]],
   .base (.rTree 3 4), .base (.rSnap 3 6 6 false),
   .base (.wBegin 8 6 [(1, some 5)]), .base (.wLog 8), .base (.wIns 8 0), .base (.wFin 8)]

/-- **snapshot_stable_tree**: what a reader's snapshot shows — the visible versions, every point
    read, every value, every scan list at its read timestamp — does not change under any later
    event: inserts of writers in flight, rotation, flush install, `imm := none`, other readers,
    conserving compactions and garbage-collecting compactions that REPLACE the files of the
    current version.  Not by construction: `tCompact` / `tGc` change `cur` and what its files hold;
    the reader keeps the file ids of the version it cloned, files are written once under fresh ids
    (`TInv.fid`, `entsOf_step`) and stay addressable to it (C07 / C08: the bytes), and every later
    memtable insert is numbered above its timestamp (`view_step_le`). -/
theorem snapshot_stable_tree {seq0 mem0 : Nat} {pre evs : List TEv} {t t' : TSt}
    (hpre : trun (tinit true seq0 mem0) pre = some t) (hrun : trun t evs = some t')
    (p : Nat × TSnap) (hp : p ∈ t.snaps) :
    tview t' p.2 = tview t p.2 ∧ (∀ k, tlookup t' p.2 k = tlookup t p.2 k) ∧ (∀ k, tvalue t' p.2 k = tvalue t p.2 k)
      ∧ ∀ keys, tscan t' p.2 keys = tscan t p.2 keys :=
  Blue.KvsConcTree.snapshot_stable_tree hpre hrun p hp

/-- non-vacuity: the four readers of `exTreeRun` hold four different versions (files [0], [1, 0],
    [2], [3]); after both installs and a later write each still answers what it answered -/
example : ∃ t, trun (tinit true 2 1) exTreeRun = some t ∧ t.cur = [3] ∧
    t.snaps.map (fun p => (p.1, p.2.files, tvalue t p.2 1, tvalue t p.2 2))
      = [(3, [3], none, some 9), (2, [2], none, some 9), (1, [1, 0], none, some 9), (0, [0], none, some 8)] ∧
    t.snaps.map (fun p => tscan t p.2 [1, 2]) = [[(2, 9)], [(2, 9)], [(2, 9)], [(2, 8)]] := by
  decide

/-- **install_invisible_to_new_readers**, conserving compaction: in every reachable state (both read
    policies), over the version a `tCompact` installs every point read answers — at EVERY timestamp
    and over any memtables, in particular for the snapshot `load` / `range_scan` take now — with
    the entry the version before it answers; values and scan lists follow -/
theorem install_invisible_to_new_readers {c : Bool} {seq0 mem0 : Nat} {pre : List TEv} {t t' : TSt}
    {vid : Nat} {ins : List Nat} {outs : List (List Entry)}
    (hpre : trun (tinit c seq0 mem0) pre = some t) (h : tstep t (.tCompact vid ins outs) = some t') :
    (∀ ts M k, tlookup t' ⟨ts, M, t'.cur⟩ k = tlookup t ⟨ts, M, t.cur⟩ k) ∧
    (∀ k, tlookup t' (snapNow t') k = tlookup t (snapNow t) k) ∧
    (∀ k, tvalue t' (snapNow t') k = tvalue t (snapNow t) k) ∧
    ∀ keys, tscan t' (snapNow t') keys = tscan t (snapNow t) keys :=
  Blue.KvsConcTree.install_invisible_to_new_readers hpre h

/-- **install_invisible_to_new_readers**, collecting compaction: a reader that snapshots after a
    `tGc` reads — as `load` / `range_scan` do — at the `visible_seq_no` it finds in the critical
    section in which it clones the version, which is at least the `visible_seq_no` of the install;
    every version in a file is at most that (`file_ents_visible`: the flush passes the wait list
    first).  It gets the value (and scan list) it would have got before the install; the entry is
    the same, or a tombstone before and no version / an older tombstone after.  Last clause: the
    same at every timestamp `visible_seq_no` had reached at the install.  For OLDER timestamps the
    statement is false (next example) — no reader of the code has one: timestamp and version are
    taken under one lock (kvs/mod.rs `load`, `range_scan`), and the model's `rTree` precedes
    `rSnap`, so a reader's version is never newer than its timestamp. -/
theorem gc_invisible_to_new_readers {c : Bool} {seq0 mem0 : Nat} (hm : mem0 < seq0) {pre : List TEv} {t t' : TSt}
    {vid : Nat} {ins : List Nat} {outs : List (List Entry)}
    (hpre : trun (tinit c seq0 mem0) pre = some t) (h : tstep t (.tGc vid ins outs) = some t') :
    (∀ k, tvalue t' (snapNow t') k = tvalue t (snapNow t) k) ∧
    (∀ keys, tscan t' (snapNow t') keys = tscan t (snapNow t) keys) ∧
    (∀ k, tlookup t' (snapNow t') k = tlookup t (snapNow t) k ∨
      ∃ n, tlookup t (snapNow t) k = some n ∧ n.val = none ∧
        ∀ n', tlookup t' (snapNow t') k = some n' → n'.val = none) ∧
    ∀ ts, t.base.visible ≤ ts → ∀ k,
      tvalue t' ⟨ts, t.base.memId :: t.base.imm.toList, t'.cur⟩ k
        = tvalue t ⟨ts, t.base.memId :: t.base.imm.toList, t.cur⟩ k :=
  Blue.KvsConcTree.gc_invisible_to_new_readers hm hpre h

/-- non-vacuity of both, and the exception: before / after the `tCompact` and before / after the
    `tGc` of `exTreeRun` the snapshot taken now answers (none, some 9); the entry for key 1 is the
    tombstone at 5 before the collection and no version after it -/
example :
    (trun (tinit true 2 1) (exTreeRun.take 25)).map (fun t => (t.cur, tvalue t (snapNow t) 1, tvalue t (snapNow t) 2))
      = some ([1, 0], none, some 9) ∧
    (trun (tinit true 2 1) (exTreeRun.take 26)).map (fun t => (t.cur, tvalue t (snapNow t) 1, tvalue t (snapNow t) 2,
        tlookup t (snapNow t) 1)) = some ([2], none, some 9, some ⟨1, 5, none⟩) ∧
    (trun (tinit true 2 1) (exTreeRun.take 29)).map (fun t => (t.cur, tvalue t (snapNow t) 1, tvalue t (snapNow t) 2,
        tlookup t (snapNow t) 1)) = some ([3], none, some 9, none) := by
  decide

/-- **a collection IS visible at a timestamp older than what it dropped was overwritten at**: over
    the version before the `tGc` a read at timestamp 4 answers (some 7, some 8), over the version
    after it (none, none).  Such a snapshot (new version, old timestamp) is not a state of the
    model or of the code. -/
example :
    (trun (tinit true 2 1) (exTreeRun.take 26)).map (fun t => (tvalue t ⟨4, [6], t.cur⟩ 1, tvalue t ⟨4, [6], t.cur⟩ 2))
      = some (some 7, some 8) ∧
    (trun (tinit true 2 1) (exTreeRun.take 29)).map (fun t => (tvalue t ⟨4, [6], t.cur⟩ 1, tvalue t ⟨4, [6], t.cur⟩ 2))
      = some (none, none) := by
  decide

/-- **the tree model refines the model whose tables never shrink**: in every reachable state, every
    snapshot of the tree model stands next to the snapshot the `Blue.KvsConc` reader took in the
    same `rSnap` (same reader, same timestamp), and every key reads the same VALUE through both —
    whatever flushes, conserving and collecting compactions rewrote the files in between.  (The
    entries may differ: a dropped tombstone reads "no version".)  Invariant: `TJ` — the files of
    every version (current, cloned, held in a snapshot) stand for the tables it was built from
    under any memtables above them (`J`), kept by flush (`J_flush`), conserving (`J_congr`) and
    collecting (`J_gc`) installs. -/
theorem tree_reads_refine {c : Bool} {seq0 mem0 : Nat} (hm : mem0 < seq0) {evs : List TEv} {t : TSt}
    (hrun : trun (tinit c seq0 mem0) evs = some t) (p : Nat × TSnap) (hp : p ∈ t.snaps) :
    ∃ r ∈ t.base.readers, r.1 = p.1 ∧ r.2.ts = p.2.ts ∧ ∀ k, tvalue t p.2 k = value t.base r.2 k :=
  Blue.KvsConcTree.tree_reads_refine hm hrun p hp

/-- **linearizable_with_installs**: the linearizability obligations for the values read in runs
    with content-changing installs.  The run projects onto a `Blue.KvsConc` run (compactions ↦
    `tInstall`), to which every theorem of section `conc` applies; for every tree snapshot there is
    the base reader `r` of the same `rSnap` with: the same value for every key; `no_stale_read`
    (clean: for every returned write the timestamp covers and each of its keys the value read is
    that of an entry at least as new, put by some write, within the timestamp); `no_phantom` (a
    value read was put for that key by a write numbered within the timestamp); `batch_atomic`
    (repaired timestamp, clean: of every begun write either each key of the batch is answered by
    an entry at least as new, or no answer carries its number). -/
theorem linearizable_with_installs {c : Bool} {seq0 mem0 : Nat} (hm : mem0 < seq0) {evs : List TEv} {t : TSt}
    (hrun : trun (tinit c seq0 mem0) evs = some t) (p : Nat × TSnap) (hp : p ∈ t.snaps) :
    run (init c seq0 mem0) (evs.map proj) = some t.base ∧
    ∃ r ∈ t.base.readers, r.1 = p.1 ∧ r.2.ts = p.2.ts ∧
      (∀ k, tvalue t p.2 k = value t.base r.2 k) ∧
      (r.2.clean = true → ∀ w ∈ t.base.writers, w.finished = true → w.seq ≤ p.2.ts →
        ∀ k v, (k, v) ∈ w.batch → ∃ e : Entry, w.seq ≤ e.seq ∧ e.seq ≤ p.2.ts ∧ tvalue t p.2 k = e.val ∧
          ∃ w' ∈ t.base.writers, w'.seq = e.seq ∧ (k, e.val) ∈ w'.batch) ∧
      (∀ k v, tvalue t p.2 k = some v → ∃ w ∈ t.base.writers, w.seq ≤ p.2.ts ∧ (k, some v) ∈ w.batch) ∧
      (c = true → r.2.clean = true → ∀ w ∈ t.base.writers,
        (∀ kv ∈ w.batch, ∃ e : Entry, w.seq ≤ e.seq ∧ tvalue t p.2 kv.1 = e.val) ∨
        (∀ k e, lookup t.base r.2 k = some e → e.seq ≠ w.seq)) :=
  Blue.KvsConcTree.linearizable_with_installs hm hrun p hp

/-- … with `snapshot_after_return_covers` and `write_order` for steps of the tree model -/
theorem order_with_installs {c : Bool} {seq0 mem0 : Nat} {evs : List TEv} {t t' : TSt}
    (hrun : trun (tinit c seq0 mem0) evs = some t) :
    (∀ rid ts mem imm, tstep t (.base (.rSnap rid ts mem imm)) = some t' →
      ∀ w ∈ t.base.writers, w.finished = true → w.seq ≤ ts) ∧
    (∀ q tb b, tstep t (.base (.wBegin q tb b)) = some t' → ∀ w ∈ t.base.writers, w.seq < q) :=
  Blue.KvsConcTree.order_with_installs hrun

/-- non-vacuity: in the final state of `exTreeRun` the four tree snapshots stand next to the four
    (clean) base readers, value for value — reader 3 reads key 1 from a version without the
    tombstone the base reader finds — and the writers 3, 5, 6, 8 have returned -/
example : ∃ t, trun (tinit true 2 1) exTreeRun = some t ∧
    t.snaps.map (fun p => (p.1, p.2.ts, tvalue t p.2 1, tvalue t p.2 2))
      = t.base.readers.map (fun r => (r.1, r.2.ts, value t.base r.2 1, value t.base r.2 2)) ∧
    t.base.readers.map (fun r => (r.2.clean, (lookup t.base r.2 1).map (·.seq))) =
      [(true, some 5), (true, some 5), (true, some 5), (true, some 5)] ∧
    t.snaps.map (fun p => (tlookup t p.2 1).map (·.seq)) = [none, some 5, some 5, some 5] ∧
    t.base.writers.map (fun w => (w.seq, w.finished)) = [(3, true), (5, true), (6, true), (8, true)] := by
  decide

/-- **the wrapper disables nothing**: in every reachable state of the tree model every event of
    `Blue.KvsConc` the base state enables is enabled in the tree model too (the reader's version in
    the tree part is there whenever its version in the base is: `Sync`) — except `wBegin` of a batch
    naming one key twice (D-16).  So every `Blue.KvsConc` run with such batches, with any `tCompact`
    / `tGc` allowed by their obligations in between, is a run of the tree model. -/
theorem base_event_enabled {c : Bool} {seq0 mem0 : Nat} {evs : List TEv} {t : TSt}
    (hrun : trun (tinit c seq0 mem0) evs = some t) (e : Ev) (b : St) (hb : step t.base e = some b)
    (hnd : ∀ q tb bt, e = .wBegin q tb bt → (bt.map (·.1)).Nodup) : ∃ t', tstep t (.base e) = some t' :=
  Blue.KvsConcTree.base_event_enabled hrun e b hb hnd

example : ((trun (tinit true 2 1) (exTreeRun.take 17)).bind (fun t => step t.base (.rSnap 0 5 3 false))).isSome = true := by
  decide

end conctree
-- END KvsConcTree

end Blue.Props.C06

#print axioms Blue.Props.C06.batch_atomic
#print axioms Blue.Props.C06.snapshot_stable
#print axioms Blue.Props.C06.reachable_inv
#print axioms Blue.Props.C06.no_stale_read
#print axioms Blue.Props.C06.snapshot_after_return_covers
#print axioms Blue.Props.C06.no_phantom
#print axioms Blue.Props.C06.write_order
#print axioms Blue.Props.C06.read_sees_only_returned
#print axioms Blue.Props.C06.read_result_was_returned
#print axioms Blue.Props.C06.late_inserts_above_snapshot_ts
#print axioms Blue.Props.C06.later_snapshot_ts_ge
#print axioms Blue.Props.C06.read_monotone
#print axioms Blue.Props.C06.reads_never_go_back
#print axioms Blue.Props.C06.first_hit_eq_newest
#print axioms Blue.Props.C06.view_visible_eq_view_readTs
#print axioms Blue.Props.C06.numbers_differ_after_rotation
#print axioms Blue.Props.C06.snapshot_covers_all
#print axioms Blue.Props.C06.flushed_table_complete
#print axioms Blue.Props.C06.insert_only_into_open_table
#print axioms Blue.Props.C06.snapshot_tree_consistent
#print axioms Blue.Props.C06.snapshot_complete_of_clean
#print axioms Blue.Props.C06.stale_read_as_mutated
#print axioms Blue.Props.C06.same_schedule_clone_under_mutex
#print axioms Blue.Props.C06.batch_atomic_fails_as_found
#print axioms Blue.Props.C06.snapshot_unstable_as_found
#print axioms Blue.Props.C06.repaired_same_schedule
#print axioms Blue.Props.C06.partial_batch_visible
#print axioms Blue.Props.C06.returned_batch_fully_visible
#print axioms Blue.Props.C06.no_stale_read_as_found
#print axioms Blue.Props.C06.winv_run
#print axioms Blue.Props.C06.mem_seq_assigned
#print axioms Blue.Props.C06.snapshot_complete
#print axioms Blue.Props.C06.clear_before_install_loses
#print axioms Blue.Props.C06.failed_write_invisible
#print axioms Blue.Props.C06.failed_never_published
#print axioms Blue.Props.C06.failed_number_not_reused
#print axioms Blue.Props.C06.wFail_changes_nothing_readable
#print axioms Blue.Props.C06.wFail_enabled_iff
#print axioms Blue.Props.C06.gap_is_covered_by_successor
#print axioms Blue.Props.C06.failed_head_hands_on
#print axioms Blue.Props.C06.failed_write_publishes_tears_batch
#print axioms Blue.Props.C06.same_schedule_failed_write_publishes_nothing
#print axioms Blue.Props.C06.snapshot_stable_tree
#print axioms Blue.Props.C06.install_invisible_to_new_readers
#print axioms Blue.Props.C06.gc_invisible_to_new_readers
#print axioms Blue.Props.C06.tree_reads_refine
#print axioms Blue.Props.C06.linearizable_with_installs
#print axioms Blue.Props.C06.order_with_installs
#print axioms Blue.Props.C06.base_event_enabled
#print axioms Blue.ConstsTie.kvs_read_policy
#print axioms Blue.ConstsTie.kvs_failed_write_exit
