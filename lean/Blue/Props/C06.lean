import Blue.Proofs.KvsWrite
import Blue.Proofs.Rollover
/-! Property C06: the theorems the check builds and audits (spike inventory; the build phase
    completes the list from DESIGN Appendix C.0). -/
#print axioms Blue.Rollover.snapshot_complete
#print axioms Blue.Rollover.clear_before_install_loses
