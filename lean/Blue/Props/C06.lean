import Blue.Proofs.KvsWrite
import Blue.Proofs.Rollover
import Blue.Proofs.KvsConc
import Blue.Proofs.KvsConcHandoff
import Blue.Proofs.KvsConcReads
import Blue.Proofs.KvsConcFirstHit
import Blue.Proofs.KvsConcSnapBridge
import Blue.Proofs.KvsConcFail
import Blue.Proofs.ConstsTieC06
/-! # Property C06 — concurrent reads/writes are linearizable; batches become visible atomically

Property theorems only (helper lemmas and invariants live in `Blue/Proofs/{KvsWrite,Rollover,KvsConc,
KvsConcHandoff}.lean`).

Three executable models of `lsmtk/src/kvs/mod.rs`, one step per critical section or lock-free access,
theorems for *every* interleaving of their events:

* `Blue.KvsConc` — the joined system the correspondence check replays recorded runs through:
  writers (`seq` assigned and memtable picked under the mutex and linked into the wait list; log
  append; entry-by-entry skiplist inserts; return as head of the wait list), the flush thread
  (rotate `mem → imm` and link; pass the wait list; install the version; clear `imm`), readers
  (clone of the tree version — a step of its own, `rTree`, which the code makes inside the critical
  section in which it takes `mem`, `imm` and a timestamp, `rSnap`; lookups afterwards).
  `completed = true`: the timestamp is `visible`, the number of the last writer that left the
  wait list (the repaired store, /repo fix 000c41c); `completed = false`:
  the last *assigned* number (the store as found, D-6).
* `Blue.KvsWrite` — the writers alone, timestamp as found (the first model, kept: its theorems are
  the as-found statements).
* `Blue.Rollover` — rotate / install / clear as a snapshot sees them, entries = sequence numbers.

Linearization: writes in sequence-number order, each at the moment it leaves the wait list
(`wFin`, where `visible` becomes its number); a read at its snapshot.  `write_order` (numbers respect
real time), `no_stale_read` + `snapshot_after_return_covers` (a read is not older than any write
that returned before it began), `no_phantom` (it returns an entry some write put there, with a
number its timestamp covers) + `read_sees_only_returned` (repaired: that write had RETURNED when
the snapshot was taken), `later_snapshot_ts_ge` + `read_monotone` / `reads_never_go_back` (reads
do not go back in time against each other), `batch_atomic` + `snapshot_stable` (a snapshot sees a
batch entirely or not at all, and never changes) are the obligations of that linearization on the
model.  `first_hit_eq_newest` ties the model's `lookup` (newest over the union of mem, imm and the
version's tables) to what `KeyValueStore::load` does (first hit searching mem → imm → version).

Writes that fail (`wFail`: the log refuses the batch after the write has taken its sequence number
and its place in the wait list) leave the list without publishing anything and without having
inserted anything; the published sequence has gaps.  Every theorem above holds with such steps
anywhere in the run (they are steps of `Blue.KvsConc.step`; `reachable_inv` covers them), and
`failed_write_invisible` / `wFail_changes_nothing_readable` say that a failed write has no effect
on any read.  `failed_write_publishes_tears_batch` is the counterexample for a store whose failed
writes publish their number on the way out.

What the model does NOT have (said here once): a compaction is a version-number bump only
(`tInstall`: same tables, other files) and garbage collection is absent — that they preserve the
newest version of every key is C01 / C05; flush / clear / install steps do not touch table
contents, so for those events `snapshot_stable` holds by construction (its content is the `wIns`
case: every later insert is numbered above every existing snapshot's timestamp —
`late_inserts_above_snapshot_ts`).  `flushed_table_complete` / `insert_only_into_open_table` /
`first_hit_eq_newest` take `mem0 < seq0` (the store opens with `mem_seq_no < seq_no`, as
`verif_state` reports and the driver checks on every trace). -/
namespace Blue.Props.C06
open Blue.KvsWrite (Entry)

/-! ## the joined model, repaired read timestamp -/
section conc
open Blue.KvsConc

/-- **batches become visible atomically** (repaired): in every reachable state, every snapshot a
    reader holds and that is clean (tree version and mem / imm taken with no `imm := none` in between:
    `snapshot_tree_consistent`; the driver checks it on every recorded trace) sees, of every write
    that has begun, the whole batch or nothing — at every later moment too (`snapshot_stable`) -/
theorem batch_atomic {seq0 mem0 : Nat} {evs : List Ev} {s : St}
    (hrun : run (init true seq0 mem0) evs = some s)
    (r : Nat × Snap) (hr : r ∈ s.readers) (hclean : r.2.clean = true) (w : Writer) (hw : w ∈ s.writers) :
    (∀ kv ∈ w.batch, (⟨kv.1, w.seq, kv.2⟩ : Entry) ∈ view s r.2) ∨ (∀ e ∈ view s r.2, e.seq ≠ w.seq) :=
  Blue.KvsConc.batch_atomic hrun r hr hclean w hw

/-- non-vacuity: a run with a rollover in the middle of a two-key batch and snapshots before,
    between the two inserts, and after; the middle snapshot sees nothing of the batch, the last
    sees both keys -/
example :
    (run (init true 2 1) [.rTree 0 0, .rSnap 0 2 1 false, .wBegin 3 1 [(1, some 7), (2, some 8)], .wLog 3,
        .wIns 3 0, .fRotate 3 1, .rTree 1 0, .rSnap 1 2 3 true, .wIns 3 1, .wFin 3, .fHead 3, .rTree 2 0,
        .rSnap 2 3 3 true, .fInstall 1 1, .fClear 1]).map
      (fun s => s.readers.map (fun r => (r.1, r.2.clean, value s r.2 1, value s r.2 2)))
      = some [(2, true, some 7, some 8), (1, true, none, none), (0, true, none, none)] := by decide

/-- **an open cursor is a stable snapshot** (repaired): no later *insert* — in particular none of a
    writer in flight when the snapshot was taken — changes what the snapshot sees.  (Only the
    `wIns` case has content, see `late_inserts_above_snapshot_ts`; flush / clear / version-install
    steps do not touch table contents in this model, by construction.) -/
theorem snapshot_stable (evs : List Ev) {s s' : St} (h : Inv s) (hc : s.completed = true)
    (r : Nat × Snap) (hr : r ∈ s.readers) (hrun : run s evs = some s') : view s' r.2 = view s r.2 :=
  Blue.KvsConc.snapshot_stable evs h hc r hr hrun

/-- … from the start: every reachable state satisfies the invariant -/
theorem reachable_inv {c : Bool} {seq0 mem0 : Nat} {evs : List Ev} {s : St}
    (hrun : run (init c seq0 mem0) evs = some s) : Inv s :=
  Blue.KvsConc.inv_run evs (Blue.KvsConc.inv_init c seq0 mem0) hrun

/-- **no stale read** (both read policies, all interleavings incl. rollover and flush): a reader
    with a clean snapshot whose timestamp covers a write that has returned finds that write or a
    newer one for each of its keys, whenever it looks -/
theorem no_stale_read {c : Bool} {seq0 mem0 : Nat} {evs : List Ev} {s : St}
    (hrun : run (init c seq0 mem0) evs = some s)
    (r : Nat × Snap) (hr : r ∈ s.readers) (hclean : r.2.clean = true)
    (w : Writer) (hw : w ∈ s.writers) (hf : w.finished = true)
    (hcov : w.seq ≤ r.2.ts) (k : Nat) (v : Option Nat) (hkv : (k, v) ∈ w.batch) :
    ∃ e, lookup s r.2 k = some e ∧ w.seq ≤ e.seq :=
  Blue.KvsConc.no_stale_read hrun r hr hclean w hw hf hcov k v hkv

/-- … and a snapshot taken after the write returned has such a timestamp -/
theorem snapshot_after_return_covers {c : Bool} {seq0 mem0 : Nat} {evs : List Ev} {s s' : St}
    (hrun : run (init c seq0 mem0) evs = some s)
    (w : Writer) (hw : w ∈ s.writers) (hf : w.finished = true)
    (rid ts mem : Nat) (imm : Bool) (hs : step s (.rSnap rid ts mem imm) = some s') : w.seq ≤ ts :=
  Blue.KvsConc.snapshot_after_return_covers hrun w hw hf rid ts mem imm hs

example : ∃ s, run (init true 2 1) [.wBegin 3 1 [(1, some 7)], .wLog 3, .wIns 3 0, .wFin 3, .rTree 0 0,
    .rSnap 0 3 1 false] = some s ∧ (s.readers.map (fun r => (r.2.clean, value s r.2 1))) = [(true, some 7)] := by decide

/-- **never a value that was not written, never one from the future**: what a lookup through ANY
    snapshot record `sn` returns is an entry of the batch of the write with that sequence number,
    for the key asked, and that number is not beyond `sn.ts`.  (That the write had begun — and on
    the repaired store returned — when the snapshot was TAKEN needs `sn` to be a reader's snapshot:
    `read_result_was_returned` below.) -/
theorem no_phantom {c : Bool} {seq0 mem0 : Nat} {evs : List Ev} {s : St}
    (hrun : run (init c seq0 mem0) evs = some s) (sn : Snap) (k : Nat) (e : Entry)
    (hl : lookup s sn k = some e) :
    e.seq ≤ sn.ts ∧ ∃ w ∈ s.writers, w.seq = e.seq ∧ (k, e.val) ∈ w.batch :=
  Blue.KvsConc.no_phantom hrun sn k e hl

/-- **the write order respects real time**: a write that begins gets a number beyond that of every
    write that exists, in particular of every write that has returned -/
theorem write_order {c : Bool} {seq0 mem0 : Nat} {evs : List Ev} {s s' : St}
    (hrun : run (init c seq0 mem0) evs = some s) (q t : Nat) (b : List (Nat × Option Nat))
    (hs : step s (.wBegin q t b) = some s') : ∀ w ∈ s.writers, w.seq < q :=
  Blue.KvsConc.write_order hrun q t b hs

/-- **a read sees only writes that have returned** (repaired): every write whose number a
    reader's timestamp covers has left the wait list -/
theorem read_sees_only_returned {seq0 mem0 : Nat} {evs : List Ev} {s : St}
    (hrun : run (init true seq0 mem0) evs = some s) (r : Nat × Snap) (hr : r ∈ s.readers)
    (w : Writer) (hw : w ∈ s.writers) (hle : w.seq ≤ r.2.ts) : w.finished = true :=
  Blue.KvsConc.read_sees_only_returned hrun r hr w hw hle

/-- … so what a reader's lookup returns was written by a write that has returned -/
theorem read_result_was_returned {seq0 mem0 : Nat} {evs : List Ev} {s : St}
    (hrun : run (init true seq0 mem0) evs = some s) (r : Nat × Snap) (hr : r ∈ s.readers)
    (k : Nat) (e : Entry) (hl : lookup s r.2 k = some e) :
    ∃ w ∈ s.writers, w.seq = e.seq ∧ w.finished = true ∧ (k, e.val) ∈ w.batch :=
  Blue.KvsConc.read_result_was_returned hrun r hr k e hl

/-- **the content of `snapshot_stable`** (repaired; hypothesis (i) of C07's
    `cursor_sees_snapshot_partial` as a step fact of this model): a memtable insert enabled in a
    reachable state carries a number above the timestamp of every snapshot that exists -/
theorem late_inserts_above_snapshot_ts {seq0 mem0 : Nat} {evs : List Ev} {s s' : St}
    (hrun : run (init true seq0 mem0) evs = some s) (seq idx : Nat)
    (hs : step s (.wIns seq idx) = some s') : ∀ r ∈ s.readers, r.2.ts < seq :=
  Blue.KvsConc.late_inserts_above_snapshot_ts hrun seq idx hs

/-- **read-to-read, timestamps** (both policies): a snapshot taken now reads at a timestamp at
    least that of every snapshot that exists -/
theorem later_snapshot_ts_ge {c : Bool} {seq0 mem0 : Nat} {evs : List Ev} {s s' : St}
    (hrun : run (init c seq0 mem0) evs = some s) (rid ts mem : Nat) (imm : Bool)
    (hs : step s (.rSnap rid ts mem imm) = some s') : ∀ r ∈ s.readers, r.2.ts ≤ ts :=
  Blue.KvsConc.later_snapshot_ts_ge hrun rid ts mem imm hs

/-- **read-to-read, contents** (both policies, one state): a read through a clean snapshot with a
    timestamp at least that of another snapshot returns, for every key, the entry the other
    returns or a newer one -/
theorem read_monotone {c : Bool} {seq0 mem0 : Nat} {evs : List Ev} {s : St}
    (hrun : run (init c seq0 mem0) evs = some s) (sn : Snap) (r2 : Nat × Snap) (hr2 : r2 ∈ s.readers)
    (hclean : r2.2.clean = true) (hts : sn.ts ≤ r2.2.ts) (k : Nat) (e1 : Entry)
    (hl : lookup s sn k = some e1) : ∃ e2, lookup s r2.2 k = some e2 ∧ e1.seq ≤ e2.seq :=
  Blue.KvsConc.read_monotone hrun sn r2 hr2 hclean hts k e1 hl

/-- **reads never go back** (repaired, across time): a read made in `s1` through `r1` returned `e1`;
    after any further events a read through a clean snapshot with a timestamp at least `r1`'s — by
    `later_snapshot_ts_ge` every snapshot taken after `r1` — returns `e1` or a newer entry -/
theorem reads_never_go_back {seq0 mem0 : Nat} {evs evs' : List Ev} {s1 s2 : St}
    (hrun : run (init true seq0 mem0) evs = some s1) (hrun' : run s1 evs' = some s2)
    (r1 : Nat × Snap) (hr1 : r1 ∈ s1.readers) (r2 : Nat × Snap) (hr2 : r2 ∈ s2.readers)
    (hclean : r2.2.clean = true) (hts : r1.2.ts ≤ r2.2.ts) (k : Nat) (e1 : Entry)
    (hl : lookup s1 r1.2 k = some e1) : ∃ e2, lookup s2 r2.2 k = some e2 ∧ e1.seq ≤ e2.seq :=
  Blue.KvsConc.reads_never_go_back hrun hrun' r1 hr1 r2 hr2 hclean hts k e1 hl

/-- **`load`'s first hit is the newest visible version**: searching mem, then imm, then the tables
    of the version newest first and stopping at the first table that has a visible version of the
    key (`firstHit`, what `KeyValueStore::load` does) returns the entry `lookup` returns (the newest
    visible version over the union) — for every reader's snapshot in every reachable state -/
theorem first_hit_eq_newest {c : Bool} {seq0 mem0 : Nat} (hm : mem0 < seq0) {evs : List Ev} {s : St}
    (hrun : run (init c seq0 mem0) evs = some s) (r : Nat × Snap) (hr : r ∈ s.readers) (k : Nat) :
    firstHit s r.2 k = lookup s r.2 k :=
  Blue.KvsConc.first_hit_eq_newest hm hrun r hr k

/-- **`visible_seq_no` and C07's `readTs` select the same entries**: the two numbers differ (a
    rotation consumes a sequence number no write carries — `numbers_differ_after_rotation`), but
    no entry of any table is numbered in between, so a snapshot reading at `visible` and one reading
    at `Blue.Snap.readTs seqNo (numbers in flight)` have the same view, in every reachable state -/
theorem view_visible_eq_view_readTs {c : Bool} {seq0 mem0 : Nat} {evs : List Ev} {s : St}
    (hrun : run (init c seq0 mem0) evs = some s) (tbls : List Nat) (cl : Bool) :
    view s ⟨s.visible, tbls, cl⟩ = view s ⟨Blue.Snap.readTs s.seqNo (inflight s), tbls, cl⟩ :=
  Blue.KvsConc.view_visible_eq_view_readTs hrun tbls cl

theorem numbers_differ_after_rotation :
    (run (init true 2 1) [.fRotate 2 1]).map
      (fun s => (s.visible, Blue.Snap.readTs s.seqNo (inflight s))) = some (2, 3) :=
  Blue.KvsConc.numbers_differ_after_rotation

/-- non-vacuity (20 events): two writers overlap (batch 3 over keys 1, 2; write 4 over key 1, which
    inserts first), a rotation falls between the two inserts of batch 3, three clean readers take
    their snapshots before, between and after the returns, a compaction and the flush install
    versions.  Reader 0 (ts 2) sees nothing, reader 1 (ts 3) sees batch 3 whole and not write 4,
    reader 2 (ts 4) sees write 4 over batch 3; first hit and newest agree for all of them. -/
example : ∃ s, run (init true 2 1) [.wBegin 3 1 [(1, some 7), (2, some 8)], .wBegin 4 1 [(1, some 9)], .wLog 4, .wIns 4 0, .wLog 3,
        .wIns 3 0, .fRotate 4 1, .rTree 0 0, .rSnap 0 2 4 true, .wIns 3 1, .wFin 3, .rTree 1 0, .rSnap 1 3 4 true, .wFin 4, .fHead 4, .tInstall 5,
        .fInstall 1 6, .rTree 2 6, .rSnap 2 4 4 true, .fClear 1] = some s ∧
    s.readers.map (fun r => (r.1, r.2.clean, value s r.2 1, value s r.2 2))
      = [(2, true, some 9, some 8), (1, true, some 7, some 8), (0, true, none, none)] ∧
    s.readers.all (fun r => firstHit s r.2 1 == lookup s r.2 1 && firstHit s r.2 2 == lookup s r.2 2) = true := by
  decide

/-- **rollover joined with the writers**: at every instant the tables a snapshot searches (mem, imm,
    flushed) hold every entry inserted so far -/
theorem snapshot_covers_all {c : Bool} {seq0 mem0 : Nat} {evs : List Ev} {s : St}
    (hrun : run (init c seq0 mem0) evs = some s) : ∀ te ∈ s.ents, te.1 ∈ liveTables s :=
  Blue.KvsConc.snapshot_covers_all hrun

/-- **in-order completion through the wait list, flush side**: once the flush thread has passed the
    wait list, every writer that picked the now immutable memtable has returned and the table holds
    its whole batch (the file the flush writes is complete); the same for every flushed table -/
theorem flushed_table_complete {c : Bool} {seq0 mem0 : Nat} (hm : mem0 < seq0) {evs : List Ev} {s : St}
    (hrun : run (init c seq0 mem0) evs = some s) (t : Nat)
    (ht : (s.sealed = true ∧ s.imm = some t) ∨ t ∈ s.flushed) :
    ∀ w ∈ s.writers, w.tbl = t → w.finished = true ∧
      ∀ kv ∈ w.batch, (t, (⟨kv.1, w.seq, kv.2⟩ : Entry)) ∈ s.ents :=
  Blue.KvsConc.flushed_table_complete hm hrun t ht

/-- … so nothing is ever inserted into a table that is being or has been flushed -/
theorem insert_only_into_open_table {c : Bool} {seq0 mem0 : Nat} (hm : mem0 < seq0) {evs : List Ev} {s s' : St}
    (hrun : run (init c seq0 mem0) evs = some s) (seq idx : Nat) (w : Writer)
    (hf : findWriter s seq = some w) (hs : step s (.wIns seq idx) = some s') :
    (s.sealed = true → s.imm ≠ some w.tbl) ∧ w.tbl ∉ s.flushed :=
  Blue.KvsConc.insert_only_into_open_table hm hrun seq idx w hf hs

example : ∃ s, run (init true 2 1) [.wBegin 3 1 [(1, some 7)], .wLog 3, .fRotate 3 1, .wIns 3 0, .wFin 3, .fHead 3,
    .fInstall 1 1] = some s ∧ s.sealed = true ∧ s.flushed = [1] ∧ s.imm = some 1 := by decide

/-! ### the tree version is taken in a step of its own -/

/-- the steps that may fall between a reader's `rTree` and its `rSnap` without harm: all but
    `fClear` and the reader's own `rTree` / `rSnap` -/
example : keepsTree 7 (.fClear 1) = false ∧ keepsTree 7 (.fInstall 1 2) = true ∧ keepsTree 7 (.wFin 3) = true
    ∧ keepsTree 7 (.rSnap 8 0 0 false) = true ∧ keepsTree 7 (.rSnap 7 0 0 false) = false := by decide

/-- **`snapshot_tree_consistent`**: if no `imm := none` step of the flush thread (nor another
    snapshot of the same reader) falls between a reader's cloning the tree version and its taking
    mem / imm / timestamp — as is the case whenever the clone is made while the store mutex is held
    — the three-part snapshot is clean and complete: every entry of every write that has returned
    and that the timestamp covers is in mem ∪ imm ∪ tree.  This trace condition is the hypothesis
    `clean` of `batch_atomic` and `no_stale_read`; the driver checks it on every recorded trace -/
theorem snapshot_tree_consistent {c : Bool} {seq0 mem0 : Nat} {pre mid : List Ev} {rid vid ts mem : Nat}
    {imm : Bool} {s : St}
    (hrun : run (init c seq0 mem0) (pre ++ (Ev.rTree rid vid :: mid) ++ [Ev.rSnap rid ts mem imm]) = some s)
    (hmid : ∀ e ∈ mid, keepsTree rid e = true) :
    ∃ sn, s.readers.head? = some (rid, sn) ∧ sn.clean = true ∧ sn.ts = ts ∧
      ∀ w ∈ s.writers, w.finished = true → w.seq ≤ ts →
        ∀ kv ∈ w.batch, (⟨kv.1, w.seq, kv.2⟩ : Entry) ∈ view s sn :=
  Blue.KvsConc.snapshot_tree_consistent hrun hmid

/-- non-vacuity: version install and a writer's whole life between the two steps of the reader -/
example : ∃ s, run (init true 2 1) ([.wBegin 3 1 [(1, some 7)], .wLog 3, .wIns 3 0, .wFin 3, .fRotate 3 1, .fHead 3]
      ++ (Ev.rTree 0 0 :: [.fInstall 1 1, .wBegin 5 3 [(2, some 9)], .wLog 5, .wIns 5 0, .wFin 5])
      ++ [Ev.rSnap 0 5 3 true]) = some s
    ∧ s.readers.map (fun r => (r.2.clean, value s r.2 1, value s r.2 2)) = [(true, some 7, some 9)] := by decide

/-- … in the flag form: a clean snapshot, in any reachable state, holds every covered returned write -/
theorem snapshot_complete_of_clean {c : Bool} {seq0 mem0 : Nat} {evs : List Ev} {s : St}
    (hrun : run (init c seq0 mem0) evs = some s) (r : Nat × Snap) (hr : r ∈ s.readers)
    (hclean : r.2.clean = true) :
    ∀ w ∈ s.writers, w.finished = true → w.seq ≤ r.2.ts →
      ∀ kv ∈ w.batch, (⟨kv.1, w.seq, kv.2⟩ : Entry) ∈ view s r.2 :=
  Blue.KvsConc.snapshot_complete_of_clean hrun r hr hclean

/-- **`stale_read_as_mutated`**: what a store that clones its tree version BEFORE taking the store
    mutex admits — `rTree` (old version), the flush installs the new version and clears `imm`,
    `rSnap`: the put of key 1 returned long before, the timestamp covers it, the reader finds
    nothing; its snapshot is not clean (the harness reproduces this run on such a store with a
    directed schedule) -/
theorem stale_read_as_mutated :
    (run (init true 2 1) [.wBegin 3 1 [(1, some 7)], .wLog 3, .wIns 3 0, .wFin 3, .fRotate 3 1, .fHead 3,
        .rTree 0 0, .fInstall 1 1, .fClear 1, .rSnap 0 3 3 false]).map
      (fun s => s.readers.map (fun r => (r.2.ts, r.2.tbls, r.2.clean, value s r.2 1)))
      = some [(3, [3], false, none)] :=
  Blue.KvsConc.stale_read_as_mutated

/-- the same flush with the clone inside the critical section, at each of its three possible
    places, finds the value -/
theorem same_schedule_clone_under_mutex :
    (run (init true 2 1) [.wBegin 3 1 [(1, some 7)], .wLog 3, .wIns 3 0, .wFin 3, .fRotate 3 1, .fHead 3,
        .rTree 0 0, .rSnap 0 3 3 true, .fInstall 1 1, .rTree 1 1, .rSnap 1 3 3 true, .fClear 1,
        .rTree 2 1, .rSnap 2 3 3 false]).map
      (fun s => s.readers.map (fun r => (r.1, r.2.tbls, r.2.clean, value s r.2 1)))
      = some [(2, [3, 1], true, some 7), (1, [3, 1, 1], true, some 7), (0, [3, 1], true, some 7)] :=
  Blue.KvsConc.same_schedule_clone_under_mutex

/-! ### writes that fail -/

/-- **a failed write has no effect on any read**: in every reachable state — any interleaving of
    writers, failing writers, rotations, hand-offs, installs, readers — no entry of any table
    carries the number of a write that failed, and no lookup through any snapshot returns one -/
theorem failed_write_invisible {c : Bool} {seq0 mem0 : Nat} {evs : List Ev} {s : St}
    (hrun : run (init c seq0 mem0) evs = some s) (q : Nat) (hq : q ∈ s.failed) :
    (∀ te ∈ s.ents, te.2.seq ≠ q) ∧ ∀ (sn : Snap) (k : Nat) (e : Entry), lookup s sn k = some e → e.seq ≠ q :=
  Blue.KvsConc.failed_write_invisible hrun q hq

/-- the number of a failed write is never the published one, is out of the wait list, and no
    writer carries it: the published sequence has a gap there for ever -/
theorem failed_never_published {c : Bool} {seq0 mem0 : Nat} {evs : List Ev} {s : St}
    (hrun : run (init c seq0 mem0) evs = some s) (q : Nat) (hq : q ∈ s.failed) :
    s.visible ≠ q ∧ Ticket.w q ∉ s.queue ∧ q ≤ s.seqNo ∧ ∀ w ∈ s.writers, w.seq ≠ q :=
  Blue.KvsConc.failed_never_published hrun q hq

/-- … and is not handed out again -/
theorem failed_number_not_reused {c : Bool} {seq0 mem0 : Nat} {evs : List Ev} {s s' : St}
    (hrun : run (init c seq0 mem0) evs = some s) (q t : Nat) (b : List (Nat × Option Nat))
    (hs : step s (.wBegin q t b) = some s') : ∀ f ∈ s.failed, f < q :=
  Blue.KvsConc.failed_number_not_reused hrun q t b hs

/-- **the failing step moves nothing a reader can see**: `visible`, the timestamp a reader would
    take, every table and every snapshot's view are as before; the number is recorded as failed,
    the ticket is out of the wait list, the writer is forgotten -/
theorem wFail_changes_nothing_readable {s s' : St} {q : Nat} (hs : step s (.wFail q) = some s') :
    s'.visible = s.visible ∧ s'.seqNo = s.seqNo ∧ readTs s' = readTs s ∧ s'.ents = s.ents
      ∧ s'.readers = s.readers ∧ (∀ sn, view s' sn = view s sn)
      ∧ s'.failed = q :: s.failed ∧ Ticket.w q ∉ s'.queue ∧ ∀ w ∈ s'.writers, w.seq ≠ q :=
  Blue.KvsConc.wFail_changes_nothing_readable hs

/-- when the step is enabled: the write has begun, has not left the list, has inserted nothing and
    its log append has not returned -/
theorem wFail_enabled_iff {s : St} {q : Nat} :
    (∃ s', step s (.wFail q) = some s') ↔
      ∃ w, findWriter s q = some w ∧ w.finished = false ∧ w.todo = w.batch ∧ q ∉ s.logged :=
  Blue.KvsConc.wFail_enabled_iff

/-! non-vacuity: a failing write queued behind a batch that is being inserted, a reader in the
    window, then the successor: the gap at 4 is covered by 5 and both later readers see batch 3
    whole; and a failing write AT THE HEAD with a successor behind it -/
theorem gap_is_covered_by_successor :
    (run (init true 2 1) [.wBegin 3 1 [(1, some 7), (2, some 7)], .wLog 3, .wIns 3 0, .wBegin 4 1 [], .wFail 4,
        .rTree 0 0, .rSnap 0 2 1 false, .wIns 3 1, .wBegin 5 1 [(1, some 9)], .wLog 5, .wIns 5 0, .wFin 3,
        .rTree 1 0, .rSnap 1 3 1 false, .wFin 5, .rTree 2 0, .rSnap 2 5 1 false]).map
      (fun s => (s.failed, s.visible, s.queue.length)) = some ([4], 5, 0) ∧
    (run (init true 2 1) [.wBegin 3 1 [(1, some 7), (2, some 7)], .wLog 3, .wIns 3 0, .wBegin 4 1 [], .wFail 4,
        .rTree 0 0, .rSnap 0 2 1 false, .wIns 3 1, .wBegin 5 1 [(1, some 9)], .wLog 5, .wIns 5 0, .wFin 3,
        .rTree 1 0, .rSnap 1 3 1 false, .wFin 5, .rTree 2 0, .rSnap 2 5 1 false]).map
      (fun s => s.readers.map (fun r => (r.2.ts, value s r.2 1, value s r.2 2)))
      = some [(5, some 9, some 7), (3, some 7, some 7), (2, none, none)] :=
  Blue.KvsConc.gap_is_covered_by_successor

theorem failed_head_hands_on :
    (run (init true 2 1) [.wBegin 3 1 [], .wBegin 4 1 [(1, some 7)], .wLog 4, .wIns 4 0, .wFail 3, .wFin 4,
        .rTree 0 0, .rSnap 0 4 1 false]).map
      (fun s => (s.failed, s.visible, s.queue.length, s.readers.map (fun r => (r.2.ts, value s r.2 1))))
      = some ([3], 4, 0, [(4, some 7)]) :=
  Blue.KvsConc.failed_head_hands_on

example : ((run (init true 2 1) [.wBegin 3 1 [(1, some 7)], .wBegin 4 1 []]).bind (fun s => step s (.wFail 4))).map
    (fun s' => s'.failed) = some [4] := by decide

/-- **`failed_write_publishes_tears_batch`** (the seeded restructuring of `write`'s error path: a
    failed write does not wait for its turn and publishes `max visible seq`; `stepMut`): write 3
    has inserted the first key of its two-key batch, write 4 fails behind it and publishes 4, a
    reader that comes now reads at 4 and finds key 1 of the batch and not key 2 -/
theorem failed_write_publishes_tears_batch :
    (runMut (init true 2 1) [.wBegin 3 1 [(1, some 7), (2, some 7)], .wLog 3, .wIns 3 0, .wBegin 4 1 [],
        .wFail 4, .rTree 0 0, .rSnap 0 4 1 false]).map
      (fun s => s.readers.map (fun r => (r.2.ts, value s r.2 1, value s r.2 2))) = some [(4, some 7, none)] :=
  Blue.KvsConc.failed_write_publishes_tears_batch

/-- … the same events on the model of the code: the timestamp is 2, nothing of the batch shows -/
theorem same_schedule_failed_write_publishes_nothing :
    run (init true 2 1) [.wBegin 3 1 [(1, some 7), (2, some 7)], .wLog 3, .wIns 3 0, .wBegin 4 1 [],
        .wFail 4, .rTree 0 0, .rSnap 0 4 1 false] = none ∧
    (run (init true 2 1) [.wBegin 3 1 [(1, some 7), (2, some 7)], .wLog 3, .wIns 3 0, .wBegin 4 1 [],
        .wFail 4, .rTree 0 0, .rSnap 0 2 1 false]).map
      (fun s => s.readers.map (fun r => (r.2.ts, value s r.2 1, value s r.2 2))) = some [(2, none, none)] :=
  Blue.KvsConc.same_schedule_failed_write_publishes_nothing

end conc

/-! ## the read timestamp as found (D-6) -/
section asfound
open Blue.KvsConc

/-- `batch_atomic` is false for the store as found: a snapshot taken between the two inserts of one
    batch sees the first entry and not the second (joined model; the harness reproduces this run
    on the real store with a directed schedule) -/
theorem batch_atomic_fails_as_found :
    (run (init false 2 1) [.wBegin 3 1 [(1, some 7), (2, some 7)], .wLog 3, .wIns 3 0, .rTree 0 0,
        .rSnap 0 3 1 false]).map
      (fun s => (value s ⟨3, [1], true⟩ 1, value s ⟨3, [1], true⟩ 2)) = some (some 7, none) :=
  Blue.KvsConc.batch_atomic_fails_as_found

/-- … and an open cursor is not a stable snapshot as found: a writer in flight when the snapshot is
    taken becomes visible to it when it completes -/
theorem snapshot_unstable_as_found :
    (run (init false 2 1) [.wBegin 3 1 [(1, some 7)], .wLog 3, .rTree 0 0, .rSnap 0 3 1 false]).map
      (fun s => value s ⟨3, [1], true⟩ 1) = some none ∧
    (run (init false 2 1) [.wBegin 3 1 [(1, some 7)], .wLog 3, .rTree 0 0, .rSnap 0 3 1 false, .wIns 3 0,
        .wFin 3]).map
      (fun s => value s ⟨3, [1], true⟩ 1) = some (some 7) :=
  Blue.KvsConc.snapshot_unstable_as_found

/-- the same schedule on the repaired store -/
theorem repaired_same_schedule :
    run (init true 2 1) [.wBegin 3 1 [(1, some 7), (2, some 7)], .wLog 3, .wIns 3 0, .rTree 0 0,
        .rSnap 0 3 1 false] = none ∧
    (run (init true 2 1) [.wBegin 3 1 [(1, some 7), (2, some 7)], .wLog 3, .wIns 3 0, .rTree 0 0,
        .rSnap 0 2 1 false, .wIns 3 1, .wFin 3]).map
      (fun s => (value s ⟨2, [1], true⟩ 1, value s ⟨2, [1], true⟩ 2, readTs s)) = some (none, none, 3) :=
  Blue.KvsConc.repaired_same_schedule

end asfound

/-! ## the writers alone, as found (`Blue.KvsWrite`) -/
section kvswrite
open Blue.KvsWrite

/-- D-6 on the first model: after the first of two entries of a batch is in the memtable a reader
    sees it and not the second -/
theorem partial_batch_visible :
    let s := run [.begin [(1, some 7), (2, some 7)], .insertOne 1]
    (load s 1).map (·.val) = some (some 7) ∧ load s 2 = none :=
  Blue.KvsWrite.partial_batch_visible

/-- what does hold as found (`batch_atomic_partial`): a batch whose write has returned is entirely
    visible to every scan opened afterwards.  Missing for the full statement: batches still being
    inserted — that part is false as found (`partial_batch_visible`) and is `batch_atomic` above for
    the repaired store -/
theorem returned_batch_fully_visible (evs : List Ev) (w : Writer) (hw : w ∈ (run evs).writers)
    (hfin : w.finished = true) :
    ∀ kv ∈ w.batch, (⟨kv.1, w.seq, kv.2⟩ : Entry) ∈ scanView (run evs) :=
  Blue.KvsWrite.returned_batch_fully_visible evs w hw hfin

/-- once a write has returned, every later `load` of one of its keys returns it or a newer one -/
theorem no_stale_read_as_found (evs : List Ev) (w : Writer) (hw : w ∈ (run evs).writers) (hfin : w.finished = true)
    (k : Nat) (v : Option Nat) (hkv : (k, v) ∈ w.batch) :
    ∃ r, load (run evs) k = some r ∧ w.seq ≤ r.seq :=
  Blue.KvsWrite.no_stale_read evs w hw hfin k v hkv

example : ∃ w ∈ (run [.begin [(1, some 7)], .insertOne 1, .finish 1]).writers, w.finished = true ∧ w.batch = [(1, some 7)] := by
  decide

/-- the writers' invariant holds in every reachable state -/
theorem winv_run (evs : List Ev) : WInv (run evs) := Blue.KvsWrite.winv_run evs

/-- every entry in the memtable carries a sequence number that has been assigned -/
theorem mem_seq_assigned (evs : List Ev) : ∀ e ∈ (run evs).mem, 1 ≤ e.seq ∧ e.seq ≤ (run evs).seqNo :=
  Blue.KvsWrite.mem_seq_assigned evs

end kvswrite

/-! ## rollover as a snapshot sees it (`Blue.Rollover`) -/
section rollover
open Blue.Rollover

/-- at every instant of rotate / install / clear a snapshot taken under the mutex holds exactly the
    entries written so far, newest first; the only thing it can hold twice is the immutable
    memtable, then also the first file of the version -/
theorem snapshot_complete (evs : List Ev) :
    let s := evs.foldl step init
    (∀ e, e < s.next ↔ e ∈ (snapshot s).flatten)
    ∧ (canon s).flatten.Pairwise (fun a b => b < a)
    ∧ (snapshot s = canon s ∨ ∃ m rest, snapshot s = s.mem :: m :: m :: rest ∧ canon s = s.mem :: m :: rest) :=
  Blue.Rollover.snapshot_complete evs

/-- mutant: dropping the immutable memtable before the version is installed loses acknowledged
    writes for a snapshot taken in between -/
theorem clear_before_install_loses :
    let s := [Ev.write, .write, .rotate, .clear].foldl stepBad init
    (snapshot s).flatten = [] ∧ s.next = 2 :=
  Blue.Rollover.clear_before_install_loses

end rollover

end Blue.Props.C06

#print axioms Blue.Props.C06.batch_atomic
#print axioms Blue.Props.C06.snapshot_stable
#print axioms Blue.Props.C06.reachable_inv
#print axioms Blue.Props.C06.no_stale_read
#print axioms Blue.Props.C06.snapshot_after_return_covers
#print axioms Blue.Props.C06.no_phantom
#print axioms Blue.Props.C06.write_order
#print axioms Blue.Props.C06.read_sees_only_returned
#print axioms Blue.Props.C06.read_result_was_returned
#print axioms Blue.Props.C06.late_inserts_above_snapshot_ts
#print axioms Blue.Props.C06.later_snapshot_ts_ge
#print axioms Blue.Props.C06.read_monotone
#print axioms Blue.Props.C06.reads_never_go_back
#print axioms Blue.Props.C06.first_hit_eq_newest
#print axioms Blue.Props.C06.view_visible_eq_view_readTs
#print axioms Blue.Props.C06.numbers_differ_after_rotation
#print axioms Blue.Props.C06.snapshot_covers_all
#print axioms Blue.Props.C06.flushed_table_complete
#print axioms Blue.Props.C06.insert_only_into_open_table
#print axioms Blue.Props.C06.snapshot_tree_consistent
#print axioms Blue.Props.C06.snapshot_complete_of_clean
#print axioms Blue.Props.C06.stale_read_as_mutated
#print axioms Blue.Props.C06.same_schedule_clone_under_mutex
#print axioms Blue.Props.C06.batch_atomic_fails_as_found
#print axioms Blue.Props.C06.snapshot_unstable_as_found
#print axioms Blue.Props.C06.repaired_same_schedule
#print axioms Blue.Props.C06.partial_batch_visible
#print axioms Blue.Props.C06.returned_batch_fully_visible
#print axioms Blue.Props.C06.no_stale_read_as_found
#print axioms Blue.Props.C06.winv_run
#print axioms Blue.Props.C06.mem_seq_assigned
#print axioms Blue.Props.C06.snapshot_complete
#print axioms Blue.Props.C06.clear_before_install_loses
#print axioms Blue.Props.C06.failed_write_invisible
#print axioms Blue.Props.C06.failed_never_published
#print axioms Blue.Props.C06.failed_number_not_reused
#print axioms Blue.Props.C06.wFail_changes_nothing_readable
#print axioms Blue.Props.C06.wFail_enabled_iff
#print axioms Blue.Props.C06.gap_is_covered_by_successor
#print axioms Blue.Props.C06.failed_head_hands_on
#print axioms Blue.Props.C06.failed_write_publishes_tears_batch
#print axioms Blue.Props.C06.same_schedule_failed_write_publishes_nothing
#print axioms Blue.ConstsTie.kvs_read_policy
#print axioms Blue.ConstsTie.kvs_failed_write_exit
