import Blue.Proofs.Mani
import Blue.Proofs.ManiAsIs
import Blue.Proofs.ManiCrash
import Blue.Proofs.ManiAlgebra
import Blue.Proofs.ManiTorn
/-! Property C13: the theorems the check builds and audits (spike inventory; the build phase
    completes the list from DESIGN Appendix C.0). -/
#print axioms Blue.ManiCrash.crash_recover
#print axioms Blue.Mani.maniAlgebra_lawful
#print axioms Blue.Mani.mani_crash_recover
#print axioms Blue.Mani.torn_manifest
#print axioms Blue.Mani.crash_in_rollover_breaks_chain
