import Blue.Proofs.Mani
import Blue.Proofs.ManiAsIs
import Blue.Proofs.ManiCrash
import Blue.Proofs.ManiAlgebra
import Blue.Proofs.ManiTorn
import Blue.Proofs.ManiApi
import Blue.Proofs.ManiChain
import Blue.Proofs.ConstsTieC13
/-! # Property C13 — manifest edits are atomic and durable; reopening replays exactly those applied

Property theorems only.  Models: `Blue/Model/Mani.lean` (text format: lines `hex8(crc) action
string`, separator line, the reader with `BufRead::lines` semantics, `apply_edit` on the sorted
lists that stand for `BTreeSet<String>` / `BTreeMap<char,String>`, the repaired `Edit` API),
`Blue/Model/ManiCrash.lean` (`_apply` and `rollover` as system-call blocks, crash between any two
calls, two persistence models, the repaired `open` that finishes an interrupted rollover),
`Blue/Model/ManiDir.lean` (the rollover rule, `Manifest::verify`'s chain check, file bytes) and
`Blue/Model/Crc32c.lean`.  The driver executes exactly these definitions with `crc := crc32c`.

Granularity: the crash theorems are about whole system calls (an edit is one `write`); a cut at
an arbitrary byte is `torn_manifest`, whose hypothesis `NoCollision` (no proper prefix of a written
line carries that line's CRC) is a statement about CRC-32C that no theorem can discharge. -/
namespace Blue.Props.C13
open Blue.Mani Blue.ManiCrash

/-- the separator and the reader's length test are the ones in the Rust source -/
theorem constants_from_source :
    SEP = Blue.Generated.maniTxSeparator ∧ Blue.Generated.maniMinLine = 9 :=
  ⟨Blue.ConstsTie.mani_separator, Blue.ConstsTie.mani_min_line⟩

/-- the checksum the driver runs is a 32-bit function and has CRC-32C's check value -/
theorem crc32c_is_crc :
    CrcOk Blue.Crc32c.crc32c ∧ Blue.Crc32c.crc32c [49, 50, 51, 52, 53, 54, 55, 56, 57] = 0xE3069283 :=
  ⟨crcOk_crc32c, crc32c_check⟩

/-- **replay**: reading back what a sequence of `apply` calls wrote yields exactly those edits, in
    order, without error — for every checksum function and every list of edits the API can build -/
theorem replay_roundtrip (crc : List Nat → Nat) (hcrc : CrcOk crc) (es : List Edit) (f : Nat)
    (hok : ∀ e ∈ es, e.Ok) :
    readEdits crc (f + 1 + (es.map lineCount).sum) (es.flatMap (encodeEdit crc)) Edit.empty = (es, false) :=
  Blue.Mani.replay_roundtrip crc hcrc es f hok

/-- `Edit.Ok` is exactly what the repaired `Edit::add` / `rm` / `info` enforce: every edit built
    through the API satisfies it, every roll-up `rollover` writes satisfies it, and a string is
    refused iff the reader could not hand it back -/
theorem api_enforces_hypothesis :
    (∀ e, Built e → e.Ok)
    ∧ (∀ es : List Edit, (∀ e ∈ es, e.Ok) → (maniAlgebra.rollup (replay maniAlgebra es)).Ok)
    ∧ (∀ (e : Edit) (s : List Nat), e.addStr s = none ↔ ¬ StrOk s) :=
  ⟨fun _ h => h.ok, rollup_ok, api_rejects_iff⟩

/-- so: a manifest written through the API with CRC-32C reads back as written -/
theorem replay_roundtrip_api (es : List Edit) (hb : ∀ e ∈ es, Built e) :
    readEdits Blue.Crc32c.crc32c (1 + (es.map lineCount).sum) (es.flatMap (encodeEdit Blue.Crc32c.crc32c)) Edit.empty
      = (es, false) := by
  have := Blue.Mani.replay_roundtrip Blue.Crc32c.crc32c crcOk_crc32c es 0 (fun e he => (hb e he).ok)
  simpa using this

/-- **truncation**: a MANIFEST holding `es`, cut at *any* byte `m`, reads as a corruption error or
    as `es.take c` — whole edits only, in order, none invented -/
theorem torn_manifest (crc : List Nat → Nat) (hcrc : CrcOk crc) (es : List Edit) (hok : ∀ e ∈ es, e.Ok)
    (hnc : ∀ l ∈ linesOf es, l.NoCollision crc) (m f : Nat) :
    (readEdits crc (f + 2 + (linesOf es).length) ((es.flatMap (encodeEdit crc)).take m) Edit.empty).2 = true
    ∨ ∃ c, readEdits crc (f + 2 + (linesOf es).length) ((es.flatMap (encodeEdit crc)).take m) Edit.empty
        = (es.take c, false) :=
  Blue.Mani.torn_manifest crc hcrc es hok hnc m f

/-- `to_edit` / `apply_edit` on sorted sets: rolling a reachable state up and applying the roll-up
    to the empty state gives the state back -/
theorem maniAlgebra_lawful : Lawful maniAlgebra := Blue.Mani.maniAlgebra_lawful

/-- **crash**: for every history of edits and rollovers (any rollover ratio: a rollover may follow
    any edit — as a call of its own, `Client.rollover`, or inside the `apply` that crossed the ratio,
    `Client.editRoll`, which returns only after the rename, as the real system-call trace shows), every crash point among append / sync / link / unlink / write / sync / rename and
    both persistence models, reopening yields the state after a prefix of the applied edits that
    contains every edit whose call had returned -/
theorem crash_recover {St E : Type} (A : Algebra St E) (hlaw : Lawful A) (h : List (Client E)) (fs : Fs E)
    (sofar : List E) (hinv : Inv A fs sofar) (n : Nat) :
    Ok A (recoverB A (run fs ((opsOf A h sofar).take n))) (sofar ++ editsOf h)
      (sofar.length + acked ((opsOf A h sofar).take n)) (sofar.length + appended ((opsOf A h sofar).take n))
    ∧ Ok A (recoverA A (run fs ((opsOf A h sofar).take n))) (sofar ++ editsOf h)
      (sofar.length + acked ((opsOf A h sofar).take n)) (sofar.length + appended ((opsOf A h sofar).take n)) :=
  Blue.ManiCrash.crash_recover A hlaw h fs sofar hinv n

/-- … for the manifest's own states and edits, from the empty directory -/
theorem mani_crash_recover (h : List (Client Edit)) (n : Nat) :
    Ok maniAlgebra (recoverB maniAlgebra (run emptyFs ((opsOf maniAlgebra h []).take n))) (editsOf h)
      (acked ((opsOf maniAlgebra h []).take n)) (appended ((opsOf maniAlgebra h []).take n))
    ∧ Ok maniAlgebra (recoverA maniAlgebra (run emptyFs ((opsOf maniAlgebra h []).take n))) (editsOf h)
      (acked ((opsOf maniAlgebra h []).take n)) (appended ((opsOf maniAlgebra h []).take n)) := by
  have := Blue.Mani.mani_crash_recover h emptyFs [] ⟨rfl, rfl⟩ n
  simpa using this

/-- **chain**, without a crash: after any history of edits and rollovers every fragment after the
    first starts with the roll-up of its predecessor (`Manifest::verify` reports nothing) -/
theorem chain_crash_free (h : List (Client Edit)) :
    chainOk (fragments (run emptyFs (opsOf maniAlgebra h []))) = true :=
  Blue.Mani.chain_crash_free h

/-- **chain**, across a crash (D-13 repaired): whatever the crash point and persistence model, after
    the reopen's rollover the fragments still chain -/
theorem chain_after_crash_and_reopen (h : List (Client Edit)) (n : Nat) :
    let fs := run emptyFs ((opsOf maniAlgebra h []).take n)
    chainOk (fragments (run (crashA fs) (reopenOps maniAlgebra (crashA fs)))) = true
    ∧ chainOk (fragments (run (crashB fs) (reopenOps maniAlgebra (crashB fs)))) = true :=
  Blue.Mani.chain_after_crash_and_reopen h n

/-! ## the defects, as theorems about the code as it was -/

/-- D-24: an info entry keyed `+` / `-` is read back as an addition / a removal -/
theorem as_is_info_plus_minus_misread :
    readEdits crc0 10 (encodeEdit crc0 ⟨[], [], [(43, [120])]⟩) Edit.empty = ([⟨[], [[120]], []⟩], false)
    ∧ readEdits crc0 10 (encodeEdit crc0 ⟨[], [], [(45, [120])]⟩) Edit.empty = ([⟨[[120]], [], []⟩], false) :=
  ⟨info_plus_misread, info_minus_misread⟩

/-- D-12: the empty string's line is rejected on reopen; a trailing `\r` is lost to `lines()` -/
theorem as_is_unreadable_strings :
    readEdits crc0 10 (encodeEdit crc0 ⟨[], [[]], []⟩) Edit.empty = ([], true)
    ∧ readEdits crc0 10 (encodeEdit crc0 ⟨[], [[120, 13]], []⟩) Edit.empty = ([⟨[], [[120]], []⟩], false) :=
  ⟨empty_string_unreadable, trailing_cr_lost⟩

/-- … and the repaired API refuses each of these inputs -/
theorem repaired_api_refuses :
    Edit.empty.addStr [] = none ∧ Edit.empty.addStr [120, 13] = none ∧ Edit.empty.addStr [195, 169] = none
    ∧ Edit.empty.setInfo 43 [120] = none ∧ Edit.empty.setInfo 45 [120] = none ∧ Edit.empty.setInfo 107 [] = none := by
  decide

/-- D-13, `open` as it was: a crash between the `link` and the `rename` of a rollover, then reopen:
    state intact, chain broken -/
theorem as_is_crash_in_rollover_breaks_chain :
    let crashed := crashB (run start ((opsOf maniAlgebra [.edit e2, .rollover] [e1]).take 4))
    let reopened := run crashed (reopenOpsAsIs maniAlgebra crashed)
    recoverB maniAlgebra reopened = replay maniAlgebra [e1, e2] ∧ chainOk (fragments reopened) = false :=
  crash_in_rollover_breaks_chain

/-- the Appendix-B mutant: renaming the temporary before it is synced loses the manifest under
    persistence model (b) -/
theorem mutant_rename_before_sync_loses {St E : Type} (A : Algebra St E) (e roll : E) :
    recoverB A (run ({ mani := ⟨[e], []⟩, tmp := none, backups := [] } : Fs E)
      [.linkBackup, .tmpClear, .tmpWrite roll, .rename]) = A.empty :=
  rename_before_sync_loses A e roll

/-! ## non-vacuity -/

/-- an edit with a removal, two additions (one holding `\r` and NUL inside) and an info meets `Edit.Ok`,
    and is what the API builds -/
example : Built ⟨[[97]], [[0, 13, 98], [97]], [(73, [120])]⟩ :=
  .info (k := 73) (v := [120]) (.rm (s := [97]) (.add (s := [0, 13, 98]) (.add (s := [97]) .empty rfl) rfl) rfl) rfl
example : (⟨[[97]], [[0, 13, 98], [97]], [(73, [120])]⟩ : Edit).Ok :=
  Built.ok (.info (k := 73) (v := [120]) (.rm (s := [97]) (.add (s := [0, 13, 98]) (.add (s := [97]) .empty rfl) rfl) rfl) rfl)
/-- the crash theorem's invariant holds for the empty directory, and a history with a rollover has
    crash points inside the link–rename window -/
example : Inv maniAlgebra emptyFs [] := ⟨rfl, rfl⟩
example : (match ((opsOf maniAlgebra [.edit e1, .edit e2, .rollover] []).take 7).getLast? with
    | some .linkBackup => true | _ => false) = true := rfl
/-- `NoCollision` is satisfiable: it holds for the lines of a small manifest under CRC-32C -/
example : ∀ l ∈ linesOf [⟨[], [[97, 98, 99]], []⟩], l.NoCollision Blue.Crc32c.crc32c := by
  intro l hl
  simp only [linesOf, items, List.flatMap_cons, List.flatMap_nil, List.map_nil, List.map_cons, List.nil_append,
    List.append_nil, List.cons_append, List.mem_cons, List.not_mem_nil, or_false] at hl
  rcases hl with rfl | rfl
  · intro q h1 h2
    have hq : q = 2 ∨ q = 3 := by simp only [Item.body, List.length_cons, List.length_nil] at h2; omega
    rcases hq with rfl | rfl <;> decide +kernel
  · trivial

end Blue.Props.C13

#print axioms Blue.Props.C13.constants_from_source
#print axioms Blue.Props.C13.crc32c_is_crc
#print axioms Blue.Props.C13.replay_roundtrip
#print axioms Blue.Props.C13.api_enforces_hypothesis
#print axioms Blue.Props.C13.replay_roundtrip_api
#print axioms Blue.Props.C13.torn_manifest
#print axioms Blue.Props.C13.maniAlgebra_lawful
#print axioms Blue.Props.C13.crash_recover
#print axioms Blue.Props.C13.mani_crash_recover
#print axioms Blue.Props.C13.chain_crash_free
#print axioms Blue.Props.C13.chain_after_crash_and_reopen
#print axioms Blue.Props.C13.as_is_info_plus_minus_misread
#print axioms Blue.Props.C13.as_is_unreadable_strings
#print axioms Blue.Props.C13.repaired_api_refuses
#print axioms Blue.Props.C13.as_is_crash_in_rollover_breaks_chain
#print axioms Blue.Props.C13.mutant_rename_before_sync_loses
