import Blue.Proofs.Mani
import Blue.Proofs.ManiAsIs
import Blue.Proofs.ManiCrash
import Blue.Proofs.ManiAlgebra
import Blue.Proofs.ManiTorn
import Blue.Proofs.ManiApi
import Blue.Proofs.ManiChain
import Blue.Proofs.ManiReopen
import Blue.Proofs.ManiOpenBytes
import Blue.Proofs.ManiLock
import Blue.Proofs.ConstsTieC13
import Blue.Proofs.ManiSchedule
/-! # Property C13 — manifest edits are atomic and durable; reopening replays exactly those applied

Property theorems only.  Models: `Blue/Model/Mani.lean` (text format: lines `hex8(crc) action
string`, separator line, the reader with `BufRead::lines` semantics, `apply_edit` on the sorted
lists that stand for `BTreeSet<String>` / `BTreeMap<char,String>`, the repaired `Edit` API),
`Blue/Model/ManiCrash.lean` (`_apply` and `rollover` as system-call blocks, crash between any two
calls, two persistence models, the repaired `open` that finishes an interrupted rollover),
`Blue/Model/ManiDir.lean` (the rollover rule, `Manifest::verify`'s chain check, file bytes) and
`Blue/Model/Crc32c.lean`.  The driver executes exactly these definitions with `crc := crc32c`.

Granularity: the crash theorems are about whole system calls (an edit is one `write`); a cut at
an arbitrary byte is `torn_manifest`, whose hypothesis `NoCollision` (no proper prefix of a written
line carries that line's CRC) is a statement about CRC-32C that no theorem can discharge.

Two layers.  `crash_recover` / `mani_crash_recover` / the chain theorems are on EDIT LISTS: a file
is the list of edits it holds and "reopen" is `replay` of that list by definition.  The layer below
— the bytes — is `replay_roundtrip`, `torn_manifest` and, joining the two, `open_after_history` /
`open_after_incarnations`: `Manifest::open` as the model has it (`openBytes`: `readEdits` on the
file's bytes with fuel `|bytes| + 2`, then `replay`) on the bytes of the MANIFEST a crash leaves.
`readEdits_fuel` makes the fuels of these theorems commensurable.  Incarnations: `incarnation_ok`,
`incarnations_ok`, `chain_incarnations` close the crash and chain theorems under reopening (a
crash during the reopen's rollover, edits after it, a second crash, …).  The rollover RULE
(`rollsOver`, `schedule`: WHEN `_apply` rolls over) is block `ManiSchedule`: the history `schedule`
emits is one of the crash theorems' alphabet and rolls over, on the model file system, exactly where
the test `on_disk_bytes > ratio * in_memory_bytes && !was_empty` says (`schedule_is_a_history`); the
crash / reopen-from-bytes / chain theorems for that history (`scheduled_*`); the test as an
inequality, ratio 0, `was_empty`, antitonicity, and the bound on MANIFEST's size it enforces at every
call (`rollover_rule`, `scheduled_size_bound`).  That the CODE evaluates this test where the model
does is correspondence (the driver runs `schedule` against the real `Manifest`).  Not in any theorem:
reading the backup fragments from bytes (`Manifest::verify`; the chain theorems are on edit lists). -/
namespace Blue.Props.C13
open Blue.Mani Blue.ManiCrash

/-- the separator and the reader's length test are the ones in the Rust source -/
theorem constants_from_source :
    SEP = Blue.Generated.maniTxSeparator ∧ Blue.Generated.maniMinLine = 9 :=
  ⟨Blue.ConstsTie.mani_separator, Blue.ConstsTie.mani_min_line⟩

/-- the checksum the driver runs is a 32-bit function and has CRC-32C's check value -/
theorem crc32c_is_crc :
    CrcOk Blue.Crc32c.crc32c ∧ Blue.Crc32c.crc32c [49, 50, 51, 52, 53, 54, 55, 56, 57] = 0xE3069283 :=
  ⟨crcOk_crc32c, crc32c_check⟩

/-- **replay**: reading back what a sequence of `apply` calls wrote yields exactly those edits, in
    order, without error — for every checksum function and every list of edits the API can build -/
theorem replay_roundtrip (crc : List Nat → Nat) (hcrc : CrcOk crc) (es : List Edit) (f : Nat)
    (hok : ∀ e ∈ es, e.Ok) :
    readEdits crc (f + 1 + (es.map lineCount).sum) (es.flatMap (encodeEdit crc)) Edit.empty = (es, false) :=
  Blue.Mani.replay_roundtrip crc hcrc es f hok

/-- `Edit.Ok` is what the repaired `Edit::add` / `rm` / `info` enforce: every edit built through the
    API satisfies it, every roll-up `rollover` writes satisfies it.  Third conjunct — a model fact,
    for `addStr` only: the Boolean test `strOk` the model's `Edit::add` applies is the predicate
    `StrOk` of the round-trip theorem (the same holds for `rmStr` / `setInfo` by their definitions;
    that `StrOk` is NECESSARY for reading a string back is shown on instances only,
    `as_is_unreadable_strings`) -/
theorem api_enforces_hypothesis :
    (∀ e, Built e → e.Ok)
    ∧ (∀ es : List Edit, (∀ e ∈ es, e.Ok) → (maniAlgebra.rollup (replay maniAlgebra es)).Ok)
    ∧ (∀ (e : Edit) (s : List Nat), e.addStr s = none ↔ ¬ StrOk s) :=
  ⟨fun _ h => h.ok, rollup_ok, api_rejects_iff⟩

/-- so: a manifest written through the API with CRC-32C reads back as written -/
theorem replay_roundtrip_api (es : List Edit) (hb : ∀ e ∈ es, Built e) :
    readEdits Blue.Crc32c.crc32c (1 + (es.map lineCount).sum) (es.flatMap (encodeEdit Blue.Crc32c.crc32c)) Edit.empty
      = (es, false) := by
  have := Blue.Mani.replay_roundtrip Blue.Crc32c.crc32c crcOk_crc32c es 0 (fun e he => (hb e he).ok)
  simpa using this

/-- **truncation**: a MANIFEST holding `es`, cut at *any* byte `m`, reads as a corruption error or
    as `es.take c` — whole edits only, in order, none invented -/
theorem torn_manifest (crc : List Nat → Nat) (hcrc : CrcOk crc) (es : List Edit) (hok : ∀ e ∈ es, e.Ok)
    (hnc : ∀ l ∈ linesOf es, l.NoCollision crc) (m f : Nat) :
    (readEdits crc (f + 2 + (linesOf es).length) ((es.flatMap (encodeEdit crc)).take m) Edit.empty).2 = true
    ∨ ∃ c, readEdits crc (f + 2 + (linesOf es).length) ((es.flatMap (encodeEdit crc)).take m) Edit.empty
        = (es.take c, false) :=
  Blue.Mani.torn_manifest crc hcrc es hok hnc m f

/-- `to_edit` / `apply_edit` on sorted sets: rolling a reachable state up and applying the roll-up
    to the empty state gives the state back -/
theorem maniAlgebra_lawful : Lawful maniAlgebra := Blue.Mani.maniAlgebra_lawful

/-- **crash**: for every history of edits and rollovers (any rollover ratio: a rollover may follow
    any edit — as a call of its own, `Client.rollover`, or inside the `apply` that crossed the ratio,
    `Client.editRoll`, which returns only after the rename, as the real system-call trace shows), every crash point among append / sync / link / unlink / write / sync / rename and
    both persistence models, reopening yields the state after a prefix of the applied edits that
    contains every edit whose call had returned -/
theorem crash_recover {St E : Type} (A : Algebra St E) (hlaw : Lawful A) (h : List (Client E)) (fs : Fs E)
    (sofar : List E) (hinv : Inv A fs sofar) (n : Nat) :
    Ok A (recoverB A (run fs ((opsOf A h sofar).take n))) (sofar ++ editsOf h)
      (sofar.length + acked ((opsOf A h sofar).take n)) (sofar.length + appended ((opsOf A h sofar).take n))
    ∧ Ok A (recoverA A (run fs ((opsOf A h sofar).take n))) (sofar ++ editsOf h)
      (sofar.length + acked ((opsOf A h sofar).take n)) (sofar.length + appended ((opsOf A h sofar).take n)) :=
  Blue.ManiCrash.crash_recover A hlaw h fs sofar hinv n

/-- … for the manifest's own states and edits, from the empty directory -/
theorem mani_crash_recover (h : List (Client Edit)) (n : Nat) :
    Ok maniAlgebra (recoverB maniAlgebra (run emptyFs ((opsOf maniAlgebra h []).take n))) (editsOf h)
      (acked ((opsOf maniAlgebra h []).take n)) (appended ((opsOf maniAlgebra h []).take n))
    ∧ Ok maniAlgebra (recoverA maniAlgebra (run emptyFs ((opsOf maniAlgebra h []).take n))) (editsOf h)
      (acked ((opsOf maniAlgebra h []).take n)) (appended ((opsOf maniAlgebra h []).take n)) := by
  have := Blue.Mani.mani_crash_recover h emptyFs [] ⟨rfl, rfl⟩ n
  simpa using this

/-- **chain**, without a crash: after any history of edits and rollovers every fragment after the
    first starts with the roll-up of its predecessor (`Manifest::verify` reports nothing) -/
theorem chain_crash_free (h : List (Client Edit)) :
    chainOk (fragments (run emptyFs (opsOf maniAlgebra h []))) = true :=
  Blue.Mani.chain_crash_free h

/-- **chain**, across ONE crash (D-13 repaired) of a crash-free history from the empty directory:
    whatever the crash point and persistence model, after the completed reopen's rollover the
    fragments still chain (any number of crashes and reopens: `chain_incarnations`) -/
theorem chain_after_crash_and_reopen (h : List (Client Edit)) (n : Nat) :
    let fs := run emptyFs ((opsOf maniAlgebra h []).take n)
    chainOk (fragments (run (crashA fs) (reopenOps maniAlgebra (crashA fs)))) = true
    ∧ chainOk (fragments (run (crashB fs) (reopenOps maniAlgebra (crashB fs)))) = true :=
  Blue.Mani.chain_after_crash_and_reopen h n

/-! ## closure under reopening, and the theorems taken through the bytes -/

/-- **fuel independence** of the reader: with more fuel than bytes the answer does not depend on
    the fuel (so `openBytes`, `replay_roundtrip` and `torn_manifest` are about one function) -/
theorem readEdits_fuel (crc : List Nat → Nat) (f f' : Nat) (bs : List Nat) (cur : Edit)
    (h : bs.length < f) (h' : bs.length < f') : readEdits crc f bs cur = readEdits crc f' bs cur :=
  Blue.Mani.readEdits_fuel crc f f' bs cur h h'

/-- `Manifest::open` on the bytes of a file holding `es`: the state `es` replays to -/
theorem open_reads_what_was_written (crc : List Nat → Nat) (hcrc : CrcOk crc) (es : List Edit) (hok : ∀ e ∈ es, e.Ok) :
    openBytes crc (fileBytes crc es) = some (replay maniAlgebra es) :=
  openBytes_fileBytes crc hcrc es hok

/-- … cut at any byte: a corruption error, or the state after a prefix of whole edits -/
theorem open_torn (crc : List Nat → Nat) (hcrc : CrcOk crc) (es : List Edit) (hok : ∀ e ∈ es, e.Ok)
    (hnc : ∀ l ∈ linesOf es, l.NoCollision crc) (m : Nat) :
    openBytes crc ((fileBytes crc es).take m) = none
    ∨ ∃ c, openBytes crc ((fileBytes crc es).take m) = some (replay maniAlgebra (es.take c)) :=
  Blue.Mani.open_torn crc hcrc es hok hnc m

/-- **crash, through the bytes**: for every history of API-built edits and rollovers cut at any
    system call, `Manifest::open` reading the BYTES of the MANIFEST the crash leaves (model (b):
    the synced bytes; model (a): all bytes written) succeeds and yields the replay of a prefix of
    the edits that contains every acknowledged one -/
theorem open_after_history (crc : List Nat → Nat) (hcrc : CrcOk crc) (h : List (Client Edit))
    (hok : ∀ e ∈ editsOf h, e.Ok) (n : Nat) :
    let fs := run emptyFs ((opsOf maniAlgebra h []).take n)
    openBytes crc (fileBytes crc (crashB fs).mani.durable) = some (recoverB maniAlgebra fs)
    ∧ openBytes crc (fileBytes crc (crashA fs).mani.durable) = some (recoverA maniAlgebra fs)
    ∧ (∃ k, acked ((opsOf maniAlgebra h []).take n) ≤ k ∧ k ≤ appended ((opsOf maniAlgebra h []).take n)
        ∧ openBytes crc (fileBytes crc (crashB fs).mani.durable) = some (replay maniAlgebra ((editsOf h).take k)))
    ∧ (∃ k, acked ((opsOf maniAlgebra h []).take n) ≤ k ∧ k ≤ appended ((opsOf maniAlgebra h []).take n)
        ∧ openBytes crc (fileBytes crc (crashA fs).mani.durable) = some (replay maniAlgebra ((editsOf h).take k))) :=
  Blue.Mani.open_after_history crc hcrc h hok n

/-- the reopen's rollover on any crash image re-establishes the invariant `crash_recover` starts from -/
theorem inv_after_reopen {St E : Type} (A : Algebra St E) (hlaw : Lawful A) (g : Fs E) (hp : g.mani.pending = []) :
    Inv A (run g (reopenOps A g)) g.mani.durable :=
  Blue.ManiCrash.inv_after_reopen A hlaw g hp

/-- **a crash during the reopen**: every prefix of the rollover `Manifest::open` performs on a crash
    image reopens, under both models, to the state the image reopens to -/
theorem reopen_prefix_safe {St E : Type} (A : Algebra St E) (hlaw : Lawful A) (g : Fs E)
    (hp : g.mani.pending = []) (m : Nat) :
    recoverB A (run g ((reopenOps A g).take m)) = replay A g.mani.durable
    ∧ recoverA A (run g ((reopenOps A g).take m)) = replay A g.mani.durable :=
  Blue.ManiCrash.reopen_prefix_safe A hlaw g hp m

/-- **one incarnation on any crash image** (`Manifest::open` with its rollover, any history, cut at
    any system call of either, both models): a reopen yields the state the image reopened to
    extended by a prefix of the incarnation's edits that contains every acknowledged one -/
theorem incarnation_ok {St E : Type} (A : Algebra St E) (hlaw : Lawful A) (g : Fs E) (hp : g.mani.pending = [])
    (h : List (Client E)) (n : Nat) :
    Ok A (recoverB A (run g ((reopenOps A g ++ opsOf A h g.mani.durable).take n))) (g.mani.durable ++ editsOf h)
      (g.mani.durable.length + acked ((reopenOps A g ++ opsOf A h g.mani.durable).take n))
      (g.mani.durable.length + appended ((reopenOps A g ++ opsOf A h g.mani.durable).take n))
    ∧ Ok A (recoverA A (run g ((reopenOps A g ++ opsOf A h g.mani.durable).take n))) (g.mani.durable ++ editsOf h)
      (g.mani.durable.length + acked ((reopenOps A g ++ opsOf A h g.mani.durable).take n))
      (g.mani.durable.length + appended ((reopenOps A g ++ opsOf A h g.mani.durable).take n)) :=
  Blue.ManiCrash.incarnation_ok A hlaw g hp h n

/-- **any number of incarnations and crashes**: each incarnation opens whatever its predecessor
    left and extends the state by a prefix of its own edits, no shorter than those acknowledged
    (`IncsOk`, spelled out by `incsOk_means`) -/
theorem incarnations_ok {St E : Type} (A : Algebra St E) (hlaw : Lawful A) (is : List (Inc E)) (g : Fs E)
    (hp : g.mani.pending = []) : IncsOk A g is ∧ (runIncs A g is).mani.pending = [] :=
  Blue.ManiCrash.incarnations_ok A hlaw is g hp

theorem incsOk_means {St E : Type} (A : Algebra St E) (g : Fs E) (i : Inc E) (is : List (Inc E)) :
    IncsOk A g (i :: is) ↔
      (∃ k, acked (incOps A g i) ≤ k ∧ k ≤ appended (incOps A g i)
        ∧ replay A (nextFs A g i).mani.durable = ((editsOf i.h).take k).foldl A.apply (replay A g.mani.durable))
      ∧ IncsOk A (nextFs A g i) is := Iff.rfl

/-- the crash image of the FIRST incarnation of a directory (no MANIFEST yet: `Manifest::open`
    does not roll over) is a directory the incarnation theorems start from -/
theorem first_incarnation_image (h : List (Client Edit)) (hok : ∀ e ∈ editsOf h, e.Ok) (n : Nat) (b : Bool) :
    (crash b (run emptyFs ((opsOf maniAlgebra h []).take n))).mani.pending = []
    ∧ DirOk (crash b (run emptyFs ((opsOf maniAlgebra h []).take n)))
    ∧ Cls (crash b (run emptyFs ((opsOf maniAlgebra h []).take n))) :=
  ⟨crash_pending _ _, dirOk_first h hok n b, cls_first h n b⟩

/-- … through the bytes: the MANIFEST left by any sequence of incarnations opens from its bytes -/
theorem open_after_incarnations (crc : List Nat → Nat) (hcrc : CrcOk crc) (g0 : Fs Edit) (hp : g0.mani.pending = [])
    (hd0 : DirOk g0) (is : List (Inc Edit)) (hok : ∀ i ∈ is, ∀ e ∈ editsOf i.h, e.Ok) :
    let g := runIncs maniAlgebra g0 is
    g.mani.pending = []
    ∧ openBytes crc (fileBytes crc g.mani.durable) = some (replay maniAlgebra g.mani.durable)
    ∧ IncsOk maniAlgebra g0 is :=
  Blue.Mani.open_after_incarnations crc hcrc g0 hp hd0 is hok

/-- **chain, any number of incarnations**: the directories a crash can leave (`Cls`: MANIFEST its
    own file and the fragments chained, or still linked to the newest backup and chained up to it)
    are closed under incarnations — open with the repaired rollover, any history, a crash at any
    system call (of the rollover too), either model — and a completed reopen of any of them leaves
    the fragments chained, also through the crash-free history that follows -/
theorem chain_incarnations (g0 : Fs Edit) (h0 : Cls g0) (is : List (Inc Edit)) (h : List (Client Edit)) :
    let g := runIncs maniAlgebra g0 is
    Cls g
    ∧ chainOk (fragments (run g (reopenOps maniAlgebra g))) = true
    ∧ chainOk (fragments (run g (reopenOps maniAlgebra g ++ opsOf maniAlgebra h g.mani.durable))) = true :=
  ⟨Blue.Mani.chain_incarnations is g0 h0, chain_after_incarnations g0 h0 is,
   chain_after_incarnations_and_history g0 h0 is h⟩

/-! ## the defects, as theorems about the code as it was -/

/-- D-24: an info entry keyed `+` / `-` is read back as an addition / a removal -/
theorem as_is_info_plus_minus_misread :
    readEdits crc0 10 (encodeEdit crc0 ⟨[], [], [(43, [120])]⟩) Edit.empty = ([⟨[], [[120]], []⟩], false)
    ∧ readEdits crc0 10 (encodeEdit crc0 ⟨[], [], [(45, [120])]⟩) Edit.empty = ([⟨[[120]], [], []⟩], false) :=
  ⟨info_plus_misread, info_minus_misread⟩

/-- D-12: the empty string's line is rejected on reopen; a trailing `\r` is lost to `lines()` -/
theorem as_is_unreadable_strings :
    readEdits crc0 10 (encodeEdit crc0 ⟨[], [[]], []⟩) Edit.empty = ([], true)
    ∧ readEdits crc0 10 (encodeEdit crc0 ⟨[], [[120, 13]], []⟩) Edit.empty = ([⟨[], [[120]], []⟩], false) :=
  ⟨empty_string_unreadable, trailing_cr_lost⟩

/-- … and the repaired API refuses each of these inputs -/
theorem repaired_api_refuses :
    Edit.empty.addStr [] = none ∧ Edit.empty.addStr [120, 13] = none ∧ Edit.empty.addStr [195, 169] = none
    ∧ Edit.empty.setInfo 43 [120] = none ∧ Edit.empty.setInfo 45 [120] = none ∧ Edit.empty.setInfo 107 [] = none := by
  decide

/-- D-13, `open` as it was: a crash between the `link` and the `rename` of a rollover, then reopen:
    state intact, chain broken -/
theorem as_is_crash_in_rollover_breaks_chain :
    let crashed := crashB (run start ((opsOf maniAlgebra [.edit e2, .rollover] [e1]).take 4))
    let reopened := run crashed (reopenOpsAsIs maniAlgebra crashed)
    recoverB maniAlgebra reopened = replay maniAlgebra [e1, e2] ∧ chainOk (fragments reopened) = false :=
  crash_in_rollover_breaks_chain

/-- the Appendix-B mutant: renaming the temporary before it is synced loses the manifest under
    persistence model (b) -/
theorem mutant_rename_before_sync_loses {St E : Type} (A : Algebra St E) (e roll : E) :
    recoverB A (run ({ mani := ⟨[e], []⟩, tmp := none, backups := [] } : Fs E)
      [.linkBackup, .tmpClear, .tmpWrite roll, .rename]) = A.empty :=
  rename_before_sync_loses A e roll

/-! ## two processes: the lock file -/

/-- `Manifest::open` reads MANIFEST after LOCKFILE is held (`translate/extract.py` on mani/src/lib.rs) -/
theorem open_reads_under_lock_from_source : Blue.Generated.maniOpenReadsUnderLock = 1 :=
  Blue.ConstsTie.mani_open_reads_under_lock

/-- **`open_reads_under_lock`**: a second process calls `Manifest::open` while the first holds the
    lock and has to wait (`Lockfile::wait`, as the crate's tools do); the first process issues any
    calls meanwhile — edits whose `apply` returns, rollovers — and drops its handle.  The state
    the second process's handle holds, and the state its open-time rollover leaves in MANIFEST, is
    the state MANIFEST replays to when the lock changes hands: exactly the edits applied. -/
theorem open_reads_under_lock {St E : Type} (A : Algebra St E) (hlaw : Lawful A) (fs : Fs E) (during : List (Op E)) :
    (Blue.ManiLock.waiterOpen A false fs during).2 = Blue.ManiLock.readMani A (run fs during)
    ∧ recoverA A (Blue.ManiLock.waiterOpen A false fs during).1 = Blue.ManiLock.readMani A (run fs during) :=
  Blue.ManiLock.open_reads_under_lock A hlaw fs during

/-- **the reordered open** (`read_mani` above the lock acquisition): the waiting opener holds, and
    rolls over, the state from before the holder's calls -/
theorem stale_open_state {St E : Type} (A : Algebra St E) (hlaw : Lawful A) (fs : Fs E) (during : List (Op E))
    (hne : ((run fs during).mani.durable ++ (run fs during).mani.pending).isEmpty = false) :
    (Blue.ManiLock.waiterOpen A true fs during).2 = Blue.ManiLock.readMani A fs
    ∧ recoverA A (Blue.ManiLock.waiterOpen A true fs during).1 = Blue.ManiLock.readMani A fs :=
  Blue.ManiLock.stale_open_state A hlaw fs during hne

/-- the counterexample (and the non-vacuity of the two): the holder applied `[1]`; while the second
    process waits it applies `[2]` and `[3]` — two acknowledgements; as the code is both the handle
    and the directory end at `[1, 2, 3]`, with the reordered open at `[1]`, and the new MANIFEST
    (`[[1]]`) does not start with the roll-up of the backup it was linked from (`[[1],[2],[3]]`) -/
theorem stale_open_loses_edits :
    acked Blue.ManiLock.meanwhile = 2
    ∧ (Blue.ManiLock.waiterOpen Blue.ManiLock.listAlgebra false Blue.ManiLock.held Blue.ManiLock.meanwhile).2 = [1, 2, 3]
    ∧ recoverA Blue.ManiLock.listAlgebra (Blue.ManiLock.waiterOpen Blue.ManiLock.listAlgebra false Blue.ManiLock.held Blue.ManiLock.meanwhile).1 = [1, 2, 3]
    ∧ (Blue.ManiLock.waiterOpen Blue.ManiLock.listAlgebra true Blue.ManiLock.held Blue.ManiLock.meanwhile).2 = [1]
    ∧ recoverA Blue.ManiLock.listAlgebra (Blue.ManiLock.waiterOpen Blue.ManiLock.listAlgebra true Blue.ManiLock.held Blue.ManiLock.meanwhile).1 = [1]
    ∧ (Blue.ManiLock.waiterOpen Blue.ManiLock.listAlgebra true Blue.ManiLock.held Blue.ManiLock.meanwhile).1.backups = [[[1], [2], [3]]]
    ∧ (Blue.ManiLock.waiterOpen Blue.ManiLock.listAlgebra true Blue.ManiLock.held Blue.ManiLock.meanwhile).1.mani.durable = [[1]] :=
  Blue.ManiLock.stale_open_loses_edits

example : Lawful Blue.ManiLock.listAlgebra := Blue.ManiLock.listAlgebra_lawful

/-! ## non-vacuity -/

/-- an edit with a removal, two additions (one holding `\r` and NUL inside) and an info meets `Edit.Ok`,
    and is what the API builds -/
example : Built ⟨[[97]], [[0, 13, 98], [97]], [(73, [120])]⟩ :=
  .info (k := 73) (v := [120]) (.rm (s := [97]) (.add (s := [0, 13, 98]) (.add (s := [97]) .empty rfl) rfl) rfl) rfl
example : (⟨[[97]], [[0, 13, 98], [97]], [(73, [120])]⟩ : Edit).Ok :=
  Built.ok (.info (k := 73) (v := [120]) (.rm (s := [97]) (.add (s := [0, 13, 98]) (.add (s := [97]) .empty rfl) rfl) rfl) rfl)
/-- the crash theorem's invariant holds for the empty directory, and a history with a rollover has
    crash points inside the link–rename window -/
example : Inv maniAlgebra emptyFs [] := ⟨rfl, rfl⟩
example : (match ((opsOf maniAlgebra [.edit e1, .edit e2, .rollover] []).take 7).getLast? with
    | some .linkBackup => true | _ => false) = true := rfl
/-- `NoCollision` is satisfiable: it holds for the lines of a small manifest under CRC-32C -/
example : ∀ l ∈ linesOf [⟨[], [[97, 98, 99]], []⟩], l.NoCollision Blue.Crc32c.crc32c := by
  intro l hl
  simp only [linesOf, items, List.flatMap_cons, List.flatMap_nil, List.map_nil, List.map_cons, List.nil_append,
    List.append_nil, List.cons_append, List.mem_cons, List.not_mem_nil, or_false] at hl
  rcases hl with rfl | rfl
  · intro q h1 h2
    have hq : q = 2 ∨ q = 3 := by simp only [Item.body, List.length_cons, List.length_nil] at h2; omega
    rcases hq with rfl | rfl <;> decide +kernel
  · trivial

/-- non-vacuity of the incarnation theorems: an edit, a crash inside the rollover that follows it
    (after the link, model (b)), a reopen that is itself cut after ITS temporary is written (model
    (a)), a third incarnation that completes the rollover and applies `e2`, cut before the sync
    under model (b): the state is `[e1]`'s, the directory is of the class, and the reopen after it
    chains with three backups -/
example :
    let g0 := crash true (run emptyFs ((opsOf maniAlgebra [.edit e1, .rollover] []).take 4))
    let is : List (Inc Edit) := [⟨[], 2, false⟩, ⟨[.edit e2], 5, true⟩]
    let g := runIncs maniAlgebra g0 is
    g0.linked = true ∧ (nextFs maniAlgebra g0 ⟨[], 2, false⟩).linked = true
    ∧ replay maniAlgebra g.mani.durable = replay maniAlgebra [e1]
    ∧ (fragments (run g (reopenOps maniAlgebra g))).length = 3
    ∧ chainOk (fragments (run g (reopenOps maniAlgebra g))) = true := by decide

/-- … and with the cut one call later (after the sync of `e2`) the state holds both edits -/
example :
    let g0 := crash true (run emptyFs ((opsOf maniAlgebra [.edit e1, .rollover] []).take 4))
    let g := runIncs maniAlgebra g0 [⟨[], 2, false⟩, ⟨[.edit e2], 6, true⟩]
    replay maniAlgebra g.mani.durable = replay maniAlgebra [e1, e2] := by decide

/-- non-vacuity of `open_after_history` / `open_torn`: the edits of the examples are `Ok`, and the
    bytes of a two-edit MANIFEST under CRC-32C open to the replay; cut inside the second edit's
    first line: an error; cut right after that line (the second edit has no separator yet): the
    first edit alone -/
example : e1.Ok ∧ e2.Ok := ⟨Built.ok (.add (s := [97]) .empty rfl), Built.ok (.add (s := [98]) .empty rfl)⟩
example :
    openBytes Blue.Crc32c.crc32c (fileBytes Blue.Crc32c.crc32c [e1, e2]) = some (replay maniAlgebra [e1, e2])
    ∧ (fileBytes Blue.Crc32c.crc32c [e1, e2]).length = 40
    ∧ openBytes Blue.Crc32c.crc32c ((fileBytes Blue.Crc32c.crc32c [e1, e2]).take 25) = none
    ∧ openBytes Blue.Crc32c.crc32c ((fileBytes Blue.Crc32c.crc32c [e1, e2]).take 31) = some (replay maniAlgebra [e1]) := by
  decide +kernel

-- BEGIN ManiSchedule
/-! ## the rollover rule inside the crash theorems -/

/-- **the scheduled history is a history of the crash theorems, and follows the rule on the model
    file system**: for every ratio, checksum and program from the empty directory (every list of
    `apply` calls is one: `program_edits`), `schedule` — edits, with a rollover exactly where
    `rollsOver` says on `schedule`'s own books — emits `Client` calls (`edit` / `rollover` /
    `editRoll`: the alphabet `crash_recover` quantifies over) that hold the events' edits in order,
    and each call is what the test answers on the edits MANIFEST holds IN THE FILE SYSTEM MODEL when
    the call is made (`FollowsRule`, spelled out by `followsRule_means`) -/
theorem schedule_is_a_history (crc : List Nat → Nat) (ratio : Nat) (evs : List Event) (hp : Program evs = true) :
    ∃ h : List (Client Edit), schedule crc ratio evs [] [] = some h
      ∧ editsOf h = eventEdits evs ∧ FollowsRule crc ratio h emptyFs [] :=
  Blue.Mani.schedule_is_a_history crc ratio evs hp

/-- … from any directory on which `schedule`'s books are right -/
theorem schedule_follows_rule (crc : List Nat → Nat) (ratio : Nat) (evs : List Event) (mani sofar : List Edit)
    (h : List (Client Edit)) (fs : Fs Edit) (hs : schedule crc ratio evs mani sofar = some h) (hfs : onDisk fs = mani) :
    FollowsRule crc ratio h fs sofar ∧ editsOf h = eventEdits evs :=
  Blue.Mani.schedule_follows_rule crc ratio evs mani sofar h fs hs hfs

theorem followsRule_means (crc : List Nat → Nat) (ratio : Nat) (cs : List (Client Edit)) (fs : Fs Edit) (sofar : List Edit) (e : Edit) :
    (FollowsRule crc ratio (.edit e :: cs) fs sofar ↔
      rollsOver crc ratio (onDisk fs) sofar e = false
      ∧ FollowsRule crc ratio cs (run fs (block maniAlgebra sofar (.edit e))) (sofar ++ [e]))
    ∧ (FollowsRule crc ratio (.editRoll e :: cs) fs sofar ↔
      rollsOver crc ratio (onDisk fs) sofar e = true
      ∧ FollowsRule crc ratio cs (run fs (block maniAlgebra sofar (.editRoll e))) (sofar ++ [e]))
    ∧ (FollowsRule crc ratio (.rollover :: cs) fs sofar ↔
      onDisk fs ≠ [] ∧ FollowsRule crc ratio cs (run fs (block maniAlgebra sofar .rollover)) sofar) :=
  ⟨Iff.rfl, Iff.rfl, Iff.rfl⟩

/-- `schedule` answers exactly on the programs (no explicit rollover before there is a MANIFEST);
    a list of `apply` calls is one -/
theorem schedule_total (crc : List Nat → Nat) (ratio : Nat) (evs : List Event) (sofar : List Edit) (es : List Edit) :
    (schedule crc ratio evs [] sofar).isSome = Program evs
    ∧ Program (es.map Event.edit) = true ∧ eventEdits (es.map Event.edit) = es :=
  ⟨schedule_isSome_iff crc ratio evs sofar, program_edits es, eventEdits_edits es⟩

/-- **crash, for the store as it decides to roll over**: for every ratio, the history `schedule`
    emits follows the rule, and cut at any system call it reopens under both persistence models to
    the replay of a prefix of the EVENTS' edits that contains every acknowledged one -/
theorem scheduled_crash_recover (crc : List Nat → Nat) (ratio : Nat) (evs : List Event) (h : List (Client Edit))
    (hs : schedule crc ratio evs [] [] = some h) (n : Nat) :
    FollowsRule crc ratio h emptyFs []
    ∧ Ok maniAlgebra (recoverB maniAlgebra (run emptyFs ((opsOf maniAlgebra h []).take n))) (eventEdits evs)
        (acked ((opsOf maniAlgebra h []).take n)) (appended ((opsOf maniAlgebra h []).take n))
    ∧ Ok maniAlgebra (recoverA maniAlgebra (run emptyFs ((opsOf maniAlgebra h []).take n))) (eventEdits evs)
        (acked ((opsOf maniAlgebra h []).take n)) (appended ((opsOf maniAlgebra h []).take n)) :=
  Blue.Mani.scheduled_crash_recover crc ratio evs h hs n

/-- **crash, through the bytes, for the scheduled history** -/
theorem scheduled_open_after_history (crc : List Nat → Nat) (ratio : Nat) (hcrc : CrcOk crc) (evs : List Event)
    (h : List (Client Edit)) (hs : schedule crc ratio evs [] [] = some h) (hok : ∀ e ∈ eventEdits evs, e.Ok) (n : Nat) :
    let fs := run emptyFs ((opsOf maniAlgebra h []).take n)
    openBytes crc (fileBytes crc (crashB fs).mani.durable) = some (recoverB maniAlgebra fs)
    ∧ openBytes crc (fileBytes crc (crashA fs).mani.durable) = some (recoverA maniAlgebra fs)
    ∧ (∃ k, acked ((opsOf maniAlgebra h []).take n) ≤ k ∧ k ≤ appended ((opsOf maniAlgebra h []).take n)
        ∧ openBytes crc (fileBytes crc (crashB fs).mani.durable) = some (replay maniAlgebra ((eventEdits evs).take k)))
    ∧ (∃ k, acked ((opsOf maniAlgebra h []).take n) ≤ k ∧ k ≤ appended ((opsOf maniAlgebra h []).take n)
        ∧ openBytes crc (fileBytes crc (crashA fs).mani.durable) = some (replay maniAlgebra ((eventEdits evs).take k))) :=
  Blue.Mani.scheduled_open_after_history crc ratio hcrc evs h hs hok n

/-- **chain, for the scheduled history**: crash-free, and across a crash at any call and the reopen -/
theorem scheduled_chain (crc : List Nat → Nat) (ratio : Nat) (evs : List Event) (h : List (Client Edit))
    (hs : schedule crc ratio evs [] [] = some h) (n : Nat) :
    chainOk (fragments (run emptyFs (opsOf maniAlgebra h []))) = true
    ∧ (let fs := run emptyFs ((opsOf maniAlgebra h []).take n)
       chainOk (fragments (run (crashA fs) (reopenOps maniAlgebra (crashA fs)))) = true
       ∧ chainOk (fragments (run (crashB fs) (reopenOps maniAlgebra (crashB fs)))) = true) :=
  Blue.Mani.scheduled_chain crc ratio evs h hs n

/-- **the rule** (`on_disk_bytes > log_rollover_ratio * in_memory_bytes && !was_empty`, where MANIFEST
    held `m` before the write and `s` are the edits applied before `e`):
    (1) `_apply` does not roll over iff MANIFEST with `e` written is at most `ratio` times
        `Manifest::size` of the state after `e`, or the state before `e` held no strings;
    (2) ratio 0: it rolls over after every edit applied to a state that holds a string, and only then;
    (3) an edit applied to a state without strings never rolls over, whatever the ratio;
    (4) antitone in the ratio, call by call;  (5) monotone in the length of MANIFEST -/
theorem rollover_rule (crc : List Nat → Nat) (ratio : Nat) (m s : List Edit) (e : Edit) :
    (rollsOver crc ratio m s e = false ↔
      (fileBytes crc (m ++ [e])).length ≤ ratio * (replay maniAlgebra (s ++ [e])).size
      ∨ (replay maniAlgebra s).strs = [])
    ∧ rollsOver crc 0 m s e = !(replay maniAlgebra s).strs.isEmpty
    ∧ ((replay maniAlgebra s).strs = [] → rollsOver crc ratio m s e = false)
    ∧ (∀ r', ratio ≤ r' → rollsOver crc r' m s e = true → rollsOver crc ratio m s e = true)
    ∧ (∀ m', (fileBytes crc m).length ≤ (fileBytes crc m').length →
        rollsOver crc ratio m s e = true → rollsOver crc ratio m' s e = true) :=
  ⟨rollsOver_false_iff crc ratio m s e, rollsOver_ratio_zero crc m s e, rollsOver_was_empty crc ratio m s e,
   fun r' hr h => rollsOver_antitone crc ratio r' hr m s e h,
   fun m' hm h => rollsOver_mono_file crc ratio m m' s e hm h⟩

/-- **the bound the rule enforces, at every call of the scheduled history** (`g`: the file system
    before the call, `s`: the edits applied before it).  An `apply` that does not roll over leaves
    MANIFEST = what it held + the edit, synced, of at most `ratio · Manifest::size(state)` bytes —
    unless the state before the edit held no strings.  An `apply` that rolls over, and an explicit
    rollover, leave MANIFEST holding exactly ONE edit, the roll-up of the state, synced (a size that
    does not depend on the ratio); the former happens only when the bound was exceeded.  So between
    two rollovers MANIFEST is never longer, at a return of `apply`, than
    `max (ratio · size) (bytes of the roll-up + edits applied while the state had no strings)`. -/
theorem scheduled_size_bound (crc : List Nat → Nat) (ratio : Nat) (evs : List Event) (h pre post : List (Client Edit))
    (c : Client Edit) (hs : schedule crc ratio evs [] [] = some h) (hsplit : h = pre ++ c :: post) :
    let g := run emptyFs (opsOf maniAlgebra pre [])
    let s := editsOf pre
    let g' := run g (block maniAlgebra s c)
    match c with
    | .edit e =>
      g'.mani = ⟨onDisk g ++ [e], []⟩
      ∧ ((fileBytes crc (onDisk g')).length ≤ ratio * (replay maniAlgebra (s ++ [e])).size
         ∨ (replay maniAlgebra s).strs = [])
    | .editRoll e =>
      g'.mani = ⟨[maniAlgebra.rollup (replay maniAlgebra (s ++ [e]))], []⟩
      ∧ ratio * (replay maniAlgebra (s ++ [e])).size < (fileBytes crc (onDisk g ++ [e])).length
      ∧ (replay maniAlgebra s).strs ≠ []
    | .rollover => g'.mani = ⟨[maniAlgebra.rollup (replay maniAlgebra s)], []⟩ :=
  Blue.Mani.scheduled_size_bound crc ratio evs h pre post c hs hsplit

/-- ratio 0, whole histories: an `apply` that did not roll over was applied to a state without strings -/
theorem ratio_zero_edit_was_empty (crc : List Nat → Nat) (pre post : List (Client Edit)) (e : Edit) (fs : Fs Edit)
    (sofar : List Edit) (h : FollowsRule crc 0 (pre ++ .edit e :: post) fs sofar) :
    (replay maniAlgebra (sofar ++ editsOf pre)).strs = [] :=
  Blue.Mani.ratio_zero_edit_was_empty crc pre post e fs sofar h

/-- the shape of a call: 0 = `apply`, 1 = rollover, 2 = `apply` that rolls over -/
def callShape : Client Edit → Nat
  | .edit _ => 0
  | .rollover => 1
  | .editRoll _ => 2

/-- non-vacuity, and the rule at work (checksum `crc0`; an edit adding one 1-byte string is 20 bytes:
    `xxxxxxxx+a\n--------\n`).  Add `a`, add `b`, remove `a`, reopen, add `a`:
    ratio 20: 20 B (state was empty), 40 ≤ 20·2, then 60 > 20·1: the removal rolls over; the reopen
    rolls over; 40 > 20·2 is false: no rollover.  Ratio 2 (the default) and ratio 0: every `apply` after
    the first rolls over.  Ratio 100: only the reopen does. -/
example :
    (schedule crc0 20 [.edit e1, .edit e2, .edit ⟨[[97]], [], []⟩, .reopen, .edit e1] [] []).map (·.map callShape)
      = some [0, 0, 2, 1, 0]
    ∧ (schedule crc0 2 [.edit e1, .edit e2, .edit ⟨[[97]], [], []⟩, .reopen, .edit e1] [] []).map (·.map callShape)
      = some [0, 2, 2, 1, 2]
    ∧ (schedule crc0 0 [.edit e1, .edit e2, .edit ⟨[[97]], [], []⟩, .reopen, .edit e1] [] []).map (·.map callShape)
      = some [0, 2, 2, 1, 2]
    ∧ (schedule crc0 100 [.edit e1, .edit e2, .edit ⟨[[97]], [], []⟩, .reopen, .edit e1] [] []).map (·.map callShape)
      = some [0, 0, 0, 1, 0]
    ∧ schedule crc0 2 [.reopen, .rollover] [] [] = none
    ∧ (fileBytes crc0 [e1, e2]).length = 40 ∧ (replay maniAlgebra [e1, e2]).size = 2
    ∧ (fileBytes crc0 [e1, e2, ⟨[[97]], [], []⟩]).length = 60 ∧ (replay maniAlgebra [e1, e2, ⟨[[97]], [], []⟩]).size = 1 := by
  decide
/-- … and the hypotheses of the `scheduled_*` theorems are met by that program: it is one, its edits are `Ok` -/
example : Program [.edit e1, .edit e2, .edit ⟨[[97]], [], []⟩, .reopen, .edit e1] = true
    ∧ ∀ e ∈ eventEdits [.edit e1, .edit e2, .edit ⟨[[97]], [], []⟩, .reopen, .edit e1], e.Ok := by
  refine ⟨rfl, ?_⟩
  intro e he
  have hrm : (⟨[[97]], [], []⟩ : Edit).Ok := Built.ok (.rm (s := [97]) .empty rfl)
  have h1 : e1.Ok := Built.ok (.add (s := [97]) .empty rfl)
  have h2 : e2.Ok := Built.ok (.add (s := [98]) .empty rfl)
  simp only [eventEdits, List.mem_cons, List.not_mem_nil, or_false] at he
  rcases he with rfl | rfl | rfl | rfl
  · exact h1
  · exact h2
  · exact hrm
  · exact h1
-- END ManiSchedule

end Blue.Props.C13

#print axioms Blue.Props.C13.constants_from_source
#print axioms Blue.Props.C13.crc32c_is_crc
#print axioms Blue.Props.C13.replay_roundtrip
#print axioms Blue.Props.C13.api_enforces_hypothesis
#print axioms Blue.Props.C13.replay_roundtrip_api
#print axioms Blue.Props.C13.torn_manifest
#print axioms Blue.Props.C13.maniAlgebra_lawful
#print axioms Blue.Props.C13.crash_recover
#print axioms Blue.Props.C13.mani_crash_recover
#print axioms Blue.Props.C13.chain_crash_free
#print axioms Blue.Props.C13.chain_after_crash_and_reopen
#print axioms Blue.Props.C13.readEdits_fuel
#print axioms Blue.Props.C13.open_reads_what_was_written
#print axioms Blue.Props.C13.open_torn
#print axioms Blue.Props.C13.open_after_history
#print axioms Blue.Props.C13.inv_after_reopen
#print axioms Blue.Props.C13.reopen_prefix_safe
#print axioms Blue.Props.C13.incarnation_ok
#print axioms Blue.Props.C13.incarnations_ok
#print axioms Blue.Props.C13.incsOk_means
#print axioms Blue.Props.C13.first_incarnation_image
#print axioms Blue.Props.C13.open_after_incarnations
#print axioms Blue.Props.C13.chain_incarnations
#print axioms Blue.Props.C13.as_is_info_plus_minus_misread
#print axioms Blue.Props.C13.as_is_unreadable_strings
#print axioms Blue.Props.C13.repaired_api_refuses
#print axioms Blue.Props.C13.as_is_crash_in_rollover_breaks_chain
#print axioms Blue.Props.C13.mutant_rename_before_sync_loses
#print axioms Blue.Props.C13.open_reads_under_lock_from_source
#print axioms Blue.Props.C13.open_reads_under_lock
#print axioms Blue.Props.C13.stale_open_state
#print axioms Blue.Props.C13.stale_open_loses_edits
#print axioms Blue.Props.C13.schedule_is_a_history
#print axioms Blue.Props.C13.schedule_follows_rule
#print axioms Blue.Props.C13.followsRule_means
#print axioms Blue.Props.C13.schedule_total
#print axioms Blue.Props.C13.scheduled_crash_recover
#print axioms Blue.Props.C13.scheduled_open_after_history
#print axioms Blue.Props.C13.scheduled_chain
#print axioms Blue.Props.C13.rollover_rule
#print axioms Blue.Props.C13.scheduled_size_bound
#print axioms Blue.Props.C13.ratio_zero_edit_was_empty
