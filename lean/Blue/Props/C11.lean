import Blue.Proofs.MergingMain
import Blue.Proofs.MergingLink
import Blue.Proofs.MergingOver
import Blue.Proofs.MergingDupMain
import Blue.Proofs.Conserve
import Blue.Proofs.ConcatMain
import Blue.Proofs.ConcatLink
import Blue.Proofs.BoundsMain
import Blue.Proofs.BoundsLink
import Blue.Proofs.PruningMain
import Blue.Proofs.PruningSubst
import Blue.Proofs.Lazy
import Blue.Proofs.LazyC
import Blue.Proofs.AsIs
import Blue.Proofs.SpecOrder
import Blue.Proofs.SpecBounds
import Blue.Proofs.ScanSpec
import Blue.Proofs.SeekKey
import Blue.Proofs.FamilyExists
/-! # Property C11 — merging, concatenating, pruning, bounds and lazy cursors equal their definitions

Property theorems only (the proofs live in `Blue/Proofs/{Merging*,Concat*,Bounds*,Pruning*,Lazy*,
AsIs,SpecOrder,SpecBounds}.lean`).  The models (`Blue/Model/{Cursor,Heap,Concat,Bounds,Pruning,
Lazy}.lean`) mirror `sst/src/{merging,concat,bounds,pruning,lazy}_cursor.rs` operation by
operation over reference child cursors; `Blue/Model/*C.lean` are the same combinators generic in
the child (`C : Cur E`, as the Rust types are generic in `C: Cursor`).

For each combinator there is
* a **refinement** theorem: for *every finite program* of `seek_to_first / seek_to_last / seek /
  next / prev` (type `List (Op E)`, so every interleaving and every reversal at every position)
  the combinator shows, after each call, what ONE reference cursor over the specified list shows;
* a **substitution** theorem (`*_subst`): children with the same behaviour give combinators with
  the same behaviour, and its corollary (`*_over`): the refinement holds over *any* children that
  behave like tables (SST cursors, lazy cursors, other combinators), not only reference cursors.

`Concat.next`, `Concat.seek`, `Bounds.prev` are the operations after the repairs of D-2, D-18,
D-19 (`/repo fix f073faf`, `/repo fix c049384`, `/repo fix 2b6676c`);
the operations as they were are `Concat.nextOld`, `Concat.seekOld`, `Bounds.prevOld`
(`Blue/Model/AsIs.lean`), with the three counterexample theorems at the end.  The correspondence
harness runs whichever variant the code under test exhibits on the three minimal inputs.

Seek predicates: `seek(k)` is modelled as `Ref.seek pred` with `pred e = (key e ≥ k)`; the theorems
ask of `pred` only that it switches once from false to true along the list in question
(hypotheses `Mono` / `PredMono` / `MonoAlong` / `SeekPred`), which "key ≥ k" does on any key-sorted
list: `seek_key_mono`, `seek_key_predMono`, `seek_key_monoAlong`, `seek_key_seekPred` below.
`Concat.seek` models the binary search over the children by its *probes' answers* (the last entry of
a child satisfies the predicate or not) — the probes' side effects on the children (the real code
leaves each probed child at its last entry: `seek_to_last; prev`) are not in the model, so
"operation by operation" is, for this one operation, "result by result"; the child finally chosen is
re-sought, and every later operation repositions the child it moves to.

The merging theorems are stated over an owner-tagged merged list `M` (`Family` / `FamilyW`); that
every family of strictly sorted children HAS such an `M` is `exists_familyW` / `exists_family`, and
`merging_refines_tables` / `merging_over_tables` are the refinement theorems with no `M` in the
statement. -/
namespace Blue.Props.C11
open Blue.Cursor Blue.Cursor.Filtered

/-! ## merging -/

/-- **Merging cursor = one cursor over the sorted union.**
    HYPOTHESIS (`Family`): the merged list `M` (entries tagged with the child that owns them) is
    strictly sorted, i.e. the children are sorted and **pairwise distinct in (key, timestamp)**.
    The same entry in several children is `merging_refines_dups` below.  What stays outside every
    theorem is the *malformed* case in which two children hold the same (key, ts) with DIFFERENT
    payloads: then the comparator is not a strict total order on entries (two different entries,
    neither less than the other), and which child's value is shown depends on the heap's
    tie-breaking and can differ between the forward and the backward pass; the harness explores
    that region in its own streams (`mergedup`, `stackmal`), comparing the implementation with the
    model exactly and recording which child wins. -/
theorem merging_refines {E : Type} {lt : E → E → Bool} {M : List (E × Nat)} {k : Nat}
    (st : StrictTotal lt) (fam : Family lt M k) (cs : List (Ref E))
    (hcs : (cs.map (·.xs)).Perm ((List.range k).map (childList M)))
    (ops : List (Op E)) (hops : ∀ pred, Op.seek pred ∈ ops → Mono lt pred) :
    (Merging.new lt cs).kv = (Ref.mk (M.map (·.1)) 0).kv ∧
    Merging.run lt (Merging.new lt cs) ops = Ref.run ⟨M.map (·.1), 0⟩ ops :=
  Blue.Cursor.merging_refines st fam cs hcs ops hops

theorem merging_subst {E : Type} (lt : E → E → Bool) {A : (E → Bool) → Prop} {C D : Cur E}
    (cs : List C.σ) (ds : List D.σ) (h : cs.map (behA A C) = ds.map (behA A D)) (fwd : Bool) :
    BehEq A (MergingC.cur C lt) ⟨fwd, cs⟩ (MergingC.cur D lt) ⟨fwd, ds⟩ :=
  Blue.Cursor.merging_subst lt cs ds h fwd

theorem merging_over {E : Type} (lt : E → E → Bool) (st : StrictTotal lt) {M : List (E × Nat)} {k : Nat}
    (fam : Family lt M k) {A : (E → Bool) → Prop} (hA : ∀ p, A p → Mono lt p)
    {C : Cur E} (cs : List C.σ) (rs : List (Ref E))
    (hkids : (rs.map (·.xs)).Perm ((List.range k).map (childList M)))
    (hbeh : cs.map (behA A C) = rs.map (behA A (RefCur E))) :
    BehEq A (MergingC.cur C lt) (MergingC.new C lt cs) (RefCur E) ⟨M.map (·.1), 0⟩ :=
  Blue.Cursor.merging_over lt st fam hA cs rs hkids hbeh

/-- **Merging cursor over children that may hold the SAME entry** (the window of a flush, where the
    flushed memtable is visible both as the immutable memtable and as its file; identical files).
    HYPOTHESIS (`FamilyW`): every one of the `k` children is strictly sorted, and `M` is their
    merge with multiplicity, weakly sorted (equal entries adjacent), tagged with owners; which of
    the equal entries is attributed to which child is immaterial (any attribution will do).  Under
    a strict total order two entries neither of which is less than the other are equal
    (`StrictTotal.eq_of_not_lt`), so this is exactly "duplicates are identical entries".
    For every finite program the cursor shows after every call what ONE reference cursor over the
    merge with multiplicity shows: a duplicated entry is shown once per child that holds it, in a
    row, in both directions. -/
theorem merging_refines_dups {E : Type} {lt : E → E → Bool} {M : List (E × Nat)} {k : Nat}
    (st : StrictTotal lt) (fam : FamilyW lt M k) (cs : List (Ref E))
    (hcs : (cs.map (·.xs)).Perm ((List.range k).map (childList M)))
    (ops : List (Op E)) (hops : ∀ pred, Op.seek pred ∈ ops → Mono lt pred) :
    (Merging.new lt cs).kv = (Ref.mk (M.map (·.1)) 0).kv ∧
    Merging.run lt (Merging.new lt cs) ops = Ref.run ⟨M.map (·.1), 0⟩ ops :=
  Blue.Cursor.merging_refines_dups st fam cs hcs ops hops

theorem merging_over_dups {E : Type} (lt : E → E → Bool) (st : StrictTotal lt) {M : List (E × Nat)} {k : Nat}
    (fam : FamilyW lt M k) {A : (E → Bool) → Prop} (hA : ∀ p, A p → Mono lt p)
    {C : Cur E} (cs : List C.σ) (rs : List (Ref E))
    (hkids : (rs.map (·.xs)).Perm ((List.range k).map (childList M)))
    (hbeh : cs.map (behA A C) = rs.map (behA A (RefCur E))) :
    BehEq A (MergingC.cur C lt) (MergingC.new C lt cs) (RefCur E) ⟨M.map (·.1), 0⟩ :=
  Blue.Cursor.merging_over_dups lt st fam hA cs rs hkids hbeh

/-- the list of `merging_refines_dups` is the children's entries *with multiplicity* -/
theorem merged_with_multiplicity {E : Type} {lt : E → E → Bool} {M : List (E × Nat)} {k : Nat}
    (fam : FamilyW lt M k) : (((List.range k).map (childList M)).flatten).Perm (M.map (·.1)) :=
  Blue.Cursor.children_perm_merged k M fam.owner

/-- the duplicate-free case is a special case -/
theorem family_is_familyW {E : Type} {lt : E → E → Bool} {M : List (E × Nat)} {k : Nat}
    (st : StrictTotal lt) (fam : Family lt M k) : FamilyW lt M k := fam.toW st

/-- **every family has its merged list**: for ANY strictly sorted tables (the same entry may be in
    several) there is an owner-tagged `M` with `FamilyW lt M k` whose children are exactly the tables
    — so the hypotheses `fam`, `hcs` of `merging_refines_dups` / `merging_over_dups` can always be met -/
theorem exists_familyW {E : Type} {lt : E → E → Bool} (st : StrictTotal lt) (tables : List (List E))
    (hs : ∀ t ∈ tables, t.Pairwise (fun a b => lt a b = true)) :
    ∃ M, FamilyW lt M tables.length ∧ (List.range tables.length).map (childList M) = tables :=
  Blue.Cursor.exists_familyW st tables hs

/-- … and with `Family` when no entry is in two tables -/
theorem exists_family {E : Type} {lt : E → E → Bool} (st : StrictTotal lt) (tables : List (List E))
    (hs : ∀ t ∈ tables, t.Pairwise (fun a b => lt a b = true)) (hnd : tables.flatten.Nodup) :
    ∃ M, Family lt M tables.length ∧ (List.range tables.length).map (childList M) = tables :=
  Blue.Cursor.exists_family st tables hs hnd

/-- **merging cursor = one cursor over the sorted union — no `M` in the statement.**  For ANY
    strictly sorted children and every finite program (seek predicates upward closed), the merging
    cursor shows what ONE reference cursor over `mergedList lt tables` shows; that list is a weakly
    sorted permutation of the children's entries (next theorem). -/
theorem merging_refines_tables {E : Type} {lt : E → E → Bool} (st : StrictTotal lt) (cs : List (Ref E))
    (hs : ∀ c ∈ cs, c.xs.Pairwise (fun a b => lt a b = true))
    (ops : List (Op E)) (hops : ∀ pred, Op.seek pred ∈ ops → Mono lt pred) :
    (Merging.new lt cs).kv = (Ref.mk (mergedList lt (cs.map (·.xs))) 0).kv ∧
    Merging.run lt (Merging.new lt cs) ops = Ref.run ⟨mergedList lt (cs.map (·.xs)), 0⟩ ops :=
  Blue.Cursor.merging_refines_tables st cs hs ops hops

/-- `mergedList` IS the sorted union with multiplicity: a permutation of the children's entries in
    which no entry precedes a smaller one -/
theorem mergedList_is_sorted_union {E : Type} {lt : E → E → Bool} (st : StrictTotal lt) (tables : List (List E)) :
    (mergedList lt tables).Perm tables.flatten
      ∧ (mergedList lt tables).Pairwise (fun a b => lt b a = false) :=
  ⟨mergedList_perm lt tables, mergedList_sortedW st tables⟩

/-- the same over any children that behave as strictly sorted tables -/
theorem merging_over_tables {E : Type} {lt : E → E → Bool} (st : StrictTotal lt) {A : (E → Bool) → Prop}
    (hA : ∀ p, A p → Mono lt p) {C : Cur E} (cs : List C.σ) (rs : List (Ref E))
    (hs : ∀ r ∈ rs, r.xs.Pairwise (fun a b => lt a b = true))
    (hbeh : cs.map (behA A C) = rs.map (behA A (RefCur E))) :
    BehEq A (MergingC.cur C lt) (MergingC.new C lt cs) (RefCur E) ⟨mergedList lt (rs.map (·.xs)), 0⟩ :=
  Blue.Cursor.merging_over_tables st hA cs rs hs hbeh

/-! ## the seek predicate of `seek(key)` meets the four hypotheses -/

/-- merging (`Mono`): "key ≥ k" is upward closed in the entry order (key ↑, timestamp ↓) -/
theorem seek_key_mono {K : Type} [DecidableEq K] {klt : K → K → Bool} (st : StrictTotal klt) (k : K) :
    Mono (Blue.Spec.vlt klt) (Blue.Spec.geKey klt k) := Blue.Spec.geKey_mono st k

/-- concat (`PredMono`): … switches once along the concatenation of children in key order -/
theorem seek_key_predMono {K : Type} [DecidableEq K] {klt : K → K → Bool} (st : StrictTotal klt) (k : K)
    (L : List (List (Blue.Spec.Ver K))) (hm : Blue.Spec.KeysMono klt L.flatten) :
    PredMono L (Blue.Spec.geKey klt k) := Blue.Spec.geKey_predMono st k L hm

/-- bounds (`MonoAlong`): … switches once along any table whose keys never decrease -/
theorem seek_key_monoAlong {K : Type} [DecidableEq K] {klt : K → K → Bool} (st : StrictTotal klt) (k : K)
    (xs : List (Blue.Spec.Ver K)) (hm : Blue.Spec.KeysMono klt xs) :
    MonoAlong xs (Blue.Spec.geKey klt k) := Blue.Spec.geKey_monoAlong st k xs hm

/-- pruning (`SeekPred`): … depends on the key only and switches once -/
theorem seek_key_seekPred {K : Type} [DecidableEq K] {klt : K → K → Bool} (st : StrictTotal klt) (k : K)
    (t : Nat) (tomb : Blue.Spec.Ver K → Bool) (xs : List (Blue.Spec.Ver K)) (hm : Blue.Spec.KeysMono klt xs) :
    SeekPred (Blue.Spec.pcfg t tomb) xs (Blue.Spec.geKey klt k) := Blue.Spec.geKey_seekPred st k t tomb xs hm

/-! ## concatenation -/

/-- **Concatenating cursor = one cursor over the concatenation**, for any non-empty vector of
    children (empty children, tombstones and a key whose versions are split across adjacent
    children included).  The only hypothesis is on the seek predicates: along the concatenation
    they switch once (true of "key ≥ k" when the children are in key order). -/
theorem concat_refines {E : Type} (cs : List (Ref E)) (hne : 0 < cs.length) (ops : List (Op E))
    (hops : ∀ pred, Op.seek pred ∈ ops → PredMono (cs.map (·.xs)) pred) :
    Concat.run (Concat.new cs) ops = Ref.run ⟨(cs.map (·.xs)).flatten, 0⟩ ops :=
  Blue.Cursor.concat_refines cs hne ops hops

theorem concat_subst {E : Type} {A : (E → Bool) → Prop} {C D : Cur E} (cs : List C.σ) (ds : List D.σ)
    (h : cs.map (behA A C) = ds.map (behA A D)) (position : Nat) :
    BehEq A (ConcatC.cur C) ⟨cs, position⟩ (ConcatC.cur D) ⟨ds, position⟩ :=
  Blue.Cursor.concat_subst cs ds h position

theorem concat_over {E : Type} {A : (E → Bool) → Prop} {C : Cur E} (cs : List C.σ) (rs : List (Ref E))
    (hne : 0 < rs.length) (hA : ∀ pred, A pred → PredMono (rs.map (·.xs)) pred)
    (hbeh : cs.map (behA A C) = rs.map (behA A (RefCur E))) :
    BehEq A (ConcatC.cur C) (ConcatC.new C cs) (RefCur E) ⟨(rs.map (·.xs)).flatten, 0⟩ :=
  Blue.Cursor.concat_over cs rs hne hA hbeh

/-! ## bounds -/

/-- **Bounds cursor = one cursor over the window.**  `BoundsOk cfg xs lo hi` says the four key
    tests of the bounds cursor cut the child list into below-start `[0, lo)`, in-range `[lo, hi)`,
    above-end `[hi, n)`; `bounds_hypothesis_of_sorted` shows every key-sorted table and every pair
    of bounds (all nine kinds, inverted and empty intervals included) satisfies it, and
    `bounds_window_is_interval` that the window is then exactly the entries whose key lies in the
    interval (`inRange`: explicit key comparisons, independent of the cursor model; bridge
    `in_range_is_bounds_cursor_tests`).  `BRel` is the simulation relation; `BRel.before 0` is the
    state `new` STARTS from (child at position 0, `BeforeStart`) — `new` then performs a
    `seek_to_first`; the state it leaves is related to position 0 by `bounds_new_related`, and
    `bounds_refines_new` is the theorem started there. -/
theorem bounds_refines {E : Type} (cfg : BoundsCfg E) (xs : List E) {lo hi : Nat}
    (ok : BoundsOk cfg xs lo hi) (n : Nat) (hn : xs.length + 2 ≤ n)
    (ops : List (Op E)) (b : Bounds E) (pos : Nat) (h : BRel xs lo hi b pos)
    (hops : ∀ pred, Op.seek pred ∈ ops → MonoAlong xs pred) :
    Bounds.run cfg n b ops = Ref.run ⟨window xs lo hi, pos⟩ ops :=
  Blue.Cursor.bounds_refines cfg xs ok n hn ops b pos h hops

/-- the state `BoundsCursor::new` leaves is related to window position 0 -/
theorem bounds_new_related {E : Type} (cfg : BoundsCfg E) (xs : List E) {lo hi : Nat}
    (ok : BoundsOk cfg xs lo hi) : BRel xs lo hi (Bounds.new cfg ⟨xs, 0⟩) 0 :=
  Blue.Cursor.brel_new cfg xs ok

/-- `bounds_refines` for the cursor as constructed by `BoundsCursor::new` -/
theorem bounds_refines_new {E : Type} (cfg : BoundsCfg E) (xs : List E) {lo hi : Nat}
    (ok : BoundsOk cfg xs lo hi) (n : Nat) (hn : xs.length + 2 ≤ n)
    (ops : List (Op E)) (hops : ∀ pred, Op.seek pred ∈ ops → MonoAlong xs pred) :
    Bounds.run cfg n (Bounds.new cfg ⟨xs, 0⟩) ops = Ref.run ⟨window xs lo hi, 0⟩ ops :=
  Blue.Cursor.bounds_refines_new cfg xs ok n hn ops hops

theorem bounds_subst {E : Type} (cfg : BoundsCfg E) (n : Nat) {A : (E → Bool) → Prop}
    (hs : A cfg.geStart) (he : A cfg.geEnd) {C D : Cur E} {c : C.σ} {d : D.σ}
    (h : BehEq A C c D d) (st : BState) :
    BehEq A (BoundsC.cur C cfg n) ⟨c, st⟩ (BoundsC.cur D cfg n) ⟨d, st⟩ :=
  Blue.Cursor.bounds_subst cfg n hs he h st

theorem bounds_over {E : Type} (cfg : BoundsCfg E) (n : Nat) (xs : List E) {lo hi : Nat}
    (ok : BoundsOk cfg xs lo hi) (hn : xs.length + 2 ≤ n)
    {A : (E → Bool) → Prop} (hA : ∀ pred, A pred → MonoAlong xs pred)
    (hs : A cfg.geStart) (he : A cfg.geEnd)
    {C : Cur E} {c : C.σ} {q : Nat} (hc : BehEq A C c (RefCur E) ⟨xs, q⟩)
    (st : BState) (pos : Nat) (hrel : BRel xs lo hi ⟨⟨xs, q⟩, st⟩ pos) :
    BehEq A (BoundsC.cur C cfg n) ⟨c, st⟩ (RefCur E) ⟨window xs lo hi, pos⟩ :=
  Blue.Cursor.bounds_over cfg n xs ok hn hA hs he hc st pos hrel

/-- the hypothesis of `bounds_refines` holds for every table whose keys never decrease, and every
    pair of bounds -/
theorem bounds_hypothesis_of_sorted {K : Type} [DecidableEq K] {klt : K → K → Bool} (st : StrictTotal klt)
    (sb eb : Blue.Spec.Bound K) (xs : List (Blue.Spec.Ver K)) (hm : Blue.Spec.KeysMono klt xs) :
    BoundsOk (Blue.Spec.bcfg klt sb eb) xs
      (xs.findIdx (fun e => !(Blue.Spec.bcfg klt sb eb).belowStart e))
      (xs.findIdx (Blue.Spec.bcfg klt sb eb).aboveEnd) :=
  Blue.Spec.boundsOk_of_keysMono st sb eb xs hm

/-- and the window is "the underlying table restricted to the interval" -/
theorem bounds_window_is_interval {K : Type} [DecidableEq K] {klt : K → K → Bool} (st : StrictTotal klt)
    (sb eb : Blue.Spec.Bound K) (xs : List (Blue.Spec.Ver K)) (hm : Blue.Spec.KeysMono klt xs) :
    window xs (xs.findIdx (fun e => !(Blue.Spec.bcfg klt sb eb).belowStart e))
        (xs.findIdx (Blue.Spec.bcfg klt sb eb).aboveEnd)
      = xs.filter (Blue.Spec.inRange klt sb eb) :=
  Blue.Spec.window_eq_range st sb eb xs hm

/-- the interval predicate is a specification by explicit key comparisons (`start ≤ key ≤ end`
    with each bound's strictness; `a ≤ b` is `klt b a = false`) … -/
theorem in_range_is_the_interval {K : Type} (klt : K → K → Bool) (sb eb : Blue.Spec.Bound K) (e : Blue.Spec.Ver K) :
    Blue.Spec.inRange klt sb eb e = true ↔
      (match sb with | .unbounded => True | .included k => klt e.1 k = false | .excluded k => klt k e.1 = true) ∧
      (match eb with | .unbounded => True | .included k => klt k e.1 = false | .excluded k => klt e.1 k = true) :=
  Blue.Spec.inRange_iff klt sb eb e

/-- … and the bridge to the two key tests the bounds-cursor model performs -/
theorem in_range_is_bounds_cursor_tests {K : Type} [DecidableEq K] (klt : K → K → Bool)
    (sb eb : Blue.Spec.Bound K) (e : Blue.Spec.Ver K) :
    Blue.Spec.inRange klt sb eb e
      = (!(Blue.Spec.bcfg klt sb eb).belowStart e && !(Blue.Spec.bcfg klt sb eb).aboveEnd e) :=
  Blue.Spec.inRange_eq_cfg klt sb eb e

/-! ## pruning -/

/-- **Pruning cursor = one cursor over the pruned list**, and it never takes its
    `logic_error_prev_not_positioned` exit (`Pruning.run … = some …`).  `Grouped`: the child list is
    grouped by key and inside a key `ts ≤ t` switches once from false to true — what a table
    sorted by (key ↑, ts ↓) gives (`pruning_hypothesis_of_sorted`); `pruned` is then "per key the
    newest version not newer than `t`, unless it is a tombstone" (`pruned_is_newest_visible`). -/
theorem pruning_refines {E K : Type} [DecidableEq K] (cfg : PruneCfg E K) (xs : List E)
    (g : Grouped cfg xs) (n : Nat) (hn : xs.length + 2 ≤ n)
    (ops : List (Op E)) (p : Pruning E K) (pos : Nat) (h : PRel cfg xs p pos)
    (hops : ∀ pred, Op.seek pred ∈ ops → SeekPred cfg xs pred) :
    Pruning.run cfg n p ops = some (Ref.run ⟨pruned cfg xs, pos⟩ ops) :=
  Blue.Cursor.pruning_refines cfg xs g n hn ops p pos h hops

theorem pruning_subst {E K : Type} [DecidableEq K] (cfg : PruneCfg E K) (n : Nat) {A : (E → Bool) → Prop}
    {C D : Cur E} {c : C.σ} {d : D.σ} (h : BehEq A C c D d) (skip : Option K) (err : Bool) :
    BehEq A (PruningC.cur C cfg n) ⟨c, skip, err⟩ (PruningC.cur D cfg n) ⟨d, skip, err⟩ :=
  Blue.Cursor.pruning_subst cfg n h skip err

theorem pruning_over {E K : Type} [DecidableEq K] (cfg : PruneCfg E K) (n : Nat) {A : (E → Bool) → Prop}
    (xs : List E) (g : Grouped cfg xs) (hn : xs.length + 2 ≤ n)
    (hA : ∀ pred, A pred → SeekPred cfg xs pred)
    {C : Cur E} {c : C.σ} {q : Nat} (hc : BehEq A C c (RefCur E) ⟨xs, q⟩)
    (skip : Option K) (pos : Nat) (hrel : PRel cfg xs ⟨⟨xs, q⟩, skip⟩ pos) :
    BehEq A (PruningC.cur C cfg n) ⟨c, skip, false⟩ (RefCur E) ⟨pruned cfg xs, pos⟩ :=
  Blue.Cursor.pruning_over cfg n xs g hn hA hc skip pos hrel

theorem pruning_hypothesis_of_sorted {K : Type} [DecidableEq K] {klt : K → K → Bool} (st : StrictTotal klt)
    {M : List (Blue.Spec.Ver K)} (hs : Blue.Spec.Sorted klt M) (t : Nat) (tomb : Blue.Spec.Ver K → Bool) :
    Grouped (Blue.Spec.pcfg t tomb) M :=
  Blue.Spec.grouped_of_sorted st hs t tomb

theorem pruned_is_newest_visible {K : Type} [DecidableEq K] {klt : K → K → Bool} (st : StrictTotal klt)
    {M : List (Blue.Spec.Ver K)} (hs : Blue.Spec.Sorted klt M) (t : Nat) (tomb : Blue.Spec.Ver K → Bool) :
    pruned (Blue.Spec.pcfg t tomb) M = M.filter (Blue.Spec.isLive M t tomb) :=
  Blue.Spec.pruned_eq_live st hs t tomb

/-! ## lazy -/

/-- **Lazy cursor = the cursor it opens**, although it opens the table only when a call needs it
    and drops it whenever it runs off either end. -/
theorem lazy_refines {E : Type} (xs : List E) (ops : List (Op E)) (pos : LPos E) (p : Nat)
    (h : LRel xs pos p) : Lazy.run ⟨xs, pos⟩ ops = Ref.run ⟨xs, p⟩ ops :=
  Blue.Cursor.lazy_refines xs ops pos p h

theorem lazy_subst {E : Type} {A : (E → Bool) → Prop} {C D : Cur E} {c : C.σ} {d : D.σ}
    (h : BehEq A C c D d) : BehEq A (LazyC.cur C) ⟨c, .first⟩ (LazyC.cur D) ⟨d, .first⟩ :=
  Blue.Cursor.lazy_subst h

theorem lazy_over {E : Type} {A : (E → Bool) → Prop} (xs : List E) {C : Cur E} {c : C.σ}
    (hc : BehEq A C c (RefCur E) ⟨xs, 0⟩) :
    BehEq A (LazyC.cur C) ⟨c, .first⟩ (RefCur E) ⟨xs, 0⟩ :=
  Blue.Cursor.lazy_over xs hc

/-! ## the code as it was: the three defects as theorems about the unrepaired operations -/

/-- **D-19** `BoundsCursor::prev` without the end-bound re-check: window `[2, 3]` of `1..5`,
    `seek(5); prev` shows 4 (outside the bounds); the reference and the repaired `prev` show 3.
    On the code: `Included("2")..=Included("3")` over keys `1..5`, `seek("5"); prev` showed `4`. -/
theorem bounds_prevOld_counterexample :
    let b0 : Bounds Nat := Bounds.new cfg23 ⟨[1, 2, 3, 4, 5], 0⟩
    let b1 := Bounds.seek cfg23 7 (fun e => decide (e ≥ 5)) b0
    (Bounds.prevOld cfg23 b1).kv = some 4
      ∧ (Ref.prev (Ref.seek (fun e => decide (e ≥ 5)) ⟨[2, 3], 0⟩)).kv = some 3
      ∧ (Bounds.prev cfg23 7 b1).kv = some 3 :=
  Blue.Cursor.bounds_prevOld_counterexample

/-- **D-2** `ConcatenatingCursor::next` testing `value().is_none()`: children `[a, b=⊥, c] [d]`
    walked forward show `a, d`; the repaired `next` (testing `key()`) shows `a, b=⊥, …`. -/
theorem concat_nextOld_counterexample :
    let m0 : Concat (Nat × Bool) := Concat.new [⟨[(1, false), (2, true), (3, false)], 0⟩, ⟨[(4, false)], 0⟩]
    let m1 := Concat.nextOld tombOf m0
    let m2 := Concat.nextOld tombOf m1
    (m1.kv, m2.kv) = (some (1, false), some (4, false))
      ∧ ((Concat.next m0).kv, (Concat.next (Concat.next m0)).kv) = (some (1, false), some (2, true)) :=
  Blue.Cursor.concat_nextOld_counterexample

/-- **D-18** `ConcatenatingCursor::seek` breaking off its binary search at `mid == left`:
    children `[10] [20] [30]`, `seek(20)` positions at nothing; the completed search finds 20.
    On the code: children `[ab] [b] [ffff]`, `seek(b)` showed nothing. -/
theorem concat_seekOld_counterexample :
    let m0 : Concat Nat := Concat.new [⟨[10], 0⟩, ⟨[20], 0⟩, ⟨[30], 0⟩]
    (Concat.seekOld (fun e => decide (e ≥ 20)) m0).kv = none
      ∧ (Concat.seek (fun e => decide (e ≥ 20)) m0).kv = some 20 :=
  Blue.Cursor.concat_seekOld_counterexample

/-! ## non-vacuity: the hypotheses are met by concrete non-trivial inputs -/

def natLt (a b : Nat) : Bool := decide (a < b)

theorem natLt_strictTotal : StrictTotal natLt where
  irrefl := by intro a; simp [natLt]
  trans := by intro a b c; simp only [natLt, decide_eq_true_eq]; omega
  total := by intro a b h; simp only [natLt, decide_eq_true_eq]; omega

/-- three children `[1, 4] [2, 5] [3]` (one merged list, owner tags 0 1 2 0 1) -/
def demoM : List (Nat × Nat) := [(1, 0), (2, 1), (3, 2), (4, 0), (5, 1)]

theorem demo_family : Family natLt demoM 3 where
  sorted := by decide
  owner := by decide

/-- `merging_refines` applies to a program with a seek and reversals, and says something -/
example :
    Merging.run natLt (Merging.new natLt [⟨[1, 4], 0⟩, ⟨[2, 5], 0⟩, ⟨[3], 0⟩])
        [.next, .next, .prev, .seek (fun e => decide (e ≥ 4)), .prev, .next, .last, .prev]
      = [some 1, some 2, some 1, some 4, some 3, some 4, none, some 5] := by
  have h := (merging_refines natLt_strictTotal demo_family [⟨[1, 4], 0⟩, ⟨[2, 5], 0⟩, ⟨[3], 0⟩]
    (by decide) [.next, .next, .prev, .seek (fun e => decide (e ≥ 4)), .prev, .next, .last, .prev]
    (by
      intro pred hp
      simp only [List.mem_cons, List.not_mem_nil, or_false, reduceCtorEq, false_or, Op.seek.injEq] at hp
      subst hp
      intro a b hab ha
      simp only [natLt, decide_eq_true_eq] at *
      omega)).2
  rw [h]; decide

/-- three children `[1, 4] [1, 2, 4, 5] [4]`: the entry 1 is in two children, the entry 4 in all three
    (one weakly sorted merged list; any attribution of the equal entries to their holders will do) -/
def demoMW : List (Nat × Nat) := [(1, 0), (1, 1), (2, 1), (4, 0), (4, 1), (4, 2), (5, 1)]

theorem demo_familyW : FamilyW natLt demoMW 3 where
  sorted := by decide
  owner := by decide
  child := by
    intro j hj
    rcases j with _ | _ | _ | j
    · decide
    · decide
    · decide
    · omega

/-- `merging_refines_dups` applies to children with a copy in two and in three children, a program
    with a seek onto the triplicated entry and reversals inside the run of copies, and says
    something: the copies are shown one after the other, in both directions -/
example :
    Merging.run natLt (Merging.new natLt [⟨[1, 4], 0⟩, ⟨[1, 2, 4, 5], 0⟩, ⟨[4], 0⟩])
        [.next, .next, .next, .prev, .seek (fun e => decide (e ≥ 4)), .next, .prev, .prev, .next, .next, .next, .next,
          .last, .prev, .prev, .prev, .prev, .next]
      = [some 1, some 1, some 2, some 1, some 4, some 4, some 4, some 2, some 4, some 4, some 4, some 5,
          none, some 5, some 4, some 4, some 4, some 4] := by
  have h := (merging_refines_dups natLt_strictTotal demo_familyW [⟨[1, 4], 0⟩, ⟨[1, 2, 4, 5], 0⟩, ⟨[4], 0⟩]
    (by decide) [.next, .next, .next, .prev, .seek (fun e => decide (e ≥ 4)), .next, .prev, .prev, .next, .next, .next, .next,
          .last, .prev, .prev, .prev, .prev, .next]
    (by
      intro pred hp
      simp only [List.mem_cons, List.not_mem_nil, or_false, reduceCtorEq, false_or, Op.seek.injEq] at hp
      subst hp
      intro a b hab ha
      simp only [natLt, decide_eq_true_eq] at *
      omega)).2
  rw [h]; decide

/-- `concat_refines`: children `[1, 2] [] [4, 5]`, a seek into the third child and reversals -/
example :
    Concat.run (Concat.new [⟨[1, 2], 0⟩, ⟨[], 0⟩, ⟨[4, 5], 0⟩])
        [.seek (fun e => decide (e ≥ 4)), .prev, .next, .next, .next, .prev]
      = [some 4, some 2, some 4, some 5, none, some 5] := by
  have h := concat_refines [⟨[1, 2], 0⟩, ⟨[], 0⟩, ⟨[4, 5], 0⟩] (by decide)
    [.seek (fun e => decide (e ≥ 4)), .prev, .next, .next, .next, .prev]
    (by
      intro pred hp
      simp only [List.mem_cons, List.not_mem_nil, or_false, reduceCtorEq, false_or, Op.seek.injEq] at hp
      subst hp
      intro i j ei ej hij hi hj hpi
      have h1 : (i, ei) ∈ [(0, 1), (1, 2), (2, 4), (3, 5)] := by
        rcases i with _ | _ | _ | _ | i <;> simp_all
      have h2 : (j, ej) ∈ [(0, 1), (1, 2), (2, 4), (3, 5)] := by
        rcases j with _ | _ | _ | _ | j <;> simp_all
      simp only [List.mem_cons, Prod.mk.injEq, List.not_mem_nil, or_false] at h1 h2
      simp only [decide_eq_true_eq] at *
      omega)
  rw [h]; decide

/-- `BoundsOk` for every sorted table: a concrete one with an excluded start and an included end -/
example : ∃ lo hi, BoundsOk (Blue.Spec.bcfg natLt (.excluded 2) (.included 4))
    ([(1, 7), (2, 9), (2, 3), (3, 1), (4, 5), (4, 2), (6, 0)] : List (Blue.Spec.Ver Nat)) lo hi ∧ lo = 3 ∧ hi = 6 :=
  ⟨_, _, bounds_hypothesis_of_sorted natLt_strictTotal (.excluded 2) (.included 4) _
      (Blue.Spec.keysMono_of_sorted natLt_strictTotal (by unfold Blue.Spec.Sorted; decide)), by decide, by decide⟩

/-- the state `new` STARTS from (before its `seek_to_first`) is related to position 0 (`BRel`) -/
example (xs : List Nat) (lo hi : Nat) : BRel xs lo hi ⟨⟨xs, 0⟩, .beforeStart⟩ 0 :=
  BRel.before 0 (by omega) (by omega)

/-! end-to-end instances: all hypotheses of `bounds_refines(_new)` / `pruning_refines` jointly, on a
    seven-entry table with several versions per key, a program with a `seek(4)` and reversals -/

def tbl : List (Blue.Spec.Ver Nat) := [(1, 7), (2, 9), (2, 3), (3, 1), (4, 5), (4, 2), (6, 0)]
theorem tbl_sorted : Blue.Spec.Sorted natLt tbl := by unfold Blue.Spec.Sorted; decide
def prog : List (Op (Blue.Spec.Ver Nat)) :=
  [.next, .next, .prev, .seek (Blue.Spec.geKey natLt 4), .prev, .next, .next, .next, .prev, .last, .prev, .first, .next]

theorem prog_seeks (pred : Blue.Spec.Ver Nat → Bool) (hp : Op.seek pred ∈ prog) : pred = Blue.Spec.geKey natLt 4 := by
  simp only [prog, List.mem_cons, List.not_mem_nil, or_false, reduceCtorEq, false_or, Op.seek.injEq] at hp
  exact hp

/-- bounds `(2, 4]`: the cursor made by `new` runs as the reference cursor over the interval, which
    is `[3@1, 4@5, 4@2]` -/
example : Bounds.run (Blue.Spec.bcfg natLt (.excluded 2) (.included 4)) 9
      (Bounds.new (Blue.Spec.bcfg natLt (.excluded 2) (.included 4)) ⟨tbl, 0⟩) prog
    = Ref.run ⟨[(3, 1), (4, 5), (4, 2)], 0⟩ prog := by
  have km := Blue.Spec.keysMono_of_sorted natLt_strictTotal tbl_sorted
  have h := bounds_refines_new (Blue.Spec.bcfg natLt (.excluded 2) (.included 4)) tbl
    (bounds_hypothesis_of_sorted natLt_strictTotal (.excluded 2) (.included 4) tbl km) 9 (by decide) prog
    (by intro pred hp; rw [prog_seeks pred hp]; exact seek_key_monoAlong natLt_strictTotal 4 tbl km)
  rw [h, bounds_window_is_interval natLt_strictTotal (.excluded 2) (.included 4) tbl km]
  rfl

/-- pruning at `t = 4`, versions with timestamp 3 are tombstones: the cursor runs as the reference
    cursor over `[3@1, 4@2, 6@0]` (key 1 too new, key 2 deleted) and never takes its error exit -/
example : Pruning.run (Blue.Spec.pcfg 4 (fun e => e.2 == 3)) 9 (Pruning.new ⟨tbl, 0⟩) prog
    = some (Ref.run ⟨[(3, 1), (4, 2), (6, 0)], 0⟩ prog) := by
  have km := Blue.Spec.keysMono_of_sorted natLt_strictTotal tbl_sorted
  have h := pruning_refines (Blue.Spec.pcfg 4 (fun e => e.2 == 3)) tbl
    (pruning_hypothesis_of_sorted natLt_strictTotal tbl_sorted 4 _) 9 (by decide) prog
    (Pruning.new ⟨tbl, 0⟩) 0 (prel_new _ tbl ⟨tbl, 0⟩ rfl)
    (by intro pred hp; rw [prog_seeks pred hp]; exact seek_key_seekPred natLt_strictTotal 4 4 _ tbl km)
  rw [h, pruned_is_newest_visible natLt_strictTotal tbl_sorted]
  rfl

/-- `merging_over_dups` with children that are NOT reference cursors: lazy cursors (over reference
    cursors), the substitution hypothesis discharged by `lazy_over` -/
def lz (xs : List Nat) : (LazyC.cur (RefCur Nat)).σ := ⟨⟨xs, 0⟩, .first⟩
theorem lz_beh (xs : List Nat) :
    behA (Mono natLt) (LazyC.cur (RefCur Nat)) (lz xs) = behA (Mono natLt) (RefCur Nat) ⟨xs, 0⟩ :=
  behA_eq_of_behEq (lazy_over xs (fun _ _ => rfl))

example : BehEq (Mono natLt) (MergingC.cur (LazyC.cur (RefCur Nat)) natLt)
    (MergingC.new (LazyC.cur (RefCur Nat)) natLt [lz [1, 4], lz [1, 2, 4, 5], lz [4]])
    (RefCur Nat) ⟨demoMW.map (·.1), 0⟩ :=
  merging_over_dups natLt natLt_strictTotal demo_familyW (fun _ h => h)
    [lz [1, 4], lz [1, 2, 4, 5], lz [4]] [⟨[1, 4], 0⟩, ⟨[1, 2, 4, 5], 0⟩, ⟨[4], 0⟩] (by decide)
    (by show [_, _, _] = [_, _, _]; rw [lz_beh, lz_beh, lz_beh])

/-- `exists_familyW` / `merging_refines_tables` on the same children, no `M` supplied: the constructed
    merged list is the sorted union with multiplicity -/
example : mergedList natLt [[1, 4], [1, 2, 4, 5], [4]] = [1, 1, 2, 4, 4, 4, 5] := by
  simp [mergedList, mergedOf, tagFrom, leOf, natLt, List.mergeSort, List.MergeSort.Internal.splitInTwo, List.merge]

example (ops : List (Op Nat)) (hops : ∀ pred, Op.seek pred ∈ ops → Mono natLt pred) :
    Merging.run natLt (Merging.new natLt [⟨[1, 4], 0⟩, ⟨[1, 2, 4, 5], 0⟩, ⟨[4], 0⟩]) ops
      = Ref.run ⟨mergedList natLt [[1, 4], [1, 2, 4, 5], [4]], 0⟩ ops :=
  (merging_refines_tables natLt_strictTotal [⟨[1, 4], 0⟩, ⟨[1, 2, 4, 5], 0⟩, ⟨[4], 0⟩]
    (by decide) ops hops).2

/-- `Grouped` and `PRel` are met by a sorted table with several versions per key and tombstones -/
example : Grouped (Blue.Spec.pcfg 4 (fun e => e.2 == 3))
    ([(1, 7), (1, 2), (2, 9), (2, 3), (2, 1), (3, 4)] : List (Blue.Spec.Ver Nat)) :=
  pruning_hypothesis_of_sorted natLt_strictTotal (by unfold Blue.Spec.Sorted; decide) 4 _

example {E K : Type} [DecidableEq K] (cfg : PruneCfg E K) (xs : List E) :
    PRel cfg xs (Pruning.new ⟨xs, 0⟩) 0 := prel_new cfg xs ⟨xs, 0⟩ rfl

/-- `LRel` holds of the state `LazyCursor::new` leaves -/
example (xs : List Nat) : LRel xs .first 0 := LRel.first

end Blue.Props.C11

#print axioms Blue.Props.C11.merging_refines
#print axioms Blue.Props.C11.merging_subst
#print axioms Blue.Props.C11.merging_over
#print axioms Blue.Props.C11.merging_refines_dups
#print axioms Blue.Props.C11.merging_over_dups
#print axioms Blue.Props.C11.merged_with_multiplicity
#print axioms Blue.Props.C11.family_is_familyW
#print axioms Blue.Props.C11.exists_familyW
#print axioms Blue.Props.C11.exists_family
#print axioms Blue.Props.C11.merging_refines_tables
#print axioms Blue.Props.C11.mergedList_is_sorted_union
#print axioms Blue.Props.C11.merging_over_tables
#print axioms Blue.Props.C11.seek_key_mono
#print axioms Blue.Props.C11.seek_key_predMono
#print axioms Blue.Props.C11.seek_key_monoAlong
#print axioms Blue.Props.C11.seek_key_seekPred
#print axioms Blue.Props.C11.concat_refines
#print axioms Blue.Props.C11.concat_subst
#print axioms Blue.Props.C11.concat_over
#print axioms Blue.Props.C11.bounds_refines
#print axioms Blue.Props.C11.bounds_new_related
#print axioms Blue.Props.C11.bounds_refines_new
#print axioms Blue.Props.C11.in_range_is_the_interval
#print axioms Blue.Props.C11.in_range_is_bounds_cursor_tests
#print axioms Blue.Props.C11.bounds_subst
#print axioms Blue.Props.C11.bounds_over
#print axioms Blue.Props.C11.bounds_hypothesis_of_sorted
#print axioms Blue.Props.C11.bounds_window_is_interval
#print axioms Blue.Props.C11.pruning_refines
#print axioms Blue.Props.C11.pruning_subst
#print axioms Blue.Props.C11.pruning_over
#print axioms Blue.Props.C11.pruning_hypothesis_of_sorted
#print axioms Blue.Props.C11.pruned_is_newest_visible
#print axioms Blue.Props.C11.lazy_refines
#print axioms Blue.Props.C11.lazy_subst
#print axioms Blue.Props.C11.lazy_over
#print axioms Blue.Props.C11.bounds_prevOld_counterexample
#print axioms Blue.Props.C11.concat_nextOld_counterexample
#print axioms Blue.Props.C11.concat_seekOld_counterexample
