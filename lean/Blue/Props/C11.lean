import Blue.Proofs.MergingMain
import Blue.Proofs.MergingLink
import Blue.Proofs.MergingOver
import Blue.Proofs.MergingDupMain
import Blue.Proofs.Conserve
import Blue.Proofs.ConcatMain
import Blue.Proofs.ConcatLink
import Blue.Proofs.BoundsMain
import Blue.Proofs.BoundsLink
import Blue.Proofs.PruningMain
import Blue.Proofs.PruningSubst
import Blue.Proofs.Lazy
import Blue.Proofs.LazyC
import Blue.Proofs.AsIs
import Blue.Proofs.SpecOrder
import Blue.Proofs.SpecBounds
import Blue.Proofs.ScanSpec
import Blue.Proofs.SeekKey
import Blue.Proofs.FamilyExists
import Blue.Proofs.ConcatSeekEffects
import Blue.Proofs.SeekGeneral
import Blue.Proofs.MergingDupPayload
/-! # Property C11 — merging, concatenating, pruning, bounds and lazy cursors equal their definitions

Property theorems only (the proofs live in `Blue/Proofs/{Merging*,Concat*,Bounds*,Pruning*,Lazy*,
AsIs,SpecOrder,SpecBounds}.lean`).  The models (`Blue/Model/{Cursor,Heap,Concat,Bounds,Pruning,
Lazy}.lean`) mirror `sst/src/{merging,concat,bounds,pruning,lazy}_cursor.rs` operation by
operation over reference child cursors; `Blue/Model/*C.lean` are the same combinators generic in
the child (`C : Cur E`, as the Rust types are generic in `C: Cursor`).

For each combinator there is
* a **refinement** theorem: for *every finite program* of `seek_to_first / seek_to_last / seek /
  next / prev` (type `List (Op E)`, so every interleaving and every reversal at every position)
  the combinator shows, after each call, what ONE reference cursor over the specified list shows;
* a **substitution** theorem (`*_subst`): children with the same behaviour give combinators with
  the same behaviour, and its corollary (`*_over`): the refinement holds over *any* children that
  behave like tables (SST cursors, lazy cursors, other combinators), not only reference cursors.

`Concat.next`, `Concat.seek`, `Bounds.prev` are the operations after the repairs of D-2, D-18,
D-19 (`/repo fix f073faf`, `/repo fix c049384`, `/repo fix 2b6676c`);
the operations as they were are `Concat.nextOld`, `Concat.seekOld`, `Bounds.prevOld`
(`Blue/Model/AsIs.lean`), with the three counterexample theorems at the end.  The correspondence
harness runs whichever variant the code under test exhibits on the three minimal inputs.

Seek predicates: `seek(k)` is modelled as `Ref.seek pred` with `pred e = (key e ≥ k)`; the theorems
ask of `pred` only that it switches once from false to true along the list in question
(hypotheses `Mono` / `PredMono` / `MonoAlong` / `SeekPred`), which "key ≥ k" does on any key-sorted
list: `seek_key_mono`, `seek_key_predMono`, `seek_key_monoAlong`, `seek_key_seekPred` below.
`Concat.seek` / `ConcatC.seek` model the binary search over the children by its *probes' answers* (the
last entry of a child satisfies the predicate or not) without the probes' side effects on the
children.  `ConcatS` (`Blue/Model/ConcatS.lean`) performs the probes as the code does
(`reposition(probe); seek_to_last; prev` on the probed child, `seek_to_first` on the child left
behind, the chosen child re-sought); `concat_seek_effects_invisible` proves that for every program
the two show the same — a child's position is read only while it is the active child, and a child
becomes active only through `seek_to_first` / `seek_to_last` / `seek` (block `ConcatSeekEffects`;
holds for table cursors and lazy cursors over them: `concat_resets_ref`, `concat_resets_lazy`).

Seek predicates other than "key ≥ k": the hypotheses of the concatenation, bounds and pruning
theorems ARE closure along the list in question (`seek_closure_concat / _bounds / _pruning`); the
merging theorem's global `Mono` is weakened to closure along the merged list
(`seek_general_predicate`), with the transfer between the children's lists and the combined list
(`concat_closure_iff`, `merging_closure_iff`) and counterexamples for predicates that are not closed
(block `SeekGeneral`).

One (key, timestamp) with DIFFERENT payloads in different children (not a state the store produces):
block `MergingDupPayload` — the merging cursor shows every holder's copy, the (key, ts) sequence is
still the reference merge with multiplicity and every entry shown is a child's
(`merging_dup_payload_choice`); which holder comes first is decided by the heap (tie = swap), not
by the child index, and differs between directions (`merging_dup_payload_example_*`); the scan
stack's (key, ts) sequence is independent of the payloads as long as pruning and bounds read the
compared part only (`scan_dup_payload_winner`), the payload returned can depend on the direction
(`scan_dup_payload_example_differs`), and if the copies differ in being a TOMBSTONE even the set of
keys returned does (`scan_dup_payload_example_tombstone`; no general theorem there).

The merging theorems are stated over an owner-tagged merged list `M` (`Family` / `FamilyW`); that
every family of strictly sorted children HAS such an `M` is `exists_familyW` / `exists_family`, and
`merging_refines_tables` / `merging_over_tables` are the refinement theorems with no `M` in the
statement. -/
namespace Blue.Props.C11
open Blue.Cursor Blue.Cursor.Filtered

/-! ## merging -/

/-- **Merging cursor = one cursor over the sorted union.**
    HYPOTHESIS (`Family`): the merged list `M` (entries tagged with the child that owns them) is
    strictly sorted, i.e. the children are sorted and **pairwise distinct in (key, timestamp)**.
    The same entry in several children is `merging_refines_dups` below.  What stays outside this
    theorem (see block `MergingDupPayload` at the end for what IS proved of it) is the *malformed* case in which two children hold the same (key, ts) with DIFFERENT
    payloads: then the comparator is not a strict total order on entries (two different entries,
    neither less than the other), and which child's value is shown depends on the heap's
    tie-breaking and can differ between the forward and the backward pass; the harness explores
    that region in its own streams (`mergedup`, `stackmal`), comparing the implementation with the
    model exactly and recording which child wins. -/
theorem merging_refines {E : Type} {lt : E → E → Bool} {M : List (E × Nat)} {k : Nat}
    (st : StrictTotal lt) (fam : Family lt M k) (cs : List (Ref E))
    (hcs : (cs.map (·.xs)).Perm ((List.range k).map (childList M)))
    (ops : List (Op E)) (hops : ∀ pred, Op.seek pred ∈ ops → Mono lt pred) :
    (Merging.new lt cs).kv = (Ref.mk (M.map (·.1)) 0).kv ∧
    Merging.run lt (Merging.new lt cs) ops = Ref.run ⟨M.map (·.1), 0⟩ ops :=
  Blue.Cursor.merging_refines st fam cs hcs ops hops

theorem merging_subst {E : Type} (lt : E → E → Bool) {A : (E → Bool) → Prop} {C D : Cur E}
    (cs : List C.σ) (ds : List D.σ) (h : cs.map (behA A C) = ds.map (behA A D)) (fwd : Bool) :
    BehEq A (MergingC.cur C lt) ⟨fwd, cs⟩ (MergingC.cur D lt) ⟨fwd, ds⟩ :=
  Blue.Cursor.merging_subst lt cs ds h fwd

theorem merging_over {E : Type} (lt : E → E → Bool) (st : StrictTotal lt) {M : List (E × Nat)} {k : Nat}
    (fam : Family lt M k) {A : (E → Bool) → Prop} (hA : ∀ p, A p → Mono lt p)
    {C : Cur E} (cs : List C.σ) (rs : List (Ref E))
    (hkids : (rs.map (·.xs)).Perm ((List.range k).map (childList M)))
    (hbeh : cs.map (behA A C) = rs.map (behA A (RefCur E))) :
    BehEq A (MergingC.cur C lt) (MergingC.new C lt cs) (RefCur E) ⟨M.map (·.1), 0⟩ :=
  Blue.Cursor.merging_over lt st fam hA cs rs hkids hbeh

/-- **Merging cursor over children that may hold the SAME entry** (the window of a flush, where the
    flushed memtable is visible both as the immutable memtable and as its file; identical files).
    HYPOTHESIS (`FamilyW`): every one of the `k` children is strictly sorted, and `M` is their
    merge with multiplicity, weakly sorted (equal entries adjacent), tagged with owners; which of
    the equal entries is attributed to which child is immaterial (any attribution will do).  Under
    a strict total order two entries neither of which is less than the other are equal
    (`StrictTotal.eq_of_not_lt`), so this is exactly "duplicates are identical entries".
    For every finite program the cursor shows after every call what ONE reference cursor over the
    merge with multiplicity shows: a duplicated entry is shown once per child that holds it, in a
    row, in both directions. -/
theorem merging_refines_dups {E : Type} {lt : E → E → Bool} {M : List (E × Nat)} {k : Nat}
    (st : StrictTotal lt) (fam : FamilyW lt M k) (cs : List (Ref E))
    (hcs : (cs.map (·.xs)).Perm ((List.range k).map (childList M)))
    (ops : List (Op E)) (hops : ∀ pred, Op.seek pred ∈ ops → Mono lt pred) :
    (Merging.new lt cs).kv = (Ref.mk (M.map (·.1)) 0).kv ∧
    Merging.run lt (Merging.new lt cs) ops = Ref.run ⟨M.map (·.1), 0⟩ ops :=
  Blue.Cursor.merging_refines_dups st fam cs hcs ops hops

theorem merging_over_dups {E : Type} (lt : E → E → Bool) (st : StrictTotal lt) {M : List (E × Nat)} {k : Nat}
    (fam : FamilyW lt M k) {A : (E → Bool) → Prop} (hA : ∀ p, A p → Mono lt p)
    {C : Cur E} (cs : List C.σ) (rs : List (Ref E))
    (hkids : (rs.map (·.xs)).Perm ((List.range k).map (childList M)))
    (hbeh : cs.map (behA A C) = rs.map (behA A (RefCur E))) :
    BehEq A (MergingC.cur C lt) (MergingC.new C lt cs) (RefCur E) ⟨M.map (·.1), 0⟩ :=
  Blue.Cursor.merging_over_dups lt st fam hA cs rs hkids hbeh

/-- the list of `merging_refines_dups` is the children's entries *with multiplicity* -/
theorem merged_with_multiplicity {E : Type} {lt : E → E → Bool} {M : List (E × Nat)} {k : Nat}
    (fam : FamilyW lt M k) : (((List.range k).map (childList M)).flatten).Perm (M.map (·.1)) :=
  Blue.Cursor.children_perm_merged k M fam.owner

/-- the duplicate-free case is a special case -/
theorem family_is_familyW {E : Type} {lt : E → E → Bool} {M : List (E × Nat)} {k : Nat}
    (st : StrictTotal lt) (fam : Family lt M k) : FamilyW lt M k := fam.toW st

/-- **every family has its merged list**: for ANY strictly sorted tables (the same entry may be in
    several) there is an owner-tagged `M` with `FamilyW lt M k` whose children are exactly the tables
    — so the hypotheses `fam`, `hcs` of `merging_refines_dups` / `merging_over_dups` can always be met -/
theorem exists_familyW {E : Type} {lt : E → E → Bool} (st : StrictTotal lt) (tables : List (List E))
    (hs : ∀ t ∈ tables, t.Pairwise (fun a b => lt a b = true)) :
    ∃ M, FamilyW lt M tables.length ∧ (List.range tables.length).map (childList M) = tables :=
  Blue.Cursor.exists_familyW st tables hs

/-- … and with `Family` when no entry is in two tables -/
theorem exists_family {E : Type} {lt : E → E → Bool} (st : StrictTotal lt) (tables : List (List E))
    (hs : ∀ t ∈ tables, t.Pairwise (fun a b => lt a b = true)) (hnd : tables.flatten.Nodup) :
    ∃ M, Family lt M tables.length ∧ (List.range tables.length).map (childList M) = tables :=
  Blue.Cursor.exists_family st tables hs hnd

/-- **merging cursor = one cursor over the sorted union — no `M` in the statement.**  For ANY
    strictly sorted children and every finite program (seek predicates upward closed), the merging
    cursor shows what ONE reference cursor over `mergedList lt tables` shows; that list is a weakly
    sorted permutation of the children's entries (next theorem). -/
theorem merging_refines_tables {E : Type} {lt : E → E → Bool} (st : StrictTotal lt) (cs : List (Ref E))
    (hs : ∀ c ∈ cs, c.xs.Pairwise (fun a b => lt a b = true))
    (ops : List (Op E)) (hops : ∀ pred, Op.seek pred ∈ ops → Mono lt pred) :
    (Merging.new lt cs).kv = (Ref.mk (mergedList lt (cs.map (·.xs))) 0).kv ∧
    Merging.run lt (Merging.new lt cs) ops = Ref.run ⟨mergedList lt (cs.map (·.xs)), 0⟩ ops :=
  Blue.Cursor.merging_refines_tables st cs hs ops hops

/-- `mergedList` IS the sorted union with multiplicity: a permutation of the children's entries in
    which no entry precedes a smaller one -/
theorem mergedList_is_sorted_union {E : Type} {lt : E → E → Bool} (st : StrictTotal lt) (tables : List (List E)) :
    (mergedList lt tables).Perm tables.flatten
      ∧ (mergedList lt tables).Pairwise (fun a b => lt b a = false) :=
  ⟨mergedList_perm lt tables, mergedList_sortedW st tables⟩

/-- the same over any children that behave as strictly sorted tables -/
theorem merging_over_tables {E : Type} {lt : E → E → Bool} (st : StrictTotal lt) {A : (E → Bool) → Prop}
    (hA : ∀ p, A p → Mono lt p) {C : Cur E} (cs : List C.σ) (rs : List (Ref E))
    (hs : ∀ r ∈ rs, r.xs.Pairwise (fun a b => lt a b = true))
    (hbeh : cs.map (behA A C) = rs.map (behA A (RefCur E))) :
    BehEq A (MergingC.cur C lt) (MergingC.new C lt cs) (RefCur E) ⟨mergedList lt (rs.map (·.xs)), 0⟩ :=
  Blue.Cursor.merging_over_tables st hA cs rs hs hbeh

/-! ## the seek predicate of `seek(key)` meets the four hypotheses -/

/-- merging (`Mono`): "key ≥ k" is upward closed in the entry order (key ↑, timestamp ↓) -/
theorem seek_key_mono {K : Type} [DecidableEq K] {klt : K → K → Bool} (st : StrictTotal klt) (k : K) :
    Mono (Blue.Spec.vlt klt) (Blue.Spec.geKey klt k) := Blue.Spec.geKey_mono st k

/-- concat (`PredMono`): … switches once along the concatenation of children in key order -/
theorem seek_key_predMono {K : Type} [DecidableEq K] {klt : K → K → Bool} (st : StrictTotal klt) (k : K)
    (L : List (List (Blue.Spec.Ver K))) (hm : Blue.Spec.KeysMono klt L.flatten) :
    PredMono L (Blue.Spec.geKey klt k) := Blue.Spec.geKey_predMono st k L hm

/-- bounds (`MonoAlong`): … switches once along any table whose keys never decrease -/
theorem seek_key_monoAlong {K : Type} [DecidableEq K] {klt : K → K → Bool} (st : StrictTotal klt) (k : K)
    (xs : List (Blue.Spec.Ver K)) (hm : Blue.Spec.KeysMono klt xs) :
    MonoAlong xs (Blue.Spec.geKey klt k) := Blue.Spec.geKey_monoAlong st k xs hm

/-- pruning (`SeekPred`): … depends on the key only and switches once -/
theorem seek_key_seekPred {K : Type} [DecidableEq K] {klt : K → K → Bool} (st : StrictTotal klt) (k : K)
    (t : Nat) (tomb : Blue.Spec.Ver K → Bool) (xs : List (Blue.Spec.Ver K)) (hm : Blue.Spec.KeysMono klt xs) :
    SeekPred (Blue.Spec.pcfg t tomb) xs (Blue.Spec.geKey klt k) := Blue.Spec.geKey_seekPred st k t tomb xs hm

/-! ## concatenation -/

/-- **Concatenating cursor = one cursor over the concatenation**, for any non-empty vector of
    children (empty children, tombstones and a key whose versions are split across adjacent
    children included).  The only hypothesis is on the seek predicates: along the concatenation
    they switch once (true of "key ≥ k" when the children are in key order). -/
theorem concat_refines {E : Type} (cs : List (Ref E)) (hne : 0 < cs.length) (ops : List (Op E))
    (hops : ∀ pred, Op.seek pred ∈ ops → PredMono (cs.map (·.xs)) pred) :
    Concat.run (Concat.new cs) ops = Ref.run ⟨(cs.map (·.xs)).flatten, 0⟩ ops :=
  Blue.Cursor.concat_refines cs hne ops hops

theorem concat_subst {E : Type} {A : (E → Bool) → Prop} {C D : Cur E} (cs : List C.σ) (ds : List D.σ)
    (h : cs.map (behA A C) = ds.map (behA A D)) (position : Nat) :
    BehEq A (ConcatC.cur C) ⟨cs, position⟩ (ConcatC.cur D) ⟨ds, position⟩ :=
  Blue.Cursor.concat_subst cs ds h position

theorem concat_over {E : Type} {A : (E → Bool) → Prop} {C : Cur E} (cs : List C.σ) (rs : List (Ref E))
    (hne : 0 < rs.length) (hA : ∀ pred, A pred → PredMono (rs.map (·.xs)) pred)
    (hbeh : cs.map (behA A C) = rs.map (behA A (RefCur E))) :
    BehEq A (ConcatC.cur C) (ConcatC.new C cs) (RefCur E) ⟨(rs.map (·.xs)).flatten, 0⟩ :=
  Blue.Cursor.concat_over cs rs hne hA hbeh

/-! ## bounds -/

/-- **Bounds cursor = one cursor over the window.**  `BoundsOk cfg xs lo hi` says the four key
    tests of the bounds cursor cut the child list into below-start `[0, lo)`, in-range `[lo, hi)`,
    above-end `[hi, n)`; `bounds_hypothesis_of_sorted` shows every key-sorted table and every pair
    of bounds (all nine kinds, inverted and empty intervals included) satisfies it, and
    `bounds_window_is_interval` that the window is then exactly the entries whose key lies in the
    interval (`inRange`: explicit key comparisons, independent of the cursor model; bridge
    `in_range_is_bounds_cursor_tests`).  `BRel` is the simulation relation; `BRel.before 0` is the
    state `new` STARTS from (child at position 0, `BeforeStart`) — `new` then performs a
    `seek_to_first`; the state it leaves is related to position 0 by `bounds_new_related`, and
    `bounds_refines_new` is the theorem started there. -/
theorem bounds_refines {E : Type} (cfg : BoundsCfg E) (xs : List E) {lo hi : Nat}
    (ok : BoundsOk cfg xs lo hi) (n : Nat) (hn : xs.length + 2 ≤ n)
    (ops : List (Op E)) (b : Bounds E) (pos : Nat) (h : BRel xs lo hi b pos)
    (hops : ∀ pred, Op.seek pred ∈ ops → MonoAlong xs pred) :
    Bounds.run cfg n b ops = Ref.run ⟨window xs lo hi, pos⟩ ops :=
  Blue.Cursor.bounds_refines cfg xs ok n hn ops b pos h hops

/-- the state `BoundsCursor::new` leaves is related to window position 0 -/
theorem bounds_new_related {E : Type} (cfg : BoundsCfg E) (xs : List E) {lo hi : Nat}
    (ok : BoundsOk cfg xs lo hi) : BRel xs lo hi (Bounds.new cfg ⟨xs, 0⟩) 0 :=
  Blue.Cursor.brel_new cfg xs ok

/-- `bounds_refines` for the cursor as constructed by `BoundsCursor::new` -/
theorem bounds_refines_new {E : Type} (cfg : BoundsCfg E) (xs : List E) {lo hi : Nat}
    (ok : BoundsOk cfg xs lo hi) (n : Nat) (hn : xs.length + 2 ≤ n)
    (ops : List (Op E)) (hops : ∀ pred, Op.seek pred ∈ ops → MonoAlong xs pred) :
    Bounds.run cfg n (Bounds.new cfg ⟨xs, 0⟩) ops = Ref.run ⟨window xs lo hi, 0⟩ ops :=
  Blue.Cursor.bounds_refines_new cfg xs ok n hn ops hops

theorem bounds_subst {E : Type} (cfg : BoundsCfg E) (n : Nat) {A : (E → Bool) → Prop}
    (hs : A cfg.geStart) (he : A cfg.geEnd) {C D : Cur E} {c : C.σ} {d : D.σ}
    (h : BehEq A C c D d) (st : BState) :
    BehEq A (BoundsC.cur C cfg n) ⟨c, st⟩ (BoundsC.cur D cfg n) ⟨d, st⟩ :=
  Blue.Cursor.bounds_subst cfg n hs he h st

theorem bounds_over {E : Type} (cfg : BoundsCfg E) (n : Nat) (xs : List E) {lo hi : Nat}
    (ok : BoundsOk cfg xs lo hi) (hn : xs.length + 2 ≤ n)
    {A : (E → Bool) → Prop} (hA : ∀ pred, A pred → MonoAlong xs pred)
    (hs : A cfg.geStart) (he : A cfg.geEnd)
    {C : Cur E} {c : C.σ} {q : Nat} (hc : BehEq A C c (RefCur E) ⟨xs, q⟩)
    (st : BState) (pos : Nat) (hrel : BRel xs lo hi ⟨⟨xs, q⟩, st⟩ pos) :
    BehEq A (BoundsC.cur C cfg n) ⟨c, st⟩ (RefCur E) ⟨window xs lo hi, pos⟩ :=
  Blue.Cursor.bounds_over cfg n xs ok hn hA hs he hc st pos hrel

/-- the hypothesis of `bounds_refines` holds for every table whose keys never decrease, and every
    pair of bounds -/
theorem bounds_hypothesis_of_sorted {K : Type} [DecidableEq K] {klt : K → K → Bool} (st : StrictTotal klt)
    (sb eb : Blue.Spec.Bound K) (xs : List (Blue.Spec.Ver K)) (hm : Blue.Spec.KeysMono klt xs) :
    BoundsOk (Blue.Spec.bcfg klt sb eb) xs
      (xs.findIdx (fun e => !(Blue.Spec.bcfg klt sb eb).belowStart e))
      (xs.findIdx (Blue.Spec.bcfg klt sb eb).aboveEnd) :=
  Blue.Spec.boundsOk_of_keysMono st sb eb xs hm

/-- and the window is "the underlying table restricted to the interval" -/
theorem bounds_window_is_interval {K : Type} [DecidableEq K] {klt : K → K → Bool} (st : StrictTotal klt)
    (sb eb : Blue.Spec.Bound K) (xs : List (Blue.Spec.Ver K)) (hm : Blue.Spec.KeysMono klt xs) :
    window xs (xs.findIdx (fun e => !(Blue.Spec.bcfg klt sb eb).belowStart e))
        (xs.findIdx (Blue.Spec.bcfg klt sb eb).aboveEnd)
      = xs.filter (Blue.Spec.inRange klt sb eb) :=
  Blue.Spec.window_eq_range st sb eb xs hm

/-- the interval predicate is a specification by explicit key comparisons (`start ≤ key ≤ end`
    with each bound's strictness; `a ≤ b` is `klt b a = false`) … -/
theorem in_range_is_the_interval {K : Type} (klt : K → K → Bool) (sb eb : Blue.Spec.Bound K) (e : Blue.Spec.Ver K) :
    Blue.Spec.inRange klt sb eb e = true ↔
      (match sb with | .unbounded => True | .included k => klt e.1 k = false | .excluded k => klt k e.1 = true) ∧
      (match eb with | .unbounded => True | .included k => klt k e.1 = false | .excluded k => klt e.1 k = true) :=
  Blue.Spec.inRange_iff klt sb eb e

/-- … and the bridge to the two key tests the bounds-cursor model performs -/
theorem in_range_is_bounds_cursor_tests {K : Type} [DecidableEq K] (klt : K → K → Bool)
    (sb eb : Blue.Spec.Bound K) (e : Blue.Spec.Ver K) :
    Blue.Spec.inRange klt sb eb e
      = (!(Blue.Spec.bcfg klt sb eb).belowStart e && !(Blue.Spec.bcfg klt sb eb).aboveEnd e) :=
  Blue.Spec.inRange_eq_cfg klt sb eb e

/-! ## pruning -/

/-- **Pruning cursor = one cursor over the pruned list**, and it never takes its
    `logic_error_prev_not_positioned` exit (`Pruning.run … = some …`).  `Grouped`: the child list is
    grouped by key and inside a key `ts ≤ t` switches once from false to true — what a table
    sorted by (key ↑, ts ↓) gives (`pruning_hypothesis_of_sorted`); `pruned` is then "per key the
    newest version not newer than `t`, unless it is a tombstone" (`pruned_is_newest_visible`). -/
theorem pruning_refines {E K : Type} [DecidableEq K] (cfg : PruneCfg E K) (xs : List E)
    (g : Grouped cfg xs) (n : Nat) (hn : xs.length + 2 ≤ n)
    (ops : List (Op E)) (p : Pruning E K) (pos : Nat) (h : PRel cfg xs p pos)
    (hops : ∀ pred, Op.seek pred ∈ ops → SeekPred cfg xs pred) :
    Pruning.run cfg n p ops = some (Ref.run ⟨pruned cfg xs, pos⟩ ops) :=
  Blue.Cursor.pruning_refines cfg xs g n hn ops p pos h hops

theorem pruning_subst {E K : Type} [DecidableEq K] (cfg : PruneCfg E K) (n : Nat) {A : (E → Bool) → Prop}
    {C D : Cur E} {c : C.σ} {d : D.σ} (h : BehEq A C c D d) (skip : Option K) (err : Bool) :
    BehEq A (PruningC.cur C cfg n) ⟨c, skip, err⟩ (PruningC.cur D cfg n) ⟨d, skip, err⟩ :=
  Blue.Cursor.pruning_subst cfg n h skip err

theorem pruning_over {E K : Type} [DecidableEq K] (cfg : PruneCfg E K) (n : Nat) {A : (E → Bool) → Prop}
    (xs : List E) (g : Grouped cfg xs) (hn : xs.length + 2 ≤ n)
    (hA : ∀ pred, A pred → SeekPred cfg xs pred)
    {C : Cur E} {c : C.σ} {q : Nat} (hc : BehEq A C c (RefCur E) ⟨xs, q⟩)
    (skip : Option K) (pos : Nat) (hrel : PRel cfg xs ⟨⟨xs, q⟩, skip⟩ pos) :
    BehEq A (PruningC.cur C cfg n) ⟨c, skip, false⟩ (RefCur E) ⟨pruned cfg xs, pos⟩ :=
  Blue.Cursor.pruning_over cfg n xs g hn hA hc skip pos hrel

theorem pruning_hypothesis_of_sorted {K : Type} [DecidableEq K] {klt : K → K → Bool} (st : StrictTotal klt)
    {M : List (Blue.Spec.Ver K)} (hs : Blue.Spec.Sorted klt M) (t : Nat) (tomb : Blue.Spec.Ver K → Bool) :
    Grouped (Blue.Spec.pcfg t tomb) M :=
  Blue.Spec.grouped_of_sorted st hs t tomb

theorem pruned_is_newest_visible {K : Type} [DecidableEq K] {klt : K → K → Bool} (st : StrictTotal klt)
    {M : List (Blue.Spec.Ver K)} (hs : Blue.Spec.Sorted klt M) (t : Nat) (tomb : Blue.Spec.Ver K → Bool) :
    pruned (Blue.Spec.pcfg t tomb) M = M.filter (Blue.Spec.isLive M t tomb) :=
  Blue.Spec.pruned_eq_live st hs t tomb

/-! ## lazy -/

/-- **Lazy cursor = the cursor it opens**, although it opens the table only when a call needs it
    and drops it whenever it runs off either end. -/
theorem lazy_refines {E : Type} (xs : List E) (ops : List (Op E)) (pos : LPos E) (p : Nat)
    (h : LRel xs pos p) : Lazy.run ⟨xs, pos⟩ ops = Ref.run ⟨xs, p⟩ ops :=
  Blue.Cursor.lazy_refines xs ops pos p h

theorem lazy_subst {E : Type} {A : (E → Bool) → Prop} {C D : Cur E} {c : C.σ} {d : D.σ}
    (h : BehEq A C c D d) : BehEq A (LazyC.cur C) ⟨c, .first⟩ (LazyC.cur D) ⟨d, .first⟩ :=
  Blue.Cursor.lazy_subst h

theorem lazy_over {E : Type} {A : (E → Bool) → Prop} (xs : List E) {C : Cur E} {c : C.σ}
    (hc : BehEq A C c (RefCur E) ⟨xs, 0⟩) :
    BehEq A (LazyC.cur C) ⟨c, .first⟩ (RefCur E) ⟨xs, 0⟩ :=
  Blue.Cursor.lazy_over xs hc

/-! ## the code as it was: the three defects as theorems about the unrepaired operations -/

/-- **D-19** `BoundsCursor::prev` without the end-bound re-check: window `[2, 3]` of `1..5`,
    `seek(5); prev` shows 4 (outside the bounds); the reference and the repaired `prev` show 3.
    On the code: `Included("2")..=Included("3")` over keys `1..5`, `seek("5"); prev` showed `4`. -/
theorem bounds_prevOld_counterexample :
    let b0 : Bounds Nat := Bounds.new cfg23 ⟨[1, 2, 3, 4, 5], 0⟩
    let b1 := Bounds.seek cfg23 7 (fun e => decide (e ≥ 5)) b0
    (Bounds.prevOld cfg23 b1).kv = some 4
      ∧ (Ref.prev (Ref.seek (fun e => decide (e ≥ 5)) ⟨[2, 3], 0⟩)).kv = some 3
      ∧ (Bounds.prev cfg23 7 b1).kv = some 3 :=
  Blue.Cursor.bounds_prevOld_counterexample

/-- **D-2** `ConcatenatingCursor::next` testing `value().is_none()`: children `[a, b=⊥, c] [d]`
    walked forward show `a, d`; the repaired `next` (testing `key()`) shows `a, b=⊥, …`. -/
theorem concat_nextOld_counterexample :
    let m0 : Concat (Nat × Bool) := Concat.new [⟨[(1, false), (2, true), (3, false)], 0⟩, ⟨[(4, false)], 0⟩]
    let m1 := Concat.nextOld tombOf m0
    let m2 := Concat.nextOld tombOf m1
    (m1.kv, m2.kv) = (some (1, false), some (4, false))
      ∧ ((Concat.next m0).kv, (Concat.next (Concat.next m0)).kv) = (some (1, false), some (2, true)) :=
  Blue.Cursor.concat_nextOld_counterexample

/-- **D-18** `ConcatenatingCursor::seek` breaking off its binary search at `mid == left`:
    children `[10] [20] [30]`, `seek(20)` positions at nothing; the completed search finds 20.
    On the code: children `[ab] [b] [ffff]`, `seek(b)` showed nothing. -/
theorem concat_seekOld_counterexample :
    let m0 : Concat Nat := Concat.new [⟨[10], 0⟩, ⟨[20], 0⟩, ⟨[30], 0⟩]
    (Concat.seekOld (fun e => decide (e ≥ 20)) m0).kv = none
      ∧ (Concat.seek (fun e => decide (e ≥ 20)) m0).kv = some 20 :=
  Blue.Cursor.concat_seekOld_counterexample

/-! ## non-vacuity: the hypotheses are met by concrete non-trivial inputs -/

def natLt (a b : Nat) : Bool := decide (a < b)

theorem natLt_strictTotal : StrictTotal natLt where
  irrefl := by intro a; simp [natLt]
  trans := by intro a b c; simp only [natLt, decide_eq_true_eq]; omega
  total := by intro a b h; simp only [natLt, decide_eq_true_eq]; omega

/-- three children `[1, 4] [2, 5] [3]` (one merged list, owner tags 0 1 2 0 1) -/
def demoM : List (Nat × Nat) := [(1, 0), (2, 1), (3, 2), (4, 0), (5, 1)]

theorem demo_family : Family natLt demoM 3 where
  sorted := by decide
  owner := by decide

/-- `merging_refines` applies to a program with a seek and reversals, and says something -/
example :
    Merging.run natLt (Merging.new natLt [⟨[1, 4], 0⟩, ⟨[2, 5], 0⟩, ⟨[3], 0⟩])
        [.next, .next, .prev, .seek (fun e => decide (e ≥ 4)), .prev, .next, .last, .prev]
      = [some 1, some 2, some 1, some 4, some 3, some 4, none, some 5] := by
  have h := (merging_refines natLt_strictTotal demo_family [⟨[1, 4], 0⟩, ⟨[2, 5], 0⟩, ⟨[3], 0⟩]
    (by decide) [.next, .next, .prev, .seek (fun e => decide (e ≥ 4)), .prev, .next, .last, .prev]
    (by
      intro pred hp
      simp only [List.mem_cons, List.not_mem_nil, or_false, reduceCtorEq, false_or, Op.seek.injEq] at hp
      subst hp
      intro a b hab ha
      simp only [natLt, decide_eq_true_eq] at *
      omega)).2
  rw [h]; decide

/-- three children `[1, 4] [1, 2, 4, 5] [4]`: the entry 1 is in two children, the entry 4 in all three
    (one weakly sorted merged list; any attribution of the equal entries to their holders will do) -/
def demoMW : List (Nat × Nat) := [(1, 0), (1, 1), (2, 1), (4, 0), (4, 1), (4, 2), (5, 1)]

theorem demo_familyW : FamilyW natLt demoMW 3 where
  sorted := by decide
  owner := by decide
  child := by
    intro j hj
    rcases j with _ | _ | _ | j
    · decide
    · decide
    · decide
    · omega

/-- `merging_refines_dups` applies to children with a copy in two and in three children, a program
    with a seek onto the triplicated entry and reversals inside the run of copies, and says
    something: the copies are shown one after the other, in both directions -/
example :
    Merging.run natLt (Merging.new natLt [⟨[1, 4], 0⟩, ⟨[1, 2, 4, 5], 0⟩, ⟨[4], 0⟩])
        [.next, .next, .next, .prev, .seek (fun e => decide (e ≥ 4)), .next, .prev, .prev, .next, .next, .next, .next,
          .last, .prev, .prev, .prev, .prev, .next]
      = [some 1, some 1, some 2, some 1, some 4, some 4, some 4, some 2, some 4, some 4, some 4, some 5,
          none, some 5, some 4, some 4, some 4, some 4] := by
  have h := (merging_refines_dups natLt_strictTotal demo_familyW [⟨[1, 4], 0⟩, ⟨[1, 2, 4, 5], 0⟩, ⟨[4], 0⟩]
    (by decide) [.next, .next, .next, .prev, .seek (fun e => decide (e ≥ 4)), .next, .prev, .prev, .next, .next, .next, .next,
          .last, .prev, .prev, .prev, .prev, .next]
    (by
      intro pred hp
      simp only [List.mem_cons, List.not_mem_nil, or_false, reduceCtorEq, false_or, Op.seek.injEq] at hp
      subst hp
      intro a b hab ha
      simp only [natLt, decide_eq_true_eq] at *
      omega)).2
  rw [h]; decide

/-- `concat_refines`: children `[1, 2] [] [4, 5]`, a seek into the third child and reversals -/
example :
    Concat.run (Concat.new [⟨[1, 2], 0⟩, ⟨[], 0⟩, ⟨[4, 5], 0⟩])
        [.seek (fun e => decide (e ≥ 4)), .prev, .next, .next, .next, .prev]
      = [some 4, some 2, some 4, some 5, none, some 5] := by
  have h := concat_refines [⟨[1, 2], 0⟩, ⟨[], 0⟩, ⟨[4, 5], 0⟩] (by decide)
    [.seek (fun e => decide (e ≥ 4)), .prev, .next, .next, .next, .prev]
    (by
      intro pred hp
      simp only [List.mem_cons, List.not_mem_nil, or_false, reduceCtorEq, false_or, Op.seek.injEq] at hp
      subst hp
      intro i j ei ej hij hi hj hpi
      have h1 : (i, ei) ∈ [(0, 1), (1, 2), (2, 4), (3, 5)] := by
        rcases i with _ | _ | _ | _ | i <;> simp_all
      have h2 : (j, ej) ∈ [(0, 1), (1, 2), (2, 4), (3, 5)] := by
        rcases j with _ | _ | _ | _ | j <;> simp_all
      simp only [List.mem_cons, Prod.mk.injEq, List.not_mem_nil, or_false] at h1 h2
      simp only [decide_eq_true_eq] at *
      omega)
  rw [h]; decide

/-- `BoundsOk` for every sorted table: a concrete one with an excluded start and an included end -/
example : ∃ lo hi, BoundsOk (Blue.Spec.bcfg natLt (.excluded 2) (.included 4))
    ([(1, 7), (2, 9), (2, 3), (3, 1), (4, 5), (4, 2), (6, 0)] : List (Blue.Spec.Ver Nat)) lo hi ∧ lo = 3 ∧ hi = 6 :=
  ⟨_, _, bounds_hypothesis_of_sorted natLt_strictTotal (.excluded 2) (.included 4) _
      (Blue.Spec.keysMono_of_sorted natLt_strictTotal (by unfold Blue.Spec.Sorted; decide)), by decide, by decide⟩

/-- the state `new` STARTS from (before its `seek_to_first`) is related to position 0 (`BRel`) -/
example (xs : List Nat) (lo hi : Nat) : BRel xs lo hi ⟨⟨xs, 0⟩, .beforeStart⟩ 0 :=
  BRel.before 0 (by omega) (by omega)

/-! end-to-end instances: all hypotheses of `bounds_refines(_new)` / `pruning_refines` jointly, on a
    seven-entry table with several versions per key, a program with a `seek(4)` and reversals -/

def tbl : List (Blue.Spec.Ver Nat) := [(1, 7), (2, 9), (2, 3), (3, 1), (4, 5), (4, 2), (6, 0)]
theorem tbl_sorted : Blue.Spec.Sorted natLt tbl := by unfold Blue.Spec.Sorted; decide
def prog : List (Op (Blue.Spec.Ver Nat)) :=
  [.next, .next, .prev, .seek (Blue.Spec.geKey natLt 4), .prev, .next, .next, .next, .prev, .last, .prev, .first, .next]

theorem prog_seeks (pred : Blue.Spec.Ver Nat → Bool) (hp : Op.seek pred ∈ prog) : pred = Blue.Spec.geKey natLt 4 := by
  simp only [prog, List.mem_cons, List.not_mem_nil, or_false, reduceCtorEq, false_or, Op.seek.injEq] at hp
  exact hp

/-- bounds `(2, 4]`: the cursor made by `new` runs as the reference cursor over the interval, which
    is `[3@1, 4@5, 4@2]` -/
example : Bounds.run (Blue.Spec.bcfg natLt (.excluded 2) (.included 4)) 9
      (Bounds.new (Blue.Spec.bcfg natLt (.excluded 2) (.included 4)) ⟨tbl, 0⟩) prog
    = Ref.run ⟨[(3, 1), (4, 5), (4, 2)], 0⟩ prog := by
  have km := Blue.Spec.keysMono_of_sorted natLt_strictTotal tbl_sorted
  have h := bounds_refines_new (Blue.Spec.bcfg natLt (.excluded 2) (.included 4)) tbl
    (bounds_hypothesis_of_sorted natLt_strictTotal (.excluded 2) (.included 4) tbl km) 9 (by decide) prog
    (by intro pred hp; rw [prog_seeks pred hp]; exact seek_key_monoAlong natLt_strictTotal 4 tbl km)
  rw [h, bounds_window_is_interval natLt_strictTotal (.excluded 2) (.included 4) tbl km]
  rfl

/-- pruning at `t = 4`, versions with timestamp 3 are tombstones: the cursor runs as the reference
    cursor over `[3@1, 4@2, 6@0]` (key 1 too new, key 2 deleted) and never takes its error exit -/
example : Pruning.run (Blue.Spec.pcfg 4 (fun e => e.2 == 3)) 9 (Pruning.new ⟨tbl, 0⟩) prog
    = some (Ref.run ⟨[(3, 1), (4, 2), (6, 0)], 0⟩ prog) := by
  have km := Blue.Spec.keysMono_of_sorted natLt_strictTotal tbl_sorted
  have h := pruning_refines (Blue.Spec.pcfg 4 (fun e => e.2 == 3)) tbl
    (pruning_hypothesis_of_sorted natLt_strictTotal tbl_sorted 4 _) 9 (by decide) prog
    (Pruning.new ⟨tbl, 0⟩) 0 (prel_new _ tbl ⟨tbl, 0⟩ rfl)
    (by intro pred hp; rw [prog_seeks pred hp]; exact seek_key_seekPred natLt_strictTotal 4 4 _ tbl km)
  rw [h, pruned_is_newest_visible natLt_strictTotal tbl_sorted]
  rfl

/-- `merging_over_dups` with children that are NOT reference cursors: lazy cursors (over reference
    cursors), the substitution hypothesis discharged by `lazy_over` -/
def lz (xs : List Nat) : (LazyC.cur (RefCur Nat)).σ := ⟨⟨xs, 0⟩, .first⟩
theorem lz_beh (xs : List Nat) :
    behA (Mono natLt) (LazyC.cur (RefCur Nat)) (lz xs) = behA (Mono natLt) (RefCur Nat) ⟨xs, 0⟩ :=
  behA_eq_of_behEq (lazy_over xs (fun _ _ => rfl))

example : BehEq (Mono natLt) (MergingC.cur (LazyC.cur (RefCur Nat)) natLt)
    (MergingC.new (LazyC.cur (RefCur Nat)) natLt [lz [1, 4], lz [1, 2, 4, 5], lz [4]])
    (RefCur Nat) ⟨demoMW.map (·.1), 0⟩ :=
  merging_over_dups natLt natLt_strictTotal demo_familyW (fun _ h => h)
    [lz [1, 4], lz [1, 2, 4, 5], lz [4]] [⟨[1, 4], 0⟩, ⟨[1, 2, 4, 5], 0⟩, ⟨[4], 0⟩] (by decide)
    (by show [_, _, _] = [_, _, _]; rw [lz_beh, lz_beh, lz_beh])

/-- `exists_familyW` / `merging_refines_tables` on the same children, no `M` supplied: the constructed
    merged list is the sorted union with multiplicity -/
example : mergedList natLt [[1, 4], [1, 2, 4, 5], [4]] = [1, 1, 2, 4, 4, 4, 5] := by
  simp [mergedList, mergedOf, tagFrom, leOf, natLt, List.mergeSort, List.MergeSort.Internal.splitInTwo, List.merge]

example (ops : List (Op Nat)) (hops : ∀ pred, Op.seek pred ∈ ops → Mono natLt pred) :
    Merging.run natLt (Merging.new natLt [⟨[1, 4], 0⟩, ⟨[1, 2, 4, 5], 0⟩, ⟨[4], 0⟩]) ops
      = Ref.run ⟨mergedList natLt [[1, 4], [1, 2, 4, 5], [4]], 0⟩ ops :=
  (merging_refines_tables natLt_strictTotal [⟨[1, 4], 0⟩, ⟨[1, 2, 4, 5], 0⟩, ⟨[4], 0⟩]
    (by decide) ops hops).2

/-- `Grouped` and `PRel` are met by a sorted table with several versions per key and tombstones -/
example : Grouped (Blue.Spec.pcfg 4 (fun e => e.2 == 3))
    ([(1, 7), (1, 2), (2, 9), (2, 3), (2, 1), (3, 4)] : List (Blue.Spec.Ver Nat)) :=
  pruning_hypothesis_of_sorted natLt_strictTotal (by unfold Blue.Spec.Sorted; decide) 4 _

example {E K : Type} [DecidableEq K] (cfg : PruneCfg E K) (xs : List E) :
    PRel cfg xs (Pruning.new ⟨xs, 0⟩) 0 := prel_new cfg xs ⟨xs, 0⟩ rfl

/-- `LRel` holds of the state `LazyCursor::new` leaves -/
example (xs : List Nat) : LRel xs .first 0 := LRel.first

-- BEGIN ConcatSeekEffects
/-! ## `ConcatenatingCursor::seek`: the side effects of the probes on the children are invisible

`ConcatS` (`Blue/Model/ConcatS.lean`) is `ConcatC` with `seek` as the code performs it: every probe of
the binary search is `reposition(probe); seek_to_last; prev` ON the child (`self.position` moves to
the probed child, the child left behind gets `seek_to_first`), and the answer is read with `key()`
from the child's state.  `Resets C T`: `T` is a partial equivalence on the child's states ("states
of a cursor over the same table"; `T c c` = well formed) that every operation preserves and that
`seek_to_first / seek_to_last / seek` collapse (they forget where the child was) — true of table
cursors (`concat_resets_ref`) and of lazy cursors over them (`concat_resets_lazy`). -/

/-- **for every program — no condition on the seek predicates — the cursor that performs the
    probes on the children shows what the cursor that only reads their answers shows** (entry and
    error flag after every call), from any state whose children are well formed. -/
theorem concat_seek_effects_invisible {E : Type} {C : Cur E} {T : C.σ → C.σ → Prop} (hT : Resets C T)
    (m : ConcatC C) (hm : ∀ c ∈ m.cs, T c c) (ops : List (Op E)) :
    (ConcatS.cur C).beh m ops = (ConcatC.cur C).beh m ops :=
  Blue.Cursor.concat_seek_effects_invisible hT m hm ops

/-- the invariant behind it: after any program the two cursors have the same active index and the
    same active child; every other child is merely *a state of the same table* in both — its
    position is not read before `seek_to_first` (next at the end of a child, `reposition`),
    `seek_to_last` (prev at the start of a child, a probe) or `seek` (the chosen child) re-positions it -/
theorem concat_seek_effects_invariant {E : Type} {C : Cur E} {T : C.σ → C.σ → Prop} (hT : Resets C T)
    (m : ConcatC C) (hm : ∀ c ∈ m.cs, T c c) (ops : List (Op E)) :
    let s := (ConcatS.cur C).runTo m ops
    let c := (ConcatC.cur C).runTo m ops
    s.position = c.position ∧ s.cs[s.position]? = c.cs[c.position]? ∧
      ConcatEff.RelL T s.cs m.cs ∧ ConcatEff.RelL T c.cs m.cs :=
  Blue.Cursor.concat_seek_effects_invariant hT m hm ops

theorem concat_resets_ref {E : Type} : Resets (RefCur E) (fun a b => a.xs = b.xs) := resets_ref

theorem concat_resets_lazy {E : Type} {C : Cur E} {T0 : C.σ → C.σ → Prop} (hT : Resets C T0) :
    Resets (LazyC.cur C) (LazyEff.LazyT T0) := LazyEff.resets_lazy hT

/-- composed with `concat_over`: the cursor WITH the probes' side effects, over tables … -/
theorem concatS_refines {E : Type} {A : (E → Bool) → Prop} (rs : List (Ref E)) (hne : 0 < rs.length)
    (hA : ∀ pred, A pred → PredMono (rs.map (·.xs)) pred) :
    BehEq A (ConcatS.cur (RefCur E)) (ConcatC.new (RefCur E) rs) (RefCur E) ⟨(rs.map (·.xs)).flatten, 0⟩ :=
  Blue.Cursor.concatS_refines rs hne hA

/-- … and over lazy cursors (the shape of a level: `Concat(Lazy(file))`) -/
theorem concatS_lazy_refines {E : Type} {A : (E → Bool) → Prop} (tables : List (List E)) (hne : 0 < tables.length)
    (hA : ∀ pred, A pred → PredMono tables pred) :
    BehEq A (ConcatS.cur (LazyC.cur (RefCur E))) (ConcatC.new (LazyC.cur (RefCur E)) (tables.map lazyKid))
      (RefCur E) ⟨tables.flatten, 0⟩ :=
  Blue.Cursor.concatS_lazy_refines tables hne hA

/-- the side effects are real: the two models' STATES differ after a seek (child 1 was probed and
    then re-set), their observations do not -/
theorem concatS_state_differs :
    let m0 : ConcatC (RefCur Nat) := ⟨[⟨[1], 1⟩, ⟨[2], 1⟩, ⟨[3], 1⟩, ⟨[4], 1⟩], 0⟩
    let s := ConcatS.seek (RefCur Nat) (fun e => decide (e ≥ 3)) m0
    let c := ConcatC.seek (RefCur Nat) (fun e => decide (e ≥ 3)) m0
    (s.cs.map (·.pos), s.position) = ([0, 0, 1, 1], 2) ∧ (c.cs.map (·.pos), c.position) = ([0, 1, 1, 1], 2)
      ∧ ConcatC.kv (RefCur Nat) s = some 3 ∧ ConcatC.kv (RefCur Nat) c = some 3 :=
  Blue.Cursor.concatS_state_differs

/-- non-vacuity: the theorem applies to children sitting anywhere and to a program that seeks,
    leaves the sought child backwards and forwards, and it says something -/
example :
    (ConcatS.cur (RefCur Nat)).beh ⟨[⟨[1], 1⟩, ⟨[2], 1⟩, ⟨[], 0⟩, ⟨[3], 1⟩, ⟨[4], 1⟩], 0⟩
        [.seek (fun e => decide (e ≥ 3)), .prev, .prev, .next, .next, .next]
      = (some 4, true) := by
  rw [concat_seek_effects_invisible concat_resets_ref _ (fun _ _ => rfl)]
  decide +kernel

/-- `concatS_lazy_refines` applies: lazy children `[1,2] [] [4,5]`, programs seeking with "≥ 4" -/
example : BehEq (fun p => p = fun e => decide (e ≥ 4)) (ConcatS.cur (LazyC.cur (RefCur Nat)))
    (ConcatC.new (LazyC.cur (RefCur Nat)) ([[1, 2], [], [4, 5]].map lazyKid)) (RefCur Nat)
    ⟨([[1, 2], [], [4, 5]] : List (List Nat)).flatten, 0⟩ :=
  concatS_lazy_refines [[1, 2], [], [4, 5]] (by decide) (by
    intro pred hp
    subst hp
    rw [Blue.Cursor.SeekGeneral.predMono_iff, Blue.Cursor.SeekGeneral.upClosed_iff_pairwise]
    decide)
-- END ConcatSeekEffects

-- BEGIN SeekGeneral
/-! ## seek predicates in general: the exact closure condition per combinator

`UpClosedAlong xs p`: along the list `xs`, once `p` holds it keeps holding.  Concatenation, bounds
and pruning already ask exactly this of the list they are about (`seek_closure_concat`,
`seek_closure_bounds`, `seek_closure_pruning`); merging asked for the GLOBAL `Mono lt p` and needs
only closure along the merged list (`seek_general_predicate`).  How closure of the combined list
relates to the children's lists: `concat_closure_iff` (each child closed + a boundary condition),
`merging_closure_iff` (each child closed + monotone ACROSS children). -/
open Blue.Cursor.SeekGeneral in
theorem seek_closure_concat {E : Type} (L : List (List E)) (p : E → Bool) :
    PredMono L p ↔ UpClosedAlong L.flatten p := predMono_iff L p

open Blue.Cursor.SeekGeneral in
theorem seek_closure_bounds {E : Type} (xs : List E) (p : E → Bool) :
    MonoAlong xs p ↔ UpClosedAlong xs p := monoAlong_iff xs p

open Blue.Cursor.SeekGeneral in
theorem seek_closure_pruning {E K : Type} [DecidableEq K] (cfg : PruneCfg E K) (xs : List E) (p : E → Bool) :
    SeekPred cfg xs p ↔ (∀ a b, cfg.key a = cfg.key b → p a = p b) ∧ UpClosedAlong xs p :=
  seekPred_iff cfg xs p

open Blue.Cursor.SeekGeneral in
/-- concatenation: closed along the concatenation iff closed along every child and, for children
    `i < j`, once `p` holds somewhere in child `i` it holds everywhere in child `j` -/
theorem concat_closure_iff {E : Type} (L : List (List E)) (p : E → Bool) :
    UpClosedAlong L.flatten p ↔ (∀ l ∈ L, UpClosedAlong l p) ∧ Boundary L p :=
  Blue.Cursor.SeekGeneral.concat_closure_iff L p

open Blue.Cursor.SeekGeneral in
/-- a weakly sorted list: closed along the list iff monotone on its members -/
theorem merged_closure_iff {E : Type} {lt : E → E → Bool} (st : StrictTotal lt) (M : List E)
    (hM : M.Pairwise (fun a b => lt b a = false)) (p : E → Bool) :
    UpClosedAlong M p ↔ MonoOn M lt p :=
  Blue.Cursor.SeekGeneral.merged_closure_iff st M hM p

open Blue.Cursor.SeekGeneral in
/-- merging: interleaving preserves upward closure iff the predicate is also monotone across
    children (`Cross`: for entries `a < b` of different children, `p a → p b`) -/
theorem merging_closure_iff {E : Type} {lt : E → E → Bool} (st : StrictTotal lt) (tables : List (List E))
    (hs : ∀ t ∈ tables, t.Pairwise (fun a b => lt a b = true)) (p : E → Bool) :
    UpClosedAlong (mergedList lt tables) p ↔ (∀ t ∈ tables, UpClosedAlong t p) ∧ Cross tables lt p :=
  Blue.Cursor.SeekGeneral.merging_closure_iff st tables hs p

open Blue.Cursor.SeekGeneral in
/-- **`merging_refines_tables` for ANY seek predicate closed along the merged list** (the global
    `Mono lt pred` is not needed: the children evaluate the predicate on their own entries only) -/
theorem seek_general_predicate {E : Type} {lt : E → E → Bool} (st : StrictTotal lt) (cs : List (Ref E))
    (hs : ∀ c ∈ cs, c.xs.Pairwise (fun a b => lt a b = true)) (ops : List (Op E))
    (hops : ∀ pred, Op.seek pred ∈ ops → UpClosedAlong (mergedList lt (cs.map (·.xs))) pred) :
    (Merging.new lt cs).kv = (Ref.mk (mergedList lt (cs.map (·.xs))) 0).kv ∧
    Merging.run lt (Merging.new lt cs) ops = Ref.run ⟨mergedList lt (cs.map (·.xs)), 0⟩ ops :=
  Blue.Cursor.SeekGeneral.seek_general_predicate_along st cs hs ops hops

/-- a predicate that is not closed breaks the refinement: merging `[1,4] [2,5]`, `p = {1, 5}` -/
theorem seek_nonclosed_counterexample :
    let pred : Nat → Bool := fun e => e == 1 || e == 5
    Merging.run Blue.Cursor.SeekGeneral.natLt (Merging.new Blue.Cursor.SeekGeneral.natLt [⟨[1, 4], 0⟩, ⟨[2, 5], 0⟩])
        [.seek pred, .next, .next] = [some 1, some 4, some 5]
      ∧ Ref.run ⟨[1, 2, 4, 5], 0⟩ [.seek pred, .next, .next] = [some 1, some 2, some 4]
      ∧ ¬ Blue.Cursor.SeekGeneral.UpClosedAlong (mergedList Blue.Cursor.SeekGeneral.natLt [[1, 4], [2, 5]]) pred :=
  Blue.Cursor.SeekGeneral.seek_nonclosed_counterexample

/-- closed along each child is not enough for merging -/
theorem seek_closed_children_not_merge :
    let pred : Nat → Bool := fun e => e == 1 || e == 4 || e == 5
    Blue.Cursor.SeekGeneral.UpClosedAlong [1, 4] pred ∧ Blue.Cursor.SeekGeneral.UpClosedAlong [2, 5] pred
      ∧ ¬ Blue.Cursor.SeekGeneral.Cross [[1, 4], [2, 5]] Blue.Cursor.SeekGeneral.natLt pred
      ∧ ¬ Blue.Cursor.SeekGeneral.UpClosedAlong (mergedList Blue.Cursor.SeekGeneral.natLt [[1, 4], [2, 5]]) pred
      ∧ Merging.run Blue.Cursor.SeekGeneral.natLt (Merging.new Blue.Cursor.SeekGeneral.natLt [⟨[1, 4], 0⟩, ⟨[2, 5], 0⟩])
          [.seek pred, .next] = [some 1, some 4]
      ∧ Ref.run ⟨[1, 2, 4, 5], 0⟩ [.seek pred, .next] = [some 1, some 2] :=
  Blue.Cursor.SeekGeneral.closed_children_not_merge

/-- … and the concatenating cursor: children `[1,2] [4,5]`, `p = {1, 5}` -/
theorem seek_nonclosed_counterexample_concat :
    let pred : Nat → Bool := fun e => e == 1 || e == 5
    Concat.run (Concat.new [⟨[1, 2], 0⟩, ⟨[4, 5], 0⟩]) [.seek pred, .next, .next] = [some 5, none, none]
      ∧ Ref.run ⟨[1, 2, 4, 5], 0⟩ [.seek pred, .next, .next] = [some 1, some 2, some 4]
      ∧ ¬ PredMono [[1, 2], [4, 5]] pred :=
  Blue.Cursor.SeekGeneral.seek_nonclosed_counterexample_concat

/-- non-vacuity of `seek_general_predicate`: "at least 4, except 7" is NOT `Mono` on `Nat`, yet
    closed along the merge of `[1,4] [2,5]`; the theorem gives the refinement for every program
    seeking with it -/
example : ¬ Mono natLt (fun e => decide (4 ≤ e) && e != 7) := by
  intro h
  exact absurd (h 4 7 (by decide) (by decide)) (by decide)

example (ops : List (Op Nat))
    (hops : ∀ pred, Op.seek pred ∈ ops → pred = fun e => decide (4 ≤ e) && e != 7) :
    Merging.run natLt (Merging.new natLt [⟨[1, 4], 0⟩, ⟨[2, 5], 0⟩]) ops
      = Ref.run ⟨mergedList natLt [[1, 4], [2, 5]], 0⟩ ops :=
  (seek_general_predicate natLt_strictTotal [⟨[1, 4], 0⟩, ⟨[2, 5], 0⟩] (by decide) ops
    (by
      intro pred hp
      rw [hops pred hp]
      show Blue.Cursor.SeekGeneral.UpClosedAlong (mergedList natLt [[1, 4], [2, 5]]) _
      rw [show mergedList natLt [[1, 4], [2, 5]] = [1, 2, 4, 5] from Blue.Cursor.SeekGeneral.merged_14_25]
      rw [Blue.Cursor.SeekGeneral.upClosed_iff_pairwise]
      decide)).2

/-- `concat_closure_iff`, both sides true on a concrete instance -/
example : Blue.Cursor.SeekGeneral.UpClosedAlong ([[1, 2], [], [4, 5]] : List (List Nat)).flatten (fun e => decide (e ≥ 4))
    ∧ Blue.Cursor.SeekGeneral.Boundary ([[1, 2], [], [4, 5]] : List (List Nat)) (fun e => decide (e ≥ 4)) := by
  constructor
  · rw [Blue.Cursor.SeekGeneral.upClosed_iff_pairwise]; decide
  · unfold Blue.Cursor.SeekGeneral.Boundary; decide
-- END SeekGeneral

-- BEGIN MergingDupPayload
/-! ## the malformed case: one (key, timestamp) with DIFFERENT payloads in different children

Entries are `K × P`: `K` the compared part (key, timestamp), `P` the payload (value bytes / tombstone),
which `Comparator::is_less` never reads (`DupPayload.ltP ltK a b = ltK a.1 b.1`).  The merging cursor
does NOT collapse duplicates: every holder's copy is shown, in a row.  Which copy comes first is
decided by the implicit heap — `percolate_down` SWAPS on a tie (merging_cursor.rs:107-115) and takes
the right child when the left is not less (96-106) — not by the child index, and it can differ
between the directions and with the history of calls (examples below). -/
open DupPayload in
/-- **what the merging cursor does on equal (key, ts) with different payloads**: for ANY children
    whose `K` projections are strictly sorted (payloads arbitrary) and every program whose seek
    predicates read `K` only, the shown (key, ts) sequence is the reference merge WITH multiplicity
    of the projected children, and every entry shown, payload included, is an entry of a child. -/
theorem merging_dup_payload_choice {K P : Type} {ltK : K → K → Bool} (st : StrictTotal ltK)
    (cs : List (Ref (K × P)))
    (hs : ∀ c ∈ cs, (c.xs.map Prod.fst).Pairwise (fun a b => ltK a b = true))
    (opsK : List (Op K)) (hops : ∀ pred, Op.seek pred ∈ opsK → Mono ltK pred) :
    (Merging.new (ltP ltK) cs).kv.map Prod.fst
        = (Ref.mk (mergedList ltK (cs.map (fun c => c.xs.map Prod.fst))) 0).kv ∧
    (Merging.run (ltP ltK) (Merging.new (ltP ltK) cs) (opsK.map liftOp)).map (Option.map Prod.fst)
        = Ref.run ⟨mergedList ltK (cs.map (fun c => c.xs.map Prod.fst)), 0⟩ opsK ∧
    (∀ e, some e ∈ Merging.run (ltP ltK) (Merging.new (ltP ltK) cs) (opsK.map liftOp) →
        ∃ c ∈ cs, e ∈ c.xs) :=
  Blue.Cursor.merging_dup_payload_choice st cs hs opsK hops

open DupPayload in
/-- two children holding only key 1 (payloads 10, 20): the second child's copy is first forward AND
    first backward — the backward walk is not the mirror of the forward walk -/
theorem merging_dup_payload_example_same :
    walk [mk [(1,10)], mk [(1,20)]] fwd4 = [none, some (1,20), some (1,10), none, none] ∧
    walk [mk [(1,10)], mk [(1,20)]] bwd4 = [none, some (1,20), some (1,10), none, none] :=
  DupPayload.merging_dup_payload_example_same

open DupPayload in
/-- A = [0, 1], B = [1]: B's copy first forward, A's copy first backward -/
theorem merging_dup_payload_example_mirror :
    walk [mk [(0,9),(1,10)], mk [(1,20)]] fwd4 = [none, some (0,9), some (1,20), some (1,10), none] ∧
    walk [mk [(0,9),(1,10)], mk [(1,20)]] bwd4 = [none, some (1,10), some (1,20), some (0,9), none] :=
  DupPayload.merging_dup_payload_example_mirror

open DupPayload in
/-- A = [1], B = [0, 1]: now A's copy is first forward: the winner is not a function of the index -/
theorem merging_dup_payload_example_index :
    walk [mk [(1,10)], mk [(0,19),(1,20)]] fwd4 = [none, some (0,19), some (1,10), some (1,20), none] ∧
    walk [mk [(1,10)], mk [(0,19),(1,20)]] bwd4 = [none, some (1,20), some (1,10), some (0,19), none] :=
  DupPayload.merging_dup_payload_example_index

open DupPayload in
/-- **the scan stack Bounds(Pruning(Merging[children]))**: when the pruning and bounds
    configurations read the `K` part only (the copies may differ in value bytes, not in being a
    tombstone), the (key, ts) sequence a scan shows under every program is that of the stack over the
    projected children — the stack `scan_stack_dups` / `scan_spec_dups` describe; no hypothesis on
    the children, the order or the program.  Payloads and tie-breaking decide only WHICH holder's
    payload is shown (under `FamilyW` all holders' copies are identical and the choice is immaterial). -/
theorem scan_dup_payload_winner {K P K' : Type} [DecidableEq K'] (ltK : K → K → Bool)
    (pcfg : PruneCfg K K') (bcfg : BoundsCfg K) (fuel : Nat) (cs : List (Ref (K × P)))
    (opsK : List (Op K)) :
    (obs (BoundsC.cur (PruningC.cur (MergingC.cur (RefCur (K × P)) (ltP ltK)) (liftCfg Prod.fst pcfg) fuel)
            (liftBCfg Prod.fst bcfg) fuel)
        (BoundsC.new (PruningC.cur (MergingC.cur (RefCur (K × P)) (ltP ltK)) (liftCfg Prod.fst pcfg) fuel)
          (liftBCfg Prod.fst bcfg)
          (PruningC.new (MergingC.cur (RefCur (K × P)) (ltP ltK))
            (MergingC.new (RefCur (K × P)) (ltP ltK) cs)))
        (opsK.map liftOp)).map (Option.map Prod.fst)
      = obs (BoundsC.cur (PruningC.cur (MergingC.cur (RefCur K) ltK) pcfg fuel) bcfg fuel)
          (BoundsC.new (PruningC.cur (MergingC.cur (RefCur K) ltK) pcfg fuel) bcfg
            (PruningC.new (MergingC.cur (RefCur K) ltK) (MergingC.new (RefCur K) ltK (cs.map proj))))
          opsK :=
  Blue.Cursor.scan_dup_payload_winner ltK pcfg bcfg fuel cs opsK

open DupPayload in
/-- Pruning(Merging) over two children holding only key 1 (payloads 10, 20): the forward scan
    returns 10, the backward scan 20 — the payload a scan returns for a key depends on the direction -/
theorem scan_dup_payload_example_differs :
    scan [mk [(1,10)], mk [(1,20)]] fwd4 = [none, some (1,10), none, none, none] ∧
    scan [mk [(1,10)], mk [(1,20)]] bwd4 = [none, some (1,20), none, none, none] :=
  DupPayload.scan_dup_payload_example_differs

open DupPayload in
/-- outside `scan_dup_payload_winner` (the tombstone flag reads the payload): one child holds key 1
    as a tombstone, the other with value 20, same timestamp: forward the key is deleted, backward it
    is present; with the children swapped the other way round — even the SET of keys depends on the
    direction and on tie-breaking -/
theorem scan_dup_payload_example_tombstone :
    scanT [mk [(1,0)], mk [(1,20)]] fwd4 = [none, none, none, none, none] ∧
    scanT [mk [(1,0)], mk [(1,20)]] bwd4 = [none, some (1,20), none, none, none] ∧
    scanT [mk [(1,20)], mk [(1,0)]] fwd4 = [none, some (1,20), none, none, none] ∧
    scanT [mk [(1,20)], mk [(1,0)]] bwd4 = [none, none, none, none, none] :=
  DupPayload.scan_dup_payload_example_tombstone

/-- non-vacuity of `merging_dup_payload_choice`: children `[(0,9),(1,10)] [(1,20)]` (key 1 with two
    payloads), every program: the keys shown are those of the cursor over `[0, 1, 1]` -/
example (opsK : List (Op Nat)) (hops : ∀ pred, Op.seek pred ∈ opsK → Mono natLt pred) :
    (Merging.run (DupPayload.ltP natLt) (Merging.new (DupPayload.ltP natLt) [⟨[(0,9),(1,10)], 0⟩, ⟨[(1,20)], 0⟩])
        (opsK.map DupPayload.liftOp)).map (Option.map Prod.fst)
      = Ref.run ⟨mergedList natLt [[0, 1], [1]], 0⟩ opsK :=
  (merging_dup_payload_choice (P := Nat) natLt_strictTotal [⟨[(0,9),(1,10)], 0⟩, ⟨[(1,20)], 0⟩] (by decide) opsK hops).2.1
-- END MergingDupPayload

end Blue.Props.C11

#print axioms Blue.Props.C11.merging_refines
#print axioms Blue.Props.C11.merging_subst
#print axioms Blue.Props.C11.merging_over
#print axioms Blue.Props.C11.merging_refines_dups
#print axioms Blue.Props.C11.merging_over_dups
#print axioms Blue.Props.C11.merged_with_multiplicity
#print axioms Blue.Props.C11.family_is_familyW
#print axioms Blue.Props.C11.exists_familyW
#print axioms Blue.Props.C11.exists_family
#print axioms Blue.Props.C11.merging_refines_tables
#print axioms Blue.Props.C11.mergedList_is_sorted_union
#print axioms Blue.Props.C11.merging_over_tables
#print axioms Blue.Props.C11.seek_key_mono
#print axioms Blue.Props.C11.seek_key_predMono
#print axioms Blue.Props.C11.seek_key_monoAlong
#print axioms Blue.Props.C11.seek_key_seekPred
#print axioms Blue.Props.C11.concat_refines
#print axioms Blue.Props.C11.concat_subst
#print axioms Blue.Props.C11.concat_over
#print axioms Blue.Props.C11.bounds_refines
#print axioms Blue.Props.C11.bounds_new_related
#print axioms Blue.Props.C11.bounds_refines_new
#print axioms Blue.Props.C11.in_range_is_the_interval
#print axioms Blue.Props.C11.in_range_is_bounds_cursor_tests
#print axioms Blue.Props.C11.bounds_subst
#print axioms Blue.Props.C11.bounds_over
#print axioms Blue.Props.C11.bounds_hypothesis_of_sorted
#print axioms Blue.Props.C11.bounds_window_is_interval
#print axioms Blue.Props.C11.pruning_refines
#print axioms Blue.Props.C11.pruning_subst
#print axioms Blue.Props.C11.pruning_over
#print axioms Blue.Props.C11.pruning_hypothesis_of_sorted
#print axioms Blue.Props.C11.pruned_is_newest_visible
#print axioms Blue.Props.C11.lazy_refines
#print axioms Blue.Props.C11.lazy_subst
#print axioms Blue.Props.C11.lazy_over
#print axioms Blue.Props.C11.bounds_prevOld_counterexample
#print axioms Blue.Props.C11.concat_nextOld_counterexample
#print axioms Blue.Props.C11.concat_seekOld_counterexample
#print axioms Blue.Props.C11.concat_seek_effects_invisible
#print axioms Blue.Props.C11.concat_seek_effects_invariant
#print axioms Blue.Props.C11.concat_resets_ref
#print axioms Blue.Props.C11.concat_resets_lazy
#print axioms Blue.Props.C11.concatS_refines
#print axioms Blue.Props.C11.concatS_lazy_refines
#print axioms Blue.Props.C11.concatS_state_differs
#print axioms Blue.Props.C11.seek_closure_concat
#print axioms Blue.Props.C11.seek_closure_bounds
#print axioms Blue.Props.C11.seek_closure_pruning
#print axioms Blue.Props.C11.concat_closure_iff
#print axioms Blue.Props.C11.merged_closure_iff
#print axioms Blue.Props.C11.merging_closure_iff
#print axioms Blue.Props.C11.seek_general_predicate
#print axioms Blue.Props.C11.seek_nonclosed_counterexample
#print axioms Blue.Props.C11.seek_closed_children_not_merge
#print axioms Blue.Props.C11.seek_nonclosed_counterexample_concat
#print axioms Blue.Props.C11.merging_dup_payload_choice
#print axioms Blue.Props.C11.merging_dup_payload_example_same
#print axioms Blue.Props.C11.merging_dup_payload_example_mirror
#print axioms Blue.Props.C11.merging_dup_payload_example_index
#print axioms Blue.Props.C11.scan_dup_payload_winner
#print axioms Blue.Props.C11.scan_dup_payload_example_differs
#print axioms Blue.Props.C11.scan_dup_payload_example_tombstone
