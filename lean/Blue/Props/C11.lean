import Blue.Proofs.LazyC
import Blue.Proofs.Lazy
import Blue.Proofs.MergingMain
import Blue.Proofs.PruningMain
import Blue.Proofs.BoundsMain
import Blue.Proofs.ConcatMain
import Blue.Proofs.AsIs
/-! Property C11: the theorems the check builds and audits (spike inventory; the build phase
    completes the list from DESIGN Appendix C.0). -/
#print axioms Blue.Cursor.merging_refines
#print axioms Blue.Cursor.pruning_refines
#print axioms Blue.Cursor.bounds_refines
#print axioms Blue.Cursor.lazy_refines
#print axioms Blue.Cursor.concat_refines
#print axioms Blue.Cursor.lazy_over
