import Blue.Proofs.TupleKey1Parse
import Blue.Proofs.TupleKey2T
import Blue.Proofs.ConstsTieC16
/-! # Property C16 — tuple-key encodings sort byte-wise exactly as their tuples, and decode back

Property theorems only (helper lemmas live in `Blue/Proofs/{TupleKey1,TupleKey2,Digits,TupleString,
TupleDecode,TupleStringDecode,TupleKey1T,TupleKey1Parse,TupleKey2T}.lean`).

Two models, both tied to the crates byte for byte by the correspondence check:
* `Blue.TupleKey1` — the field-numbered format (`tuple_key`): tag = rotated varint of
  `field << 4 | discriminant`, seven data bits per byte with a low continuation bit,
  `reverse_encoding` for `Direction::Reverse`, `TupleKeyIterator`/`TupleKeyParser`.
* `Blue.TupleKey2` — the compact format (`tuple_key2`): length-tagged big-endian integers,
  `00 → 00 ff` escaped byte strings with `00 00` terminator, `TupleKeyParser` with its `Error`s.

`Strong enc lt` says: whenever `lt a b`, `enc a ++ x` is byte-wise below `enc b ++ y` *whatever*
`x` and `y` are — order embedding and self-delimitation at once, which is what makes tuples compose
(`strong_pair`) and keeps keys with a common prefix contiguous.

The one place where the property is false is stated as theorems too: descending strings of the
field-numbered format (D-20) — `string_desc_counterexample`, and exactly which pairs go wrong:
`string_desc_partial` (all pairs outside `ContTie` are right) and `string_desc_tie_ascending`
(all pairs inside `ContTie` are wrong). -/
namespace Blue.Props.C16
open Blue.TupleKey2 (blt Strong slt)

/-! ## constants are the ones in the Rust source (regenerated every run) -/

section Consts
open Blue.TupleKey1

/-- `to_discriminant`, in the order (unit, fixed32, fixed64, sfixed32, sfixed64, string) × (Forward, Reverse) -/
theorem discriminants_from_source :
    [discriminant .unit .fwd, discriminant .u32 .fwd, discriminant .u64 .fwd, discriminant .i32 .fwd,
     discriminant .i64 .fwd, discriminant .str .fwd, discriminant .unit .rev, discriminant .u32 .rev,
     discriminant .u64 .rev, discriminant .i32 .rev, discriminant .i64 .rev, discriminant .str .rev]
      = Blue.Generated.tk1Discriminants := Blue.ConstsTie.tk1_discriminants

/-- `from_discriminant` on every value of `x as u8 & 15` -/
theorem from_discriminant_from_source :
    (List.range 16).map (fun n => Blue.ConstsTie.tyDirCode (fromDiscriminant n)) = Blue.Generated.tk1FromDiscriminant :=
  Blue.ConstsTie.tk1_from_discriminant

/-- `ordered::DIVIDE_32/64` -/
theorem signed_offsets_from_source :
    offsetI32 0 = Blue.Generated.tk1Divide32 ∧ offsetI64 0 = Blue.Generated.tk1Divide64
    ∧ decI32 (encU32 0) = some (-(Blue.Generated.tk1Divide32 : Int))
    ∧ decI64 (encU64 0) = some (-(Blue.Generated.tk1Divide64 : Int)) := Blue.ConstsTie.tk1_offsets

/-- `prototk::FieldNumber::new` -/
theorem field_numbers_from_source :
    firstFieldNumber = Blue.Generated.fieldFirst ∧ lastFieldNumber = Blue.Generated.fieldLast
    ∧ firstReservedFieldNumber = Blue.Generated.fieldFirstReserved
    ∧ lastReservedFieldNumber = Blue.Generated.fieldLastReserved := Blue.ConstsTie.field_numbers

/-- the tag bytes of the compact format -/
theorem compact_tags_from_source :
    Blue.TupleKey2.SIGNED_NEG_BASE = Blue.Generated.tk2SignedNegBase
    ∧ Blue.TupleKey2.SIGNED_NEG_LAST = Blue.Generated.tk2SignedNegLast
    ∧ Blue.TupleKey2.SIGNED_NONNEG_BASE = Blue.Generated.tk2SignedNonnegBase
    ∧ Blue.TupleKey2.SIGNED_NONNEG_LAST = Blue.Generated.tk2SignedNonnegLast
    ∧ Blue.TupleKey2.UNSIGNED_BASE = Blue.Generated.tk2UnsignedBase
    ∧ Blue.TupleKey2.UNSIGNED_LAST = Blue.Generated.tk2UnsignedLast
    ∧ Blue.TupleKey2.UNIT_TAG = Blue.Generated.tk2UnitTag := Blue.ConstsTie.tk2_tags

end Consts

/-! ## field-numbered format: every element type, both directions -/
section FieldNumbered
open Blue.TupleKey1

theorem u32_asc : Strong encU32 (fun a b => a < b ∧ b < 4294967296) := encU32_strong
theorem u32_desc : Strong (fun v => reverse (encU32 v)) (fun a b => b < a ∧ a < 4294967296) := encU32_rev_strong
theorem u64_asc : Strong encU64 (fun a b => a < b ∧ b < 18446744073709551616) := encU64_strong
theorem u64_desc : Strong (fun v => reverse (encU64 v)) (fun a b => b < a ∧ a < 18446744073709551616) :=
  encU64_rev_strong
theorem i32_asc : Strong encI32 (fun a b => a < b ∧ -2147483648 ≤ a ∧ b < 2147483648) := encI32_strong
theorem i32_desc : Strong (fun v => reverse (encI32 v)) (fun a b => b < a ∧ -2147483648 ≤ b ∧ a < 2147483648) :=
  encI32_rev_strong
theorem i64_asc : Strong encI64 (fun a b => a < b ∧ -9223372036854775808 ≤ a ∧ b < 9223372036854775808) :=
  encI64_strong
theorem i64_desc :
    Strong (fun v => reverse (encI64 v)) (fun a b => b < a ∧ -9223372036854775808 ≤ b ∧ a < 9223372036854775808) :=
  encI64_rev_strong

/-- ascending strings: byte strings compare as their encodings, a string before its extensions -/
theorem string_asc : Strong encString (fun s t => blt s t = true ∧ Bytes s ∧ Bytes t) := encString_strong

/-- **D-20** descending strings do NOT sort in reverse (`""` vs `"\0"`) -/
theorem string_desc_counterexample : ¬ Strong (fun s => reverse (encString s)) (fun a b => slt b a) :=
  Blue.TupleKey1.string_desc_counterexample

/-- descending strings, what does hold: every pair whose forward encodings first differ in a
    data bit.  `_partial` because the full statement is `string_desc_counterexample`-false; the
    excluded pairs are exactly `ContTie` (decidable: `contTie_decidable`). -/
theorem string_desc_partial :
    Strong (fun s => reverse (encString s))
      (fun s t => blt t s = true ∧ Bytes s ∧ Bytes t ∧ ¬ ContTie (encString t) (encString s)) :=
  Blue.TupleKey1.string_desc_partial

/-- **D-20, the whole class**: every pair whose forward encodings first differ in the
    continuation bit keeps its ascending order under `Direction::Reverse` -/
theorem string_desc_tie_ascending (s t : List Nat) (h : ContTie (encString s) (encString t)) (x y : List Nat) :
    blt (reverse (encString s) ++ x) (reverse (encString t) ++ y) = true :=
  Blue.TupleKey1.string_desc_tie_ascending s t h x y

/-- the trigger is what the driver computes on every pair (`tie=` in the observation) -/
theorem contTie_decidable (x y : List Nat) : ContTie x y ↔ contTieB x y = true := contTie_iff x y

/-- every pair of strings in ascending order is decided either in data bits or in the
    continuation bit: nothing else can happen, so D-20's class is complete -/
theorem string_pairs_dichotomy {s t : List Nat} (h : blt s t = true) (hs : Bytes s) (ht : Bytes t) :
    DataLt (encString s) (encString t) ∨ ContTie (encString s) (encString t) :=
  strong_dichotomy encString_strong (a := s) (b := t) ⟨h, hs, ht⟩

/-- one tagged field (`extend_with_key`): tag, then the element, inverted if `Reverse` -/
theorem field_order (f : Nat) (d : Dir) :
    Strong (encField f d) (fun a b => a.InRange ∧ b.InRange ∧ fieldLt d a b) := encField_strong f d

/-- **tuples**: two tuples with the same field numbers and directions compare element by element
    (reversed per descending element; descending strings minus D-20's pairs), whatever follows -/
theorem tuple_order : Strong encTuple (fun a b => TupleInRange a ∧ TupleInRange b ∧ tupleLt a b) :=
  encTuple_strong

/-- prefix contiguity: a tuple sorts before each of its extensions … -/
theorem tuple_extension_after (t e : List (Nat × Dir × Val)) (he : e ≠ []) :
    blt (encTuple t) (encTuple (t ++ e)) = true := Blue.TupleKey1.tuple_extension_after t e he

/-- … and every extension of `t` sorts before everything that sorts after `t` -/
theorem tuple_extension_before (t t' e e' : List (Nat × Dir × Val))
    (ht : TupleInRange t) (ht' : TupleInRange t') (h : tupleLt t t') :
    blt (encTuple (t ++ e)) (encTuple (t' ++ e')) = true :=
  Blue.TupleKey1.tuple_extension_before t t' e e' ht ht' h

/-- element decoders invert the encoders; other widths are rejected -/
theorem element_decoders :
    (∀ x, x < 4294967296 → decU32 (encU32 x) = some x)
    ∧ (∀ x, x < 18446744073709551616 → decU64 (encU64 x) = some x)
    ∧ (∀ x : Int, -2147483648 ≤ x → x < 2147483648 → decI32 (encI32 x) = some x)
    ∧ (∀ x : Int, -9223372036854775808 ≤ x → x < 9223372036854775808 → decI64 (encI64 x) = some x)
    ∧ (∀ s, Bytes s → decString (encString s) = s)
    ∧ (∀ bs : List Nat, bs.length ≠ 5 → decU32 bs = none) :=
  ⟨decU32_enc, decU64_enc, decI32_enc, decI64_enc, decString_encString, decU32_width⟩

/-- **round trip**: `TupleKeyParser` with the writer's element sequence returns the tuple — in
    both directions, descending strings included — and stands exactly behind the key -/
theorem tuple_roundtrip (t : List (Nat × Dir × Val)) (h : ∀ e ∈ t, ElemOk e) (rest : List Nat) :
    parseRow (schemaOf t) (encTuple t ++ rest) = (t.map (fun e => e.2.2), .ok rest) :=
  parseRow_encTuple t h rest

end FieldNumbered

/-! ## compact format -/
section Compact
open Blue.TupleKey2

theorem compact_u64 : Strong encodeU64 (fun a b => a < b) := encodeU64_strong
theorem compact_i64 : Strong encodeI64 (fun a b => a < b ∧ I64 a ∧ I64 b) := encodeI64_strong
theorem compact_bytes : Strong encodeBytes slt := encodeBytes_strong

/-- lexicographic pairs of strong encodings are strong (the step of every tuple theorem) -/
theorem strong_pair {α β : Type} {ea : α → List Nat} {eb : β → List Nat}
    {la : α → α → Prop} {lb : β → β → Prop} (ha : Strong ea la) (hb : Strong eb lb) :
    Strong (fun p : α × β => ea p.1 ++ eb p.2) (fun p q => la p.1 q.1 ∨ (p.1 = q.1 ∧ lb p.2 q.2)) :=
  Blue.TupleKey2.strong_pair ha hb

/-- **tuples**, as the builder the driver runs encodes them -/
theorem compact_tuple_order {ra rb : List (Ty × Val)} {ea eb : List Nat}
    (ha : encRow ra = some ea) (hb : encRow rb = some eb)
    (ia : RowInRange (ra.map (·.2))) (ib : RowInRange (rb.map (·.2)))
    (h : rowLt (ra.map (·.2)) (rb.map (·.2))) (x y : List Nat) : blt (ea ++ x) (eb ++ y) = true :=
  encRow_strong ha hb ia ib h x y

theorem compact_extension_after (t e : List Val) (he : e ≠ []) : blt (encVals t) (encVals (t ++ e)) = true :=
  vals_extension_after t e he

theorem compact_extension_before (t t' e e' : List Val) (ht : RowInRange t) (ht' : RowInRange t')
    (h : rowLt t t') : blt (encVals (t ++ e)) (encVals (t' ++ e')) = true :=
  vals_extension_before t t' e e' ht ht' h

/-- element parsers invert the builder and hand over exactly what follows -/
theorem compact_element_decoders :
    (∀ v rest, v < 18446744073709551616 → parseU64 (encodeU64 v ++ rest) = .ok (v, rest))
    ∧ (∀ z rest, I64 z → parseI64 (encodeI64 z ++ rest) = .ok (z, rest))
    ∧ (∀ s rest fuel, (encodeBytes s).length ≤ fuel → parseBytes fuel (encodeBytes s ++ rest) = .ok (s, rest))
    ∧ (∀ s rest fuel, (encodeBytes s).length ≤ fuel → decodeBytes fuel (encodeBytes s ++ rest) = some (s, rest)) :=
  ⟨fun v rest h => parseU64_encode v h rest, fun z rest h => parseI64_encode z h rest,
   parseBytes_encode, decodeBytes_encode⟩

/-- **round trip**: the parser with the writer's type sequence returns the tuple and `finish`
    accepts (all eleven builder methods, with their range checks) -/
theorem compact_roundtrip (r : List (Ty × Val)) (h : ∀ e ∈ r, TyOk e.1 e.2) :
    parseRow (r.map (·.1)) (encVals (r.map (·.2))) = (r.map (·.2), none) := parseRow_encode r h

end Compact

/-! ## non-vacuity: the hypotheses are met by concrete, non-trivial inputs -/
section NonVacuity
open Blue.TupleKey1

-- a two-element tuple pair decided in the second, descending, element
example : tupleLt [(1, .fwd, .str [0x61]), (8, .rev, .i64 (-1))] [(1, .fwd, .str [0x61]), (8, .rev, .i64 (-2))] := by
  simp [tupleLt, fieldLt, Val.lt, NoTie]
example : TupleInRange [(1, .fwd, .str [0x61]), (8, .rev, .i64 (-1))] := by
  intro e he
  simp only [List.mem_cons, List.not_mem_nil, or_false] at he
  rcases he with rfl | rfl
  · intro b hb; simp only [List.mem_cons, List.not_mem_nil, or_false] at hb; omega
  · exact ⟨by omega, by omega⟩
-- a descending string pair outside D-20's class, and one inside
example : blt [0x61] [0x62] = true ∧ ¬ ContTie (encString [0x61]) (encString [0x62]) := by decide
example : ContTie (encString []) (encString [0]) := contTie_empty_zero
example : ContTie (encString [0x61, 0x62, 0x63, 0x64, 0x65, 0x66, 0x67])
    (encString [0x61, 0x62, 0x63, 0x64, 0x65, 0x66, 0x67, 0xff]) := by decide
-- an element that meets the round trip's conditions
example : ElemOk (536870911, .rev, .str [0xf4, 0x8f, 0xbf, 0xbf]) := by
  refine ⟨by decide, ?_, ?_⟩
  · intro b hb; simp only [List.mem_cons, List.not_mem_nil, or_false] at hb; omega
  · intro s hs; cases hs; decide
example : Blue.TupleKey2.TyOk .i8 (.int (-128)) ∧ Blue.TupleKey2.TyOk .str (.bytes [0xc3, 0xbf]) := by
  refine ⟨⟨by omega, by omega⟩, ?_⟩
  show Blue.Utf8.valid [0xc3, 0xbf] = true
  decide
example : Blue.TupleKey2.rowLt [.bytes [0], .int (-129)] [.bytes [0], .int (-128)] := by
  simp [Blue.TupleKey2.rowLt, Blue.TupleKey2.Val.lt]

end NonVacuity

end Blue.Props.C16

#print axioms Blue.Props.C16.discriminants_from_source
#print axioms Blue.Props.C16.from_discriminant_from_source
#print axioms Blue.Props.C16.signed_offsets_from_source
#print axioms Blue.Props.C16.field_numbers_from_source
#print axioms Blue.Props.C16.compact_tags_from_source
#print axioms Blue.Props.C16.u32_asc
#print axioms Blue.Props.C16.u32_desc
#print axioms Blue.Props.C16.u64_asc
#print axioms Blue.Props.C16.u64_desc
#print axioms Blue.Props.C16.i32_asc
#print axioms Blue.Props.C16.i32_desc
#print axioms Blue.Props.C16.i64_asc
#print axioms Blue.Props.C16.i64_desc
#print axioms Blue.Props.C16.string_asc
#print axioms Blue.Props.C16.string_desc_counterexample
#print axioms Blue.Props.C16.string_desc_partial
#print axioms Blue.Props.C16.string_desc_tie_ascending
#print axioms Blue.Props.C16.contTie_decidable
#print axioms Blue.Props.C16.string_pairs_dichotomy
#print axioms Blue.Props.C16.field_order
#print axioms Blue.Props.C16.tuple_order
#print axioms Blue.Props.C16.tuple_extension_after
#print axioms Blue.Props.C16.tuple_extension_before
#print axioms Blue.Props.C16.element_decoders
#print axioms Blue.Props.C16.tuple_roundtrip
#print axioms Blue.Props.C16.compact_u64
#print axioms Blue.Props.C16.compact_i64
#print axioms Blue.Props.C16.compact_bytes
#print axioms Blue.Props.C16.strong_pair
#print axioms Blue.Props.C16.compact_tuple_order
#print axioms Blue.Props.C16.compact_extension_after
#print axioms Blue.Props.C16.compact_extension_before
#print axioms Blue.Props.C16.compact_element_decoders
#print axioms Blue.Props.C16.compact_roundtrip
