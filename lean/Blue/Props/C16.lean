import Blue.Proofs.TupleStringDecode
import Blue.Proofs.TupleDecode
import Blue.Proofs.TupleKey2
import Blue.Proofs.TupleKey1
import Blue.Proofs.Digits
import Blue.Proofs.TupleString
/-! Property C16: the theorems the check builds and audits (spike inventory; the build phase
    completes the list from DESIGN Appendix C.0). -/
#print axioms Blue.TupleKey1.encString_strong
#print axioms Blue.TupleKey1.chunks_strong
#print axioms Blue.TupleKey1.decU32_enc
#print axioms Blue.TupleKey1.decI32_enc
#print axioms Blue.TupleKey1.decU32_width
#print axioms Blue.TupleKey1.decString_encString
