import Blue.Proofs.TupleKey1Parse
import Blue.Proofs.TupleKey1Scan
import Blue.Proofs.TupleKey2T
import Blue.Proofs.TupleKey2Scan
import Blue.Proofs.TupleEmbed1
import Blue.Proofs.ConstsTieC16
/-! # Property C16 — tuple-key encodings sort byte-wise exactly as their tuples, and decode back

Property theorems only (helper lemmas live in `Blue/Proofs/{TupleKey1,TupleKey2,Digits,TupleString,
TupleDecode,TupleStringDecode,TupleKey1T,TupleKey1Parse,TupleKey1Scan,TupleKey2T,TupleKey2Scan,TupleEmbed,TupleEmbed1}.lean`).

Two models, both tied to the crates byte for byte by the correspondence check:
* `Blue.TupleKey1` — the field-numbered format (`tuple_key`): tag = rotated varint of
  `field << 4 | discriminant`, seven data bits per byte with a low continuation bit,
  `reverse_encoding` for `Direction::Reverse`, `TupleKeyIterator`/`TupleKeyParser`.
* `Blue.TupleKey2` — the compact format (`tuple_key2`): length-tagged big-endian integers,
  `00 → 00 ff` escaped byte strings with `00 00` terminator, `TupleKeyParser` with its `Error`s.
  This format has no per-element directions (every element ascends).

`Strong enc lt` says: whenever `lt a b`, `enc a ++ x` is byte-wise below `enc b ++ y` *whatever*
`x` and `y` are — strict monotonicity and self-delimitation at once, which is what makes tuples
compose (`strong_pair`) and keeps keys with a common prefix contiguous.  `Strong` is ONE direction
(tuple order ⇒ byte order).  The other direction (byte order ⇒ tuple order), which makes it an
order embedding, is the family `*_iff` below: for two values of the same element type
`blt (enc a ++ x) (enc b ++ y) = true ↔ lt a b ∨ (a = b ∧ blt x y = true)`, from `Strong` and the
trichotomy of the order (`order_embedding`, `tupleLt_trichotomy`, `rowLt_trichotomy`); injectivity
of whole keys comes from the round trips (`tuple_injective`, `compact_injective`).

The one place where the property is false is stated as theorems too: descending strings of the
field-numbered format (D-20) — `string_desc_counterexample` (over all `List Nat`) and
`string_desc_counterexample_utf8` (inside the real domain: valid UTF-8 strings), and exactly which
pairs go wrong: `string_desc_order_exact` / `string_desc_correct_iff` (a descending pair is sorted
correctly iff it is outside `ContTie`), from `string_desc_partial` (all pairs outside `ContTie` are
right) and `string_desc_tie_ascending` (all pairs inside `ContTie` are wrong).

The schema-free walk of the field-numbered format (`scan`: `TupleKeyParser::peek_next` +
`parse_next` / `parse_next_with_key`, the loop of `Schema::schema_for_key_recurse`, run by the driver
with fuel `buf.length + 1`) has its own theorems: `unfield_number_inverts_field_number`,
`scan_roundtrip` (the walk over the key of `t` returns `t` — field numbers, directions, values, every
element type in both directions, descending strings included — and no error), `scan_fuel_stable` (any
fuel above the buffer length gives the same answer, so the theorems are about the function that is
run), `scan_append` / `scan_append_tuples` / `scan_prefix_determined` (keys are concatenations of
self-delimiting elements: the walk over `encTuple t ++ rest`, `rest` ANY bytes, is `t` followed by
the walk over `rest`).

"Decoding arbitrary bytes returns an error rather than panicking": the model decoders are total
functions, so "does not panic" has no content on the model and is observed on the implementation
(hostile-buffer streams, a panic is an oracle failure).  What the clause CAN say on a total model is
proved for the walk: `scan_total_no_overrun` (on ANY byte string the walk reads a prefix of the input
only — `Consumed`: the canonical tags and the iterator-cut raw slices of exactly the triples it
returns, each slice parsing to the value returned; no error only if the whole input was consumed; an
error only with bytes left, and it is the error of the first element of the remainder),
`scan_values_ok` (what it returns from any bytes is a tuple `extend_with_key` accepts),
`scan_normalises` and `scan_reencode_iff` (re-encoding the result gives the input back iff the input
is a key a writer can produce; raw value slices are NOT canonical for any element type — unit pad
byte, low bits of the last byte of the integers, pad bits of the last string chunk are ignored by
`parse_from` — only the tags are: `scan_noncanonical_*` examples), and for the typed parser of the
field-numbered format: `typed_total_no_overrun`, `typed_values_ok` (`parseRow` with ANY expected
element sequence on ANY bytes reads a prefix only, ends `ok` only behind the last expected element,
and an error is the error of `parse_next_with_key` for the first expected element that does not
parse).

The compact format's typed parser on ARBITRARY bytes (block `TupleKey2Scan` at the end of this file,
proofs in `Blue/Proofs/TupleKey2Scan.lean`; hypothesis `IsBytes buf` = the entries are bytes, which
is all a `&[u8]` can hold): `compact_parse_total_no_overrun` / `compact_calls_total_no_overrun`
(`parseRow` = the typed calls + `finish`, `compact_parse_is_calls_then_finish`: it consumes exactly
`encVals vals`, the concatenation of the canonical encodings of the values it returns, which fit the
expected types; success only behind the last expected element with NO byte left — `finish` rejects
trailing bytes as `TrailingBytes`, the calls alone hand them over as `remaining()` —; any other error is
the error of the first expected element that does not parse), `compact_parse_append` /
`compact_parse_append_rest` (a key followed by ANY bytes parses to the tuple followed by the parse of
those bytes), `compact_element_canonical` / `compact_parse_canonical` / `compact_reencode_iff` /
`compact_reencode` (unlike the field-numbered format there is NO accepted non-canonical input: what is
accepted is exactly what the builder writes; the near-canonical inputs are rejected,
`compact_noncanonical_rejected`; `compact_isBytes_needed` shows the hypothesis cannot be dropped in the
model), and truncation: `compact_truncation_element` (for EVERY element type every proper prefix of
an element's encoding is rejected by its typed call, `UnexpectedEnd` for unit and integers,
`UnterminatedBytes` for bytes and strings — no proper prefix parses as a shorter value),
`compact_truncation_key` (a proper prefix of a key returns the elements before the cut, then that
error), `compact_truncation_accepted_prefix_free` (the accepted inputs of a type sequence are
prefix-free), `compact_truncation_witnesses`.  This is the content "returns an error" has for the
compact format; "rather than panicking" stays an observation on the implementation. -/
namespace Blue.Props.C16
open Blue.TupleKey2 (blt Strong slt)

/-! ## constants are the ones in the Rust source (regenerated every run) -/

section Consts
open Blue.TupleKey1

/-- `to_discriminant`, in the order (unit, fixed32, fixed64, sfixed32, sfixed64, string) × (Forward, Reverse) -/
theorem discriminants_from_source :
    [discriminant .unit .fwd, discriminant .u32 .fwd, discriminant .u64 .fwd, discriminant .i32 .fwd,
     discriminant .i64 .fwd, discriminant .str .fwd, discriminant .unit .rev, discriminant .u32 .rev,
     discriminant .u64 .rev, discriminant .i32 .rev, discriminant .i64 .rev, discriminant .str .rev]
      = Blue.Generated.tk1Discriminants := Blue.ConstsTie.tk1_discriminants

/-- `from_discriminant` on every value of `x as u8 & 15` -/
theorem from_discriminant_from_source :
    (List.range 16).map (fun n => Blue.ConstsTie.tyDirCode (fromDiscriminant n)) = Blue.Generated.tk1FromDiscriminant :=
  Blue.ConstsTie.tk1_from_discriminant

/-- `ordered::DIVIDE_32/64` -/
theorem signed_offsets_from_source :
    offsetI32 0 = Blue.Generated.tk1Divide32 ∧ offsetI64 0 = Blue.Generated.tk1Divide64
    ∧ decI32 (encU32 0) = some (-(Blue.Generated.tk1Divide32 : Int))
    ∧ decI64 (encU64 0) = some (-(Blue.Generated.tk1Divide64 : Int)) := Blue.ConstsTie.tk1_offsets

/-- `prototk::FieldNumber::new` -/
theorem field_numbers_from_source :
    firstFieldNumber = Blue.Generated.fieldFirst ∧ lastFieldNumber = Blue.Generated.fieldLast
    ∧ firstReservedFieldNumber = Blue.Generated.fieldFirstReserved
    ∧ lastReservedFieldNumber = Blue.Generated.fieldLastReserved := Blue.ConstsTie.field_numbers

/-- the tag bytes of the compact format -/
theorem compact_tags_from_source :
    Blue.TupleKey2.SIGNED_NEG_BASE = Blue.Generated.tk2SignedNegBase
    ∧ Blue.TupleKey2.SIGNED_NEG_LAST = Blue.Generated.tk2SignedNegLast
    ∧ Blue.TupleKey2.SIGNED_NONNEG_BASE = Blue.Generated.tk2SignedNonnegBase
    ∧ Blue.TupleKey2.SIGNED_NONNEG_LAST = Blue.Generated.tk2SignedNonnegLast
    ∧ Blue.TupleKey2.UNSIGNED_BASE = Blue.Generated.tk2UnsignedBase
    ∧ Blue.TupleKey2.UNSIGNED_LAST = Blue.Generated.tk2UnsignedLast
    ∧ Blue.TupleKey2.UNIT_TAG = Blue.Generated.tk2UnitTag := Blue.ConstsTie.tk2_tags

end Consts

/-! ## field-numbered format: every element type, both directions -/
section FieldNumbered
open Blue.TupleKey1

theorem u32_asc : Strong encU32 (fun a b => a < b ∧ b < 4294967296) := encU32_strong
theorem u32_desc : Strong (fun v => reverse (encU32 v)) (fun a b => b < a ∧ a < 4294967296) := encU32_rev_strong
theorem u64_asc : Strong encU64 (fun a b => a < b ∧ b < 18446744073709551616) := encU64_strong
theorem u64_desc : Strong (fun v => reverse (encU64 v)) (fun a b => b < a ∧ a < 18446744073709551616) :=
  encU64_rev_strong
theorem i32_asc : Strong encI32 (fun a b => a < b ∧ -2147483648 ≤ a ∧ b < 2147483648) := encI32_strong
theorem i32_desc : Strong (fun v => reverse (encI32 v)) (fun a b => b < a ∧ -2147483648 ≤ b ∧ a < 2147483648) :=
  encI32_rev_strong
theorem i64_asc : Strong encI64 (fun a b => a < b ∧ -9223372036854775808 ≤ a ∧ b < 9223372036854775808) :=
  encI64_strong
theorem i64_desc :
    Strong (fun v => reverse (encI64 v)) (fun a b => b < a ∧ -9223372036854775808 ≤ b ∧ a < 9223372036854775808) :=
  encI64_rev_strong

/-- **the converse of `Strong`, generic**: where `lt` is trichotomous on the pair, the comparison
    of the two encodings (with anything behind them) is decided exactly by `lt`, and by what
    follows when the two values are equal — so a `Strong` encoding of a trichotomous order is an
    order embedding.  Every `*_iff` below is an instance. -/
theorem order_embedding {α : Type} {enc : α → List Nat} {lt : α → α → Prop} (h : Strong enc lt)
    {a b : α} (tri : lt a b ∨ a = b ∨ lt b a) (x y : List Nat) :
    blt (enc a ++ x) (enc b ++ y) = true ↔ lt a b ∨ (a = b ∧ blt x y = true) :=
  Blue.TupleKey2.strong_decides h tri x y

/-- byte order ⇒ value order, and injectivity, under the same trichotomy -/
theorem order_reflected {α : Type} {enc : α → List Nat} {lt : α → α → Prop} (h : Strong enc lt)
    {a b : α} (tri : lt a b ∨ a = b ∨ lt b a) :
    (blt (enc a) (enc b) = true → lt a b) ∧ (enc a = enc b → a = b) :=
  ⟨Blue.TupleKey2.strong_reflect h tri, Blue.TupleKey2.strong_injective h tri⟩

/-- `blt` (`<[u8] as Ord>::lt`) is a strict total order: asymmetric and trichotomous (irreflexive
    and transitive are `blt_irrefl`, `blt_trans`) -/
theorem byte_order_total (x y : List Nat) :
    (blt x y = true → blt y x = false) ∧ (blt x y = true ∨ x = y ∨ blt y x = true) :=
  ⟨Blue.TupleKey2.blt_asymm, Blue.TupleKey2.blt_trichotomy x y⟩

/-! integers of the field-numbered format: byte order ⇔ value order, ascending and descending -/
theorem u32_asc_iff {a b : Nat} (ha : a < 4294967296) (hb : b < 4294967296) (x y : List Nat) :
    blt (encU32 a ++ x) (encU32 b ++ y) = true ↔ a < b ∨ (a = b ∧ blt x y = true) := encU32_order_iff ha hb x y
theorem u32_desc_iff {a b : Nat} (ha : a < 4294967296) (hb : b < 4294967296) (x y : List Nat) :
    blt (reverse (encU32 a) ++ x) (reverse (encU32 b) ++ y) = true ↔ b < a ∨ (a = b ∧ blt x y = true) :=
  encU32_rev_order_iff ha hb x y
theorem u64_asc_iff {a b : Nat} (ha : a < 18446744073709551616) (hb : b < 18446744073709551616) (x y : List Nat) :
    blt (encU64 a ++ x) (encU64 b ++ y) = true ↔ a < b ∨ (a = b ∧ blt x y = true) := encU64_order_iff ha hb x y
theorem u64_desc_iff {a b : Nat} (ha : a < 18446744073709551616) (hb : b < 18446744073709551616) (x y : List Nat) :
    blt (reverse (encU64 a) ++ x) (reverse (encU64 b) ++ y) = true ↔ b < a ∨ (a = b ∧ blt x y = true) :=
  encU64_rev_order_iff ha hb x y
theorem i32_asc_iff {a b : Int} (ha : -2147483648 ≤ a ∧ a < 2147483648) (hb : -2147483648 ≤ b ∧ b < 2147483648)
    (x y : List Nat) :
    blt (encI32 a ++ x) (encI32 b ++ y) = true ↔ a < b ∨ (a = b ∧ blt x y = true) := encI32_order_iff ha hb x y
theorem i32_desc_iff {a b : Int} (ha : -2147483648 ≤ a ∧ a < 2147483648) (hb : -2147483648 ≤ b ∧ b < 2147483648)
    (x y : List Nat) :
    blt (reverse (encI32 a) ++ x) (reverse (encI32 b) ++ y) = true ↔ b < a ∨ (a = b ∧ blt x y = true) :=
  encI32_rev_order_iff ha hb x y
theorem i64_asc_iff {a b : Int} (ha : -9223372036854775808 ≤ a ∧ a < 9223372036854775808)
    (hb : -9223372036854775808 ≤ b ∧ b < 9223372036854775808) (x y : List Nat) :
    blt (encI64 a ++ x) (encI64 b ++ y) = true ↔ a < b ∨ (a = b ∧ blt x y = true) := encI64_order_iff ha hb x y
theorem i64_desc_iff {a b : Int} (ha : -9223372036854775808 ≤ a ∧ a < 9223372036854775808)
    (hb : -9223372036854775808 ≤ b ∧ b < 9223372036854775808) (x y : List Nat) :
    blt (reverse (encI64 a) ++ x) (reverse (encI64 b) ++ y) = true ↔ b < a ∨ (a = b ∧ blt x y = true) :=
  encI64_rev_order_iff ha hb x y

/-- ascending strings: byte strings compare as their encodings, a string before its extensions -/
theorem string_asc : Strong encString (fun s t => blt s t = true ∧ Bytes s ∧ Bytes t) := encString_strong

/-- ascending strings, both directions: the encodings (with anything behind them) compare exactly
    as the byte strings -/
theorem string_asc_iff {s t : List Nat} (hs : Bytes s) (ht : Bytes t) (x y : List Nat) :
    blt (encString s ++ x) (encString t ++ y) = true ↔ blt s t = true ∨ (s = t ∧ blt x y = true) :=
  encString_order_iff hs ht x y

/-- **D-20** descending strings do NOT sort in reverse (`""` vs `"\0"`).  Stated over all
    `List Nat` (a superset of the domain); `string_desc_counterexample_utf8` is the statement
    inside the domain. -/
theorem string_desc_counterexample : ¬ Strong (fun s => reverse (encString s)) (fun a b => slt b a) :=
  Blue.TupleKey1.string_desc_counterexample

/-- **D-20 inside the real domain**: restricted to byte strings that are valid UTF-8 (what a Rust
    `String` holds) descending strings still do not sort in reverse — the witness `""` / `"\0"`
    is a pair of valid strings -/
theorem string_desc_counterexample_utf8 :
    ¬ Strong (fun s => reverse (encString s))
        (fun a b => blt b a = true ∧ Bytes a ∧ Bytes b ∧ Blue.Utf8.valid a = true ∧ Blue.Utf8.valid b = true) :=
  Blue.TupleKey1.string_desc_counterexample_utf8

/-- descending strings, what does hold: every pair whose forward encodings first differ in a
    data bit.  `_partial` because the full statement is `string_desc_counterexample`-false; the
    excluded pairs are exactly `ContTie` (decidable: `contTie_decidable`). -/
theorem string_desc_partial :
    Strong (fun s => reverse (encString s))
      (fun s t => blt t s = true ∧ Bytes s ∧ Bytes t ∧ ¬ ContTie (encString t) (encString s)) :=
  Blue.TupleKey1.string_desc_partial

/-- **D-20, the whole class**: every pair whose forward encodings first differ in the
    continuation bit keeps its ascending order under `Direction::Reverse` -/
theorem string_desc_tie_ascending (s t : List Nat) (h : ContTie (encString s) (encString t)) (x y : List Nat) :
    blt (reverse (encString s) ++ x) (reverse (encString t) ++ y) = true :=
  Blue.TupleKey1.string_desc_tie_ascending s t h x y

/-- the trigger is what the driver computes on every pair (`tie=` in the observation) -/
theorem contTie_decidable (x y : List Nat) : ContTie x y ↔ contTieB x y = true := contTie_iff x y

/-- every pair of strings in ascending order is decided either in data bits or in the
    continuation bit: nothing else can happen, so D-20's class is complete (inclusive or;
    exclusivity is `string_pairs_exclusive`, the converse `string_pairs_iff`) -/
theorem string_pairs_dichotomy {s t : List Nat} (h : blt s t = true) (hs : Bytes s) (ht : Bytes t) :
    DataLt (encString s) (encString t) ∨ ContTie (encString s) (encString t) :=
  strong_dichotomy encString_strong (a := s) (b := t) ⟨h, hs, ht⟩

/-- the two cases exclude each other (for any two byte strings, not only encodings) -/
theorem string_pairs_exclusive {u v : List Nat} (h1 : DataLt u v) (h2 : ContTie u v) : False :=
  dataLt_contTie_exclusive h1 h2

/-- the dichotomy is an equivalence: `s < t` iff the encodings first differ in data bits or in
    the continuation bit, in that direction -/
theorem string_pairs_iff {s t : List Nat} (hs : Bytes s) (ht : Bytes t) :
    blt s t = true ↔ (DataLt (encString s) (encString t) ∨ ContTie (encString s) (encString t)) :=
  Blue.TupleKey1.string_pairs_iff hs ht

/-- … and exactly one of the two holds -/
theorem string_pairs_exactly_one {s t : List Nat} (h : blt s t = true) (hs : Bytes s) (ht : Bytes t) :
    (DataLt (encString s) (encString t) ∧ ¬ ContTie (encString s) (encString t))
    ∨ (ContTie (encString s) (encString t) ∧ ¬ DataLt (encString s) (encString t)) :=
  Blue.TupleKey1.string_pairs_exactly_one h hs ht

/-- **D-20, the exact order of descending strings**: the inverted encodings of `s` and `t` (with
    anything behind them) compare as `t < s` when the pair is outside `ContTie`, as `s < t` — the
    wrong way round — when the forward encodings of `s`, `t` first differ in the continuation
    bit, and by what follows when `s = t`; nothing else -/
theorem string_desc_order_exact {s t : List Nat} (hs : Bytes s) (ht : Bytes t) (x y : List Nat) :
    blt (reverse (encString s) ++ x) (reverse (encString t) ++ y) = true ↔
      ((blt t s = true ∧ ¬ ContTie (encString t) (encString s))
        ∨ ContTie (encString s) (encString t) ∨ (s = t ∧ blt x y = true)) :=
  Blue.TupleKey1.string_desc_order_exact hs ht x y

/-- **D-20's class is exact**: a pair `t < s` under `Direction::Reverse` is sorted the right way
    round (`s` first) iff it is outside `ContTie` -/
theorem string_desc_correct_iff {s t : List Nat} (hs : Bytes s) (ht : Bytes t) (h : blt t s = true)
    (x y : List Nat) :
    blt (reverse (encString s) ++ x) (reverse (encString t) ++ y) = true ↔ ¬ ContTie (encString t) (encString s) :=
  Blue.TupleKey1.string_desc_correct_iff hs ht h x y

/-- one tagged field (`extend_with_key`): tag, then the element, inverted if `Reverse` -/
theorem field_order (f : Nat) (d : Dir) :
    Strong (encField f d) (fun a b => a.InRange ∧ b.InRange ∧ fieldLt d a b) := encField_strong f d

/-- **tuples**: two tuples with the same field numbers and directions compare element by element
    (reversed per descending element; descending strings minus D-20's pairs), whatever follows -/
theorem tuple_order : Strong encTuple (fun a b => TupleInRange a ∧ TupleInRange b ∧ tupleLt a b) :=
  encTuple_strong

/-- one tagged field, both directions of the equivalence: two in-range values of the same element
    type (a descending string pair: outside D-20's class, `FieldTieFree`) compare in their encoded
    fields exactly as `fieldLt d`, or are equal and what follows decides -/
theorem field_order_iff (f : Nat) (d : Dir) {a b : Val} (ha : a.InRange) (hb : b.InRange)
    (hty : a.ty = b.ty) (hnt : FieldTieFree d a b) (x y : List Nat) :
    blt (encField f d a ++ x) (encField f d b ++ y) = true ↔ fieldLt d a b ∨ (a = b ∧ blt x y = true) :=
  encField_order_iff f d ha hb hty hnt x y

/-- `tupleLt` is trichotomous on tuples with the same field numbers, element types and directions
    (`schemaOf`: the property's quantifier), descending strings outside D-20's class -/
theorem tupleLt_trichotomy {a b : List (Nat × Dir × Val)} (hs : schemaOf a = schemaOf b) (hn : TupleTieFree a b) :
    tupleLt a b ∨ a = b ∨ tupleLt b a := Blue.TupleKey1.tupleLt_trichotomy hs hn

/-- **tuples, order embedding**: for two in-range tuples with the same field numbers, element types
    and directions (descending strings outside D-20's class) comparing the encoded keys — with
    anything behind them — gives the same result as comparing the tuples element by element -/
theorem tuple_order_iff {a b : List (Nat × Dir × Val)} (ia : TupleInRange a) (ib : TupleInRange b)
    (hs : schemaOf a = schemaOf b) (hn : TupleTieFree a b) (x y : List Nat) :
    blt (encTuple a ++ x) (encTuple b ++ y) = true ↔ tupleLt a b ∨ (a = b ∧ blt x y = true) :=
  encTuple_order_iff ia ib hs hn x y

/-- **injectivity** (from the round trip, D-20's pairs included): two tuples `extend_with_key`
    accepts, with the same field numbers, types and directions and the same key bytes, are equal -/
theorem tuple_injective {a b : List (Nat × Dir × Val)} (oa : ∀ e ∈ a, ElemOk e) (ob : ∀ e ∈ b, ElemOk e)
    (hs : schemaOf a = schemaOf b) (he : encTuple a = encTuple b) : a = b :=
  encTuple_injective oa ob hs he

/-- prefix contiguity: a tuple sorts before each of its extensions … -/
theorem tuple_extension_after (t e : List (Nat × Dir × Val)) (he : e ≠ []) :
    blt (encTuple t) (encTuple (t ++ e)) = true := Blue.TupleKey1.tuple_extension_after t e he

/-- … and every extension of `t` sorts before everything that sorts after `t` -/
theorem tuple_extension_before (t t' e e' : List (Nat × Dir × Val))
    (ht : TupleInRange t) (ht' : TupleInRange t') (h : tupleLt t t') :
    blt (encTuple (t ++ e)) (encTuple (t' ++ e')) = true :=
  Blue.TupleKey1.tuple_extension_before t t' e e' ht ht' h

/-- element decoders invert the encoders; other widths are rejected -/
theorem element_decoders :
    (∀ x, x < 4294967296 → decU32 (encU32 x) = some x)
    ∧ (∀ x, x < 18446744073709551616 → decU64 (encU64 x) = some x)
    ∧ (∀ x : Int, -2147483648 ≤ x → x < 2147483648 → decI32 (encI32 x) = some x)
    ∧ (∀ x : Int, -9223372036854775808 ≤ x → x < 9223372036854775808 → decI64 (encI64 x) = some x)
    ∧ (∀ s, Bytes s → decString (encString s) = s)
    ∧ (∀ bs : List Nat, bs.length ≠ 5 → decU32 bs = none) :=
  ⟨decU32_enc, decU64_enc, decI32_enc, decI64_enc, decString_encString, decU32_width⟩

/-- **round trip**: `TupleKeyParser` with the writer's element sequence returns the tuple — in
    both directions, descending strings included — and stands exactly behind the key -/
theorem tuple_roundtrip (t : List (Nat × Dir × Val)) (h : ∀ e ∈ t, ElemOk e) (rest : List Nat) :
    parseRow (schemaOf t) (encTuple t ++ rest) = (t.map (fun e => e.2.2), .ok rest) :=
  parseRow_encTuple t h rest


/-! ### the schema-free walk (`peek_next` + `parse_next` / `parse_next_with_key`) -/

/-- `TupleKey::unfield_number` inverts `TupleKey::field_number` on every field number
    `FieldNumber::new` accepts, for every element type and direction -/
theorem unfield_number_inverts_field_number {f : Nat} (hf : validField f = true) (ty : Ty) (d : Dir) :
    unfieldNumber (tag f ty d) = some (f, ty, d) := unfieldNumber_tag hf ty d

/-- the walk gives the same answer for every fuel above the buffer length (ANY buffer); the driver
    runs it with `buf.length + 1` -/
theorem scan_fuel_stable (fuel fuel' : Nat) (buf : List Nat) (h : buf.length < fuel) (h' : buf.length < fuel') :
    scan fuel buf = scan fuel' buf := Blue.TupleKey1.scan_fuel_stable fuel fuel' buf h h'

/-- **round trip of the schema-free walk**, as the driver runs it: the walk over the key of `t`
    returns exactly the (field number, direction, value) list of `t` and no error — every element
    type, both directions, descending strings (D-20 is about order, not decoding) included -/
theorem scan_roundtrip (t : List (Nat × Dir × Val)) (h : ∀ e ∈ t, ElemOk e) :
    scan ((encTuple t).length + 1) (encTuple t) = (t, none) := Blue.TupleKey1.scan_roundtrip t h

/-- the same for every fuel that is at least the number of elements -/
theorem scan_roundtrip_fuel (t : List (Nat × Dir × Val)) (h : ∀ e ∈ t, ElemOk e) (fuel : Nat) (hf : t.length ≤ fuel) :
    scan fuel (encTuple t) = (t, none) := scan_encTuple t h fuel hf

/-- **keys are concatenations of self-delimiting elements**: the walk over the key of `t` followed
    by ANY bytes is `t`, then the walk over those bytes (element boundaries are found from the
    continuation bits alone) -/
theorem scan_append (t : List (Nat × Dir × Val)) (h : ∀ e ∈ t, ElemOk e) (rest : List Nat) :
    scan ((encTuple t ++ rest).length + 1) (encTuple t ++ rest)
      = (t ++ (scan (rest.length + 1) rest).1, (scan (rest.length + 1) rest).2) :=
  Blue.TupleKey1.scan_append t h rest

/-- two keys, concatenated, walk to the two walks, concatenated -/
theorem scan_append_tuples (t u : List (Nat × Dir × Val)) (ht : ∀ e ∈ t, ElemOk e) (hu : ∀ e ∈ u, ElemOk e) :
    scan ((encTuple t ++ encTuple u).length + 1) (encTuple t ++ encTuple u)
      = ((scan ((encTuple t).length + 1) (encTuple t)).1 ++ (scan ((encTuple u).length + 1) (encTuple u)).1, none) :=
  Blue.TupleKey1.scan_append_tuples t u ht hu

/-- the first `t.length` results of a walk are determined by the key prefix `encTuple t` alone -/
theorem scan_prefix_determined (t : List (Nat × Dir × Val)) (h : ∀ e ∈ t, ElemOk e) (rest : List Nat) :
    (scan ((encTuple t ++ rest).length + 1) (encTuple t ++ rest)).1.take t.length = t :=
  Blue.TupleKey1.scan_prefix_determined t h rest

/-- **arbitrary bytes, no overrun** (the content "returns an error rather than panicking" has on a
    total model): on ANY byte string the walk, as the driver runs it, reads a prefix `pre` of the
    input only — `Consumed`: element by element the tag `field_number` makes for the returned triple,
    cut by `TupleKeyIterator::next`, then a non-empty raw slice cut by the iterator which `parse_from`
    (after `reverse_encoding` if descending) turns into the returned value, at least two bytes per
    returned triple; it reports no error only if it consumed the whole input, and an error `e` only
    if bytes remain and `e` is what one more peek + parse at the remainder fails with -/
theorem scan_total_no_overrun (buf : List Nat) :
    ∃ pre rest, buf = pre ++ rest ∧ Consumed buf (scan (buf.length + 1) buf).1 rest
      ∧ 2 * (scan (buf.length + 1) buf).1.length ≤ pre.length
      ∧ ((scan (buf.length + 1) buf).2 = none → rest = [])
      ∧ (∀ e, (scan (buf.length + 1) buf).2 = some e → rest ≠ [] ∧ scan 1 rest = ([], some e)) :=
  Blue.TupleKey1.scan_total_no_overrun buf

/-- the same for any fuel: the outcome is the outcome of the walk, with the fuel that is left, at
    what remains behind the consumed prefix, where nothing more is recognised -/
theorem scan_consumed (fuel : Nat) (buf : List Nat) :
    ∃ rest, Consumed buf (scan fuel buf).1 rest
      ∧ scan (fuel - (scan fuel buf).1.length) rest = ([], (scan fuel buf).2) :=
  Blue.TupleKey1.scan_consumed fuel buf

/-- `Consumed` is a prefix of the buffer -/
theorem consumed_prefix {buf : List Nat} {vs : List (Nat × Dir × Val)} {rest : List Nat} (h : Consumed buf vs rest) :
    ∃ pre, buf = pre ++ rest ∧ 2 * vs.length ≤ pre.length := h.prefix

/-- whatever the walk returns from ANY buffer of bytes is a tuple `extend_with_key` accepts -/
theorem scan_values_ok (fuel : Nat) (buf : List Nat) (hb : Bytes buf) : ∀ e ∈ (scan fuel buf).1, ElemOk e :=
  Blue.TupleKey1.scan_values_ok fuel buf hb

/-- the walk normalises: the key written from what it returned (from ANY bytes) walks back to
    exactly that -/
theorem scan_normalises (fuel : Nat) (buf : List Nat) (hb : Bytes buf) :
    scan ((encTuple (scan fuel buf).1).length + 1) (encTuple (scan fuel buf).1) = ((scan fuel buf).1, none) :=
  Blue.TupleKey1.scan_normalises fuel buf hb

/-- **the canonical class, exactly**: re-encoding what the walk returned gives the input back iff
    the input is a key a writer can produce.  Outside it the walk may still succeed (raw value slices
    are not canonical: `scan_noncanonical_*` below); it then returns a tuple whose key is different -/
theorem scan_reencode_iff (buf : List Nat) (hb : Bytes buf) :
    encTuple (scan (buf.length + 1) buf).1 = buf ↔ ∃ t, (∀ e ∈ t, ElemOk e) ∧ buf = encTuple t :=
  Blue.TupleKey1.scan_reencode_iff buf hb

/-- non-canonical raw slices, one per element kind: the walk succeeds and the value re-encodes to
    other bytes (unit: any single pad byte; 32-bit: the low four bits of the fifth byte; 64-bit: the
    low seven bits of the tenth byte; strings: the pad bits of the last chunk) -/
theorem scan_noncanonical_unit :
    scan 3 [34, 2] = ([(1, .fwd, .unit)], none) ∧ encTuple [(1, .fwd, .unit)] = [34, 0] := by decide
theorem scan_noncanonical_u32 :
    scan 7 [36, 1, 1, 1, 1, 14] = ([(1, .fwd, .u32 0)], none) ∧ encTuple [(1, .fwd, .u32 0)] = [36, 1, 1, 1, 1, 0] := by
  decide
theorem scan_noncanonical_u64 :
    scan 12 [38, 1, 1, 1, 1, 1, 1, 1, 1, 1, 126] = ([(1, .fwd, .u64 0)], none)
    ∧ encTuple [(1, .fwd, .u64 0)] = [38, 1, 1, 1, 1, 1, 1, 1, 1, 1, 0] := by decide
theorem scan_noncanonical_str :
    scan 4 [44, 97, 130] = ([(1, .fwd, .str [0x61])], none) ∧ encTuple [(1, .fwd, .str [0x61])] = [44, 97, 128] := by
  decide

/-- **the typed parser on arbitrary bytes** (`parse_next_with_key` per expected element, ANY
    expected sequence of valid field numbers, ANY bytes): it reads a prefix of the input only
    (`Consumed`, for exactly the values it returns, which have the expected types); it ends `ok` only
    behind the last expected element, handing over exactly what remains; it ends with an error only
    at an expected element and the error is what `parse_next_with_key` says for it at what remains -/
theorem typed_total_no_overrun (sch : List (Nat × Ty × Dir)) (buf : List Nat) (hs : ∀ s ∈ sch, validField s.1 = true) :
    ∃ rest, Consumed buf (rowTriples sch (parseRow sch buf).1) rest
      ∧ (parseRow sch buf).1.map Val.ty = (sch.take (parseRow sch buf).1.length).map (·.2.1)
      ∧ (∀ rem, (parseRow sch buf).2 = .ok rem → rem = rest ∧ (parseRow sch buf).1.length = sch.length)
      ∧ (∀ e, (parseRow sch buf).2 = .error e →
          ∃ f ty d, sch[(parseRow sch buf).1.length]? = some (f, ty, d) ∧ parseWithKey rest f ty d = .error e) :=
  parseRow_total_no_overrun sch buf hs

/-- what the typed parser returns from ANY buffer of bytes are values `extend_with_key` accepts -/
theorem typed_values_ok (sch : List (Nat × Ty × Dir)) (buf : List Nat) (hs : ∀ s ∈ sch, validField s.1 = true)
    (hb : Bytes buf) : ∀ e ∈ rowTriples sch (parseRow sch buf).1, ElemOk e := parseRow_values_ok sch buf hs hb

end FieldNumbered

/-! ## compact format -/
section Compact
open Blue.TupleKey2

theorem compact_u64 : Strong encodeU64 (fun a b => a < b) := encodeU64_strong
theorem compact_i64 : Strong encodeI64 (fun a b => a < b ∧ I64 a ∧ I64 b) := encodeI64_strong
theorem compact_bytes : Strong encodeBytes slt := encodeBytes_strong

/-! the converse for the compact elements: byte order ⇔ value order -/
theorem compact_u64_iff (a b : Nat) (x y : List Nat) :
    blt (encodeU64 a ++ x) (encodeU64 b ++ y) = true ↔ a < b ∨ (a = b ∧ blt x y = true) :=
  encodeU64_order_iff a b x y
theorem compact_i64_iff {a b : Int} (ha : I64 a) (hb : I64 b) (x y : List Nat) :
    blt (encodeI64 a ++ x) (encodeI64 b ++ y) = true ↔ a < b ∨ (a = b ∧ blt x y = true) :=
  encodeI64_order_iff ha hb x y
theorem compact_bytes_iff (a b : List Nat) (x y : List Nat) :
    blt (encodeBytes a ++ x) (encodeBytes b ++ y) = true ↔ slt a b ∨ (a = b ∧ blt x y = true) :=
  encodeBytes_order_iff a b x y

/-- lexicographic pairs of strong encodings are strong (the step of every tuple theorem) -/
theorem strong_pair {α β : Type} {ea : α → List Nat} {eb : β → List Nat}
    {la : α → α → Prop} {lb : β → β → Prop} (ha : Strong ea la) (hb : Strong eb lb) :
    Strong (fun p : α × β => ea p.1 ++ eb p.2) (fun p q => la p.1 q.1 ∨ (p.1 = q.1 ∧ lb p.2 q.2)) :=
  Blue.TupleKey2.strong_pair ha hb

/-- **tuples**, as the builder the driver runs encodes them -/
theorem compact_tuple_order {ra rb : List (Ty × Val)} {ea eb : List Nat}
    (ha : encRow ra = some ea) (hb : encRow rb = some eb)
    (ia : RowInRange (ra.map (·.2))) (ib : RowInRange (rb.map (·.2)))
    (h : rowLt (ra.map (·.2)) (rb.map (·.2))) (x y : List Nat) : blt (ea ++ x) (eb ++ y) = true :=
  encRow_strong ha hb ia ib h x y

/-- `rowLt` is trichotomous on value rows of the same kinds -/
theorem rowLt_trichotomy {a b : List Val} (h : RowSameKind a b) : rowLt a b ∨ a = b ∨ rowLt b a :=
  Blue.TupleKey2.rowLt_trichotomy h

/-- **tuples, order embedding**, as the builder the driver runs encodes them: for two in-range
    rows written with the same method sequence, comparing the keys — with anything behind them —
    gives the same result as comparing the rows element by element -/
theorem compact_tuple_order_iff {ra rb : List (Ty × Val)} {ea eb : List Nat}
    (ha : encRow ra = some ea) (hb : encRow rb = some eb) (hty : ra.map (·.1) = rb.map (·.1))
    (ia : RowInRange (ra.map (·.2))) (ib : RowInRange (rb.map (·.2))) (x y : List Nat) :
    blt (ea ++ x) (eb ++ y) = true ↔ rowLt (ra.map (·.2)) (rb.map (·.2)) ∨ (ra = rb ∧ blt x y = true) :=
  encRow_order_iff ha hb hty ia ib x y

theorem compact_extension_after (t e : List Val) (he : e ≠ []) : blt (encVals t) (encVals (t ++ e)) = true :=
  vals_extension_after t e he

theorem compact_extension_before (t t' e e' : List Val) (ht : RowInRange t) (ht' : RowInRange t')
    (h : rowLt t t') : blt (encVals (t ++ e)) (encVals (t' ++ e')) = true :=
  vals_extension_before t t' e e' ht ht' h

/-- prefix contiguity over the builder model `encRow` the driver runs: a row sorts before each of
    its extensions … -/
theorem compact_extension_after_encRow {t e : List (Ty × Val)} {a b : List Nat} (ha : encRow t = some a)
    (hb : encRow (t ++ e) = some b) (he : e ≠ []) : blt a b = true := encRow_extension_after ha hb he

/-- … and every extension of `t` sorts before every extension of a row that sorts after `t` -/
theorem compact_extension_before_encRow {t t' e e' : List (Ty × Val)} {a b : List Nat}
    (ha : encRow (t ++ e) = some a) (hb : encRow (t' ++ e') = some b)
    (it : RowInRange (t.map (·.2))) (it' : RowInRange (t'.map (·.2)))
    (h : rowLt (t.map (·.2)) (t'.map (·.2))) : blt a b = true := encRow_extension_before ha hb it it' h

/-- bridge: `encVals` (in which `compact_extension_after/_before` and `compact_roundtrip_vals` are stated) is
    what the builder model `encRow`, the function the driver runs, produces -/
theorem compact_encRow_eq {r : List (Ty × Val)} {bs : List Nat} (h : encRow r = some bs) :
    bs = encVals (r.map (·.2)) := encRow_eq h

/-- element parsers invert the builder and hand over exactly what follows -/
theorem compact_element_decoders :
    (∀ v rest, v < 18446744073709551616 → parseU64 (encodeU64 v ++ rest) = .ok (v, rest))
    ∧ (∀ z rest, I64 z → parseI64 (encodeI64 z ++ rest) = .ok (z, rest))
    ∧ (∀ s rest fuel, (encodeBytes s).length ≤ fuel → parseBytes fuel (encodeBytes s ++ rest) = .ok (s, rest))
    ∧ (∀ s rest fuel, (encodeBytes s).length ≤ fuel → decodeBytes fuel (encodeBytes s ++ rest) = some (s, rest)) :=
  ⟨fun v rest h => parseU64_encode v h rest, fun z rest h => parseI64_encode z h rest,
   parseBytes_encode, decodeBytes_encode⟩

/-- **round trip**, over the builder model `encRow` the driver runs: the builder accepts every row
    of well-typed values (all eleven builder methods, with their range checks), and the parser with
    the writer's type sequence returns the row from those bytes and `finish` accepts -/
theorem compact_roundtrip (r : List (Ty × Val)) (h : ∀ e ∈ r, TyOk e.1 e.2) :
    ∃ bs, encRow r = some bs ∧ parseRow (r.map (·.1)) bs = (r.map (·.2), none) := parseRow_encRow r h

/-- the same over `encVals` (the statement as it was before the audit) -/
theorem compact_roundtrip_vals (r : List (Ty × Val)) (h : ∀ e ∈ r, TyOk e.1 e.2) :
    parseRow (r.map (·.1)) (encVals (r.map (·.2))) = (r.map (·.2), none) := parseRow_encode r h

/-- **injectivity** (from the round trip): two well-typed rows with the same type sequence and the
    same key bytes are equal -/
theorem compact_injective {ra rb : List (Ty × Val)} {e : List Nat}
    (ha : encRow ra = some e) (hb : encRow rb = some e) (hty : ra.map (·.1) = rb.map (·.1))
    (oa : ∀ e ∈ ra, TyOk e.1 e.2) (ob : ∀ e ∈ rb, TyOk e.1 e.2) : ra = rb :=
  encRow_injective ha hb hty oa ob

end Compact

/-! ## non-vacuity: the hypotheses are met by concrete, non-trivial inputs -/
section NonVacuity
open Blue.TupleKey1

-- a two-element tuple pair decided in the second, descending, element
example : tupleLt [(1, .fwd, .str [0x61]), (8, .rev, .i64 (-1))] [(1, .fwd, .str [0x61]), (8, .rev, .i64 (-2))] := by
  simp [tupleLt, fieldLt, Val.lt, NoTie]
example : TupleInRange [(1, .fwd, .str [0x61]), (8, .rev, .i64 (-1))] := by
  intro e he
  simp only [List.mem_cons, List.not_mem_nil, or_false] at he
  rcases he with rfl | rfl
  · intro b hb; simp only [List.mem_cons, List.not_mem_nil, or_false] at hb; omega
  · exact ⟨by omega, by omega⟩
-- a descending string pair outside D-20's class, and one inside
example : blt [0x61] [0x62] = true ∧ ¬ ContTie (encString [0x61]) (encString [0x62]) := by decide
example : ContTie (encString []) (encString [0]) := contTie_empty_zero
example : ContTie (encString [0x61, 0x62, 0x63, 0x64, 0x65, 0x66, 0x67])
    (encString [0x61, 0x62, 0x63, 0x64, 0x65, 0x66, 0x67, 0xff]) := by decide
-- an element that meets the round trip's conditions
example : ElemOk (536870911, .rev, .str [0xf4, 0x8f, 0xbf, 0xbf]) := by
  refine ⟨by decide, ?_, ?_⟩
  · intro b hb; simp only [List.mem_cons, List.not_mem_nil, or_false] at hb; omega
  · intro s hs; cases hs; decide
example : Blue.TupleKey2.TyOk .i8 (.int (-128)) ∧ Blue.TupleKey2.TyOk .str (.bytes [0xc3, 0xbf]) := by
  refine ⟨⟨by omega, by omega⟩, ?_⟩
  show Blue.Utf8.valid [0xc3, 0xbf] = true
  decide
example : Blue.TupleKey2.rowLt [.bytes [0], .int (-129)] [.bytes [0], .int (-128)] := by
  simp [Blue.TupleKey2.rowLt, Blue.TupleKey2.Val.lt]

-- D-20 pairs made of valid UTF-8 strings only: "abcdefg" / "abcdefgh" (seven bytes fill eight
-- chunks exactly, so EVERY extension is a tie) and "a" / "a\0"
example : ContTie (encString [0x61, 0x62, 0x63, 0x64, 0x65, 0x66, 0x67])
      (encString [0x61, 0x62, 0x63, 0x64, 0x65, 0x66, 0x67, 0x68])
    ∧ Blue.Utf8.valid [0x61, 0x62, 0x63, 0x64, 0x65, 0x66, 0x67, 0x68] = true := by decide
example : ContTie (encString [0x61]) (encString [0x61, 0]) ∧ Blue.Utf8.valid [0x61, 0] = true := by decide
-- `string_desc_correct_iff` decides both ways on concrete pairs: "b" before "a" is right,
-- "a\0" before "a" is not what the code does
example : blt (reverse (encString [0x62])) (reverse (encString [0x61])) = true
    ∧ blt (reverse (encString [0x61, 0])) (reverse (encString [0x61])) = false := by decide

-- the hypotheses of `tuple_order_iff` on a pair that contains a descending string pair (outside
-- D-20's class) and is decided there; the conclusion evaluated on the same pair
example : schemaOf [(1, .fwd, .str [0x61]), (8, .rev, .str [0x62])] = schemaOf [(1, .fwd, .str [0x61]), (8, .rev, .str [0x61])] := rfl
example : TupleTieFree [(1, .fwd, .str [0x61]), (8, .rev, .str [0x62])] [(1, .fwd, .str [0x61]), (8, .rev, .str [0x61])] := by
  simp only [TupleTieFree, FieldTieFree, NoTie]
  decide
example : tupleLt [(1, .fwd, .str [0x61]), (8, .rev, .str [0x62])] [(1, .fwd, .str [0x61]), (8, .rev, .str [0x61])] := by
  simp only [tupleLt, fieldLt, Val.lt, NoTie]
  decide
example : blt (encTuple [(1, .fwd, .str [0x61]), (8, .rev, .str [0x62])])
    (encTuple [(1, .fwd, .str [0x61]), (8, .rev, .str [0x61])]) = true := by decide
-- `TupleTieFree` is needed: on D-20's pair `tupleLt` is not trichotomous
example : ¬ (tupleLt [(1, .rev, .str [])] [(1, .rev, .str [0])] ∨ [(1, Dir.rev, Val.str [])] = [(1, .rev, .str [0])]
    ∨ tupleLt [(1, .rev, .str [0])] [(1, .rev, .str [])]) := by
  simp only [tupleLt, fieldLt, Val.lt, NoTie]
  decide

-- compact format: the builder model on a two-element row (escaped zero byte, an integer just
-- below the i8 range), the hypotheses of `compact_tuple_order_iff` and its conclusion on it
example : Blue.TupleKey2.encRow [(.bytes, .bytes [0]), (.i16, .int (-129))] = some [0, 255, 0, 0, 0x17, 0x7f] := by
  decide +kernel
example : Blue.TupleKey2.encRow [(.bytes, .bytes [0]), (.i16, .int (-128))] = some [0, 255, 0, 0, 0x17, 0x80] := by
  decide +kernel
example : Blue.TupleKey2.RowInRange [.bytes [0], .int (-129)] := by
  intro v hv
  simp only [List.mem_cons, List.not_mem_nil, or_false] at hv
  rcases hv with rfl | rfl
  · trivial
  · exact ⟨by omega, by omega⟩
example : Blue.TupleKey2.RowSameKind [.bytes [0], .int (-129)] [.bytes [0], .int (-128)] := ⟨trivial, trivial, trivial⟩
example : blt [0, 255, 0, 0, 0x17, 0x7f] [0, 255, 0, 0, 0x17, 0x80] = true := by decide
-- the builder model refuses a value that is not of the method's argument type
example : Blue.TupleKey2.encRow [(.u8, .int 3)] = none := by decide


-- the schema-free walk on a concrete mixed tuple: every element type, both directions, the largest
-- field number, a descending non-ASCII string — evaluated
example : scan 52 (encTuple [(1, .fwd, .str [0x61]), (8, .rev, .i64 (-2)), (19, .fwd, .unit),
      (536870911, .rev, .str [0xc3, 0xbf]), (3, .rev, .u32 7), (2, .rev, .unit), (5, .fwd, .u64 9), (6, .rev, .i32 (-1))])
    = ([(1, .fwd, .str [0x61]), (8, .rev, .i64 (-2)), (19, .fwd, .unit),
      (536870911, .rev, .str [0xc3, 0xbf]), (3, .rev, .u32 7), (2, .rev, .unit), (5, .fwd, .u64 9), (6, .rev, .i32 (-1))], none) := by
  decide
example : (encTuple [(1, .fwd, .str [0x61]), (8, .rev, .i64 (-2)), (19, .fwd, .unit),
      (536870911, .rev, .str [0xc3, 0xbf]), (3, .rev, .u32 7), (2, .rev, .unit), (5, .fwd, .u64 9), (6, .rev, .i32 (-1))]).length + 1 = 52 := by
  decide
-- the hypothesis of `scan_roundtrip` / `scan_append` on a two-element tuple with a descending string
example : ∀ e ∈ [((1 : Nat), Dir.fwd, Val.unit), (536870911, .rev, .str [0xc3, 0xbf])], ElemOk e := by
  intro e he
  simp only [List.mem_cons, List.not_mem_nil, or_false] at he
  rcases he with rfl | rfl
  · exact ⟨by decide, trivial, fun s hs => by cases hs⟩
  · refine ⟨by decide, ?_, ?_⟩
    · intro b hb; simp only [List.mem_cons, List.not_mem_nil, or_false] at hb; omega
    · intro s hs; cases hs; decide
-- hostile buffers: one good element, then (a) a well-formed tag that is not the canonical one,
-- (b) a byte run that is no tag, (c) a tag with nothing behind it, (d) a string that is not UTF-8:
-- the element in front is returned, the error is that of the first element of the remainder
example : scan 8 ([44, 97, 128] ++ [0x25, 1, 1, 0]) = ([(1, .fwd, .str [0x61])], some .tagMismatch)
    ∧ scan 1 [0x25, 1, 1, 0] = ([], some .tagMismatch) := by decide
example : scan 6 ([44, 97, 128] ++ [0xff, 0xff]) = ([(1, .fwd, .str [0x61])], some .badTag) := by decide
example : scan 5 ([44, 97, 128] ++ [36]) = ([(1, .fwd, .str [0x61])], some .missingValue) := by decide
example : scan 7 ([44, 97, 128] ++ [44, 0xff, 0xfe]) = ([(1, .fwd, .str [0x61])], some .utf8) := by decide
-- `Consumed` on a concrete buffer with a non-canonical slice and a remainder
example : Consumed [36, 1, 1, 1, 1, 14, 0xff] [(1, .fwd, .u32 0)] [0xff] :=
  ⟨[1, 1, 1, 1, 14], [0xff], by decide, by decide, by decide, by decide, by decide, rfl, rfl⟩
example : Bytes [36, 1, 1, 1, 1, 14, 0xff] := by
  intro b hb; simp only [List.mem_cons, List.not_mem_nil, or_false] at hb; omega

-- the typed parser on a hostile buffer: the first expected element parses (from a non-canonical
-- slice), the second is a string that is not UTF-8
example : (parseRow [(1, .u32, .fwd), (1, .str, .fwd)] [36, 1, 1, 1, 1, 14, 44, 0xff, 0xfe]).1 = [.u32 0] := by decide
example : ∀ s ∈ [((1 : Nat), Ty.u32, Dir.fwd), (1, .str, .fwd)], validField s.1 = true := by decide

end NonVacuity

-- BEGIN TupleKey2Scan
/-! ## compact format: the typed parser on ARBITRARY bytes

`parseRow tys buf` is the function the driver runs: one typed `TupleKeyParser` call per expected
type, then `finish`.  The compact format has no `Reverse` wrapper / per-element direction (there is
none in tuple_key2/src/lib.rs), so "both directions" has no content here: the element types are
unit, u8..u64, i8..i64, bytes, string.  `IsBytes buf` (every entry below 256) is the only
hypothesis on the input: the model's lists of `Nat` are wider than `&[u8]`, and outside it the
integer payloads are not canonical in the MODEL (`compact_isBytes_needed`). -/
section TupleKey2Scan
open Blue.TupleKey2

/-- `parseRow` is the typed calls (`parseElems`, which hands over `remaining()`) followed by `finish` -/
theorem compact_parse_is_calls_then_finish (tys : List Ty) (buf : List Nat) :
    parseRow tys buf = ((parseElems tys buf).1, finish (parseElems tys buf).2) := parseRow_eq_finish tys buf

/-- **arbitrary bytes, no overrun** (compact format; same shape as `typed_total_no_overrun`): with
    ANY expected type sequence on ANY bytes the parser reads a prefix of the input only, and that
    prefix is `encVals vals`: the concatenation, element by element, of the slices it recognised, each
    of which is the canonical encoding of the value returned for it; the values fit the expected types
    (`TyOk`: integer widths, UTF-8 for `string`); it reports success only if every expected element was
    parsed AND no byte remains — TRAILING bytes are REJECTED by `finish` (`TrailingBytes { remaining }`),
    not handed over —; any other error is exactly the error of the typed call for the first expected
    element that does not parse, at what remains -/
theorem compact_parse_total_no_overrun (tys : List Ty) (buf : List Nat) (hb : IsBytes buf) :
    ∃ rest, buf = encVals (parseRow tys buf).1 ++ rest
      ∧ (parseRow tys buf).1.length ≤ tys.length
      ∧ (∀ e ∈ tys.zip (parseRow tys buf).1, TyOk e.1 e.2)
      ∧ ((parseRow tys buf).2 = none → rest = [] ∧ (parseRow tys buf).1.length = tys.length)
      ∧ (∀ e, (parseRow tys buf).2 = some e →
          ((parseRow tys buf).1.length = tys.length ∧ rest ≠ [] ∧ e = .trailing rest.length)
          ∨ (∃ t, tys[(parseRow tys buf).1.length]? = some t ∧ parseVal t rest = .error e)) :=
  parseRow_total_no_overrun tys buf hb

/-- the same for the calls without `finish` (a caller that reads `remaining()` instead): all calls
    return only behind the last expected element, and `remaining()` is exactly the unconsumed suffix -/
theorem compact_calls_total_no_overrun (tys : List Ty) (buf : List Nat) (hb : IsBytes buf) :
    ∃ rest, buf = encVals (parseElems tys buf).1 ++ rest
      ∧ (parseElems tys buf).1.length ≤ tys.length
      ∧ (∀ e ∈ tys.zip (parseElems tys buf).1, TyOk e.1 e.2)
      ∧ (∀ rem, (parseElems tys buf).2 = .ok rem → rem = rest ∧ (parseElems tys buf).1.length = tys.length)
      ∧ (∀ e, (parseElems tys buf).2 = .error e →
          ∃ t, tys[(parseElems tys buf).1.length]? = some t ∧ parseVal t rest = .error e) :=
  parseElems_total tys buf hb

/-- one typed call on any bytes: a value comes back only from an input that begins with the
    canonical encoding of that value; the remainder handed over is what follows it -/
theorem compact_element_canonical {t : Ty} {buf : List Nat} {v : Val} {rest : List Nat}
    (h : parseVal t buf = .ok (v, rest)) (hb : IsBytes buf) : TyOk t v ∧ buf = encVal' v ++ rest :=
  parseVal_canonical h hb

/-- **self-delimitation on arbitrary suffixes**: a key followed by ANY bytes `rest`, parsed with the
    writer's types followed by ANY further expected types, is the tuple followed by the parse of
    `rest` (every element type; nothing behind an element influences how it is read) -/
theorem compact_parse_append (r : List (Ty × Val)) (h : ∀ e ∈ r, TyOk e.1 e.2) (tys' : List Ty) (rest : List Nat) :
    parseRow (r.map (·.1) ++ tys') (encVals (r.map (·.2)) ++ rest)
      = (r.map (·.2) ++ (parseRow tys' rest).1, (parseRow tys' rest).2) := parseRow_encode_append r h tys' rest

/-- with exactly the writer's types: the calls yield the tuple and `remaining() = rest`; `finish`
    accepts iff `rest` is empty and otherwise says `TrailingBytes { remaining: rest.len() }` -/
theorem compact_parse_append_rest (r : List (Ty × Val)) (h : ∀ e ∈ r, TyOk e.1 e.2) (rest : List Nat) :
    parseElems (r.map (·.1)) (encVals (r.map (·.2)) ++ rest) = (r.map (·.2), .ok rest)
    ∧ parseRow (r.map (·.1)) (encVals (r.map (·.2)) ++ rest)
        = (r.map (·.2), if rest = [] then none else some (.trailing rest.length)) := parse_encode_rest r h rest

/-- **every accepted input is canonical**: there are no padding bits, over-long integers,
    alternative escapes or alternative terminators the parser lets through — what it accepts is the
    key the builder writes for the values returned -/
theorem compact_parse_canonical {tys : List Ty} {buf : List Nat} {vs : List Val}
    (h : parseRow tys buf = (vs, none)) (hb : IsBytes buf) :
    vs.length = tys.length ∧ (∀ e ∈ tys.zip vs, TyOk e.1 e.2) ∧ encRow (tys.zip vs) = some buf :=
  parseRow_canonical h hb

/-- **the accepted byte strings, exactly** (parse and re-encode to themselves = parse): `parseRow tys`
    accepts `buf` with values `vs` iff `buf` is what the builder writes for a well-typed row of those
    types and values -/
theorem compact_reencode_iff (tys : List Ty) (buf : List Nat) (vs : List Val) (hb : IsBytes buf) :
    parseRow tys buf = (vs, none)
      ↔ ∃ r, r.map (·.1) = tys ∧ r.map (·.2) = vs ∧ (∀ e ∈ r, TyOk e.1 e.2) ∧ encRow r = some buf :=
  parseRow_accepts_iff tys buf vs hb

/-- whatever the outcome, re-encoding the values returned gives back the consumed prefix: the whole
    input iff nothing was left unparsed, in particular whenever the parse is accepted -/
theorem compact_reencode (tys : List Ty) (buf : List Nat) (hb : IsBytes buf) :
    ∃ rest, buf = encVals (parseRow tys buf).1 ++ rest
      ∧ (encVals (parseRow tys buf).1 = buf ↔ rest = [])
      ∧ ((parseRow tys buf).2 = none → rest = []) := parseRow_reencode tys buf hb

/-- the near-canonical inputs, per element type, are REJECTED (`decide`): a zero-padded unsigned
    and signed integer, `-1` with a payload byte, a negative and a non-negative payload outside `i64`,
    an escape other than `00 ff`, a neighbouring unit tag, a value too wide for the method, invalid
    UTF-8; a third terminator byte is a trailing byte -/
theorem compact_noncanonical_rejected :
    parseRow [.u64] [0x23, 0x00] = ([], some .nonCanonical)
    ∧ parseRow [.i64] [0x1a, 0x00] = ([], some .nonCanonical)
    ∧ parseRow [.i64] [0x17, 0xff] = ([], some .nonCanonical)
    ∧ parseRow [.i64] [0x10, 0x7f, 0xff, 0xff, 0xff, 0xff, 0xff, 0xff, 0xff] = ([], some (.outOfRange .i64))
    ∧ parseRow [.i64] [0x21, 0x80, 0, 0, 0, 0, 0, 0, 0] = ([], some (.outOfRange .i64))
    ∧ parseRow [.bytes] [0x61, 0, 1] = ([], some (.invalidEscape 1))
    ∧ parseRow [.unit] [0x2a] = ([], some (.invalidUnitTag 0x2a))
    ∧ parseRow [.u8] [0x24, 0x01, 0x00] = ([], some (.outOfRange .u8))
    ∧ parseRow [.str] [0xff, 0, 0] = ([], some .invalidUtf8)
    ∧ parseRow [.bytes] [0x61, 0, 0, 0] = ([.bytes [0x61]], some (.trailing 1)) := by decide +kernel

/-- `IsBytes` cannot be dropped in the MODEL (not an input the code can see: 256 is not a `u8`):
    a two-entry payload `[0, 256]` passes the shortest-form check as 256, whose key is `24 01 00` -/
theorem compact_isBytes_needed :
    parseRow [.u64] [0x24, 0, 256] = ([.nat 256], none) ∧ encodeU64 256 = [0x24, 1, 0] := by decide +kernel

/-- the truncation error of a typed call: `UnterminatedBytes` for `bytes`/`string`, `UnexpectedEnd`
    for the integers and the unit -/
theorem compact_truncation_error :
    [Ty.unit, .u8, .u16, .u32, .u64, .i8, .i16, .i32, .i64, .bytes, .str].map truncErr
      = [.unexpectedEnd, .unexpectedEnd, .unexpectedEnd, .unexpectedEnd, .unexpectedEnd, .unexpectedEnd,
         .unexpectedEnd, .unexpectedEnd, .unexpectedEnd, .unterminated, .unterminated] := rfl

/-- **one element, truncated**: for EVERY element type every proper prefix of an element's
    encoding — the empty prefix, a tag without its whole payload, a string cut in its data, between
    the `00` and `ff` of an escape, before the terminator or between its two bytes — is rejected by
    that element's typed call with its truncation error.  No element type lets a proper prefix parse
    as a shorter value. -/
theorem compact_truncation_element {t : Ty} {v : Val} (h : TyOk t v) {p q : List Nat}
    (hpq : p ++ q = encVal' v) (hq : q ≠ []) : parseVal t p = .error (truncErr t) := parseVal_truncated h hpq hq

/-- **a truncated key**: every proper prefix of a key, parsed with the writer's types, returns the
    elements lying wholly before the cut and fails with the truncation error of the element the cut
    falls in or before; it is never accepted (this is the rule `C16-half-terminator-accepted` breaks) -/
theorem compact_truncation_key (r : List (Ty × Val)) (h : ∀ e ∈ r, TyOk e.1 e.2) (p q : List Nat)
    (hpq : p ++ q = encVals (r.map (·.2))) (hq : q ≠ []) :
    ∃ k t, (r.map (·.1))[k]? = some t ∧ parseRow (r.map (·.1)) p = ((r.map (·.2)).take k, some (truncErr t)) :=
  parseRow_truncated r h p q hpq hq

/-- **the accepted inputs of a type sequence are prefix-free**: if `parseRow tys` accepts `buf` it
    rejects every proper prefix of `buf`, with a truncation error, after a prefix of the same values -/
theorem compact_truncation_accepted_prefix_free {tys : List Ty} {buf : List Nat} {vs : List Val}
    (h : parseRow tys buf = (vs, none)) (hb : IsBytes buf) {p q : List Nat} (hpq : p ++ q = buf) (hq : q ≠ []) :
    ∃ k t, tys[k]? = some t ∧ parseRow tys p = (vs.take k, some (truncErr t)) :=
  parseRow_prefix_rejected h hb hpq hq

/-- witnesses (`decide`): the string `[0x61, 0]` (key `61 00 ff 00 00`) cut after each byte — the half
    terminator `61 00 ff 00` included — is `UnterminatedBytes`; a cut integer is `UnexpectedEnd`.
    What IS accepted from a truncated key is only what the schema allows: with a SHORTER type
    sequence a key cut at an element boundary is the key of the shorter tuple, and with a DIFFERENT
    type a prefix may be another type's element (`22` is the u64 0 and the first byte of the string
    `"\x22"`) — the statements above are for the writer's types. -/
theorem compact_truncation_witnesses :
    encodeBytes [0x61, 0] = [0x61, 0, 0xff, 0, 0]
    ∧ parseRow [.bytes] [0x61, 0, 0xff, 0] = ([], some .unterminated)
    ∧ parseRow [.bytes] [0x61, 0, 0xff] = ([], some .unterminated)
    ∧ parseRow [.bytes] [0x61, 0] = ([], some .unterminated)
    ∧ parseRow [.bytes] [0x61] = ([], some .unterminated)
    ∧ parseRow [.bytes] [] = ([], some .unterminated)
    ∧ parseRow [.u16] [0x24, 0x01] = ([], some .unexpectedEnd)
    ∧ parseRow [.i64] [0x17] = ([], some .unexpectedEnd)
    ∧ parseRow [.unit] [] = ([], some .unexpectedEnd)
    ∧ parseRow [.u8, .bytes] [0x23, 0x07, 0x61, 0] = ([.nat 7], some .unterminated)
    ∧ parseRow [.u8] [0x23, 0x07] = ([.nat 7], none)
    ∧ encodeBytes [0x22] = [0x22, 0, 0] ∧ parseVal .u64 [0x22] = .ok (.nat 0, []) := by decide +kernel

/-! non-vacuity: a row with every element type (extreme values, an escaped zero and an `ff` inside the
    byte string, a two-byte UTF-8 string), its key, and hostile buffers -/

example : ∀ e ∈ mixedRow, TyOk e.1 e.2 := by decide +kernel
example : encRow mixedRow = some mixedKey := by decide +kernel
example : encVals (mixedRow.map (·.2)) = mixedKey := by decide +kernel
example : IsBytes mixedKey := by decide
-- `compact_reencode_iff`, both sides, on the mixed key
example : parseRow (mixedRow.map (·.1)) mixedKey = (mixedRow.map (·.2), none) := by decide +kernel
-- `compact_parse_append`: hostile bytes behind the key, no further expected type / one more
example : parseRow (mixedRow.map (·.1)) (mixedKey ++ [0xff, 0x00])
    = (mixedRow.map (·.2), some (.trailing 2)) := by decide +kernel
example : parseRow (mixedRow.map (·.1) ++ [.i8]) (mixedKey ++ [0x1a, 0x80])
    = (mixedRow.map (·.2), some (.outOfRange .i8)) := by decide +kernel
-- `compact_truncation_key` / `_accepted_prefix_free`: the key cut inside the last terminator, inside
-- the 64-bit payload (element 4), and at the boundary behind element 0
example : parseRow (mixedRow.map (·.1)) (mixedKey.take 39)
    = ((mixedRow.map (·.2)).take 10, some .unterminated) := by decide +kernel
example : parseRow (mixedRow.map (·.1)) (mixedKey.take 12)
    = ((mixedRow.map (·.2)).take 4, some .unexpectedEnd) := by decide +kernel
example : parseRow (mixedRow.map (·.1)) (mixedKey.take 1)
    = ((mixedRow.map (·.2)).take 1, some .unexpectedEnd) := by decide +kernel
example : mixedKey.take 39 ++ [0] = mixedKey ∧ ([0] : List Nat) ≠ [] := by decide
-- `compact_parse_total_no_overrun` on hostile buffers: every kind of outcome
example : IsBytes [0x23, 0xff, 0x61, 0, 0xff, 0, 0, 0x18, 0x2b] := by decide
example : parseRow [.u8, .str, .i64] [0x23, 0xff, 0x61, 0, 0xff, 0, 0, 0x18, 0x2b]
    = ([.nat 255, .bytes [0x61, 0], .int (-1)], some (.trailing 1)) := by decide +kernel
example : parseRow [.u8, .str, .i64] [0x23, 0xff, 0x61, 0, 0xff, 0, 0, 0x17, 0xff]
    = ([.nat 255, .bytes [0x61, 0]], some .nonCanonical) := by decide +kernel
example : parseRow [.u8, .str, .i64] [0x23, 0xff, 0xff, 0, 0, 0x18] = ([.nat 255], some .invalidUtf8) := by
  decide +kernel
example : parseRow [.u8, .str, .i64] [0xff, 0xff, 0xff] = ([], some (.invalidIntegerTag 0xff)) := by decide +kernel
example : parseVal .i64 [0x17, 0xff] = .error .nonCanonical := by decide +kernel
-- `compact_element_canonical` / `compact_truncation_element` hypotheses
example : parseVal .i64 [0x10, 0x80, 0, 0, 0, 0, 0, 0, 0, 0x2b] = .ok (.int (-9223372036854775808), [0x2b]) := by
  decide +kernel
example : TyOk .str (.bytes [0xc3, 0xbf]) ∧ [0xc3, 0xbf, 0] ++ [0] = encVal' (.bytes [0xc3, 0xbf]) ∧ ([0] : List Nat) ≠ [] := by
  decide +kernel

end TupleKey2Scan
-- END TupleKey2Scan

end Blue.Props.C16

#print axioms Blue.Props.C16.discriminants_from_source
#print axioms Blue.Props.C16.from_discriminant_from_source
#print axioms Blue.Props.C16.signed_offsets_from_source
#print axioms Blue.Props.C16.field_numbers_from_source
#print axioms Blue.Props.C16.compact_tags_from_source
#print axioms Blue.Props.C16.order_embedding
#print axioms Blue.Props.C16.order_reflected
#print axioms Blue.Props.C16.byte_order_total
#print axioms Blue.Props.C16.u32_asc
#print axioms Blue.Props.C16.u32_desc
#print axioms Blue.Props.C16.u64_asc
#print axioms Blue.Props.C16.u64_desc
#print axioms Blue.Props.C16.i32_asc
#print axioms Blue.Props.C16.i32_desc
#print axioms Blue.Props.C16.i64_asc
#print axioms Blue.Props.C16.i64_desc
#print axioms Blue.Props.C16.u32_asc_iff
#print axioms Blue.Props.C16.u32_desc_iff
#print axioms Blue.Props.C16.u64_asc_iff
#print axioms Blue.Props.C16.u64_desc_iff
#print axioms Blue.Props.C16.i32_asc_iff
#print axioms Blue.Props.C16.i32_desc_iff
#print axioms Blue.Props.C16.i64_asc_iff
#print axioms Blue.Props.C16.i64_desc_iff
#print axioms Blue.Props.C16.string_asc
#print axioms Blue.Props.C16.string_asc_iff
#print axioms Blue.Props.C16.string_desc_counterexample
#print axioms Blue.Props.C16.string_desc_counterexample_utf8
#print axioms Blue.Props.C16.string_desc_partial
#print axioms Blue.Props.C16.string_desc_tie_ascending
#print axioms Blue.Props.C16.contTie_decidable
#print axioms Blue.Props.C16.string_pairs_dichotomy
#print axioms Blue.Props.C16.string_pairs_exclusive
#print axioms Blue.Props.C16.string_pairs_iff
#print axioms Blue.Props.C16.string_pairs_exactly_one
#print axioms Blue.Props.C16.string_desc_order_exact
#print axioms Blue.Props.C16.string_desc_correct_iff
#print axioms Blue.Props.C16.field_order
#print axioms Blue.Props.C16.tuple_order
#print axioms Blue.Props.C16.field_order_iff
#print axioms Blue.Props.C16.tupleLt_trichotomy
#print axioms Blue.Props.C16.tuple_order_iff
#print axioms Blue.Props.C16.tuple_injective
#print axioms Blue.Props.C16.tuple_extension_after
#print axioms Blue.Props.C16.tuple_extension_before
#print axioms Blue.Props.C16.element_decoders
#print axioms Blue.Props.C16.tuple_roundtrip
#print axioms Blue.Props.C16.unfield_number_inverts_field_number
#print axioms Blue.Props.C16.scan_fuel_stable
#print axioms Blue.Props.C16.scan_roundtrip
#print axioms Blue.Props.C16.scan_roundtrip_fuel
#print axioms Blue.Props.C16.scan_append
#print axioms Blue.Props.C16.scan_append_tuples
#print axioms Blue.Props.C16.scan_prefix_determined
#print axioms Blue.Props.C16.scan_total_no_overrun
#print axioms Blue.Props.C16.scan_consumed
#print axioms Blue.Props.C16.consumed_prefix
#print axioms Blue.Props.C16.scan_values_ok
#print axioms Blue.Props.C16.scan_normalises
#print axioms Blue.Props.C16.scan_reencode_iff
#print axioms Blue.Props.C16.scan_noncanonical_unit
#print axioms Blue.Props.C16.scan_noncanonical_u32
#print axioms Blue.Props.C16.scan_noncanonical_u64
#print axioms Blue.Props.C16.scan_noncanonical_str
#print axioms Blue.Props.C16.typed_total_no_overrun
#print axioms Blue.Props.C16.typed_values_ok
#print axioms Blue.Props.C16.compact_u64
#print axioms Blue.Props.C16.compact_i64
#print axioms Blue.Props.C16.compact_bytes
#print axioms Blue.Props.C16.compact_u64_iff
#print axioms Blue.Props.C16.compact_i64_iff
#print axioms Blue.Props.C16.compact_bytes_iff
#print axioms Blue.Props.C16.strong_pair
#print axioms Blue.Props.C16.compact_tuple_order
#print axioms Blue.Props.C16.rowLt_trichotomy
#print axioms Blue.Props.C16.compact_tuple_order_iff
#print axioms Blue.Props.C16.compact_extension_after
#print axioms Blue.Props.C16.compact_extension_before
#print axioms Blue.Props.C16.compact_extension_after_encRow
#print axioms Blue.Props.C16.compact_extension_before_encRow
#print axioms Blue.Props.C16.compact_encRow_eq
#print axioms Blue.Props.C16.compact_element_decoders
#print axioms Blue.Props.C16.compact_roundtrip
#print axioms Blue.Props.C16.compact_roundtrip_vals
#print axioms Blue.Props.C16.compact_injective
#print axioms Blue.Props.C16.compact_parse_is_calls_then_finish
#print axioms Blue.Props.C16.compact_parse_total_no_overrun
#print axioms Blue.Props.C16.compact_calls_total_no_overrun
#print axioms Blue.Props.C16.compact_element_canonical
#print axioms Blue.Props.C16.compact_parse_append
#print axioms Blue.Props.C16.compact_parse_append_rest
#print axioms Blue.Props.C16.compact_parse_canonical
#print axioms Blue.Props.C16.compact_reencode_iff
#print axioms Blue.Props.C16.compact_reencode
#print axioms Blue.Props.C16.compact_noncanonical_rejected
#print axioms Blue.Props.C16.compact_isBytes_needed
#print axioms Blue.Props.C16.compact_truncation_error
#print axioms Blue.Props.C16.compact_truncation_element
#print axioms Blue.Props.C16.compact_truncation_key
#print axioms Blue.Props.C16.compact_truncation_accepted_prefix_free
#print axioms Blue.Props.C16.compact_truncation_witnesses
