import Blue.Proofs.TupleKey1Parse
import Blue.Proofs.TupleKey2T
import Blue.Proofs.TupleEmbed1
import Blue.Proofs.ConstsTieC16
/-! # Property C16 — tuple-key encodings sort byte-wise exactly as their tuples, and decode back

Property theorems only (helper lemmas live in `Blue/Proofs/{TupleKey1,TupleKey2,Digits,TupleString,
TupleDecode,TupleStringDecode,TupleKey1T,TupleKey1Parse,TupleKey2T,TupleEmbed,TupleEmbed1}.lean`).

Two models, both tied to the crates byte for byte by the correspondence check:
* `Blue.TupleKey1` — the field-numbered format (`tuple_key`): tag = rotated varint of
  `field << 4 | discriminant`, seven data bits per byte with a low continuation bit,
  `reverse_encoding` for `Direction::Reverse`, `TupleKeyIterator`/`TupleKeyParser`.
* `Blue.TupleKey2` — the compact format (`tuple_key2`): length-tagged big-endian integers,
  `00 → 00 ff` escaped byte strings with `00 00` terminator, `TupleKeyParser` with its `Error`s.
  This format has no per-element directions (every element ascends).

`Strong enc lt` says: whenever `lt a b`, `enc a ++ x` is byte-wise below `enc b ++ y` *whatever*
`x` and `y` are — strict monotonicity and self-delimitation at once, which is what makes tuples
compose (`strong_pair`) and keeps keys with a common prefix contiguous.  `Strong` is ONE direction
(tuple order ⇒ byte order).  The other direction (byte order ⇒ tuple order), which makes it an
order embedding, is the family `*_iff` below: for two values of the same element type
`blt (enc a ++ x) (enc b ++ y) = true ↔ lt a b ∨ (a = b ∧ blt x y = true)`, from `Strong` and the
trichotomy of the order (`order_embedding`, `tupleLt_trichotomy`, `rowLt_trichotomy`); injectivity
of whole keys comes from the round trips (`tuple_injective`, `compact_injective`).

The one place where the property is false is stated as theorems too: descending strings of the
field-numbered format (D-20) — `string_desc_counterexample` (over all `List Nat`) and
`string_desc_counterexample_utf8` (inside the real domain: valid UTF-8 strings), and exactly which
pairs go wrong: `string_desc_order_exact` / `string_desc_correct_iff` (a descending pair is sorted
correctly iff it is outside `ContTie`), from `string_desc_partial` (all pairs outside `ContTie` are
right) and `string_desc_tie_ascending` (all pairs inside `ContTie` are wrong).

Not theorems here (see `partial` in bin/props.py): "decoding arbitrary bytes returns an error
rather than panicking" — the model decoders are total functions, so the clause has no content on
the model; it is observed on the implementation (hostile-buffer streams, a panic is an oracle
failure). -/
namespace Blue.Props.C16
open Blue.TupleKey2 (blt Strong slt)

/-! ## constants are the ones in the Rust source (regenerated every run) -/

section Consts
open Blue.TupleKey1

/-- `to_discriminant`, in the order (unit, fixed32, fixed64, sfixed32, sfixed64, string) × (Forward, Reverse) -/
theorem discriminants_from_source :
    [discriminant .unit .fwd, discriminant .u32 .fwd, discriminant .u64 .fwd, discriminant .i32 .fwd,
     discriminant .i64 .fwd, discriminant .str .fwd, discriminant .unit .rev, discriminant .u32 .rev,
     discriminant .u64 .rev, discriminant .i32 .rev, discriminant .i64 .rev, discriminant .str .rev]
      = Blue.Generated.tk1Discriminants := Blue.ConstsTie.tk1_discriminants

/-- `from_discriminant` on every value of `x as u8 & 15` -/
theorem from_discriminant_from_source :
    (List.range 16).map (fun n => Blue.ConstsTie.tyDirCode (fromDiscriminant n)) = Blue.Generated.tk1FromDiscriminant :=
  Blue.ConstsTie.tk1_from_discriminant

/-- `ordered::DIVIDE_32/64` -/
theorem signed_offsets_from_source :
    offsetI32 0 = Blue.Generated.tk1Divide32 ∧ offsetI64 0 = Blue.Generated.tk1Divide64
    ∧ decI32 (encU32 0) = some (-(Blue.Generated.tk1Divide32 : Int))
    ∧ decI64 (encU64 0) = some (-(Blue.Generated.tk1Divide64 : Int)) := Blue.ConstsTie.tk1_offsets

/-- `prototk::FieldNumber::new` -/
theorem field_numbers_from_source :
    firstFieldNumber = Blue.Generated.fieldFirst ∧ lastFieldNumber = Blue.Generated.fieldLast
    ∧ firstReservedFieldNumber = Blue.Generated.fieldFirstReserved
    ∧ lastReservedFieldNumber = Blue.Generated.fieldLastReserved := Blue.ConstsTie.field_numbers

/-- the tag bytes of the compact format -/
theorem compact_tags_from_source :
    Blue.TupleKey2.SIGNED_NEG_BASE = Blue.Generated.tk2SignedNegBase
    ∧ Blue.TupleKey2.SIGNED_NEG_LAST = Blue.Generated.tk2SignedNegLast
    ∧ Blue.TupleKey2.SIGNED_NONNEG_BASE = Blue.Generated.tk2SignedNonnegBase
    ∧ Blue.TupleKey2.SIGNED_NONNEG_LAST = Blue.Generated.tk2SignedNonnegLast
    ∧ Blue.TupleKey2.UNSIGNED_BASE = Blue.Generated.tk2UnsignedBase
    ∧ Blue.TupleKey2.UNSIGNED_LAST = Blue.Generated.tk2UnsignedLast
    ∧ Blue.TupleKey2.UNIT_TAG = Blue.Generated.tk2UnitTag := Blue.ConstsTie.tk2_tags

end Consts

/-! ## field-numbered format: every element type, both directions -/
section FieldNumbered
open Blue.TupleKey1

theorem u32_asc : Strong encU32 (fun a b => a < b ∧ b < 4294967296) := encU32_strong
theorem u32_desc : Strong (fun v => reverse (encU32 v)) (fun a b => b < a ∧ a < 4294967296) := encU32_rev_strong
theorem u64_asc : Strong encU64 (fun a b => a < b ∧ b < 18446744073709551616) := encU64_strong
theorem u64_desc : Strong (fun v => reverse (encU64 v)) (fun a b => b < a ∧ a < 18446744073709551616) :=
  encU64_rev_strong
theorem i32_asc : Strong encI32 (fun a b => a < b ∧ -2147483648 ≤ a ∧ b < 2147483648) := encI32_strong
theorem i32_desc : Strong (fun v => reverse (encI32 v)) (fun a b => b < a ∧ -2147483648 ≤ b ∧ a < 2147483648) :=
  encI32_rev_strong
theorem i64_asc : Strong encI64 (fun a b => a < b ∧ -9223372036854775808 ≤ a ∧ b < 9223372036854775808) :=
  encI64_strong
theorem i64_desc :
    Strong (fun v => reverse (encI64 v)) (fun a b => b < a ∧ -9223372036854775808 ≤ b ∧ a < 9223372036854775808) :=
  encI64_rev_strong

/-- **the converse of `Strong`, generic**: where `lt` is trichotomous on the pair, the comparison
    of the two encodings (with anything behind them) is decided exactly by `lt`, and by what
    follows when the two values are equal — so a `Strong` encoding of a trichotomous order is an
    order embedding.  Every `*_iff` below is an instance. -/
theorem order_embedding {α : Type} {enc : α → List Nat} {lt : α → α → Prop} (h : Strong enc lt)
    {a b : α} (tri : lt a b ∨ a = b ∨ lt b a) (x y : List Nat) :
    blt (enc a ++ x) (enc b ++ y) = true ↔ lt a b ∨ (a = b ∧ blt x y = true) :=
  Blue.TupleKey2.strong_decides h tri x y

/-- byte order ⇒ value order, and injectivity, under the same trichotomy -/
theorem order_reflected {α : Type} {enc : α → List Nat} {lt : α → α → Prop} (h : Strong enc lt)
    {a b : α} (tri : lt a b ∨ a = b ∨ lt b a) :
    (blt (enc a) (enc b) = true → lt a b) ∧ (enc a = enc b → a = b) :=
  ⟨Blue.TupleKey2.strong_reflect h tri, Blue.TupleKey2.strong_injective h tri⟩

/-- `blt` (`<[u8] as Ord>::lt`) is a strict total order: asymmetric and trichotomous (irreflexive
    and transitive are `blt_irrefl`, `blt_trans`) -/
theorem byte_order_total (x y : List Nat) :
    (blt x y = true → blt y x = false) ∧ (blt x y = true ∨ x = y ∨ blt y x = true) :=
  ⟨Blue.TupleKey2.blt_asymm, Blue.TupleKey2.blt_trichotomy x y⟩

/-! integers of the field-numbered format: byte order ⇔ value order, ascending and descending -/
theorem u32_asc_iff {a b : Nat} (ha : a < 4294967296) (hb : b < 4294967296) (x y : List Nat) :
    blt (encU32 a ++ x) (encU32 b ++ y) = true ↔ a < b ∨ (a = b ∧ blt x y = true) := encU32_order_iff ha hb x y
theorem u32_desc_iff {a b : Nat} (ha : a < 4294967296) (hb : b < 4294967296) (x y : List Nat) :
    blt (reverse (encU32 a) ++ x) (reverse (encU32 b) ++ y) = true ↔ b < a ∨ (a = b ∧ blt x y = true) :=
  encU32_rev_order_iff ha hb x y
theorem u64_asc_iff {a b : Nat} (ha : a < 18446744073709551616) (hb : b < 18446744073709551616) (x y : List Nat) :
    blt (encU64 a ++ x) (encU64 b ++ y) = true ↔ a < b ∨ (a = b ∧ blt x y = true) := encU64_order_iff ha hb x y
theorem u64_desc_iff {a b : Nat} (ha : a < 18446744073709551616) (hb : b < 18446744073709551616) (x y : List Nat) :
    blt (reverse (encU64 a) ++ x) (reverse (encU64 b) ++ y) = true ↔ b < a ∨ (a = b ∧ blt x y = true) :=
  encU64_rev_order_iff ha hb x y
theorem i32_asc_iff {a b : Int} (ha : -2147483648 ≤ a ∧ a < 2147483648) (hb : -2147483648 ≤ b ∧ b < 2147483648)
    (x y : List Nat) :
    blt (encI32 a ++ x) (encI32 b ++ y) = true ↔ a < b ∨ (a = b ∧ blt x y = true) := encI32_order_iff ha hb x y
theorem i32_desc_iff {a b : Int} (ha : -2147483648 ≤ a ∧ a < 2147483648) (hb : -2147483648 ≤ b ∧ b < 2147483648)
    (x y : List Nat) :
    blt (reverse (encI32 a) ++ x) (reverse (encI32 b) ++ y) = true ↔ b < a ∨ (a = b ∧ blt x y = true) :=
  encI32_rev_order_iff ha hb x y
theorem i64_asc_iff {a b : Int} (ha : -9223372036854775808 ≤ a ∧ a < 9223372036854775808)
    (hb : -9223372036854775808 ≤ b ∧ b < 9223372036854775808) (x y : List Nat) :
    blt (encI64 a ++ x) (encI64 b ++ y) = true ↔ a < b ∨ (a = b ∧ blt x y = true) := encI64_order_iff ha hb x y
theorem i64_desc_iff {a b : Int} (ha : -9223372036854775808 ≤ a ∧ a < 9223372036854775808)
    (hb : -9223372036854775808 ≤ b ∧ b < 9223372036854775808) (x y : List Nat) :
    blt (reverse (encI64 a) ++ x) (reverse (encI64 b) ++ y) = true ↔ b < a ∨ (a = b ∧ blt x y = true) :=
  encI64_rev_order_iff ha hb x y

/-- ascending strings: byte strings compare as their encodings, a string before its extensions -/
theorem string_asc : Strong encString (fun s t => blt s t = true ∧ Bytes s ∧ Bytes t) := encString_strong

/-- ascending strings, both directions: the encodings (with anything behind them) compare exactly
    as the byte strings -/
theorem string_asc_iff {s t : List Nat} (hs : Bytes s) (ht : Bytes t) (x y : List Nat) :
    blt (encString s ++ x) (encString t ++ y) = true ↔ blt s t = true ∨ (s = t ∧ blt x y = true) :=
  encString_order_iff hs ht x y

/-- **D-20** descending strings do NOT sort in reverse (`""` vs `"\0"`).  Stated over all
    `List Nat` (a superset of the domain); `string_desc_counterexample_utf8` is the statement
    inside the domain. -/
theorem string_desc_counterexample : ¬ Strong (fun s => reverse (encString s)) (fun a b => slt b a) :=
  Blue.TupleKey1.string_desc_counterexample

/-- **D-20 inside the real domain**: restricted to byte strings that are valid UTF-8 (what a Rust
    `String` holds) descending strings still do not sort in reverse — the witness `""` / `"\0"`
    is a pair of valid strings -/
theorem string_desc_counterexample_utf8 :
    ¬ Strong (fun s => reverse (encString s))
        (fun a b => blt b a = true ∧ Bytes a ∧ Bytes b ∧ Blue.Utf8.valid a = true ∧ Blue.Utf8.valid b = true) :=
  Blue.TupleKey1.string_desc_counterexample_utf8

/-- descending strings, what does hold: every pair whose forward encodings first differ in a
    data bit.  `_partial` because the full statement is `string_desc_counterexample`-false; the
    excluded pairs are exactly `ContTie` (decidable: `contTie_decidable`). -/
theorem string_desc_partial :
    Strong (fun s => reverse (encString s))
      (fun s t => blt t s = true ∧ Bytes s ∧ Bytes t ∧ ¬ ContTie (encString t) (encString s)) :=
  Blue.TupleKey1.string_desc_partial

/-- **D-20, the whole class**: every pair whose forward encodings first differ in the
    continuation bit keeps its ascending order under `Direction::Reverse` -/
theorem string_desc_tie_ascending (s t : List Nat) (h : ContTie (encString s) (encString t)) (x y : List Nat) :
    blt (reverse (encString s) ++ x) (reverse (encString t) ++ y) = true :=
  Blue.TupleKey1.string_desc_tie_ascending s t h x y

/-- the trigger is what the driver computes on every pair (`tie=` in the observation) -/
theorem contTie_decidable (x y : List Nat) : ContTie x y ↔ contTieB x y = true := contTie_iff x y

/-- every pair of strings in ascending order is decided either in data bits or in the
    continuation bit: nothing else can happen, so D-20's class is complete (inclusive or;
    exclusivity is `string_pairs_exclusive`, the converse `string_pairs_iff`) -/
theorem string_pairs_dichotomy {s t : List Nat} (h : blt s t = true) (hs : Bytes s) (ht : Bytes t) :
    DataLt (encString s) (encString t) ∨ ContTie (encString s) (encString t) :=
  strong_dichotomy encString_strong (a := s) (b := t) ⟨h, hs, ht⟩

/-- the two cases exclude each other (for any two byte strings, not only encodings) -/
theorem string_pairs_exclusive {u v : List Nat} (h1 : DataLt u v) (h2 : ContTie u v) : False :=
  dataLt_contTie_exclusive h1 h2

/-- the dichotomy is an equivalence: `s < t` iff the encodings first differ in data bits or in
    the continuation bit, in that direction -/
theorem string_pairs_iff {s t : List Nat} (hs : Bytes s) (ht : Bytes t) :
    blt s t = true ↔ (DataLt (encString s) (encString t) ∨ ContTie (encString s) (encString t)) :=
  Blue.TupleKey1.string_pairs_iff hs ht

/-- … and exactly one of the two holds -/
theorem string_pairs_exactly_one {s t : List Nat} (h : blt s t = true) (hs : Bytes s) (ht : Bytes t) :
    (DataLt (encString s) (encString t) ∧ ¬ ContTie (encString s) (encString t))
    ∨ (ContTie (encString s) (encString t) ∧ ¬ DataLt (encString s) (encString t)) :=
  Blue.TupleKey1.string_pairs_exactly_one h hs ht

/-- **D-20, the exact order of descending strings**: the inverted encodings of `s` and `t` (with
    anything behind them) compare as `t < s` when the pair is outside `ContTie`, as `s < t` — the
    wrong way round — when the forward encodings of `s`, `t` first differ in the continuation
    bit, and by what follows when `s = t`; nothing else -/
theorem string_desc_order_exact {s t : List Nat} (hs : Bytes s) (ht : Bytes t) (x y : List Nat) :
    blt (reverse (encString s) ++ x) (reverse (encString t) ++ y) = true ↔
      ((blt t s = true ∧ ¬ ContTie (encString t) (encString s))
        ∨ ContTie (encString s) (encString t) ∨ (s = t ∧ blt x y = true)) :=
  Blue.TupleKey1.string_desc_order_exact hs ht x y

/-- **D-20's class is exact**: a pair `t < s` under `Direction::Reverse` is sorted the right way
    round (`s` first) iff it is outside `ContTie` -/
theorem string_desc_correct_iff {s t : List Nat} (hs : Bytes s) (ht : Bytes t) (h : blt t s = true)
    (x y : List Nat) :
    blt (reverse (encString s) ++ x) (reverse (encString t) ++ y) = true ↔ ¬ ContTie (encString t) (encString s) :=
  Blue.TupleKey1.string_desc_correct_iff hs ht h x y

/-- one tagged field (`extend_with_key`): tag, then the element, inverted if `Reverse` -/
theorem field_order (f : Nat) (d : Dir) :
    Strong (encField f d) (fun a b => a.InRange ∧ b.InRange ∧ fieldLt d a b) := encField_strong f d

/-- **tuples**: two tuples with the same field numbers and directions compare element by element
    (reversed per descending element; descending strings minus D-20's pairs), whatever follows -/
theorem tuple_order : Strong encTuple (fun a b => TupleInRange a ∧ TupleInRange b ∧ tupleLt a b) :=
  encTuple_strong

/-- one tagged field, both directions of the equivalence: two in-range values of the same element
    type (a descending string pair: outside D-20's class, `FieldTieFree`) compare in their encoded
    fields exactly as `fieldLt d`, or are equal and what follows decides -/
theorem field_order_iff (f : Nat) (d : Dir) {a b : Val} (ha : a.InRange) (hb : b.InRange)
    (hty : a.ty = b.ty) (hnt : FieldTieFree d a b) (x y : List Nat) :
    blt (encField f d a ++ x) (encField f d b ++ y) = true ↔ fieldLt d a b ∨ (a = b ∧ blt x y = true) :=
  encField_order_iff f d ha hb hty hnt x y

/-- `tupleLt` is trichotomous on tuples with the same field numbers, element types and directions
    (`schemaOf`: the property's quantifier), descending strings outside D-20's class -/
theorem tupleLt_trichotomy {a b : List (Nat × Dir × Val)} (hs : schemaOf a = schemaOf b) (hn : TupleTieFree a b) :
    tupleLt a b ∨ a = b ∨ tupleLt b a := Blue.TupleKey1.tupleLt_trichotomy hs hn

/-- **tuples, order embedding**: for two in-range tuples with the same field numbers, element types
    and directions (descending strings outside D-20's class) comparing the encoded keys — with
    anything behind them — gives the same result as comparing the tuples element by element -/
theorem tuple_order_iff {a b : List (Nat × Dir × Val)} (ia : TupleInRange a) (ib : TupleInRange b)
    (hs : schemaOf a = schemaOf b) (hn : TupleTieFree a b) (x y : List Nat) :
    blt (encTuple a ++ x) (encTuple b ++ y) = true ↔ tupleLt a b ∨ (a = b ∧ blt x y = true) :=
  encTuple_order_iff ia ib hs hn x y

/-- **injectivity** (from the round trip, D-20's pairs included): two tuples `extend_with_key`
    accepts, with the same field numbers, types and directions and the same key bytes, are equal -/
theorem tuple_injective {a b : List (Nat × Dir × Val)} (oa : ∀ e ∈ a, ElemOk e) (ob : ∀ e ∈ b, ElemOk e)
    (hs : schemaOf a = schemaOf b) (he : encTuple a = encTuple b) : a = b :=
  encTuple_injective oa ob hs he

/-- prefix contiguity: a tuple sorts before each of its extensions … -/
theorem tuple_extension_after (t e : List (Nat × Dir × Val)) (he : e ≠ []) :
    blt (encTuple t) (encTuple (t ++ e)) = true := Blue.TupleKey1.tuple_extension_after t e he

/-- … and every extension of `t` sorts before everything that sorts after `t` -/
theorem tuple_extension_before (t t' e e' : List (Nat × Dir × Val))
    (ht : TupleInRange t) (ht' : TupleInRange t') (h : tupleLt t t') :
    blt (encTuple (t ++ e)) (encTuple (t' ++ e')) = true :=
  Blue.TupleKey1.tuple_extension_before t t' e e' ht ht' h

/-- element decoders invert the encoders; other widths are rejected -/
theorem element_decoders :
    (∀ x, x < 4294967296 → decU32 (encU32 x) = some x)
    ∧ (∀ x, x < 18446744073709551616 → decU64 (encU64 x) = some x)
    ∧ (∀ x : Int, -2147483648 ≤ x → x < 2147483648 → decI32 (encI32 x) = some x)
    ∧ (∀ x : Int, -9223372036854775808 ≤ x → x < 9223372036854775808 → decI64 (encI64 x) = some x)
    ∧ (∀ s, Bytes s → decString (encString s) = s)
    ∧ (∀ bs : List Nat, bs.length ≠ 5 → decU32 bs = none) :=
  ⟨decU32_enc, decU64_enc, decI32_enc, decI64_enc, decString_encString, decU32_width⟩

/-- **round trip**: `TupleKeyParser` with the writer's element sequence returns the tuple — in
    both directions, descending strings included — and stands exactly behind the key -/
theorem tuple_roundtrip (t : List (Nat × Dir × Val)) (h : ∀ e ∈ t, ElemOk e) (rest : List Nat) :
    parseRow (schemaOf t) (encTuple t ++ rest) = (t.map (fun e => e.2.2), .ok rest) :=
  parseRow_encTuple t h rest

end FieldNumbered

/-! ## compact format -/
section Compact
open Blue.TupleKey2

theorem compact_u64 : Strong encodeU64 (fun a b => a < b) := encodeU64_strong
theorem compact_i64 : Strong encodeI64 (fun a b => a < b ∧ I64 a ∧ I64 b) := encodeI64_strong
theorem compact_bytes : Strong encodeBytes slt := encodeBytes_strong

/-! the converse for the compact elements: byte order ⇔ value order -/
theorem compact_u64_iff (a b : Nat) (x y : List Nat) :
    blt (encodeU64 a ++ x) (encodeU64 b ++ y) = true ↔ a < b ∨ (a = b ∧ blt x y = true) :=
  encodeU64_order_iff a b x y
theorem compact_i64_iff {a b : Int} (ha : I64 a) (hb : I64 b) (x y : List Nat) :
    blt (encodeI64 a ++ x) (encodeI64 b ++ y) = true ↔ a < b ∨ (a = b ∧ blt x y = true) :=
  encodeI64_order_iff ha hb x y
theorem compact_bytes_iff (a b : List Nat) (x y : List Nat) :
    blt (encodeBytes a ++ x) (encodeBytes b ++ y) = true ↔ slt a b ∨ (a = b ∧ blt x y = true) :=
  encodeBytes_order_iff a b x y

/-- lexicographic pairs of strong encodings are strong (the step of every tuple theorem) -/
theorem strong_pair {α β : Type} {ea : α → List Nat} {eb : β → List Nat}
    {la : α → α → Prop} {lb : β → β → Prop} (ha : Strong ea la) (hb : Strong eb lb) :
    Strong (fun p : α × β => ea p.1 ++ eb p.2) (fun p q => la p.1 q.1 ∨ (p.1 = q.1 ∧ lb p.2 q.2)) :=
  Blue.TupleKey2.strong_pair ha hb

/-- **tuples**, as the builder the driver runs encodes them -/
theorem compact_tuple_order {ra rb : List (Ty × Val)} {ea eb : List Nat}
    (ha : encRow ra = some ea) (hb : encRow rb = some eb)
    (ia : RowInRange (ra.map (·.2))) (ib : RowInRange (rb.map (·.2)))
    (h : rowLt (ra.map (·.2)) (rb.map (·.2))) (x y : List Nat) : blt (ea ++ x) (eb ++ y) = true :=
  encRow_strong ha hb ia ib h x y

/-- `rowLt` is trichotomous on value rows of the same kinds -/
theorem rowLt_trichotomy {a b : List Val} (h : RowSameKind a b) : rowLt a b ∨ a = b ∨ rowLt b a :=
  Blue.TupleKey2.rowLt_trichotomy h

/-- **tuples, order embedding**, as the builder the driver runs encodes them: for two in-range
    rows written with the same method sequence, comparing the keys — with anything behind them —
    gives the same result as comparing the rows element by element -/
theorem compact_tuple_order_iff {ra rb : List (Ty × Val)} {ea eb : List Nat}
    (ha : encRow ra = some ea) (hb : encRow rb = some eb) (hty : ra.map (·.1) = rb.map (·.1))
    (ia : RowInRange (ra.map (·.2))) (ib : RowInRange (rb.map (·.2))) (x y : List Nat) :
    blt (ea ++ x) (eb ++ y) = true ↔ rowLt (ra.map (·.2)) (rb.map (·.2)) ∨ (ra = rb ∧ blt x y = true) :=
  encRow_order_iff ha hb hty ia ib x y

theorem compact_extension_after (t e : List Val) (he : e ≠ []) : blt (encVals t) (encVals (t ++ e)) = true :=
  vals_extension_after t e he

theorem compact_extension_before (t t' e e' : List Val) (ht : RowInRange t) (ht' : RowInRange t')
    (h : rowLt t t') : blt (encVals (t ++ e)) (encVals (t' ++ e')) = true :=
  vals_extension_before t t' e e' ht ht' h

/-- prefix contiguity over the builder model `encRow` the driver runs: a row sorts before each of
    its extensions … -/
theorem compact_extension_after_encRow {t e : List (Ty × Val)} {a b : List Nat} (ha : encRow t = some a)
    (hb : encRow (t ++ e) = some b) (he : e ≠ []) : blt a b = true := encRow_extension_after ha hb he

/-- … and every extension of `t` sorts before every extension of a row that sorts after `t` -/
theorem compact_extension_before_encRow {t t' e e' : List (Ty × Val)} {a b : List Nat}
    (ha : encRow (t ++ e) = some a) (hb : encRow (t' ++ e') = some b)
    (it : RowInRange (t.map (·.2))) (it' : RowInRange (t'.map (·.2)))
    (h : rowLt (t.map (·.2)) (t'.map (·.2))) : blt a b = true := encRow_extension_before ha hb it it' h

/-- bridge: `encVals` (in which `compact_extension_after/_before` and `compact_roundtrip_vals` are stated) is
    what the builder model `encRow`, the function the driver runs, produces -/
theorem compact_encRow_eq {r : List (Ty × Val)} {bs : List Nat} (h : encRow r = some bs) :
    bs = encVals (r.map (·.2)) := encRow_eq h

/-- element parsers invert the builder and hand over exactly what follows -/
theorem compact_element_decoders :
    (∀ v rest, v < 18446744073709551616 → parseU64 (encodeU64 v ++ rest) = .ok (v, rest))
    ∧ (∀ z rest, I64 z → parseI64 (encodeI64 z ++ rest) = .ok (z, rest))
    ∧ (∀ s rest fuel, (encodeBytes s).length ≤ fuel → parseBytes fuel (encodeBytes s ++ rest) = .ok (s, rest))
    ∧ (∀ s rest fuel, (encodeBytes s).length ≤ fuel → decodeBytes fuel (encodeBytes s ++ rest) = some (s, rest)) :=
  ⟨fun v rest h => parseU64_encode v h rest, fun z rest h => parseI64_encode z h rest,
   parseBytes_encode, decodeBytes_encode⟩

/-- **round trip**, over the builder model `encRow` the driver runs: the builder accepts every row
    of well-typed values (all eleven builder methods, with their range checks), and the parser with
    the writer's type sequence returns the row from those bytes and `finish` accepts -/
theorem compact_roundtrip (r : List (Ty × Val)) (h : ∀ e ∈ r, TyOk e.1 e.2) :
    ∃ bs, encRow r = some bs ∧ parseRow (r.map (·.1)) bs = (r.map (·.2), none) := parseRow_encRow r h

/-- the same over `encVals` (the statement as it was before the audit) -/
theorem compact_roundtrip_vals (r : List (Ty × Val)) (h : ∀ e ∈ r, TyOk e.1 e.2) :
    parseRow (r.map (·.1)) (encVals (r.map (·.2))) = (r.map (·.2), none) := parseRow_encode r h

/-- **injectivity** (from the round trip): two well-typed rows with the same type sequence and the
    same key bytes are equal -/
theorem compact_injective {ra rb : List (Ty × Val)} {e : List Nat}
    (ha : encRow ra = some e) (hb : encRow rb = some e) (hty : ra.map (·.1) = rb.map (·.1))
    (oa : ∀ e ∈ ra, TyOk e.1 e.2) (ob : ∀ e ∈ rb, TyOk e.1 e.2) : ra = rb :=
  encRow_injective ha hb hty oa ob

end Compact

/-! ## non-vacuity: the hypotheses are met by concrete, non-trivial inputs -/
section NonVacuity
open Blue.TupleKey1

-- a two-element tuple pair decided in the second, descending, element
example : tupleLt [(1, .fwd, .str [0x61]), (8, .rev, .i64 (-1))] [(1, .fwd, .str [0x61]), (8, .rev, .i64 (-2))] := by
  simp [tupleLt, fieldLt, Val.lt, NoTie]
example : TupleInRange [(1, .fwd, .str [0x61]), (8, .rev, .i64 (-1))] := by
  intro e he
  simp only [List.mem_cons, List.not_mem_nil, or_false] at he
  rcases he with rfl | rfl
  · intro b hb; simp only [List.mem_cons, List.not_mem_nil, or_false] at hb; omega
  · exact ⟨by omega, by omega⟩
-- a descending string pair outside D-20's class, and one inside
example : blt [0x61] [0x62] = true ∧ ¬ ContTie (encString [0x61]) (encString [0x62]) := by decide
example : ContTie (encString []) (encString [0]) := contTie_empty_zero
example : ContTie (encString [0x61, 0x62, 0x63, 0x64, 0x65, 0x66, 0x67])
    (encString [0x61, 0x62, 0x63, 0x64, 0x65, 0x66, 0x67, 0xff]) := by decide
-- an element that meets the round trip's conditions
example : ElemOk (536870911, .rev, .str [0xf4, 0x8f, 0xbf, 0xbf]) := by
  refine ⟨by decide, ?_, ?_⟩
  · intro b hb; simp only [List.mem_cons, List.not_mem_nil, or_false] at hb; omega
  · intro s hs; cases hs; decide
example : Blue.TupleKey2.TyOk .i8 (.int (-128)) ∧ Blue.TupleKey2.TyOk .str (.bytes [0xc3, 0xbf]) := by
  refine ⟨⟨by omega, by omega⟩, ?_⟩
  show Blue.Utf8.valid [0xc3, 0xbf] = true
  decide
example : Blue.TupleKey2.rowLt [.bytes [0], .int (-129)] [.bytes [0], .int (-128)] := by
  simp [Blue.TupleKey2.rowLt, Blue.TupleKey2.Val.lt]

-- D-20 pairs made of valid UTF-8 strings only: "abcdefg" / "abcdefgh" (seven bytes fill eight
-- chunks exactly, so EVERY extension is a tie) and "a" / "a\0"
example : ContTie (encString [0x61, 0x62, 0x63, 0x64, 0x65, 0x66, 0x67])
      (encString [0x61, 0x62, 0x63, 0x64, 0x65, 0x66, 0x67, 0x68])
    ∧ Blue.Utf8.valid [0x61, 0x62, 0x63, 0x64, 0x65, 0x66, 0x67, 0x68] = true := by decide
example : ContTie (encString [0x61]) (encString [0x61, 0]) ∧ Blue.Utf8.valid [0x61, 0] = true := by decide
-- `string_desc_correct_iff` decides both ways on concrete pairs: "b" before "a" is right,
-- "a\0" before "a" is not what the code does
example : blt (reverse (encString [0x62])) (reverse (encString [0x61])) = true
    ∧ blt (reverse (encString [0x61, 0])) (reverse (encString [0x61])) = false := by decide

-- the hypotheses of `tuple_order_iff` on a pair that contains a descending string pair (outside
-- D-20's class) and is decided there; the conclusion evaluated on the same pair
example : schemaOf [(1, .fwd, .str [0x61]), (8, .rev, .str [0x62])] = schemaOf [(1, .fwd, .str [0x61]), (8, .rev, .str [0x61])] := rfl
example : TupleTieFree [(1, .fwd, .str [0x61]), (8, .rev, .str [0x62])] [(1, .fwd, .str [0x61]), (8, .rev, .str [0x61])] := by
  simp only [TupleTieFree, FieldTieFree, NoTie]
  decide
example : tupleLt [(1, .fwd, .str [0x61]), (8, .rev, .str [0x62])] [(1, .fwd, .str [0x61]), (8, .rev, .str [0x61])] := by
  simp only [tupleLt, fieldLt, Val.lt, NoTie]
  decide
example : blt (encTuple [(1, .fwd, .str [0x61]), (8, .rev, .str [0x62])])
    (encTuple [(1, .fwd, .str [0x61]), (8, .rev, .str [0x61])]) = true := by decide
-- `TupleTieFree` is needed: on D-20's pair `tupleLt` is not trichotomous
example : ¬ (tupleLt [(1, .rev, .str [])] [(1, .rev, .str [0])] ∨ [(1, Dir.rev, Val.str [])] = [(1, .rev, .str [0])]
    ∨ tupleLt [(1, .rev, .str [0])] [(1, .rev, .str [])]) := by
  simp only [tupleLt, fieldLt, Val.lt, NoTie]
  decide

-- compact format: the builder model on a two-element row (escaped zero byte, an integer just
-- below the i8 range), the hypotheses of `compact_tuple_order_iff` and its conclusion on it
example : Blue.TupleKey2.encRow [(.bytes, .bytes [0]), (.i16, .int (-129))] = some [0, 255, 0, 0, 0x17, 0x7f] := by
  decide +kernel
example : Blue.TupleKey2.encRow [(.bytes, .bytes [0]), (.i16, .int (-128))] = some [0, 255, 0, 0, 0x17, 0x80] := by
  decide +kernel
example : Blue.TupleKey2.RowInRange [.bytes [0], .int (-129)] := by
  intro v hv
  simp only [List.mem_cons, List.not_mem_nil, or_false] at hv
  rcases hv with rfl | rfl
  · trivial
  · exact ⟨by omega, by omega⟩
example : Blue.TupleKey2.RowSameKind [.bytes [0], .int (-129)] [.bytes [0], .int (-128)] := ⟨trivial, trivial, trivial⟩
example : blt [0, 255, 0, 0, 0x17, 0x7f] [0, 255, 0, 0, 0x17, 0x80] = true := by decide
-- the builder model refuses a value that is not of the method's argument type
example : Blue.TupleKey2.encRow [(.u8, .int 3)] = none := by decide

end NonVacuity

end Blue.Props.C16

#print axioms Blue.Props.C16.discriminants_from_source
#print axioms Blue.Props.C16.from_discriminant_from_source
#print axioms Blue.Props.C16.signed_offsets_from_source
#print axioms Blue.Props.C16.field_numbers_from_source
#print axioms Blue.Props.C16.compact_tags_from_source
#print axioms Blue.Props.C16.order_embedding
#print axioms Blue.Props.C16.order_reflected
#print axioms Blue.Props.C16.byte_order_total
#print axioms Blue.Props.C16.u32_asc
#print axioms Blue.Props.C16.u32_desc
#print axioms Blue.Props.C16.u64_asc
#print axioms Blue.Props.C16.u64_desc
#print axioms Blue.Props.C16.i32_asc
#print axioms Blue.Props.C16.i32_desc
#print axioms Blue.Props.C16.i64_asc
#print axioms Blue.Props.C16.i64_desc
#print axioms Blue.Props.C16.u32_asc_iff
#print axioms Blue.Props.C16.u32_desc_iff
#print axioms Blue.Props.C16.u64_asc_iff
#print axioms Blue.Props.C16.u64_desc_iff
#print axioms Blue.Props.C16.i32_asc_iff
#print axioms Blue.Props.C16.i32_desc_iff
#print axioms Blue.Props.C16.i64_asc_iff
#print axioms Blue.Props.C16.i64_desc_iff
#print axioms Blue.Props.C16.string_asc
#print axioms Blue.Props.C16.string_asc_iff
#print axioms Blue.Props.C16.string_desc_counterexample
#print axioms Blue.Props.C16.string_desc_counterexample_utf8
#print axioms Blue.Props.C16.string_desc_partial
#print axioms Blue.Props.C16.string_desc_tie_ascending
#print axioms Blue.Props.C16.contTie_decidable
#print axioms Blue.Props.C16.string_pairs_dichotomy
#print axioms Blue.Props.C16.string_pairs_exclusive
#print axioms Blue.Props.C16.string_pairs_iff
#print axioms Blue.Props.C16.string_pairs_exactly_one
#print axioms Blue.Props.C16.string_desc_order_exact
#print axioms Blue.Props.C16.string_desc_correct_iff
#print axioms Blue.Props.C16.field_order
#print axioms Blue.Props.C16.tuple_order
#print axioms Blue.Props.C16.field_order_iff
#print axioms Blue.Props.C16.tupleLt_trichotomy
#print axioms Blue.Props.C16.tuple_order_iff
#print axioms Blue.Props.C16.tuple_injective
#print axioms Blue.Props.C16.tuple_extension_after
#print axioms Blue.Props.C16.tuple_extension_before
#print axioms Blue.Props.C16.element_decoders
#print axioms Blue.Props.C16.tuple_roundtrip
#print axioms Blue.Props.C16.compact_u64
#print axioms Blue.Props.C16.compact_i64
#print axioms Blue.Props.C16.compact_bytes
#print axioms Blue.Props.C16.compact_u64_iff
#print axioms Blue.Props.C16.compact_i64_iff
#print axioms Blue.Props.C16.compact_bytes_iff
#print axioms Blue.Props.C16.strong_pair
#print axioms Blue.Props.C16.compact_tuple_order
#print axioms Blue.Props.C16.rowLt_trichotomy
#print axioms Blue.Props.C16.compact_tuple_order_iff
#print axioms Blue.Props.C16.compact_extension_after
#print axioms Blue.Props.C16.compact_extension_before
#print axioms Blue.Props.C16.compact_extension_after_encRow
#print axioms Blue.Props.C16.compact_extension_before_encRow
#print axioms Blue.Props.C16.compact_encRow_eq
#print axioms Blue.Props.C16.compact_element_decoders
#print axioms Blue.Props.C16.compact_roundtrip
#print axioms Blue.Props.C16.compact_roundtrip_vals
#print axioms Blue.Props.C16.compact_injective
