import Blue.Proofs.Log
import Blue.Proofs.LogTrunc
import Blue.Proofs.LogHeader
import Blue.Proofs.Wcq
import Blue.Proofs.FsyncCore
/-! Property C12: the theorems the check builds and audits (spike inventory; the build phase
    completes the list from DESIGN Appendix C.0). -/
#print axioms Blue.Wcq.core_sees_inputs_once_in_order
#print axioms Blue.FsyncCore.answered_true_is_durable
