import Blue.Proofs.Log
import Blue.Proofs.LogHeader
import Blue.Proofs.LogTrunc
import Blue.Proofs.LogDamage
import Blue.Proofs.LogCrash
import Blue.Proofs.LogAny
import Blue.Proofs.LogCrashAny
import Blue.Proofs.LogCut
import Blue.Proofs.FsyncCore
import Blue.Proofs.Wcq
import Blue.Proofs.WcqV
import Blue.Proofs.ConcLog
import Blue.Proofs.ConcLogQueues
import Blue.Proofs.Crc32c
import Blue.Proofs.ConstsTieC12
import Blue.Driver.C12
/-! # Property C12 — the log returns each batch once, in order; a torn tail loses only the tail;
    concurrent appends are durable before return and appear exactly once, whole

Property theorems only (the proofs live in `Blue/Proofs/{Log,LogAny,LogHeader,LogTrunc,LogDamage,
LogCrash,LogCrashAny,LogCut,FsyncCore,Wcq,WcqV,ConcLog,ConcLogQueues}.lean`).  The model (`Blue/Model/Log.lean`) is the writer `_append` /
`append_split` / `true_up` and the reader `next_header` / `next_frame` / `next` of `sst/src/log.rs`
over a parameter set `P` (block size, `HEADER_MAX_SIZE`, `TABLE_FULL_SIZE`, header codec, checksum).
The reader's `true_up` reads the bytes it skips and refuses anything but the writer's zero padding
(`padZero`; the repair of D-11, see C09): the round-trip theorems go through because the writer's
padding is zero (`writer_padding_passes_check`).
`Good P` is what the theorems need; `good_real` shows that the parameters *read out of the source*
(`Blue.ConstsTie.extractedLogParams`, equal to the `realParams` the driver runs) satisfy it for any
32-bit checksum, in particular for the CRC-32C the driver computes.

A batch here is the byte buffer of one `append` (for `ConcurrentLogBuilder`: the members'
`WriteBatch` buffers merged by the write core into one frame).  The theorems are at BUFFER level:
a batch is an opaque byte list; the decoding of a buffer into entries (`WriteBatch` framing) is
driver / harness code, and the empty buffer is admitted by the model (`[] ∈ bufs` reads back as
`[]`) while the real reader answers `Err(empty batch)` — `WriteBatch` never produces one.

The composition of the pieces of `ConcurrentLogBuilder::append` IS a theorem about one model
(`Blue/Model/ConcLog.lean`, block `ConcLog` at the end): callers enter the write queue in link order;
a leader's batch is the next `n ≥ 1` of them, merged (`WriteBatch::merge` = concatenation) and handed to
the file model `Blue.LogCrash.FileSt` as one write of `Blue.Log.appendAt` at the builder's position;
every member is answered the cumulative payload count and enters the fsync queue (in ITS link order)
with it; the fsync core is `Blue.FsyncCore.rstep`, an `fdatasync` that returns successfully makes
durable the bytes that were in the file when it was ISSUED.  `conc_log_file_is_sequential`: the file
of every run is `writeAll` of the merged batches in link order, and reads back as exactly those;
`conc_log_ack_is_durable` / `conc_log_ack_survives_later_crash`: a caller answered `Ok` has its record
wholly inside the durable prefix, and after a crash at any later point, with any prefix of the
not-yet-synced bytes surviving, the iterator delivers exactly a prefix of the link-order records that
contains it; `conc_log_failed_sync_not_acked`: the members of a failed call get the error, nobody is
answered twice, a later successful call does not acknowledge them.

The two `WorkCoalescingQueue`s enter `Blue.ConcLog` through their SPEC (a batch is the next `n ≥ 1`
inputs in link order, none twice, none skipped, one batch inside `work` at a time, every member is
handed the output `work` produced for it).  Block `ConcLogQueues` closes the gap to the wake-up
protocol model `Blue.WcqV`: `wcqv_run_meets_spec` (every run of `Blue.WcqV` satisfies `QueueSpec`, the
batches being the accepted `lead` events of the run) and `conclog_of_two_wcqv_runs` /
`queue_returns_are_conclog_answers` (a `Blue.WcqV` run of the write queue and one of the fsync queue
give a `Blue.ConcLog` event list with exactly their batches as `groups` / fsync rounds and the two
cores' outputs as `wrets` / `answers`, and what the `do_work` calls return in the wake-up models is
what that run answers).  The embedding is at the level of results (batches, answers, file), for one
serialisation (all writes before all fsync rounds; that batches and answers do not depend on that
choice is argued in the file, not proved), not an event-by-event simulation of the interleaved protocol steps of both queues.

What remains NOT a theorem: (i) a step-by-step simulation between `Blue.WcqV` × `Blue.WcqV` and
`Blue.ConcLog` (the embedding above is at the level of results); (ii) a failing `write`/`flush` (every member gets the `Err`;
`self.written` has already advanced), `table_full`/`rollover_size`, and `ConcurrentLogBuilder::fsync()`
(an entry `0` in the fsync queue) are not in `Blue.ConcLog`; (iii) the composed model is replayed
by the driver as a whole (request `conclog`, `Blue.Driver.C12.handleConc`: an event list rebuilt from
the observed merge, the rounds of the fsync queue and the fdatasync probe of real N-thread runs) on
SAMPLED schedules only; the interleaving of links with writes and of writes with fsync rounds is not
observed but constructed (a call issued at file length `L` sees the records ending at or before `L`),
and the queues' wake-up protocol stays with C18's streams. -/
namespace Blue.Props.C12
open Blue.Log

/-! ## constants: the theorems are about the values in the source -/

/-- `realParams` is the parameter set built from the extracted `BLOCK_BITS`, `HEADER_MAX_SIZE`,
    `TABLE_FULL_SIZE` and `Header` field numbers -/
theorem params_from_source (crc : List Nat → Nat) :
    realParams crc = Blue.ConstsTie.extractedLogParams crc := Blue.ConstsTie.log_params crc

/-- `MAX_BATCH_SIZE = BLOCK_SIZE − 2·HEADER_MAX_SIZE`, `WriteBatch` accepts up to `BLOCK_SIZE`,
    the discriminants are the source's -/
theorem sizes_from_source :
    Blue.Generated.logBlockSize = 2 ^ Blue.Generated.logBlockBits
    ∧ Blue.Generated.logMaxBatchSize + 2 * Blue.Generated.logHeaderMaxSize = Blue.Generated.logBlockSize
    ∧ Blue.Generated.logBatchLimit = Blue.Generated.logBlockSize
    ∧ WHOLE = Blue.Generated.logHeaderWhole ∧ FIRST = Blue.Generated.logHeaderFirst
    ∧ SECOND = Blue.Generated.logHeaderSecond :=
  ⟨Blue.ConstsTie.log_sizes.1, Blue.ConstsTie.log_sizes.2.1, Blue.ConstsTie.log_sizes.2.2,
   Blue.ConstsTie.log_discriminants.1, Blue.ConstsTie.log_discriminants.2.1, Blue.ConstsTie.log_discriminants.2.2⟩

/-- the real log's parameters — as extracted from the source — satisfy `Good`, for any checksum
    with 32-bit values: the `Header` message round-trips and its encoding leaves room inside
    `HEADER_MAX_SIZE` -/
theorem good_real (crc : List Nat → Nat) (hcrc : ∀ l, crc l < 4294967296) :
    Good (Blue.ConstsTie.extractedLogParams crc) :=
  Blue.ConstsTie.log_params crc ▸ Blue.Log.good_real crc hcrc

/-- … in particular the exact parameter set the correspondence driver runs (CRC-32C in Lean) -/
theorem good_driver : Good Blue.Driver.C12.P := Blue.Log.good_real _ Blue.Crc32c.crc32c_lt

/-! ## sequential log

The size hypothesis is the reader's own limit only (`|batch| ≤ TABLE_FULL_SIZE`): the theorems cover
the documented `MAX_BATCH_SIZE`, the `BLOCK_SIZE` that `WriteBatch::put/del/merge` really accept, and
beyond (`Blue/Proofs/LogAny.lean`; the versions with `|batch| + 2·H ≤ B` in `Blue/Proofs/Log.lean` are
instances). -/

/-- what one `append` wrote is read back as exactly that batch and the reader ends up just after
    it — whole frame, padded to the boundary (then whole, or split there), or split across it; any
    prefix, any suffix -/
theorem append_read {P : Params} (g : Good P) (pre buf suf : List Nat) (htf : buf.length ≤ P.tableFull) :
    nextBatch P (pre ++ appendAt P 2 pre.length buf ++ suf) 2 pre.length
      = .ok (buf, pre.length + (appendAt P 2 pre.length buf).length) :=
  Blue.Log.append_read_any g pre buf suf htf

/-- reading a log yields exactly the appended batches, in order, whatever their sizes and however
    they straddle block boundaries -/
theorem log_roundtrip {P : Params} (g : Good P) (bufs : List (List Nat)) (pre : List Nat)
    (hsz : ∀ b ∈ bufs, b.length ≤ P.tableFull) :
    readAll P (pre ++ writeAll P bufs pre.length) (bufs.length + 1) pre.length = some bufs :=
  Blue.Log.log_roundtrip_any g bufs pre hsz

/-- the bytes the writer's `true_up` pads with pass the reader's check of the bytes it skips
    (`true_up` in `LogIterator`: all zero up to the block boundary), wherever the padding stands -/
theorem writer_padding_passes_check (a c : List Nat) (n off t : Nat) (h1 : a.length ≤ off)
    (h2 : t ≤ a.length + n) : padZero (a ++ zeros n ++ c) off t = true :=
  Blue.Log.padZero_zeros _ a c n off t rfl h1 h2

/-- the same for the real parameters with the driver's CRC-32C, the size bound being what
    `WriteBatch` accepts (`check_batch_size`: `BLOCK_SIZE`, extracted) -/
theorem log_roundtrip_real (bufs : List (List Nat))
    (hsz : ∀ b ∈ bufs, b.length ≤ Blue.Generated.logBatchLimit) :
    readAll Blue.Driver.C12.P (writeAll Blue.Driver.C12.P bufs 0) (bufs.length + 1) 0 = some bufs := by
  have h := Blue.Log.log_roundtrip_any good_driver bufs [] (fun b hb => by
    have := hsz b hb
    show b.length ≤ 1006632960
    simp only [Blue.Generated.logBatchLimit] at this
    omega)
  simpa using h

/-- cut the log at any byte: the reader delivers a prefix of the appended batches and nothing
    else (then it ends or reports an error) — never part of a batch, never an invented one -/
theorem truncated_log_prefix {P : Params} (g : Good P) (bufs : List (List Nat)) (n : Nat)
    (hsz : ∀ b ∈ bufs, b.length ≤ P.tableFull) :
    ∃ rest, bufs = (readSome P ((writeAll P bufs 0).take n) (bufs.length + 1) 0).1 ++ rest :=
  Blue.Log.truncated_log_prefix_any g bufs n hsz

/-- for *every* byte list and every cut (no property of the writer used): what the cut file
    delivers, the whole file delivers first, in the same order -/
theorem readSome_take_prefix {P : Params} (file : List Nat) (n fuel off : Nat) :
    ∃ rest, (readSome P file fuel off).1 = (readSome P (file.take n) fuel off).1 ++ rest :=
  Blue.Log.readSome_take_prefix file n fuel off

/-- **a torn tail loses ONLY the tail** (completeness of a cut): every batch whose frames lie wholly
    before the cut IS delivered — whatever prefix `pre` the log is appended to -/
theorem cut_keeps_whole {P : Params} (g : Good P) (bufs : List (List Nat)) (pre : List Nat) (j n : Nat)
    (hsz : ∀ b ∈ bufs, b.length ≤ P.tableFull)
    (hn : pre.length + (writeAll P (bufs.take j) pre.length).length ≤ n) :
    ∃ rest, (readSome P ((pre ++ writeAll P bufs pre.length).take n) (bufs.length + 1) pre.length).1
      = bufs.take j ++ rest :=
  Blue.Log.cut_keeps_whole g bufs pre j n hsz hn

/-- `truncated_log_prefix` and `cut_keeps_whole` together: a log cut at byte `n` delivers EXACTLY
    the first `j'` batches, `j'` at least the number of batches written wholly before the cut -/
theorem cut_delivers_exactly {P : Params} (g : Good P) (bufs : List (List Nat)) (j n : Nat)
    (hsz : ∀ b ∈ bufs, b.length ≤ P.tableFull) (hn : (writeAll P (bufs.take j) 0).length ≤ n) :
    ∃ j', min j bufs.length ≤ j' ∧ j' ≤ bufs.length
      ∧ (readSome P ((writeAll P bufs 0).take n) (bufs.length + 1) 0).1 = bufs.take j' :=
  Blue.Log.cut_delivers_exactly g bufs j n hsz hn

/-- two files that agree on their first `m` bytes deliver identical batches for every read ending
    within those bytes: damage or truncation at offset `m` or later cannot change, reorder or
    invent an earlier batch -/
theorem reads_agree_before_damage {P : Params} (hB : 0 < P.B) (f f' : List Nat) (m : Nat)
    (hsame : f.take m = f'.take m) (fuel off : Nat) (r : List Nat × Nat)
    (h : nextBatch P f fuel off = .ok r) (hm : r.2 ≤ m) : nextBatch P f' fuel off = .ok r :=
  Blue.Log.reads_agree_before_damage hB f f' m hsame fuel off r h hm

/-- crash the writer between any two system calls of `write; fdatasync; acknowledge`: under both
    persistence models the surviving file reads back without error as a prefix of the batches
    containing every acknowledged one and at most the one in flight -/
theorem crash_prefix {P : Params} (g : Good P) (bufs done : List (List Nat)) (st : Blue.LogCrash.FileSt) (k : Nat)
    (hsz : ∀ b ∈ done ++ bufs, b.length ≤ P.tableFull)
    (hs : st.synced = writeAll P done 0) (hp : st.pending = []) :
    let evs := (Blue.LogCrash.protocol P bufs st.synced.length done.length).take k
    let st' := evs.foldl Blue.LogCrash.FileSt.apply st
    ∃ ja jb, readAll P (Blue.LogCrash.crashA st') (ja + 1) 0 = some ((done ++ bufs).take ja)
      ∧ readAll P (Blue.LogCrash.crashB st') (jb + 1) 0 = some ((done ++ bufs).take jb)
      ∧ done.length + Blue.LogCrash.acked evs ≤ jb ∧ jb ≤ ja ∧ ja ≤ done.length + Blue.LogCrash.acked evs + 1 :=
  Blue.LogCrash.crash_prefix_any g bufs done st k hsz hs hp

/-- the same with a TORN write: of the bytes written since the last completed `fdatasync` ANY
    prefix of `t` bytes survives (`t = 0`: model (b); `t ≥ |pending|`: model (a)).  The surviving
    file delivers exactly the first `j` batches, every acknowledged one among them, and then ends
    or reports an error -/
theorem crash_torn_prefix {P : Params} (g : Good P) (bufs done : List (List Nat)) (st : Blue.LogCrash.FileSt)
    (k t : Nat) (hsz : ∀ b ∈ done ++ bufs, b.length ≤ P.tableFull)
    (hs : st.synced = writeAll P done 0) (hp : st.pending = []) :
    let evs := (Blue.LogCrash.protocol P bufs st.synced.length done.length).take k
    let st' := evs.foldl Blue.LogCrash.FileSt.apply st
    ∃ j, done.length + Blue.LogCrash.acked evs ≤ j ∧ j ≤ (done ++ bufs).length
      ∧ (readSome P (st'.synced ++ st'.pending.take t) ((done ++ bufs).length + 1) 0).1 = (done ++ bufs).take j :=
  Blue.LogCrash.crash_torn_prefix g bufs done st k t hsz hs hp

/-! ## concurrent appends: the two coalescing queues -/

/-- the fsync core keeps `synced ≤ durable ≤ written` whatever batches `can_batch` forms -/
theorem fsync_invariant {s : Blue.FsyncCore.St} (h : Blue.FsyncCore.Inv s) (ev : Blue.FsyncCore.Ev) :
    Blue.FsyncCore.Inv (Blue.FsyncCore.step s ev).1 := Blue.FsyncCore.inv_step h ev

/-- a caller the fsync core answers `true` has its offset covered by an `fdatasync` that returned:
    `append` returns `Ok` only after its bytes are durable.  (Model fact of `Blue.FsyncCore`: a
    successful `fdatasync` sets `durable := written` by definition of `step`, and the `true` answer
    is guarded by the maximum of the batch; the content is that the guard compares with the
    maximum and that `Inv` is kept.) -/
theorem answered_true_is_durable {s : Blue.FsyncCore.St} (h : Blue.FsyncCore.Inv s) (inputs : List Nat) (ok : Bool)
    (hans : (Blue.FsyncCore.step s (.work inputs ok)).2 = some true) :
    ∀ i ∈ inputs, i ≤ (Blue.FsyncCore.step s (.work inputs ok)).1.durable :=
  Blue.FsyncCore.answered_true_is_durable h inputs ok hans

/-- the hypothesis "`batch` keeps the maximum" is needed: a core whose `batch` returns the last
    watermark seen answers `true` to an append that no returned `fdatasync` covers (closed
    counterexample: 10 bytes written, 5 durable, batch `{10, 0}`), where the real core syncs -/
theorem batch_returns_seen_loses_durability :
    ∃ (s : Blue.FsyncCore.St) (inputs : List Nat), Blue.FsyncCore.Inv s ∧ (∀ i ∈ inputs, i ≤ s.written)
      ∧ (Blue.FsyncCore.stepSeen s (.work inputs true)).2 = some true
      ∧ (∃ i ∈ inputs, (Blue.FsyncCore.stepSeen s (.work inputs true)).1.durable < i)
      ∧ (Blue.FsyncCore.step s (.work inputs true)).2 = some true
      ∧ (∀ i ∈ inputs, i ≤ (Blue.FsyncCore.step s (.work inputs true)).1.durable) :=
  Blue.FsyncCore.batch_returns_seen_loses_durability

/-! ### the same with the system call as two events, and calls that FAIL

`Blue.FsyncCore.rstep` (`Blue/Model/FsyncCore.lean`, the machine the driver replays the observed
rounds of the fsync queue through): a batch enters `work` (`enter`), takes the `synced >= acc`
shortcut or issues an `fdatasync`; writes of other callers land while it is in flight; it returns
success or FAILURE (`ret ok`).  On a failure every member is answered `false`
(`Err(corruption_fsync_failed)` from `append`), `synced` and `durable` do not move, and nothing
else happens — the `poison` flag `append` sets is never read, so later appends are served (each
batch not yet covered issues its own call). -/

/-- the run invariant `synced ≤ durable ≤ written` (and the in-flight call's `acc ≤ len ≤ written`)
    holds after every run, whatever calls failed -/
theorem fsync_run_invariant (evs : List Blue.FsyncCore.REv) : Blue.FsyncCore.RInv (Blue.FsyncCore.run evs) :=
  Blue.FsyncCore.rinv_run evs

/-- **"each call returns only after its batch is durable", with failing system calls**: in every
    run of the fsync core — any interleaving of writes, batches entering `work`, and `fdatasync`s
    returning success or failure — a caller answered `true` has its offset covered by an
    `fdatasync` that was issued after its bytes were written and has returned SUCCESSFULLY
    (`durable` is raised only by `ret true`, to `written` as it was when that call was issued) -/
theorem run_answered_true_is_durable (evs : List Blue.FsyncCore.REv) (ev : Blue.FsyncCore.REv) (a : Blue.FsyncCore.Ans)
    (hans : (Blue.FsyncCore.rstep (Blue.FsyncCore.run evs) ev).2 = some a) (hok : a.ok = true) :
    ∀ i ∈ a.inputs, i ≤ (Blue.FsyncCore.rstep (Blue.FsyncCore.run evs) ev).1.durable :=
  Blue.FsyncCore.run_answered_true_is_durable evs ev a hans hok

/-- … and it stays covered -/
theorem durable_mono (s : Blue.FsyncCore.RSt) (ev : Blue.FsyncCore.REv) :
    s.durable ≤ (Blue.FsyncCore.rstep s ev).1.durable := Blue.FsyncCore.durable_mono s ev

/-- a failed `fdatasync` answers every member of its batch `false` and moves nothing -/
theorem failed_call_answers_false_moves_nothing (s : Blue.FsyncCore.RSt) (f : Blue.FsyncCore.Flight)
    (h : s.flight = some f) :
    Blue.FsyncCore.rstep s (.ret false) = ({ s with flight := none }, some ⟨f.inputs, false⟩) :=
  Blue.FsyncCore.failed_call_answers_false_moves_nothing s f h

/-- an error is never invented: `false` is answered only by the return of a failed call, to the
    members of the batch that issued it -/
theorem false_only_from_failed_call {s : Blue.FsyncCore.RSt} {ev : Blue.FsyncCore.REv} {a : Blue.FsyncCore.Ans}
    (hans : (Blue.FsyncCore.rstep s ev).2 = some a) (hf : a.ok = false) :
    ev = .ret false ∧ ∃ f, s.flight = some f ∧ a.inputs = f.inputs :=
  Blue.FsyncCore.false_only_from_failed_call hans hf

/-- after a failed call, a batch holding an offset no successful `fdatasync` covers issues its own
    call: it is not acknowledged on the strength of the failed one -/
theorem after_failed_call_next_batch_syncs {s : Blue.FsyncCore.RSt} (h : Blue.FsyncCore.RInv s)
    (f : Blue.FsyncCore.Flight) (hf : s.flight = some f) (inputs : List Nat)
    (hin : ∀ i ∈ inputs, i ≤ s.written) (hnew : s.durable < Blue.FsyncCore.acc inputs) :
    (Blue.FsyncCore.rstep (Blue.FsyncCore.rstep s (.ret false)).1 (.enter inputs)).2 = none
      ∧ (Blue.FsyncCore.rstep (Blue.FsyncCore.rstep s (.ret false)).1 (.enter inputs)).1.flight
          = some ⟨Blue.FsyncCore.acc inputs, s.written, inputs⟩ :=
  Blue.FsyncCore.after_failed_call_next_batch_syncs h f hf inputs hin hnew

/-- "`synced` advances only when the call succeeded" is needed (seeded change C02r3-3: `self.synced
    = acc` before the `fdatasync`, whatever it returns — `rstepEarly`).  Closed counterexample: one
    coalesced write of 10 bytes for two appenders; the first leads a batch alone and its call
    FAILS; the second enters next.  As mutated it is answered `true` with `durable = 0`; the real
    core answers nothing yet, has a second call in flight, and answers `true` with `durable = 10`
    when that call returns successfully -/
theorem synced_before_failed_call_loses_durability :
    ∃ (evs : List Blue.FsyncCore.REv) (inputs : List Nat),
      (Blue.FsyncCore.rstepEarly (Blue.FsyncCore.runEarly evs) (.enter inputs)).2 = some ⟨inputs, true⟩
      ∧ (∃ i ∈ inputs, (Blue.FsyncCore.rstepEarly (Blue.FsyncCore.runEarly evs) (.enter inputs)).1.durable < i)
      ∧ (Blue.FsyncCore.rstep (Blue.FsyncCore.run evs) (.enter inputs)).2 = none
      ∧ (Blue.FsyncCore.rstep (Blue.FsyncCore.rstep (Blue.FsyncCore.run evs) (.enter inputs)).1 (.ret true)).2
          = some ⟨inputs, true⟩
      ∧ (∀ i ∈ inputs,
          i ≤ (Blue.FsyncCore.rstep (Blue.FsyncCore.rstep (Blue.FsyncCore.run evs) (.enter inputs)).1 (.ret true)).1.durable) :=
  Blue.FsyncCore.synced_before_failed_call_loses_durability

/-- in every interleaving of `do_work` the log of what the core was handed is `0, 1, …, m-1`: the
    callers' inputs in link order, none twice, none skipped (that every caller that RETURNED is
    among them is `own_result`; "exactly once" for a still waiting caller is not claimed).  This is
    a statement about the queue model alone: that the FILE then is `writeAll` of the merged batches
    in that order is the composition with the write core and the log writer — compared on every
    concurrent run, not a theorem (see the header) -/
theorem core_sees_inputs_once_in_order (out : Nat → Nat) (evs : List Blue.Wcq.Ev) :
    ∃ m, (evs.foldl (Blue.Wcq.step out) Blue.Wcq.init).log = List.range m :=
  Blue.Wcq.core_sees_inputs_once_in_order out evs

/-- a call that has returned returned the output for its own input -/
theorem own_result (out : Nat → Nat) (evs : List Blue.Wcq.Ev) (i : Nat) (e : Blue.Wcq.Ent) (o : Nat)
    (he : (evs.foldl (Blue.Wcq.step out) Blue.Wcq.init).ents[i]? = some e) (hr : e.ret = some o) : o = out i :=
  Blue.Wcq.own_result out evs i e o he hr

/-- the same with arbitrary core answers carried on the events (the write core hands every member
    of a merged batch the same cumulative offset) -/
theorem core_sees_inputs_once_in_order_v (evs : List Blue.WcqV.Ev) :
    ∃ m, (evs.foldl Blue.WcqV.step Blue.WcqV.init).log = List.range m :=
  Blue.WcqV.core_sees_inputs_once_in_order evs

theorem own_result_v (evs : List Blue.WcqV.Ev) (i : Nat) (e : Blue.WcqV.Ent) (o : Nat)
    (he : (evs.foldl Blue.WcqV.step Blue.WcqV.init).ents[i]? = some e) (hr : e.ret = some o) :
    Blue.WcqV.look (evs.foldl Blue.WcqV.step Blue.WcqV.init).prod i = some o :=
  Blue.WcqV.own_result evs i e o he hr

/-- neither `panic!` of `do_work` is reachable -/
theorem queue_never_panics (evs : List Blue.WcqV.Ev) :
    (evs.foldl Blue.WcqV.step Blue.WcqV.init).panicked = false := Blue.WcqV.never_panics evs

/-! ## non-vacuity -/

/-- the hypotheses of the sequential theorems are met by the real parameters, and a batch of
    `BLOCK_SIZE` bytes (the largest `WriteBatch`) meets the size hypothesis -/
example : Good Blue.Driver.C12.P ∧ (∀ b : List Nat, b.length = Blue.Generated.logBatchLimit →
    b.length ≤ Blue.Driver.C12.P.tableFull) :=
  ⟨good_driver, fun b hb => by
    show b.length ≤ 1006632960
    rw [hb]; decide⟩

/-- a tiny `Good` parameter set (block of 16, `H = 4`, three-element headers) on which every writer
    case is a closed computation -/
def toyParams : Params where
  B := 16
  H := 4
  tableFull := 1000
  encH := fun h => [h.size, h.disc, h.crc]
  decH := fun bs => match bs with | [a, b, c] => some ⟨a, b, c⟩ | _ => none
  crc := fun _ => 0

theorem good_toy : Good toyParams where
  hH := by decide
  hB := by decide
  crc_lt := fun _ => by show (0 : Nat) < 4294967296; omega
  tf_lt := by decide
  dec_enc := fun _ _ _ _ => rfl
  enc_len := fun _ _ _ _ => ⟨by show 1 ≤ 3; omega, by show 3 + 1 ≤ 4; omega⟩

/-- whole frame 0..10; split 10..16 | 16..23; split 23..32 | 32..39; whole 39..44; four bytes of
    padding, whole 48..53; a batch of 20 bytes (longer than a block) split 53..64 | 64..81, its
    SECOND frame running past the boundary at 80.  All read back; a cut inside a split frame
    delivers the batches before it and then an error; a cut inside the padding ends cleanly -/
example :
    let bufs := [[1, 2, 3, 4, 5, 6], [7, 8, 9, 10, 11], [12, 13, 14, 15, 16, 17, 18, 19], [20], [21],
                 (List.range 20).map (· + 30)]
    readAll toyParams (writeAll toyParams bufs 0) 7 0 = some bufs
    ∧ (writeAll toyParams bufs 0).length = 81
    ∧ (writeAll toyParams bufs 0).take 23 = [3, 6, 1, 0, 1, 2, 3, 4, 5, 6, 3, 2, 2, 0, 7, 8, 3, 3, 3, 0, 9, 10, 11]
    ∧ slice (writeAll toyParams bufs 0) 39 14 = [3, 1, 1, 0, 20, 0, 0, 0, 0, 3, 1, 1, 0, 21]
    ∧ readSome toyParams ((writeAll toyParams bufs 0).take 30) 7 0 = (bufs.take 2, true)
    ∧ readSome toyParams ((writeAll toyParams bufs 0).take 46) 7 0 = (bufs.take 4, false)
    ∧ readSome toyParams ((writeAll toyParams bufs 0).take 80) 7 0 = (bufs.take 5, true) := by decide

/-- non-vacuity of `crash_prefix` / `crash_torn_prefix` / `cut_delivers_exactly` on a state that is
    not the empty file: two batches are on disk, two more are appended; the crash falls after the
    write of the second new batch (4 events: write, sync, ack, write).  One new acknowledgement;
    model (a) reads all four batches, model (b) three; one to four of the five pending bytes torn
    off the frame: three batches, then an error -/
example :
    let done : List (List Nat) := [[1, 2, 3, 4, 5, 6], [7, 8, 9, 10, 11]]
    let bufs : List (List Nat) := [[12, 13, 14, 15, 16, 17, 18, 19], [20]]
    let st0 : Blue.LogCrash.FileSt := ⟨writeAll toyParams done 0, []⟩
    let evs := (Blue.LogCrash.protocol toyParams bufs st0.synced.length done.length).take 4
    let st' := evs.foldl Blue.LogCrash.FileSt.apply st0
    Blue.LogCrash.acked evs = 1
    ∧ readAll toyParams (Blue.LogCrash.crashA st') 5 0 = some (done ++ bufs)
    ∧ readAll toyParams (Blue.LogCrash.crashB st') 4 0 = some ((done ++ bufs).take 3)
    ∧ st'.pending.length = 5
    ∧ readSome toyParams (st'.synced ++ st'.pending.take 1) 5 0 = ((done ++ bufs).take 3, true)
    ∧ readSome toyParams (st'.synced ++ st'.pending.take 4) 5 0 = ((done ++ bufs).take 3, true)
    ∧ readSome toyParams (st'.synced ++ st'.pending.take 5) 5 0 = (done ++ bufs, false) := by decide

/-- … and the theorems apply to it (their hypotheses are discharged) -/
example (t : Nat) :=
  crash_torn_prefix good_toy [[12, 13, 14, 15, 16, 17, 18, 19], [20]] [[1, 2, 3, 4, 5, 6], [7, 8, 9, 10, 11]]
    ⟨writeAll toyParams [[1, 2, 3, 4, 5, 6], [7, 8, 9, 10, 11]] 0, []⟩ 4 t (by decide) rfl rfl
example :=
  crash_prefix good_toy [[12, 13, 14, 15, 16, 17, 18, 19], [20]] [[1, 2, 3, 4, 5, 6], [7, 8, 9, 10, 11]]
    ⟨writeAll toyParams [[1, 2, 3, 4, 5, 6], [7, 8, 9, 10, 11]] 0, []⟩ 4 (by decide) rfl rfl

/-- `cut_delivers_exactly` on the six-batch file below: a cut at byte 46 (inside the padding after
    the fourth batch, whose frame ends at 44) delivers exactly four batches -/
example :
    let bufs := [[1, 2, 3, 4, 5, 6], [7, 8, 9, 10, 11], [12, 13, 14, 15, 16, 17, 18, 19], [20], [21],
                 (List.range 20).map (· + 30)]
    (writeAll toyParams (bufs.take 4) 0).length = 44
    ∧ (readSome toyParams ((writeAll toyParams bufs 0).take 46) 7 0).1 = bufs.take 4
    ∧ (readSome toyParams ((writeAll toyParams bufs 0).take 43) 7 0).1 = bufs.take 3 := by decide

/-- the fsync core: a write of 10 bytes, then a batch `{7, 10}` whose `fdatasync` succeeds is
    answered `true` and both offsets are durable -/
example :
    let s0 : Blue.FsyncCore.St := ⟨0, 0, 0⟩
    let s1 := (Blue.FsyncCore.step s0 (.wrote 10)).1
    Blue.FsyncCore.Inv s0 ∧ (Blue.FsyncCore.step s1 (.work [7, 10] true)).2 = some true
      ∧ (Blue.FsyncCore.step s1 (.work [7, 10] true)).1.durable = 10 := by
  refine ⟨⟨Nat.le_refl _, Nat.le_refl _⟩, ?_, ?_⟩ <;> decide

/-- a run with a failing call (directed schedules of stream 8): 10 bytes written for appenders A
    and B by one coalesced write; A's batch `{10}` issues a call, 7 more bytes land while it is
    in flight, the call FAILS: A is answered `false`, nothing is durable.  B's batch `{10}` issues
    its own call (17 bytes are in the file), which succeeds: B is answered `true`, 17 bytes are
    durable.  `run_answered_true_is_durable` applies to the last step (its hypotheses are met) -/
example :
    let evs : List Blue.FsyncCore.REv := [.wrote 10, .enter [10], .wrote 17, .ret false, .enter [10]]
    (Blue.FsyncCore.rstep (Blue.FsyncCore.run (evs.take 3)) (.ret false)).2 = some ⟨[10], false⟩
      ∧ (Blue.FsyncCore.run (evs.take 4)).durable = 0
      ∧ (Blue.FsyncCore.rstep (Blue.FsyncCore.run (evs.take 4)) (.enter [10])).2 = none
      ∧ (Blue.FsyncCore.rstep (Blue.FsyncCore.run evs) (.ret true)).2 = some ⟨[10], true⟩
      ∧ (Blue.FsyncCore.rstep (Blue.FsyncCore.run evs) (.ret true)).1.durable = 17 := by decide
example := run_answered_true_is_durable [.wrote 10, .enter [10], .wrote 17, .ret false, .enter [10]] (.ret true)
  ⟨[10], true⟩ (by decide) rfl

/-- the queue: three callers, the first leads a batch of two whose members get the same value (as
    the log's write core answers), the third leads alone -/
example :
    let s := [Blue.WcqV.Ev.link, .link, .link, .lead 0 2, .deliver 0 77, .deliver 0 77, .observe 1, .finish 0,
              .lead 2 1, .deliver 2 99, .finish 2].foldl Blue.WcqV.step Blue.WcqV.init
    s.log = [0, 1, 2] ∧ s.ents.map (·.ret) = [some 77, some 77, some 99] := by decide

-- BEGIN ConcLog
/-! ## the concurrent log as ONE machine (`Blue/Model/ConcLog.lean`)

`Blue.ConcLog.run P lim evs`: the state of `ConcurrentLogBuilder` after the events `evs` (`link buf`,
`write n`, `flink i`, `fenter n`, `fret ok`; see the model's header) — any number of callers, any
batching the two cores choose (`n`), any interleaving the queues' spec allows, any `fdatasync`
failing.  `lim` is what `WriteBatch` accepts (`check_batch_size`: `BLOCK_SIZE`). -/

/-- **file of a concurrent run = file of a sequential `LogBuilder`** appending the leaders' merged
    batches in write-queue link order (`merged s` = each group of `s.groups` concatenated;
    `s.groups.flatten` = the callers handed to the core so far, in link order: every such caller's
    buffer in exactly one record, in order); hence the iterator returns each record once, in that
    order -/
theorem conc_log_file_is_sequential {P : Params} {lim : Nat} (g : Good P) (hlim : lim ≤ P.tableFull)
    (evs : List Blue.ConcLog.Ev) :
    let s := Blue.ConcLog.run P lim evs
    Blue.LogCrash.crashA s.file = writeAll P (Blue.ConcLog.merged s) 0
      ∧ s.groups.flatten = s.bufs.take s.wrets.length
      ∧ (Blue.ConcLog.merged s).flatten = (s.bufs.take s.wrets.length).flatten
      ∧ readAll P (Blue.LogCrash.crashA s.file) ((Blue.ConcLog.merged s).length + 1) 0
          = some (Blue.ConcLog.merged s) :=
  Blue.ConcLog.conc_log_file_is_sequential g hlim evs

/-- **`Ok` means durable**: caller `i` was answered `Ok(())`; the record `w.round` holds its buffer,
    the frames of records `0 … w.round` lie inside the bytes a successfully returned `fdatasync`
    covered (`crashB`), and with any `t` of the pending bytes surviving (`t = 0`: model (b),
    `t ≥ |pending|`: model (a), in between: torn) the iterator delivers exactly the first `j` records,
    `j > w.round`.  Composes `run_answered_true_is_durable` (the fsync core of the model is
    `Blue.FsyncCore.run` of its trace) with `cut_delivers_exactly` -/
theorem conc_log_ack_is_durable {P : Params} {lim : Nat} (g : Good P) (hlim : lim ≤ P.tableFull)
    (evs : List Blue.ConcLog.Ev) (i : Nat) (hack : Blue.ConcLog.acked (Blue.ConcLog.run P lim evs) i = true) (t : Nat) :
    let s := Blue.ConcLog.run P lim evs
    ∃ (w : Blue.ConcLog.WRet) (grp : List (List Nat)) (b : List Nat) (j : Nat),
      s.wrets[i]? = some w ∧ s.groups[w.round]? = some grp ∧ s.bufs[i]? = some b ∧ b ∈ grp
      ∧ (writeAll P ((Blue.ConcLog.merged s).take (w.round + 1)) 0).length ≤ (Blue.LogCrash.crashB s.file).length
      ∧ w.round < j ∧ j ≤ (Blue.ConcLog.merged s).length
      ∧ (readSome P (s.file.synced ++ s.file.pending.take t) ((Blue.ConcLog.merged s).length + 1) 0).1
          = (Blue.ConcLog.merged s).take j :=
  Blue.ConcLog.conc_log_ack_is_durable g hlim evs i hack t

/-- … and a crash at any LATER point (after any further events `evs'`) keeps it: the reopened
    iterator returns a prefix of the link-order sequence that contains the record with the buffer
    the caller linked with -/
theorem conc_log_ack_survives_later_crash {P : Params} {lim : Nat} (g : Good P) (hlim : lim ≤ P.tableFull)
    (evs evs' : List Blue.ConcLog.Ev) (i : Nat)
    (hack : Blue.ConcLog.acked (Blue.ConcLog.run P lim evs) i = true) (t : Nat) :
    let s' := Blue.ConcLog.run P lim (evs ++ evs')
    ∃ (w : Blue.ConcLog.WRet) (grp : List (List Nat)) (b : List Nat) (j : Nat),
      (Blue.ConcLog.run P lim evs).bufs[i]? = some b ∧ s'.wrets[i]? = some w ∧ s'.groups[w.round]? = some grp ∧ b ∈ grp
      ∧ w.round < j ∧ j ≤ (Blue.ConcLog.merged s').length
      ∧ (readSome P (s'.file.synced ++ s'.file.pending.take t) ((Blue.ConcLog.merged s').length + 1) 0).1
          = (Blue.ConcLog.merged s').take j :=
  Blue.ConcLog.conc_log_ack_survives_later_crash g hlim evs evs' i hack t

/-- **a failed `fdatasync` is an error for the callers it covered** (as the code has it): (i) the
    failing return answers exactly the members of the call `false` (`Err(corruption_fsync_failed)`)
    and moves neither the file's durable part nor `synced`/`durable`; (ii) nobody is answered twice:
    a caller answered `false` is never acknowledged — not by a later successful `fdatasync` either
    (it makes the caller's bytes durable, but the caller has left with its error; its record stays
    in the file and IS read back, `conc_log_file_is_sequential`: an `Err` from `append` does not mean
    the batch is absent); (iii) `false` is never invented: it comes only from `fret false` with the
    caller among the members of the call in flight -/
theorem conc_log_failed_sync_not_acked {P : Params} {lim : Nat} (evs : List Blue.ConcLog.Ev) :
    let s := Blue.ConcLog.run P lim evs
    (∀ f, s.fs.flight = some f →
        (Blue.ConcLog.step P lim s (.fret false)).answers = s.answers ++ s.fmem.map (fun e => (e.1, false))
        ∧ (Blue.ConcLog.step P lim s (.fret false)).file = s.file
        ∧ (Blue.ConcLog.step P lim s (.fret false)).fs.durable = s.fs.durable
        ∧ (Blue.ConcLog.step P lim s (.fret false)).fs.synced = s.fs.synced
        ∧ (Blue.ConcLog.step P lim s (.fret false)).fs.flight = none)
    ∧ (∀ i, Blue.ConcLog.failed s i = true → Blue.ConcLog.acked s i = false)
    ∧ (∀ (e : Blue.ConcLog.Ev) (i : Nat), (i, false) ∈ (Blue.ConcLog.step P lim s e).answers → (i, false) ∉ s.answers →
        e = .fret false ∧ i ∈ s.fmem.map Prod.fst ∧ s.fs.flight.isSome = true) :=
  Blue.ConcLog.conc_log_failed_sync_not_acked evs

/-- every caller is answered at most once, and an answer is never taken back -/
theorem conc_log_answered_once {P : Params} {lim : Nat} (evs : List Blue.ConcLog.Ev) :
    ((Blue.ConcLog.run P lim evs).answers.map Prod.fst).Nodup := Blue.ConcLog.answered_once evs

theorem conc_log_answer_persists {P : Params} {lim : Nat} (evs evs' : List Blue.ConcLog.Ev) (i : Nat) (b : Bool)
    (h : (i, b) ∈ (Blue.ConcLog.run P lim evs).answers) : (i, b) ∈ (Blue.ConcLog.run P lim (evs ++ evs')).answers :=
  Blue.ConcLog.ack_persists evs evs' i b h

/-- the run used below: three callers; callers 0 and 1 are coalesced into ONE write (record
    `[1,2,3,4,5]`, both answered offset 5) and enter the fsync queue in the OTHER order; one
    `fdatasync` is issued for the two; caller 2's write (record `[6,7,8,9]`, split over the block
    boundary at 16) lands while it is in flight; it returns successfully (event 9); caller 2 then
    leads its own call, which FAILS -/
def concToyRun : List Blue.ConcLog.Ev :=
  [.link [1, 2, 3], .link [4, 5], .link [6, 7, 8, 9], .write 2, .flink 1, .flink 0, .fenter 2, .write 1,
   .fret true, .flink 2, .fenter 1, .fret false]

/-- after event 9 (the crash point): two records, callers 0 and 1 acknowledged by one `fdatasync`,
    caller 2 not; the first record (9 bytes) is durable, the 12 bytes of the second — written while
    the call was in flight — are pending.  Crash: none / 5 / all of the pending bytes survive: one
    record and a clean end, one record and an error, both records.  After the failed call: caller 2
    is `failed`, not `acked`; nothing more is durable; the file still reads back both records -/
example :
    let s := Blue.ConcLog.run toyParams 12 (concToyRun.take 9)
    let s' := Blue.ConcLog.run toyParams 12 concToyRun
    s.groups = [[[1, 2, 3], [4, 5]], [[6, 7, 8, 9]]]
    ∧ s.wrets = [⟨0, 5⟩, ⟨0, 5⟩, ⟨1, 9⟩]
    ∧ s.fq = [(1, 5), (0, 5)]
    ∧ s.answers = [(1, true), (0, true)]
    ∧ (Blue.ConcLog.acked s 0, Blue.ConcLog.acked s 1, Blue.ConcLog.acked s 2) = (true, true, false)
    ∧ s.file.synced = [3, 5, 1, 0, 1, 2, 3, 4, 5]
    ∧ s.file.pending = [3, 3, 2, 0, 6, 7, 8, 3, 1, 3, 0, 9]
    ∧ Blue.LogCrash.crashA s.file = writeAll toyParams [[1, 2, 3, 4, 5], [6, 7, 8, 9]] 0
    ∧ readSome toyParams (s.file.synced ++ s.file.pending.take 0) 3 0 = ([[1, 2, 3, 4, 5]], false)
    ∧ readSome toyParams (s.file.synced ++ s.file.pending.take 5) 3 0 = ([[1, 2, 3, 4, 5]], true)
    ∧ readSome toyParams (s.file.synced ++ s.file.pending.take 12) 3 0 = ([[1, 2, 3, 4, 5], [6, 7, 8, 9]], false)
    ∧ (Blue.ConcLog.run toyParams 12 (concToyRun.take 11)).fmem = [(2, 9)]
    ∧ s'.answers = [(1, true), (0, true), (2, false)]
    ∧ (Blue.ConcLog.failed s' 2, Blue.ConcLog.acked s' 2) = (true, false)
    ∧ s'.file.synced.length = 9 ∧ s'.fs.durable = 5
    ∧ readAll toyParams (Blue.LogCrash.crashA s'.file) 3 0 = some [[1, 2, 3, 4, 5], [6, 7, 8, 9]] := by decide

/-- … and the theorems apply to it (their hypotheses are discharged) -/
example := conc_log_file_is_sequential good_toy (lim := 12) (by decide) concToyRun
example (t : Nat) := conc_log_ack_is_durable good_toy (lim := 12) (by decide) (concToyRun.take 9) 0 (by decide) t
example (t : Nat) :=
  conc_log_ack_survives_later_crash good_toy (lim := 12) (by decide) (concToyRun.take 9) (concToyRun.drop 9) 1 (by decide) t
example : Blue.ConcLog.acked (Blue.ConcLog.run toyParams 12 concToyRun) 2 = false :=
  (conc_log_failed_sync_not_acked (P := toyParams) (lim := 12) concToyRun).2.1 2 (by decide)
-- END ConcLog

-- BEGIN ConcLogQueues
/-! ## the wake-up model of the queues is a sub-machine of the composed log (`Blue/Proofs/ConcLogQueues.lean`)

`Blue.ConcLogQueues.batches evs init`: the batches `(first caller, size)` the core is handed in the
run `evs` of `Blue.WcqV` (the accepted `lead` events); `Chain 0 bs t`: non-empty, consecutive, from
caller `0` to `t`; `QueueSpec linked bs taken out ret`: what `Blue.ConcLog.step` assumes of a queue
(`write n` / `fenter n` take `(… .drop taken).take n`, `n ≥ 1`, within the linked callers; every member
is answered the core's output for it). -/

/-- every run of the wake-up model — any interleaving, any batch sizes (any `can_batch`), any outputs —
    meets the SPEC; the core's flat log is the batches end to end; no panic -/
theorem wcqv_run_meets_spec (evs : List Blue.WcqV.Ev) :
    let s := evs.foldl Blue.WcqV.step Blue.WcqV.init
    Blue.ConcLogQueues.QueueSpec s.ents.length (Blue.ConcLogQueues.batches evs Blue.WcqV.init) s.log.length
        (Blue.WcqV.look s.prod) (Blue.ConcLogQueues.retOf s)
      ∧ s.log = List.range s.log.length ∧ s.panicked = false :=
  Blue.ConcLogQueues.wcqv_run_meets_spec evs

/-- at most one batch inside `work`: a batch is handed over only when nobody works, and sets the flag -/
theorem wcqv_one_batch_at_a_time (s : Blue.WcqV.St) (e : Blue.WcqV.Ev) (h : Blue.ConcLogQueues.batchOf s e ≠ []) :
    s.doingWork = false ∧ (Blue.WcqV.step s e).doingWork = true :=
  Blue.ConcLogQueues.wcqv_one_batch_at_a_time s e h

/-- … and only the leader's `finish` clears it -/
theorem wcqv_work_cleared_only_by_finish (s : Blue.WcqV.St) (e : Blue.WcqV.Ev) (h1 : s.doingWork = true)
    (h2 : (Blue.WcqV.step s e).doingWork = false) : ∃ i, e = .finish i :=
  Blue.ConcLogQueues.work_cleared_only_by_finish s e h1 h2

/-- a run WITH a given core (every delivery carries `coreOut`) returns `coreOut` to every caller -/
theorem wcqv_returns_core_output (evs : List Blue.WcqV.Ev) (coreOut : Nat → Option Nat)
    (hcore : ∀ e ∈ (evs.foldl Blue.WcqV.step Blue.WcqV.init).prod, coreOut e.1 = some e.2) (c o : Nat)
    (hr : Blue.ConcLogQueues.retOf (evs.foldl Blue.WcqV.step Blue.WcqV.init) c = some o) : coreOut c = some o :=
  Blue.ConcLogQueues.wcqv_returns_core_output evs coreOut hcore c o hr

/-- **the embedding**: a wake-up-model run of the write queue over `bufs` and one of the fsync queue
    over `perm` (fsync caller `q` = write caller `perm[q]`), with `oks r` the result of the `fdatasync`
    of fsync round `r`, are a `Blue.ConcLog` run (`queueEvents`) with their batches and the two cores'
    answers; its file is the sequential log of the merged write batches -/
theorem conclog_of_two_wcqv_runs {P : Params} {lim : Nat} (g : Good P) (hlim : lim ≤ P.tableFull)
    (evsW evsF : List Blue.WcqV.Ev) (bufs : List (List Nat)) (perm : List Nat) (oks : Nat → Bool)
    (hlen : bufs.length = (evsW.foldl Blue.WcqV.step Blue.WcqV.init).ents.length)
    (hb : ∀ b ∈ bufs, 0 < b.length ∧ b.length ≤ lim)
    (hcb : ∀ b ∈ Blue.ConcLogQueues.batches evsW Blue.WcqV.init, (Blue.ConcLogQueues.groupOf bufs b).flatten.length ≤ lim)
    (hplen : perm.length = (evsF.foldl Blue.WcqV.step Blue.WcqV.init).ents.length)
    (hpn : perm.Nodup)
    (hpw : ∀ c ∈ perm, c < (evsW.foldl Blue.WcqV.step Blue.WcqV.init).log.length) :
    let bsW := Blue.ConcLogQueues.batches evsW Blue.WcqV.init
    let bsF := Blue.ConcLogQueues.batches evsF Blue.WcqV.init
    let s := Blue.ConcLog.run P lim (Blue.ConcLogQueues.queueEvents bufs bsW perm bsF oks)
    s.bufs = bufs
      ∧ s.groups = bsW.map (Blue.ConcLogQueues.groupOf bufs)
      ∧ s.wrets = Blue.ConcLogQueues.wretsOf bufs bsW 0 0
      ∧ s.fq = Blue.ConcLogQueues.fqOf s.wrets perm
      ∧ s.ftaken = (evsF.foldl Blue.WcqV.step Blue.WcqV.init).log.length
      ∧ s.answers = Blue.ConcLogQueues.ansOf s.fq oks bsF 0 0
      ∧ Blue.LogCrash.crashA s.file = writeAll P (bsW.map (fun b => (Blue.ConcLogQueues.groupOf bufs b).flatten)) 0
      ∧ readAll P (Blue.LogCrash.crashA s.file) (bsW.length + 1) 0
          = some (bsW.map (fun b => (Blue.ConcLogQueues.groupOf bufs b).flatten)) :=
  Blue.ConcLogQueues.conclog_of_two_wcqv_runs P lim g hlim evsW evsF bufs perm oks hlen hb hcb hplen hpn hpw

/-- what the two `do_work` calls return in the wake-up models is what that `Blue.ConcLog` run answers -/
theorem queue_returns_are_conclog_answers {P : Params} {lim : Nat} (g : Good P) (hlim : lim ≤ P.tableFull)
    (evsW evsF : List Blue.WcqV.Ev) (bufs : List (List Nat)) (perm : List Nat) (oks : Nat → Bool)
    (hlen : bufs.length = (evsW.foldl Blue.WcqV.step Blue.WcqV.init).ents.length)
    (hb : ∀ b ∈ bufs, 0 < b.length ∧ b.length ≤ lim)
    (hcb : ∀ b ∈ Blue.ConcLogQueues.batches evsW Blue.WcqV.init, (Blue.ConcLogQueues.groupOf bufs b).flatten.length ≤ lim)
    (hplen : perm.length = (evsF.foldl Blue.WcqV.step Blue.WcqV.init).ents.length)
    (hpn : perm.Nodup)
    (hpw : ∀ c ∈ perm, c < (evsW.foldl Blue.WcqV.step Blue.WcqV.init).log.length)
    (hcoreW : ∀ e ∈ (evsW.foldl Blue.WcqV.step Blue.WcqV.init).prod,
      ((Blue.ConcLogQueues.wretsOf bufs (Blue.ConcLogQueues.batches evsW Blue.WcqV.init) 0 0)[e.1]?).map (·.off) = some e.2)
    (hcoreF : ∀ e ∈ (evsF.foldl Blue.WcqV.step Blue.WcqV.init).prod,
      ∃ p ∈ Blue.ConcLogQueues.ansOf
          (Blue.ConcLogQueues.fqOf (Blue.ConcLogQueues.wretsOf bufs (Blue.ConcLogQueues.batches evsW Blue.WcqV.init) 0 0) perm)
          oks (Blue.ConcLogQueues.batches evsF Blue.WcqV.init) 0 0,
        perm[e.1]? = some p.1 ∧ p.2 = (e.2 != 0)) :
    let s := Blue.ConcLog.run P lim (Blue.ConcLogQueues.queueEvents bufs (Blue.ConcLogQueues.batches evsW Blue.WcqV.init)
      perm (Blue.ConcLogQueues.batches evsF Blue.WcqV.init) oks)
    (∀ c o, Blue.ConcLogQueues.retOf (evsW.foldl Blue.WcqV.step Blue.WcqV.init) c = some o →
        (s.wrets[c]?).map (·.off) = some o)
      ∧ (∀ q o, Blue.ConcLogQueues.retOf (evsF.foldl Blue.WcqV.step Blue.WcqV.init) q = some o →
          ∃ p ∈ s.answers, perm[q]? = some p.1 ∧ p.2 = (o != 0)) :=
  Blue.ConcLogQueues.queue_returns_are_conclog_answers P lim g hlim evsW evsF bufs perm oks hlen hb hcb hplen hpn hpw
    hcoreW hcoreF

/-- the toy run of block `ConcLog` as two queue runs.  Write queue: callers 0, 1, 2 link; caller 0 leads
    the batch [0, 1] (both answered `written = 5`; caller 1 leaves before its leader does), caller 2
    leads [2] (answered 9).  Fsync queue, linked in the order write caller 1, 0, 2: its caller 0 (=
    write caller 1) leads the batch [1, 0] (answered `true` = 1), its caller 2 (= write caller 2) links
    later and leads [2]; that `fdatasync` fails (answered `false` = 0) -/
def toyWriteQueueRun : List Blue.WcqV.Ev :=
  [.link, .link, .link, .lead 0 2, .deliver 0 5, .deliver 0 5, .observe 1, .finish 0, .lead 2 1, .deliver 2 9, .finish 2]
def toyFsyncQueueRun : List Blue.WcqV.Ev :=
  [.link, .link, .lead 0 2, .deliver 0 1, .deliver 0 1, .finish 0, .observe 1, .link, .lead 2 1, .deliver 2 0, .finish 2]
def toyBufs : List (List Nat) := [[1, 2, 3], [4, 5], [6, 7, 8, 9]]
def toyOks : Nat → Bool := fun r => r == 0

example :
    let bsW := Blue.ConcLogQueues.batches toyWriteQueueRun Blue.WcqV.init
    let bsF := Blue.ConcLogQueues.batches toyFsyncQueueRun Blue.WcqV.init
    let evs := Blue.ConcLogQueues.queueEvents toyBufs bsW [1, 0, 2] bsF toyOks
    let s := Blue.ConcLog.run toyParams 12 evs
    bsW = [(0, 2), (2, 1)] ∧ bsF = [(0, 2), (2, 1)]
    ∧ Blue.ConcLogQueues.Chain 0 bsW 3 ∧ Blue.ConcLogQueues.Chain 0 bsF 3
    ∧ evs = [.link [1, 2, 3], .link [4, 5], .link [6, 7, 8, 9], .write 2, .write 1, .flink 1, .flink 0, .flink 2,
             .fenter 2, .fret true, .fenter 1, .fret false]
    ∧ s.groups = [[[1, 2, 3], [4, 5]], [[6, 7, 8, 9]]]
    ∧ s.wrets = [⟨0, 5⟩, ⟨0, 5⟩, ⟨1, 9⟩]
    ∧ s.fq = [(1, 5), (0, 5), (2, 9)]
    ∧ s.answers = [(1, true), (0, true), (2, false)]
    ∧ (List.range 3).map (Blue.ConcLogQueues.retOf (toyWriteQueueRun.foldl Blue.WcqV.step Blue.WcqV.init))
        = [some 5, some 5, some 9]
    ∧ (List.range 3).map (Blue.ConcLogQueues.retOf (toyFsyncQueueRun.foldl Blue.WcqV.step Blue.WcqV.init))
        = [some 1, some 1, some 0]
    ∧ (Blue.ConcLog.acked s 0, Blue.ConcLog.acked s 1, Blue.ConcLog.failed s 2) = (true, true, true)
    ∧ readAll toyParams (Blue.LogCrash.crashA s.file) 3 0 = some [[1, 2, 3, 4, 5], [6, 7, 8, 9]] := by decide

/-- … and the theorems apply to it (their hypotheses are discharged) -/
example := wcqv_run_meets_spec toyWriteQueueRun
example := wcqv_one_batch_at_a_time (toyWriteQueueRun.take 3 |>.foldl Blue.WcqV.step Blue.WcqV.init) (.lead 0 2) (by decide)
example := wcqv_work_cleared_only_by_finish (toyWriteQueueRun.take 7 |>.foldl Blue.WcqV.step Blue.WcqV.init) (.finish 0)
  (by decide) (by decide)
example := wcqv_returns_core_output toyWriteQueueRun (fun c => [5, 5, 9][c]?) (by decide) 1 5 (by decide)
example := conclog_of_two_wcqv_runs good_toy (lim := 12) (by decide) toyWriteQueueRun toyFsyncQueueRun toyBufs [1, 0, 2]
  toyOks (by decide) (by decide) (by decide) (by decide) (by decide) (by decide)
example := queue_returns_are_conclog_answers good_toy (lim := 12) (by decide) toyWriteQueueRun toyFsyncQueueRun toyBufs
  [1, 0, 2] toyOks (by decide) (by decide) (by decide) (by decide) (by decide) (by decide) (by decide) (by decide)
-- END ConcLogQueues

end Blue.Props.C12

#print axioms Blue.Props.C12.params_from_source
#print axioms Blue.Props.C12.sizes_from_source
#print axioms Blue.Props.C12.good_real
#print axioms Blue.Props.C12.good_driver
#print axioms Blue.Props.C12.append_read
#print axioms Blue.Props.C12.log_roundtrip
#print axioms Blue.Props.C12.writer_padding_passes_check
#print axioms Blue.Props.C12.log_roundtrip_real
#print axioms Blue.Props.C12.truncated_log_prefix
#print axioms Blue.Props.C12.readSome_take_prefix
#print axioms Blue.Props.C12.reads_agree_before_damage
#print axioms Blue.Props.C12.crash_prefix
#print axioms Blue.Props.C12.cut_keeps_whole
#print axioms Blue.Props.C12.cut_delivers_exactly
#print axioms Blue.Props.C12.crash_torn_prefix
#print axioms Blue.Props.C12.good_toy
#print axioms Blue.Props.C12.fsync_invariant
#print axioms Blue.Props.C12.answered_true_is_durable
#print axioms Blue.Props.C12.batch_returns_seen_loses_durability
#print axioms Blue.Props.C12.fsync_run_invariant
#print axioms Blue.Props.C12.run_answered_true_is_durable
#print axioms Blue.Props.C12.durable_mono
#print axioms Blue.Props.C12.failed_call_answers_false_moves_nothing
#print axioms Blue.Props.C12.false_only_from_failed_call
#print axioms Blue.Props.C12.after_failed_call_next_batch_syncs
#print axioms Blue.Props.C12.synced_before_failed_call_loses_durability
#print axioms Blue.Props.C12.core_sees_inputs_once_in_order
#print axioms Blue.Props.C12.own_result
#print axioms Blue.Props.C12.core_sees_inputs_once_in_order_v
#print axioms Blue.Props.C12.own_result_v
#print axioms Blue.Props.C12.queue_never_panics
#print axioms Blue.Props.C12.conc_log_file_is_sequential
#print axioms Blue.Props.C12.conc_log_ack_is_durable
#print axioms Blue.Props.C12.conc_log_ack_survives_later_crash
#print axioms Blue.Props.C12.conc_log_failed_sync_not_acked
#print axioms Blue.Props.C12.conc_log_answered_once
#print axioms Blue.Props.C12.conc_log_answer_persists
#print axioms Blue.Props.C12.wcqv_run_meets_spec
#print axioms Blue.Props.C12.wcqv_one_batch_at_a_time
#print axioms Blue.Props.C12.wcqv_work_cleared_only_by_finish
#print axioms Blue.Props.C12.wcqv_returns_core_output
#print axioms Blue.Props.C12.conclog_of_two_wcqv_runs
#print axioms Blue.Props.C12.queue_returns_are_conclog_answers
