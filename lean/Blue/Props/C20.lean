import Blue.Proofs.Stall
/-! Property C20: the theorems the check builds and audits (spike inventory; the build phase
    completes the list from DESIGN Appendix C.0). -/
#print axioms Blue.Stall.no_deadlock
#print axioms Blue.Stall.stalled_has_runner
#print axioms Blue.Stall.finish_shrinks
#print axioms Blue.Stall.deadlock_when_selector_starves
#print axioms Blue.Stall.deadlock_without_ingest_notify
#print axioms Blue.Stall.sleeper_with_work
