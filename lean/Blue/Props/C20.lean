import Blue.Proofs.Stall
import Blue.Proofs.Selector
import Blue.Proofs.StallSelector
import Blue.Proofs.KvsWake
import Blue.Proofs.WaitListRing
import Blue.Proofs.ConstsTieC06
import Blue.Proofs.ConstsTieC20
import Blue.Proofs.StallTree
import Blue.Proofs.StallTreeDown
import Blue.Proofs.FlushReq
/-! # Property C20 — writes keep completing: ingest and compaction never wait on each other forever

Property theorems only.  **The claim is partial.**

`Blue.Stall` is the transition system of the stall / wake-up protocol of lsmtk/src/tree/mod.rs
(`apply_manifest_ingest` waits on `stall` while `should_stall_ingest`; `compaction_thread` waits on
`compact` while `next_compaction()` is `None`; an installing ingest notifies `compact`, an applied
compaction notifies `stall` and not `compact`; a compaction that fails is released from the
`ongoing` list under the mutex and its thread replaced), one event per critical section under the
`compaction` mutex, any number of ingesters and compaction threads, spurious wake-ups and failed
compactions included.
The selector's answer is part of the event (an observation of the run); what the protocol needs
of it is `selOK` — the model's `Sel`: *no "nothing" while ingest is stalled and nothing is in
flight*.  The recorded runs of the real store (real threads) are replayed through `step` by the
driver with every event required to be enabled, `invB` evaluated after every event, the model's
sleepers compared with the real parked-on registry at the end.

What is proved: deadlock freedom by invariant under `Sel` for every schedule
(`writes_never_all_parked_partial`) and `stalled_has_runner` (invariant: a parked ingester has an
awake compaction thread) — these two have content.  MODEL FACTS, i.e. one-step unfoldings of
`step` / `selOK` / `sel` kept for the record and labelled so below: `stalled_select_takes` (`selOK`
unfolded; its only input is "parked ⇒ stalled" from the invariant), `finish_shrinks` ("relieving"
= `0 < c` is a hypothesis), `finish_wakes`, `ingest_wakes`, `sel_iff`.  Closed counterexamples show
that `Sel` is necessary (`deadlock_when_selector_starves`, D-15) as are the notification
(`deadlock_without_ingest_notify`) and the release of a failed compaction (`abort_releases`,
`deadlock_when_abort_keeps_entry`).  `Blue.Selector` models `next_compaction().is_some()` on the
tree metadata (compared with the real selector state by state) and gives `sel`, a SUFFICIENT
condition for an offer on (|L0|, level-1 files under the hull, options) — not a necessary one
(`sel_is_not_necessary`: a trivial move is offered where `sel` is false): sound for the selector
model up to one hypothesis (`sel_sound_partial`); it holds on every tree stalled BY FILE COUNT
within the file limits when 0 < stall threshold and mandatory threshold ≤ stall threshold
(`sel_or_overLimit`; the three hypotheses are needed: `sel_or_overLimit_needs_*`), and is false
above the file limits (`stall_above_file_limit`, `hull_above_file_limit`,
`default_sel_fails_from_53`) — on such trees `Sel` itself fails when no other compaction is on
offer: the known finding D-15, at selector-model level one closed example
(`sel_sound_partial`'s second half).  A second configuration in which `Sel` cannot hold, not
D-15: a stall threshold of 0 files (`zero_threshold_*`).

`Blue.Selector` and `Blue.Stall` are joined by one small bridge (`selOK_of_tree`,
`selOK_within_limits`: on a protocol state that shows the tree's level 0 and thresholds —
`Matches` — the selector model's answer obeys `Sel` for that one selection).

Block `StallTree`: `Blue.StallTree` is ONE transition system whose state carries the real tree
(`Blue.NextCompaction.Tree`), the compaction each compaction thread has in flight (so the `ongoing`
list) and the control state of `Blue.Stall`; `select` is DEFINED by `nextCompaction` on the current
tree and `ongoing` list, `finish` by `applyCompaction`, `ingest` by `Version::ingest` guarded by
`should_stall_ingest` on level 0 of the tree (file count and the saturating `Level::size`).
`stalltree_refines_stall`: every run projects event by event to a run of `Blue.Stall`, and `selOK`
of every projected selection is `selT` of the tree state; the invariant, deadlock freedom
(`stalltree_never_all_parked_partial`) and `stalltree_stalled_has_runner` (as enabledness of a
compaction-thread step) transfer, with `Sel` a property of the tree states of the run — still a
hypothesis: the selector violates it in the D-15 states.  Bounded progress:
`stalled_ingest_released` — from a stalled state, a run with more than `measureG s + 2 · (failed
compactions + spurious wake-ups of compaction threads)` effective compaction-thread steps passes
through a state in which ingest is not stalled and no ingester is asleep; `measureG` is twice the
potential of the WHOLE tree (`pot`: every version once per level it can still sink through) plus
the compaction threads' weights, so nothing is asked of which compactions the selector prefers
(`relieving_not_guaranteed`: it does hand out a move below level 0 while ingest is stalled); its two
hypotheses are per-install facts evaluated on the run: a compaction in flight has an input holding
a version above its output level (`downSt`), and an install adds no version (`outsOK`) — derived in
block `StallTreeDown` below; `install_lowers_potential` is the step lemma.
`stalled_ingest_released_partial` is the same with level 0 alone as the measure, for runs in which
every compaction in flight while stalled takes a file out of level 0.  Together with
`stalltree_stalled_has_runner` (a step is enabled) this is "never waits forever" as bounded
progress; fairness of the scheduler is what turns it into "eventually".

Block `StallTreeDown`: the two hypotheses derived.  `nextCompaction_moves_down`: on a tree with `Inv`
whose files hold a version each (`NonEmptyFiles`; C10 `multi_builder_no_empty_file` is why the
store writes no other file) every answer of `nextCompaction` has an input holding a version at a
level above its output level (`movesDown`).  `moves_down_stable`: that survives flushes and the
installs of the compactions `may_choose_compaction` lets be in flight with it.  `outsOK_of_merge`:
an install whose outputs hold every version once and hold input versions only (C01's `hsub`) adds
no version.  `downSt_along_run` / `outsOK_along_run`: both hold along every run from a state
satisfying `Good` (tree invariant, no empty file, every compaction in flight admissible on the
present tree, moving a version down, apart from the others — an invariant of the runs, true of any
state with nothing in flight) whose ingested files satisfy `IngestOk` (C01's `Step.ingest` side
conditions + non-empty) and whose installed outputs satisfy `MergeOuts` (C01's `OutsOk` + `hsub` +
every version once + no empty file).  `stalled_ingest_released_from_selector` /
`stalled_ingest_released_of_good`: the release theorem with only those hypotheses left — nothing
is asked of the selector.  `IngestOk` / `MergeOuts` are hypotheses on the run (facts about the flush
and the merge, C01 / C10), not derived from a model of the merge here, and not evaluated by the
driver.

The flush request (`Blue.FlushReq`, lsmtk/src/kvs/mod.rs): NO WRITER WAITS FOR A FLUSH.  A write
that finds the memtable full raises `imm_trigger`, `notify_one`s `cnd_needs_memtable_flush` and
goes on writing into the same memtable; nothing waits on `cnd_memtable_rolled_over`.  The only
waiter is the flush thread.  `flush_sleeper_has_no_request` (invariant, all schedules),
`request_served_in_one_step`; and `request_during_flush_is_forgotten`: the flush thread's last
critical section ASSIGNS its local `imm_trigger`, overwriting a request made during the flush; the
thread then sleeps on a full memtable until the next write asks again
(`forgotten_request_is_reissued`).

Before a write reaches the tree it goes through the wait list of `KeyValueStore::write` (the flush
thread goes through the same list): `Blue.KvsWake` is who-wakes-whom there, one event per critical
section of the store mutex — link; arrive (leave as head and notify the new head, or go to sleep);
the early return of a write that FAILS, which drops its guard wherever it stands and notifies
nobody (the store as found); spurious wake-ups.  Proved for the store whose failed writes leave
in their turn through the common exit (the repaired `write`; which of the two the tree under test
has is extracted from the source, `Blue.ConstsTie.kvs_failed_write_exit`): the head of the list
is never asleep, under every schedule (`wl_head_never_asleep`), and an awake head can leave
(`wl_head_can_leave`).  For the store as found: `wl_successor_sleeps_as_found` (a write fails as
head after the write behind it went to sleep: that write sleeps at the head) and
`wl_asleep_head_stays` / `wl_nobody_leaves_behind_asleep_head` (nothing any other thread does
wakes it; later writers sleep behind it or fail).  The second consequence of leaving out of turn
is on the ring (`Blue.WaitList`, C18's model of `sync42::wait_list`): a guard that unlinks behind an
older one leaves a dead slot until the head moves — `ring_fills_behind_one_guard` (one guard
linked, `n - 1` link/unlink pairs behind it, the next `link` waits; in `write` that `link` holds
the store mutex the one linked writer needs in order to leave), against
`in_order_keeps_window_dense` / `link_blocks_only_when_n_guards` (guards that leave as head: the
window is as long as there are guards).  The recorded wait-list events of every kvs-mode run are
replayed through `Blue.KvsWake.step`.

What is not: wall-clock "eventually" and scheduler fairness are not expressible; "every stalled
ingest is released" is a bounded-progress theorem (enabledness + a bound on the compaction-thread
steps a stall can outlast), under `downSt` / `outsOK` as hypotheses on the run; `Sel` is a
hypothesis on the tree states of the run, discharged for the real selector only where `sel`
holds; `Blue.StallTree` is not replayed by the driver (its projection `Blue.Stall` is). -/
namespace Blue.Props.C20
open Blue.Stall

/-- **deadlock freedom (model level, partial: under `Sel`)**: from any state satisfying the
    invariant, along every run on which the selector never answers "nothing" while ingest is
    stalled and nothing is in flight, no state has every ingester and every compaction thread
    asleep — every schedule, any number of threads, any compaction sizes, spurious wake-ups -/
theorem writes_never_all_parked_partial (s0 : St) (h0 : Inv s0) (evs : List Ev) (hsel : runSel s0 evs = true) :
    deadlocked (evs.foldl step s0) = false := no_deadlock s0 h0 evs hsel

/-- a fresh store with at least one compaction thread satisfies the invariant, whatever the
    thresholds (the hypothesis of the theorem above is on the selector alone) -/
theorem fresh_store_inv (stallAt stallBytes ni nc : Nat) :
    Inv ⟨stallAt, stallBytes, 0, 0, List.replicate ni .running, List.replicate (nc + 1) .running, false, true, 0, true⟩ :=
  inv_init stallAt stallBytes ni nc

/-- the invariant along a run under `Sel` -/
theorem inv_along_run {s : St} (h : Inv s) (evs : List Ev) (hok : runSel s evs = true) :
    Inv (evs.foldl step s) := inv_run h evs hok

/-- … and its executable form, the one the trace validator evaluates -/
theorem inv_checkable {s : St} (h : Inv s) : invB s = true := invB_of_inv h

/-- while an ingester is parked some compaction thread is awake (selecting or in flight) -/
theorem stalled_has_runner {s : St} (h : Inv s) (hst : ∃ t ∈ s.ingesters, t = .waiting) :
    ∃ t ∈ s.compactors, t ≠ .waiting := Blue.Stall.stalled_has_runner h hst

/-- MODEL FACT (`selOK` unfolded; the only input is "parked ⇒ stalled" from the invariant): … and
    when it selects on an idle store, `Sel` makes it take a compaction -/
theorem stalled_select_takes {s : St} (h : Inv s) (hst : ∃ t ∈ s.ingesters, t = .waiting)
    {i : Nat} {a : Bool} (hidle : idle s = true) (hok : selOK s (.select i a) = true) : a = true :=
  Blue.Stall.stalled_select_takes h hst hidle hok

/-- MODEL FACT (one-step unfolding of `step`; that the compaction is a relieving one, `0 < c`, is a
    hypothesis): a compaction that takes files out of a non-empty level 0 strictly shrinks it … -/
theorem finish_shrinks {s : St} {i c b : Nat} (hin : s.compactors[i]? = some .inflight) (hc : 0 < c)
    (hpos : 0 < s.l0) : (step s (.finish i c b)).l0 < s.l0 := Blue.Stall.finish_shrinks hin hc hpos

/-- MODEL FACT (one-step unfolding of `step`): … and every applied compaction wakes every parked
    ingester -/
theorem finish_wakes {s : St} {i c b : Nat} (hin : s.compactors[i]? = some .inflight) :
    ∀ t ∈ (step s (.finish i c b)).ingesters, t ≠ .waiting := Blue.Stall.finish_wakes hin

/-- MODEL FACT (one-step unfolding of `step`): a compaction thread sleeping for lack of work is woken
    by the event that creates work -/
theorem ingest_wakes {s : St} {i b : Nat} (hn : s.ingestNotifies = true)
    (hrun : s.ingesters[i]? = some .running) (hst : stalled s = false) :
    ∀ t ∈ (step s (.ingest i b)).compactors, t ≠ .waiting := Blue.Stall.ingest_wakes hn hrun hst

/-- **D-15 at model level**: one "nothing" on a stalled, idle tree and one ingester and one
    compaction thread put each other to sleep; the run obeys `Sel` up to that answer -/
theorem deadlock_when_selector_starves :
    let s0 : St := ⟨1, 1000, 0, 0, [.running], [.running], false, true, 0, true⟩
    let evs := [Ev.ingest 0 10, .select 0 false, .ingest 0 10]
    deadlocked (evs.foldl step s0) = true ∧ runSel s0 evs = false
      ∧ runSel s0 (evs.take 1) = true ∧ selOK (evs.take 1 |>.foldl step s0) (.select 0 false) = false :=
  Blue.Stall.deadlock_when_selector_starves

/-- the mutant without `compact.notify_all()` in ingest deadlocks although the selector obeys `Sel` -/
theorem deadlock_without_ingest_notify :
    let s0 : St := ⟨1, 1000, 0, 0, [.running], [.running], false, false, 0, true⟩
    let evs := [Ev.select 0 false, .ingest 0 10, .ingest 0 10]
    deadlocked (evs.foldl step s0) = true ∧ runSel s0 evs = true :=
  Blue.Stall.deadlock_without_ingest_notify

/-- a compaction that fails is released: after `abort` (an event of `step` like any other, so
    `writes_never_all_parked_partial` covers runs with failed compactions) the thread is back at
    selection, the `ongoing` list has lost exactly the failed compaction and is empty if nothing
    else is in flight; level 0 and the sleepers are untouched -/
theorem abort_releases {s : St} {i : Nat} (h : Inv s) (hin : s.compactors[i]? = some .inflight) :
    (step s (.abort i)).compactors[i]? = some .running
      ∧ ongoing (step s (.abort i)) + 1 = ongoing s
      ∧ ((∀ j, j ≠ i → s.compactors[j]? ≠ some .inflight) → idle (step s (.abort i)) = true)
      ∧ (step s (.abort i)).l0 = s.l0 ∧ (step s (.abort i)).ingesters = s.ingesters :=
  Blue.Stall.abort_releases h hin

/-- the mutant whose error path keeps the failed compaction on the `ongoing` list deadlocks after
    one failed compaction of level 0 although the selector obeys `Sel` throughout; the same
    schedule on the store as written breaks `Sel` instead (its `ongoing` list is empty after the
    abort, so "nothing" on the stalled tree is the selector's fault) -/
theorem deadlock_when_abort_keeps_entry :
    let s0 : St := ⟨1, 1000, 0, 0, [.running], [.running], false, true, 0, false⟩
    let evs := [Ev.ingest 0 10, .select 0 true, .abort 0, .select 0 false, .ingest 0 10]
    deadlocked (evs.foldl step s0) = true ∧ runSel s0 evs = true ∧ ongoing (evs.foldl step s0) = 1
      ∧ (let s1 : St := ⟨1, 1000, 0, 0, [.running], [.running], false, true, 0, true⟩
         runSel s1 evs = false ∧ ongoing ((evs.take 3).foldl step s1) = 0) :=
  Blue.Stall.deadlock_when_abort_keeps_entry

/-- as-is (O-4): a compaction thread sleeps on while the finisher selects the next compaction -/
theorem sleeper_with_work :
    let s0 : St := ⟨5, 1000, 0, 0, [.running], [.running, .running], false, true, 0, true⟩
    let evs := [Ev.ingest 0 10, .ingest 0 10, .ingest 0 10, .select 0 true, .select 1 false, .finish 0 1 10]
    let s := evs.foldl step s0
    s.compactors = [.running, .waiting] ∧ s.quiet = false ∧ runSel s0 (evs ++ [.select 0 true]) = true
      ∧ (step s (.select 0 true)).compactors = [.inflight, .waiting] :=
  Blue.Stall.sleeper_with_work

/-! ### `sel`: the selector's side of `Sel` -/
open Blue.Selector

/-- `Sel` for one selection from the selector's side: a selector that offers a compaction whenever
    `sel` holds of the tree it looks at, on trees where stalled implies `sel`, obeys `selOK`.
    NOTE: `o` and `m` are not related to `s` here (the protocol state carries no tree); the two
    hypotheses carry the whole link.  `selOK_of_tree` below instantiates them from the selector
    model on a state that shows the tree. -/
theorem selOK_of_sel (s : St) (i : Nat) (a : Bool) (o : Opts) (m : Summary)
    (hspec : idle s = true → sel o m = true → a = true) (hcover : stalled s = true → sel o m = true) :
    selOK s (.select i a) = true := Blue.Selector.selOK_of_sel s i a o m hspec hcover

/-- MODEL FACT (`sel` unfolded): level 0 non-empty, the hull compaction within both file limits, and
    mandatory or not losing bytes -/
theorem sel_iff (o : Opts) (m : Summary) :
    sel o m = true ↔
      0 < m.l0 ∧ m.l0 + m.l1h ≤ o.maxCompactionFiles ∧ m.l0 + m.l1h < o.maxOpenFiles
        ∧ (o.mandFiles ≤ m.l0 ∨ o.mandBytes ≤ m.l0b ∨ m.full = true ∨ m.l1hb ≤ m.l0b) :=
  Blue.Selector.sel_iff o m

/-- the selector model offers a compaction where `sel` holds (partial: `hullChoosable` —
    `expand_compaction` adds nothing that takes the hull compaction to `max_open_files` — is a
    hypothesis here; the driver evaluates it, and the whole implication, on every tree of the run) -/
theorem sel_sound_partial (o : Opts) (l0 l1 : List File) (rest : List (List File))
    (hsel : sel o (summary (l0 :: l1 :: rest)) = true) (hexp : hullChoosable o (l0 :: l1 :: rest) = true) :
    nextSome o (l0 :: l1 :: rest) = true := Blue.Selector.sel_sound_partial o l0 l1 rest hsel hexp

/-- **the two models composed, one selection**: on a protocol state that shows the tree's level 0
    and the options' thresholds (`Matches`; then `Blue.Stall.stalled s = Blue.Selector.shouldStall o t`),
    the event "the selector answered what the selector model answers" obeys `Sel`, if `sel` holds of
    the tree whenever ingest is stalled on it and the hull compaction is choosable -/
theorem selOK_of_tree (s : St) (i : Nat) (o : Opts) (l0 l1 : List File) (rest : List (List File))
    (hm : Matches s o (l0 :: l1 :: rest))
    (hcover : shouldStall o (l0 :: l1 :: rest) = true → sel o (summary (l0 :: l1 :: rest)) = true)
    (hexp : hullChoosable o (l0 :: l1 :: rest) = true) :
    selOK s (.select i (nextSome o (l0 :: l1 :: rest))) = true :=
  Blue.Selector.selOK_of_tree s i o l0 l1 rest hm hcover hexp

theorem stalled_eq_shouldStall {s : St} {o : Opts} {t : Tree} (h : Matches s o t) :
    stalled s = shouldStall o t := Blue.Selector.stalled_eq_shouldStall h

/-- … in particular within the file limits, for a stall by file count, with a positive stall
    threshold not below the mandatory threshold -/
theorem selOK_within_limits (s : St) (i : Nat) (o : Opts) (l0 l1 : List File) (rest : List (List File))
    (hm : Matches s o (l0 :: l1 :: rest)) (hpos : 0 < o.stallFiles) (hmand : o.mandFiles ≤ o.stallFiles)
    (hcount : shouldStall o (l0 :: l1 :: rest) = true → o.stallFiles ≤ l0.length)
    (hlim : overLimit o (summary (l0 :: l1 :: rest)) = false)
    (hexp : hullChoosable o (l0 :: l1 :: rest) = true) :
    selOK s (.select i (nextSome o (l0 :: l1 :: rest))) = true :=
  Blue.Selector.selOK_within_limits s i o l0 l1 rest hm hpos hmand hcount hlim hexp

/-- non-vacuity of the composed statement: a protocol state stalled at 2 files that shows a
    two-level tree (two overlapping level-0 files over one level-1 file) within all limits -/
example :
    let t : Tree := [[⟨0, [1], [5], 10, 7⟩, ⟨1, [2], [6], 10, 9⟩], [⟨2, [0], [3], 30, 3⟩]]
    let o : Opts := ⟨100, 1000, 8, 2, 1000, 2, 1000⟩
    let s : St := ⟨2, 1000, 2, 20, [.waiting], [.running], false, true, 0, true⟩
    stalled s = true ∧ shouldStall o t = true ∧ overLimit o (summary t) = false ∧ hullChoosable o t = true
      ∧ nextSome o t = true ∧ selOK s (.select 0 (nextSome o t)) = true := by decide
example : Matches (⟨2, 1000, 2, 20, [.waiting], [.running], false, true, 0, true⟩ : St) ⟨100, 1000, 8, 2, 1000, 2, 1000⟩
    [[⟨0, [1], [5], 10, 7⟩, ⟨1, [2], [6], 10, 9⟩], [⟨2, [0], [3], 30, 3⟩]] := ⟨rfl, rfl, rfl, rfl⟩

/-- on a level 0 stalled BY FILE COUNT, with a positive stall threshold and the mandatory threshold
    not above it, `sel` fails only through a file limit -/
theorem sel_or_overLimit (o : Opts) (m : Summary) (hpos : 0 < o.stallFiles)
    (hmand : o.mandFiles ≤ o.stallFiles) (hst : o.stallFiles ≤ m.l0) :
    sel o m = true ∨ overLimit o m = true := Blue.Selector.sel_or_overLimit o m hpos hmand hst

/-- the hypotheses of `sel_or_overLimit` are needed: (1) mandatory threshold above the stall
    threshold (10 > 2): a tree stalled by file count within all limits on which `sel` is false -/
theorem sel_or_overLimit_needs_mand_le_stall :
    let o : Opts := ⟨100, 1000, 8, 10, 100000, 2, 100000⟩
    let m : Summary := ⟨2, 20, 1, 400, false⟩
    o.stallFiles ≤ m.l0 ∧ sel o m = false ∧ overLimit o m = false := by decide

/-- (2) a stall by BYTES only (1 file of 20 bytes, stall at 10 bytes / 12 files) -/
theorem sel_or_overLimit_needs_stall_by_count :
    let o : Opts := ⟨100, 1000, 8, 4, 100000, 12, 10⟩
    let m : Summary := ⟨1, 20, 1, 400, false⟩
    decide (m.l0b ≥ o.stallBytes) = true ∧ sel o m = false ∧ overLimit o m = false := by decide

/-- (3) a stall threshold of 0: stalled on the empty tree, the selector model offers nothing, `sel`
    and `overLimit` are both false -/
theorem sel_or_overLimit_needs_pos_threshold :
    let o : Opts := ⟨100, 1000, 8, 4, 100000, 0, 100000⟩
    let t : Tree := [[], [], [], []]
    shouldStall o t = true ∧ nextSome o t = false ∧ sel o (summary t) = false ∧ overLimit o (summary t) = false := by
  decide

/-- `sel` is sufficient for an offer, not necessary: a stalled tree with `sel = false` (not
    mandatory, the hull compaction loses bytes) on which the selector model still offers a
    compaction (a trivial move) -/
theorem sel_is_not_necessary :
    let o : Opts := ⟨100, 1000, 8, 10, 100000, 2, 100000⟩
    let t : Tree := [[⟨0, [1], [5], 10, 7⟩, ⟨1, [2], [6], 10, 9⟩], [⟨2, [0], [9], 400, 3⟩], []]
    sel o (summary t) = false ∧ overLimit o (summary t) = false ∧ shouldStall o t = true ∧ nextSome o t = true := by
  decide

/-! ### a stall threshold of 0 (accepted by the store; not D-15) -/

/-- with `l0_write_stall_threshold_files = 0` ingest is stalled in every state (`should_stall_ingest`
    compares with `>=`) … -/
theorem zero_threshold_always_stalled (s : St) (h : s.stallAt = 0) : stalled s = true :=
  Blue.Stall.zero_threshold_always_stalled s h

/-- … no ingest ever installs a file … -/
theorem zero_threshold_never_ingests (s : St) (i b : Nat) (h : s.stallAt = 0) :
    (step s (.ingest i b)).l0 = s.l0 ∧ (step s (.ingest i b)).compactors = s.compactors :=
  Blue.Stall.zero_threshold_never_ingests s i b h

/-- … `Sel` demands a compaction of an idle store whatever its tree, while `sel` is false on an empty
    level 0 and the selector model offers nothing on the empty tree
    (`sel_or_overLimit_needs_pos_threshold`) … -/
theorem zero_threshold_sel_demands (s : St) (i : Nat) (h : s.stallAt = 0) (hidle : idle s = true) :
    selOK s (.select i false) = false := Blue.Stall.zero_threshold_sel_demands s i h hidle

theorem sel_false_of_empty_l0 (o : Opts) (m : Summary) (h : m.l0 = 0) : sel o m = false :=
  Blue.Selector.sel_false_of_empty_l0 o m h

/-- … and the first ingest and the compaction thread of a fresh store put each other to sleep -/
theorem zero_threshold_deadlock :
    let s0 : St := ⟨0, 1000, 0, 0, [.running], [.running], false, true, 0, true⟩
    let evs := [Ev.ingest 0 10, .select 0 false]
    deadlocked (evs.foldl step s0) = true ∧ runSel s0 evs = false ∧ (evs.foldl step s0).l0 = 0 :=
  Blue.Stall.zero_threshold_deadlock

/-- **D-15**: with `l0_write_stall_threshold_files > max_compaction_files` every tree on which
    ingest waits is over the limit, `sel` is false on all of them (that the selector then offers
    NOTHING is a statement about the selector model, shown on examples: `sel` is only sufficient) … -/
theorem stall_above_file_limit (o : Opts) (m : Summary) (h : o.maxCompactionFiles < o.stallFiles)
    (hst : o.stallFiles ≤ m.l0) : overLimit o m = true ∧ sel o m = false :=
  Blue.Selector.stall_above_file_limit o m h hst

/-- … and with the limit above the threshold the level-1 files under the hull do the same … -/
theorem hull_above_file_limit (o : Opts) (m : Summary) (h : o.maxCompactionFiles < m.l0 + m.l1h) :
    sel o m = false := Blue.Selector.hull_above_file_limit o m h

/-- … for the shipped defaults (stall at 12 files, 64 files per compaction) from 53 level-1 files
    under the hull of level 0 on, and not before -/
theorem default_sel_fails_from_53 (l0 l0b l1h l1hb : Nat) (full : Bool) (h0 : 12 ≤ l0) (h : 53 ≤ l1h) :
    sel Blue.ConstsTie.lsmtkDefaults ⟨l0, l0b, l1h, l1hb, full⟩ = false :=
  Blue.ConstsTie.default_sel_fails_from_53 l0 l0b l1h l1hb full h0 h

theorem default_sel_upto_52 (l0b l1h l1hb : Nat) (full : Bool) (h : l1h ≤ 52) :
    sel Blue.ConstsTie.lsmtkDefaults ⟨12, l0b, l1h, l1hb, full⟩ = true :=
  Blue.ConstsTie.default_sel_upto_52 l0b l1h l1hb full h

/-! ### non-vacuity -/

/-- a run under `Sel` with a stall that is released: two ingests fill level 0 to the threshold, the
    third parks, the compaction thread (woken by the first ingest) compacts, the parked ingest is
    woken and installs; the invariant's executable form holds at the end -/
example :
    let s0 : St := ⟨2, 1000, 0, 0, [.running], [.running], false, true, 0, true⟩
    let evs := [Ev.select 0 false, .ingest 0 10, .ingest 0 10, .ingest 0 10, .select 0 true, .finish 0 2 20, .ingest 0 10, .select 0 true]
    runSel s0 evs = true ∧ deadlocked (evs.foldl step s0) = false ∧ invB (evs.foldl step s0) = true
      ∧ (evs.take 4 |>.foldl step s0).ingesters = [.waiting] ∧ (evs.foldl step s0).l0 = 1 := by decide

/-- `stalled_has_runner` / `stalled_select_takes` have inhabitants: in the state after the third
    ingest above an ingester is parked and the compaction thread is awake -/
example :
    let s : St := ⟨2, 1000, 2, 20, [.waiting], [.running], false, true, 0, true⟩
    (∃ t ∈ s.ingesters, t = .waiting) ∧ idle s = true ∧ selOK s (.select 0 true) = true
      ∧ selOK s (.select 0 false) = false := by decide

/-- a run under `Sel` with a failed compaction: level 0 at the threshold, the ingester parked, the
    selected compaction fails and is released, the (fresh) thread selects again, is served, and the
    parked ingest is released -/
example :
    let s0 : St := ⟨1, 1000, 0, 0, [.running], [.running], false, true, 0, true⟩
    let evs := [Ev.ingest 0 10, .ingest 0 10, .select 0 true, .abort 0, .select 0 true, .finish 0 1 10, .ingest 0 10]
    runSel s0 evs = true ∧ invB (evs.foldl step s0) = true ∧ deadlocked (evs.foldl step s0) = false
      ∧ ongoing ((evs.take 4).foldl step s0) = 0 ∧ ((evs.take 4).foldl step s0).ingesters = [.waiting]
      ∧ (evs.foldl step s0).ingesters = [.running] := by decide

/-- `finish_shrinks`: an in-flight compactor and a non-empty level 0 -/
example : (step (⟨2, 1000, 2, 20, [.waiting], [.inflight], false, true, 0, true⟩ : St) (.finish 0 2 20)).l0 = 0 := by decide

/-- `sel` on both sides of the file limit: 4 level-0 files with 4 resp. 5 level-1 files under the
    hull, 8 files per compaction -/
example : sel ⟨100, 1000, 8, 2, 1000, 4, 1000⟩ ⟨4, 40, 4, 400, false⟩ = true
    ∧ sel ⟨100, 1000, 8, 2, 1000, 4, 1000⟩ ⟨4, 40, 5, 400, false⟩ = false
    ∧ overLimit ⟨100, 1000, 8, 2, 1000, 4, 1000⟩ ⟨4, 40, 5, 400, false⟩ = true := by decide

/-- `sel_sound_partial`: a two-level tree — two overlapping level-0 files over one level-1 file —
    on which `sel`, `hullChoosable` and the selector model's answer all hold, and the same tree
    under a file limit of 2 on which `sel` fails and the model offers nothing -/
example :
    let t : Tree := [[⟨0, [1], [5], 10, 7⟩, ⟨1, [2], [6], 10, 9⟩], [⟨2, [0], [3], 30, 3⟩]]
    sel ⟨100, 1000, 8, 2, 1000, 4, 1000⟩ (summary t) = true ∧ hullChoosable ⟨100, 1000, 8, 2, 1000, 4, 1000⟩ t = true
      ∧ nextSome ⟨100, 1000, 8, 2, 1000, 4, 1000⟩ t = true
      ∧ sel ⟨100, 1000, 2, 2, 1000, 2, 1000⟩ (summary t) = false ∧ nextSome ⟨100, 1000, 2, 2, 1000, 2, 1000⟩ t = false := by decide

/-! ## the wait list of `KeyValueStore::write` -/
section waitlist

/-- **the head of the wait list is never asleep** (failed writes leave in their turn — the repaired
    `write`): after any sequence of links, arrivals (leave as head and notify the new head, or go to
    sleep) and spurious wake-ups, the head of the list is awake -/
theorem wl_head_never_asleep (evs : List Blue.KvsWake.Ev) {s' : Blue.KvsWake.St}
    (hin : ∀ e ∈ evs, e.inTurn = true) (hr : Blue.KvsWake.run Blue.KvsWake.init evs = some s') :
    Blue.KvsWake.headAsleep s' = false :=
  Blue.KvsWake.headAsleep_false_of_good
    (Blue.KvsWake.head_never_asleep evs Blue.KvsWake.good_init hin hr)

/-- … and an awake head is enabled to leave; the list gets shorter by it (the measure half of
    "every write returns"; fairness is assumed) -/
theorem wl_head_can_leave {s : Blue.KvsWake.St} {h : Nat} (hh : s.queue.head? = some h)
    (ha : s.ts[h]? = some .awake) :
    ∃ s', Blue.KvsWake.step s (.arrive h) = some s' ∧ s'.queue = s.queue.tail
      ∧ s'.queue.length + 1 = s.queue.length :=
  Blue.KvsWake.head_can_leave hh ha

/-- **the store as found**: write 0 links, write 1 links behind it, inserts and goes to sleep;
    write 0 fails and drops its guard: write 1 is head and asleep; write 2 comes and sleeps behind it -/
theorem wl_successor_sleeps_as_found :
    (Blue.KvsWake.run Blue.KvsWake.init [.link, .link, .arrive 1, .drop 0]).map
      (fun s => (s.queue, s.ts, Blue.KvsWake.headAsleep s)) = some ([1], [.gone, .asleep], true) ∧
    (Blue.KvsWake.run Blue.KvsWake.init [.link, .link, .arrive 1, .drop 0, .link, .arrive 2]).map
      (fun s => (s.queue, s.ts, Blue.KvsWake.headAsleep s)) = some ([1, 2], [.gone, .asleep, .asleep], true) :=
  Blue.KvsWake.successor_sleeps_as_found

/-- the same threads with the failed write leaving in its turn: everybody leaves -/
theorem wl_same_schedule_repaired :
    (Blue.KvsWake.run Blue.KvsWake.init [.link, .link, .arrive 1, .arrive 0, .arrive 1, .link, .arrive 2]).map
      (fun s => (s.queue, s.ts, Blue.KvsWake.headAsleep s)) = some ([], [.gone, .gone, .gone], false) :=
  Blue.KvsWake.same_schedule_repaired

/-- an asleep head stays asleep whatever any thread does, short of a spurious wake-up of the head
    itself -/
theorem wl_asleep_head_stays {s s' : Blue.KvsWake.St} {h : Nat} (hh : s.queue.head? = some h)
    (ha : s.ts[h]? = some .asleep) (ev : Blue.KvsWake.Ev) (hne : ev ≠ .spur h)
    (hs : Blue.KvsWake.step s ev = some s') : s'.queue.head? = some h ∧ s'.ts[h]? = some .asleep :=
  Blue.KvsWake.asleep_head_stays hh ha ev hne hs

/-- … along whole schedules: nobody behind it ever leaves in turn -/
theorem wl_nobody_leaves_behind_asleep_head (evs : List Blue.KvsWake.Ev) {s s' : Blue.KvsWake.St} {h : Nat}
    (hh : s.queue.head? = some h) (ha : s.ts[h]? = some .asleep) (hne : ∀ e ∈ evs, e ≠ .spur h)
    (hr : Blue.KvsWake.run s evs = some s') : s'.queue.head? = some h ∧ s'.ts[h]? = some .asleep :=
  Blue.KvsWake.nobody_leaves_behind_asleep_head evs hh ha hne hr

/-! non-vacuity of `wl_head_never_asleep` / `wl_asleep_head_stays`: a run in turn with sleepers, and
    the stuck state of the store as found -/
example : (Blue.KvsWake.run Blue.KvsWake.init [.link, .link, .link, .arrive 2, .arrive 1, .arrive 0]).map
    (fun s => (s.queue, s.ts)) = some ([1, 2], [.gone, .awake, .asleep]) := by decide
example : ∃ s, Blue.KvsWake.run Blue.KvsWake.init [.link, .link, .arrive 1, .drop 0] = some s
    ∧ s.queue.head? = some 1 ∧ s.ts[1]? = some .asleep := ⟨_, rfl, rfl, rfl⟩

/-- **leaving in turn keeps the ring short**: after any sequence of `link`s and of `unlink`s made by
    the guard that is head at that moment, every index of the window belongs to a guard that
    exists … -/
theorem in_order_keeps_window_dense (n : Nat) (hn : 0 < n) (ops : List Blue.WaitList.Op)
    (ho : Blue.WaitList.inOrder (Blue.WaitList.init n) ops) :
    Blue.WaitList.Dense (ops.foldl Blue.WaitList.step (Blue.WaitList.init n)) :=
  Blue.WaitList.in_order_keeps_window_dense n hn ops ho

/-- … so `link` waits for a slot only while `n` guards exist (`n` = `sync42::MAX_CONCURRENCY` = 65536
    threads inside `write` at once) -/
theorem link_blocks_only_when_n_guards (n : Nat) (hn : 0 < n) (ops : List Blue.WaitList.Op)
    (ho : Blue.WaitList.inOrder (Blue.WaitList.init n) ops)
    (hb : Blue.WaitList.link (ops.foldl Blue.WaitList.step (Blue.WaitList.init n)) = none) :
    ∀ j, (ops.foldl Blue.WaitList.step (Blue.WaitList.init n)).head ≤ j →
      j < (ops.foldl Blue.WaitList.step (Blue.WaitList.init n)).head + (ops.foldl Blue.WaitList.step (Blue.WaitList.init n)).n →
      j ∈ (ops.foldl Blue.WaitList.step (Blue.WaitList.init n)).live :=
  Blue.WaitList.link_blocks_only_when_n_guards n hn ops ho hb

/-- **the store as found fills the ring behind one slow write** (four slots): guard 0 stays linked,
    three guards link and unlink behind it out of turn; one guard exists and the next `link` waits -/
theorem ring_fills_behind_one_guard :
    let s := [Blue.WaitList.Op.link, .link, .unlink 1, .link, .unlink 2, .link, .unlink 3].foldl
      Blue.WaitList.step (Blue.WaitList.init 4)
    s.live = [0] ∧ s.head = 0 ∧ s.tail = 4 ∧ (Blue.WaitList.link s).isNone = true
      ∧ (Blue.WaitList.step s .link).tail = 4 :=
  Blue.WaitList.ring_fills_behind_one_guard

/-- … in general: behind a guard that stays linked every out-of-turn link/unlink pair lengthens the
    window by one and leaves the guards as they were -/
theorem out_of_turn_pair_lengthens_window {s : Blue.WaitList.St} (h : Blue.WaitList.Inv s) (hne : s.live ≠ [])
    (hroom : s.tail < s.head + s.n) :
    let s' := Blue.WaitList.step (Blue.WaitList.step s .link) (.unlink s.tail)
    s'.live = s.live ∧ s'.head = s.head ∧ s'.tail = s.tail + 1 :=
  Blue.WaitList.out_of_turn_pair_lengthens_window h hne hroom

example : Blue.WaitList.inOrder (Blue.WaitList.init 4) [.link, .link, .unlink 0, .link, .unlink 1, .unlink 2] := by
  simp [Blue.WaitList.inOrder, Blue.WaitList.step, Blue.WaitList.link, Blue.WaitList.init, Blue.WaitList.unlink,
    Blue.WaitList.advance]

end waitlist

-- BEGIN StallTree
section stalltree
open Blue.NextCompaction Blue.StallTree

/-- **protocol and selector composed over runs.**  Every run of `Blue.StallTree` (real tree,
    `select` = `nextCompaction` on the state, `finish` = `applyCompaction`, `ingest` guarded by the
    stall test on level 0 of the tree) projects event by event to a run of `Blue.Stall`, and `Sel`
    at every projected selection is `selT` of the tree and the compactions in flight there -/
theorem stalltree_refines_stall (cfg : Cfg) (s : Blue.StallTree.St) (evs : List Blue.StallTree.Ev) (hwf : WF s)
    (hsel : along cfg (selSt cfg) s evs = true) :
    proj cfg (Blue.StallTree.run cfg s evs) = (projRun cfg s evs).foldl Blue.Stall.step (proj cfg s)
      ∧ Blue.Stall.runSel (proj cfg s) (projRun cfg s evs) = true :=
  Blue.StallTree.stalltree_refines_stall cfg s evs hwf hsel

example : WF Ex.s0 ∧ along Ex.cfg (selSt Ex.cfg) Ex.s0 Ex.evs0 = true := ⟨Ex.wf0, by decide⟩

/-- `writes_never_all_parked_partial` transferred: `Sel` is a property of the tree states of the
    run (`selT`, computed by `nextCompaction`), still a hypothesis — the selector violates it in the
    D-15 states -/
theorem stalltree_never_all_parked_partial (cfg : Cfg) (s : Blue.StallTree.St) (evs : List Blue.StallTree.Ev)
    (hwf : WF s) (hinv : Blue.Stall.Inv (proj cfg s)) (hsel : along cfg (selSt cfg) s evs = true) :
    Blue.Stall.deadlocked (proj cfg (Blue.StallTree.run cfg s evs)) = false :=
  Blue.StallTree.stalltree_never_all_parked cfg s evs hwf hinv hsel

example : Blue.Stall.Inv (proj Ex.cfg Ex.s0) := Ex.inv0

/-- `stalled_has_runner` transferred, as enabledness: while an ingester is parked some compaction
    thread can select or has a compaction to install -/
theorem stalltree_stalled_has_runner (cfg : Cfg) (s : Blue.StallTree.St) (evs : List Blue.StallTree.Ev) (hwf : WF s)
    (hinv : Blue.Stall.Inv (proj cfg s)) (hsel : along cfg (selSt cfg) s evs = true)
    (hst : Blue.Stall.TState.waiting ∈ (Blue.StallTree.run cfg s evs).ingesters) :
    ∃ i, compStep (Blue.StallTree.run cfg s evs) (.select i) = true
      ∨ ∀ outs, compStep (Blue.StallTree.run cfg s evs) (.finish i outs) = true :=
  Blue.StallTree.stalltree_stalled_has_runner cfg s evs hwf hinv hsel hst

example : Blue.Stall.TState.waiting ∈ (Blue.StallTree.run Ex.cfg Ex.s0 [.ingest 0 Ex.D]).ingesters
    ∧ along Ex.cfg (selSt Ex.cfg) Ex.s0 [.ingest 0 Ex.D] = true := by decide

/-- the task's run: level 0 over the threshold, the ingester parks, the one compaction thread
    selects (the selector's answer — levels 0 → 1, inputs 1, 2, 3 — is computed from the tree),
    installs, and the ingester is released -/
example :
    stalledT Ex.cfg Ex.s0.tree = true
      ∧ (Blue.StallTree.run Ex.cfg Ex.s0 [.ingest 0 Ex.D]).ingesters = [.waiting]
      ∧ (nextCompaction Ex.cfg.num Ex.cfg.opts Ex.s0.tree []).map (fun c => (c.lower, c.upper, c.inputs))
          = some (0, 1, [1, 2, 3])
      ∧ released Ex.cfg (Blue.StallTree.run Ex.cfg Ex.s0 [.ingest 0 Ex.D, .select 0]) = false
      ∧ released Ex.cfg (Blue.StallTree.run Ex.cfg Ex.s0 Ex.evs0) = true
      ∧ (Blue.StallTree.run Ex.cfg Ex.s0 Ex.evs0).ingesters = [.running]
      ∧ everReleased Ex.cfg Ex.s0 Ex.evs0 = true := by decide

/-- `release_measure`, level 0 as the rank: while ingest is stalled and every compaction in flight
    takes a file out of level 0, an effective compaction-thread step lowers the measure, nothing an
    ingester does changes it, a failed compaction / spurious wake-up adds at most two; the step
    that ends the stall leaves no ingester asleep -/
theorem release_measure_step (cfg : Cfg) {s : Blue.StallTree.St} (hwf : WF s) (hst : stalledT cfg s.tree = true)
    (hrel : relSt cfg s = true) (ev : Blue.StallTree.Ev) :
    Blue.StallTree.measure (Blue.StallTree.step cfg s ev) + (if compStep s ev then 1 else 0)
        ≤ Blue.StallTree.measure s + 2 * disturbance ev
      ∧ (stalledT cfg (Blue.StallTree.step cfg s ev).tree = false
          → released cfg (Blue.StallTree.step cfg s ev) = true) :=
  Blue.StallTree.release_measure_step cfg hwf hst hrel ev

example : WF Ex.s1 ∧ stalledT Ex.cfg1 Ex.s1.tree = true ∧ relSt Ex.cfg1 Ex.s1 = true :=
  ⟨wfB_sound (by decide), by decide, by decide⟩

/-- an install that takes a version out of a level above its output level and adds no version to
    the tree lowers the potential of the tree -/
theorem install_lowers_potential (t : Blue.NextCompaction.Tree) (c : Blue.NextCompaction.Core)
    (outs : List Blue.NextCompaction.File) (hm : movesDown t c = true)
    (hv : noNewVers t c outs = true) : pot (applyCompaction t c outs) < pot t :=
  Blue.StallTree.pot_apply_lt t c outs hm hv

example : movesDown Ex.s0.tree ⟨0, 1, 0, 20, [1, 2, 3], 300⟩ = true
    ∧ noNewVers Ex.s0.tree ⟨0, 1, 0, 20, [1, 2, 3], 300⟩ [Ex.O] = true := by decide

/-- **bounded progress, any compaction.**  From a state in which ingest is stalled, a run with more
    than `measureG s + 2 * disturbances evs` effective compaction-thread steps passes through a state
    in which ingest is not stalled and no ingester is asleep on `stall`.  Hypotheses on the run, not
    derived here: `downSt` (a compaction in flight while ingest is stalled has an input holding a
    version above its output level, in the tree it is installed on) and `outsOK` (an install adds no
    version).  `Sel` is not needed for the bound: it keeps a step enabled
    (`stalltree_stalled_has_runner`) -/
theorem stalled_ingest_released (cfg : Cfg) (s : Blue.StallTree.St) (evs : List Blue.StallTree.Ev)
    (hst : stalledT cfg s.tree = true) (hdown : along cfg (downSt cfg) s evs = true)
    (houts : alongEv cfg outsOK s evs = true)
    (hN : measureG s + 2 * disturbances evs < compSteps cfg s evs) :
    everReleased cfg s evs = true :=
  Blue.StallTree.stalled_ingest_released cfg s evs hst hdown houts hN

example : stalledT Ex.cfg1 Ex.s1.tree = true ∧ along Ex.cfg1 (downSt Ex.cfg1) Ex.s1 Ex.evs1 = true
    ∧ alongEv Ex.cfg1 outsOK Ex.s1 Ex.evs1 = true
    ∧ measureG Ex.s1 + 2 * disturbances Ex.evs1 < compSteps Ex.cfg1 Ex.s1 Ex.evs1 := by decide

/-- the same with level 0 alone as the measure.  PARTIAL: for runs in which every compaction in
    flight while ingest is stalled takes a file out of level 0 (`relSt`); the selector does not
    guarantee that (`relieving_not_guaranteed`) -/
theorem stalled_ingest_released_partial (cfg : Cfg) (s : Blue.StallTree.St) (evs : List Blue.StallTree.Ev)
    (hwf : WF s) (hst : stalledT cfg s.tree = true) (hrel : along cfg (relSt cfg) s evs = true)
    (hN : Blue.StallTree.measure s + 2 * disturbances evs < compSteps cfg s evs) :
    everReleased cfg s evs = true :=
  Blue.StallTree.stalled_ingest_released_partial cfg s evs hwf hst hrel hN

example : along Ex.cfg1 (relSt Ex.cfg1) Ex.s1 Ex.evs1 = true
    ∧ Blue.StallTree.measure Ex.s1 + 2 * disturbances Ex.evs1 < compSteps Ex.cfg1 Ex.s1 Ex.evs1 := by decide

/-- closed: on a stalled tree with nothing in flight the selector hands out the trivial move of a
    level-1 file (nothing leaves level 0): `relSt` fails after the selection, `downSt` holds -/
theorem relieving_not_guaranteed :
    stalledT Ex.cfg Ex.s3.tree = true ∧ og Ex.s3 = []
      ∧ (nextCompaction Ex.cfg.num Ex.cfg.opts Ex.s3.tree (og Ex.s3)).map (fun c => (c.lower, c.upper, c.inputs))
          = some (1, 2, [3])
      ∧ relSt Ex.cfg (Blue.StallTree.step Ex.cfg Ex.s3 (.select 0)) = false
      ∧ downSt Ex.cfg (Blue.StallTree.step Ex.cfg Ex.s3 (.select 0)) = true :=
  Blue.StallTree.relieving_not_guaranteed

/-! ### the flush request: no writer waits; the flush thread is the only waiter -/

/-- on every schedule from a fresh store: while a flush is requested (`mem_seq_no ≤ imm_trigger`)
    the flush thread is not asleep on `cnd_needs_memtable_flush` -/
theorem flush_sleeper_has_no_request (n : Nat) (evs : List Blue.FlushReq.Ev)
    (hreq : Blue.FlushReq.requested (Blue.FlushReq.run (Blue.FlushReq.init n) evs) = true) :
    (Blue.FlushReq.run (Blue.FlushReq.init n) evs).flush ≠ .asleep :=
  Blue.FlushReq.flush_sleeper_has_no_request n evs hreq

example : Blue.FlushReq.requested (Blue.FlushReq.run (Blue.FlushReq.init 7) [.grow, .write]) = true := by decide

/-- a write that finds the memtable full while the flush thread is not flushing is served by the
    flush thread's next step (bounded progress, bound 1); the writer waits for nothing -/
theorem request_served_in_one_step {s : Blue.FlushReq.St} (h : Blue.FlushReq.Inv s) (hfull : s.memFull = true)
    (hnf : ∀ t, s.flush ≠ .flushing t) :
    let s' := Blue.FlushReq.step (Blue.FlushReq.step s .write) .flushCheck
    s'.rotations = s.rotations + 1 ∧ s'.imm = true ∧ s'.memFull = false ∧ s'.flush = .flushing s.memSeqNo :=
  Blue.FlushReq.request_served_in_one_step h hfull hnf

example : Blue.FlushReq.Inv (Blue.FlushReq.run (Blue.FlushReq.init 7) [.grow])
    ∧ (Blue.FlushReq.run (Blue.FlushReq.init 7) [.grow]).memFull = true
    ∧ ∀ t, (Blue.FlushReq.run (Blue.FlushReq.init 7) [.grow]).flush ≠ .flushing t :=
  by
  refine ⟨Blue.FlushReq.inv_run (Blue.FlushReq.inv_init 7) _, by decide, ?_⟩
  intro t h
  have hc : (Blue.FlushReq.run (Blue.FlushReq.init 7) [.grow]).flush = .check := by decide
  rw [hc] at h; cases h

/-- a request made while the flush thread is flushing is forgotten: the thread's last critical
    section assigns its local `imm_trigger` (lsmtk/src/kvs/mod.rs, `state.imm_trigger = imm_trigger`),
    and its next test sends it to sleep on a full memtable -/
theorem request_during_flush_is_forgotten {s : Blue.FlushReq.St} (h : Blue.FlushReq.Inv s) (hfull : s.memFull = true)
    (t : Nat) (hf : s.flush = .flushing t) :
    let s1 := Blue.FlushReq.step s .write
    let s3 := Blue.FlushReq.step (Blue.FlushReq.step s1 .flushDone) .flushCheck
    Blue.FlushReq.requested s1 = true ∧ s3.flush = .asleep ∧ s3.memFull = true
      ∧ Blue.FlushReq.requested s3 = false ∧ s3.rotations = s.rotations :=
  Blue.FlushReq.request_during_flush_is_forgotten h hfull t hf

example : (Blue.FlushReq.run (Blue.FlushReq.init 7) [.grow, .write, .flushCheck, .grow]).memFull = true
    ∧ (Blue.FlushReq.run (Blue.FlushReq.init 7) [.grow, .write, .flushCheck, .grow]).flush = .flushing 7 := by decide

/-- … until the next write, which asks again and wakes the thread; its next step rotates -/
theorem forgotten_request_is_reissued {s : Blue.FlushReq.St} (h : Blue.FlushReq.Inv s) (hfull : s.memFull = true)
    (hf : s.flush = .asleep) :
    let s' := Blue.FlushReq.step (Blue.FlushReq.step s .write) .flushCheck
    s'.rotations = s.rotations + 1 ∧ s'.memFull = false :=
  Blue.FlushReq.forgotten_request_is_reissued h hfull hf

example :
    let s := Blue.FlushReq.run (Blue.FlushReq.init 7) [.grow, .write, .flushCheck, .grow, .write, .flushDone, .flushCheck]
    s.flush = .asleep ∧ s.memFull = true ∧ s.rotations = 1
      ∧ (Blue.FlushReq.run s [.write, .flushCheck]).rotations = 2 :=
  Blue.FlushReq.forgotten_request_example

end stalltree
-- END StallTree

-- BEGIN StallTreeDown
section stalltreedown
open Blue.NextCompaction Blue.StallTree

/-- **the selector moves versions down.**  On a tree with `Inv` whose files hold a version each
    (`NonEmptyFiles`: true of every file the store writes — a table is cut only after an entry was
    written to it, C10 `multi_builder_no_empty_file`), every answer of `next_compaction`, whatever
    is in flight, has an input holding a version at a level above its output level: the file of a
    trivial move, or the file of `lower_level` the range of `compute_bounds` was started from
    (`find_best_compaction` takes the whole slice of `lower_level`, `expand_compaction` only adds) -/
theorem nextCompaction_moves_down (n : Blue.NextCompaction.Num) (o : Blue.NextCompaction.Opts) (t : Blue.NextCompaction.Tree)
    (g : List Blue.NextCompaction.Core) (hinv : Inv t)
    (hne : NonEmptyFiles t) {c : Blue.NextCompaction.Core} (h : nextCompaction n o t g = some c) : movesDown t c = true :=
  Blue.StallTree.nextCompaction_moves_down n o t g hinv hne h

example : Inv Ex.s0.tree ∧ NonEmptyFiles Ex.s0.tree
    ∧ nextCompaction Ex.cfg.num Ex.cfg.opts Ex.s0.tree [] = some ⟨0, 1, 0, 20, [1, 2, 3], 300⟩ :=
  ⟨invB_sound (by decide), nonEmptyB_sound (by decide), by decide⟩

/-- `movesDown` of a compaction in flight survives a flush (any file) and the install of a
    compaction `may_choose_compaction` lets be in flight together with it -/
theorem moves_down_stable {t : Blue.NextCompaction.Tree} {c : Blue.NextCompaction.Core} (h : movesDown t c = true) :
    (∀ f, movesDown (ingest t f) c = true)
    ∧ (∀ c₁ outs₁, Inv t → Chosen t c₁ → Chosen t c → overlapping c₁ c = false →
        movesDown (applyCompaction t c₁ outs₁) c = true) :=
  Blue.StallTree.moves_down_stable h

/-- two trivial moves at disjoint levels, both admissible -/
example : movesDown [[Ex.F1], [], [Ex.F2], []] ⟨2, 3, 10, 19, [2], 100⟩ = true
    ∧ Inv [[Ex.F1], [], [Ex.F2], []] ∧ Chosen [[Ex.F1], [], [Ex.F2], []] ⟨0, 1, 0, 9, [1], 100⟩
    ∧ Chosen [[Ex.F1], [], [Ex.F2], []] ⟨2, 3, 10, 19, [2], 100⟩
    ∧ overlapping ⟨0, 1, 0, 9, [1], 100⟩ ⟨2, 3, 10, 19, [2], 100⟩ = false :=
  ⟨by decide, invB_sound (by decide), chosenB_sound (by decide +kernel), chosenB_sound (by decide +kernel), by decide⟩

/-- **an install of merged outputs adds no version**: the outputs hold every version once and hold
    versions of the inputs only (C01's `hsub`; GC drops allowed), the compaction is admissible on the
    tree it is installed on -/
theorem outsOK_of_merge {t : Blue.NextCompaction.Tree} {c : Blue.NextCompaction.Core} {outs : List Blue.NextCompaction.File} (hinv : Inv t) (hc : Chosen t c)
    (once : (outs.flatMap (fun o => o.vers)).Nodup)
    (sub : ∀ o ∈ outs, ∀ e ∈ o.vers, ∃ i f, f ∈ level t i ∧ f.id ∈ c.inputs ∧ e ∈ f.vers) :
    noNewVers t c outs = true :=
  Blue.StallTree.outsOK_of_merge hinv hc once sub

example : Inv Ex.s0.tree ∧ Chosen Ex.s0.tree ⟨0, 1, 0, 20, [1, 2, 3], 300⟩
    ∧ MergeOuts Ex.s0.tree ⟨0, 1, 0, 20, [1, 2, 3], 300⟩ [Ex.O] :=
  ⟨invB_sound (by decide),
   nextCompaction_chosen Ex.cfg.num Ex.cfg.opts Ex.s0.tree [] (invB_sound (by decide)) (by decide),
   mergeOutsB_sound (by decide +kernel)⟩

/-- `downSt` along every run from a state satisfying `Good` (the tree invariant, no empty file,
    every compaction in flight admissible on the present tree, moving a version down, apart from
    the others — `good_of_idle`: any state with nothing in flight on a tree with `Inv` and no empty
    file) whose flushed files satisfy `IngestOk` and whose installed outputs `MergeOuts` -/
theorem downSt_along_run (cfg : Cfg) (s : Blue.StallTree.St) (evs : List Blue.StallTree.Ev) (h : Good s)
    (hev : EvOkAlong cfg s evs) : along cfg (downSt cfg) s evs = true :=
  Blue.StallTree.downSt_along_run cfg s evs h hev

example : Good Ex.s0 ∧ EvOkAlong Ex.cfg Ex.s0 Ex.evs0 :=
  ⟨good_of_idle (invB_sound (by decide)) (nonEmptyB_sound (by decide)) (by decide),
   evOkAlong_of_B _ _ _ (by decide +kernel)⟩

/-- `outsOK` along the same runs -/
theorem outsOK_along_run (cfg : Cfg) (s : Blue.StallTree.St) (evs : List Blue.StallTree.Ev) (h : Good s)
    (hev : EvOkAlong cfg s evs) : alongEv cfg outsOK s evs = true :=
  Blue.StallTree.outsOK_along_run cfg s evs h hev

example : Good Ex.s1 ∧ EvOkAlong Ex.cfg1 Ex.s1 Ex.evs1 :=
  ⟨good_of_idle (invB_sound (by decide)) (nonEmptyB_sound (by decide)) (by decide),
   evOkAlong_of_B _ _ _ (by decide +kernel)⟩

/-- **bounded progress with the selector's part discharged.**  `stalled_ingest_released` with
    `downSt` / `outsOK` derived: from a stalled state with nothing in flight on a tree with `Inv`
    and no empty file, a run with more than `measureG s + 2 * disturbances evs` effective
    compaction-thread steps whose flushed files are well-formed, fresh, newest and non-empty
    (`IngestOk`, asked only of a file that is ingested) and whose installed outputs are a merge of
    the inputs (`MergeOuts`: `OutsOk`, every version once, input versions only, no empty file)
    passes through a released state.  Nothing is asked of the selector; `Sel` is not needed for
    the bound (it keeps a step enabled: `stalltree_stalled_has_runner`) -/
theorem stalled_ingest_released_from_selector (cfg : Cfg) (s : Blue.StallTree.St) (evs : List Blue.StallTree.Ev)
    (hinv : Inv s.tree) (hne : NonEmptyFiles s.tree) (hidle : og s = [])
    (hst : stalledT cfg s.tree = true) (hev : EvOkAlong cfg s evs)
    (hN : measureG s + 2 * disturbances evs < compSteps cfg s evs) :
    everReleased cfg s evs = true :=
  Blue.StallTree.stalled_ingest_released_from_selector cfg s evs hinv hne hidle hst hev hN

example : Inv Ex.s1.tree ∧ NonEmptyFiles Ex.s1.tree ∧ og Ex.s1 = [] ∧ stalledT Ex.cfg1 Ex.s1.tree = true
    ∧ EvOkAlong Ex.cfg1 Ex.s1 Ex.evs1
    ∧ measureG Ex.s1 + 2 * disturbances Ex.evs1 < compSteps Ex.cfg1 Ex.s1 Ex.evs1 :=
  ⟨invB_sound (by decide), nonEmptyB_sound (by decide), by decide, by decide,
   evOkAlong_of_B _ _ _ (by decide +kernel), by decide⟩

/-- the same from any state satisfying `Good` — every state a run reaches from one with nothing in
    flight (`good_run`), compactions in flight included -/
theorem stalled_ingest_released_of_good (cfg : Cfg) (s : Blue.StallTree.St) (evs : List Blue.StallTree.Ev)
    (hgood : Good s) (hst : stalledT cfg s.tree = true) (hev : EvOkAlong cfg s evs)
    (hN : measureG s + 2 * disturbances evs < compSteps cfg s evs) :
    everReleased cfg s evs = true :=
  Blue.StallTree.stalled_ingest_released_of_good cfg s evs hgood hst hev hN

/-- the `[[A, B], [C]]` run after its selection: the hull compaction is in flight -/
example : Good (Blue.StallTree.run Ex.cfg Ex.s0 [.ingest 0 Ex.D, .select 0])
    ∧ stalledT Ex.cfg (Blue.StallTree.run Ex.cfg Ex.s0 [.ingest 0 Ex.D, .select 0]).tree = true
    ∧ og (Blue.StallTree.run Ex.cfg Ex.s0 [.ingest 0 Ex.D, .select 0]) = [⟨0, 1, 0, 20, [1, 2, 3], 300⟩] :=
  ⟨good_run Ex.cfg (good_of_idle (invB_sound (by decide)) (nonEmptyB_sound (by decide)) (by decide)) _
     (evOkAlong_of_B _ _ _ (by decide +kernel)), by decide, by decide⟩

end stalltreedown
-- END StallTreeDown

end Blue.Props.C20

#print axioms Blue.Props.C20.writes_never_all_parked_partial
#print axioms Blue.Props.C20.fresh_store_inv
#print axioms Blue.Props.C20.inv_along_run
#print axioms Blue.Props.C20.inv_checkable
#print axioms Blue.Props.C20.stalled_has_runner
#print axioms Blue.Props.C20.stalled_select_takes
#print axioms Blue.Props.C20.finish_shrinks
#print axioms Blue.Props.C20.finish_wakes
#print axioms Blue.Props.C20.ingest_wakes
#print axioms Blue.Props.C20.deadlock_when_selector_starves
#print axioms Blue.Props.C20.deadlock_without_ingest_notify
#print axioms Blue.Props.C20.sleeper_with_work
#print axioms Blue.Props.C20.abort_releases
#print axioms Blue.Props.C20.deadlock_when_abort_keeps_entry
#print axioms Blue.Props.C20.selOK_of_sel
#print axioms Blue.Props.C20.sel_iff
#print axioms Blue.Props.C20.sel_sound_partial
#print axioms Blue.Props.C20.selOK_of_tree
#print axioms Blue.Props.C20.stalled_eq_shouldStall
#print axioms Blue.Props.C20.selOK_within_limits
#print axioms Blue.Props.C20.sel_or_overLimit
#print axioms Blue.Props.C20.sel_or_overLimit_needs_mand_le_stall
#print axioms Blue.Props.C20.sel_or_overLimit_needs_stall_by_count
#print axioms Blue.Props.C20.sel_or_overLimit_needs_pos_threshold
#print axioms Blue.Props.C20.sel_is_not_necessary
#print axioms Blue.Props.C20.zero_threshold_always_stalled
#print axioms Blue.Props.C20.zero_threshold_never_ingests
#print axioms Blue.Props.C20.zero_threshold_sel_demands
#print axioms Blue.Props.C20.sel_false_of_empty_l0
#print axioms Blue.Props.C20.zero_threshold_deadlock
#print axioms Blue.Props.C20.stall_above_file_limit
#print axioms Blue.Props.C20.hull_above_file_limit
#print axioms Blue.Props.C20.default_sel_fails_from_53
#print axioms Blue.Props.C20.default_sel_upto_52
#print axioms Blue.Props.C20.wl_head_never_asleep
#print axioms Blue.Props.C20.wl_head_can_leave
#print axioms Blue.Props.C20.wl_successor_sleeps_as_found
#print axioms Blue.Props.C20.wl_same_schedule_repaired
#print axioms Blue.Props.C20.wl_asleep_head_stays
#print axioms Blue.Props.C20.wl_nobody_leaves_behind_asleep_head
#print axioms Blue.Props.C20.in_order_keeps_window_dense
#print axioms Blue.Props.C20.link_blocks_only_when_n_guards
#print axioms Blue.Props.C20.ring_fills_behind_one_guard
#print axioms Blue.Props.C20.out_of_turn_pair_lengthens_window
#print axioms Blue.ConstsTie.kvs_failed_write_exit
#print axioms Blue.ConstsTie.lsmtk_defaults
#print axioms Blue.ConstsTie.lsmtk_num_levels
#print axioms Blue.Props.C20.stalltree_refines_stall
#print axioms Blue.Props.C20.stalltree_never_all_parked_partial
#print axioms Blue.Props.C20.stalltree_stalled_has_runner
#print axioms Blue.Props.C20.release_measure_step
#print axioms Blue.Props.C20.install_lowers_potential
#print axioms Blue.Props.C20.stalled_ingest_released
#print axioms Blue.Props.C20.stalled_ingest_released_partial
#print axioms Blue.Props.C20.relieving_not_guaranteed
#print axioms Blue.Props.C20.flush_sleeper_has_no_request
#print axioms Blue.Props.C20.request_served_in_one_step
#print axioms Blue.Props.C20.request_during_flush_is_forgotten
#print axioms Blue.Props.C20.forgotten_request_is_reissued
#print axioms Blue.Props.C20.nextCompaction_moves_down
#print axioms Blue.Props.C20.moves_down_stable
#print axioms Blue.Props.C20.outsOK_of_merge
#print axioms Blue.Props.C20.downSt_along_run
#print axioms Blue.Props.C20.outsOK_along_run
#print axioms Blue.Props.C20.stalled_ingest_released_from_selector
#print axioms Blue.Props.C20.stalled_ingest_released_of_good
