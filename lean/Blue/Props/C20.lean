import Blue.Proofs.Stall
import Blue.Proofs.Selector
import Blue.Proofs.StallSelector
import Blue.Proofs.KvsWake
import Blue.Proofs.WaitListRing
import Blue.Proofs.ConstsTieC06
import Blue.Proofs.ConstsTieC20
/-! # Property C20 — writes keep completing: ingest and compaction never wait on each other forever

Property theorems only.  **The claim is partial.**

`Blue.Stall` is the transition system of the stall / wake-up protocol of lsmtk/src/tree/mod.rs
(`apply_manifest_ingest` waits on `stall` while `should_stall_ingest`; `compaction_thread` waits on
`compact` while `next_compaction()` is `None`; an installing ingest notifies `compact`, an applied
compaction notifies `stall` and not `compact`; a compaction that fails is released from the
`ongoing` list under the mutex and its thread replaced), one event per critical section under the
`compaction` mutex, any number of ingesters and compaction threads, spurious wake-ups and failed
compactions included.
The selector's answer is part of the event (an observation of the run); what the protocol needs
of it is `selOK` — the model's `Sel`: *no "nothing" while ingest is stalled and nothing is in
flight*.  The recorded runs of the real store (real threads) are replayed through `step` by the
driver with every event required to be enabled, `invB` evaluated after every event, the model's
sleepers compared with the real parked-on registry at the end.

What is proved: deadlock freedom by invariant under `Sel` for every schedule
(`writes_never_all_parked_partial`) and `stalled_has_runner` (invariant: a parked ingester has an
awake compaction thread) — these two have content.  MODEL FACTS, i.e. one-step unfoldings of
`step` / `selOK` / `sel` kept for the record and labelled so below: `stalled_select_takes` (`selOK`
unfolded; its only input is "parked ⇒ stalled" from the invariant), `finish_shrinks` ("relieving"
= `0 < c` is a hypothesis), `finish_wakes`, `ingest_wakes`, `sel_iff`.  Closed counterexamples show
that `Sel` is necessary (`deadlock_when_selector_starves`, D-15) as are the notification
(`deadlock_without_ingest_notify`) and the release of a failed compaction (`abort_releases`,
`deadlock_when_abort_keeps_entry`).  `Blue.Selector` models `next_compaction().is_some()` on the
tree metadata (compared with the real selector state by state) and gives `sel`, a SUFFICIENT
condition for an offer on (|L0|, level-1 files under the hull, options) — not a necessary one
(`sel_is_not_necessary`: a trivial move is offered where `sel` is false): sound for the selector
model up to one hypothesis (`sel_sound_partial`); it holds on every tree stalled BY FILE COUNT
within the file limits when 0 < stall threshold and mandatory threshold ≤ stall threshold
(`sel_or_overLimit`; the three hypotheses are needed: `sel_or_overLimit_needs_*`), and is false
above the file limits (`stall_above_file_limit`, `hull_above_file_limit`,
`default_sel_fails_from_53`) — on such trees `Sel` itself fails when no other compaction is on
offer: the known finding D-15, at selector-model level one closed example
(`sel_sound_partial`'s second half).  A second configuration in which `Sel` cannot hold, not
D-15: a stall threshold of 0 files (`zero_threshold_*`).

The two models are composed by one small bridge only (`selOK_of_tree`, `selOK_within_limits`:
on a protocol state that shows the tree's level 0 and thresholds — `Matches` — the selector
model's answer obeys `Sel` for that one selection); there is no theorem about runs of the joined
system (tree + protocol), and the hand-off of the flush request between a writer and the flush
thread (`KeyValueStore::state` condvar) has no Lean model at all — it is replayed only.

Before a write reaches the tree it goes through the wait list of `KeyValueStore::write` (the flush
thread goes through the same list): `Blue.KvsWake` is who-wakes-whom there, one event per critical
section of the store mutex — link; arrive (leave as head and notify the new head, or go to sleep);
the early return of a write that FAILS, which drops its guard wherever it stands and notifies
nobody (the store as found); spurious wake-ups.  Proved for the store whose failed writes leave
in their turn through the common exit (the repaired `write`; which of the two the tree under test
has is extracted from the source, `Blue.ConstsTie.kvs_failed_write_exit`): the head of the list
is never asleep, under every schedule (`wl_head_never_asleep`), and an awake head can leave
(`wl_head_can_leave`).  For the store as found: `wl_successor_sleeps_as_found` (a write fails as
head after the write behind it went to sleep: that write sleeps at the head) and
`wl_asleep_head_stays` / `wl_nobody_leaves_behind_asleep_head` (nothing any other thread does
wakes it; later writers sleep behind it or fail).  The second consequence of leaving out of turn
is on the ring (`Blue.WaitList`, C18's model of `sync42::wait_list`): a guard that unlinks behind an
older one leaves a dead slot until the head moves — `ring_fills_behind_one_guard` (one guard
linked, `n - 1` link/unlink pairs behind it, the next `link` waits; in `write` that `link` holds
the store mutex the one linked writer needs in order to leave), against
`in_order_keeps_window_dense` / `link_blocks_only_when_n_guards` (guards that leave as head: the
window is as long as there are guards).  The recorded wait-list events of every kvs-mode run are
replayed through `Blue.KvsWake.step`.

What is not: wall-clock "eventually" and scheduler fairness are not expressible; the temporal
statement "every stalled ingest is released" is not formalised (only its enabledness and measure
halves; compactions below level 0 between two relieving ones are not bounded by the model); `Sel`
is a hypothesis on runs, discharged for the real selector only where `sel` holds. -/
namespace Blue.Props.C20
open Blue.Stall

/-- **deadlock freedom (model level, partial: under `Sel`)**: from any state satisfying the
    invariant, along every run on which the selector never answers "nothing" while ingest is
    stalled and nothing is in flight, no state has every ingester and every compaction thread
    asleep — every schedule, any number of threads, any compaction sizes, spurious wake-ups -/
theorem writes_never_all_parked_partial (s0 : St) (h0 : Inv s0) (evs : List Ev) (hsel : runSel s0 evs = true) :
    deadlocked (evs.foldl step s0) = false := no_deadlock s0 h0 evs hsel

/-- a fresh store with at least one compaction thread satisfies the invariant, whatever the
    thresholds (the hypothesis of the theorem above is on the selector alone) -/
theorem fresh_store_inv (stallAt stallBytes ni nc : Nat) :
    Inv ⟨stallAt, stallBytes, 0, 0, List.replicate ni .running, List.replicate (nc + 1) .running, false, true, 0, true⟩ :=
  inv_init stallAt stallBytes ni nc

/-- the invariant along a run under `Sel` -/
theorem inv_along_run {s : St} (h : Inv s) (evs : List Ev) (hok : runSel s evs = true) :
    Inv (evs.foldl step s) := inv_run h evs hok

/-- … and its executable form, the one the trace validator evaluates -/
theorem inv_checkable {s : St} (h : Inv s) : invB s = true := invB_of_inv h

/-- while an ingester is parked some compaction thread is awake (selecting or in flight) -/
theorem stalled_has_runner {s : St} (h : Inv s) (hst : ∃ t ∈ s.ingesters, t = .waiting) :
    ∃ t ∈ s.compactors, t ≠ .waiting := Blue.Stall.stalled_has_runner h hst

/-- MODEL FACT (`selOK` unfolded; the only input is "parked ⇒ stalled" from the invariant): … and
    when it selects on an idle store, `Sel` makes it take a compaction -/
theorem stalled_select_takes {s : St} (h : Inv s) (hst : ∃ t ∈ s.ingesters, t = .waiting)
    {i : Nat} {a : Bool} (hidle : idle s = true) (hok : selOK s (.select i a) = true) : a = true :=
  Blue.Stall.stalled_select_takes h hst hidle hok

/-- MODEL FACT (one-step unfolding of `step`; that the compaction is a relieving one, `0 < c`, is a
    hypothesis): a compaction that takes files out of a non-empty level 0 strictly shrinks it … -/
theorem finish_shrinks {s : St} {i c b : Nat} (hin : s.compactors[i]? = some .inflight) (hc : 0 < c)
    (hpos : 0 < s.l0) : (step s (.finish i c b)).l0 < s.l0 := Blue.Stall.finish_shrinks hin hc hpos

/-- MODEL FACT (one-step unfolding of `step`): … and every applied compaction wakes every parked
    ingester -/
theorem finish_wakes {s : St} {i c b : Nat} (hin : s.compactors[i]? = some .inflight) :
    ∀ t ∈ (step s (.finish i c b)).ingesters, t ≠ .waiting := Blue.Stall.finish_wakes hin

/-- MODEL FACT (one-step unfolding of `step`): a compaction thread sleeping for lack of work is woken
    by the event that creates work -/
theorem ingest_wakes {s : St} {i b : Nat} (hn : s.ingestNotifies = true)
    (hrun : s.ingesters[i]? = some .running) (hst : stalled s = false) :
    ∀ t ∈ (step s (.ingest i b)).compactors, t ≠ .waiting := Blue.Stall.ingest_wakes hn hrun hst

/-- **D-15 at model level**: one "nothing" on a stalled, idle tree and one ingester and one
    compaction thread put each other to sleep; the run obeys `Sel` up to that answer -/
theorem deadlock_when_selector_starves :
    let s0 : St := ⟨1, 1000, 0, 0, [.running], [.running], false, true, 0, true⟩
    let evs := [Ev.ingest 0 10, .select 0 false, .ingest 0 10]
    deadlocked (evs.foldl step s0) = true ∧ runSel s0 evs = false
      ∧ runSel s0 (evs.take 1) = true ∧ selOK (evs.take 1 |>.foldl step s0) (.select 0 false) = false :=
  Blue.Stall.deadlock_when_selector_starves

/-- the mutant without `compact.notify_all()` in ingest deadlocks although the selector obeys `Sel` -/
theorem deadlock_without_ingest_notify :
    let s0 : St := ⟨1, 1000, 0, 0, [.running], [.running], false, false, 0, true⟩
    let evs := [Ev.select 0 false, .ingest 0 10, .ingest 0 10]
    deadlocked (evs.foldl step s0) = true ∧ runSel s0 evs = true :=
  Blue.Stall.deadlock_without_ingest_notify

/-- a compaction that fails is released: after `abort` (an event of `step` like any other, so
    `writes_never_all_parked_partial` covers runs with failed compactions) the thread is back at
    selection, the `ongoing` list has lost exactly the failed compaction and is empty if nothing
    else is in flight; level 0 and the sleepers are untouched -/
theorem abort_releases {s : St} {i : Nat} (h : Inv s) (hin : s.compactors[i]? = some .inflight) :
    (step s (.abort i)).compactors[i]? = some .running
      ∧ ongoing (step s (.abort i)) + 1 = ongoing s
      ∧ ((∀ j, j ≠ i → s.compactors[j]? ≠ some .inflight) → idle (step s (.abort i)) = true)
      ∧ (step s (.abort i)).l0 = s.l0 ∧ (step s (.abort i)).ingesters = s.ingesters :=
  Blue.Stall.abort_releases h hin

/-- the mutant whose error path keeps the failed compaction on the `ongoing` list deadlocks after
    one failed compaction of level 0 although the selector obeys `Sel` throughout; the same
    schedule on the store as written breaks `Sel` instead (its `ongoing` list is empty after the
    abort, so "nothing" on the stalled tree is the selector's fault) -/
theorem deadlock_when_abort_keeps_entry :
    let s0 : St := ⟨1, 1000, 0, 0, [.running], [.running], false, true, 0, false⟩
    let evs := [Ev.ingest 0 10, .select 0 true, .abort 0, .select 0 false, .ingest 0 10]
    deadlocked (evs.foldl step s0) = true ∧ runSel s0 evs = true ∧ ongoing (evs.foldl step s0) = 1
      ∧ (let s1 : St := ⟨1, 1000, 0, 0, [.running], [.running], false, true, 0, true⟩
         runSel s1 evs = false ∧ ongoing ((evs.take 3).foldl step s1) = 0) :=
  Blue.Stall.deadlock_when_abort_keeps_entry

/-- as-is (O-4): a compaction thread sleeps on while the finisher selects the next compaction -/
theorem sleeper_with_work :
    let s0 : St := ⟨5, 1000, 0, 0, [.running], [.running, .running], false, true, 0, true⟩
    let evs := [Ev.ingest 0 10, .ingest 0 10, .ingest 0 10, .select 0 true, .select 1 false, .finish 0 1 10]
    let s := evs.foldl step s0
    s.compactors = [.running, .waiting] ∧ s.quiet = false ∧ runSel s0 (evs ++ [.select 0 true]) = true
      ∧ (step s (.select 0 true)).compactors = [.inflight, .waiting] :=
  Blue.Stall.sleeper_with_work

/-! ### `sel`: the selector's side of `Sel` -/
open Blue.Selector

/-- `Sel` for one selection from the selector's side: a selector that offers a compaction whenever
    `sel` holds of the tree it looks at, on trees where stalled implies `sel`, obeys `selOK`.
    NOTE: `o` and `m` are not related to `s` here (the protocol state carries no tree); the two
    hypotheses carry the whole link.  `selOK_of_tree` below instantiates them from the selector
    model on a state that shows the tree. -/
theorem selOK_of_sel (s : St) (i : Nat) (a : Bool) (o : Opts) (m : Summary)
    (hspec : idle s = true → sel o m = true → a = true) (hcover : stalled s = true → sel o m = true) :
    selOK s (.select i a) = true := Blue.Selector.selOK_of_sel s i a o m hspec hcover

/-- MODEL FACT (`sel` unfolded): level 0 non-empty, the hull compaction within both file limits, and
    mandatory or not losing bytes -/
theorem sel_iff (o : Opts) (m : Summary) :
    sel o m = true ↔
      0 < m.l0 ∧ m.l0 + m.l1h ≤ o.maxCompactionFiles ∧ m.l0 + m.l1h < o.maxOpenFiles
        ∧ (o.mandFiles ≤ m.l0 ∨ o.mandBytes ≤ m.l0b ∨ m.full = true ∨ m.l1hb ≤ m.l0b) :=
  Blue.Selector.sel_iff o m

/-- the selector model offers a compaction where `sel` holds (partial: `hullChoosable` —
    `expand_compaction` adds nothing that takes the hull compaction to `max_open_files` — is a
    hypothesis here; the driver evaluates it, and the whole implication, on every tree of the run) -/
theorem sel_sound_partial (o : Opts) (l0 l1 : List File) (rest : List (List File))
    (hsel : sel o (summary (l0 :: l1 :: rest)) = true) (hexp : hullChoosable o (l0 :: l1 :: rest) = true) :
    nextSome o (l0 :: l1 :: rest) = true := Blue.Selector.sel_sound_partial o l0 l1 rest hsel hexp

/-- **the two models composed, one selection**: on a protocol state that shows the tree's level 0
    and the options' thresholds (`Matches`; then `Blue.Stall.stalled s = Blue.Selector.shouldStall o t`),
    the event "the selector answered what the selector model answers" obeys `Sel`, if `sel` holds of
    the tree whenever ingest is stalled on it and the hull compaction is choosable -/
theorem selOK_of_tree (s : St) (i : Nat) (o : Opts) (l0 l1 : List File) (rest : List (List File))
    (hm : Matches s o (l0 :: l1 :: rest))
    (hcover : shouldStall o (l0 :: l1 :: rest) = true → sel o (summary (l0 :: l1 :: rest)) = true)
    (hexp : hullChoosable o (l0 :: l1 :: rest) = true) :
    selOK s (.select i (nextSome o (l0 :: l1 :: rest))) = true :=
  Blue.Selector.selOK_of_tree s i o l0 l1 rest hm hcover hexp

theorem stalled_eq_shouldStall {s : St} {o : Opts} {t : Tree} (h : Matches s o t) :
    stalled s = shouldStall o t := Blue.Selector.stalled_eq_shouldStall h

/-- … in particular within the file limits, for a stall by file count, with a positive stall
    threshold not below the mandatory threshold -/
theorem selOK_within_limits (s : St) (i : Nat) (o : Opts) (l0 l1 : List File) (rest : List (List File))
    (hm : Matches s o (l0 :: l1 :: rest)) (hpos : 0 < o.stallFiles) (hmand : o.mandFiles ≤ o.stallFiles)
    (hcount : shouldStall o (l0 :: l1 :: rest) = true → o.stallFiles ≤ l0.length)
    (hlim : overLimit o (summary (l0 :: l1 :: rest)) = false)
    (hexp : hullChoosable o (l0 :: l1 :: rest) = true) :
    selOK s (.select i (nextSome o (l0 :: l1 :: rest))) = true :=
  Blue.Selector.selOK_within_limits s i o l0 l1 rest hm hpos hmand hcount hlim hexp

/-- non-vacuity of the composed statement: a protocol state stalled at 2 files that shows a
    two-level tree (two overlapping level-0 files over one level-1 file) within all limits -/
example :
    let t : Tree := [[⟨0, [1], [5], 10, 7⟩, ⟨1, [2], [6], 10, 9⟩], [⟨2, [0], [3], 30, 3⟩]]
    let o : Opts := ⟨100, 1000, 8, 2, 1000, 2, 1000⟩
    let s : St := ⟨2, 1000, 2, 20, [.waiting], [.running], false, true, 0, true⟩
    stalled s = true ∧ shouldStall o t = true ∧ overLimit o (summary t) = false ∧ hullChoosable o t = true
      ∧ nextSome o t = true ∧ selOK s (.select 0 (nextSome o t)) = true := by decide
example : Matches (⟨2, 1000, 2, 20, [.waiting], [.running], false, true, 0, true⟩ : St) ⟨100, 1000, 8, 2, 1000, 2, 1000⟩
    [[⟨0, [1], [5], 10, 7⟩, ⟨1, [2], [6], 10, 9⟩], [⟨2, [0], [3], 30, 3⟩]] := ⟨rfl, rfl, rfl, rfl⟩

/-- on a level 0 stalled BY FILE COUNT, with a positive stall threshold and the mandatory threshold
    not above it, `sel` fails only through a file limit -/
theorem sel_or_overLimit (o : Opts) (m : Summary) (hpos : 0 < o.stallFiles)
    (hmand : o.mandFiles ≤ o.stallFiles) (hst : o.stallFiles ≤ m.l0) :
    sel o m = true ∨ overLimit o m = true := Blue.Selector.sel_or_overLimit o m hpos hmand hst

/-- the hypotheses of `sel_or_overLimit` are needed: (1) mandatory threshold above the stall
    threshold (10 > 2): a tree stalled by file count within all limits on which `sel` is false -/
theorem sel_or_overLimit_needs_mand_le_stall :
    let o : Opts := ⟨100, 1000, 8, 10, 100000, 2, 100000⟩
    let m : Summary := ⟨2, 20, 1, 400, false⟩
    o.stallFiles ≤ m.l0 ∧ sel o m = false ∧ overLimit o m = false := by decide

/-- (2) a stall by BYTES only (1 file of 20 bytes, stall at 10 bytes / 12 files) -/
theorem sel_or_overLimit_needs_stall_by_count :
    let o : Opts := ⟨100, 1000, 8, 4, 100000, 12, 10⟩
    let m : Summary := ⟨1, 20, 1, 400, false⟩
    decide (m.l0b ≥ o.stallBytes) = true ∧ sel o m = false ∧ overLimit o m = false := by decide

/-- (3) a stall threshold of 0: stalled on the empty tree, the selector model offers nothing, `sel`
    and `overLimit` are both false -/
theorem sel_or_overLimit_needs_pos_threshold :
    let o : Opts := ⟨100, 1000, 8, 4, 100000, 0, 100000⟩
    let t : Tree := [[], [], [], []]
    shouldStall o t = true ∧ nextSome o t = false ∧ sel o (summary t) = false ∧ overLimit o (summary t) = false := by
  decide

/-- `sel` is sufficient for an offer, not necessary: a stalled tree with `sel = false` (not
    mandatory, the hull compaction loses bytes) on which the selector model still offers a
    compaction (a trivial move) -/
theorem sel_is_not_necessary :
    let o : Opts := ⟨100, 1000, 8, 10, 100000, 2, 100000⟩
    let t : Tree := [[⟨0, [1], [5], 10, 7⟩, ⟨1, [2], [6], 10, 9⟩], [⟨2, [0], [9], 400, 3⟩], []]
    sel o (summary t) = false ∧ overLimit o (summary t) = false ∧ shouldStall o t = true ∧ nextSome o t = true := by
  decide

/-! ### a stall threshold of 0 (accepted by the store; not D-15) -/

/-- with `l0_write_stall_threshold_files = 0` ingest is stalled in every state (`should_stall_ingest`
    compares with `>=`) … -/
theorem zero_threshold_always_stalled (s : St) (h : s.stallAt = 0) : stalled s = true :=
  Blue.Stall.zero_threshold_always_stalled s h

/-- … no ingest ever installs a file … -/
theorem zero_threshold_never_ingests (s : St) (i b : Nat) (h : s.stallAt = 0) :
    (step s (.ingest i b)).l0 = s.l0 ∧ (step s (.ingest i b)).compactors = s.compactors :=
  Blue.Stall.zero_threshold_never_ingests s i b h

/-- … `Sel` demands a compaction of an idle store whatever its tree, while `sel` is false on an empty
    level 0 and the selector model offers nothing on the empty tree
    (`sel_or_overLimit_needs_pos_threshold`) … -/
theorem zero_threshold_sel_demands (s : St) (i : Nat) (h : s.stallAt = 0) (hidle : idle s = true) :
    selOK s (.select i false) = false := Blue.Stall.zero_threshold_sel_demands s i h hidle

theorem sel_false_of_empty_l0 (o : Opts) (m : Summary) (h : m.l0 = 0) : sel o m = false :=
  Blue.Selector.sel_false_of_empty_l0 o m h

/-- … and the first ingest and the compaction thread of a fresh store put each other to sleep -/
theorem zero_threshold_deadlock :
    let s0 : St := ⟨0, 1000, 0, 0, [.running], [.running], false, true, 0, true⟩
    let evs := [Ev.ingest 0 10, .select 0 false]
    deadlocked (evs.foldl step s0) = true ∧ runSel s0 evs = false ∧ (evs.foldl step s0).l0 = 0 :=
  Blue.Stall.zero_threshold_deadlock

/-- **D-15**: with `l0_write_stall_threshold_files > max_compaction_files` every tree on which
    ingest waits is over the limit, `sel` is false on all of them (that the selector then offers
    NOTHING is a statement about the selector model, shown on examples: `sel` is only sufficient) … -/
theorem stall_above_file_limit (o : Opts) (m : Summary) (h : o.maxCompactionFiles < o.stallFiles)
    (hst : o.stallFiles ≤ m.l0) : overLimit o m = true ∧ sel o m = false :=
  Blue.Selector.stall_above_file_limit o m h hst

/-- … and with the limit above the threshold the level-1 files under the hull do the same … -/
theorem hull_above_file_limit (o : Opts) (m : Summary) (h : o.maxCompactionFiles < m.l0 + m.l1h) :
    sel o m = false := Blue.Selector.hull_above_file_limit o m h

/-- … for the shipped defaults (stall at 12 files, 64 files per compaction) from 53 level-1 files
    under the hull of level 0 on, and not before -/
theorem default_sel_fails_from_53 (l0 l0b l1h l1hb : Nat) (full : Bool) (h0 : 12 ≤ l0) (h : 53 ≤ l1h) :
    sel Blue.ConstsTie.lsmtkDefaults ⟨l0, l0b, l1h, l1hb, full⟩ = false :=
  Blue.ConstsTie.default_sel_fails_from_53 l0 l0b l1h l1hb full h0 h

theorem default_sel_upto_52 (l0b l1h l1hb : Nat) (full : Bool) (h : l1h ≤ 52) :
    sel Blue.ConstsTie.lsmtkDefaults ⟨12, l0b, l1h, l1hb, full⟩ = true :=
  Blue.ConstsTie.default_sel_upto_52 l0b l1h l1hb full h

/-! ### non-vacuity -/

/-- a run under `Sel` with a stall that is released: two ingests fill level 0 to the threshold, the
    third parks, the compaction thread (woken by the first ingest) compacts, the parked ingest is
    woken and installs; the invariant's executable form holds at the end -/
example :
    let s0 : St := ⟨2, 1000, 0, 0, [.running], [.running], false, true, 0, true⟩
    let evs := [Ev.select 0 false, .ingest 0 10, .ingest 0 10, .ingest 0 10, .select 0 true, .finish 0 2 20, .ingest 0 10, .select 0 true]
    runSel s0 evs = true ∧ deadlocked (evs.foldl step s0) = false ∧ invB (evs.foldl step s0) = true
      ∧ (evs.take 4 |>.foldl step s0).ingesters = [.waiting] ∧ (evs.foldl step s0).l0 = 1 := by decide

/-- `stalled_has_runner` / `stalled_select_takes` have inhabitants: in the state after the third
    ingest above an ingester is parked and the compaction thread is awake -/
example :
    let s : St := ⟨2, 1000, 2, 20, [.waiting], [.running], false, true, 0, true⟩
    (∃ t ∈ s.ingesters, t = .waiting) ∧ idle s = true ∧ selOK s (.select 0 true) = true
      ∧ selOK s (.select 0 false) = false := by decide

/-- a run under `Sel` with a failed compaction: level 0 at the threshold, the ingester parked, the
    selected compaction fails and is released, the (fresh) thread selects again, is served, and the
    parked ingest is released -/
example :
    let s0 : St := ⟨1, 1000, 0, 0, [.running], [.running], false, true, 0, true⟩
    let evs := [Ev.ingest 0 10, .ingest 0 10, .select 0 true, .abort 0, .select 0 true, .finish 0 1 10, .ingest 0 10]
    runSel s0 evs = true ∧ invB (evs.foldl step s0) = true ∧ deadlocked (evs.foldl step s0) = false
      ∧ ongoing ((evs.take 4).foldl step s0) = 0 ∧ ((evs.take 4).foldl step s0).ingesters = [.waiting]
      ∧ (evs.foldl step s0).ingesters = [.running] := by decide

/-- `finish_shrinks`: an in-flight compactor and a non-empty level 0 -/
example : (step (⟨2, 1000, 2, 20, [.waiting], [.inflight], false, true, 0, true⟩ : St) (.finish 0 2 20)).l0 = 0 := by decide

/-- `sel` on both sides of the file limit: 4 level-0 files with 4 resp. 5 level-1 files under the
    hull, 8 files per compaction -/
example : sel ⟨100, 1000, 8, 2, 1000, 4, 1000⟩ ⟨4, 40, 4, 400, false⟩ = true
    ∧ sel ⟨100, 1000, 8, 2, 1000, 4, 1000⟩ ⟨4, 40, 5, 400, false⟩ = false
    ∧ overLimit ⟨100, 1000, 8, 2, 1000, 4, 1000⟩ ⟨4, 40, 5, 400, false⟩ = true := by decide

/-- `sel_sound_partial`: a two-level tree — two overlapping level-0 files over one level-1 file —
    on which `sel`, `hullChoosable` and the selector model's answer all hold, and the same tree
    under a file limit of 2 on which `sel` fails and the model offers nothing -/
example :
    let t : Tree := [[⟨0, [1], [5], 10, 7⟩, ⟨1, [2], [6], 10, 9⟩], [⟨2, [0], [3], 30, 3⟩]]
    sel ⟨100, 1000, 8, 2, 1000, 4, 1000⟩ (summary t) = true ∧ hullChoosable ⟨100, 1000, 8, 2, 1000, 4, 1000⟩ t = true
      ∧ nextSome ⟨100, 1000, 8, 2, 1000, 4, 1000⟩ t = true
      ∧ sel ⟨100, 1000, 2, 2, 1000, 2, 1000⟩ (summary t) = false ∧ nextSome ⟨100, 1000, 2, 2, 1000, 2, 1000⟩ t = false := by decide

/-! ## the wait list of `KeyValueStore::write` -/
section waitlist

/-- **the head of the wait list is never asleep** (failed writes leave in their turn — the repaired
    `write`): after any sequence of links, arrivals (leave as head and notify the new head, or go to
    sleep) and spurious wake-ups, the head of the list is awake -/
theorem wl_head_never_asleep (evs : List Blue.KvsWake.Ev) {s' : Blue.KvsWake.St}
    (hin : ∀ e ∈ evs, e.inTurn = true) (hr : Blue.KvsWake.run Blue.KvsWake.init evs = some s') :
    Blue.KvsWake.headAsleep s' = false :=
  Blue.KvsWake.headAsleep_false_of_good
    (Blue.KvsWake.head_never_asleep evs Blue.KvsWake.good_init hin hr)

/-- … and an awake head is enabled to leave; the list gets shorter by it (the measure half of
    "every write returns"; fairness is assumed) -/
theorem wl_head_can_leave {s : Blue.KvsWake.St} {h : Nat} (hh : s.queue.head? = some h)
    (ha : s.ts[h]? = some .awake) :
    ∃ s', Blue.KvsWake.step s (.arrive h) = some s' ∧ s'.queue = s.queue.tail
      ∧ s'.queue.length + 1 = s.queue.length :=
  Blue.KvsWake.head_can_leave hh ha

/-- **the store as found**: write 0 links, write 1 links behind it, inserts and goes to sleep;
    write 0 fails and drops its guard: write 1 is head and asleep; write 2 comes and sleeps behind it -/
theorem wl_successor_sleeps_as_found :
    (Blue.KvsWake.run Blue.KvsWake.init [.link, .link, .arrive 1, .drop 0]).map
      (fun s => (s.queue, s.ts, Blue.KvsWake.headAsleep s)) = some ([1], [.gone, .asleep], true) ∧
    (Blue.KvsWake.run Blue.KvsWake.init [.link, .link, .arrive 1, .drop 0, .link, .arrive 2]).map
      (fun s => (s.queue, s.ts, Blue.KvsWake.headAsleep s)) = some ([1, 2], [.gone, .asleep, .asleep], true) :=
  Blue.KvsWake.successor_sleeps_as_found

/-- the same threads with the failed write leaving in its turn: everybody leaves -/
theorem wl_same_schedule_repaired :
    (Blue.KvsWake.run Blue.KvsWake.init [.link, .link, .arrive 1, .arrive 0, .arrive 1, .link, .arrive 2]).map
      (fun s => (s.queue, s.ts, Blue.KvsWake.headAsleep s)) = some ([], [.gone, .gone, .gone], false) :=
  Blue.KvsWake.same_schedule_repaired

/-- an asleep head stays asleep whatever any thread does, short of a spurious wake-up of the head
    itself -/
theorem wl_asleep_head_stays {s s' : Blue.KvsWake.St} {h : Nat} (hh : s.queue.head? = some h)
    (ha : s.ts[h]? = some .asleep) (ev : Blue.KvsWake.Ev) (hne : ev ≠ .spur h)
    (hs : Blue.KvsWake.step s ev = some s') : s'.queue.head? = some h ∧ s'.ts[h]? = some .asleep :=
  Blue.KvsWake.asleep_head_stays hh ha ev hne hs

/-- … along whole schedules: nobody behind it ever leaves in turn -/
theorem wl_nobody_leaves_behind_asleep_head (evs : List Blue.KvsWake.Ev) {s s' : Blue.KvsWake.St} {h : Nat}
    (hh : s.queue.head? = some h) (ha : s.ts[h]? = some .asleep) (hne : ∀ e ∈ evs, e ≠ .spur h)
    (hr : Blue.KvsWake.run s evs = some s') : s'.queue.head? = some h ∧ s'.ts[h]? = some .asleep :=
  Blue.KvsWake.nobody_leaves_behind_asleep_head evs hh ha hne hr

/-! non-vacuity of `wl_head_never_asleep` / `wl_asleep_head_stays`: a run in turn with sleepers, and
    the stuck state of the store as found -/
example : (Blue.KvsWake.run Blue.KvsWake.init [.link, .link, .link, .arrive 2, .arrive 1, .arrive 0]).map
    (fun s => (s.queue, s.ts)) = some ([1, 2], [.gone, .awake, .asleep]) := by decide
example : ∃ s, Blue.KvsWake.run Blue.KvsWake.init [.link, .link, .arrive 1, .drop 0] = some s
    ∧ s.queue.head? = some 1 ∧ s.ts[1]? = some .asleep := ⟨_, rfl, rfl, rfl⟩

/-- **leaving in turn keeps the ring short**: after any sequence of `link`s and of `unlink`s made by
    the guard that is head at that moment, every index of the window belongs to a guard that
    exists … -/
theorem in_order_keeps_window_dense (n : Nat) (hn : 0 < n) (ops : List Blue.WaitList.Op)
    (ho : Blue.WaitList.inOrder (Blue.WaitList.init n) ops) :
    Blue.WaitList.Dense (ops.foldl Blue.WaitList.step (Blue.WaitList.init n)) :=
  Blue.WaitList.in_order_keeps_window_dense n hn ops ho

/-- … so `link` waits for a slot only while `n` guards exist (`n` = `sync42::MAX_CONCURRENCY` = 65536
    threads inside `write` at once) -/
theorem link_blocks_only_when_n_guards (n : Nat) (hn : 0 < n) (ops : List Blue.WaitList.Op)
    (ho : Blue.WaitList.inOrder (Blue.WaitList.init n) ops)
    (hb : Blue.WaitList.link (ops.foldl Blue.WaitList.step (Blue.WaitList.init n)) = none) :
    ∀ j, (ops.foldl Blue.WaitList.step (Blue.WaitList.init n)).head ≤ j →
      j < (ops.foldl Blue.WaitList.step (Blue.WaitList.init n)).head + (ops.foldl Blue.WaitList.step (Blue.WaitList.init n)).n →
      j ∈ (ops.foldl Blue.WaitList.step (Blue.WaitList.init n)).live :=
  Blue.WaitList.link_blocks_only_when_n_guards n hn ops ho hb

/-- **the store as found fills the ring behind one slow write** (four slots): guard 0 stays linked,
    three guards link and unlink behind it out of turn; one guard exists and the next `link` waits -/
theorem ring_fills_behind_one_guard :
    let s := [Blue.WaitList.Op.link, .link, .unlink 1, .link, .unlink 2, .link, .unlink 3].foldl
      Blue.WaitList.step (Blue.WaitList.init 4)
    s.live = [0] ∧ s.head = 0 ∧ s.tail = 4 ∧ (Blue.WaitList.link s).isNone = true
      ∧ (Blue.WaitList.step s .link).tail = 4 :=
  Blue.WaitList.ring_fills_behind_one_guard

/-- … in general: behind a guard that stays linked every out-of-turn link/unlink pair lengthens the
    window by one and leaves the guards as they were -/
theorem out_of_turn_pair_lengthens_window {s : Blue.WaitList.St} (h : Blue.WaitList.Inv s) (hne : s.live ≠ [])
    (hroom : s.tail < s.head + s.n) :
    let s' := Blue.WaitList.step (Blue.WaitList.step s .link) (.unlink s.tail)
    s'.live = s.live ∧ s'.head = s.head ∧ s'.tail = s.tail + 1 :=
  Blue.WaitList.out_of_turn_pair_lengthens_window h hne hroom

example : Blue.WaitList.inOrder (Blue.WaitList.init 4) [.link, .link, .unlink 0, .link, .unlink 1, .unlink 2] := by
  simp [Blue.WaitList.inOrder, Blue.WaitList.step, Blue.WaitList.link, Blue.WaitList.init, Blue.WaitList.unlink,
    Blue.WaitList.advance]

end waitlist

end Blue.Props.C20

#print axioms Blue.Props.C20.writes_never_all_parked_partial
#print axioms Blue.Props.C20.fresh_store_inv
#print axioms Blue.Props.C20.inv_along_run
#print axioms Blue.Props.C20.inv_checkable
#print axioms Blue.Props.C20.stalled_has_runner
#print axioms Blue.Props.C20.stalled_select_takes
#print axioms Blue.Props.C20.finish_shrinks
#print axioms Blue.Props.C20.finish_wakes
#print axioms Blue.Props.C20.ingest_wakes
#print axioms Blue.Props.C20.deadlock_when_selector_starves
#print axioms Blue.Props.C20.deadlock_without_ingest_notify
#print axioms Blue.Props.C20.sleeper_with_work
#print axioms Blue.Props.C20.abort_releases
#print axioms Blue.Props.C20.deadlock_when_abort_keeps_entry
#print axioms Blue.Props.C20.selOK_of_sel
#print axioms Blue.Props.C20.sel_iff
#print axioms Blue.Props.C20.sel_sound_partial
#print axioms Blue.Props.C20.selOK_of_tree
#print axioms Blue.Props.C20.stalled_eq_shouldStall
#print axioms Blue.Props.C20.selOK_within_limits
#print axioms Blue.Props.C20.sel_or_overLimit
#print axioms Blue.Props.C20.sel_or_overLimit_needs_mand_le_stall
#print axioms Blue.Props.C20.sel_or_overLimit_needs_stall_by_count
#print axioms Blue.Props.C20.sel_or_overLimit_needs_pos_threshold
#print axioms Blue.Props.C20.sel_is_not_necessary
#print axioms Blue.Props.C20.zero_threshold_always_stalled
#print axioms Blue.Props.C20.zero_threshold_never_ingests
#print axioms Blue.Props.C20.zero_threshold_sel_demands
#print axioms Blue.Props.C20.sel_false_of_empty_l0
#print axioms Blue.Props.C20.zero_threshold_deadlock
#print axioms Blue.Props.C20.stall_above_file_limit
#print axioms Blue.Props.C20.hull_above_file_limit
#print axioms Blue.Props.C20.default_sel_fails_from_53
#print axioms Blue.Props.C20.default_sel_upto_52
#print axioms Blue.Props.C20.wl_head_never_asleep
#print axioms Blue.Props.C20.wl_head_can_leave
#print axioms Blue.Props.C20.wl_successor_sleeps_as_found
#print axioms Blue.Props.C20.wl_same_schedule_repaired
#print axioms Blue.Props.C20.wl_asleep_head_stays
#print axioms Blue.Props.C20.wl_nobody_leaves_behind_asleep_head
#print axioms Blue.Props.C20.in_order_keeps_window_dense
#print axioms Blue.Props.C20.link_blocks_only_when_n_guards
#print axioms Blue.Props.C20.ring_fills_behind_one_guard
#print axioms Blue.Props.C20.out_of_turn_pair_lengthens_window
#print axioms Blue.ConstsTie.kvs_failed_write_exit
#print axioms Blue.ConstsTie.lsmtk_defaults
#print axioms Blue.ConstsTie.lsmtk_num_levels
