import Blue.Proofs.Stall
import Blue.Proofs.Selector
import Blue.Proofs.ConstsTieC20
/-! # Property C20 — writes keep completing: ingest and compaction never wait on each other forever

Property theorems only.  **The claim is partial.**

`Blue.Stall` is the transition system of the stall / wake-up protocol of lsmtk/src/tree/mod.rs
(`apply_manifest_ingest` waits on `stall` while `should_stall_ingest`; `compaction_thread` waits on
`compact` while `next_compaction()` is `None`; an installing ingest notifies `compact`, an applied
compaction notifies `stall` and not `compact`; a compaction that fails is released from the
`ongoing` list under the mutex and its thread replaced), one event per critical section under the
`compaction` mutex, any number of ingesters and compaction threads, spurious wake-ups and failed
compactions included.
The selector's answer is part of the event (an observation of the run); what the protocol needs
of it is `selOK` — the model's `Sel`: *no "nothing" while ingest is stalled and nothing is in
flight*.  The recorded runs of the real store (real threads) are replayed through `step` by the
driver with every event required to be enabled, `invB` evaluated after every event, the model's
sleepers compared with the real parked-on registry at the end.

What is proved: deadlock freedom by invariant under `Sel` for every schedule
(`writes_never_all_parked`), the enabledness and measure halves of "stalled ingest is eventually
released" (`stalled_has_runner`, `stalled_select_takes`, `finish_shrinks`, `finish_wakes`), "the
event that creates work wakes every sleeping compaction thread" (`ingest_wakes`), and that `Sel`
is necessary (`deadlock_when_selector_starves`, D-15) as are the notification
(`deadlock_without_ingest_notify`) and the release of a failed compaction (`abort_releases`,
`deadlock_when_abort_keeps_entry`).  `Blue.Selector` models `next_compaction().is_some()` on the
tree metadata (compared with the real selector state by state) and gives `sel`, the
characterisation of `Sel` on (|L0|, level-1 files under the hull, options): sound for the selector
model up to one hypothesis (`sel_sound_partial`), it holds on every stalled tree within the file
limits (`sel_or_overLimit`) and **fails** for option values the store accepts
(`stall_above_file_limit`, `hull_above_file_limit`, `default_sel_fails_from_53`) — the known
finding D-15.

What is not: wall-clock "eventually" and scheduler fairness are not expressible; the temporal
statement "every stalled ingest is released" is not formalised (only its enabledness and measure
halves; compactions below level 0 between two relieving ones are not bounded by the model); `Sel`
is a hypothesis on runs, discharged for the real selector only where `sel` holds. -/
namespace Blue.Props.C20
open Blue.Stall

/-- **deadlock freedom (model level, partial: under `Sel`)**: from any state satisfying the
    invariant, along every run on which the selector never answers "nothing" while ingest is
    stalled and nothing is in flight, no state has every ingester and every compaction thread
    asleep — every schedule, any number of threads, any compaction sizes, spurious wake-ups -/
theorem writes_never_all_parked_partial (s0 : St) (h0 : Inv s0) (evs : List Ev) (hsel : runSel s0 evs = true) :
    deadlocked (evs.foldl step s0) = false := no_deadlock s0 h0 evs hsel

/-- a fresh store with at least one compaction thread satisfies the invariant, whatever the
    thresholds (the hypothesis of the theorem above is on the selector alone) -/
theorem fresh_store_inv (stallAt stallBytes ni nc : Nat) :
    Inv ⟨stallAt, stallBytes, 0, 0, List.replicate ni .running, List.replicate (nc + 1) .running, false, true, 0, true⟩ :=
  inv_init stallAt stallBytes ni nc

/-- the invariant along a run under `Sel` -/
theorem inv_along_run {s : St} (h : Inv s) (evs : List Ev) (hok : runSel s evs = true) :
    Inv (evs.foldl step s) := inv_run h evs hok

/-- … and its executable form, the one the trace validator evaluates -/
theorem inv_checkable {s : St} (h : Inv s) : invB s = true := invB_of_inv h

/-- while an ingester is parked some compaction thread is awake (selecting or in flight) -/
theorem stalled_has_runner {s : St} (h : Inv s) (hst : ∃ t ∈ s.ingesters, t = .waiting) :
    ∃ t ∈ s.compactors, t ≠ .waiting := Blue.Stall.stalled_has_runner h hst

/-- … and when it selects on an idle store, `Sel` makes it take a compaction -/
theorem stalled_select_takes {s : St} (h : Inv s) (hst : ∃ t ∈ s.ingesters, t = .waiting)
    {i : Nat} {a : Bool} (hidle : idle s = true) (hok : selOK s (.select i a) = true) : a = true :=
  Blue.Stall.stalled_select_takes h hst hidle hok

/-- a compaction that takes files out of a non-empty level 0 strictly shrinks it … -/
theorem finish_shrinks {s : St} {i c b : Nat} (hin : s.compactors[i]? = some .inflight) (hc : 0 < c)
    (hpos : 0 < s.l0) : (step s (.finish i c b)).l0 < s.l0 := Blue.Stall.finish_shrinks hin hc hpos

/-- … and every applied compaction wakes every parked ingester -/
theorem finish_wakes {s : St} {i c b : Nat} (hin : s.compactors[i]? = some .inflight) :
    ∀ t ∈ (step s (.finish i c b)).ingesters, t ≠ .waiting := Blue.Stall.finish_wakes hin

/-- a compaction thread sleeping for lack of work is woken by the event that creates work -/
theorem ingest_wakes {s : St} {i b : Nat} (hn : s.ingestNotifies = true)
    (hrun : s.ingesters[i]? = some .running) (hst : stalled s = false) :
    ∀ t ∈ (step s (.ingest i b)).compactors, t ≠ .waiting := Blue.Stall.ingest_wakes hn hrun hst

/-- **D-15 at model level**: one "nothing" on a stalled, idle tree and one ingester and one
    compaction thread put each other to sleep; the run obeys `Sel` up to that answer -/
theorem deadlock_when_selector_starves :
    let s0 : St := ⟨1, 1000, 0, 0, [.running], [.running], false, true, 0, true⟩
    let evs := [Ev.ingest 0 10, .select 0 false, .ingest 0 10]
    deadlocked (evs.foldl step s0) = true ∧ runSel s0 evs = false
      ∧ runSel s0 (evs.take 1) = true ∧ selOK (evs.take 1 |>.foldl step s0) (.select 0 false) = false :=
  Blue.Stall.deadlock_when_selector_starves

/-- the mutant without `compact.notify_all()` in ingest deadlocks although the selector obeys `Sel` -/
theorem deadlock_without_ingest_notify :
    let s0 : St := ⟨1, 1000, 0, 0, [.running], [.running], false, false, 0, true⟩
    let evs := [Ev.select 0 false, .ingest 0 10, .ingest 0 10]
    deadlocked (evs.foldl step s0) = true ∧ runSel s0 evs = true :=
  Blue.Stall.deadlock_without_ingest_notify

/-- a compaction that fails is released: after `abort` (an event of `step` like any other, so
    `writes_never_all_parked_partial` covers runs with failed compactions) the thread is back at
    selection, the `ongoing` list has lost exactly the failed compaction and is empty if nothing
    else is in flight; level 0 and the sleepers are untouched -/
theorem abort_releases {s : St} {i : Nat} (h : Inv s) (hin : s.compactors[i]? = some .inflight) :
    (step s (.abort i)).compactors[i]? = some .running
      ∧ ongoing (step s (.abort i)) + 1 = ongoing s
      ∧ ((∀ j, j ≠ i → s.compactors[j]? ≠ some .inflight) → idle (step s (.abort i)) = true)
      ∧ (step s (.abort i)).l0 = s.l0 ∧ (step s (.abort i)).ingesters = s.ingesters :=
  Blue.Stall.abort_releases h hin

/-- the mutant whose error path keeps the failed compaction on the `ongoing` list deadlocks after
    one failed compaction of level 0 although the selector obeys `Sel` throughout; the same
    schedule on the store as written breaks `Sel` instead (its `ongoing` list is empty after the
    abort, so "nothing" on the stalled tree is the selector's fault) -/
theorem deadlock_when_abort_keeps_entry :
    let s0 : St := ⟨1, 1000, 0, 0, [.running], [.running], false, true, 0, false⟩
    let evs := [Ev.ingest 0 10, .select 0 true, .abort 0, .select 0 false, .ingest 0 10]
    deadlocked (evs.foldl step s0) = true ∧ runSel s0 evs = true ∧ ongoing (evs.foldl step s0) = 1
      ∧ (let s1 : St := ⟨1, 1000, 0, 0, [.running], [.running], false, true, 0, true⟩
         runSel s1 evs = false ∧ ongoing ((evs.take 3).foldl step s1) = 0) :=
  Blue.Stall.deadlock_when_abort_keeps_entry

/-- as-is (O-4): a compaction thread sleeps on while the finisher selects the next compaction -/
theorem sleeper_with_work :
    let s0 : St := ⟨5, 1000, 0, 0, [.running], [.running, .running], false, true, 0, true⟩
    let evs := [Ev.ingest 0 10, .ingest 0 10, .ingest 0 10, .select 0 true, .select 1 false, .finish 0 1 10]
    let s := evs.foldl step s0
    s.compactors = [.running, .waiting] ∧ s.quiet = false ∧ runSel s0 (evs ++ [.select 0 true]) = true
      ∧ (step s (.select 0 true)).compactors = [.inflight, .waiting] :=
  Blue.Stall.sleeper_with_work

/-! ### `sel`: the selector's side of `Sel` -/
open Blue.Selector

/-- `Sel` for one selection from the selector's side: a selector that offers a compaction whenever
    `sel` holds of the tree it looks at, on trees where stalled implies `sel`, obeys `selOK` -/
theorem selOK_of_sel (s : St) (i : Nat) (a : Bool) (o : Opts) (m : Summary)
    (hspec : idle s = true → sel o m = true → a = true) (hcover : stalled s = true → sel o m = true) :
    selOK s (.select i a) = true := Blue.Selector.selOK_of_sel s i a o m hspec hcover

/-- `sel` is what it says: level 0 non-empty, the hull compaction within both file limits, and
    mandatory or not losing bytes -/
theorem sel_iff (o : Opts) (m : Summary) :
    sel o m = true ↔
      0 < m.l0 ∧ m.l0 + m.l1h ≤ o.maxCompactionFiles ∧ m.l0 + m.l1h < o.maxOpenFiles
        ∧ (o.mandFiles ≤ m.l0 ∨ o.mandBytes ≤ m.l0b ∨ m.full = true ∨ m.l1hb ≤ m.l0b) :=
  Blue.Selector.sel_iff o m

/-- the selector model offers a compaction where `sel` holds (partial: `hullChoosable` —
    `expand_compaction` adds nothing that takes the hull compaction to `max_open_files` — is a
    hypothesis here; the driver evaluates it, and the whole implication, on every tree of the run) -/
theorem sel_sound_partial (o : Opts) (l0 l1 : List File) (rest : List (List File))
    (hsel : sel o (summary (l0 :: l1 :: rest)) = true) (hexp : hullChoosable o (l0 :: l1 :: rest) = true) :
    nextSome o (l0 :: l1 :: rest) = true := Blue.Selector.sel_sound_partial o l0 l1 rest hsel hexp

/-- on a stalled level 0 with the mandatory threshold not above the stall threshold, `sel` fails
    only through a file limit -/
theorem sel_or_overLimit (o : Opts) (m : Summary) (hpos : 0 < o.stallFiles)
    (hmand : o.mandFiles ≤ o.stallFiles) (hst : o.stallFiles ≤ m.l0) :
    sel o m = true ∨ overLimit o m = true := Blue.Selector.sel_or_overLimit o m hpos hmand hst

/-- **D-15**: with `l0_write_stall_threshold_files > max_compaction_files` every tree on which
    ingest waits is over the limit, `sel` fails on all of them … -/
theorem stall_above_file_limit (o : Opts) (m : Summary) (h : o.maxCompactionFiles < o.stallFiles)
    (hst : o.stallFiles ≤ m.l0) : overLimit o m = true ∧ sel o m = false :=
  Blue.Selector.stall_above_file_limit o m h hst

/-- … and with the limit above the threshold the level-1 files under the hull do the same … -/
theorem hull_above_file_limit (o : Opts) (m : Summary) (h : o.maxCompactionFiles < m.l0 + m.l1h) :
    sel o m = false := Blue.Selector.hull_above_file_limit o m h

/-- … for the shipped defaults (stall at 12 files, 64 files per compaction) from 53 level-1 files
    under the hull of level 0 on, and not before -/
theorem default_sel_fails_from_53 (l0 l0b l1h l1hb : Nat) (full : Bool) (h0 : 12 ≤ l0) (h : 53 ≤ l1h) :
    sel Blue.ConstsTie.lsmtkDefaults ⟨l0, l0b, l1h, l1hb, full⟩ = false :=
  Blue.ConstsTie.default_sel_fails_from_53 l0 l0b l1h l1hb full h0 h

theorem default_sel_upto_52 (l0b l1h l1hb : Nat) (full : Bool) (h : l1h ≤ 52) :
    sel Blue.ConstsTie.lsmtkDefaults ⟨12, l0b, l1h, l1hb, full⟩ = true :=
  Blue.ConstsTie.default_sel_upto_52 l0b l1h l1hb full h

/-! ### non-vacuity -/

/-- a run under `Sel` with a stall that is released: two ingests fill level 0 to the threshold, the
    third parks, the compaction thread (woken by the first ingest) compacts, the parked ingest is
    woken and installs; the invariant's executable form holds at the end -/
example :
    let s0 : St := ⟨2, 1000, 0, 0, [.running], [.running], false, true, 0, true⟩
    let evs := [Ev.select 0 false, .ingest 0 10, .ingest 0 10, .ingest 0 10, .select 0 true, .finish 0 2 20, .ingest 0 10, .select 0 true]
    runSel s0 evs = true ∧ deadlocked (evs.foldl step s0) = false ∧ invB (evs.foldl step s0) = true
      ∧ (evs.take 4 |>.foldl step s0).ingesters = [.waiting] ∧ (evs.foldl step s0).l0 = 1 := by decide

/-- `stalled_has_runner` / `stalled_select_takes` have inhabitants: in the state after the third
    ingest above an ingester is parked and the compaction thread is awake -/
example :
    let s : St := ⟨2, 1000, 2, 20, [.waiting], [.running], false, true, 0, true⟩
    (∃ t ∈ s.ingesters, t = .waiting) ∧ idle s = true ∧ selOK s (.select 0 true) = true
      ∧ selOK s (.select 0 false) = false := by decide

/-- a run under `Sel` with a failed compaction: level 0 at the threshold, the ingester parked, the
    selected compaction fails and is released, the (fresh) thread selects again, is served, and the
    parked ingest is released -/
example :
    let s0 : St := ⟨1, 1000, 0, 0, [.running], [.running], false, true, 0, true⟩
    let evs := [Ev.ingest 0 10, .ingest 0 10, .select 0 true, .abort 0, .select 0 true, .finish 0 1 10, .ingest 0 10]
    runSel s0 evs = true ∧ invB (evs.foldl step s0) = true ∧ deadlocked (evs.foldl step s0) = false
      ∧ ongoing ((evs.take 4).foldl step s0) = 0 ∧ ((evs.take 4).foldl step s0).ingesters = [.waiting]
      ∧ (evs.foldl step s0).ingesters = [.running] := by decide

/-- `finish_shrinks`: an in-flight compactor and a non-empty level 0 -/
example : (step (⟨2, 1000, 2, 20, [.waiting], [.inflight], false, true, 0, true⟩ : St) (.finish 0 2 20)).l0 = 0 := by decide

/-- `sel` on both sides of the file limit: 4 level-0 files with 4 resp. 5 level-1 files under the
    hull, 8 files per compaction -/
example : sel ⟨100, 1000, 8, 2, 1000, 4, 1000⟩ ⟨4, 40, 4, 400, false⟩ = true
    ∧ sel ⟨100, 1000, 8, 2, 1000, 4, 1000⟩ ⟨4, 40, 5, 400, false⟩ = false
    ∧ overLimit ⟨100, 1000, 8, 2, 1000, 4, 1000⟩ ⟨4, 40, 5, 400, false⟩ = true := by decide

/-- `sel_sound_partial`: a two-level tree — two overlapping level-0 files over one level-1 file —
    on which `sel`, `hullChoosable` and the selector model's answer all hold, and the same tree
    under a file limit of 2 on which `sel` fails and the model offers nothing -/
example :
    let t : Tree := [[⟨0, [1], [5], 10, 7⟩, ⟨1, [2], [6], 10, 9⟩], [⟨2, [0], [3], 30, 3⟩]]
    sel ⟨100, 1000, 8, 2, 1000, 4, 1000⟩ (summary t) = true ∧ hullChoosable ⟨100, 1000, 8, 2, 1000, 4, 1000⟩ t = true
      ∧ nextSome ⟨100, 1000, 8, 2, 1000, 4, 1000⟩ t = true
      ∧ sel ⟨100, 1000, 2, 2, 1000, 2, 1000⟩ (summary t) = false ∧ nextSome ⟨100, 1000, 2, 2, 1000, 2, 1000⟩ t = false := by decide

end Blue.Props.C20

#print axioms Blue.Props.C20.writes_never_all_parked_partial
#print axioms Blue.Props.C20.fresh_store_inv
#print axioms Blue.Props.C20.inv_along_run
#print axioms Blue.Props.C20.inv_checkable
#print axioms Blue.Props.C20.stalled_has_runner
#print axioms Blue.Props.C20.stalled_select_takes
#print axioms Blue.Props.C20.finish_shrinks
#print axioms Blue.Props.C20.finish_wakes
#print axioms Blue.Props.C20.ingest_wakes
#print axioms Blue.Props.C20.deadlock_when_selector_starves
#print axioms Blue.Props.C20.deadlock_without_ingest_notify
#print axioms Blue.Props.C20.sleeper_with_work
#print axioms Blue.Props.C20.abort_releases
#print axioms Blue.Props.C20.deadlock_when_abort_keeps_entry
#print axioms Blue.Props.C20.selOK_of_sel
#print axioms Blue.Props.C20.sel_iff
#print axioms Blue.Props.C20.sel_sound_partial
#print axioms Blue.Props.C20.sel_or_overLimit
#print axioms Blue.Props.C20.stall_above_file_limit
#print axioms Blue.Props.C20.hull_above_file_limit
#print axioms Blue.Props.C20.default_sel_fails_from_53
#print axioms Blue.Props.C20.default_sel_upto_52
#print axioms Blue.ConstsTie.lsmtk_defaults
#print axioms Blue.ConstsTie.lsmtk_num_levels
