import Blue.Model.ConcatS
import Blue.Proofs.ConcatLink
import Blue.Model.LazyC
import Blue.Proofs.LazyC
/-! The side effects of `ConcatenatingCursor::seek`'s probes are invisible.

    `ConcatS` (Blue/Model/ConcatS.lean) performs the probes as the code does (position moved to the
    probed child, `seek_to_last; prev` on it, `seek_to_first` on the child left behind).  The
    invariant: *a child's position matters only while it is the active child; whenever a child
    becomes active it is first re-positioned by `seek_to_first`, `seek_to_last` or `seek`*, and
    those three forget where the child was (`Resets`).  Hence every program shows under `ConcatS`
    what it shows under `ConcatC`. -/
namespace Blue.Cursor
variable {E : Type}

/-- `T c d`: "`c` and `d` are (well-formed) states of a cursor over the same table" — a partial
    equivalence relation, `T c c` reading "`c` is well formed".  Every operation stays in the class,
    and the three positioning operations forget the position they start from. -/
structure Resets (C : Cur E) (T : C.σ → C.σ → Prop) : Prop where
  symm : ∀ {c d}, T c d → T d c
  trans : ∀ {a b c}, T a b → T b c → T a c
  first : ∀ c, T c c → T c (C.first c)
  last : ∀ c, T c c → T c (C.last c)
  next : ∀ c, T c c → T c (C.next c)
  prev : ∀ c, T c c → T c (C.prev c)
  seek : ∀ p c, T c c → T c (C.seek p c)
  first_eq : ∀ {c d}, T c d → C.first c = C.first d
  last_eq : ∀ {c d}, T c d → C.last c = C.last d
  seek_eq : ∀ p {c d}, T c d → C.seek p c = C.seek p d
  ok_eq : ∀ {c d}, T c d → C.ok c = C.ok d

theorem Resets.left {C : Cur E} {T : C.σ → C.σ → Prop} (hT : Resets C T) {c d : C.σ} (h : T c d) : T c c :=
  hT.trans h (hT.symm h)
theorem Resets.right {C : Cur E} {T : C.σ → C.σ → Prop} (hT : Resets C T) {c d : C.σ} (h : T c d) : T d d :=
  hT.trans (hT.symm h) h

/-- reference cursors: same table = same list -/
theorem resets_ref : Resets (RefCur E) (fun a b => a.xs = b.xs) where
  symm := fun h => h.symm
  trans := fun h1 h2 => h1.trans h2
  first := fun _ _ => rfl
  last := fun _ _ => rfl
  next := fun c _ => by show c.xs = (Ref.next c).xs; unfold Ref.next; split <;> rfl
  prev := fun c _ => by show c.xs = (Ref.prev c).xs; unfold Ref.prev; split <;> rfl
  seek := fun _ _ _ => rfl
  first_eq := fun {c d} h => by
    show Ref.first c = Ref.first d
    cases c; cases d; simp only at h; subst h; rfl
  last_eq := fun {c d} h => by
    show Ref.last c = Ref.last d
    cases c; cases d; simp only at h; subst h; rfl
  seek_eq := fun p {c d} h => by
    show Ref.seek p c = Ref.seek p d
    cases c; cases d; simp only at h; subst h; rfl
  ok_eq := fun _ => rfl

/-! ### lazy cursors reset too (the children of a level's concatenating cursor are lazy cursors) -/
namespace LazyEff
variable {C : Cur E} (T0 : C.σ → C.σ → Prop)

/-- a lazy cursor's state is well formed: the opened cursor is a state of the table `instantiate`
    returns -/
def Good (a : LazyS C) : Prop :=
  T0 a.fresh a.fresh ∧ match a.pos with | .inst s => T0 s a.fresh | _ => True

def LazyT (a b : LazyS C) : Prop := a.fresh = b.fresh ∧ Good T0 a ∧ Good T0 b

def src (c : LazyS C) : C.σ := match c.pos with | .inst s => s | _ => c.fresh

variable {T0}

theorem good_settle (l : LazyS C) (s : C.σ) (off : LPosC C.σ)
    (hoff : off = .first ∨ off = .last) (hl : T0 l.fresh l.fresh) (hs : T0 s l.fresh) :
    Good T0 (LazyC.settle C l s off) ∧ (LazyC.settle C l s off).fresh = l.fresh := by
  unfold LazyC.settle
  split
  · refine ⟨⟨hl, ?_⟩, rfl⟩
    rcases hoff with h | h <;> subst h <;> trivial
  · exact ⟨⟨hl, hs⟩, rfl⟩

theorem step_good (hT : Resets C T0) (f : C.σ → C.σ) (hf : ∀ c, T0 c c → T0 c (f c)) {s fresh : C.σ}
    (hs : T0 s fresh) : T0 (f s) fresh :=
  hT.trans (hT.symm (hf s (hT.left hs))) hs

theorem src_good (c : LazyS C) (g : Good T0 c) : T0 (src c) c.fresh := by
  obtain ⟨fresh, pos⟩ := c
  cases pos with
  | first => exact g.1
  | last => exact g.1
  | inst s => exact g.2

theorem lazy_next (hT : Resets C T0) (c : LazyS C) (g : Good T0 c) :
    Good T0 ((LazyC.cur C).next c) ∧ ((LazyC.cur C).next c).fresh = c.fresh := by
  obtain ⟨fresh, pos⟩ := c
  cases pos with
  | first =>
    exact good_settle _ _ _ (Or.inr rfl) g.1
      (step_good hT C.next hT.next (step_good hT C.first hT.first g.1))
  | last => exact ⟨g, rfl⟩
  | inst s => exact good_settle _ _ _ (Or.inr rfl) g.1 (step_good hT C.next hT.next g.2)

theorem lazy_prev (hT : Resets C T0) (c : LazyS C) (g : Good T0 c) :
    Good T0 ((LazyC.cur C).prev c) ∧ ((LazyC.cur C).prev c).fresh = c.fresh := by
  obtain ⟨fresh, pos⟩ := c
  cases pos with
  | first => exact ⟨g, rfl⟩
  | last =>
    exact good_settle _ _ _ (Or.inl rfl) g.1
      (step_good hT C.prev hT.prev (step_good hT C.last hT.last g.1))
  | inst s => exact good_settle _ _ _ (Or.inl rfl) g.1 (step_good hT C.prev hT.prev g.2)

theorem lazy_seek (hT : Resets C T0) (p : E → Bool) (c : LazyS C) (g : Good T0 c) :
    Good T0 ((LazyC.cur C).seek p c) ∧ ((LazyC.cur C).seek p c).fresh = c.fresh :=
  good_settle _ _ _ (Or.inr rfl) g.1 (step_good hT (C.seek p) (hT.seek p) (src_good c g))

theorem lazy_ok (c : LazyS C) : (LazyC.cur C).ok c = C.ok (src c) := by
  obtain ⟨fresh, pos⟩ := c
  cases pos <;> rfl

/-- a lazy cursor over a child whose positioning operations forget the position forgets it too -/
theorem resets_lazy (hT : Resets C T0) : Resets (LazyC.cur C) (LazyT T0) where
  symm := fun h => ⟨h.1.symm, h.2.2, h.2.1⟩
  trans := fun h1 h2 => ⟨h1.1.trans h2.1, h1.2.1, h2.2.2⟩
  first := fun c h => ⟨rfl, h.2.1, ⟨h.2.1.1, trivial⟩⟩
  last := fun c h => ⟨rfl, h.2.1, ⟨h.2.1.1, trivial⟩⟩
  next := fun c h => ⟨(lazy_next hT c h.2.1).2.symm, h.2.1, (lazy_next hT c h.2.1).1⟩
  prev := fun c h => ⟨(lazy_prev hT c h.2.1).2.symm, h.2.1, (lazy_prev hT c h.2.1).1⟩
  seek := fun p c h => ⟨(lazy_seek hT p c h.2.1).2.symm, h.2.1, (lazy_seek hT p c h.2.1).1⟩
  first_eq := fun {c d} h => by
    obtain ⟨f1, p1⟩ := c; obtain ⟨f2, p2⟩ := d
    have e : f1 = f2 := h.1
    subst e; rfl
  last_eq := fun {c d} h => by
    obtain ⟨f1, p1⟩ := c; obtain ⟨f2, p2⟩ := d
    have e : f1 = f2 := h.1
    subst e; rfl
  seek_eq := fun p {c d} h => by
    have hs : C.seek p (src c) = C.seek p (src d) :=
      hT.seek_eq p (hT.trans (src_good c h.2.1) (by rw [h.1]; exact hT.symm (src_good d h.2.2)))
    obtain ⟨f1, p1⟩ := c; obtain ⟨f2, p2⟩ := d
    have e : f1 = f2 := h.1
    subst e
    show LazyC.settle C ⟨f1, p1⟩ (C.seek p (src ⟨f1, p1⟩)) .last = LazyC.settle C ⟨f1, p2⟩ (C.seek p (src ⟨f1, p2⟩)) .last
    rw [hs]
    unfold LazyC.settle
    split <;> rfl
  ok_eq := fun {c d} h => by
    refine (lazy_ok c).trans (Eq.trans ?_ (lazy_ok d).symm)
    exact hT.ok_eq (hT.trans (src_good c h.2.1) (by rw [h.1]; exact hT.symm (src_good d h.2.2)))

/-- lazy cursors over tables as `LazyCursor::new` leaves them are well formed -/
theorem lazyT_new (xs : List E) (q : Nat) :
    LazyT (C := RefCur E) (fun a b => a.xs = b.xs) ⟨⟨xs, q⟩, .first⟩ ⟨⟨xs, q⟩, .first⟩ :=
  ⟨rfl, ⟨rfl, trivial⟩, ⟨rfl, trivial⟩⟩

end LazyEff

namespace ConcatEff

def RelL {α : Type} (T : α → α → Prop) (cs ds : List α) : Prop :=
  cs.length = ds.length ∧ ∀ (i : Nat) (c d : α), cs[i]? = some c → ds[i]? = some d → T c d

variable (C : Cur E)

theorem length_modifyAt (cs : List C.σ) (i : Nat) (f : C.σ → C.σ) :
    (ConcatC.modifyAt C cs i f).length = cs.length := by
  unfold ConcatC.modifyAt
  cases cs[i]? <;> simp

theorem getElem?_modifyAt (cs : List C.σ) (i j : Nat) (f : C.σ → C.σ) :
    (ConcatC.modifyAt C cs i f)[j]? = if i = j then (cs[j]?).map f else cs[j]? := by
  unfold ConcatC.modifyAt
  cases hc : cs[i]? with
  | none =>
    simp only
    by_cases h : i = j
    · subst h; rw [if_pos rfl, hc]; rfl
    · rw [if_neg h]
  | some c =>
    simp only
    have hi : i < cs.length := by
      rcases List.getElem?_eq_some_iff.mp hc with ⟨h, _⟩; exact h
    rw [List.getElem?_set]
    by_cases h : i = j
    · subst h; rw [if_pos rfl, if_pos rfl, if_pos hi, hc]; rfl
    · rw [if_neg h, if_neg h]

variable {C} {T : C.σ → C.σ → Prop}

theorem relL_refl (cs : List C.σ) (hg : ∀ c ∈ cs, T c c) : RelL T cs cs :=
  ⟨rfl, fun i c d hc hd => by rw [hc] at hd; cases hd; exact hg c (List.mem_of_getElem? hc)⟩

/-- the right-hand list of a related pair is related to itself -/
theorem relL_right (hT : Resets C T) {cs cs0 : List C.σ} (h : RelL T cs cs0) : RelL T cs0 cs0 :=
  ⟨rfl, fun i c d hc hd => by
    rw [hc] at hd; cases hd
    have hi : i < cs.length := by
      rcases List.getElem?_eq_some_iff.mp hc with ⟨hh, _⟩; rw [h.1]; exact hh
    exact hT.right (h.2 i _ c (List.getElem?_eq_getElem hi) hc)⟩

theorem relL_modifyAt_left {cs cs0 : List C.σ} (hT : Resets C T) (h : RelL T cs cs0) (i : Nat)
    (f : C.σ → C.σ) (hf : ∀ c, T c c → T c (f c)) : RelL T (ConcatC.modifyAt C cs i f) cs0 := by
  refine ⟨by rw [length_modifyAt, h.1], ?_⟩
  intro j c d hc hd
  rw [getElem?_modifyAt] at hc
  by_cases e : i = j
  · rw [if_pos e] at hc
    cases hc' : cs[j]? with
    | none => rw [hc'] at hc; simp at hc
    | some c1 =>
      rw [hc'] at hc
      simp only [Option.map_some, Option.some.injEq] at hc
      subst hc
      exact hT.trans (hT.symm (hf c1 (hT.left (h.2 j c1 d hc' hd)))) (h.2 j c1 d hc' hd)
  · rw [if_neg e] at hc; exact h.2 j c d hc hd

/-- two lists in the class of `cs0` agree, index by index, after a positioning operation -/
theorem map_eq_of_relL {cs ds cs0 : List C.σ} (hT : Resets C T) (h1 : RelL T cs cs0) (h2 : RelL T ds cs0)
    {β : Type} (g : C.σ → β) (hg : ∀ c d, T c d → g c = g d) (i : Nat) :
    (cs[i]?).map g = (ds[i]?).map g := by
  by_cases hi : i < cs0.length
  · have hc : i < cs.length := by rw [h1.1]; exact hi
    have hd : i < ds.length := by rw [h2.1]; exact hi
    rw [List.getElem?_eq_getElem hc, List.getElem?_eq_getElem hd]
    simp only [Option.map_some, Option.some.injEq]
    have t1 := h1.2 i _ _ (List.getElem?_eq_getElem hc) (List.getElem?_eq_getElem hi)
    have t2 := h2.2 i _ _ (List.getElem?_eq_getElem hd) (List.getElem?_eq_getElem hi)
    exact hg _ _ (hT.trans t1 (hT.symm t2))
  · have hc : cs[i]? = none := List.getElem?_eq_none_iff.mpr (by rw [h1.1]; omega)
    have hd : ds[i]? = none := List.getElem?_eq_none_iff.mpr (by rw [h2.1]; omega)
    rw [hc, hd]

/-! ### the operations keep every child in its class -/

theorem reposition_of_eq (m : ConcatC C) (idx : Nat) (h : m.position = idx) :
    ConcatC.reposition C m idx = m := by
  unfold ConcatC.reposition; rw [if_neg (fun hn => hn h)]

theorem reposition_of_ne (m : ConcatC C) (idx : Nat) (h : m.position ≠ idx) :
    ConcatC.reposition C m idx = ⟨ConcatC.modifyAt C m.cs m.position C.first, idx⟩ := by
  unfold ConcatC.reposition; rw [if_pos h]

theorem reposition_position (m : ConcatC C) (idx : Nat) : (ConcatC.reposition C m idx).position = idx := by
  by_cases h : m.position = idx
  · rw [reposition_of_eq m idx h]; exact h
  · rw [reposition_of_ne m idx h]

theorem reposition_inv (hT : Resets C T) {cs0 : List C.σ} (m : ConcatC C) (idx : Nat)
    (h : RelL T m.cs cs0) : RelL T (ConcatC.reposition C m idx).cs cs0 := by
  by_cases e : m.position = idx
  · rw [reposition_of_eq m idx e]; exact h
  · rw [reposition_of_ne m idx e]; exact relL_modifyAt_left hT h _ _ hT.first

/-- the simulation: same active index, same active child, every child in the class of `cs0` -/
structure Sim (T : C.σ → C.σ → Prop) (cs0 : List C.σ) (s m : ConcatC C) : Prop where
  pos : s.position = m.position
  act : s.cs[s.position]? = m.cs[m.position]?
  invS : RelL T s.cs cs0
  invM : RelL T m.cs cs0

theorem Sim.kv {cs0 : List C.σ} {s m : ConcatC C} (h : Sim T cs0 s m) : ConcatC.kv C s = ConcatC.kv C m := by
  unfold ConcatC.kv; rw [h.act]

theorem Sim.ok (hT : Resets C T) {cs0 : List C.σ} {s m : ConcatC C} (h : Sim T cs0 s m) :
    s.cs.all C.ok = m.cs.all C.ok := by
  have e : s.cs.map C.ok = m.cs.map C.ok := by
    apply List.ext_getElem?
    intro i
    rw [List.getElem?_map, List.getElem?_map]
    exact map_eq_of_relL hT h.invS h.invM C.ok (fun _ _ t => hT.ok_eq t) i
  have a : ∀ l : List C.σ, l.all C.ok = (l.map C.ok).all id := by
    intro l; rw [List.all_map]; rfl
  rw [a, a, e]

/-- activating the child at index `p` with a positioning operation: whatever state it was in -/
theorem sim_activate (hT : Resets C T) {cs0 : List C.σ} (s m : ConcatC C) (hp : s.position = m.position)
    (hs : RelL T s.cs cs0) (hm : RelL T m.cs cs0) (g : C.σ → C.σ) (hg : ∀ c, T c c → T c (g c))
    (hge : ∀ c d, T c d → g c = g d) :
    Sim T cs0 ⟨ConcatC.modifyAt C s.cs s.position g, s.position⟩
      ⟨ConcatC.modifyAt C m.cs m.position g, m.position⟩ where
  pos := hp
  act := by
    show (ConcatC.modifyAt C s.cs s.position g)[s.position]? = (ConcatC.modifyAt C m.cs m.position g)[m.position]?
    rw [getElem?_modifyAt, getElem?_modifyAt, if_pos rfl, if_pos rfl, hp]
    exact map_eq_of_relL hT hs hm g hge _
  invS := relL_modifyAt_left hT hs _ _ hg
  invM := relL_modifyAt_left hT hm _ _ hg

/-- moving the active child -/
theorem sim_move (hT : Resets C T) {cs0 : List C.σ} {s m : ConcatC C} (h : Sim T cs0 s m)
    (g : C.σ → C.σ) (hg : ∀ c, T c c → T c (g c)) :
    Sim T cs0 ⟨ConcatC.modifyAt C s.cs s.position g, s.position⟩
      ⟨ConcatC.modifyAt C m.cs m.position g, m.position⟩ where
  pos := h.pos
  act := by
    show (ConcatC.modifyAt C s.cs s.position g)[s.position]? = (ConcatC.modifyAt C m.cs m.position g)[m.position]?
    rw [getElem?_modifyAt, getElem?_modifyAt, if_pos rfl, if_pos rfl, h.act]
  invS := relL_modifyAt_left hT h.invS _ _ hg
  invM := relL_modifyAt_left hT h.invM _ _ hg

/-- `reposition(idx)` followed by a positioning operation on the new active child -/
theorem sim_repos_activate (hT : Resets C T) {cs0 : List C.σ} (s m : ConcatC C) (idx : Nat)
    (hs : RelL T s.cs cs0) (hm : RelL T m.cs cs0) (g : C.σ → C.σ) (hg : ∀ c, T c c → T c (g c))
    (hge : ∀ c d, T c d → g c = g d) :
    Sim T cs0
      ⟨ConcatC.modifyAt C (ConcatC.reposition C s idx).cs (ConcatC.reposition C s idx).position g,
        (ConcatC.reposition C s idx).position⟩
      ⟨ConcatC.modifyAt C (ConcatC.reposition C m idx).cs (ConcatC.reposition C m idx).position g,
        (ConcatC.reposition C m idx).position⟩ :=
  sim_activate hT _ _ ((reposition_position s idx).trans (reposition_position m idx).symm)
    (reposition_inv hT s idx hs) (reposition_inv hT m idx hm) g hg hge

theorem sim_first (hT : Resets C T) {cs0 : List C.σ} {s m : ConcatC C} (h : Sim T cs0 s m) :
    Sim T cs0 (ConcatC.seekToFirst C s) (ConcatC.seekToFirst C m) :=
  sim_repos_activate hT s m 0 h.invS h.invM C.first hT.first (fun _ _ t => hT.first_eq t)

theorem sim_last (hT : Resets C T) {cs0 : List C.σ} {s m : ConcatC C} (h : Sim T cs0 s m) :
    Sim T cs0 (ConcatC.seekToLast C s) (ConcatC.seekToLast C m) := by
  have hl : s.cs.length = m.cs.length := h.invS.1.trans h.invM.1.symm
  unfold ConcatC.seekToLast
  simp only [hl]
  exact sim_repos_activate hT s m (m.cs.length - 1) h.invS h.invM C.last hT.last (fun _ _ t => hT.last_eq t)

theorem sim_nextLoop (hT : Resets C T) {cs0 : List C.σ} : ∀ (n : Nat) {s m : ConcatC C}, Sim T cs0 s m →
    Sim T cs0 (ConcatC.nextLoop C n s) (ConcatC.nextLoop C n m) := by
  intro n
  induction n with
  | zero => intro s m h; exact h
  | succ n ih =>
    intro s m h
    have h1 := sim_move hT h C.next hT.next
    have hl : (ConcatC.modifyAt C s.cs s.position C.next).length = (ConcatC.modifyAt C m.cs m.position C.next).length :=
      h1.invS.1.trans h1.invM.1.symm
    simp only [ConcatC.nextLoop]
    rw [h1.kv, hl, h.pos]
    split
    · apply ih
      have := sim_repos_activate hT
        (⟨ConcatC.modifyAt C s.cs s.position C.next, s.position⟩ : ConcatC C)
        ⟨ConcatC.modifyAt C m.cs m.position C.next, m.position⟩ (m.position + 1)
        h1.invS h1.invM C.first hT.first (fun _ _ t => hT.first_eq t)
      rw [h.pos] at this
      exact this
    · have h1' := h1
      rw [h.pos] at h1'
      exact h1'

theorem sim_prevLoop (hT : Resets C T) {cs0 : List C.σ} : ∀ (n : Nat) {s m : ConcatC C}, Sim T cs0 s m →
    Sim T cs0 (ConcatC.prevLoop C n s) (ConcatC.prevLoop C n m) := by
  intro n
  induction n with
  | zero => intro s m h; exact h
  | succ n ih =>
    intro s m h
    have h1 := sim_move hT h C.prev hT.prev
    simp only [ConcatC.prevLoop]
    rw [h1.kv, h.pos]
    split
    · apply ih
      have := sim_repos_activate hT
        (⟨ConcatC.modifyAt C s.cs s.position C.prev, s.position⟩ : ConcatC C)
        ⟨ConcatC.modifyAt C m.cs m.position C.prev, m.position⟩ (m.position - 1)
        h1.invS h1.invM C.last hT.last (fun _ _ t => hT.last_eq t)
      rw [h.pos] at this
      exact this
    · have h1' := h1
      rw [h.pos] at h1'
      exact h1'

/-! ### the probes -/

/-- the state just after probing child `p`: it is the active child and sits on its last entry -/
structure Probed (T : C.σ → C.σ → Prop) (cs0 : List C.σ) (s : ConcatC C) (p : Nat) : Prop where
  pos : s.position = p
  inv : RelL T s.cs cs0
  at_last : s.cs[p]? = (cs0[p]?).map (fun c => C.prev (C.last c))

theorem probe_spec (hT : Resets C T) {cs0 : List C.σ} (s : ConcatC C) (p : Nat) (h : RelL T s.cs cs0) :
    Probed T cs0 (ConcatS.probe C s p) p where
  pos := reposition_position s p
  inv := relL_modifyAt_left hT (reposition_inv hT s p h) _ _
    (fun c hc => hT.trans (hT.last c hc) (hT.prev _ (hT.right (hT.last c hc))))
  at_last := by
    show (ConcatC.modifyAt C (ConcatC.reposition C s p).cs (ConcatC.reposition C s p).position
      (fun c => C.prev (C.last c)))[p]? = _
    rw [reposition_position, getElem?_modifyAt, if_pos rfl]
    exact map_eq_of_relL hT (reposition_inv hT s p h) (relL_right hT h) _
      (fun c d t => by rw [hT.last_eq t]) p

theorem Probed.kv {cs0 : List C.σ} {s : ConcatC C} {p : Nat} (h : Probed T cs0 s p) {c0 : C.σ}
    (hc : cs0[p]? = some c0) : ConcatC.kv C s = ConcatC.peekLast C c0 := by
  unfold ConcatC.kv ConcatC.peekLast
  rw [h.pos, h.at_last, hc]; rfl

/-- the walk over empty children answers what `probeDown` answers on the untouched children -/
theorem walkDown_spec (hT : Resets C T) {cs0 : List C.σ} (left : Nat) : ∀ (p : Nat) (s : ConcatC C),
    Probed T cs0 s p → p < cs0.length →
      RelL T (ConcatS.walkDown C left p s).1.cs cs0 ∧ (ConcatS.walkDown C left p s).2 ≤ p ∧
      (match ConcatC.probeDown C cs0 left p with
        | some (j, e) => (ConcatS.walkDown C left p s).2 = j ∧ ConcatC.kv C (ConcatS.walkDown C left p s).1 = some e
        | none => ConcatC.kv C (ConcatS.walkDown C left p s).1 = none) := by
  intro p
  induction p with
  | zero =>
    intro s h hlt
    have hc : cs0[0]? = some cs0[0] := List.getElem?_eq_getElem hlt
    rw [ConcatC.probeDown_eq, hc]
    simp only [ConcatS.walkDown]
    refine ⟨h.inv, Nat.le_refl _, ?_⟩
    rw [h.kv hc]
    cases ConcatC.peekLast C cs0[0] with
    | some e => first | exact ⟨rfl, rfl⟩ | exact ⟨trivial, rfl⟩ | simp
    | none => simp
  | succ p ih =>
    intro s h hlt
    have hc : cs0[p + 1]? = some cs0[p + 1] := List.getElem?_eq_getElem hlt
    rw [ConcatC.probeDown_eq, hc]
    simp only [ConcatS.walkDown]
    rw [h.kv hc]
    cases hpk : ConcatC.peekLast C cs0[p + 1] with
    | some e =>
      simp only [Option.isNone_some, Bool.and_false, Bool.false_eq_true, if_false]
      refine ⟨h.inv, Nat.le_refl _, trivial, ?_⟩
      first | rw [h.kv hc, hpk] | trivial
    | none =>
      simp only [Option.isNone_none, Bool.and_true, decide_eq_true_eq, Nat.add_sub_cancel]
      by_cases hl : left < p + 1
      · rw [if_pos hl, if_pos hl]
        obtain ⟨a, b, c⟩ := ih (ConcatS.probe C s p) (probe_spec hT s p h.inv) (by omega)
        exact ⟨a, by omega, c⟩
      · rw [if_neg hl, if_neg hl]
        refine ⟨h.inv, Nat.le_refl _, ?_⟩
        show ConcatC.kv C s = none
        rw [h.kv hc, hpk]

/-- the binary search with side effects finds the index the functional search finds, and leaves
    every child in its class -/
theorem searchLoop_spec (hT : Resets C T) {cs0 : List C.σ} (pred : E → Bool) : ∀ (f : Nat) (s : ConcatC C) (l r : Nat),
    RelL T s.cs cs0 → (r < cs0.length ∨ r ≤ l) →
      RelL T (ConcatS.searchLoop C pred f s l r).1.cs cs0 ∧
      (ConcatS.searchLoop C pred f s l r).2 = ConcatC.searchLoop C cs0 pred f l r := by
  intro f
  induction f with
  | zero => intro s l r h _; exact ⟨h, rfl⟩
  | succ f ih =>
    intro s l r h hr
    simp only [ConcatS.searchLoop, ConcatC.searchLoop]
    by_cases hlr : l < r
    · rw [if_pos hlr, if_pos hlr]
      have hrl : r < cs0.length := by omega
      have hmid : (l + r) / 2 < cs0.length := by omega
      obtain ⟨w1, w2, w3⟩ := walkDown_spec hT l ((l + r) / 2) (ConcatS.probe C s ((l + r) / 2))
        (probe_spec hT s _ h) hmid
      cases hpd : ConcatC.probeDown C cs0 l ((l + r) / 2) with
      | none =>
        rw [hpd] at w3
        simp only at w3 ⊢
        rw [w3]
        exact ih _ _ _ w1 (Or.inl hrl)
      | some je =>
        obtain ⟨j, e⟩ := je
        rw [hpd] at w3
        simp only at w3 ⊢
        rw [w3.2]
        simp only
        by_cases hp : pred e = true
        · rw [if_pos hp, if_pos hp, w3.1]
          exact ih _ _ _ w1 (Or.inl (by omega))
        · rw [if_neg hp, if_neg hp]
          exact ih _ _ _ w1 (Or.inl hrl)
    · rw [if_neg hlr, if_neg hlr]; exact ⟨h, rfl⟩

theorem sim_seek (hT : Resets C T) {cs0 : List C.σ} (pred : E → Bool) {s m : ConcatC C} (h : Sim T cs0 s m) :
    Sim T cs0 (ConcatS.seek C pred s) (ConcatC.seek C pred m) := by
  have hl : s.cs.length = m.cs.length := h.invS.1.trans h.invM.1.symm
  have hsm : RelL T s.cs m.cs := ⟨hl, fun i c d hc hd => by
    have hi : i < cs0.length := by
      rcases List.getElem?_eq_some_iff.mp hd with ⟨hh, _⟩; rw [← h.invM.1]; exact hh
    exact hT.trans (h.invS.2 i c _ hc (List.getElem?_eq_getElem hi))
      (hT.symm (h.invM.2 i d _ hd (List.getElem?_eq_getElem hi)))⟩
  have hrange : m.cs.length - 1 < m.cs.length ∨ m.cs.length - 1 ≤ 0 := by omega
  obtain ⟨x1, x2⟩ := searchLoop_spec hT (cs0 := m.cs) pred (m.cs.length + 1) s 0 (m.cs.length - 1) hsm hrange
  have x1' : RelL T (ConcatS.searchLoop C pred (m.cs.length + 1) s 0 (m.cs.length - 1)).1.cs cs0 :=
    ⟨x1.1.trans h.invM.1, fun i c d hc hd => by
      have hi : i < m.cs.length := by
        rcases List.getElem?_eq_some_iff.mp hd with ⟨hh, _⟩; rw [h.invM.1]; exact hh
      exact hT.trans (x1.2 i c _ hc (List.getElem?_eq_getElem hi))
        (h.invM.2 i _ d (List.getElem?_eq_getElem hi) hd)⟩
  unfold ConcatS.seek ConcatC.seek
  simp only [hl, x2]
  exact sim_repos_activate hT _ m _ x1' h.invM (C.seek pred) (hT.seek pred) (fun _ _ t => hT.seek_eq pred t)

theorem sim_step (hT : Resets C T) {cs0 : List C.σ} {s m : ConcatC C} (h : Sim T cs0 s m) (op : Op E) :
    Sim T cs0 ((ConcatS.cur C).step s op) ((ConcatC.cur C).step m op) := by
  cases op with
  | first => exact sim_first hT h
  | last => exact sim_last hT h
  | next =>
    show Sim T cs0 (ConcatC.nextLoop C (s.cs.length + 1) s) (ConcatC.nextLoop C (m.cs.length + 1) m)
    rw [h.invS.1.trans h.invM.1.symm]; exact sim_nextLoop hT _ h
  | prev =>
    show Sim T cs0 (ConcatC.prevLoop C (s.cs.length + 1) s) (ConcatC.prevLoop C (m.cs.length + 1) m)
    rw [h.invS.1.trans h.invM.1.symm]; exact sim_prevLoop hT _ h
  | seek p => exact sim_seek hT p h

theorem sim_beh (hT : Resets C T) {cs0 : List C.σ} (ops : List (Op E)) : ∀ {s m : ConcatC C}, Sim T cs0 s m →
    (ConcatS.cur C).beh s ops = (ConcatC.cur C).beh m ops := by
  induction ops with
  | nil =>
    intro s m h
    exact Prod.ext h.kv (h.ok hT)
  | cons op ops ih =>
    intro s m h
    exact ih (sim_step hT h op)

end ConcatEff

open ConcatEff in
/-- **The probes' side effects are invisible.**  For every child cursor whose positioning
    operations forget the position (`Resets`), every state and EVERY program (no admissibility
    condition on the seek predicates), the concatenating cursor that performs the probes of `seek`
    on the children (`ConcatS`, as the code does) and the one that only reads their answers
    (`ConcatC`) show the same entry and the same error flag after every call. -/
theorem concat_seek_effects_invisible {C : Cur E} {T : C.σ → C.σ → Prop} (hT : Resets C T)
    (m : ConcatC C) (hm : ∀ c ∈ m.cs, T c c) (ops : List (Op E)) :
    (ConcatS.cur C).beh m ops = (ConcatC.cur C).beh m ops :=
  sim_beh hT ops (cs0 := m.cs) ⟨rfl, rfl, relL_refl _ hm, relL_refl _ hm⟩

open ConcatEff in
/-- the invariant behind it, as a statement about the two runs: after any program the two cursors
    have the same active index and the same active child, and every other child is a state of the
    same table as it was initially — its position is never read before `seek_to_first`,
    `seek_to_last` or `seek` re-positions it. -/
theorem concat_seek_effects_invariant {C : Cur E} {T : C.σ → C.σ → Prop} (hT : Resets C T)
    (m : ConcatC C) (hm : ∀ c ∈ m.cs, T c c) (ops : List (Op E)) :
    let s := (ConcatS.cur C).runTo m ops
    let c := (ConcatC.cur C).runTo m ops
    s.position = c.position ∧ s.cs[s.position]? = c.cs[c.position]? ∧
      RelL T s.cs m.cs ∧ RelL T c.cs m.cs := by
  have : ∀ (ops : List (Op E)) {s c : ConcatC C}, Sim T m.cs s c →
      Sim T m.cs ((ConcatS.cur C).runTo s ops) ((ConcatC.cur C).runTo c ops) := by
    intro ops
    induction ops with
    | nil => intro s c h; exact h
    | cons op ops ih => intro s c h; exact ih (sim_step hT h op)
  have h := this ops (s := m) (c := m) ⟨rfl, rfl, relL_refl _ hm, relL_refl _ hm⟩
  exact ⟨h.pos, h.act, h.invS, h.invM⟩

/-- over reference children, as constructed by `new`: `ConcatS` shows the reference cursor over the
    concatenation (composition with `concat_over`/`concat_refines`) -/
theorem concatS_refines {A : (E → Bool) → Prop} (rs : List (Ref E)) (hne : 0 < rs.length)
    (hA : ∀ pred, A pred → PredMono (rs.map (·.xs)) pred) :
    BehEq A (ConcatS.cur (RefCur E)) (ConcatC.new (RefCur E) rs) (RefCur E) ⟨(rs.map (·.xs)).flatten, 0⟩ := by
  intro ops ha
  rw [concat_seek_effects_invisible resets_ref _ (fun _ _ => rfl)]
  exact concat_over (A := A) (C := RefCur E) rs rs hne hA rfl ops ha

/-- a lazy cursor over the table `xs`, as `LazyCursor::new` leaves it -/
def lazyKid (xs : List E) : (LazyC.cur (RefCur E)).σ := ⟨⟨xs, 0⟩, .first⟩

open ConcatEff LazyEff in
/-- the shape the tree builds for a level, `Concat(Lazy(file))`: with the probes' side effects on
    the lazy children, every admissible program shows the reference cursor over the concatenation -/
theorem concatS_lazy_refines {A : (E → Bool) → Prop} (tables : List (List E)) (hne : 0 < tables.length)
    (hA : ∀ pred, A pred → PredMono tables pred) :
    BehEq A (ConcatS.cur (LazyC.cur (RefCur E)))
      (ConcatC.new (LazyC.cur (RefCur E)) (tables.map lazyKid))
      (RefCur E) ⟨tables.flatten, 0⟩ := by
  intro ops ha
  have e : (tables.map (fun xs => (⟨xs, 0⟩ : Ref E))).map (·.xs) = tables := by
    simp [List.map_map, Function.comp_def]
  have hgood : ∀ c ∈ (ConcatC.new (LazyC.cur (RefCur E))
      (tables.map lazyKid)).cs,
      LazyT (C := RefCur E) (fun a b => a.xs = b.xs) c c := by
    have h0 : ∀ c ∈ tables.map lazyKid,
        LazyT (C := RefCur E) (fun a b => a.xs = b.xs) c c := by
      intro c hc
      rcases List.mem_map.mp hc with ⟨xs, _, rfl⟩
      exact lazyT_new xs 0
    have hr := relL_modifyAt_left (resets_lazy resets_ref) (relL_refl _ h0) 0
      (LazyC.cur (RefCur E)).first (resets_lazy (resets_ref (E := E))).first
    intro c hc
    obtain ⟨i, hi⟩ := List.getElem?_of_mem hc
    have hlt : i < (tables.map lazyKid).length := by
      rcases List.getElem?_eq_some_iff.mp hi with ⟨hh, _⟩
      exact Nat.lt_of_lt_of_eq hh hr.1
    exact (resets_lazy resets_ref).left (hr.2 i c _ hi (List.getElem?_eq_getElem hlt))
  rw [concat_seek_effects_invisible (resets_lazy resets_ref) _ hgood]
  have hbeh : (tables.map lazyKid).map (behA A (LazyC.cur (RefCur E)))
      = (tables.map (fun xs => (⟨xs, 0⟩ : Ref E))).map (behA A (RefCur E)) := by
    rw [List.map_map, List.map_map]
    apply List.map_congr_left
    intro xs _
    exact behA_eq_of_behEq (lazy_over (A := A) xs (C := RefCur E) (c := ⟨xs, 0⟩) (fun _ _ => rfl))
  have h := concat_over (A := A) (C := LazyC.cur (RefCur E)) _ (tables.map (fun xs => (⟨xs, 0⟩ : Ref E)))
    (by simpa using hne) (by rw [e]; exact hA) hbeh ops ha
  rw [e] at h
  exact h

/-- the probes DO move the children: children `[1] [2] [3] [4]`, each sitting on its entry, child 0
    active; `seek(≥ 3)` probes child 1 (answer 2: too small), then child 2 (answer 3).  Under
    `ConcatS` child 1 has been through `seek_to_last; prev` and then `seek_to_first` (when the
    search left it): it ends at position 0; under `ConcatC` it is never touched and stays at 1.
    The states differ, the observations agree. -/
theorem concatS_state_differs :
    let m0 : ConcatC (RefCur Nat) := ⟨[⟨[1], 1⟩, ⟨[2], 1⟩, ⟨[3], 1⟩, ⟨[4], 1⟩], 0⟩
    let s := ConcatS.seek (RefCur Nat) (fun e => decide (e ≥ 3)) m0
    let c := ConcatC.seek (RefCur Nat) (fun e => decide (e ≥ 3)) m0
    (s.cs.map (·.pos), s.position) = ([0, 0, 1, 1], 2) ∧ (c.cs.map (·.pos), c.position) = ([0, 1, 1, 1], 2)
      ∧ ConcatC.kv (RefCur Nat) s = some 3 ∧ ConcatC.kv (RefCur Nat) c = some 3 := by
  decide +kernel

end Blue.Cursor

#print axioms Blue.Cursor.concat_seek_effects_invisible
#print axioms Blue.Cursor.concat_seek_effects_invariant
#print axioms Blue.Cursor.concatS_refines
#print axioms Blue.Cursor.concatS_lazy_refines
#print axioms Blue.Cursor.LazyEff.resets_lazy
#print axioms Blue.Cursor.concatS_state_differs
