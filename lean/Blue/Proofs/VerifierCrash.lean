import Blue.Proofs.Verifier
/-! Crash safety of the verifier model: a pass cut after any number of its durable actions and
    then restarted ends where the uninterrupted pass ends — up to the execution of a pending
    intent (`finish`), which is what the next pass with an entry does first.

    The proof goes through an abstract pass over directories with nothing pending (`absStep`: check
    an entry, and if it passes, take its names out of `trash/` and the fragment out of `mani/` in
    one step).  `finish_finalFrom`: the real pass followed by `finish` is the abstract pass from
    `finish` of the start.  `good_prefix`: after every prefix of the real pass, `finish` of the
    directory is a point on the abstract pass. -/
namespace Blue.Verifier
open Blue.Mani

variable {A : Type}

theorem Dir.ext' {a b : Dir A} (h1 : a.sst = b.sst) (h2 : a.trash = b.trash) (h3 : a.frags = b.frags)
    (h4 : a.live = b.live) (h5 : a.vstrs = b.vstrs) (h6 : a.vM = b.vM) (h7 : a.vO = b.vO)
    (h8 : a.done = b.done) : a = b := by
  cases a; cases b; simp_all

/-- the fragments are in ascending order of their numbers, no number twice -/
def Sorted (d : Dir A) : Prop := d.frags.Pairwise (fun a b => a.1 < b.1)

/-- without an `M` in `verify/` nothing is logged there (both arrive in one edit) -/
def NoneEmpty (d : Dir A) : Prop := d.vM = none → d.vstrs = []

/-! ### list facts -/

theorem filter_ne_head (n : Nat) (es : List Edit) (l : List (Nat × List Edit))
    (h : ∀ f, f ∈ l → n < f.1) : ((n, es) :: l).filter (fun f => f.1 != n) = l := by
  rw [List.filter_cons]
  have : ((n, es).1 != n) = false := by simp
  rw [this]
  simp only [Bool.false_eq_true, if_false]
  exact List.filter_eq_self.mpr (fun f hf => by
    have := h f hf
    simp only [bne_iff_ne, ne_eq]
    omega)

theorem filter_ne_absent (m : Nat) (l : List (Nat × List Edit)) (h : ∀ f, f ∈ l → f.1 ≠ m) :
    l.filter (fun f => f.1 != m) = l :=
  List.filter_eq_self.mpr (fun f hf => by simp only [bne_iff_ne, ne_eq]; exact h f hf)

theorem filter_not_contains_nil (l : List Name) : l.filter (fun x => !([] : List Name).contains x) = l :=
  List.filter_eq_self.mpr (fun _ _ => rfl)

/-! ### `finish` -/

/-- the fragments `finish` leaves -/
def fragsAfter (v : Option Nat) (l : List (Nat × List Edit)) : List (Nat × List Edit) :=
  match v with
  | some m => l.filter (fun f => f.1 != m)
  | none => l

theorem finish_frags (d : Dir A) : (finish d).frags = fragsAfter d.vM d.frags := rfl
theorem finish_vM (d : Dir A) : (finish d).vM = d.vM := rfl
theorem finish_vO (d : Dir A) : (finish d).vO = d.vO := rfl
theorem finish_vstrs (d : Dir A) : (finish d).vstrs = [] := rfl
theorem finish_trash (d : Dir A) : (finish d).trash = d.trash.filter (fun x => !d.vstrs.contains x) := rfl

theorem fragsAfter_idem (v : Option Nat) (l : List (Nat × List Edit)) : fragsAfter v (fragsAfter v l) = fragsAfter v l := by
  cases v with
  | none => rfl
  | some m =>
    show (l.filter (fun f => f.1 != m)).filter (fun f => f.1 != m) = l.filter (fun f => f.1 != m)
    rw [List.filter_filter]
    exact List.filter_congr (fun x _ => by simp)

theorem finish_idem (d : Dir A) : finish (finish d) = finish d := by
  apply Dir.ext' <;> try rfl
  · show (d.trash.filter (fun x => !d.vstrs.contains x)).filter (fun x => !([] : List Name).contains x) = _
    exact filter_not_contains_nil _
  · rw [finish_frags (finish d), finish_vM, finish_frags d]; exact fragsAfter_idem _ _

/-- `finish` of a directory with nothing logged and no fragment under the number `M` is the directory -/
theorem finish_clean (d : Dir A) (hv : d.vstrs = []) (hf : ∀ m, d.vM = some m → ∀ f, f ∈ d.frags → f.1 ≠ m) :
    finish d = d := by
  apply Dir.ext' <;> try rfl
  · show d.trash.filter (fun x => !d.vstrs.contains x) = d.trash
    rw [hv]; exact filter_not_contains_nil _
  · show (match d.vM with | some m => d.frags.filter (fun (f : Nat × List Edit) => f.1 != m) | none => d.frags) = d.frags
    cases hm : d.vM with
    | none => rfl
    | some m => exact filter_ne_absent m _ (hf m hm)
  · exact hv.symm

theorem finish_unlinkFrag (d : Dir A) (n : Nat) (h : d.vM = some n) :
    finish (d.apply (Act.unlinkFrag n)) = finish d := by
  apply Dir.ext' <;> try rfl
  show (match d.vM with
      | some m => (d.frags.filter (fun (f : Nat × List Edit) => f.1 != n)).filter (fun (f : Nat × List Edit) => f.1 != m)
      | none => d.frags.filter (fun (f : Nat × List Edit) => f.1 != n)) = (match d.vM with | some m => d.frags.filter (fun (f : Nat × List Edit) => f.1 != m) | none => d.frags)
  rw [h]
  show (d.frags.filter (fun (f : Nat × List Edit) => f.1 != n)).filter (fun (f : Nat × List Edit) => f.1 != n) = d.frags.filter (fun (f : Nat × List Edit) => f.1 != n)
  rw [List.filter_filter]
  exact List.filter_congr (fun x _ => by simp)

theorem finish_unlinkTrash (d : Dir A) (x : Name) (h : x ∈ d.vstrs) :
    finish (d.apply (Act.unlinkTrash x)) = finish d := by
  apply Dir.ext' <;> try rfl
  show (d.trash.filter (fun y => y != x)).filter (fun y => !d.vstrs.contains y) = d.trash.filter (fun y => !d.vstrs.contains y)
  rw [List.filter_filter]
  apply List.filter_congr
  intro y _
  show (!d.vstrs.contains y && y != x) = !d.vstrs.contains y
  by_cases hy : y = x
  · subst hy
    have : d.vstrs.contains y = true := List.contains_iff_mem.mpr h
    rw [this]; rfl
  · have : (y != x) = true := by simp [hy]
    rw [this, Bool.and_true]

theorem finish_clear (d : Dir A) (h : ∀ x, x ∈ d.vstrs → x ∉ d.trash) :
    finish (d.apply Act.clear) = finish d := by
  apply Dir.ext' <;> try rfl
  show d.trash.filter (fun y => !([] : List Name).contains y) = d.trash.filter (fun y => !d.vstrs.contains y)
  rw [filter_not_contains_nil]
  symm
  apply List.filter_eq_self.mpr
  intro y hy
  cases hc : d.vstrs.contains y with
  | false => rfl
  | true => exact absurd hy (h y (List.contains_iff_mem.mp hc))

/-- every prefix of "unlink the logged names that are in `trash/`, then clear the log" is absorbed
    by `finish` and leaves `M`, `O`, the fragments and the history alone -/
theorem absorb_unlinks_clear : ∀ (U : List Name) (s : Dir A), (∀ x, x ∈ U → x ∈ s.vstrs) →
    (∀ x, x ∈ s.vstrs → x ∈ s.trash → x ∈ U) → ∀ j,
    finish (run s ((U.map Act.unlinkTrash ++ [Act.clear]).take j)) = finish s
      ∧ (run s ((U.map Act.unlinkTrash ++ [Act.clear]).take j)).vM = s.vM
      ∧ (run s ((U.map Act.unlinkTrash ++ [Act.clear]).take j)).frags = s.frags
  | _, s, _, _, 0 => ⟨rfl, rfl, rfl⟩
  | [], s, _, h2, j + 1 => by
    have : (([] : List Name).map Act.unlinkTrash ++ [Act.clear (A := A)]).take (j + 1) = [Act.clear] := by
      simp
    rw [this]
    exact ⟨finish_clear s (fun x hx ht => by cases h2 x hx ht), rfl, rfl⟩
  | x :: U, s, h1, h2, j + 1 => by
    have : ((x :: U).map Act.unlinkTrash ++ [Act.clear (A := A)]).take (j + 1)
        = Act.unlinkTrash x :: (U.map Act.unlinkTrash ++ [Act.clear]).take j := rfl
    rw [this, run_cons]
    have ih := absorb_unlinks_clear U (s.apply (Act.unlinkTrash x))
      (fun y hy => h1 y (List.mem_cons_of_mem _ hy))
      (fun y hy ht => by
        have ht' : y ∈ s.trash.filter (fun z => z != x) := ht
        rw [List.mem_filter] at ht'
        rcases List.mem_cons.mp (h2 y hy ht'.1) with h | h
        · subst h; simp at ht'
        · exact h) j
    exact ⟨ih.1.trans (finish_unlinkTrash s x (h1 x List.mem_cons_self)), ih.2.1, ih.2.2⟩

/-- the whole of it is `finish` itself, when no fragment carries the number `M` -/
theorem run_unlinks_clear (s : Dir A) (hf : ∀ m, s.vM = some m → ∀ f, f ∈ s.frags → f.1 ≠ m) :
    run s ((s.vstrs.filter (fun x => s.trash.contains x)).map Act.unlinkTrash ++ [Act.clear]) = finish s := by
  have h := absorb_unlinks_clear (s.vstrs.filter (fun x => s.trash.contains x)) s
    (fun x hx => (List.mem_filter.mp hx).1)
    (fun x hx ht => List.mem_filter.mpr ⟨hx, List.contains_iff_mem.mpr ht⟩)
    ((s.vstrs.filter (fun x => s.trash.contains x)).map Act.unlinkTrash ++ [Act.clear (A := A)]).length
  rw [List.take_of_length_le (Nat.le_refl _)] at h
  -- the result has nothing logged, so `finish` of it is itself
  have hv : (run s ((s.vstrs.filter (fun x => s.trash.contains x)).map Act.unlinkTrash ++ [Act.clear])).vstrs = [] := by
    rw [run_append]; rfl
  have hc := finish_clean (run s ((s.vstrs.filter (fun x => s.trash.contains x)).map Act.unlinkTrash ++ [Act.clear])) hv
    (fun m hm f hf' => by
      rw [h.2.1] at hm
      rw [h.2.2] at hf'
      exact hf m hm f hf')
  rw [← hc]; exact h.1

/-! ### the two ways `possibly_complete_processing` runs -/

structure Ctx (d : Dir A) (ents tl : List (Nat × List Edit)) : Prop where
  frags : d.frags = ents ++ tl
  sorted : Sorted d
  noneEmpty : NoneEmpty d

theorem completeActs_cases (d : Dir A) (n : Nat) (a1 : List (Act A)) (h : completeActs d n = some a1) :
    (d.vM = none ∧ a1 = []) ∨ (∃ m, d.vM = some m ∧ ¬ n < m ∧ a1 = completeList d m n) := by
  cases hm : d.vM with
  | none => rw [completeActs_none d n hm] at h; cases h; exact Or.inl ⟨rfl, rfl⟩
  | some m =>
    rw [completeActs_some d m n hm] at h
    by_cases hlt : n < m
    · rw [if_pos hlt] at h; cases h
    · rw [if_neg hlt] at h; cases h; exact Or.inr ⟨m, rfl, hlt, rfl⟩

theorem head_least {d : Dir A} {n : Nat} {es : List Edit} {rest tl : List (Nat × List Edit)}
    (hc : Ctx d ((n, es) :: rest) tl) : ∀ f, f ∈ rest ++ tl → n < f.1 := by
  have hs := hc.sorted
  unfold Sorted at hs
  rw [hc.frags, List.cons_append, List.pairwise_cons] at hs
  exact hs.1

/-- the entry is not the one whose intent is logged: what was pending (under a lower number, its
    fragment long gone) is completed; every prefix is absorbed by `finish`, the whole is `finish` -/
theorem complete_other {d : Dir A} {n : Nat} {es : List Edit} {rest tl : List (Nat × List Edit)}
    (hc : Ctx d ((n, es) :: rest) tl) (a1 : List (Act A)) (h : completeActs d n = some a1) (hm : d.vM ≠ some n) :
    run d a1 = finish d ∧ (finish d).frags = d.frags ∧
      ∀ j, finish (run d (a1.take j)) = finish d ∧ (run d (a1.take j)).vM = d.vM ∧ (run d (a1.take j)).frags = d.frags
        ∧ NoneEmpty (run d (a1.take j)) := by
  rcases completeActs_cases d n a1 h with ⟨hv, ha⟩ | ⟨m, hv, hlt, ha⟩
  · subst ha
    have hcl : finish d = d := finish_clean d (hc.noneEmpty hv) (fun m hm' => by rw [hv] at hm'; cases hm')
    refine ⟨hcl.symm, by rw [hcl], fun j => ?_⟩
    rw [List.take_nil]; exact ⟨rfl, rfl, rfl, hc.noneEmpty⟩
  · have hne : m ≠ n := fun e => hm (by rw [hv, e])
    have hml : m < n := by omega
    have habs : ∀ m', d.vM = some m' → ∀ f, f ∈ d.frags → f.1 ≠ m' := by
      intro m' hm' f hf
      rw [hv] at hm'; cases hm'
      rw [hc.frags, List.cons_append] at hf
      rcases List.mem_cons.mp hf with rfl | hf
      · exact fun e => hne e.symm
      · have := head_least hc f hf; omega
    have hlist : completeList d m n = (d.vstrs.filter (fun x => d.trash.contains x)).map Act.unlinkTrash ++ [Act.clear] := by
      unfold completeList
      rw [if_neg (fun h => hne h.1)]; rfl
    subst ha
    rw [hlist]
    refine ⟨run_unlinks_clear d habs, ?_, fun j => ?_⟩
    · rw [finish_frags, hv]; exact filter_ne_absent m _ (habs m hv)
    · have := absorb_unlinks_clear _ d (fun x hx => (List.mem_filter.mp hx).1)
        (fun x hx ht => List.mem_filter.mpr ⟨hx, List.contains_iff_mem.mpr ht⟩) j
      exact ⟨this.1, this.2.1, this.2.2, fun hnone => by rw [this.2.1, hv] at hnone; cases hnone⟩

/-- the entry is the one whose intent is logged -/
theorem complete_self {d : Dir A} {n : Nat} {es : List Edit} {rest tl : List (Nat × List Edit)}
    (hc : Ctx d ((n, es) :: rest) tl) (hm : d.vM = some n) :
    run d (completeList d n n) = finish d ∧ (finish d).frags = rest ++ tl ∧
      ∀ j, finish (run d ((completeList d n n).take j)) = finish d ∧ (run d ((completeList d n n).take j)).vM = some n ∧
        ((run d ((completeList d n n).take j)).frags = d.frags ∨ (run d ((completeList d n n).take j)).frags = rest ++ tl) := by
  have hfil : d.frags.filter (fun f => f.1 != n) = rest ++ tl := by
    rw [hc.frags, List.cons_append]; exact filter_ne_head n es _ (head_least hc)
  have hpres : d.frags.any (fun f => f.1 == n) = true := by
    rw [hc.frags, List.cons_append, List.any_cons]; simp
  have hlist : completeList d n n = Act.unlinkFrag n :: ((d.vstrs.filter (fun x => d.trash.contains x)).map Act.unlinkTrash ++ [Act.clear]) := by
    unfold completeList
    rw [if_pos ⟨rfl, hpres⟩]; rfl
  have hff : (finish d).frags = rest ++ tl := by rw [finish_frags, hm]; exact hfil
  have hd1 : (d.apply (Act.unlinkFrag n)).frags = rest ++ tl := hfil
  have habs1 : ∀ m', (d.apply (Act.unlinkFrag n)).vM = some m' → ∀ f, f ∈ (d.apply (Act.unlinkFrag n)).frags → f.1 ≠ m' := by
    intro m' hm' f hf
    have : d.vM = some m' := hm'
    rw [hm] at this; cases this
    rw [hd1] at hf
    have := head_least hc f hf; omega
  rw [hlist]
  refine ⟨?_, hff, fun j => ?_⟩
  · rw [run_cons]
    have := run_unlinks_clear (d.apply (Act.unlinkFrag n)) habs1
    exact this.trans (finish_unlinkFrag d n hm)
  · cases j with
    | zero => exact ⟨rfl, hm, Or.inl rfl⟩
    | succ j =>
      rw [List.take_succ_cons, run_cons]
      have := absorb_unlinks_clear (d.vstrs.filter (fun x => d.trash.contains x)) (d.apply (Act.unlinkFrag n))
        (fun x hx => (List.mem_filter.mp hx).1)
        (fun x hx ht => List.mem_filter.mpr ⟨hx, List.contains_iff_mem.mpr ht⟩) j
      exact ⟨this.1.trans (finish_unlinkFrag d n hm), this.2.1.trans hm, Or.inr (this.2.2.trans hd1)⟩

/-! ### the abstract pass -/

def outOfOrder (g : Dir A) (n : Nat) : Bool :=
  match g.vM with
  | some m => decide (n < m)
  | none => false

/-- one entry on a directory with nothing pending: check it; if it passes and its names are all in
    `trash/`, the names leave `trash/` and the fragment leaves `mani/`, in one step -/
def absStep (C : Checker A) (g : Dir A) (n : Nat) (es : List Edit) : Option (Dir A) :=
  if outOfOrder g n then none
  else match checkAll C g es, plan C.asWas (laterRm g n) es with
    | some o, some names =>
      if names.all (fun x => g.trash.contains x) then some (finish (g.apply (Act.intent n es names o))) else none
    | _, _ => none

def absFrom (C : Checker A) : Dir A → List (Nat × List Edit) → Dir A
  | g, [] => g
  | g, (n, es) :: rest =>
    match absStep C g n es with
    | none => g
    | some g' => absFrom C g' rest

/-- the entries left once the entry whose intent is logged (if it heads the list) is completed -/
def entsAfter (d : Dir A) : List (Nat × List Edit) → List (Nat × List Edit)
  | [] => []
  | (n, es) :: rest => if d.vM = some n then rest else (n, es) :: rest

theorem entsAfter_of_lt (s : Dir A) (n : Nat) (rest : List (Nat × List Edit)) (h : s.vM = some n)
    (hlt : ∀ f, f ∈ rest → n < f.1) : entsAfter s rest = rest := by
  cases rest with
  | nil => rfl
  | cons f r =>
    obtain ⟨n', es'⟩ := f
    show (if s.vM = some n' then r else (n', es') :: r) = _
    have := hlt (n', es') List.mem_cons_self
    rw [if_neg]
    rw [h]; intro e; cases e; exact Nat.lt_irrefl _ this

theorem entsAfter_head (s : Dir A) (n : Nat) (es : List Edit) (rest : List (Nat × List Edit)) (h : s.vM = some n) :
    entsAfter s ((n, es) :: rest) = rest := by
  show (if s.vM = some n then rest else (n, es) :: rest) = _
  rw [if_pos h]

theorem entsAfter_other (s : Dir A) (n : Nat) (es : List Edit) (rest : List (Nat × List Edit)) (h : s.vM ≠ some n) :
    entsAfter s ((n, es) :: rest) = (n, es) :: rest := by
  show (if s.vM = some n then rest else (n, es) :: rest) = _
  rw [if_neg h]

/-- points on the abstract pass -/
inductive Along (C : Checker A) : Dir A → List (Nat × List Edit) → Dir A → List (Nat × List Edit) → Prop
  | refl (g ents) : Along C g ents g ents
  | step (g n es rest g1 g' ents') : absStep C g n es = some g1 → Along C g1 rest g' ents' →
      Along C g ((n, es) :: rest) g' ents'

theorem along_absFrom (C : Checker A) {g ents g' ents'} (h : Along C g ents g' ents') :
    absFrom C g' ents' = absFrom C g ents := by
  induction h with
  | refl => rfl
  | step g n es rest g1 g' ents' hs _ ih =>
    rw [ih]
    show absFrom C g1 rest = (match absStep C g n es with | none => g | some g' => absFrom C g' rest)
    rw [hs]

theorem along_trans (C : Checker A) {g ents g1 ents1 g2 ents2} (h1 : Along C g ents g1 ents1)
    (h2 : Along C g1 ents1 g2 ents2) : Along C g ents g2 ents2 := by
  induction h1 with
  | refl => exact h2
  | step g n es rest ga g' ents' hs _ ih => exact Along.step g n es rest ga _ _ hs (ih h2)

theorem outOfOrder_of_complete (d : Dir A) (n : Nat) (a1 : List (Act A)) (h : completeActs d n = some a1) :
    outOfOrder d n = false := by
  unfold outOfOrder
  rcases completeActs_cases d n a1 h with ⟨hv, _⟩ | ⟨m, hv, hlt, _⟩
  · rw [hv]
  · rw [hv]; exact decide_eq_false hlt

/-- the abstract step that corresponds to a processed entry -/
theorem absStep_processed (C : Checker A) (g : Dir A) (n : Nat) (es : List Edit) (o : A) (names : List Name)
    (ho : outOfOrder g n = false) (hck : checkAll C g es = some o) (hp : plan C.asWas (laterRm g n) es = some names)
    (ht : ∀ x, x ∈ names → x ∈ g.trash) :
    absStep C g n es = some (finish (g.apply (Act.intent n es names o))) := by
  unfold absStep
  rw [ho, hck, hp]
  have : names.all (fun x => g.trash.contains x) = true :=
    List.all_eq_true.mpr (fun x hx => List.contains_iff_mem.mpr (ht x hx))
  simp only [Bool.false_eq_true, if_false, this, if_true]

/-- the abstract step on an entry the real pass stops at -/
theorem absStep_stopped (C : Checker A) (g : Dir A) (n : Nat) (es : List Edit) (hv : g.vstrs = [])
    (hr : g.vstrs ≠ [] ∨ ∀ o names, checkAll C g es = some o → plan C.asWas (laterRm g n) es = some names → ∃ x, x ∈ names ∧ x ∉ g.trash) :
    absStep C g n es = none := by
  unfold absStep
  by_cases ho : outOfOrder g n = true
  · rw [if_pos ho]
  · rw [if_neg ho]
    rcases hr with hr | hr
    · exact absurd hv hr
    · cases hck : checkAll C g es with
      | none => rfl
      | some o =>
        cases hp : plan C.asWas (laterRm g n) es with
        | none => rfl
        | some names =>
          obtain ⟨x, hx, hnt⟩ := hr o names hck hp
          have : names.all (fun x => g.trash.contains x) = false := by
            cases hall : names.all (fun x => g.trash.contains x) with
            | false => rfl
            | true =>
              have := List.all_eq_true.mp hall x hx
              exact absurd (List.contains_iff_mem.mp this) hnt
          simp only [this, Bool.false_eq_true, if_false]

theorem completeActs_none_iff (d : Dir A) (n : Nat) (h : completeActs d n = none) : ∃ m, d.vM = some m ∧ n < m := by
  cases hm : d.vM with
  | none => rw [completeActs_none d n hm] at h; cases h
  | some m =>
    rw [completeActs_some d m n hm] at h
    by_cases hlt : n < m
    · exact ⟨m, rfl, hlt⟩
    · rw [if_neg hlt] at h; cases h

theorem absStep_outOfOrder (C : Checker A) (g : Dir A) (n : Nat) (es : List Edit) (h : outOfOrder g n = true) :
    absStep C g n es = none := by
  unfold absStep; rw [if_pos h]

theorem absFrom_cons (C : Checker A) (g : Dir A) (n : Nat) (es : List Edit) (rest : List (Nat × List Edit)) :
    absFrom C g ((n, es) :: rest) = (match absStep C g n es with | none => g | some g' => absFrom C g' rest) := rfl

theorem outOfOrder_congr (g g' : Dir A) (n : Nat) (h : g'.vM = g.vM) : outOfOrder g' n = outOfOrder g n := by
  unfold outOfOrder; rw [h]

theorem ctx_tail {d : Dir A} {n : Nat} {es : List Edit} {rest tl : List (Nat × List Edit)}
    (hc : Ctx d ((n, es) :: rest) tl) (s : Dir A) (hf : s.frags = rest ++ tl) (hm : s.vM = some n) : Ctx s rest tl := by
  refine ⟨hf, ?_, fun h => by rw [hm] at h; cases h⟩
  have := hc.sorted
  unfold Sorted at this ⊢
  rw [hc.frags, List.cons_append, List.pairwise_cons] at this
  rw [hf]; exact this.2

theorem ctx_same {d : Dir A} {ents tl : List (Nat × List Edit)} (hc : Ctx d ents tl) (s : Dir A)
    (hf : s.frags = d.frags) (hn : NoneEmpty s) : Ctx s ents tl := by
  refine ⟨hf.trans hc.frags, ?_, hn⟩
  have := hc.sorted
  unfold Sorted at this ⊢
  rw [hf]; exact this

theorem rest_gt {d : Dir A} {n : Nat} {es : List Edit} {rest tl : List (Nat × List Edit)}
    (hc : Ctx d ((n, es) :: rest) tl) : ∀ f, f ∈ rest → n < f.1 :=
  fun f hf => head_least hc f (List.mem_append_left _ hf)

/-- **the real pass followed by `finish` is the abstract pass from `finish` of the start** -/
theorem finish_finalFrom (C : Checker A) : ∀ (ents : List (Nat × List Edit)) (d : Dir A) (tl : List (Nat × List Edit)),
    Ctx d ents tl → finish (run d (passFrom C d ents).1) = absFrom C (finish d) (entsAfter d ents)
  | [], _, _, _ => rfl
  | (n, es) :: rest, d, tl, hc => by
    have hs := processOne_shape C d n es
    generalize hr : processOne C d n es = r at hs
    cases hs with
    | outOfOrder h1 =>
      have hst : (processOne C d n es).2 ≠ .ok := by rw [hr]; intro h; cases h
      rw [passFrom_stop C d n es rest hst, hr]
      obtain ⟨m, hm, hlt⟩ := completeActs_none_iff d n h1
      have hne : d.vM ≠ some n := by rw [hm]; intro e; cases e; exact Nat.lt_irrefl _ hlt
      rw [entsAfter_other d n es rest hne, absFrom_cons, absStep_outOfOrder]
      · rfl
      · show outOfOrder (finish d) n = true
        rw [outOfOrder_congr d (finish d) n rfl]
        unfold outOfOrder; rw [hm]; exact decide_eq_true hlt
    | resumed a1 h1 hm =>
      have hst : (processOne C d n es).2 = .ok := by rw [hr]
      rw [passFrom_ok C d n es rest hst, hr]
      have ha : a1 = completeList d n n := by
        rw [completeActs_self d n hm] at h1; cases h1; rfl
      subst ha
      have hcs := complete_self hc hm
      show finish (run d (completeList d n n ++ (passFrom C (run d (completeList d n n)) rest).1)) = _
      rw [run_append, hcs.1]
      have hct : Ctx (finish d) rest tl := ctx_tail hc (finish d) hcs.2.1 hm
      rw [finish_finalFrom C rest (finish d) tl hct, finish_idem,
        entsAfter_of_lt (finish d) n rest hm (rest_gt hc), entsAfter_head d n es rest hm]
    | stopped a1 st h1 hm hne hreason =>
      have hst : (processOne C d n es).2 ≠ .ok := by rw [hr]; exact hne
      rw [passFrom_stop C d n es rest hst, hr]
      have hco := complete_other hc a1 h1 hm
      show finish (run d a1) = _
      rw [hco.1] at hreason ⊢
      rw [finish_idem, entsAfter_other d n es rest hm, absFrom_cons,
        absStep_stopped C (finish d) n es rfl hreason]
    | processed a1 o names h1 hm hv hck hp ht =>
      have hst : (processOne C d n es).2 = .ok := by rw [hr]
      rw [passFrom_ok C d n es rest hst, hr]
      have hco := complete_other hc a1 h1 hm
      rw [hco.1] at hv hck hp ht
      show finish (run d ((a1 ++ Act.intent n es names o :: completeList ((run d a1).apply (Act.intent n es names o)) n n)
        ++ (passFrom C (run d (a1 ++ Act.intent n es names o :: completeList ((run d a1).apply (Act.intent n es names o)) n n)) rest).1)) = _
      rw [hco.1]
      have hc2 : Ctx ((finish d).apply (Act.intent n es names o)) ((n, es) :: rest) tl :=
        ctx_same hc _ hco.2.1 (fun h => by cases h)
      have hcs := complete_self hc2 rfl
      have hrun : run d (a1 ++ Act.intent n es names o :: completeList ((finish d).apply (Act.intent n es names o)) n n)
          = finish ((finish d).apply (Act.intent n es names o)) := by
        rw [run_append, hco.1, run_cons, hcs.1]
      rw [run_append, hrun]
      have hct : Ctx (finish ((finish d).apply (Act.intent n es names o))) rest tl :=
        ctx_tail hc2 _ hcs.2.1 rfl
      rw [finish_finalFrom C rest _ tl hct, finish_idem,
        entsAfter_of_lt _ n rest rfl (rest_gt hc), entsAfter_other d n es rest hm, absFrom_cons,
        absStep_processed C (finish d) n es o names
          ((outOfOrder_congr d (finish d) n rfl).trans (outOfOrder_of_complete d n a1 h1)) hck hp ht]

/-! ### every crash state is a point on the abstract pass -/

/-- `s` keeps the context with some list of remaining entries, and `finish s` with what is left of
    them is a point on the abstract pass from `(g0, e0)` -/
def Good (C : Checker A) (tl eorig : List (Nat × List Edit)) (g0 : Dir A) (e0 : List (Nat × List Edit)) (s : Dir A) : Prop :=
  ∃ ents', ents' <:+ eorig ∧ Ctx s ents' tl ∧ Along C g0 e0 (finish s) (entsAfter s ents')

theorem Good.mono {C : Checker A} {tl e1 e2 : List (Nat × List Edit)} {g0 : Dir A} {e0 : List (Nat × List Edit)} {s : Dir A}
    (h : Good C tl e1 g0 e0 s) (hs : e1 <:+ e2) : Good C tl e2 g0 e0 s := by
  obtain ⟨ents', h1, h2, h3⟩ := h
  exact ⟨ents', h1.trans hs, h2, h3⟩

/-- completing the entry whose intent is logged, then going on with the rest -/
theorem resume_phase (C : Checker A) (s0 : Dir A) (n : Nat) (es : List Edit) (rest tl : List (Nat × List Edit))
    (hc : Ctx s0 ((n, es) :: rest) tl) (hm : s0.vM = some n) (R : List (Act A))
    (ih : ∀ k, Good C tl rest (finish (finish s0)) (entsAfter (finish s0) rest) (run (finish s0) (R.take k))) :
    ∀ k, Good C tl ((n, es) :: rest) (finish s0) rest (run s0 ((completeList s0 n n ++ R).take k)) := by
  intro k
  have hcs := complete_self hc hm
  rw [List.take_append]
  by_cases hk : k ≤ (completeList s0 n n).length
  · have h0 : k - (completeList s0 n n).length = 0 := by omega
    rw [h0, List.take_zero, List.append_nil]
    obtain ⟨hf, hv, hfr⟩ := hcs.2.2 k
    rcases hfr with hfr | hfr
    · refine ⟨(n, es) :: rest, List.suffix_refl _, ctx_same hc _ hfr (fun h => by rw [hv] at h; cases h), ?_⟩
      rw [hf, entsAfter_head _ n es rest hv]; exact Along.refl _ _
    · refine ⟨rest, List.suffix_cons _ _, ctx_tail hc _ hfr hv, ?_⟩
      rw [hf, entsAfter_of_lt _ n rest hv (rest_gt hc)]; exact Along.refl _ _
  · have hk' : (completeList s0 n n).length ≤ k := by omega
    rw [List.take_of_length_le hk', run_append, hcs.1]
    have := ih (k - (completeList s0 n n).length)
    rw [finish_idem, entsAfter_of_lt (finish s0) n rest hm (rest_gt hc)] at this
    exact this.mono (List.suffix_cons _ _)

/-- completing what was pending under another number: the context and the abstract point stay -/
theorem other_phase (C : Checker A) {d : Dir A} {n : Nat} {es : List Edit} {rest tl : List (Nat × List Edit)}
    (hc : Ctx d ((n, es) :: rest) tl) (a1 : List (Act A)) (h1 : completeActs d n = some a1) (hm : d.vM ≠ some n) (j : Nat) :
    Good C tl ((n, es) :: rest) (finish d) ((n, es) :: rest) (run d (a1.take j)) := by
  obtain ⟨hf, hv, hfr, hne⟩ := (complete_other hc a1 h1 hm).2.2 j
  refine ⟨(n, es) :: rest, List.suffix_refl _, ctx_same hc _ hfr hne, ?_⟩
  rw [hf, entsAfter_other _ n es rest (by rw [hv]; exact hm)]; exact Along.refl _ _

theorem good_prefix (C : Checker A) : ∀ (ents : List (Nat × List Edit)) (d : Dir A) (tl : List (Nat × List Edit)),
    Ctx d ents tl → ∀ k, Good C tl ents (finish d) (entsAfter d ents) (run d ((passFrom C d ents).1.take k))
  | [], d, tl, hc, k => by
    rw [passFrom_nil, List.take_nil]
    exact ⟨[], List.suffix_refl _, hc, Along.refl _ _⟩
  | (n, es) :: rest, d, tl, hc, k => by
    have hs := processOne_shape C d n es
    generalize hr : processOne C d n es = r at hs
    cases hs with
    | outOfOrder h1 =>
      have hst : (processOne C d n es).2 ≠ .ok := by rw [hr]; intro h; cases h
      rw [passFrom_stop C d n es rest hst, hr]
      show Good C tl _ _ _ (run d (([] : List (Act A)).take k))
      rw [List.take_nil]
      exact ⟨(n, es) :: rest, List.suffix_refl _, hc, Along.refl _ _⟩
    | resumed a1 h1 hm =>
      have hst : (processOne C d n es).2 = .ok := by rw [hr]
      rw [passFrom_ok C d n es rest hst, hr]
      have ha : a1 = completeList d n n := by
        rw [completeActs_self d n hm] at h1; cases h1; rfl
      subst ha
      have hcs := complete_self hc hm
      show Good C tl _ _ _ (run d ((completeList d n n ++ (passFrom C (run d (completeList d n n)) rest).1).take k))
      rw [hcs.1, entsAfter_head d n es rest hm]
      exact resume_phase C d n es rest tl hc hm _
        (fun k' => good_prefix C rest (finish d) tl (ctx_tail hc (finish d) hcs.2.1 hm) k') k
    | stopped a1 st h1 hm hne _ =>
      have hst : (processOne C d n es).2 ≠ .ok := by rw [hr]; exact hne
      rw [passFrom_stop C d n es rest hst, hr, entsAfter_other d n es rest hm]
      exact other_phase C hc a1 h1 hm k
    | processed a1 o names h1 hm hv hck hp ht =>
      have hst : (processOne C d n es).2 = .ok := by rw [hr]
      rw [passFrom_ok C d n es rest hst, hr, entsAfter_other d n es rest hm]
      have hco := complete_other hc a1 h1 hm
      rw [hco.1] at hv hck hp ht
      show Good C tl _ _ _ (run d (((a1 ++ Act.intent n es names o :: completeList ((run d a1).apply (Act.intent n es names o)) n n)
        ++ (passFrom C (run d (a1 ++ Act.intent n es names o :: completeList ((run d a1).apply (Act.intent n es names o)) n n)) rest).1).take k))
      rw [hco.1]
      have hc2 : Ctx ((finish d).apply (Act.intent n es names o)) ((n, es) :: rest) tl :=
        ctx_same hc _ hco.2.1 (fun h => by cases h)
      have hcs := complete_self hc2 rfl
      have hrun : run d (a1 ++ Act.intent n es names o :: completeList ((finish d).apply (Act.intent n es names o)) n n)
          = finish ((finish d).apply (Act.intent n es names o)) := by
        rw [run_append, hco.1, run_cons, hcs.1]
      rw [hrun]
      -- the abstract step this entry takes
      have hstep : Along C (finish d) ((n, es) :: rest) (finish ((finish d).apply (Act.intent n es names o))) rest :=
        Along.step _ n es rest _ _ _
          (absStep_processed C (finish d) n es o names
            ((outOfOrder_congr d (finish d) n rfl).trans (outOfOrder_of_complete d n a1 h1)) hck hp ht)
          (Along.refl _ _)
      by_cases hk : k ≤ a1.length
      · -- the crash is inside the completion of what was pending
        rw [List.append_assoc, List.take_append]
        have h0 : k - a1.length = 0 := by omega
        rw [h0, List.take_zero, List.append_nil]
        exact other_phase C hc a1 h1 hm k
      · -- the intent is logged; the rest is a resumed entry from there
        have hk' : a1.length ≤ k := by omega
        rw [List.append_assoc, List.take_append, List.take_of_length_le hk', run_append, hco.1]
        obtain ⟨k1, hk1⟩ : ∃ k1, k - a1.length = k1 + 1 := ⟨k - a1.length - 1, by omega⟩
        rw [hk1]
        show Good C tl _ _ _ (run (finish d) ((Act.intent n es names o :: (completeList ((finish d).apply (Act.intent n es names o)) n n
          ++ (passFrom C (finish ((finish d).apply (Act.intent n es names o))) rest).1)).take (k1 + 1)))
        rw [List.take_succ_cons, run_cons]
        have := resume_phase C ((finish d).apply (Act.intent n es names o)) n es rest tl hc2 rfl
          (passFrom C (finish ((finish d).apply (Act.intent n es names o))) rest).1
          (fun k' => good_prefix C rest _ tl (ctx_tail hc2 _ hcs.2.1 rfl) k') k1
        obtain ⟨ents', hsuf, hctx, hal⟩ := this
        exact ⟨ents', hsuf, hctx, along_trans C hstep hal⟩

/-! ### the theorem -/

/-- the directory a whole pass ends in -/
def final (C : Checker A) (d : Dir A) : Dir A := run d (pass C d).1

/-- **A pass cut by a crash after any number `k` of its durable actions and restarted ends, up to
    the execution of a still-pending intent, where the uninterrupted pass ends**: the same `sst/`,
    `MANIFEST`, fragments, `trash/`, `M` and `O`. -/
theorem crash_converges (C : Checker A) (d : Dir A) (hs : Sorted d) (hn : NoneEmpty d) (k : Nat) :
    finish (final C (run d ((pass C d).1.take k))) = finish (final C d) := by
  unfold final pass entries
  by_cases hnil : d.frags = []
  · rw [hnil]
    show finish (run (run d (([] : List (Act A)).take k)) (passFrom C (run d (([] : List (Act A)).take k)) (run d (([] : List (Act A)).take k)).frags.dropLast).1) = _
    rw [List.take_nil]
    show finish (run d (passFrom C d d.frags.dropLast).1) = _
    rw [hnil]
  · have hfr : d.frags = d.frags.dropLast ++ [d.frags.getLast hnil] := (List.dropLast_concat_getLast hnil).symm
    have hc : Ctx d d.frags.dropLast [d.frags.getLast hnil] := ⟨hfr, hs, hn⟩
    obtain ⟨ents', _, hck, hal⟩ := good_prefix C _ d _ hc k
    have he : (run d ((passFrom C d d.frags.dropLast).1.take k)).frags.dropLast = ents' := by
      rw [hck.frags, List.dropLast_concat]
    rw [he, finish_finalFrom C ents' _ _ hck, finish_finalFrom C _ d _ hc]
    exact along_absFrom C hal

/-- the crash state keeps what the theorem needs, so it applies again after the next crash; and the
    fragments left are a suffix of the fragments there were (the verifier unlinks oldest first) -/
theorem crash_keeps (C : Checker A) (d : Dir A) (hs : Sorted d) (hn : NoneEmpty d) (k : Nat) :
    Sorted (run d ((pass C d).1.take k)) ∧ NoneEmpty (run d ((pass C d).1.take k))
      ∧ (run d ((pass C d).1.take k)).frags <:+ d.frags := by
  unfold pass entries
  by_cases hnil : d.frags = []
  · rw [hnil]
    show Sorted (run d (([] : List (Act A)).take k)) ∧ NoneEmpty (run d (([] : List (Act A)).take k)) ∧ (run d (([] : List (Act A)).take k)).frags <:+ []
    rw [List.take_nil]
    show Sorted d ∧ NoneEmpty d ∧ d.frags <:+ []
    rw [hnil]; exact ⟨hs, hn, List.suffix_refl _⟩
  · have hfr : d.frags = d.frags.dropLast ++ [d.frags.getLast hnil] := (List.dropLast_concat_getLast hnil).symm
    have hc : Ctx d d.frags.dropLast [d.frags.getLast hnil] := ⟨hfr, hs, hn⟩
    obtain ⟨ents', hsuf, hck, _⟩ := good_prefix C _ d _ hc k
    refine ⟨hck.sorted, hck.noneEmpty, ?_⟩
    rw [hck.frags]
    obtain ⟨t, ht⟩ := hsuf
    exact ⟨t, by rw [← List.append_assoc, ht]; exact hfr.symm⟩

/-- any number of passes, each cut by a crash after any number of its actions (or not cut: `k`
    past the end), no step of the store in between -/
inductive Restarts (C : Checker A) (d0 : Dir A) : Dir A → Prop
  | start : Restarts C d0 d0
  | crash (d : Dir A) (k : Nat) : Restarts C d0 d → Restarts C d0 (run d ((pass C d).1.take k))

theorem restarts_converge (C : Checker A) (d0 d : Dir A) (hs : Sorted d0) (hn : NoneEmpty d0) (h : Restarts C d0 d) :
    finish (final C d) = finish (final C d0) ∧ Sorted d ∧ NoneEmpty d ∧ d.frags <:+ d0.frags
      ∧ d.sst = d0.sst ∧ d.live = d0.live := by
  induction h with
  | start => exact ⟨rfl, hs, hn, List.suffix_refl _, rfl, rfl⟩
  | crash d k _ ih =>
    obtain ⟨h1, h2, h3, h4, h5, h6⟩ := ih
    have hk := crash_keeps C d h2 h3 k
    exact ⟨(crash_converges C d h2 h3 k).trans h1, hk.1, hk.2.1, hk.2.2.trans h4,
      (run_sst _ d).trans h5, (run_live _ d).trans h6⟩

/-- `finish` and the rest of a pass are invisible to the store: `sst/` and `MANIFEST` stay -/
theorem finish_sst (d : Dir A) : (finish d).sst = d.sst := rfl
theorem finish_live (d : Dir A) : (finish d).live = d.live := rfl
theorem final_sst (C : Checker A) (d : Dir A) : (final C d).sst = d.sst := run_sst _ d
theorem final_live (C : Checker A) (d : Dir A) : (final C d).live = d.live := run_live _ d

/-- the case in which the restart ends short of the uninterrupted pass: the crash came after the
    unlink of the last entry's fragment and before the unlink of its files; the restarted pass has
    no entry to process, the names stay logged (and the files in `trash/`) until the store has
    rolled its manifest over again — `finish` is what the next pass with an entry starts with -/
def exD : Dir Name :=
  { sst := [[97]], trash := [[120, 46, 115, 115, 116]], live := [],
    frags := [(1, [⟨[], [], [(73, [48]), (79, [48]), (68, [48])]⟩, ⟨[[120]], [[97]], [(73, [48]), (79, [49]), (68, [50])]⟩]),
              (2, [⟨[], [[97]], [(73, [48]), (79, [49]), (68, [50])]⟩])],
    vstrs := [], vM := none, vO := [48], done := [] }

theorem exD_pass : (pass chainChecker exD).1.length = 4 ∧ (pass chainChecker exD).2 = .ok := by decide
theorem exD_whole : (final chainChecker exD).trash = [] ∧ (final chainChecker exD).vstrs = []
    ∧ (final chainChecker exD).frags.map (·.1) = [2] := by decide
theorem exD_cut : (final chainChecker (run exD ((pass chainChecker exD).1.take 2))).trash = [[120, 46, 115, 115, 116]]
    ∧ (final chainChecker (run exD ((pass chainChecker exD).1.take 2))).vstrs = [[120, 46, 115, 115, 116]]
    ∧ (finish (final chainChecker (run exD ((pass chainChecker exD).1.take 2)))).trash = [] := by decide

/-! ### the orphan clean-up of the reopen that follows -/

/-- the fragments as `cleanup_orphans` reads them: the numbered ones in order, then `MANIFEST` -/
def fragLists (d : Dir A) : List (List Edit) := d.frags.map Prod.snd ++ [d.live]

theorem chainOk_of_append : ∀ (t l : List (List Edit)), chainOk (t ++ l) = true → chainOk l = true
  | [], _, h => h
  | [a], l, h => by
    cases l with
    | nil => rfl
    | cons b r =>
      rw [List.cons_append, List.nil_append, chainOk_cons2, Bool.and_eq_true] at h
      exact h.2
  | a :: b :: t, l, h => by
    rw [List.cons_append, List.cons_append, chainOk_cons2, Bool.and_eq_true] at h
    exact chainOk_of_append (b :: t) l h.2

/-- after any number of verifier passes and crashes, the directory is still chained, lists what it
    listed, and the clean-up of the next reopen renames nothing that is listed -/
theorem cleanup_after_restarts (C : Checker A) (d0 d : Dir A) (hs : Sorted d0) (hn : NoneEmpty d0)
    (hchain : chainOk (fragLists d0) = true) (h : Restarts C d0 d) (sst trash : List Name) :
    chainOk (fragLists d) = true ∧ Blue.Orphans.listed (fragLists d) = Blue.Orphans.listed (fragLists d0) ∧
      ∀ x, x ∈ Blue.Orphans.moved sst trash (fragLists d) → x ∉ Blue.Orphans.listed (fragLists d) := by
  obtain ⟨_, _, _, ⟨t, ht⟩, _, hlive⟩ := restarts_converge C d0 d hs hn h
  have hfl : fragLists d0 = t.map Prod.snd ++ fragLists d := by
    unfold fragLists
    rw [← ht, List.map_append, List.append_assoc, hlive]
  have hch : chainOk (fragLists d) = true := chainOk_of_append _ _ (hfl ▸ hchain)
  refine ⟨hch, ?_, Blue.Orphans.moved_not_listed sst trash _ hch⟩
  unfold Blue.Orphans.listed fragLists
  rw [List.getLast?_concat, List.getLast?_concat, hlive]

/-! ### D-28: removed, written again under the same name, removed again

    `x` is removed by fragment 1, added again by fragment 2, removed again by fragment 3; one copy of
    it is in `trash/`.  The plan of the code as it was gives that copy to fragment 1: the check of
    fragment 2 then finds `x` neither in `trash/` nor in `sst/`, and so does every later pass.  The
    repaired plan leaves it to fragment 3. -/
def exR : Dir Name :=
  { sst := [], trash := [[120, 46, 115, 115, 116]], live := [⟨[], [], [(73, [51]), (79, [51]), (68, [48])]⟩],
    frags := [(1, [⟨[], [[120]], [(73, [48]), (79, [48]), (68, [48])]⟩, ⟨[[120]], [], [(73, [48]), (79, [49]), (68, [48])]⟩]),
              (2, [⟨[], [], [(73, [48]), (79, [49]), (68, [48])]⟩, ⟨[], [[120]], [(73, [49]), (79, [50]), (68, [48])]⟩]),
              (3, [⟨[], [[120]], [(73, [49]), (79, [50]), (68, [48])]⟩, ⟨[[120]], [], [(73, [50]), (79, [51]), (68, [48])]⟩]),
              (4, [⟨[], [], [(73, [50]), (79, [51]), (68, [48])]⟩])],
    vstrs := [], vM := none, vO := [48], done := [] }

/-- as the code was: the pass stops at fragment 2 with an error, the copy gone; and again, forever -/
theorem exR_as_was : (pass chainCheckerAsWas exR).2 = .corrupt ∧ (final chainCheckerAsWas exR).trash = []
    ∧ (final chainCheckerAsWas exR).frags.map (·.1) = [2, 3, 4]
    ∧ (pass chainCheckerAsWas (final chainCheckerAsWas exR)).2 = .corrupt
    ∧ (final chainCheckerAsWas (final chainCheckerAsWas exR)).frags.map (·.1) = [2, 3, 4] := by decide

/-- as repaired: the pass goes through; fragment 3 takes the copy -/
theorem exR_repaired : (pass chainChecker exR).2 = .ok ∧ (final chainChecker exR).trash = []
    ∧ (final chainChecker exR).frags.map (·.1) = [4]
    ∧ (run exR ((pass chainChecker exR).1.take 4)).trash = [[120, 46, 115, 115, 116]] := by decide

end Blue.Verifier
