import Blue.Proofs.WcqWake
/-! A second sensitivity mutant of the wake-up protocol (property C18): a *follower* that finds its
    output unlinks but does not call `notify_head`.  The window of `Blue.WcqWake` (a member is handed
    its output between reading `Stolen` and parking, so that the hand-out `notify` finds nobody)
    then loses a caller for good: nobody is left to wake it when it becomes the head.  The window is
    a handful of instructions wide in the real code, so a test harness practically never hits it;
    the model does. -/
namespace Blue.WcqWake

/-- as `step`, but a follower leaving with its output only unlinks -/
def stepFollowerNoNotify (s : St) : Ev → St
  | .check i k =>
    if s.holder ≠ none then s else
    match s.ents[i]? with
    | some ⟨.outp, true, false⟩ =>
      if isLeader s.lead i then s
      else { s with ents := upd s.ents i (fun e => { e with linked := false }) }
    | _ => step s (.check i k)
  | ev => step s ev

/-- three callers: 0 leads a batch of three; 2 reads `Stolen` and decides to park; all three
    outputs are handed out (2 is not parked yet: its notification is lost); 2 parks holding its
    output; the leader leaves and its `notify_head` reaches 1, which is awake anyway; 1 leaves
    without `notify_head` — 2 is the head, parked, and nobody will ever signal it -/
theorem follower_forgets_notify_head_stuck :
    stuck ([Ev.link, .link, .link, .check 0 3, .check 2 0, .deliver, .deliver, .deliver, .park,
            .leaderUnlink, .leaderClear, .notifyHead, .check 1 0].foldl stepFollowerNoNotify init) = true := by
  decide

/-- the same schedule under the real protocol is not stuck (1's `notify_head` wakes 2) -/
theorem same_schedule_not_stuck :
    stuck ([Ev.link, .link, .link, .check 0 3, .check 2 0, .deliver, .deliver, .deliver, .park,
            .leaderUnlink, .leaderClear, .notifyHead, .check 1 0].foldl step init) = false := by
  decide

end Blue.WcqWake
