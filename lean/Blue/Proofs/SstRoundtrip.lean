import Blue.Proofs.SstFile
/-! **C10** `sst_file_roundtrip`: `SstBuilder` start → `seal` → the file's bytes → `Sst::new` →
    cursor / `load` / `metadata` = the reference over the accepted entries.

    Composition of `sst_builder_refines` (blocks and index *as written* decode to a cut of the
    accepted entries with separating dividers) with the open of the image (`open_image`,
    `loadIdx_image`) and the cursor simulation (`run_sim`, `load_sim`, `metadata_sim`). -/
namespace Blue.SstOpen
open Blue.Wire Blue.Block Blue.Sst Blue.Cursor Blue.ProtoMsg

/-! ### the builder keeps the extents it wrote -/
/-- the values of the index entries put so far are the packed extents of the blocks written so
    far, and `bytes_written` is the length of their frames -/
structure FInv (s : SB) : Prop where
  vals : s.divE.map (·.val) = (metasOf 0 s.blocks).map (fun m => some (encBlockMeta m))
  written : s.bytesWritten = (s.blocks.flatMap (frame SE_PLAIN)).length

theorem finv_init : FInv SB.init := ⟨rfl, rfl⟩

theorem finv_flushed {s : SB} {c idx : CBuilder} {k : List Nat} {t : Nat} (h : FInv s) :
    FInv (flushed s c idx k t) := by
  refine ⟨?_, ?_⟩
  · simp only [flushed, List.map_append, List.map_cons, List.map_nil, metasOf_snoc, h.vals, indexEntry, h.written,
      Nat.zero_add]
  · simp only [flushed, List.flatMap_append, List.length_append, List.flatMap_cons, List.flatMap_nil, List.append_nil]
    rw [h.written]

theorem finv_put {o : SstOpts} {s s' : SB} {e : KV} (hi : FInv s) (h : s.put o e = .ok s') : FInv s' := by
  obtain ⟨_, hcase⟩ := put_ok h
  rcases hcase with ⟨_, c', _, rfl⟩ | ⟨c, _, _, c', _, rfl⟩ | ⟨c, _, _, sf, hf, c', _, rfl⟩
  · exact ⟨hi.vals, hi.written⟩
  · exact ⟨hi.vals, hi.written⟩
  · obtain ⟨c2, idx, _, _, rfl⟩ := flush_ok hf
    have := finv_flushed (c := c2) (idx := idx) (k := e.key) (t := e.ts) hi
    exact ⟨this.vals, this.written⟩

theorem finv_putAll (o : SstOpts) : ∀ (atts : List KV) (s : SB), FInv s → FInv (SB.putAll o s atts).2
  | [], _, h => h
  | e :: es, s, h => by
    simp only [SB.putAll]
    cases hp : s.put o e with
    | error err => exact finv_putAll o es s h
    | ok s' => exact finv_putAll o es s' (finv_put h hp)

/-! ### `seal`, in two steps -/
/-- the builder after the `flush_block` of `seal` (the builder itself when no block is open) -/
def sealedState (o : SstOpts) (s : SB) : Except BuildErr SB :=
  match s.cur with
  | some _ => s.flush o (minimalSuccessor s.lastKey s.lastTs).1 (minimalSuccessor s.lastKey s.lastTs).2
  | none => .ok s

/-- the final block `seal` writes for that builder -/
def finOf (s1 : SB) (filter setsum : List Nat) : Final :=
  let a := s1.bytesWritten + (frame SE_PLAIN s1.index.b.seal).length
  ⟨⟨s1.bytesWritten, a, crc32c s1.index.b.seal⟩, ⟨a, a + (frame SE_FILTER filter).length, crc32c filter⟩, setsum,
    (if s1.smallest > s1.biggest then 0 else s1.smallest), (if s1.smallest > s1.biggest then 0 else s1.biggest),
    a + (frame SE_FILTER filter).length⟩

theorem seal_eq {o : SstOpts} {s : SB} {filter setsum : List Nat} {f : SstFile} (h : s.seal o filter setsum = .ok f) :
    ∃ s1, sealedState o s = .ok s1 ∧ f.blocks = s1.blocks ∧ f.index = s1.index.b.seal ∧ f.filter = filter
      ∧ f.fin = finOf s1 filter setsum := by
  have key : ∀ s1 : SB, (SstFile.mk s1.blocks s1.index.b.seal filter
      (match (if s1.smallest > s1.biggest then ((0 : Nat), (0 : Nat)) else (s1.smallest, s1.biggest)) with
        | (sm, bg) => (⟨⟨s1.bytesWritten, s1.bytesWritten + (frame SE_PLAIN s1.index.b.seal).length, crc32c s1.index.b.seal⟩,
            ⟨s1.bytesWritten + (frame SE_PLAIN s1.index.b.seal).length,
              s1.bytesWritten + (frame SE_PLAIN s1.index.b.seal).length + (frame SE_FILTER filter).length, crc32c filter⟩,
            setsum, sm, bg,
            s1.bytesWritten + (frame SE_PLAIN s1.index.b.seal).length + (frame SE_FILTER filter).length⟩ : Final)) 0).fin
      = finOf s1 filter setsum := by
    intro s1
    unfold finOf
    by_cases hc : s1.smallest > s1.biggest
    · simp only [if_pos hc]
    · simp only [if_neg hc]
  unfold SB.seal at h
  unfold sealedState
  cases hcur : s.cur with
  | none =>
    rw [hcur] at h
    simp only at h
    cases h
    refine ⟨s, rfl, rfl, rfl, rfl, ?_⟩
    have := key s
    simp only at this ⊢
    by_cases hc : s.smallest > s.biggest
    · simp only [if_pos hc, finOf]
    · simp only [if_neg hc, finOf]
  | some c =>
    rw [hcur] at h
    simp only at h
    cases hf : s.flush o (minimalSuccessor s.lastKey s.lastTs).1 (minimalSuccessor s.lastKey s.lastTs).2 with
    | error x => rw [hf] at h; cases h
    | ok s1 =>
      rw [hf] at h
      simp only at h
      cases h
      refine ⟨s1, rfl, rfl, rfl, rfl, ?_⟩
      by_cases hc : s1.smallest > s1.biggest
      · simp only [if_pos hc, finOf]
      · simp only [if_neg hc, finOf]

theorem dividersOf_nil : dividersOf [] = [] := rfl

/-- the finished cut: what `seal_flush_cut` says, for an open block or none -/
theorem sealed_cut {o : SstOpts} {s s1 : SB} (hi : SInv o s) (h : sealedState o s = .ok s1) :
    s1.cutE.flatten = s.accepted ∧ (∀ b ∈ s1.cutE, b ≠ [])
    ∧ s1.divE.map keyTs = (dividersOf s1.cutE).map keyTs
    ∧ s1.blocks = s1.cutE.map (fun es => (build o.blk es).seal) ∧ s1.index.b = build o.blk s1.divE := by
  unfold sealedState at h
  cases hcur : s.cur with
  | some c =>
    rw [hcur] at h
    exact seal_flush_cut hi hcur h
  | none =>
    rw [hcur] at h
    cases h
    obtain ⟨ha, hc, hd⟩ := hi.fresh hcur
    refine ⟨?_, ?_, ?_, hi.blocksB, hi.indexB⟩
    · rw [ha, hc]; rfl
    · rw [hc]; intro b hb; cases hb
    · rw [hc, hd]; rfl

theorem sealed_finv {o : SstOpts} {s s1 : SB} (hi : FInv s) (h : sealedState o s = .ok s1) : FInv s1 := by
  unfold sealedState at h
  cases hcur : s.cur with
  | some c =>
    rw [hcur] at h
    obtain ⟨c2, idx, _, _, rfl⟩ := flush_ok h
    exact finv_flushed hi
  | none => rw [hcur] at h; cases h; exact hi

theorem sealed_minv {o : SstOpts} {s s1 : SB} (hi : MInv s) (h : sealedState o s = .ok s1) :
    MInv s1 ∧ s1.accepted = s.accepted := by
  unfold sealedState at h
  cases hcur : s.cur with
  | some c =>
    rw [hcur] at h
    obtain ⟨c2, idx, _, _, rfl⟩ := flush_ok h
    exact ⟨minv_flushed hi, rfl⟩
  | none => rw [hcur] at h; cases h; exact ⟨hi, rfl⟩

/-! ### every entry takes at least a byte of the file -/
theorem seal_count (o : Opts) (es : List KV) : es.length ≤ (build o es).seal.length := by
  have := foldl_buffer_le o es Builder.init
  have h0 : Builder.init.buffer.length = 0 := rfl
  unfold Builder.seal build
  rw [List.length_append]
  omega

theorem frames_count (o : Opts) : ∀ (L : List (List KV)),
    L.flatten.length ≤ ((L.map (fun es => (build o es).seal)).flatMap (frame SE_PLAIN)).length
  | [] => by simp
  | es :: L => by
    have h1 := seal_count o es
    have h2 := frame_gt SE_PLAIN (build o es).seal
    have h3 := frames_count o L
    simp only [List.flatten_cons, List.length_append, List.map_cons, List.flatMap_cons]
    omega

/-! ### the scan of `load` with fuel to spare -/
/-- `refLoad_eq_spec` for any fuel that covers the table -/
theorem refScan_fuel {es : List KV} (_hs : Sorted es) (k : List Nat) (ts : Nat) (F : Nat) (hF : es.length + 1 ≤ F) :
    (refScan k ts F (Ref.seek (atOrAfter k) ⟨es, 0⟩)).kv = es.find? (notBefore k ts) := by
  have hij : es.findIdx (atOrAfter k) ≤ es.findIdx (notBefore k ts) :=
    findIdx_le_of_imp _ _ (notBefore_atOrAfter k ts) es
  have hjn : es.findIdx (notBefore k ts) ≤ es.length := List.findIdx_le_length
  have hscan := refScan_to k ts es (es.findIdx (notBefore k ts) - es.findIdx (atOrAfter k))
    (es.findIdx (atOrAfter k)) (es.findIdx (notBefore k ts)) F (by omega) hjn (by omega)
    (by
      intro x _ hx2 e he
      have := List.not_of_lt_findIdx hx2
      obtain ⟨hx', e1⟩ := List.getElem?_eq_some_iff.mp he
      simp only [e1] at this
      simpa [notBefore] using this)
    (by
      intro e he
      obtain ⟨hx', e1⟩ := List.getElem?_eq_some_iff.mp he
      have := List.findIdx_getElem (w := hx')
      rw [e1] at this
      simpa [notBefore] using this)
  show (refScan k ts F ⟨es, es.findIdx (atOrAfter k) + 1⟩).kv = _
  rw [hscan, ref_kv_at]
  have : ∀ (l : List KV), l[l.findIdx (notBefore k ts)]? = l.find? (notBefore k ts) := by
    intro l
    induction l with
    | nil => rfl
    | cons y ys ih =>
      cases hy : notBefore k ts y with
      | true => simp [List.findIdx_cons, List.find?_cons, hy]
      | false => simp [List.findIdx_cons, List.find?_cons, hy, ih]
  exact this _

/-- `Sst::load` of the table model with any fuel that covers the table is the specification -/
theorem table_scan_fuel (L : List (List KV)) (D : List KV) (hne : ∀ blk ∈ L, blk ≠ []) (hs : Sorted L.flatten)
    (k : List Nat) (ts : Nat) (hd : DivOk L D (atOrAfter k)) (F : Nat) (hF : L.flatten.length + 1 ≤ F) :
    loadedOf k (sscan k ts F (sstep ⟨L, D, 0, none⟩ (.seek k))).kv = loadSpec L.flatten k ts := by
  unfold loadSpec
  congr 1
  rw [← refScan_fuel hs k ts F hF]
  obtain ⟨m, bc, h1, h2⟩ := Blue.Cursor.seek_rel L D hne (atOrAfter k) hd 0 none 0
  have e1 : sstep ⟨L, D, 0, none⟩ (.seek k) = ⟨L, D, m, bc⟩ := h1
  rw [e1]
  obtain ⟨m', bc', h3, h4, h5⟩ := sscan_rel L D hne k ts F m bc _ h2
  rw [h3, srel_kv h4 D]
  have e4 : (Ref.seek (atOrAfter k) ⟨L.flatten, 0⟩).pos = L.flatten.findIdx (atOrAfter k) + 1 := rfl
  have e3 : Ref.seek (atOrAfter k) ⟨L.flatten, 0⟩ = ⟨L.flatten, L.flatten.findIdx (atOrAfter k) + 1⟩ := rfl
  rw [e4] at h4 h5
  rw [e3]
  congr 1
  cases hh : refScan k ts F ⟨L.flatten, L.flatten.findIdx (atOrAfter k) + 1⟩ with
  | mk xs pos => rw [hh] at h5; simp only at h5; subst h5; rfl

/-! ### the round trip -/
/-- **C10** `sst_file_roundtrip`.  Feed any attempts to `SstBuilder` (refused ones change nothing)
    and `seal`.  The bytes of the file, opened as `Sst::new` opens them — trailer, `FinalBlock`,
    sanity checks, index block through its `(start, limit, crc32c)`, the `BlockMetadata` of every
    index entry, filter block; each data block through `Sst::load_block` — give a table on which
    no call fails and

    * every finite cursor program over keys shows what the reference cursor over the accepted
      entries shows (`seek(k)` = first entry with key ≥ `k`),
    * `load(k, ts)` is the newest version of `k` not newer than `ts`, its tombstone, or absent,
    * `metadata()` is the setsum handed to `seal`, the first and last accepted key, the smallest
      and biggest accepted timestamp and the length of the file,
    * the whole forward walk (`seek_to_first; next…`, as C09 renders a file) is the accepted
      entries and the backward walk their reverse, neither ending in an error.

    What stays outside: `crc` is any function that agrees, on the payloads written, with the
    writer's checksum, and the writer's checksum of those payloads fits the `fixed32` field
    (`hcrc`); the bloom filter bytes are a parameter of the length `Filter::new` gives (`hfilter`,
    `Sst::load` under "no false negatives"); the setsum digest is a parameter of 32 bytes
    (`hsetsum`); the file is shorter than 2^64 bytes; `Wf` / `Fits` as in `sst_builder_refines`. -/
theorem sst_file_roundtrip (crc : List Nat → Nat) (o : SstOpts) (atts : List KV) (filter setsum : List Nat)
    (f : SstFile) (s1 : SB)
    (hs1 : sealedState o (SB.putAll o SB.init atts).2 = .ok s1)
    (hseal : (SB.putAll o SB.init atts).2.seal o filter setsum = .ok f)
    (hts : ∀ e ∈ atts, e.ts ≤ U64MAX)
    (hwfE : ∀ e ∈ (SB.putAll o SB.init atts).2.accepted, e.Wf) (hwfD : ∀ d ∈ s1.divE, d.Wf)
    (hfitE : ∀ es ∈ s1.cutE, Fits (build o.blk es)) (hfitD : Fits (build o.blk s1.divE))
    (hsetsum : setsum.length = 32)
    (hfilter : filter.length = filterLen (SB.putAll o SB.init atts).2.count o.bloomBits)
    (hsize : f.bytes.length < U64)
    (hcrc : ∀ b, b ∈ f.index :: f.filter :: f.blocks → crc b = crc32c b ∧ crc32c b < 4294967296) :
    ∃ t, openSst crc f.bytes = .ok t
      ∧ (∀ ops : List KOp, t.run crc t.toFirst ops
          = (Ref.run ⟨(SB.putAll o SB.init atts).2.accepted, 0⟩ (ops.map KOp.toOp)).map .ok)
      ∧ (∀ (k : List Nat) (ts : Nat), t.load crc k ts = .ok (loadSpec (SB.putAll o SB.init atts).2.accepted k ts))
      ∧ t.metadata crc = .ok
          ⟨setsum,
           (match (SB.putAll o SB.init atts).2.accepted.head? with | some e => e.key | none => []),
           (match (SB.putAll o SB.init atts).2.accepted.getLast? with | some e => e.key | none => MAX_KEY),
           f.fin.smallest, f.fin.biggest, f.bytes.length⟩
      ∧ t.forward crc = ((SB.putAll o SB.init atts).2.accepted, none)
      ∧ t.backward crc = ((SB.putAll o SB.init atts).2.accepted.reverse, none) := by
  have hi := sinv_putAll o atts SB.init (sinv_init o)
  have hfi := finv_putAll o atts SB.init finv_init
  have hmi := minv_putAll o atts SB.init hts minv_init
  generalize (SB.putAll o SB.init atts).2 = s at *
  obtain ⟨c1, c2, c3, c4, c5⟩ := sealed_cut hi hs1
  have hf1 := sealed_finv hfi hs1
  obtain ⟨hm1, hacc1⟩ := sealed_minv hmi hs1
  obtain ⟨s1', hs1', fb, fi, ff, ffin⟩ := seal_eq hseal
  rw [hs1] at hs1'
  cases hs1'
  -- the cut, sorted and separated
  have hsorted : Sorted s1.cutE.flatten := by rw [c1]; exact hi.sorted
  have hsep : Separates s1.cutE s1.divE := separates_congr (dividersOf_separates s1.cutE c2 hsorted) c3
  -- the image
  have hbytes : f.bytes = imageOf f.blocks f.index f.filter f.fin := rfl
  have hA : s1.bytesWritten = (f.blocks.flatMap (frame SE_PLAIN)).length := by rw [fb]; exact hf1.written
  have hfin_i : f.fin.index = ⟨(f.blocks.flatMap (frame SE_PLAIN)).length,
      (f.blocks.flatMap (frame SE_PLAIN)).length + (frame SE_PLAIN f.index).length, crc32c f.index⟩ := by
    rw [ffin, fi, ← hA]; rfl
  have hfin_f : f.fin.filter = ⟨f.fin.index.limit, f.fin.index.limit + (frame SE_FILTER f.filter).length, crc32c f.filter⟩ := by
    rw [ffin, ff]; rfl
  have hfin_o : f.fin.offset = f.fin.filter.limit := by rw [ffin]; rfl
  have hss : f.fin.setsum.length = 32 := by rw [ffin]; exact hsetsum
  -- timestamps
  have hsmbg : f.fin.smallest < U64 ∧ f.fin.biggest < U64 := by
    rw [ffin]
    simp only [finOf]
    by_cases hc : s1.smallest > s1.biggest
    · simp only [if_pos hc]; unfold U64; omega
    · simp only [if_neg hc]
      by_cases hne : s1.accepted = []
      · obtain ⟨h1, h2⟩ := hm1.none_ hne
        rw [h1, h2] at hc; unfold U64MAX at hc; omega
      · obtain ⟨⟨a, ha1, ha2⟩, ⟨b, hb1, hb2⟩⟩ := hm1.attained hne
        rw [hacc1] at ha1 hb1
        have := (hwfE a ha1).1
        have := (hwfE b hb1).1
        omega
  -- blocks decode
  have hwfcut : ∀ es ∈ s1.cutE, ∀ e ∈ es, e.Wf := by
    intro es hes e he
    apply hwfE e
    rw [← c1]
    exact List.mem_flatten.mpr ⟨es, hes, he⟩
  have hidx : decodePlain f.index = .ok s1.divE := by
    rw [fi, c5]; exact decodePlain_seal o.blk s1.divE hwfD hfitD
  have hlen : s1.divE.length = f.blocks.length := by
    rw [fb, c4, List.length_map]; exact hsep.len
  have hL : ∀ (i : Nat) (b : List Nat), f.blocks[i]? = some b → decodePlain b = .ok (s1.cutE.getD i []) := by
    intro i b hb
    rw [fb, c4, List.getElem?_map] at hb
    cases hes : s1.cutE[i]? with
    | none => rw [hes] at hb; cases hb
    | some es =>
      rw [hes] at hb
      simp only [Option.map_some, Option.some.injEq] at hb
      subst hb
      have hmem := List.mem_of_getElem? hes
      rw [List.getD_eq_getElem?_getD, hes]
      exact decodePlain_seal o.blk es (hwfcut es hmem) (hfitE es hmem)
  have hD : s1.divE.map (·.val) = (metasOf 0 f.blocks).map (fun m => some (encBlockMeta m)) := by
    rw [fb]; exact hf1.vals
  have hfl : f.filter.length ≠ 0 ∧ f.filter.length % 32 = 0 := by
    rw [ff, hfilter]
    unfold filterLen
    simp only
    constructor
    · exact Nat.ne_of_gt (Nat.mul_pos (Nat.succ_pos _) (by omega))
    · exact Nat.mul_mod_left _ _
  have hsize' : (imageOf f.blocks f.index f.filter f.fin).length < U64 := hsize
  have hopen := open_image crc f.blocks f.index f.filter f.fin s1.divE hfin_i hfin_f hfin_o hss hsmbg.1 hsmbg.2
    hsize' hcrc hidx hD hfl
  have hload := loadIdx_image crc f.blocks f.index f.filter f.fin s1.divE hfin_i hfin_f hfin_o hss hsmbg.1 hsmbg.2
    hsize' hcrc s1.cutE hlen hL
  have hcutlen : f.blocks.length = s1.cutE.length := by rw [fb, c4, List.length_map]
  rw [hbytes]
  refine ⟨_, hopen, ?_, ?_, ?_, ?_⟩
  all_goals
    have hn : (List.zipWith (fun (d : KV) (m : BlockMeta) => (d.key, m)) s1.divE (metasOf 0 f.blocks)).length = s1.cutE.length := by
      rw [List.length_zipWith, metasOf_length, hlen, hcutlen, Nat.min_self]
    have hkeys := zipWith_keys s1.divE (metasOf 0 f.blocks) (by rw [metasOf_length]; exact hlen)
    have hld : ∀ i, i < s1.cutE.length → Opened.loadIdx crc ⟨imageOf f.blocks f.index f.filter f.fin,
        ⟨f.fin.index, f.fin.filter, f.fin.setsum, f.fin.smallest, f.fin.biggest⟩,
        List.zipWith (fun d m => (d.key, m)) s1.divE (metasOf 0 f.blocks), (imageOf f.blocks f.index f.filter f.fin).length⟩ i
        = .ok (s1.cutE.getD i []) := fun i hi => hload i (by omega)
  · intro ops
    have h1 := run_sim crc _ s1.cutE s1.divE hn hkeys hld ops 0 none (wb_none (Nat.zero_le _))
    have h2 := separates_cursor_refines s1.cutE s1.divE c2 hsep ops
    rw [c1] at h2
    show Opened.run crc _ ⟨0, none⟩ ops = _
    rw [h1, h2]
  · intro k ts
    have h1 := load_sim crc _ s1.cutE s1.divE hn hkeys hld k ts
    rw [h1]
    congr 1
    have hfuel : s1.cutE.flatten.length + 1 ≤ (imageOf f.blocks f.index f.filter f.fin).length + 2 := by
      have := frames_count o.blk s1.cutE
      rw [← c4, ← fb] at this
      simp only [imageOf, List.length_append]
      omega
    have := table_scan_fuel s1.cutE s1.divE c2 hsorted k ts (separates_divOk hsep k) _ hfuel
    rw [c1] at this
    exact this
  · have h1 := metadata_sim crc _ s1.cutE s1.divE hn hld
    rw [h1]
    congr 1
    obtain ⟨k1, k2⟩ := metadata_keys ⟨s1.cutE, s1.divE, (imageOf f.blocks f.index f.filter f.fin).length,
      f.fin.setsum, f.fin.smallest, f.fin.biggest⟩ c2
    simp only [c1] at k1 k2
    have hset : f.fin.setsum = setsum := by rw [ffin]; rfl
    have e : Table.metadata ⟨s1.cutE, s1.divE, (imageOf f.blocks f.index f.filter f.fin).length,
        f.fin.setsum, f.fin.smallest, f.fin.biggest⟩
        = ⟨f.fin.setsum, (Table.metadata ⟨s1.cutE, s1.divE, (imageOf f.blocks f.index f.filter f.fin).length,
            f.fin.setsum, f.fin.smallest, f.fin.biggest⟩).firstKey,
           (Table.metadata ⟨s1.cutE, s1.divE, (imageOf f.blocks f.index f.filter f.fin).length,
            f.fin.setsum, f.fin.smallest, f.fin.biggest⟩).lastKey, f.fin.smallest, f.fin.biggest,
           (imageOf f.blocks f.index f.filter f.fin).length⟩ := rfl
    rw [e, k1, k2]
    exact congrArg (fun x => Metadata.mk x _ _ _ _ _) hset
  · have hfuel : s1.cutE.flatten.length + 1 ≤ (imageOf f.blocks f.index f.filter f.fin).length + 2 := by
      have := frames_count o.blk s1.cutE
      rw [← c4, ← fb] at this
      simp only [imageOf, List.length_append]
      omega
    have := walks_sim crc _ s1.cutE hn hld c2 hfuel
    rw [c1] at this
    exact this

/-! ### the writer's checksum fits its field -/
theorem crcBit_lt (c : Nat) (h : c < 2 ^ 32) : crcBit c < 2 ^ 32 := by
  unfold crcBit
  split
  · exact Nat.xor_lt_two_pow (by omega) (by decide)
  · omega

theorem crcByte_lt (c b : Nat) (hc : c < 2 ^ 32) (hb : b < 256) : crcByte c b < 2 ^ 32 := by
  unfold crcByte
  have h0 : c ^^^ b < 2 ^ 32 := Nat.xor_lt_two_pow hc (by omega)
  exact crcBit_lt _ (crcBit_lt _ (crcBit_lt _ (crcBit_lt _ (crcBit_lt _ (crcBit_lt _ (crcBit_lt _ (crcBit_lt _ h0)))))))

theorem foldl_crc_lt : ∀ (bs : List Nat) (c : Nat), c < 2 ^ 32 → (∀ b ∈ bs, b < 256) → bs.foldl crcByte c < 2 ^ 32
  | [], c, hc, _ => hc
  | b :: bs, c, hc, hb => by
    simp only [List.foldl_cons]
    exact foldl_crc_lt bs _ (crcByte_lt c b hc (hb b (List.mem_cons_self ..)))
      (fun x hx => hb x (List.mem_cons_of_mem _ hx))

/-- CRC32C of a byte string is a 32-bit value -/
theorem crc32c_lt (bs : List Nat) (h : ∀ b ∈ bs, b < 256) : crc32c bs < 4294967296 := by
  unfold crc32c
  exact Nat.xor_lt_two_pow (n := 32) (foldl_crc_lt bs _ (by decide) h) (by decide)

/-- **C10** the round trip with the model's own CRC32C on both sides: the only thing asked of the
    payloads is that they are byte strings -/
theorem sst_file_roundtrip_crc32c (o : SstOpts) (atts : List KV) (filter setsum : List Nat)
    (f : SstFile) (s1 : SB)
    (hs1 : sealedState o (SB.putAll o SB.init atts).2 = .ok s1)
    (hseal : (SB.putAll o SB.init atts).2.seal o filter setsum = .ok f)
    (hts : ∀ e ∈ atts, e.ts ≤ U64MAX)
    (hwfE : ∀ e ∈ (SB.putAll o SB.init atts).2.accepted, e.Wf) (hwfD : ∀ d ∈ s1.divE, d.Wf)
    (hfitE : ∀ es ∈ s1.cutE, Fits (build o.blk es)) (hfitD : Fits (build o.blk s1.divE))
    (hsetsum : setsum.length = 32)
    (hfilter : filter.length = filterLen (SB.putAll o SB.init atts).2.count o.bloomBits)
    (hsize : f.bytes.length < U64)
    (hbytes : ∀ b, b ∈ f.index :: f.filter :: f.blocks → ∀ x ∈ b, x < 256) :
    ∃ t, openSst crc32c f.bytes = .ok t
      ∧ (∀ ops : List KOp, t.run crc32c t.toFirst ops
          = (Ref.run ⟨(SB.putAll o SB.init atts).2.accepted, 0⟩ (ops.map KOp.toOp)).map .ok)
      ∧ (∀ (k : List Nat) (ts : Nat), t.load crc32c k ts = .ok (loadSpec (SB.putAll o SB.init atts).2.accepted k ts))
      ∧ t.metadata crc32c = .ok
          ⟨setsum,
           (match (SB.putAll o SB.init atts).2.accepted.head? with | some e => e.key | none => []),
           (match (SB.putAll o SB.init atts).2.accepted.getLast? with | some e => e.key | none => MAX_KEY),
           f.fin.smallest, f.fin.biggest, f.bytes.length⟩
      ∧ t.forward crc32c = ((SB.putAll o SB.init atts).2.accepted, none)
      ∧ t.backward crc32c = ((SB.putAll o SB.init atts).2.accepted.reverse, none) :=
  sst_file_roundtrip crc32c o atts filter setsum f s1 hs1 hseal hts hwfE hwfD hfitE hfitD hsetsum hfilter hsize
    (fun b hb => ⟨rfl, crc32c_lt b (hbytes b hb)⟩)

end Blue.SstOpen
