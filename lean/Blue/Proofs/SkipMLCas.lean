import Blue.Proofs.SkipMLSteps2
/-! The CAS that links a node at one level. -/
namespace Blue.SkipML
open Blue.SkipList (Node keyOf nextOf setNextAt SChain idsAfter insertAfter)

/-- the chains after thread `i` has linked `nd` behind `p` at level `idx` -/
def idsCas (ids : Nat → List Nat) (idx p nd : Nat) : Nat → List Nat :=
  fun l => if l = idx then idsAfter p nd (ids idx) else ids l

theorem idsCas_same (ids : Nat → List Nat) (idx p nd : Nat) : idsCas ids idx p nd idx = idsAfter p nd (ids idx) := by
  simp [idsCas]

theorem idsCas_other (ids : Nat → List Nat) (idx p nd l : Nat) (h : l ≠ idx) : idsCas ids idx p nd l = ids l := by
  simp [idsCas, h]

theorem idsCas_sub (ids : Nat → List Nat) (idx p nd : Nat) : ∀ l x, x ∈ ids l → x ∈ idsCas ids idx p nd l := by
  intro l x hx
  by_cases hl : l = idx
  · subst hl; rw [idsCas_same]; exact Blue.SkipList.mem_idsAfter hx
  · rw [idsCas_other _ _ _ _ _ hl]; exact hx

theorem idsCas_sup (ids : Nat → List Nat) (idx p nd : Nat) : ∀ l x, x ∈ idsCas ids idx p nd l → x = nd ∨ x ∈ ids l := by
  intro l x hx
  by_cases hl : l = idx
  · subst hl; rw [idsCas_same] at hx; exact Blue.SkipList.of_mem_idsAfter hx
  · rw [idsCas_other _ _ _ _ _ hl] at hx; exact Or.inr hx

theorem idsCas_sup' (ids : Nat → List Nat) (idx p nd : Nat) : ∀ l x, x ∈ idsCas ids idx p nd l → (l = idx ∧ x = nd) ∨ x ∈ ids l := by
  intro l x hx
  by_cases hl : l = idx
  · subst hl
    rw [idsCas_same] at hx
    rcases Blue.SkipList.of_mem_idsAfter hx with h1 | h1
    · exact Or.inl ⟨rfl, h1⟩
    · exact Or.inr h1
  · rw [idsCas_other _ _ _ _ _ hl] at hx; exact Or.inr hx

/-- everything a successful CAS establishes that does not depend on where the thread goes next -/
structure CasFacts (s : St) (ids : Nat → List Nat) (i nd k idx hh : Nat) (prev : List Nat) (obs : List (Option Nat))
    (heap' : List MNode) (ins' : List Nat) (ids' : Nat → List Nat) : Prop where
  head : ∃ h0, heap'[0]? = some h0 ∧ h0.nexts.length = s.H
  chains : ∀ l, l < s.H → SChain (proj l heap') none (mnext heap' l 0) (ids' l)
  empty : ∀ l, s.H ≤ l → ids' l = []
  noHead : ∀ l, 0 ∉ ids' l
  sub : ∀ l n, n ∈ ids' (l + 1) → n ∈ ids' l
  tall : ∀ l n, n ∈ ids' l → l < height heap' n
  keys : ∀ k', k' ∈ ins' ↔ ∃ n ∈ ids' 0, mkey heap' n = k'
  others : ∀ j, j ≠ i → ∀ o ∈ thObls s.H (th s j), Holds heap' ins' ids' o
  pos : ∀ o ∈ posObls (th s i).pos, Holds heap' ins' ids' o
  own : InsFacts { s with heap := heap', inserted := ins' } ids' nd k (idx + 1) hh prev obs

theorem cas_facts {s : St} {ids} (h : MInv s ids) (i nd k idx hh : Nat) (prev : List Nat) (obs : List (Option Nat))
    (hpc : (th s i).pc = .cas nd k idx hh prev obs)
    (hcas : mnext s.heap idx (prev.getD idx 0) = obs.getD idx none) :
    CasFacts s ids i nd k idx hh prev obs (msetNext s.heap idx (prev.getD idx 0) (some nd))
      (if idx = 0 then k :: s.inserted else s.inserted) (idsCas ids idx (prev.getD idx 0) nd) := by
  have hP := h.pure i
  rw [hpc] at hP
  obtain ⟨hidx, hhH, hpl, hol⟩ := hP
  have hidxH : idx < s.H := by omega
  have f : InsFacts s ids nd k idx hh prev obs :=
    insFacts_of (fun o ho => own_obl h i hpc o (by simp only [obls, List.mem_cons]; exact Or.inr ho))
  have hnextIs := own_obl h i hpc (.nextIs idx nd (obs.getD idx none)) (by simp [obls])
  obtain ⟨hnd0, hndlt, hndh, hndk⟩ := f.node
  have hndidx : nd ∉ ids idx := f.above idx (Nat.le_refl _)
  generalize hp : prev.getD idx 0 = p at hcas ⊢
  have hstand : StandOk s.heap ids k idx p := hp ▸ f.prevs idx (Nat.le_refl _) hidx
  have hpp : p = 0 ∨ p ∈ ids idx := by
    rcases hstand with h1 | h1
    · exact Or.inl h1
    · exact Or.inr h1.1
  have hndp : nd ≠ p := by
    rcases hpp with h1 | h1
    · omega
    · exact fun e => hndidx (e ▸ h1)
  have hpheight : idx < height s.heap p := by
    rcases hpp with h1 | h1
    · rw [h1, minv_height_head h]; exact hidxH
    · exact h.tall idx p h1
  have hk := mkey_msetNext s.heap idx p
  have hlen := length_msetNext s.heap idx p (some nd)
  have hht := height_msetNext s.heap idx p
  let ids' := idsCas ids idx p nd
  have hsub := idsCas_sub ids idx p nd
  have hsup := idsCas_sup ids idx p nd
  have hndin : nd ∈ ids' idx := by
    show nd ∈ idsCas ids idx p nd idx
    rw [idsCas_same]
    exact Blue.SkipList.nd_mem_idsAfter hpp (h.noHead idx)
  -- the level-`idx` view
  have hP : proj idx (msetNext s.heap idx p (some nd)) = setNextAt (proj idx s.heap) p (some nd) :=
    proj_msetNext_same s.heap idx p (some nd) hpheight
  have hc := h.chains idx hidxH
  have hndget : (proj idx s.heap)[nd]? = some ⟨k, nextOf (proj idx s.heap) p⟩ := by
    rw [proj_get, nextOf_proj]
    have hg : s.heap[nd]? = some s.heap[nd] := by simp [hndlt]
    rw [hg]
    simp only [Option.map_some, Option.some.injEq]
    have e1 : mkey s.heap nd = s.heap[nd].key := by simp [mkey, hg]
    have e2 : mnext s.heap idx nd = towerNext s.heap[nd] idx := by simp [mnext, hg]
    rw [← e1, ← e2, hndk, hnextIs.2, hcas]
  have hobs' : ∀ o, nextOf (proj idx s.heap) p = some o → k < keyOf (proj idx s.heap) o := by
    intro o ho
    rw [nextOf_proj, hcas] at ho
    rw [keyOf_proj]
    exact (f.obss idx (Nat.le_refl _) hidx o ho).2
  refine ⟨?_, ?_, ?_, ?_, ?_, ?_, ?_, ?_, ?_, ?_⟩
  · -- head
    obtain ⟨h0, hh0, hl⟩ := h.head
    by_cases hp0 : p = 0
    · subst hp0
      exact ⟨_, get_msetNext_self s.heap idx 0 (some nd) h0 hh0, by simp [hl]⟩
    · exact ⟨h0, by rw [get_msetNext_ne s.heap idx p 0 (some nd) (fun e => hp0 e.symm)]; exact hh0, hl⟩
  · -- chains
    intro l hl
    by_cases hli : l = idx
    · subst hli
      show SChain (proj l (msetNext s.heap l p (some nd))) none (mnext (msetNext s.heap l p (some nd)) l 0) (idsCas ids l p nd l)
      rw [hP, idsCas_same]
      unfold idsAfter
      by_cases hp0 : p = 0
      · subst hp0
        rw [if_pos rfl, mnext_msetNext_self s.heap l 0 (some nd) hpheight]
        have hn0 : nextOf (proj l s.heap) 0 = mnext s.heap l 0 := nextOf_proj l s.heap 0
        have hndget' : (setNextAt (proj l s.heap) 0 (some nd))[nd]? = some ⟨k, mnext s.heap l 0⟩ := by
          rw [Blue.SkipList.get_setNextAt_ne (proj l s.heap) 0 nd _ (by omega), hndget, hn0]
        refine SChain.cons hndget' (fun l' hl' => by cases hl') ?_
        simp only
        apply Blue.SkipList.schain_frame _ (fun x hx =>
          Blue.SkipList.get_setNextAt_ne (proj l s.heap) 0 x _ (fun e => h.noHead l (e ▸ hx)))
        apply Blue.SkipList.schain_rebound hc
        intro l' n hl' hn
        cases hl'
        exact hobs' n (by rw [hn0]; exact hn)
      · rw [if_neg hp0, mnext_msetNext_ne s.heap l p (some nd) l 0 (fun e => hp0 e.2.symm)]
        have hpids : p ∈ ids l := by
          rcases hpp with h1 | h1
          · exact absurd h1 hp0
          · exact h1
        have hklt : keyOf (proj l s.heap) p < k := by
          rw [keyOf_proj]
          rcases hstand with h1 | h1
          · exact absurd h1 hp0
          · exact h1.2
        exact Blue.SkipList.schain_insert hc p nd k hpids hklt hndidx hndget hobs'
    · show SChain (proj l (msetNext s.heap idx p (some nd))) none (mnext (msetNext s.heap idx p (some nd)) l 0) (idsCas ids idx p nd l)
      rw [proj_msetNext_other s.heap idx p l (some nd) hli, mnext_msetNext_ne s.heap idx p (some nd) l 0 (fun e => hli e.1),
        idsCas_other _ _ _ _ _ hli]
      exact h.chains l hl
  · -- empty
    intro l hl
    show idsCas ids idx p nd l = []
    rw [idsCas_other _ _ _ _ _ (by omega)]
    exact h.empty l hl
  · -- noHead
    intro l hm
    rcases hsup l 0 hm with h1 | h1
    · omega
    · exact h.noHead l h1
  · -- sub
    intro l n hn
    rcases idsCas_sup' ids idx p nd (l + 1) n hn with ⟨h1, h2⟩ | h1
    · subst h2
      exact hsub l n (f.below l (by omega))
    · exact hsub l n (h.sub l n h1)
  · -- tall
    intro l n hn
    rw [hht]
    rcases idsCas_sup' ids idx p nd l n hn with ⟨h1, h2⟩ | h1
    · subst h1 h2; rw [hndh]; exact hidx
    · exact h.tall l n h1
  · -- keys
    intro k'
    simp only [hk]
    by_cases h0 : idx = 0
    · subst h0
      rw [if_pos rfl]
      simp only [List.mem_cons]
      constructor
      · intro hm
        rcases hm with rfl | hm
        · exact ⟨nd, hndin, hndk⟩
        · obtain ⟨n, hn, hkn⟩ := (h.keys k').mp hm
          exact ⟨n, hsub 0 n hn, hkn⟩
      · intro ⟨n, hn, hkn⟩
        rcases hsup 0 n hn with rfl | hn
        · exact Or.inl (by rw [← hkn, hndk])
        · exact Or.inr ((h.keys k').mpr ⟨n, hn, hkn⟩)
    · rw [if_neg h0]
      show k' ∈ s.inserted ↔ ∃ n ∈ idsCas ids idx p nd 0, mkey s.heap n = k'
      rw [idsCas_other _ _ _ _ _ (fun e => h0 e.symm)]
      exact h.keys k'
  · -- the other threads
    intro j hj o ho
    have hij : i ≠ j := fun e => hj e.symm
    apply holds_widen nd k hsub hsup _ o
    · intro hn
      simp only [thObls, List.mem_append] at ho
      rcases ho with ho | ho
      · exact h.distinctNodes i j hij nd (by rw [hpc]; rfl) (oblNode_obls ho hn)
      · cases hpos : (th s j).pos <;> simp [hpos, posObls] at ho
        subst ho; simp [oblNode] at hn
    · intro hn
      simp only [thObls, List.mem_append] at ho
      rcases ho with ho | ho
      · exact h.distinctKeys i j hij k (by rw [hpc]; rfl) (oblFresh_obls ho hn)
      · cases hpos : (th s j).pos <;> simp [hpos, posObls] at ho
        subst ho; simp [oblFresh] at hn
    · apply holds_store idx p (some nd) o _ (h.threads j o ho)
      intro l nd' v' ho' ⟨h1, h2⟩
      subst ho'
      obtain ⟨_, hpos', hnot⟩ := minv_nextIs h j l nd' v' ho
      subst h1 h2
      rcases hpp with h3 | h3
      · omega
      · exact hnot h3
    · intro k' hk'
      split at hk'
      · simpa using hk'
      · exact Or.inr hk'
  · -- the iterator of the stepping thread
    intro o ho
    cases hpos : (th s i).pos with
    | none => rw [hpos] at ho; simp [posObls] at ho
    | some x =>
      rw [hpos] at ho
      simp only [posObls, List.mem_cons, List.mem_nil_iff, or_false] at ho
      subst ho
      rcases pos_ok h i x hpos with h1 | h1
      · exact Or.inl h1
      · exact Or.inr (hsub 0 x h1)
  · -- the stepping thread's node, one level up
    refine ⟨⟨hnd0, by show nd < (msetNext s.heap idx p (some nd)).length; rw [hlen]; exact hndlt,
      by show height (msetNext s.heap idx p (some nd)) nd = hh; rw [hht]; exact hndh,
      by show mkey (msetNext s.heap idx p (some nd)) nd = k; rw [hk]; exact hndk⟩, ?_, ?_, ?_, ?_, ?_⟩
    · intro j hj
      by_cases hji : j = idx
      · subst hji; exact hndin
      · exact hsub j nd (f.below j (by omega))
    · intro j hj hm
      have hji : j ≠ idx := by omega
      have hm' : nd ∈ idsCas ids idx p nd j := hm
      rw [idsCas_other _ _ _ _ _ hji] at hm'
      exact f.above j (by omega) hm'
    · intro j h1 h2
      show StandOk (msetNext s.heap idx p (some nd)) (idsCas ids idx p nd) k j (prev.getD j 0)
      rcases f.prevs j (by omega) h2 with h3 | ⟨h3, h4⟩
      · exact Or.inl h3
      · exact Or.inr ⟨hsub j _ h3, by rw [hk]; exact h4⟩
    · intro j h1 h2 n hn
      show n < (msetNext s.heap idx p (some nd)).length ∧ k < mkey (msetNext s.heap idx p (some nd)) n
      rw [hlen, hk]
      exact f.obss j (by omega) h2 n hn
    · intro h0; omega

end Blue.SkipML
