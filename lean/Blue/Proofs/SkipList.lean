import Blue.Proofs.SkipChain
/-! The level-0 chain of the lock-free skiplist under every interleaving of inserts. -/
namespace Blue.SkipList

def pcKey (heap : List Node) : PC → Option Nat
  | .idle => none
  | .find k _ _ => some k
  | .alloc k _ _ => some k
  | .setNext nd _ _ => some (keyOf heap nd)
  | .cas nd _ _ => some (keyOf heap nd)

def pcNode : PC → Option Nat
  | .find _ _ nd => nd
  | .setNext nd _ _ => some nd
  | .cas nd _ _ => some nd
  | _ => none

/-- the search has arrived at a published node before the key (or at the head); the key is new -/
def TOk (heap : List Node) (ins ids : List Nat) (k prev : Nat) : Prop :=
  (prev = 0 ∨ (prev ∈ ids ∧ keyOf heap prev < k)) ∧ k ∉ ins

def ObsOk (heap : List Node) (k : Nat) (obs : Option Nat) : Prop :=
  ∀ o, obs = some o → o < heap.length ∧ k < keyOf heap o

/-- the thread's own node: allocated, not yet published, carrying the key -/
def NodeOk (heap : List Node) (ids : List Nat) (k nd : Nat) : Prop :=
  0 < nd ∧ nd < heap.length ∧ nd ∉ ids ∧ keyOf heap nd = k

def T (heap : List Node) (ins ids : List Nat) : PC → Prop
  | .idle => True
  | .find k prev node => TOk heap ins ids k prev ∧ ∀ nd, node = some nd → NodeOk heap ids k nd
  | .alloc k prev obs => TOk heap ins ids k prev ∧ ObsOk heap k obs
  | .setNext nd prev obs =>
    TOk heap ins ids (keyOf heap nd) prev ∧ ObsOk heap (keyOf heap nd) obs ∧ NodeOk heap ids (keyOf heap nd) nd
  | .cas nd prev obs =>
    TOk heap ins ids (keyOf heap nd) prev ∧ ObsOk heap (keyOf heap nd) obs ∧ NodeOk heap ids (keyOf heap nd) nd
      ∧ nextOf heap nd = obs

structure Inv (s : St) (ids : List Nat) : Prop where
  head : ∃ h0, s.heap[0]? = some h0 ∧ SChain s.heap none h0.next ids
  noHead : 0 ∉ ids
  keys : ∀ k, k ∈ s.inserted ↔ ∃ n ∈ ids, keyOf s.heap n = k
  threads : ∀ i, T s.heap s.inserted ids (s.pcs i)
  distinctKeys : ∀ i j, i ≠ j → ∀ k, pcKey s.heap (s.pcs i) = some k → pcKey s.heap (s.pcs j) ≠ some k
  distinctNodes : ∀ i j, i ≠ j → ∀ n, pcNode (s.pcs i) = some n → pcNode (s.pcs j) ≠ some n

theorem setPc_same (pcs : Nat → PC) (i : Nat) (pc : PC) : setPc pcs i pc i = pc := by simp [setPc]
theorem setPc_other (pcs : Nat → PC) (i j : Nat) (pc : PC) (h : j ≠ i) : setPc pcs i pc j = pcs j := by
  simp [setPc, h]

theorem inv_ids_lt {s : St} {ids} (h : Inv s ids) : ∀ n ∈ ids, n < s.heap.length := by
  obtain ⟨h0, _, hc⟩ := h.head
  exact schain_lt hc

/-! ### frame lemmas: what a step of one thread does to another thread's obligations -/

theorem keyOf_append (heap : List Node) (x : Node) (n : Nat) (h : n < heap.length) :
    keyOf (heap ++ [x]) n = keyOf heap n := by
  simp [keyOf, List.getElem?_append_left h]

theorem nextOf_append (heap : List Node) (x : Node) (n : Nat) (h : n < heap.length) :
    nextOf (heap ++ [x]) n = nextOf heap n := by
  simp [nextOf, List.getElem?_append_left h]

theorem nextOf_setNextAt_ne (heap : List Node) (p x : Nat) (nx : Option Nat) (h : x ≠ p) :
    nextOf (setNextAt heap p nx) x = nextOf heap x := by
  simp [nextOf, get_setNextAt_ne heap p x nx h]

/-- allocation of a new node leaves every obligation about existing nodes intact -/
theorem T_append {heap : List Node} {ins ids : List Nat} (hids : ∀ n ∈ ids, n < heap.length) (x : Node) (pc : PC)
    (h : T heap ins ids pc) : T (heap ++ [x]) ins ids pc := by
  have hprev : ∀ k prev, TOk heap ins ids k prev → TOk (heap ++ [x]) ins ids k prev := by
    intro k prev ⟨h1, h2⟩
    refine ⟨?_, h2⟩
    rcases h1 with h1 | ⟨h1, h3⟩
    · exact Or.inl h1
    · exact Or.inr ⟨h1, by rw [keyOf_append heap x prev (hids prev h1)]; exact h3⟩
  have hobs : ∀ k obs, ObsOk heap k obs → ObsOk (heap ++ [x]) k obs := by
    intro k obs ho o hoe
    obtain ⟨h1, h2⟩ := ho o hoe
    exact ⟨by simp; omega, by rw [keyOf_append heap x o h1]; exact h2⟩
  have hnode : ∀ k nd, NodeOk heap ids k nd → NodeOk (heap ++ [x]) ids k nd := by
    intro k nd ⟨h1, h2, h3, h4⟩
    exact ⟨h1, by simp; omega, h3, by rw [keyOf_append heap x nd h2]; exact h4⟩
  cases pc with
  | idle => trivial
  | find k prev node => exact ⟨hprev _ _ h.1, fun nd hnd => hnode _ _ (h.2 nd hnd)⟩
  | alloc k prev obs => exact ⟨hprev _ _ h.1, hobs _ _ h.2⟩
  | setNext nd prev obs =>
    obtain ⟨h1, h2, h3⟩ := h
    have hk : keyOf (heap ++ [x]) nd = keyOf heap nd := keyOf_append heap x nd h3.2.1
    simp only [T, hk]
    exact ⟨hprev _ _ h1, hobs _ _ h2, hnode _ _ h3⟩
  | cas nd prev obs =>
    obtain ⟨h1, h2, h3, h4⟩ := h
    have hk : keyOf (heap ++ [x]) nd = keyOf heap nd := keyOf_append heap x nd h3.2.1
    simp only [T, hk]
    exact ⟨hprev _ _ h1, hobs _ _ h2, hnode _ _ h3, by rw [nextOf_append heap x nd h3.2.1]; exact h4⟩

/-- writing the `next` of node `p` leaves intact the obligations of a thread whose own node is not `p` -/
theorem T_setNext {heap : List Node} {ins ids : List Nat} (p : Nat) (nx : Option Nat) (pc : PC)
    (hne : pcNode pc ≠ some p) (h : T heap ins ids pc) : T (setNextAt heap p nx) ins ids pc := by
  have hk := keyOf_setNextAt heap p
  have hl := length_setNextAt heap p nx
  cases pc with
  | idle => trivial
  | find k prev node =>
    simp only [T, TOk, NodeOk, hk, hl] at h ⊢; exact h
  | alloc k prev obs =>
    simp only [T, TOk, ObsOk, hk, hl] at h ⊢; exact h
  | setNext nd prev obs =>
    simp only [T, TOk, ObsOk, NodeOk, hk, hl] at h ⊢; exact h
  | cas nd prev obs =>
    have hnd : nd ≠ p := fun e => hne (by simp [pcNode, e])
    simp only [T, TOk, ObsOk, NodeOk, hk, hl, nextOf_setNextAt_ne heap p nd nx hnd] at h ⊢; exact h

/-- a successful CAS of another thread (new key `k`, new chain node `nd`) leaves intact the
    obligations of a thread with a different key and a different node -/
theorem T_widen {heap : List Node} {ins ids ids' : List Nat} (k nd : Nat) (pc : PC)
    (hsub : ∀ x ∈ ids, x ∈ ids') (hsup : ∀ x ∈ ids', x = nd ∨ x ∈ ids)
    (hnode : pcNode pc ≠ some nd) (hkey : pcKey heap pc ≠ some k)
    (h : T heap ins ids pc) : T heap (k :: ins) ids' pc := by
  have hprev : ∀ kj prev, kj ≠ k → TOk heap ins ids kj prev → TOk heap (k :: ins) ids' kj prev := by
    intro kj prev hne ⟨h1, h2⟩
    refine ⟨?_, ?_⟩
    · rcases h1 with h1 | ⟨h1, h3⟩
      · exact Or.inl h1
      · exact Or.inr ⟨hsub prev h1, h3⟩
    · intro hm
      simp only [List.mem_cons] at hm
      rcases hm with hm | hm
      · exact hne hm
      · exact h2 hm
  have hnd : ∀ kj n, n ≠ nd → NodeOk heap ids kj n → NodeOk heap ids' kj n := by
    intro kj n hne ⟨h1, h2, h3, h4⟩
    refine ⟨h1, h2, ?_, h4⟩
    intro hm
    rcases hsup n hm with h | h
    · exact hne h
    · exact h3 h
  cases pc with
  | idle => trivial
  | find kj prev node =>
    have hk : kj ≠ k := fun e => hkey (by simp [pcKey, e])
    refine ⟨hprev _ _ hk h.1, ?_⟩
    intro n hn
    exact hnd _ _ (fun e => hnode (by simp [pcNode, hn, e])) (h.2 n hn)
  | alloc kj prev obs =>
    have hk : kj ≠ k := fun e => hkey (by simp [pcKey, e])
    exact ⟨hprev _ _ hk h.1, h.2⟩
  | setNext n prev obs =>
    have hk : keyOf heap n ≠ k := fun e => hkey (by simp [pcKey, e])
    have hn : n ≠ nd := fun e => hnode (by simp [pcNode, e])
    exact ⟨hprev _ _ hk h.1, h.2.1, hnd _ _ hn h.2.2⟩
  | cas n prev obs =>
    have hk : keyOf heap n ≠ k := fun e => hkey (by simp [pcKey, e])
    have hn : n ≠ nd := fun e => hnode (by simp [pcNode, e])
    exact ⟨hprev _ _ hk h.1, h.2.1, hnd _ _ hn h.2.2.1, h.2.2.2⟩

/-- `pcKey` only looks at keys, which no step changes for existing nodes -/
theorem pcKey_congr {heap heap' : List Node} (pc : PC)
    (h : ∀ n, pcNode pc = some n → keyOf heap' n = keyOf heap n) : pcKey heap' pc = pcKey heap pc := by
  cases pc with
  | idle => rfl
  | find _ _ _ => rfl
  | alloc _ _ _ => rfl
  | setNext n _ _ => simp only [pcKey]; rw [h n rfl]
  | cas n _ _ => simp only [pcKey]; rw [h n rfl]

/-- a step that only moves one thread's program counter, keeping its key and node -/
theorem inv_pcs_only {s : St} {ids : List Nat} (h : Inv s ids) (i : Nat) (pc' : PC)
    (hT : T s.heap s.inserted ids pc') (hk : pcKey s.heap pc' = pcKey s.heap (s.pcs i))
    (hn : pcNode pc' = pcNode (s.pcs i)) :
    Inv { s with pcs := setPc s.pcs i pc' } ids := by
  refine ⟨h.head, h.noHead, h.keys, ?_, ?_, ?_⟩
  · intro j
    by_cases hj : j = i
    · subst hj; simp only [setPc_same]; exact hT
    · simp only [setPc_other _ _ _ _ hj]; exact h.threads j
  · intro a b hab k ha hb
    by_cases hai : a = i
    · subst hai
      simp only [setPc_same] at ha
      have hbi : b ≠ a := fun e => hab e.symm
      simp only [setPc_other _ _ _ _ hbi] at hb
      rw [hk] at ha
      exact h.distinctKeys a b hab k ha hb
    · simp only [setPc_other _ _ _ _ hai] at ha
      by_cases hbi : b = i
      · subst hbi
        simp only [setPc_same] at hb
        rw [hk] at hb
        exact h.distinctKeys a b hab k ha hb
      · simp only [setPc_other _ _ _ _ hbi] at hb
        exact h.distinctKeys a b hab k ha hb
  · intro a b hab n ha hb
    by_cases hai : a = i
    · subst hai
      simp only [setPc_same] at ha
      have hbi : b ≠ a := fun e => hab e.symm
      simp only [setPc_other _ _ _ _ hbi] at hb
      rw [hn] at ha
      exact h.distinctNodes a b hab n ha hb
    · simp only [setPc_other _ _ _ _ hai] at ha
      by_cases hbi : b = i
      · subst hbi
        simp only [setPc_same] at hb
        rw [hn] at hb
        exact h.distinctNodes a b hab n ha hb
      · simp only [setPc_other _ _ _ _ hbi] at hb
        exact h.distinctNodes a b hab n ha hb

/-- the node after a published node (or after the head) is published -/
theorem next_published {s : St} {ids : List Nat} (h : Inv s ids) (prev n : Nat)
    (hp : prev = 0 ∨ prev ∈ ids) (hn : nextOf s.heap prev = some n) : n ∈ ids := by
  obtain ⟨h0, hh0, hc⟩ := h.head
  rcases hp with rfl | hp
  · rw [nextOf_of_get hh0] at hn
    rw [hn] at hc
    exact schain_head_mem hc
  · exact schain_next_mem hc prev hp n hn

theorem inv_step_find {s : St} {ids : List Nat} (h : Inv s ids) (i k prev : Nat) (node : Option Nat)
    (hpc : s.pcs i = .find k prev node) : Inv (step s i) ids := by
  have hT := h.threads i
  rw [hpc] at hT
  obtain ⟨⟨hprev, hfresh⟩, hnode⟩ := hT
  have hpp : prev = 0 ∨ prev ∈ ids := by
    rcases hprev with h1 | h1
    · exact Or.inl h1
    · exact Or.inr h1.1
  simp only [step, hpc]
  cases hnx : nextOf s.heap prev with
  | some n =>
    have hnids := next_published h prev n hpp hnx
    simp only
    by_cases hlt : keyOf s.heap n < k
    · rw [if_pos hlt]
      apply inv_pcs_only h i
      · exact ⟨⟨Or.inr ⟨hnids, hlt⟩, hfresh⟩, hnode⟩
      · rw [hpc]; rfl
      · rw [hpc]; rfl
    · rw [if_neg hlt]
      -- the key of a published node is an inserted key, so it differs from the new key
      have hkn : k < keyOf s.heap n := by
        have : keyOf s.heap n ≠ k := by
          intro e
          exact hfresh ((h.keys k).mpr ⟨n, hnids, e⟩)
        omega
      have hobs : ObsOk s.heap k (some n) := by
        intro o ho; cases ho; exact ⟨inv_ids_lt h n hnids, hkn⟩
      cases node with
      | none =>
        simp only
        apply inv_pcs_only h i
        · exact ⟨⟨hprev, hfresh⟩, hobs⟩
        · rw [hpc]; rfl
        · rw [hpc]; rfl
      | some nd =>
        simp only
        have hno := hnode nd rfl
        have hknd : keyOf s.heap nd = k := hno.2.2.2
        apply inv_pcs_only h i
        · simp only [T, hknd]; exact ⟨⟨hprev, hfresh⟩, hobs, hno⟩
        · rw [hpc]; simp only [pcKey, hknd]
        · rw [hpc]; rfl
  | none =>
    simp only
    have hobs : ObsOk s.heap k none := by intro o ho; cases ho
    cases node with
    | none =>
      simp only
      apply inv_pcs_only h i
      · exact ⟨⟨hprev, hfresh⟩, hobs⟩
      · rw [hpc]; rfl
      · rw [hpc]; rfl
    | some nd =>
      simp only
      have hno := hnode nd rfl
      have hknd : keyOf s.heap nd = k := hno.2.2.2
      apply inv_pcs_only h i
      · simp only [T, hknd]; exact ⟨⟨hprev, hfresh⟩, hobs, hno⟩
      · rw [hpc]; simp only [pcKey, hknd]
      · rw [hpc]; rfl

theorem heap_pos {s : St} {ids : List Nat} (h : Inv s ids) : 0 < s.heap.length := by
  obtain ⟨h0, hh0, _⟩ := h.head
  exact (List.getElem?_eq_some_iff.mp hh0).1

theorem pcNode_lt {s : St} {ids : List Nat} (h : Inv s ids) (j n : Nat) (hn : pcNode (s.pcs j) = some n) :
    0 < n ∧ n < s.heap.length ∧ n ∉ ids := by
  have hT := h.threads j
  cases hpc : s.pcs j with
  | idle => rw [hpc] at hn; cases hn
  | alloc _ _ _ => rw [hpc] at hn; cases hn
  | find k prev node =>
    rw [hpc] at hn hT
    have := hT.2 n hn
    exact ⟨this.1, this.2.1, this.2.2.1⟩
  | setNext nd prev obs =>
    rw [hpc] at hn hT; cases hn
    exact ⟨hT.2.2.1, hT.2.2.2.1, hT.2.2.2.2.1⟩
  | cas nd prev obs =>
    rw [hpc] at hn hT; cases hn
    exact ⟨hT.2.2.1.1, hT.2.2.1.2.1, hT.2.2.1.2.2.1⟩

theorem inv_step_alloc {s : St} {ids : List Nat} (h : Inv s ids) (i k prev : Nat) (obs : Option Nat)
    (hpc : s.pcs i = .alloc k prev obs) : Inv (step s i) ids := by
  have hT := h.threads i
  rw [hpc] at hT
  obtain ⟨hprev, hobs⟩ := hT
  have hlt := inv_ids_lt h
  have hpos := heap_pos h
  simp only [step, hpc]
  have hkeys : ∀ n, n < s.heap.length → keyOf (s.heap ++ [⟨k, none⟩]) n = keyOf s.heap n :=
    fun n hn => keyOf_append s.heap _ n hn
  have hnew : keyOf (s.heap ++ [⟨k, none⟩]) s.heap.length = k := by simp [keyOf]
  refine ⟨?_, h.noHead, ?_, ?_, ?_, ?_⟩
  · obtain ⟨h0, hh0, hc⟩ := h.head
    refine ⟨h0, by rw [List.getElem?_append_left hpos]; exact hh0, ?_⟩
    exact schain_frame hc (fun x hx => List.getElem?_append_left (hlt x hx))
  · intro k'
    rw [h.keys k']
    constructor
    · intro ⟨n, hn, hk⟩; exact ⟨n, hn, by rw [hkeys n (hlt n hn)]; exact hk⟩
    · intro ⟨n, hn, hk⟩; exact ⟨n, hn, by rw [hkeys n (hlt n hn)] at hk; exact hk⟩
  · intro j
    by_cases hj : j = i
    · subst hj
      simp only [setPc_same, T, hnew]
      have := T_append hlt ⟨k, none⟩ (.alloc k prev obs) ⟨hprev, hobs⟩
      refine ⟨this.1, this.2, hpos, by simp, fun hm => ?_, hnew⟩
      have := hlt _ hm; omega
    · simp only [setPc_other _ _ _ _ hj]
      exact T_append hlt _ _ (h.threads j)
  · -- keys of threads are unchanged (`i` keeps `k`)
    have hkey : ∀ j, pcKey (s.heap ++ [⟨k, none⟩]) (setPc s.pcs i (.setNext s.heap.length prev obs) j)
        = pcKey s.heap (s.pcs j) := by
      intro j
      by_cases hj : j = i
      · subst hj; simp only [setPc_same, pcKey, hnew, hpc]
      · simp only [setPc_other _ _ _ _ hj]
        apply pcKey_congr
        intro n hn
        exact hkeys n (pcNode_lt h j n hn).2.1
    intro a b hab k' ha hb
    rw [hkey] at ha hb
    exact h.distinctKeys a b hab k' ha hb
  · intro a b hab n ha hb
    by_cases hai : a = i
    · subst hai
      simp only [setPc_same, pcNode, Option.some.injEq] at ha
      have hbi : b ≠ a := fun e => hab e.symm
      simp only [setPc_other _ _ _ _ hbi] at hb
      have := (pcNode_lt h b n hb).2.1
      omega
    · simp only [setPc_other _ _ _ _ hai] at ha
      by_cases hbi : b = i
      · subst hbi
        simp only [setPc_same, pcNode, Option.some.injEq] at hb
        have := (pcNode_lt h a n ha).2.1
        omega
      · simp only [setPc_other _ _ _ _ hbi] at hb
        exact h.distinctNodes a b hab n ha hb

theorem inv_step_setNext {s : St} {ids : List Nat} (h : Inv s ids) (i nd prev : Nat) (obs : Option Nat)
    (hpc : s.pcs i = .setNext nd prev obs) : Inv (step s i) ids := by
  have hT := h.threads i
  rw [hpc] at hT
  obtain ⟨hprev, hobs, hnode⟩ := hT
  obtain ⟨hnd0, hndlt, hndids, _⟩ := hnode
  simp only [step, hpc]
  have hk := keyOf_setNextAt s.heap nd
  refine ⟨?_, h.noHead, ?_, ?_, ?_, ?_⟩
  · obtain ⟨h0, hh0, hc⟩ := h.head
    refine ⟨h0, by rw [get_setNextAt_ne s.heap nd 0 obs (by omega)]; exact hh0, ?_⟩
    exact schain_frame hc (fun x hx => get_setNextAt_ne s.heap nd x obs (fun e => hndids (e ▸ hx)))
  · intro k'; simp only [hk]; exact h.keys k'
  · intro j
    by_cases hj : j = i
    · subst hj
      simp only [setPc_same]
      have hget : s.heap[nd]? = some s.heap[nd] := by simp [hndlt]
      have hnext : nextOf (setNextAt s.heap nd obs) nd = obs := by
        simp [nextOf, get_setNextAt_self s.heap nd _ obs hget]
      have := T_setNext nd obs (.alloc (keyOf s.heap nd) prev obs) (by simp [pcNode]) ⟨hprev, hobs⟩
      simp only [T, hk]
      refine ⟨this.1, this.2, ⟨hnd0, by rw [length_setNextAt]; exact hndlt, hndids, hk nd obs⟩, hnext⟩
    · simp only [setPc_other _ _ _ _ hj]
      apply T_setNext nd obs _ _ (h.threads j)
      intro hn
      exact h.distinctNodes i j (fun e => hj e.symm) nd (by rw [hpc]; rfl) hn
  · have hkey : ∀ j, pcKey (setNextAt s.heap nd obs) (setPc s.pcs i (.cas nd prev obs) j) = pcKey s.heap (s.pcs j) := by
      intro j
      by_cases hj : j = i
      · subst hj; simp only [setPc_same, pcKey, hk, hpc]
      · simp only [setPc_other _ _ _ _ hj]
        exact pcKey_congr _ (fun n _ => hk n obs)
    intro a b hab k' ha hb
    rw [hkey] at ha hb
    exact h.distinctKeys a b hab k' ha hb
  · have hnode : ∀ j, pcNode (setPc s.pcs i (.cas nd prev obs) j) = pcNode (s.pcs j) := by
      intro j
      by_cases hj : j = i
      · subst hj; simp only [setPc_same, hpc]; rfl
      · simp only [setPc_other _ _ _ _ hj]
    intro a b hab n ha hb
    rw [hnode] at ha hb
    exact h.distinctNodes a b hab n ha hb

/-- the chain after a successful CAS -/
def idsAfter (prev nd : Nat) (ids : List Nat) : List Nat := if prev = 0 then nd :: ids else insertAfter prev nd ids

theorem mem_idsAfter {prev nd : Nat} {ids : List Nat} {x : Nat} (h : x ∈ ids) : x ∈ idsAfter prev nd ids := by
  unfold idsAfter; split
  · exact List.mem_cons_of_mem _ h
  · exact mem_insertAfter h

theorem of_mem_idsAfter {prev nd : Nat} {ids : List Nat} {x : Nat} (h : x ∈ idsAfter prev nd ids) : x = nd ∨ x ∈ ids := by
  unfold idsAfter at h; split at h
  · simpa using h
  · exact mem_of_insertAfter h

theorem nd_mem_idsAfter {prev nd : Nat} {ids : List Nat} (hp : prev = 0 ∨ prev ∈ ids) (h0 : 0 ∉ ids) :
    nd ∈ idsAfter prev nd ids := by
  unfold idsAfter; split
  · exact List.mem_cons_self ..
  · rename_i hne
    rcases hp with hp | hp
    · exact absurd hp hne
    · exact nd_mem_insertAfter hp

theorem inv_step_cas {s : St} {ids : List Nat} (h : Inv s ids) (i nd prev : Nat) (obs : Option Nat)
    (hpc : s.pcs i = .cas nd prev obs) :
    ∃ ids', Inv (step s i) ids' := by
  have hT := h.threads i
  rw [hpc] at hT
  obtain ⟨⟨hprev, hfresh⟩, hobs, hnode, hnext⟩ := hT
  obtain ⟨hnd0, hndlt, hndids, _⟩ := hnode
  simp only [step, hpc]
  by_cases hcas : nextOf s.heap prev = obs
  · rw [if_pos hcas]
    -- success: the node is linked in after `prev`
    have hpp : prev = 0 ∨ prev ∈ ids := by
      rcases hprev with h1 | h1
      · exact Or.inl h1
      · exact Or.inr h1.1
    have hndprev : nd ≠ prev := by
      rcases hpp with h1 | h1
      · omega
      · exact fun e => hndids (e ▸ h1)
    have hk := keyOf_setNextAt s.heap prev
    have hndget : s.heap[nd]? = some ⟨keyOf s.heap nd, nextOf s.heap prev⟩ := by
      have hg : s.heap[nd]? = some s.heap[nd] := by simp [hndlt]
      rw [hg]
      congr 1
      have e1 : keyOf s.heap nd = s.heap[nd].key := keyOf_of_get hg
      have e2 : nextOf s.heap nd = s.heap[nd].next := nextOf_of_get hg
      cases hx : s.heap[nd] with
      | mk kx nx => rw [hx] at e1 e2; simp only at e1 e2; rw [e1, hcas, ← hnext, e2]
    have hobs' : ∀ o, nextOf s.heap prev = some o → keyOf s.heap nd < keyOf s.heap o := by
      intro o ho; rw [hcas] at ho; exact (hobs o ho).2
    refine ⟨idsAfter prev nd ids, ?_, ?_, ?_, ?_, ?_, ?_⟩
    · -- the chain
      obtain ⟨h0, hh0, hc⟩ := h.head
      unfold idsAfter
      by_cases hp0 : prev = 0
      · subst hp0
        rw [if_pos rfl]
        refine ⟨{ h0 with next := some nd }, get_setNextAt_self s.heap 0 h0 (some nd) hh0, ?_⟩
        simp only
        have hn0 : nextOf s.heap 0 = h0.next := nextOf_of_get hh0
        have hndget' : (setNextAt s.heap 0 (some nd))[nd]? = some ⟨keyOf s.heap nd, h0.next⟩ := by
          rw [get_setNextAt_ne s.heap 0 nd _ (by omega), hndget, hn0]
        refine SChain.cons hndget' (fun l hl => by cases hl) ?_
        simp only
        apply schain_frame _ (fun x hx => get_setNextAt_ne s.heap 0 x _ (fun e => h.noHead (e ▸ hx)))
        apply schain_rebound hc
        intro l' n hl' hn
        cases hl'
        exact hobs' n (by rw [hn0]; exact hn)
      · rw [if_neg hp0]
        have hpids : prev ∈ ids := by
          rcases hpp with h1 | h1
          · exact absurd h1 hp0
          · exact h1
        have hklt : keyOf s.heap prev < keyOf s.heap nd := by
          rcases hprev with h1 | h1
          · exact absurd h1 hp0
          · exact h1.2
        refine ⟨h0, by rw [get_setNextAt_ne s.heap prev 0 _ (fun e => hp0 e.symm)]; exact hh0, ?_⟩
        exact schain_insert hc prev nd (keyOf s.heap nd) hpids hklt hndids hndget hobs'
    · intro hm
      rcases of_mem_idsAfter hm with h1 | h1
      · omega
      · exact h.noHead h1
    · intro k'
      simp only [List.mem_cons, hk]
      constructor
      · intro hm
        rcases hm with rfl | hm
        · exact ⟨nd, nd_mem_idsAfter hpp h.noHead, rfl⟩
        · obtain ⟨n, hn, hkn⟩ := (h.keys k').mp hm
          exact ⟨n, mem_idsAfter hn, hkn⟩
      · intro ⟨n, hn, hkn⟩
        rcases of_mem_idsAfter hn with rfl | hn
        · exact Or.inl hkn.symm
        · exact Or.inr ((h.keys k').mpr ⟨n, hn, hkn⟩)
    · intro j
      by_cases hj : j = i
      · subst hj; simp only [setPc_same]; trivial
      · simp only [setPc_other _ _ _ _ hj]
        have hij : i ≠ j := fun e => hj e.symm
        apply T_setNext prev (some nd)
        · -- another thread's own node is neither the head nor published
          intro hn
          have := pcNode_lt h j prev hn
          rcases hpp with h1 | h1
          · omega
          · exact this.2.2 h1
        · apply T_widen (keyOf s.heap nd) nd (s.pcs j) (fun x hx => mem_idsAfter hx) (fun x hx => of_mem_idsAfter hx)
          · exact h.distinctNodes i j hij nd (by rw [hpc]; rfl)
          · exact h.distinctKeys i j hij (keyOf s.heap nd) (by rw [hpc]; rfl)
          · exact h.threads j
    · have hkey : ∀ j, j ≠ i → pcKey (setNextAt s.heap prev (some nd)) (setPc s.pcs i .idle j) = pcKey s.heap (s.pcs j) := by
        intro j hj
        simp only [setPc_other _ _ _ _ hj]
        exact pcKey_congr _ (fun n _ => hk n _)
      intro a b hab k' ha hb
      by_cases hai : a = i
      · subst hai; simp only [setPc_same, pcKey] at ha; cases ha
      · by_cases hbi : b = i
        · subst hbi; simp only [setPc_same, pcKey] at hb; cases hb
        · rw [hkey a hai] at ha; rw [hkey b hbi] at hb
          exact h.distinctKeys a b hab k' ha hb
    · intro a b hab n ha hb
      by_cases hai : a = i
      · subst hai; simp only [setPc_same, pcNode] at ha; cases ha
      · by_cases hbi : b = i
        · subst hbi; simp only [setPc_same, pcNode] at hb; cases hb
        · simp only [setPc_other _ _ _ _ hai] at ha
          simp only [setPc_other _ _ _ _ hbi] at hb
          exact h.distinctNodes a b hab n ha hb
  · rw [if_neg hcas]
    refine ⟨ids, ?_⟩
    apply inv_pcs_only h i
    · refine ⟨⟨hprev, hfresh⟩, ?_⟩
      intro n hn; cases hn
      exact ⟨hnd0, hndlt, hndids, rfl⟩
    · rw [hpc]; rfl
    · rw [hpc]; rfl

theorem inv_step {s : St} {ids : List Nat} (h : Inv s ids) (i : Nat) : ∃ ids', Inv (step s i) ids' := by
  cases hpc : s.pcs i with
  | idle => exact ⟨ids, by simp only [step, hpc]; exact h⟩
  | find k prev node => exact ⟨ids, inv_step_find h i k prev node hpc⟩
  | alloc k prev obs => exact ⟨ids, inv_step_alloc h i k prev obs hpc⟩
  | setNext nd prev obs => exact ⟨ids, inv_step_setNext h i nd prev obs hpc⟩
  | cas nd prev obs => exact inv_step_cas h i nd prev obs hpc

/-- an insert may begin on an idle thread with a key that is neither in the list nor being
    inserted, its search having arrived at the head or at a published node before the key -/
def CallOk (s : St) (ids : List Nat) (i k prev : Nat) : Prop :=
  s.pcs i = .idle ∧ k ∉ s.inserted ∧ (∀ j, pcKey s.heap (s.pcs j) ≠ some k) ∧
  (prev = 0 ∨ (prev ∈ ids ∧ keyOf s.heap prev < k))

theorem inv_call {s : St} {ids : List Nat} (h : Inv s ids) (i k prev : Nat) (hok : CallOk s ids i k prev) :
    Inv (call s i k prev) ids := by
  obtain ⟨hidle, hfresh, hnokey, hprev⟩ := hok
  unfold call
  refine ⟨h.head, h.noHead, h.keys, ?_, ?_, ?_⟩
  · intro j
    by_cases hj : j = i
    · subst hj
      simp only [setPc_same]
      exact ⟨⟨hprev, hfresh⟩, fun nd hnd => by cases hnd⟩
    · simp only [setPc_other _ _ _ _ hj]; exact h.threads j
  · intro a b hab k' ha hb
    by_cases hai : a = i
    · subst hai
      simp only [setPc_same, pcKey, Option.some.injEq] at ha
      subst ha
      have hbi : b ≠ a := fun e => hab e.symm
      simp only [setPc_other _ _ _ _ hbi] at hb
      exact hnokey b hb
    · simp only [setPc_other _ _ _ _ hai] at ha
      by_cases hbi : b = i
      · subst hbi
        simp only [setPc_same, pcKey, Option.some.injEq] at hb
        subst hb
        exact hnokey a ha
      · simp only [setPc_other _ _ _ _ hbi] at hb
        exact h.distinctKeys a b hab k' ha hb
  · intro a b hab n ha hb
    by_cases hai : a = i
    · subst hai; simp only [setPc_same, pcNode] at ha; cases ha
    · by_cases hbi : b = i
      · subst hbi; simp only [setPc_same, pcNode] at hb; cases hb
      · simp only [setPc_other _ _ _ _ hai] at ha
        simp only [setPc_other _ _ _ _ hbi] at hb
        exact h.distinctNodes a b hab n ha hb

theorem inv_init : Inv init [] := by
  refine ⟨⟨⟨0, none⟩, rfl, SChain.nil⟩, by simp, ?_, ?_, ?_, ?_⟩
  · intro k; simp [init]
  · intro i; simp [init, T]
  · intro a b _ k ha; simp [init, pcKey] at ha
  · intro a b _ n ha; simp [init, pcNode] at ha

/-- the states the skiplist can be in: any interleaving of any number of inserting threads -/
inductive Reach : St → Prop where
  | init : Reach init
  | call {s : St} (ids : List Nat) (i k prev : Nat) : Reach s → Inv s ids → CallOk s ids i k prev →
      Reach (Blue.SkipList.call s i k prev)
  | step {s : St} (i : Nat) : Reach s → Reach (Blue.SkipList.step s i)

/-- **C17** in every reachable state the level-0 chain from the head is strictly sorted by key and
    its keys are exactly the keys whose insert has linked (its CAS succeeded) -/
theorem reach_inv {s : St} (h : Reach s) : ∃ ids, Inv s ids := by
  induction h with
  | init => exact ⟨[], inv_init⟩
  | call ids i k prev _ hinv hok _ => exact ⟨ids, inv_call hinv i k prev hok⟩
  | step i _ ih =>
    obtain ⟨ids, hinv⟩ := ih
    exact inv_step hinv i

/-- the keys along a sorted chain increase strictly -/
theorem schain_sorted {heap : List Node} {lo p ids} (h : SChain heap lo p ids) :
    (ids.map (keyOf heap)).Pairwise (· < ·) := by
  induction h with
  | nil => exact List.Pairwise.nil
  | @cons lo x ndx rest hx _ hrest ih =>
    simp only [List.map_cons]
    refine List.Pairwise.cons ?_ ih
    intro b hb
    obtain ⟨n, hn, rfl⟩ := List.mem_map.mp hb
    rw [keyOf_of_get hx]
    exact schain_keys_gt hrest n hn

/-- the iterator's walk from a chain pointer yields the chain's keys -/
theorem walk_schain {heap : List Node} {lo p ids} (h : SChain heap lo p ids) :
    ∀ fuel, ids.length < fuel → walk heap fuel p = ids.map (keyOf heap) := by
  induction h with
  | nil => intro fuel _; cases fuel <;> simp [walk]
  | @cons lo x ndx rest hx _ hrest ih =>
    intro fuel hf
    cases fuel with
    | zero => simp at hf
    | succ f =>
      simp only [walk, hx, List.map_cons, keyOf_of_get hx]
      rw [ih f (by simp at hf; omega)]

/-- **C17** what a level-0 iteration sees in any reachable state: a strictly increasing list of
    exactly the linked keys -/
theorem reach_walk {s : St} (h : Reach s) :
    ∃ (ids : List Nat) (h0 : Node), s.heap[0]? = some h0 ∧
      walk s.heap (ids.length + 1) h0.next = ids.map (keyOf s.heap) ∧
      (ids.map (keyOf s.heap)).Pairwise (· < ·) ∧
      ∀ k, k ∈ s.inserted ↔ k ∈ ids.map (keyOf s.heap) := by
  obtain ⟨ids, hinv⟩ := reach_inv h
  obtain ⟨h0, hh0, hc⟩ := hinv.head
  refine ⟨ids, h0, hh0, walk_schain hc _ (by omega), schain_sorted hc, ?_⟩
  intro k
  rw [hinv.keys k, List.mem_map]

/-- non-vacuity: two threads inserting 5 and 3 concurrently (the second starts before the first
    has linked, and its CAS comes first, so the first thread's CAS fails and it re-reads and advances); both end up on the chain, in key order -/
example :
    let s0 := call (call init 0 5 0) 1 3 0
    let s := [0, 1, 0, 1, 0, 1, 1, 0, 0, 0, 0, 0].foldl step s0
    s.inserted = [5, 3] ∧ walk s.heap 5 (nextOf s.heap 0) = [3, 5] := by
  decide

end Blue.SkipList

#print axioms Blue.SkipList.reach_inv
#print axioms Blue.SkipList.reach_walk
