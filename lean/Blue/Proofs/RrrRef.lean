import Blue.Proofs.RrrChunks
/-! Facts about the reference `select` / `select0` on `List Bool` used to tie the RRR walks to them:
    where they are defined, and how the answer decomposes into "which 63-bit chunk" and "where in it". -/
namespace Blue.BitVec

theorem select_zero (bits : List Bool) : select bits 0 = some 0 :=
  select_complete bits 0 0 (Nat.zero_le _) (by simp) (fun q hq => absurd hq (Nat.not_lt_zero q))

theorem select_none_of_gt (bits : List Bool) (x : Nat) (h : bits.count true < x) : select bits x = none := by
  cases hs : select bits x with
  | none => rfl
  | some p =>
    have := (select_defined_iff bits x).mp (by rw [hs]; rfl)
    omega

theorem select_some_of_le (bits : List Bool) (x : Nat) (h : x ≤ bits.count true) : ∃ p, select bits x = some p :=
  Option.isSome_iff_exists.mp ((select_defined_iff bits x).mpr h)

theorem count_true_map_not (l : List Bool) : (l.map not).count true = l.count false := by
  induction l with
  | nil => rfl
  | cons b t ih => cases b <;> simp [ih]

theorem rank0_eq_rank_not (bits : List Bool) (m : Nat) : rank0 bits m = rank (bits.map not) m := by
  unfold rank0 rank
  rw [List.length_map]
  by_cases h : m ≤ bits.length
  · rw [if_pos h, if_pos h]
    simp only [Option.map_some]
    congr 1
    rw [← List.map_take, count_true_map_not]
    have := count_true_add_false (bits.take m)
    rw [List.length_take, Nat.min_eq_left h] at this
    omega
  · rw [if_neg h, if_neg h]; rfl

/-- `select0` is `select` on the complemented pattern -/
theorem select0_eq_select_not (bits : List Bool) (x : Nat) : select0 bits x = select (bits.map not) x := by
  unfold select0 select
  simp only [rank0_eq_rank_not, List.length_map]

theorem select0_zero (bits : List Bool) : select0 bits 0 = some 0 := by
  rw [select0_eq_select_not]; exact select_zero _

theorem select0_none_of_gt (bits : List Bool) (x : Nat) (h : bits.count false < x) : select0 bits x = none := by
  rw [select0_eq_select_not]
  apply select_none_of_gt
  rw [count_true_map_not]; exact h

theorem select0_some_of_le (bits : List Bool) (x : Nat) (h : x ≤ bits.count false) : ∃ p, select0 bits x = some p := by
  rw [select0_eq_select_not]
  apply select_some_of_le
  rw [count_true_map_not]; exact h

end Blue.BitVec

namespace Blue.Rrr
open Blue.BitVec

/-- the first word at which a cumulative count reaches `x` -/
theorem exists_first_reach (G : Nat → Nat) (x : Nat) : ∀ n, G 0 < x → x ≤ G n → ∃ t, t < n ∧ G t < x ∧ x ≤ G (t + 1) := by
  intro n
  induction n with
  | zero => intro h0 h1; omega
  | succ n ih =>
    intro h0 h1
    by_cases h : x ≤ G n
    · obtain ⟨t, ht, h2, h3⟩ := ih h0 h
      exact ⟨t, by omega, h2, h3⟩
    · exact ⟨n, by omega, by omega, h1⟩

/-- `select` by chunks: if the set bits before word `t` are fewer than `x` and word `t` reaches `x`, the
    answer lies in word `t`, at the in-chunk `select` of the remainder -/
theorem select_in_chunk (bits : List Bool) (t x : Nat) (ht : 63 * t ≤ bits.length)
    (h1 : psum (cnt bits) t < x) (h2 : x ≤ psum (cnt bits) (t + 1)) :
    ∃ k, Blue.BitVec.select (chunk bits t) (x - psum (cnt bits) t) = some k ∧ 63 * t + k ≤ bits.length
      ∧ Blue.BitVec.select bits x = some (63 * t + k) := by
  rw [psum_succ] at h2
  obtain ⟨k, hk⟩ := select_some_of_le (chunk bits t) (x - psum (cnt bits) t) (by unfold cnt at h2 ⊢; omega)
  obtain ⟨hk1, hk2, hk3⟩ := select_spec _ _ _ hk
  have hlen := chunk_length bits t
  have hk63 : k ≤ 63 := by omega
  have hP : 63 * t + k ≤ bits.length := by omega
  refine ⟨k, hk, hP, ?_⟩
  apply select_complete bits x _ hP
  · rw [count_true_take_pos bits t k hk63, hk2]; omega
  · intro q hq
    by_cases hq1 : q ≤ 63 * t
    · have := count_take_mono bits hq1
      rw [count_true_take_blocks] at this
      omega
    · have e : q = 63 * t + (q - 63 * t) := by omega
      rw [e, count_true_take_pos bits t _ (by omega)]
      have := hk3 (q - 63 * t) (by omega)
      omega

/-- the chunk with the zero padding of a short last word -/
def padChunk (bits : List Bool) (t : Nat) : List Bool :=
  chunk bits t ++ List.replicate (63 - (chunk bits t).length) false

theorem padChunk_count_false (bits : List Bool) (t : Nat) : (padChunk bits t).count false = 63 - cnt bits t := by
  unfold padChunk
  rw [List.count_append, List.count_replicate_self]
  have := count_false_chunk bits t
  have := chunk_length_le bits t
  have := cnt_le_length bits t
  omega

/-- `select0` by chunks, the padding of the last word counted as clear bits as the code does: the answer
    lies in word `t` if it lies within the pattern at all; a position in the padding means `select0` is
    undefined -/
theorem select0_in_chunk (bits : List Bool) (t x : Nat) (ht : 63 * t ≤ bits.length)
    (h1 : psum (fun i => 63 - cnt bits i) t < x) (h2 : x ≤ psum (fun i => 63 - cnt bits i) (t + 1)) :
    ∃ k, Blue.BitVec.select0 (padChunk bits t) (x - psum (fun i => 63 - cnt bits i) t) = some k
      ∧ Blue.BitVec.select0 bits x = if 63 * t + k > bits.length then none else some (63 * t + k) := by
  rw [psum_succ] at h2
  have hG : psum (fun i => 63 - cnt bits i) t + psum (cnt bits) t = 63 * t :=
    psum_compl (cnt bits) 63 t (fun i _ => cnt_le bits i)
  have hF := count_false_take_blocks bits t ht
  obtain ⟨k, hk⟩ := select0_some_of_le (padChunk bits t) (x - psum (fun i => 63 - cnt bits i) t)
    (by rw [padChunk_count_false]; omega)
  obtain ⟨hk1, hk2, hk3⟩ := select0_spec _ _ _ hk
  have hpl : (padChunk bits t).length = 63 := by
    unfold padChunk
    rw [List.length_append, List.length_replicate]
    have := chunk_length_le bits t
    omega
  have hlen := chunk_length bits t
  have hk63 : k ≤ 63 := by omega
  refine ⟨k, hk, ?_⟩
  have htake : ∀ j, j ≤ (chunk bits t).length → (padChunk bits t).take j = (chunk bits t).take j := by
    intro j hj
    unfold padChunk
    rw [List.take_append_of_le_length hj]
  by_cases hP : 63 * t + k > bits.length
  · rw [if_pos hP]
    -- the `x`-th clear bit would lie in the padding: the pattern has fewer clear bits
    apply select0_none_of_gt
    have hm : (chunk bits t).length < k := by omega
    have h3 := hk3 (chunk bits t).length hm
    rw [htake _ (Nat.le_refl _), List.take_length] at h3
    have hall : bits.take (63 * t + 63) = bits := List.take_of_length_le (by omega)
    have h4 := count_take_pos bits false t 63 (Nat.le_refl _)
    rw [hall, List.take_of_length_le (chunk_length_le bits t), ← count_take_blocks] at h4
    omega
  · rw [if_neg hP]
    have hkc : k ≤ (chunk bits t).length := by omega
    apply select0_complete bits x _ (by omega)
    · rw [count_take_pos bits false t k hk63, ← count_take_blocks, ← htake k hkc, hk2]; omega
    · intro q hq
      by_cases hq1 : q ≤ 63 * t
      · have := countf_take_mono bits hq1
        omega
      · have e : q = 63 * t + (q - 63 * t) := by omega
        rw [e, count_take_pos bits false t _ (by omega), ← count_take_blocks, ← htake _ (by omega)]
        have := hk3 (q - 63 * t) (by omega)
        omega

end Blue.Rrr
