import Blue.Proofs.MergingLink
/-! The merging cursor over *any* children that behave like tables (the `_over` form the other four
    combinators already have; it was inlined in `Blue/Proofs/Stack.lean`). -/
namespace Blue.Cursor
variable {E : Type}

/-- **Merging over any table-like children.**  If the children behave as reference cursors over
    the members of a family of pairwise-distinct sorted tables, the merging cursor built over them
    behaves as the reference cursor over the sorted union. -/
theorem merging_over (lt : E → E → Bool) (st : StrictTotal lt) {M : List (E × Nat)} {k : Nat}
    (fam : Family lt M k) {A : (E → Bool) → Prop} (hA : ∀ p, A p → Mono lt p)
    {C : Cur E} (cs : List C.σ) (rs : List (Ref E))
    (hkids : (rs.map (·.xs)).Perm ((List.range k).map (childList M)))
    (hbeh : cs.map (behA A C) = rs.map (behA A (RefCur E))) :
    BehEq A (MergingC.cur C lt) (MergingC.new C lt cs) (RefCur E) ⟨M.map (·.1), 0⟩ := by
  have hsub := merging_subst (A := A) (C := C) (D := RefCur E) lt cs rs hbeh true
  have hstep := behEq_step hsub .first trivial
  have hrel := rel_new (lt := lt) (M := M) (k := k) st rs hkids
  have hspec := mergingC_ref_behEq lt st fam A hA (Merging.new lt rs) 0 hrel
  have e : (MergingC.cur (RefCur E) lt).step ⟨true, rs⟩ .first = MergingLink.ofSpec (Merging.new lt rs) :=
    MergingLink.step_ref lt ⟨true, rs⟩ .first
  rw [e] at hstep
  exact hstep.trans hspec

end Blue.Cursor

#print axioms Blue.Cursor.merging_over
