import Blue.Model.ProtoMsg
import Blue.Proofs.Wire
import Blue.Proofs.Proto
/-! Proofs about the full prototk schema language (`Blue/Model/ProtoMsg.lean`), property C15:
    wire-level facts (varint size, zig-zag, integer conversions, tag rejections), the field
    iterator with error classes, unknown fields, and the message round trip. -/
namespace Blue.ProtoMsg
open Blue.Wire

/-! ## varint size -/

theorem varintSzAux_spec : ∀ (f x c : Nat), x < 128 ^ (f + 1) →
    varintSzAux f x c + 1 = c + (encVarint x).length := by
  intro f
  induction f with
  | zero =>
    intro x c hx
    have hx' : x < 128 := by simpa using hx
    rw [encVarint_lt hx']; simp [varintSzAux]
  | succ f ih =>
    intro x c hx
    by_cases h : x < 128
    · have : ¬ (x / 128 > 0) := by omega
      rw [encVarint_lt h]; simp [varintSzAux, this]
    · have hpos : x / 128 > 0 := by omega
      have hdiv : x / 128 < 128 ^ (f + 1) := by
        rw [Nat.div_lt_iff_lt_mul (by omega)]
        calc x < 128 ^ (f + 1 + 1) := hx
          _ = 128 ^ (f + 1) * 128 := by rw [Nat.pow_succ]
      rw [encVarint_ge h]
      simp only [varintSzAux, hpos, if_true, List.length_cons]
      have := ih (x / 128) (c + 1) hdiv
      omega

/-- `v64::pack_sz` is the number of bytes `v64::pack` writes -/
theorem varintSz_eq (x : Nat) (hx : x < U64) : varintSz x = (encVarint x).length := by
  have := varintSzAux_spec 10 x 1 (by unfold U64 at hx; omega)
  unfold varintSz; omega

theorem encVarint_length_le : ∀ (f x : Nat), x < 128 ^ (f + 1) → (encVarint x).length ≤ f + 1 := by
  intro f
  induction f with
  | zero => intro x hx; have hx' : x < 128 := by simpa using hx
            rw [encVarint_lt hx']; simp
  | succ f ih =>
    intro x hx
    by_cases h : x < 128
    · rw [encVarint_lt h]; simp
    · have hdiv : x / 128 < 128 ^ (f + 1) := by
        rw [Nat.div_lt_iff_lt_mul (by omega)]
        calc x < 128 ^ (f + 1 + 1) := hx
          _ = 128 ^ (f + 1) * 128 := by rw [Nat.pow_succ]
      rw [encVarint_ge h]; simp only [List.length_cons]
      have := ih (x / 128) hdiv; omega

/-- a `u64` takes at most ten bytes -/
theorem encVarint_length_le_ten (x : Nat) (hx : x < U64) : (encVarint x).length ≤ 10 :=
  encVarint_length_le 9 x (by unfold U64 at hx; omega)

/-! ## zig-zag and integer conversions -/

theorem unzigzag_zigzag (i : Int) : unzigzag (zigzag i) = i := by
  unfold zigzag unzigzag
  by_cases h : 0 ≤ i
  · simp only [h, if_true]
    have h2 : (2 * i).toNat % 2 = 0 := by omega
    simp only [h2, if_true]
    omega
  · simp only [h, if_false]
    have h2 : ¬ ((-2 * i - 1).toNat % 2 = 0) := by omega
    simp only [h2, if_false]
    omega

theorem zigzag_unzigzag (n : Nat) : zigzag (unzigzag n) = n := by
  unfold zigzag unzigzag
  by_cases h : n % 2 = 0
  · simp only [h, if_true]
    have : (0 : Int) ≤ ((n / 2 : Nat) : Int) := by omega
    simp only [this, if_true]
    omega
  · simp only [h, if_false]
    have : ¬ ((0 : Int) ≤ -((n / 2 : Nat) : Int) - 1) := by omega
    simp only [this, if_false]
    omega

/-- the zig-zag image of an `i64` is a `u64` -/
theorem zigzag_lt (i : Int) (h1 : -(P63 : Int) ≤ i) (h2 : i < (P63 : Int)) : zigzag i < U64 := by
  unfold zigzag P63 at *; unfold U64
  by_cases h : 0 ≤ i
  · simp only [h, if_true]; omega
  · simp only [h, if_false]; omega

theorem i64OfU64_u64OfI64 (i : Int) (h1 : -(P63 : Int) ≤ i) (h2 : i < (P63 : Int)) :
    i64OfU64 (u64OfI64 i) = i := by
  unfold i64OfU64 u64OfI64 P63 at *; unfold U64
  by_cases h : 0 ≤ i
  · have e : (i % (18446744073709551616 : Nat)).toNat = i.toNat := by omega
    rw [e]
    have : i.toNat < 9223372036854775808 := by omega
    simp only [this, if_true]; omega
  · have e : (i % (18446744073709551616 : Nat)).toNat = (i + 18446744073709551616).toNat := by omega
    rw [e]
    have : ¬ ((i + 18446744073709551616).toNat < 9223372036854775808) := by omega
    simp only [this, if_false]; omega

theorem u64OfI64_lt (i : Int) : u64OfI64 i < U64 := by
  unfold u64OfI64 U64; omega

theorem i32OfU32_u32OfI32 (i : Int) (h1 : -P31 ≤ i) (h2 : i < P31) : i32OfU32 (u32OfI32 i) = i := by
  unfold i32OfU32 u32OfI32 P31 at *; unfold P32
  by_cases h : 0 ≤ i
  · have e : (((i % (4294967296 : Nat)).toNat : Nat) : Int) = i := by omega
    rw [e]; simp only [h2, if_true]
  · have e : (((i % (4294967296 : Nat)).toNat : Nat) : Int) = i + 4294967296 := by omega
    rw [e]
    have : ¬ (i + 4294967296 < 2147483648) := by omega
    simp only [this, if_false]; omega

theorem u32OfI32_lt (i : Int) : u32OfI32 i < 256 ^ 4 := by
  unfold u32OfI32 P32; omega

/-! ## tags with error classes -/

theorem decTagE_of_decTag {bs : List Nat} {r : Tag × List Nat} (h : decTag bs = some r) : decTagE bs = .ok r := by
  unfold decTag at h; unfold decTagE
  cases hv : decVarint bs with
  | none => simp [hv] at h
  | some p =>
    obtain ⟨v, rest⟩ := p
    simp only [hv] at h ⊢
    by_cases h1 : v > U32MAX
    · simp [h1] at h
    · simp only [h1, if_false] at h ⊢
      cases h2 : validFieldNumber (v / 8)
      · simp [h2] at h
      · simp only [h2, Bool.not_true, Bool.false_eq_true, if_false] at h ⊢
        cases hw : WT.ofBits (v % 8) with
        | none => simp [hw] at h
        | some wt => simp only [hw, Option.some.injEq] at h ⊢; rw [h]

theorem decTagE_enc (t : Tag) (ht : validFieldNumber t.num = true) (rest : List Nat) :
    decTagE (encTag t ++ rest) = .ok (t, rest) := decTagE_of_decTag (decTag_enc t ht rest)

/-- field number 0, above 2^29-1, or in 19000..19999: rejected -/
theorem decTagE_invalid_number (num w : Nat) (hw : w < 8) (hle : num * 8 + w ≤ U32MAX)
    (hbad : validFieldNumber num = false) (rest : List Nat) :
    decTagE (encVarint (num * 8 + w) ++ rest) = .error .invalidFieldNumber := by
  unfold decTagE
  rw [decVarint_enc _ (by unfold U32MAX at hle; unfold U64; omega)]
  have h1 : ¬ (num * 8 + w > U32MAX) := by omega
  have hdiv : (num * 8 + w) / 8 = num := by omega
  simp only [h1, if_false, hdiv, hbad, Bool.not_false, if_true]

/-- wire types 3, 4, 6, 7: rejected -/
theorem decTagE_bad_wire_type (num w : Nat) (hv : validFieldNumber num = true)
    (hw : w = 3 ∨ w = 4 ∨ w = 6 ∨ w = 7) (rest : List Nat) :
    decTagE (encVarint (num * 8 + w) ++ rest) = .error .unhandledWireType := by
  have hv' := hv
  unfold validFieldNumber at hv'
  simp only [Bool.and_eq_true, decide_eq_true_eq, Bool.not_eq_true'] at hv'
  unfold decTagE
  rw [decVarint_enc _ (by unfold U64; omega)]
  have h1 : ¬ (num * 8 + w > U32MAX) := by unfold U32MAX; omega
  have hdiv : (num * 8 + w) / 8 = num := by omega
  have hmod : (num * 8 + w) % 8 = w := by omega
  simp only [h1, if_false, hdiv, hv, Bool.not_true, Bool.false_eq_true, hmod]
  rcases hw with rfl | rfl | rfl | rfl <;> rfl

/-- a tag above 32 bits: rejected -/
theorem decTagE_too_large (t : Nat) (h1 : U32MAX < t) (h2 : t < U64) (rest : List Nat) :
    decTagE (encVarint t ++ rest) = .error .tagTooLarge := by
  unfold decTagE
  rw [decVarint_enc _ h2]
  simp only [gt_iff_lt, h1, if_true]

/-! ## the field iterator with error classes refines `Blue.Wire.fieldStep` -/

theorem fieldStepE_of_fieldStep {bs : List Nat} {r : (Tag × List Nat) × List Nat}
    (h : fieldStep bs = some r) : fieldStepE bs = .ok r := by
  unfold fieldStep at h; unfold fieldStepE
  cases ht : decTag bs with
  | none => simp [ht] at h
  | some p =>
    obtain ⟨tag, buf⟩ := p
    rw [decTagE_of_decTag ht]
    simp only [ht] at h ⊢
    cases hwt : tag.wt <;> simp only [hwt] at h ⊢
    · cases hv : decVarint buf with
      | none => simp [hv] at h
      | some q => obtain ⟨x, rest⟩ := q; simp only [hv, Option.some.injEq] at h ⊢; rw [h]
    · by_cases hl : buf.length < 8
      · simp [hl] at h
      · simp only [hl, if_false, Option.some.injEq] at h ⊢; rw [h]
    · cases hv : decVarint buf with
      | none => simp [hv] at h
      | some q =>
        obtain ⟨x, rest⟩ := q
        simp only [hv] at h ⊢
        by_cases hl : rest.length < x
        · simp [hl] at h
        · simp only [hl, if_false, Option.some.injEq] at h ⊢; rw [h]
    · by_cases hl : buf.length < 4
      · simp [hl] at h
      · simp only [hl, if_false, Option.some.injEq] at h ⊢; rw [h]

theorem fieldsE_cons (f : Nat) (bs : List Nat) (fld : Tag × List Nat) (rest : List Nat)
    (hne : bs ≠ []) (h : fieldStepE bs = .ok (fld, rest)) :
    fieldsE (f + 1) bs = (fld :: (fieldsE f rest).1, (fieldsE f rest).2) := by
  cases bs with
  | nil => exact absurd rfl hne
  | cons b t => simp only [fieldsE, h]

/-! ## scalar field types round-trip -/

theorem decVarintE_enc (x : Nat) (hx : x < U64) (rest : List Nat) :
    decVarintE (encVarint x ++ rest) = .ok (x, rest) := by
  unfold decVarintE; rw [decVarint_enc x hx rest]

theorem decFrame_enc (b rest : List Nat) (hb : b.length < U64) :
    decFrame (encBytes b ++ rest) = .ok (b, rest) := by
  unfold decFrame encBytes
  rw [List.append_assoc, decVarint_enc _ hb]
  simp

theorem decFixed_le (k v : Nat) (rest : List Nat) (hv : v < 256 ^ k) :
    decFixed k (Blue.Proto.leBytes k v ++ rest) = .ok (v, rest) := by
  unfold decFixed
  have hl := Blue.Proto.leBytes_length k v
  have : ¬ ((Blue.Proto.leBytes k v ++ rest).length < k) := by simp [hl]
  rw [if_neg this, List.take_left' hl, List.drop_left' hl, Blue.Proto.fromLe_leBytes k v hv]

/-- a value in the range of the field type's Rust type -/
def WfScalar : Scalar → Val → Prop
  | .int32, .int i => -P31 ≤ i ∧ i < P31
  | .sint32, .int i => -P31 ≤ i ∧ i < P31
  | .sfixed32, .int i => -P31 ≤ i ∧ i < P31
  | .int64, .int i => -(P63 : Int) ≤ i ∧ i < (P63 : Int)
  | .sint64, .int i => -(P63 : Int) ≤ i ∧ i < (P63 : Int)
  | .sfixed64, .int i => -(P63 : Int) ≤ i ∧ i < (P63 : Int)
  | .uint32, .int i => 0 ≤ i ∧ i < (P32 : Int)
  | .fixed32, .int i => 0 ≤ i ∧ i < (P32 : Int)
  | .float, .int i => 0 ≤ i ∧ i < (P32 : Int)
  | .uint64, .int i => 0 ≤ i ∧ i < (U64 : Int)
  | .fixed64, .int i => 0 ≤ i ∧ i < (U64 : Int)
  | .double, .int i => 0 ≤ i ∧ i < (U64 : Int)
  | .bool, .int i => i = 0 ∨ i = 1
  | .bytes, .bytes b => b.length < U64
  | .bytesN n, .bytes b => b.length = n ∧ n < U64
  | .string, .bytes b => b.length < U64 ∧ validUtf8 b = true
  | _, _ => False

theorem inI32_of {i : Int} (h1 : -P31 ≤ i) (h2 : i < P31) : inI32 i = true := by
  simp [inI32, h1, h2]

theorem p31_p63 {i : Int} (h1 : -P31 ≤ i) (h2 : i < P31) : -(P63 : Int) ≤ i ∧ i < (P63 : Int) := by
  unfold P31 at *; unfold P63; omega

theorem decScalar_enc (s : Scalar) (v : Val) (h : WfScalar s v) (rest : List Nat) :
    decScalar s (encScalar s v ++ rest) = .ok (v, rest) := by
  cases s <;> cases v <;> simp only [WfScalar] at h
  case int32.int i =>
    obtain ⟨h1, h2⟩ := h
    have hb := p31_p63 h1 h2
    simp only [encScalar, decScalar, decVarintE_enc _ (u64OfI64_lt i), i64OfU64_u64OfI64 i hb.1 hb.2,
      inI32_of h1 h2, if_true]
  case int64.int i =>
    simp only [encScalar, decScalar, decVarintE_enc _ (u64OfI64_lt i), i64OfU64_u64OfI64 i h.1 h.2]
  case uint32.int i =>
    obtain ⟨h1, h2⟩ := h
    have hx : i.toNat < U64 := by unfold P32 at h2; unfold U64; omega
    have hlt : i.toNat < P32 := by omega
    have hi : ((i.toNat : Nat) : Int) = i := by omega
    simp only [encScalar, decScalar, decVarintE_enc _ hx, hlt, if_true, hi]
  case uint64.int i =>
    obtain ⟨h1, h2⟩ := h
    have hx : i.toNat < U64 := by omega
    have hi : ((i.toNat : Nat) : Int) = i := by omega
    simp only [encScalar, decScalar, decVarintE_enc _ hx, hi]
  case sint32.int i =>
    obtain ⟨h1, h2⟩ := h
    have hb := p31_p63 h1 h2
    simp only [encScalar, decScalar, decVarintE_enc _ (zigzag_lt i hb.1 hb.2), unzigzag_zigzag,
      inI32_of h1 h2, if_true]
  case sint64.int i =>
    simp only [encScalar, decScalar, decVarintE_enc _ (zigzag_lt i h.1 h.2), unzigzag_zigzag]
  case bool.int i =>
    rcases h with rfl | rfl
    · simp only [encScalar, decScalar, if_true, decVarintE_enc 0 (by unfold U64; omega)]
    · have : ¬ ((1 : Int) = 0) := by omega
      have h1 : ¬ ((1 : Nat) = 0) := by omega
      simp only [encScalar, decScalar, this, if_false, decVarintE_enc 1 (by unfold U64; omega), h1]
  case fixed32.int i =>
    obtain ⟨h1, h2⟩ := h
    have hx : i.toNat < 256 ^ 4 := by unfold P32 at h2; omega
    have hi : ((i.toNat : Nat) : Int) = i := by omega
    simp only [encScalar, decScalar, decFixed_le 4 _ rest hx, hi]
  case fixed64.int i =>
    obtain ⟨h1, h2⟩ := h
    have hx : i.toNat < 256 ^ 8 := by unfold U64 at h2; omega
    have hi : ((i.toNat : Nat) : Int) = i := by omega
    simp only [encScalar, decScalar, decFixed_le 8 _ rest hx, hi]
  case sfixed32.int i =>
    simp only [encScalar, decScalar, decFixed_le 4 _ rest (u32OfI32_lt i), i32OfU32_u32OfI32 i h.1 h.2]
  case sfixed64.int i =>
    have hx : u64OfI64 i < 256 ^ 8 := by have := u64OfI64_lt i; unfold U64 at this; omega
    simp only [encScalar, decScalar, decFixed_le 8 _ rest hx, i64OfU64_u64OfI64 i h.1 h.2]
  case float.int i =>
    obtain ⟨h1, h2⟩ := h
    have hx : i.toNat < 256 ^ 4 := by unfold P32 at h2; omega
    have hi : ((i.toNat : Nat) : Int) = i := by omega
    simp only [encScalar, decScalar, decFixed_le 4 _ rest hx, hi]
  case double.int i =>
    obtain ⟨h1, h2⟩ := h
    have hx : i.toNat < 256 ^ 8 := by unfold U64 at h2; omega
    have hi : ((i.toNat : Nat) : Int) = i := by omega
    simp only [encScalar, decScalar, decFixed_le 8 _ rest hx, hi]
  case bytes.bytes b =>
    simp only [encScalar, decScalar, decFrame_enc b rest h]
  case bytesN.bytes n b =>
    obtain ⟨h1, h2⟩ := h
    have hb : b.length < U64 := by omega
    simp only [encScalar, decScalar, decFrame_enc b rest hb, h1, Nat.lt_irrefl, if_false, ne_eq,
      not_true_eq_false]
  case string.bytes b =>
    simp only [encScalar, decScalar, decFrame_enc b rest h.1, h.2, if_true]

/-! ## well-formed values of a schema -/

section Generic
variable (wf : Msg → Val → Prop) (pk : Msg → Val → List Nat) (rec : Msg → List Nat → R (Val × List Nat))

def WfTyWith : Ty → Val → Prop
  | .scalar s, v => WfScalar s v
  | .msg m, v => wf m v ∧ (pk m v).length < U64

def WfSlotWith (f : Field) (v : Val) : Prop :=
  match f.card, v with
  | .one, v => WfTyWith wf pk f.ty v
  | .opt, .none => True
  | .opt, .some x => WfTyWith wf pk f.ty x
  | .rep, .list xs => ∀ x ∈ xs, WfTyWith wf pk f.ty x
  | _, _ => False

def WfFieldsWith : List Field → List Val → Prop
  | [], [] => True
  | f :: fs, v :: vs => validFieldNumber f.num = true ∧ WfSlotWith wf pk f v ∧ WfFieldsWith fs vs
  | _, _ => False

def WfVariantWith : Variant → Val → Prop
  | .unit _, .struct [] => True
  | .tuple _ ty, p => WfTyWith wf pk ty p
  | .named _ fs, .struct vs =>
    WfFieldsWith wf pk fs vs ∧ (fs.map (·.num)).Nodup ∧ (packFields pk fs vs).length < U64
  | _, _ => False

/-- the values a slot puts on the wire, in order: (field number, field type, value) -/
def slotEntries (f : Field) (v : Val) : List (Nat × Ty × Val) :=
  match f.card, v with
  | .one, v => [(f.num, f.ty, v)]
  | .opt, .some x => [(f.num, f.ty, x)]
  | .rep, .list xs => xs.map (fun x => (f.num, f.ty, x))
  | _, _ => []

def entries : List Field → List Val → List (Nat × Ty × Val)
  | f :: fs, v :: vs => slotEntries f v ++ entries fs vs
  | _, _ => []

def packEntry (e : Nat × Ty × Val) : List Nat := packOne pk e.1 e.2.1 e.2.2

def itemOf (e : Nat × Ty × Val) : Tag × List Nat := (⟨e.1, e.2.1.wt⟩, encTyWith pk e.2.1 e.2.2)

def WfEntry (e : Nat × Ty × Val) : Prop := validFieldNumber e.1 = true ∧ WfTyWith wf pk e.2.1 e.2.2

theorem packSlot_eq (f : Field) (v : Val) :
    packSlot pk f v = (slotEntries f v).flatMap (packEntry pk) := by
  unfold packSlot slotEntries
  cases hc : f.card <;> cases v <;> simp [packEntry, List.flatMap_map]

theorem packFields_eq : ∀ (fs : List Field) (vs : List Val),
    packFields pk fs vs = (entries fs vs).flatMap (packEntry pk)
  | [], _ => by simp [packFields, entries]
  | _ :: _, [] => by simp [packFields, entries]
  | f :: fs, v :: vs => by
    simp only [packFields, entries, List.flatMap_append, packSlot_eq, packFields_eq fs vs]

theorem wfEntries_slot (f : Field) (v : Val) (hn : validFieldNumber f.num = true)
    (h : WfSlotWith wf pk f v) : ∀ e ∈ slotEntries f v, WfEntry wf pk e := by
  unfold WfSlotWith at h; unfold slotEntries
  cases hc : f.card <;> cases v <;> simp only [hc] at h ⊢ <;>
    first
      | (intro e he; simp only [List.mem_singleton] at he; subst he; exact ⟨hn, h⟩)
      | (intro e he; simp only [List.mem_map] at he; obtain ⟨x, hx, rfl⟩ := he; exact ⟨hn, h x hx⟩)
      | (intro e he; simp at he)
      | exact h.elim

theorem wfEntries : ∀ (fs : List Field) (vs : List Val), WfFieldsWith wf pk fs vs →
    ∀ e ∈ entries fs vs, WfEntry wf pk e
  | [], _, _ => by intro e he; simp [entries] at he
  | _ :: _, [], h => by simp [WfFieldsWith] at h
  | f :: fs, v :: vs, h => by
    simp only [WfFieldsWith] at h
    intro e he
    simp only [entries, List.mem_append] at he
    rcases he with he | he
    · exact wfEntries_slot wf pk f v h.1 h.2.1 e he
    · exact wfEntries fs vs h.2.2 e he

/-- the shape of a scalar payload, by wire type -/
theorem encScalar_shape (s : Scalar) (v : Val) (h : WfScalar s v) :
    (s.wt = .varint ∧ ∃ n, n < U64 ∧ encScalar s v = encVarint n)
    ∨ (s.wt = .thirtyTwo ∧ (encScalar s v).length = 4)
    ∨ (s.wt = .sixtyFour ∧ (encScalar s v).length = 8)
    ∨ (s.wt = .lengthDelimited ∧ ∃ b, b.length < U64 ∧ encScalar s v = encBytes b) := by
  cases s <;> cases v <;> simp only [WfScalar] at h
  case int32.int i => exact Or.inl ⟨rfl, _, u64OfI64_lt i, rfl⟩
  case int64.int i => exact Or.inl ⟨rfl, _, u64OfI64_lt i, rfl⟩
  case uint32.int i => exact Or.inl ⟨rfl, i.toNat, by unfold P32 at h; unfold U64; omega, rfl⟩
  case uint64.int i => exact Or.inl ⟨rfl, i.toNat, by omega, rfl⟩
  case sint32.int i => exact Or.inl ⟨rfl, _, zigzag_lt i (p31_p63 h.1 h.2).1 (p31_p63 h.1 h.2).2, rfl⟩
  case sint64.int i => exact Or.inl ⟨rfl, _, zigzag_lt i h.1 h.2, rfl⟩
  case bool.int i => exact Or.inl ⟨rfl, _, by unfold U64; split <;> omega, rfl⟩
  case fixed32.int i => exact Or.inr (Or.inl ⟨rfl, Blue.Proto.leBytes_length 4 _⟩)
  case fixed64.int i => exact Or.inr (Or.inr (Or.inl ⟨rfl, Blue.Proto.leBytes_length 8 _⟩))
  case sfixed32.int i => exact Or.inr (Or.inl ⟨rfl, Blue.Proto.leBytes_length 4 _⟩)
  case sfixed64.int i => exact Or.inr (Or.inr (Or.inl ⟨rfl, Blue.Proto.leBytes_length 8 _⟩))
  case float.int i => exact Or.inr (Or.inl ⟨rfl, Blue.Proto.leBytes_length 4 _⟩)
  case double.int i => exact Or.inr (Or.inr (Or.inl ⟨rfl, Blue.Proto.leBytes_length 8 _⟩))
  case bytes.bytes b => exact Or.inr (Or.inr (Or.inr ⟨rfl, b, h, rfl⟩))
  case bytesN.bytes n b => exact Or.inr (Or.inr (Or.inr ⟨rfl, b, by omega, rfl⟩))
  case string.bytes b => exact Or.inr (Or.inr (Or.inr ⟨rfl, b, h.1, rfl⟩))

/-- the field iterator hands a packed value's payload, and nothing else, to its unpacker -/
theorem fieldStepE_packEntry (e : Nat × Ty × Val) (h : WfEntry wf pk e) (rest : List Nat) :
    fieldStepE (packEntry pk e ++ rest) = .ok (itemOf pk e, rest) := by
  obtain ⟨num, ty, x⟩ := e
  obtain ⟨hn, hw⟩ := h
  simp only [packEntry, packOne, itemOf]
  apply fieldStepE_of_fieldStep
  cases ty with
  | scalar s =>
    simp only [WfTyWith] at hw
    simp only [encTyWith, Ty.wt]
    rcases encScalar_shape s x hw with ⟨hwt, n, hn', he⟩ | ⟨hwt, hl⟩ | ⟨hwt, hl⟩ | ⟨hwt, b, hb, he⟩
    · rw [hwt, he]; exact fieldStep_varint num n hn hn' rest
    · rw [hwt]; exact Blue.Proto.fieldStep_fixed num 4 .thirtyTwo _ rest hn hl (Or.inl ⟨rfl, rfl⟩)
    · rw [hwt]; exact Blue.Proto.fieldStep_fixed num 8 .sixtyFour _ rest hn hl (Or.inr ⟨rfl, rfl⟩)
    · rw [hwt, he]; exact fieldStep_bytes num b hn hb rest
  | msg m =>
    simp only [WfTyWith] at hw
    simp only [encTyWith, Ty.wt]
    exact fieldStep_bytes num _ hn hw.2 rest

theorem packEntry_ne_nil (e : Nat × Ty × Val) : packEntry pk e ≠ [] := by
  simp only [packEntry, packOne]
  intro h; exact encTag_ne_nil _ (List.append_eq_nil_iff.mp h).1

theorem fieldsE_entries : ∀ (es : List (Nat × Ty × Val)), (∀ e ∈ es, WfEntry wf pk e) →
    ∀ n, es.length < n → fieldsE n (es.flatMap (packEntry pk)) = (es.map (itemOf pk), none)
  | [], _, n, hn => by
    cases n with
    | zero => omega
    | succ k => simp [fieldsE]
  | e :: es, h, n, hn => by
    cases n with
    | zero => omega
    | succ k =>
      simp only [List.flatMap_cons, List.map_cons]
      have hs := fieldStepE_packEntry wf pk e (h e List.mem_cons_self) (es.flatMap (packEntry pk))
      have hne : packEntry pk e ++ es.flatMap (packEntry pk) ≠ [] := by
        intro h'; exact packEntry_ne_nil pk e (List.append_eq_nil_iff.mp h').1
      rw [fieldsE_cons _ _ _ _ hne hs,
        fieldsE_entries es (fun x hx => h x (List.mem_cons_of_mem _ hx)) k (by simp at hn; omega)]

theorem length_le_flatMap : ∀ (es : List (Nat × Ty × Val)), es.length ≤ (es.flatMap (packEntry pk)).length
  | [] => by simp
  | e :: es => by
    simp only [List.flatMap_cons, List.length_cons, List.length_append]
    have := List.length_pos_iff.mpr (packEntry_ne_nil pk e)
    have := length_le_flatMap es
    omega

/-- the unpacker of a field type inverts its packer, whatever follows -/
theorem decTy_enc (H : ∀ m x, wf m x → rec m (pk m x) = .ok (x, [])) (ty : Ty) (x : Val)
    (h : WfTyWith wf pk ty x) (rest : List Nat) :
    decTyWith rec ty (encTyWith pk ty x ++ rest) = .ok (x, rest) := by
  cases ty with
  | scalar s => exact decScalar_enc s x h rest
  | msg m =>
    simp only [WfTyWith] at h
    simp only [decTyWith, encTyWith, decFrame_enc _ rest h.2, H m x h.1, List.isEmpty_nil, if_true]

/-! ### merging the iterator's items back into the slots -/

theorem mergeInto_skip (pre : List Field) (vpre : List Val) (hl : vpre.length = pre.length)
    (S : List Field) (acc : List Val) (fld : Tag × List Nat) (hne : ∀ g ∈ pre, g.num ≠ fld.1.num) :
    mergeInto rec (pre ++ S) (vpre ++ acc) fld
      = (mergeInto rec S acc fld).map (fun r => r.map (vpre ++ ·)) := by
  induction pre generalizing vpre with
  | nil =>
    cases vpre with
    | nil =>
      cases h : mergeInto rec S acc fld with
      | none => simp [h]
      | some r => cases r <;> simp [h, Except.map]
    | cons a t => simp at hl
  | cons g gs ih =>
    cases vpre with
    | nil => simp at hl
    | cons a t =>
      simp only [List.cons_append, mergeInto]
      have hg : ¬ (g.num = fld.1.num ∧ g.ty.wt = fld.1.wt) := fun h => hne g List.mem_cons_self h.1
      rw [if_neg hg, ih t (by simpa using hl) (fun x hx => hne x (List.mem_cons_of_mem _ hx))]
      cases h : mergeInto rec S acc fld with
      | none => simp
      | some r => cases r <;> simp [Except.map]

theorem mergeStep_entry (H : ∀ m x, wf m x → rec m (pk m x) = .ok (x, [])) (strict : Bool)
    (pre : List Field) (vpre : List Val) (hl : vpre.length = pre.length) (f : Field) (fs : List Field)
    (cur : Val) (ds : List Val) (x : Val) (hx : WfTyWith wf pk f.ty x) (hne : ∀ g ∈ pre, g.num ≠ f.num) :
    mergeStep rec strict (pre ++ f :: fs) (.ok (vpre ++ cur :: ds)) (itemOf pk (f.num, f.ty, x))
      = .ok (vpre ++ mergeSlot f.card cur x :: ds) := by
  have hd := decTy_enc wf pk rec H f.ty x hx []
  simp only [List.append_nil] at hd
  simp only [mergeStep, itemOf]
  rw [mergeInto_skip rec pre vpre hl (f :: fs) (cur :: ds) _ hne]
  simp only [mergeInto, and_self, if_true, hd, Option.map_some, Except.map]

theorem merge_rep (H : ∀ m x, wf m x → rec m (pk m x) = .ok (x, [])) (strict : Bool)
    (pre : List Field) (vpre : List Val) (hl : vpre.length = pre.length) (f : Field) (fs : List Field)
    (ds : List Val) (hc : f.card = .rep) (hne : ∀ g ∈ pre, g.num ≠ f.num) :
    ∀ (xs acc : List Val), (∀ x ∈ xs, WfTyWith wf pk f.ty x) →
      (xs.map (fun x => itemOf pk (f.num, f.ty, x))).foldl (mergeStep rec strict (pre ++ f :: fs))
        (.ok (vpre ++ Val.list acc :: ds)) = .ok (vpre ++ Val.list (acc ++ xs) :: ds)
  | [], acc, _ => by simp
  | x :: xs, acc, h => by
    simp only [List.map_cons, List.foldl_cons]
    rw [mergeStep_entry wf pk rec H strict pre vpre hl f fs _ ds x (h x List.mem_cons_self) hne]
    simp only [hc, mergeSlot]
    rw [merge_rep H strict pre vpre hl f fs ds hc hne xs (acc ++ [x]) (fun y hy => h y (List.mem_cons_of_mem _ hy))]
    simp

theorem merge_slot (H : ∀ m x, wf m x → rec m (pk m x) = .ok (x, [])) (strict : Bool) (dr : Msg → Val)
    (pre : List Field) (vpre : List Val) (hl : vpre.length = pre.length) (f : Field) (fs : List Field)
    (ds : List Val) (v : Val) (hw : WfSlotWith wf pk f v) (hne : ∀ g ∈ pre, g.num ≠ f.num) :
    ((slotEntries f v).map (itemOf pk)).foldl (mergeStep rec strict (pre ++ f :: fs))
      (.ok (vpre ++ dfltSlotWith dr f :: ds)) = .ok (vpre ++ v :: ds) := by
  unfold WfSlotWith at hw; unfold slotEntries
  cases hc : f.card with
  | one =>
    simp only [hc] at hw ⊢
    simp only [List.map_cons, List.map_nil, List.foldl_cons, List.foldl_nil]
    rw [mergeStep_entry wf pk rec H strict pre vpre hl f fs _ ds _ hw hne]
    simp only [hc, mergeSlot]
  | opt =>
    cases v <;> simp only [hc] at hw ⊢ <;> try exact hw.elim
    case none => simp only [List.map_nil, List.foldl_nil, dfltSlotWith, hc]
    case some x =>
      simp only [List.map_cons, List.map_nil, List.foldl_cons, List.foldl_nil]
      rw [mergeStep_entry wf pk rec H strict pre vpre hl f fs _ ds _ hw hne]
      simp only [hc, mergeSlot]
  | rep =>
    cases v <;> simp only [hc] at hw ⊢ <;> try exact hw.elim
    case list xs =>
      have hd : dfltSlotWith dr f = Val.list [] := by simp only [dfltSlotWith, hc]
      rw [hd, List.map_map]
      have := merge_rep wf pk rec H strict pre vpre hl f fs ds hc hne xs [] hw
      simpa [Function.comp_def] using this

theorem merge_fields (H : ∀ m x, wf m x → rec m (pk m x) = .ok (x, [])) (strict : Bool) (dr : Msg → Val) :
    ∀ (suf : List Field) (vsuf : List Val), WfFieldsWith wf pk suf vsuf →
    ∀ (pre : List Field) (vpre : List Val), vpre.length = pre.length →
      ((pre ++ suf).map (·.num)).Nodup →
      ((entries suf vsuf).map (itemOf pk)).foldl (mergeStep rec strict (pre ++ suf))
        (.ok (vpre ++ suf.map (dfltSlotWith dr))) = .ok (vpre ++ vsuf)
  | [], [], _, pre, vpre, _, _ => by simp [entries]
  | [], _ :: _, h, _, _, _, _ => by simp [WfFieldsWith] at h
  | _ :: _, [], h, _, _, _, _ => by simp [WfFieldsWith] at h
  | f :: fs, v :: vs, h, pre, vpre, hl, hnd => by
    simp only [WfFieldsWith] at h
    have hne : ∀ g ∈ pre, g.num ≠ f.num := by
      intro g hg heq
      rw [List.map_append, List.map_cons] at hnd
      exact (List.nodup_append.mp hnd).2.2 g.num (List.mem_map.mpr ⟨g, hg, rfl⟩) f.num List.mem_cons_self heq
    simp only [entries, List.map_append, List.foldl_append, List.map_cons]
    rw [merge_slot wf pk rec H strict dr pre vpre hl f fs _ v h.2.1 hne]
    have e1 : pre ++ f :: fs = (pre ++ [f]) ++ fs := by simp
    have e2 : vpre ++ v :: fs.map (dfltSlotWith dr) = (vpre ++ [v]) ++ fs.map (dfltSlotWith dr) := by simp
    have e3 : vpre ++ v :: vs = (vpre ++ [v]) ++ vs := by simp
    rw [e1, e2, e3]
    exact merge_fields H strict dr fs vs h.2.2 (pre ++ [f]) (vpre ++ [v]) (by simp [hl]) (by rw [← e1]; exact hnd)

/-- a struct body (or the body of a named variant) unpacks to the slots that were packed -/
theorem unpackFields_pack (H : ∀ m x, wf m x → rec m (pk m x) = .ok (x, [])) (strict : Bool) (dr : Msg → Val)
    (fs : List Field) (vs : List Val) (h : WfFieldsWith wf pk fs vs) (hnd : (fs.map (·.num)).Nodup) :
    unpackFields rec strict fs (fs.map (dfltSlotWith dr)) (packFields pk fs vs) = .ok vs := by
  unfold unpackFields
  rw [packFields_eq]
  have hl := length_le_flatMap pk (entries fs vs)
  rw [fieldsE_entries wf pk (entries fs vs) (wfEntries wf pk fs vs h) _ (by omega)]
  have := merge_fields wf pk rec H strict dr fs vs h [] [] rfl (by simpa using hnd)
  simp only [List.nil_append] at this
  simp only [this]

end Generic

/-! ## the message round trip -/

/-- `v` is a value of message type `m` (nesting depth below the fuel): field and variant numbers
    valid and distinct, every leaf in the range of its Rust type, every nested frame shorter
    than 2^64 bytes -/
def WfMsg : Nat → Msg → Val → Prop
  | 0, _, _ => False
  | f+1, .struct fs, .struct vs => WfFieldsWith (WfMsg f) (packMsg f) fs vs ∧ (fs.map (·.num)).Nodup
  | f+1, .enum vars _, .variant i p =>
    ∃ var, vars[i]? = some var ∧ validFieldNumber var.num = true
      ∧ (∀ j w, j < i → vars[j]? = some w → w.num ≠ var.num)
      ∧ WfVariantWith (WfMsg f) (packMsg f) var p
  | f+1, .result okm errm _, .variant i p =>
    (i = 0 ∧ WfMsg f okm p ∧ (packMsg f okm p).length < U64)
    ∨ (i = 1 ∧ WfMsg f errm p ∧ (packMsg f errm p).length < U64)
  | _, _, _ => False

theorem findVariant_spec : ∀ (vars : List Variant) (k i : Nat) (var : Variant),
    vars[i]? = some var → (∀ j w, j < i → vars[j]? = some w → w.num ≠ var.num) →
    findVariant vars ⟨var.num, var.wt⟩ k = some (k + i, var)
  | [], _, i, _, h, _ => by simp at h
  | v :: vs, k, 0, var, h, _ => by
    simp only [List.getElem?_cons_zero, Option.some.injEq] at h
    subst h
    simp [findVariant]
  | v :: vs, k, i + 1, var, h, hne => by
    simp only [List.getElem?_cons_succ] at h
    have h0 : v.num ≠ var.num := hne 0 v (by omega) (by simp)
    have hc : ¬ (v.num = var.num ∧ v.wt = var.wt) := fun hh => h0 hh.1
    simp only [findVariant, hc, if_false]
    rw [findVariant_spec vs (k + 1) i var h (fun j w hj hw => hne (j + 1) w (by omega) (by simpa using hw))]
    congr 2; omega

/-- one level of the round trip, with whatever follows an enum or a `Result` returned unconsumed
    (a struct consumes everything) -/
theorem unpack_pack_step (f : Nat)
    (ih : ∀ (m : Msg) (v : Val), WfMsg f m v → unpackMsg f m (packMsg f m v) = .ok (v, []))
    (m : Msg) (v : Val) (h : WfMsg (f + 1) m v) (rest : List Nat)
    (hr : (∃ fs, m = .struct fs) → rest = []) :
    unpackMsg (f + 1) m (packMsg (f + 1) m v ++ rest) = .ok (v, rest) := by
  cases m with
  | struct fs =>
    have := hr ⟨fs, rfl⟩
    subst this
    cases v <;> simp only [WfMsg] at h
    case struct vs =>
      simp only [packMsg, unpackMsg, List.append_nil]
      rw [unpackFields_pack (WfMsg f) (packMsg f) (unpackMsg f) ih false (dfltMsg f) fs vs h.1 h.2]
  | enum vars d =>
    cases v <;> simp only [WfMsg] at h
    case variant i p =>
      obtain ⟨var, hvar, hn, hne, hw⟩ := h
      have hfind := findVariant_spec vars 0 i var hvar hne
      simp only [Nat.zero_add] at hfind
      cases var with
      | unit n =>
        cases p <;> simp only [WfVariantWith] at hw
        case struct vs =>
          cases vs with
          | cons a t => simp at hw
          | nil =>
          simp only [packMsg, hvar, unpackMsg, List.append_assoc]
          rw [decTagE_enc ⟨n, .lengthDelimited⟩ hn]
          simp only [Variant.num, Variant.wt] at hfind
          simp only [hfind, decFrame_enc [] rest (by unfold U64; simp)]
      | tuple n ty =>
        simp only [WfVariantWith] at hw
        simp only [packMsg, hvar, unpackMsg, packOne, List.append_assoc]
        rw [decTagE_enc ⟨n, ty.wt⟩ hn]
        simp only [Variant.num, Variant.wt] at hfind
        simp only [hfind, decTy_enc (WfMsg f) (packMsg f) (unpackMsg f) ih ty p hw rest]
      | named n fs =>
        cases p <;> simp only [WfVariantWith] at hw
        case struct vs =>
          simp only [packMsg, hvar, unpackMsg, List.append_assoc]
          rw [decTagE_enc ⟨n, .lengthDelimited⟩ hn]
          simp only [Variant.num, Variant.wt] at hfind
          simp only [hfind, decFrame_enc (packFields (packMsg f) fs vs) rest hw.2.2]
          rw [unpackFields_pack (WfMsg f) (packMsg f) (unpackMsg f) ih _ (dfltMsg f) fs vs hw.1 hw.2.1]
  | result okm errm d =>
    cases v <;> simp only [WfMsg] at h
    case variant i p =>
      rcases h with ⟨rfl, hw, hl⟩ | ⟨rfl, hw, hl⟩
      · simp only [packMsg, if_true, unpackMsg, List.append_assoc]
        rw [decVarint_enc 10 (by unfold U64; omega)]
        have h1 : ¬ (10 > U32MAX) := by unfold U32MAX; omega
        simp only [h1, if_false, if_true, decFrame_enc (packMsg f okm p) rest hl, ih okm p hw]
      · have h0 : ¬ (1 = 0) := by omega
        simp only [packMsg, h0, if_false, if_true, unpackMsg, List.append_assoc]
        rw [decVarint_enc 18 (by unfold U64; omega)]
        have h1 : ¬ (18 > U32MAX) := by unfold U32MAX; omega
        have h2 : ¬ (18 = 10) := by omega
        simp only [h1, h2, if_false, if_true, decFrame_enc (packMsg f errm p) rest hl, ih errm p hw]

/-- **C15** `message_roundtrip`: for every message type of the schema language (structs and enums
    over every field type, `Option` / `Vec`, nested messages, `Result`) and every value of it,
    unpacking the packing returns the value and consumes everything -/
theorem unpack_pack : ∀ (f : Nat) (m : Msg) (v : Val), WfMsg f m v →
    unpackMsg f m (packMsg f m v) = .ok (v, []) := by
  intro f
  induction f with
  | zero => intro m v h; simp [WfMsg] at h
  | succ f ih =>
    intro m v h
    have := unpack_pack_step f ih m v h [] (fun _ => rfl)
    simpa using this

/-- an enum or a `Result` consumes exactly its own field and returns what follows -/
theorem unpack_pack_rest (f : Nat) (m : Msg) (v : Val) (h : WfMsg f m v) (rest : List Nat)
    (hm : ∀ fs, m ≠ .struct fs) : unpackMsg f m (packMsg f m v ++ rest) = .ok (v, rest) := by
  cases f with
  | zero => simp [WfMsg] at h
  | succ f =>
    exact unpack_pack_step f (unpack_pack f) m v h rest (fun ⟨fs, hfs⟩ => absurd hfs (hm fs))

/-! ## unknown fields -/

/-- a field matching no arm of the generated `match (num, wire_type)` -/
def Unknown (fs : List Field) (t : Tag) : Prop := ∀ f ∈ fs, ¬ (f.num = t.num ∧ f.ty.wt = t.wt)

theorem mergeInto_unknown (rec : Msg → List Nat → R (Val × List Nat)) :
    ∀ (fs : List Field) (acc : List Val) (fld : Tag × List Nat), Unknown fs fld.1 →
      mergeInto rec fs acc fld = none
  | [], acc, fld, _ => by cases acc <;> rfl
  | f :: fs, [], fld, _ => rfl
  | f :: fs, v :: vs, fld, h => by
    simp only [mergeInto]
    rw [if_neg (h f List.mem_cons_self),
      mergeInto_unknown rec fs vs fld (fun g hg => h g (List.mem_cons_of_mem _ hg))]
    rfl

/-- **C15** a struct's loop passes over a field it has no arm for: the message being built, or
    the error already found, is unchanged — whatever the field's payload -/
theorem mergeStep_unknown (rec : Msg → List Nat → R (Val × List Nat)) (fs : List Field)
    (acc : R (List Val)) (fld : Tag × List Nat) (h : Unknown fs fld.1) :
    mergeStep rec false fs acc fld = acc := by
  cases acc with
  | error e => rfl
  | ok a => simp [mergeStep, mergeInto_unknown rec fs a fld h]

/-- **C15** `unknown_fields_skipped`: a well-formed field that the reader has no arm for, inserted
    anywhere between the fields of a struct body, does not change what the body unpacks to -/
theorem unpackFields_unknown (wf : Msg → Val → Prop) (pk : Msg → Val → List Nat)
    (rec : Msg → List Nat → R (Val × List Nat)) (fs : List Field) (dflts : List Val)
    (es1 es2 : List (Nat × Ty × Val)) (u : Nat × Ty × Val)
    (h1 : ∀ e ∈ es1, WfEntry wf pk e) (h2 : ∀ e ∈ es2, WfEntry wf pk e) (hu : WfEntry wf pk u)
    (hunk : Unknown fs ⟨u.1, u.2.1.wt⟩) :
    unpackFields rec false fs dflts ((es1 ++ u :: es2).flatMap (packEntry pk))
      = unpackFields rec false fs dflts ((es1 ++ es2).flatMap (packEntry pk)) := by
  have hw1 : ∀ e ∈ es1 ++ u :: es2, WfEntry wf pk e := by
    intro e he
    simp only [List.mem_append, List.mem_cons] at he
    rcases he with he | rfl | he
    · exact h1 e he
    · exact hu
    · exact h2 e he
  have hw2 : ∀ e ∈ es1 ++ es2, WfEntry wf pk e := by
    intro e he
    simp only [List.mem_append] at he
    rcases he with he | he
    · exact h1 e he
    · exact h2 e he
  unfold unpackFields
  rw [fieldsE_entries wf pk _ hw1 _ (by have := length_le_flatMap pk (es1 ++ u :: es2); omega),
    fieldsE_entries wf pk _ hw2 _ (by have := length_le_flatMap pk (es1 ++ es2); omega)]
  simp only [List.map_append, List.map_cons, List.foldl_append, List.foldl_cons]
  rw [mergeStep_unknown rec fs _ (itemOf pk u) hunk]

/-- the same for a whole struct message -/
theorem unpackMsg_unknown (f : Nat) (fs : List Field) (es1 es2 : List (Nat × Ty × Val)) (u : Nat × Ty × Val)
    (h1 : ∀ e ∈ es1, WfEntry (WfMsg f) (packMsg f) e) (h2 : ∀ e ∈ es2, WfEntry (WfMsg f) (packMsg f) e)
    (hu : WfEntry (WfMsg f) (packMsg f) u) (hunk : Unknown fs ⟨u.1, u.2.1.wt⟩) :
    unpackMsg (f + 1) (.struct fs) ((es1 ++ u :: es2).flatMap (packEntry (packMsg f)))
      = unpackMsg (f + 1) (.struct fs) ((es1 ++ es2).flatMap (packEntry (packMsg f))) := by
  simp only [unpackMsg]
  rw [unpackFields_unknown (WfMsg f) (packMsg f) (unpackMsg f) fs _ es1 es2 u h1 h2 hu hunk]

/-- decoding is total: every byte string yields a value or an error class (the model has no
    partial function; for the code, panic-freedom is the hostile-stream correspondence) -/
theorem unpack_total (f : Nat) (m : Msg) (bs : List Nat) :
    (∃ v rest, unpackMsg f m bs = .ok (v, rest)) ∨ (∃ e, unpackMsg f m bs = .error e) := by
  cases h : unpackMsg f m bs with
  | error e => exact Or.inr ⟨e, rfl⟩
  | ok r => exact Or.inl ⟨r.1, r.2, rfl⟩

/-! ## non-canonical varints in struct fields -/

theorem decVarintAux_shape : ∀ (f shl acc : Nat) (bs : List Nat) (v : Nat) (rest : List Nat),
    decVarintAux f shl acc bs = some (v, rest) →
    ∃ pre last, bs = pre ++ last :: rest ∧ (∀ b ∈ pre, 128 ≤ b) ∧ last < 128
  | 0, _, _, _, _, _, h => by simp [decVarintAux] at h
  | _+1, _, _, [], _, _, h => by simp [decVarintAux] at h
  | f+1, shl, acc, b :: t, v, rest, h => by
    simp only [decVarintAux] at h
    by_cases hb : b < 128
    · simp only [hb, if_true, Option.some.injEq, Prod.mk.injEq] at h
      exact ⟨[], b, by simp [h.2], by simp, hb⟩
    · simp only [hb, if_false] at h
      obtain ⟨pre, last, e, hp, hl⟩ := decVarintAux_shape f _ _ t v rest h
      refine ⟨b :: pre, last, by simp [e], ?_, hl⟩
      intro x hx
      simp only [List.mem_cons] at hx
      rcases hx with rfl | hx
      · omega
      · exact hp x hx

theorem decVarintAux_all_cont : ∀ (pre : List Nat) (f shl acc : Nat), (∀ b ∈ pre, 128 ≤ b) →
    decVarintAux f shl acc pre = none
  | [], 0, _, _, _ => rfl
  | [], _+1, _, _, _ => rfl
  | _ :: _, 0, _, _, _ => rfl
  | b :: t, f+1, shl, acc, h => by
    have hb : ¬ b < 128 := by have := h b List.mem_cons_self; omega
    simp only [decVarintAux, hb, if_false]
    exact decVarintAux_all_cont t f _ _ (fun x hx => h x (List.mem_cons_of_mem _ hx))

/-- a proper prefix of the bytes a varint occupies is not a varint -/
theorem decVarint_truncated (buf : List Nat) (x : Nat) (rest : List Nat) (n : Nat)
    (h : decVarint buf = some (x, rest)) (hn : n + rest.length < buf.length) :
    decVarint (buf.take n) = none := by
  obtain ⟨pre, last, e, hp, _⟩ := decVarintAux_shape 10 0 0 buf x rest h
  subst e
  have hlen : n ≤ pre.length := by simp at hn; omega
  rw [List.take_append_of_le_length hlen]
  exact decVarintAux_all_cont _ 10 0 0 (fun b hb => hp b (List.mem_of_mem_take hb))

/-- **C15** `noncanonical_field_rejected`: `FieldIterator::next` cuts a varint field's slice at the
    canonical size of the value it read, so a non-minimally encoded value reaches the field's
    unpacker truncated and is rejected — an error, never a misparse -/
theorem noncanonical_field_rejected (buf : List Nat) (x : Nat) (rest : List Nat)
    (h : decVarint buf = some (x, rest)) (hn : (encVarint x).length + rest.length < buf.length)
    (s : Scalar) (hs : s.wt = .varint) :
    decScalar s (buf.take (encVarint x).length) = .error .varintOverflow := by
  have := decVarint_truncated buf x rest _ h hn
  cases s <;> simp only [Scalar.wt] at hs <;> simp [decScalar, decVarintE, this] <;> cases hs

end Blue.ProtoMsg
