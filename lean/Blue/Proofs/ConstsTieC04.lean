import Blue.Generated.Consts
import Blue.Model.VerifyOne
/-! What the model of `verify_one` (`Blue.VerifyOne`) hard-codes of lsmtk's source, regenerated from
    the source on every run (`translate/extract.py`, the constants of C05 and C08) and tied here. -/
namespace Blue.ConstsTie

/-- the info keys `verify_one` reads from an edit: `D`, `I`, `L`, `O` — 68, 73, 76, 79 in
    `Blue.VerifyOne.verifyEdit` / `logOk` -/
theorem c04_info_keys : Blue.Generated.lsmtkVerifierEditInfoKeys = [68, 73, 76, 79] := by decide

/-- `verify_gc` (and the store's own collection) call `collector(cursor, 0)`: `Blue.VerifyOne.retained`
    runs `gcP` at `now = 0` -/
theorem c04_collector_now : ∀ n ∈ Blue.Generated.lsmtkCollectorNow, n = 0 := by decide

/-- `verify` leaves `MANIFEST` and the newest numbered fragment alone: two pops -/
theorem c04_entries_popped : Blue.Generated.lsmtkVerifierEntriesPopped = 2 := by decide

/-- `recover_one` takes the input of the ingest record it writes from the manifest itself
    (`mani.info('O')`), once per log; `recover` does not parse it before its loop:
    `Blue.Books.recoverRecs` hands each log the output of the record before -/
theorem c04_recover_reads_output_per_log : Blue.Generated.lsmtkRecoverReadsOutputPerLog = 1 := by decide

/-- `verify_one` makes the comparison `discard != computed_discard` for every edit after the first,
    before and outside the block `discard != 0 && edit.rmed().count() > 0` that runs `verify_gc`:
    the order of `Blue.VerifyOne.finishEdit` -/
theorem c04_discard_check_unguarded : Blue.Generated.lsmtkVerifierDiscardCheckUnguarded = 1 := by decide

end Blue.ConstsTie
