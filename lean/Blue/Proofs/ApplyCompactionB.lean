import Blue.Model.ApplyCompactionB
import Blue.Proofs.ApplyCompaction
/-! **C01** the Boolean checks the driver evaluates on every real compaction step are sound for the
    hypotheses of the successor-tree theorems: `chosenB t c = true → Chosen t c` and
    `outsOkB t c outs = true → OutsOk t c outs`. -/
namespace Blue.NextCompaction
open Blue.Spec

theorem withinB_sound {t : Tree} {c : Core} (h : withinB t c = true) : InputsWithin t c := by
  intro id hid
  unfold withinB at h
  rw [List.all_eq_true] at h
  have h1 := h id hid
  rw [List.any_eq_true] at h1
  obtain ⟨l, hl, h2⟩ := h1
  rw [Bool.and_eq_true, List.any_eq_true] at h2
  obtain ⟨hlo, f, hf, h3⟩ := h2
  simp only [Bool.and_eq_true, decide_eq_true_eq, beq_iff_eq] at h3 hlo
  rw [List.mem_range] at hl
  exact ⟨l, f, hf, h3.1.1, hlo, by omega, h3.1.2, h3.2⟩

theorem coveredB_sound {t : Tree} {c : Core} (h : coveredB t c = true) :
    ∀ g ∈ level t c.upper, g.first ≤ c.last → c.first ≤ g.last → g.id ∈ c.inputs := by
  intro g hg h1 h2
  unfold coveredB at h
  rw [List.all_eq_true] at h
  have := h g hg
  simp only [Bool.or_eq_true, Bool.not_eq_true', Bool.and_eq_false_iff, decide_eq_false_iff_not, List.contains_iff_mem] at this
  rcases this with (h3 | h3) | h3
  · exact absurd h1 h3
  · exact absurd h2 h3
  · exact h3

/-- the driver's check of a real step is sound for `Chosen` -/
theorem chosenB_sound {t : Tree} {c : Core} (h : chosenB t c = true) : Chosen t c := by
  unfold chosenB chosenFlags at h
  simp only [List.all_cons, List.all_nil, Bool.and_true, Bool.and_eq_true, decide_eq_true_eq] at h
  obtain ⟨h1, h2, h3, h4, h5, h6⟩ := h
  exact ⟨h1, h2, h3, Blue.Kvs.closedB_sound _ h4, withinB_sound h5, coveredB_sound h6⟩

/-- the driver's check of the real outputs of a step is sound for `OutsOk` -/
theorem outsOkB_sound {t : Tree} {c : Core} {outs : List File} (h : outsOkB t c outs = true) : OutsOk t c outs := by
  unfold outsOkB outsOkFlags at h
  simp only [List.all_cons, List.all_nil, Bool.and_true, Bool.and_eq_true] at h
  obtain ⟨h1, h2, h3, h4, h5⟩ := h
  refine ⟨?_, sortedB_sound _ h2, ?_, nodupB_sound _ h4, ?_⟩
  · intro o ho
    rw [List.all_eq_true] at h1
    have := h1 o ho
    unfold wfB at this
    simp only [Bool.and_eq_true, decide_eq_true_eq, List.all_eq_true] at this
    exact ⟨this.1, fun v hv => this.2 v hv⟩
  · intro o ho
    rw [List.all_eq_true] at h3
    have := h3 o ho
    simp only [Bool.and_eq_true, decide_eq_true_eq] at this
    exact this
  · intro o ho l f hf he
    unfold freshB at h5
    rw [List.all_eq_true] at h5
    have h6 := h5 o ho
    rw [List.all_eq_true] at h6
    obtain ⟨lst, hget, hfl⟩ := mem_level hf
    have h7 := h6 lst (List.mem_of_getElem? hget)
    rw [List.all_eq_true] at h7
    have h8 := h7 f hfl
    simp only [Bool.or_eq_true, Bool.not_eq_true', beq_eq_false_iff_ne, ne_eq, List.contains_iff_mem] at h8
    rcases h8 with h8 | h8
    · exact absurd he h8
    · exact h8

end Blue.NextCompaction
