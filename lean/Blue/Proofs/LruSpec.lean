import Blue.Proofs.Lru
/-! The LRU model against its *specification* (property C18): the cache is a map with a recency
    order —

    * `find` (what `lookup` returns) after each operation, as a function of `find` before it
      (`find_insertHelper`, `find_lookup`, `find_remove`, `find_pop`);
    * eviction only ever removes a suffix of the recency list, i.e. the least recently used
      entries (`evict_prefix`, `insert_prefix`);
    * the accounted size exceeds the capacity only by what `insert_no_evict` added since the last
      evicting `insert` (`size_run_le`). -/
namespace Blue.Lru
variable {K V : Type} [DecidableEq K] (sz : V → Nat)

/-! ## map semantics -/

theorem find_replaceVal (k k' : K) (v : V) (l : List (K × V)) (h : find k l ≠ none) :
    find k' (replaceVal k v l) = if k' = k then some v else find k' l := by
  induction l with
  | nil => simp [find] at h
  | cons e t ih =>
    obtain ⟨a, b⟩ := e
    simp only [replaceVal]
    by_cases hak : a = k
    · subst hak
      simp only [if_true, find]
      by_cases h2 : a = k'
      · subst h2; simp
      · have : ¬ k' = a := fun x => h2 x.symm
        simp [h2, this]
    · simp only [hak, if_false, find]
      have ht : find k t ≠ none := by simpa [find, hak] using h
      by_cases h2 : a = k'
      · subst h2
        simp [hak]
      · simp only [h2, if_false]
        exact ih ht

/-- `insert_helper` is a map update -/
theorem find_insertHelper (c : Cache K V) (k k' : K) (v : V) :
    find k' (insertHelper sz c k v).entries = if k' = k then some v else find k' c.entries := by
  unfold insertHelper
  cases hf : find k c.entries with
  | some old =>
    simp only
    exact find_replaceVal k k' v c.entries (by rw [hf]; simp)
  | none =>
    simp only [find]
    by_cases h : k = k'
    · subst h; simp
    · have : ¬ k' = k := fun x => h x.symm
      simp [h, this]

theorem find_filter_ne' (k k' : K) (l : List (K × V)) (h : k' ≠ k) :
    find k' (l.filter (fun e => !decide (e.1 = k))) = find k' l := by
  induction l with
  | nil => rfl
  | cons e t ih =>
    obtain ⟨a, b⟩ := e
    by_cases hak : a = k
    · subst hak
      have : ¬ a = k' := fun x => h x.symm
      simp [List.filter, find, this, ih]
    · simp [List.filter, hak, find, ih]

theorem find_filter_ne (k k' : K) (l : List (K × V)) (h : k' ≠ k) :
    find k' (l.filter (fun e => e.1 ≠ k)) = find k' l := by
  simpa using find_filter_ne' k k' l h

theorem find_filter_self' (k : K) (l : List (K × V)) : find k (l.filter (fun e => !decide (e.1 = k))) = none := by
  induction l with
  | nil => rfl
  | cons e t ih =>
    obtain ⟨a, b⟩ := e
    by_cases hak : a = k
    · subst hak; simp [List.filter, ih]
    · simp [List.filter, hak, find, ih]

theorem find_filter_self (k : K) (l : List (K × V)) : find k (l.filter (fun e => e.1 ≠ k)) = none := by
  simpa using find_filter_self' k l

/-- `lookup` returns the map's value and does not change the map (only the recency order) -/
theorem find_lookup (c : Cache K V) (k k' : K) :
    (lookup c k).1 = find k c.entries ∧ find k' (lookup c k).2.entries = find k' c.entries := by
  unfold lookup
  cases hf : find k c.entries with
  | none => exact ⟨rfl, rfl⟩
  | some v =>
    refine ⟨rfl, ?_⟩
    simp only [find]
    by_cases h : k = k'
    · subst h; simp [hf]
    · have : k' ≠ k := fun x => h x.symm
      simp [h, find_filter_ne' k k' c.entries this]

/-- `lookup` makes the entry the most recently used one and keeps the order of the others -/
theorem lookup_recency (c : Cache K V) (k : K) (v : V) (h : find k c.entries = some v) :
    (lookup c k).2.entries = (k, v) :: c.entries.filter (fun e => e.1 ≠ k) := by
  unfold lookup; rw [h]

/-- `remove` deletes the key from the map -/
theorem find_remove (c : Cache K V) (k k' : K) :
    find k' (remove sz c k).entries = if k' = k then none else find k' c.entries := by
  unfold remove
  cases hf : find k c.entries with
  | none =>
    simp only
    by_cases h : k' = k
    · subst h; simp [hf]
    · simp [h]
  | some v =>
    simp only
    by_cases h : k' = k
    · subst h; simp [find_filter_self']
    · simp [h, find_filter_ne' k k' c.entries h]

/-- `pop` returns the least recently used entry (the last of the recency list) and removes
    exactly that one -/
theorem pop_least_recent (c : Cache K V) (e : K × V) (h : c.entries.getLast? = some e) :
    (pop sz c).1 = some e ∧ (pop sz c).2.entries = c.entries.dropLast
      ∧ c.entries = (pop sz c).2.entries ++ [e] := by
  have hne : c.entries ≠ [] := by intro hn; rw [hn] at h; cases h
  have hlast : c.entries.getLast hne = e := by
    rw [List.getLast?_eq_some_getLast hne] at h; cases h; rfl
  unfold pop removeLru
  rw [h]
  refine ⟨rfl, rfl, ?_⟩
  simp only
  rw [← hlast]
  exact (List.dropLast_concat_getLast hne).symm

theorem pop_empty (c : Cache K V) (h : c.entries = []) : (pop sz c).1 = none ∧ (pop sz c).2 = c := by
  unfold pop; rw [h]; exact ⟨rfl, rfl⟩

/-! ## eviction takes the least recently used entries only -/

theorem removeLru_prefix (c : Cache K V) : (removeLru sz c).entries <+: c.entries := by
  unfold removeLru
  cases hl : c.entries.getLast? with
  | none => exact List.prefix_refl _
  | some e => exact List.dropLast_prefix _

theorem evict_prefix : ∀ (f : Nat) (c : Cache K V), (evict sz f c).entries <+: c.entries := by
  intro f
  induction f with
  | zero => intro c; exact List.prefix_refl _
  | succ f ih =>
    intro c
    unfold evict
    split
    · exact (ih (removeLru sz c)).trans (removeLru_prefix sz c)
    · exact List.prefix_refl _

/-- **C18** an evicting insert keeps a prefix of the recency list: whatever it drops is a run of
    least recently used entries -/
theorem insert_prefix (c : Cache K V) (k : K) (v : V) :
    (insert sz c k v).entries <+: (insertHelper sz c k v).entries := by
  unfold insert
  exact evict_prefix sz _ _

/-- eviction is minimal: the loop removes nothing from a cache within its capacity -/
theorem evict_within (f : Nat) (c : Cache K V) (h : c.size ≤ c.capacity) : evict sz f c = c := by
  cases f with
  | zero => rfl
  | succ f =>
    unfold evict
    have : ¬ (c.size > c.capacity) := by omega
    simp [this]

/-- … and every entry it does remove is removed from a cache that was over its capacity: the
    result is either the input or `remove_lru` of an over-full intermediate state whose recency
    list is a prefix of the input's -/
theorem evict_minimal : ∀ (f : Nat) (c : Cache K V), evict sz f c = c ∨
    ∃ c' : Cache K V, c'.size > c'.capacity ∧ c'.entries <+: c.entries ∧ evict sz f c = removeLru sz c' := by
  intro f
  induction f with
  | zero => intro c; exact Or.inl rfl
  | succ f ih =>
    intro c
    unfold evict
    split
    · rename_i hc
      have hover : c.size > c.capacity := by
        simp only [Bool.and_eq_true, decide_eq_true_eq] at hc
        exact hc.1
      rcases ih (removeLru sz c) with h | ⟨c', h1, h2, h3⟩
      · exact Or.inr ⟨c, hover, List.prefix_refl _, h⟩
      · exact Or.inr ⟨c', h1, h2.trans (removeLru_prefix sz c), h3⟩
    · exact Or.inl rfl

/-- **C18** an evicting insert that fits evicts nothing -/
theorem insert_fits (c : Cache K V) (k : K) (v : V)
    (h : (insertHelper sz c k v).size ≤ (insertHelper sz c k v).capacity) :
    insert sz c k v = insertHelper sz c k v := by
  unfold insert
  exact evict_within sz _ _ h

/-! ## operation sequences and the capacity bound -/

inductive Op (K V : Type) where
  | insert (k : K) (v : V)
  | insertNoEvict (k : K) (v : V)
  | lookup (k : K)
  | remove (k : K)
  | pop

def apply (c : Cache K V) : Op K V → Cache K V
  | .insert k v => insert sz c k v
  | .insertNoEvict k v => insertNoEvict sz c k v
  | .lookup k => (lookup c k).2
  | .remove k => remove sz c k
  | .pop => (pop sz c).2

/-- what `insert_no_evict` has added since the last evicting `insert` -/
def slack (s : Nat) : Op K V → Nat
  | .insert _ _ => 0
  | .insertNoEvict _ v => s + sz v
  | .lookup _ => s
  | .remove _ => s
  | .pop => s

theorem inv_apply {c : Cache K V} (h : Inv sz c) (op : Op K V) : Inv sz (apply sz c op) := by
  cases op with
  | insert k v => exact inv_insert sz h k v
  | insertNoEvict k v => exact inv_insertNoEvict sz h k v
  | lookup k => exact inv_lookup sz h k
  | remove k => exact inv_remove sz h k
  | pop => exact inv_pop sz h

theorem insertHelper_capacity (c : Cache K V) (k : K) (v : V) : (insertHelper sz c k v).capacity = c.capacity := by
  unfold insertHelper; split <;> rfl

theorem capacity_apply (c : Cache K V) (op : Op K V) : (apply sz c op).capacity = c.capacity := by
  cases op with
  | insert k v => simp only [apply, insert]; rw [evict_capacity, insertHelper_capacity]
  | insertNoEvict k v => exact insertHelper_capacity sz c k v
  | lookup k => simp only [apply, lookup]; split <;> rfl
  | remove k => simp only [apply, remove]; split <;> rfl
  | pop =>
    simp only [apply, pop]
    split
    · exact removeLru_capacity sz c
    · rfl

theorem insertHelper_size_le (c : Cache K V) (k : K) (v : V) : (insertHelper sz c k v).size ≤ c.size + sz v := by
  unfold insertHelper; split <;> simp only <;> omega

theorem removeLru_size_le (c : Cache K V) : (removeLru sz c).size ≤ c.size := by
  unfold removeLru
  split
  · exact Nat.sub_le _ _
  · exact Nat.le_refl _

theorem size_apply_le {c : Cache K V} (h : Inv sz c) (s : Nat) (hs : c.size ≤ c.capacity + s) (op : Op K V) :
    (apply sz c op).size ≤ c.capacity + slack sz s op := by
  cases op with
  | insert k v =>
    have := insert_within_capacity sz h k v
    simp only [apply, slack]; omega
  | insertNoEvict k v =>
    have := insertHelper_size_le sz c k v
    simp only [apply, slack, insertNoEvict]; omega
  | lookup k =>
    have : (lookup c k).2.size = c.size := by unfold lookup; split <;> rfl
    simp only [apply, slack]; omega
  | remove k =>
    have : (remove sz c k).size ≤ c.size := by
      unfold remove
      split
      · exact Nat.sub_le _ _
      · exact Nat.le_refl _
    simp only [apply, slack]; omega
  | pop =>
    have : (pop sz c).2.size ≤ c.size := by
      unfold pop; split
      · exact removeLru_size_le sz c
      · exact Nat.le_refl _
    simp only [apply, slack]; omega

def run (c : Cache K V) (ops : List (Op K V)) : Cache K V := ops.foldl (apply sz) c
def slackRun (s : Nat) (ops : List (Op K V)) : Nat := ops.foldl (slack sz) s

theorem inv_run {c : Cache K V} (h : Inv sz c) (ops : List (Op K V)) : Inv sz (run sz c ops) := by
  induction ops generalizing c with
  | nil => exact h
  | cons op t ih => exact ih (inv_apply sz h op)

theorem size_run_le_aux (ops : List (Op K V)) : ∀ (c : Cache K V) (s : Nat), Inv sz c → c.size ≤ c.capacity + s →
    (run sz c ops).size ≤ c.capacity + slackRun sz s ops ∧ (run sz c ops).capacity = c.capacity := by
  induction ops with
  | nil => intro c s _ hs; exact ⟨hs, rfl⟩
  | cons op t ih =>
    intro c s h hs
    have h1 := size_apply_le sz h s hs op
    have hc := capacity_apply sz c op
    have := ih (apply sz c op) (slack sz s op) (inv_apply sz h op) (by rw [hc]; exact h1)
    simp only [run, slackRun, List.foldl_cons] at this ⊢
    rw [hc] at this
    exact this

/-- **C18** after every sequence of operations on a fresh cache the accounted size exceeds the
    capacity at most by the sizes handed to `insert_no_evict` since the last evicting `insert` -/
theorem size_run_le (cap : Nat) (ops : List (Op K V)) :
    (run sz (new cap : Cache K V) ops).size ≤ cap + slackRun sz 0 ops :=
  (size_run_le_aux sz ops (new cap) 0 (inv_new sz cap) (by simp [new])).1

end Blue.Lru
