import Blue.Model.Lazy
namespace Blue.Cursor
variable {E : Type}

/-- the lazy cursor's position as a position of the reference cursor over the table -/
inductive LRel (xs : List E) : LPos E → Nat → Prop where
  | first : LRel xs .first 0
  | last : LRel xs .last (xs.length + 1)
  | inst (p : Nat) : 1 ≤ p → p ≤ xs.length → LRel xs (.inst ⟨xs, p⟩) p

theorem kv_isNone_iff (xs : List E) (p : Nat) :
    (Ref.mk xs p).kv.isNone = true ↔ (p = 0 ∨ xs.length < p) := by
  unfold Ref.kv
  by_cases h0 : p = 0
  · simp [h0]
  · simp only [h0, if_false, false_or]
    rw [Option.isNone_iff_eq_none, List.getElem?_eq_none_iff]
    omega

theorem lrel_kv {xs : List E} {pos : LPos E} {p : Nat} (h : LRel xs pos p) :
    Lazy.kv ⟨xs, pos⟩ = (Ref.mk xs p).kv := by
  cases h with
  | first => simp [Lazy.kv, Ref.kv]
  | last => simp [Lazy.kv, Ref.kv]
  | inst p _ _ => rfl

/-- `settle` lands where the reference cursor is, provided "off the end" is the right end -/
theorem settle_rel (xs : List E) (pos : LPos E) (q : Nat) (offEnd : LPos E)
    (hq : q ≤ xs.length + 1)
    (hoff : (q = 0 ∨ xs.length < q) → LRel xs offEnd q) :
    (Lazy.settle ⟨xs, pos⟩ ⟨xs, q⟩ offEnd).xs = xs ∧ LRel xs (Lazy.settle ⟨xs, pos⟩ ⟨xs, q⟩ offEnd).pos q := by
  unfold Lazy.settle
  by_cases hn : (Ref.mk xs q).kv.isNone = true
  · rw [if_pos hn]
    exact ⟨rfl, hoff ((kv_isNone_iff xs q).mp hn)⟩
  · rw [if_neg hn]
    have : ¬ (q = 0 ∨ xs.length < q) := fun h => hn ((kv_isNone_iff xs q).mpr h)
    exact ⟨rfl, LRel.inst q (by omega) (by omega)⟩

theorem lazy_step {xs : List E} {pos : LPos E} {p : Nat} (h : LRel xs pos p) (op : Op E) :
    (Lazy.step ⟨xs, pos⟩ op).xs = xs
    ∧ LRel xs (Lazy.step ⟨xs, pos⟩ op).pos ((Ref.mk xs p).step op).pos
    ∧ ((Ref.mk xs p).step op).xs = xs := by
  have hfind : ∀ (pr : E → Bool), xs.findIdx pr + 1 ≤ xs.length + 1 := by
    intro pr; have := List.findIdx_le_length (p := pr) (xs := xs); omega
  cases op with
  | first => exact ⟨rfl, LRel.first, rfl⟩
  | last => exact ⟨rfl, LRel.last, rfl⟩
  | seek pr =>
    have hs : ∀ (c : Ref E), c.xs = xs → c.seek pr = ⟨xs, xs.findIdx pr + 1⟩ := by
      intro c hc; cases c; simp only at hc; subst hc; rfl
    have hsettle := settle_rel xs pos (xs.findIdx pr + 1) .last (hfind pr)
      (by intro hh; have : xs.findIdx pr + 1 = xs.length + 1 := by
            have := hfind pr; omega
          rw [this]; exact LRel.last)
    cases h with
    | first =>
      simp only [Lazy.step, Ref.step, hs _ (rfl : (Lazy.establish ⟨xs, LPos.first⟩).xs = xs), Ref.seek]
      exact ⟨hsettle.1, hsettle.2, trivial⟩
    | last =>
      simp only [Lazy.step, Ref.step, hs _ (rfl : (Lazy.establish ⟨xs, LPos.last⟩).xs = xs), Ref.seek]
      exact ⟨hsettle.1, hsettle.2, trivial⟩
    | inst p _ _ =>
      simp only [Lazy.step, Ref.step, Ref.seek]
      exact ⟨hsettle.1, hsettle.2, trivial⟩
  | next =>
    cases h with
    | first =>
      simp only [Lazy.step, Ref.step, Lazy.establish, Ref.first, Ref.next]
      have hs := settle_rel xs .first 1 .last (by omega)
        (by intro hh; have : xs.length = 0 := by omega
            have e : (1 : Nat) = xs.length + 1 := by omega
            rw [e]; exact LRel.last)
      simp only [Nat.zero_le, if_true, Nat.zero_add]
      exact ⟨hs.1, hs.2, trivial⟩
    | last =>
      simp only [Lazy.step, Ref.step, Ref.next]
      rw [if_neg (by omega)]
      exact ⟨trivial, LRel.last, rfl⟩
    | inst p h1 h2 =>
      simp only [Lazy.step, Ref.step, Ref.next, if_pos h2]
      have hs := settle_rel xs (.inst ⟨xs, p⟩) (p + 1) .last (by omega)
        (by intro hh; have e : p + 1 = xs.length + 1 := by omega
            rw [e]; exact LRel.last)
      exact ⟨hs.1, hs.2, trivial⟩
  | prev =>
    cases h with
    | first =>
      simp only [Lazy.step, Ref.step, Ref.prev]
      rw [if_neg (by omega)]
      exact ⟨trivial, LRel.first, rfl⟩
    | last =>
      simp only [Lazy.step, Ref.step, Lazy.establish, Ref.last, Ref.prev]
      have hs := settle_rel xs .last xs.length .first (by omega)
        (by intro hh; have e : xs.length = 0 := by omega
            rw [e]; exact LRel.first)
      simp only [Nat.zero_lt_succ, if_true, Nat.add_sub_cancel]
      exact ⟨hs.1, hs.2, trivial⟩
    | inst p h1 h2 =>
      simp only [Lazy.step, Ref.step, Ref.prev, if_pos (show 0 < p by omega)]
      have hs := settle_rel xs (.inst ⟨xs, p⟩) (p - 1) .first (by omega)
        (by intro hh; have e : p - 1 = 0 := by omega
            rw [e]; exact LRel.first)
      exact ⟨hs.1, hs.2, trivial⟩

/-- **C11** lazy cursor: for every table and every finite program of
    `seek_to_first / seek_to_last / seek / next / prev`, the lazy cursor — which opens the table only
    when a call needs it and drops it again when it runs off either end — shows exactly what a cursor
    over the table shows -/
theorem lazy_refines (xs : List E) : ∀ (ops : List (Op E)) (pos : LPos E) (p : Nat), LRel xs pos p →
    Lazy.run ⟨xs, pos⟩ ops = Ref.run ⟨xs, p⟩ ops := by
  intro ops
  induction ops with
  | nil => intros; rfl
  | cons op ops ih =>
    intro pos p h
    obtain ⟨h1, h2, h3⟩ := lazy_step h op
    simp only [Lazy.run, Ref.run]
    have e1 : Lazy.step ⟨xs, pos⟩ op = ⟨xs, (Lazy.step ⟨xs, pos⟩ op).pos⟩ := by
      cases hh : Lazy.step ⟨xs, pos⟩ op with
      | mk a b => rw [hh] at h1; simp only at h1; subst h1; rfl
    have e2 : (Ref.mk xs p).step op = ⟨xs, ((Ref.mk xs p).step op).pos⟩ := by
      cases hh : (Ref.mk xs p).step op with
      | mk a b => rw [hh] at h3; simp only at h3; subst h3; rfl
    rw [e1, lrel_kv h2, ← e2]
    congr 1
    rw [e2]
    exact ih _ _ h2

end Blue.Cursor

#print axioms Blue.Cursor.lazy_refines
