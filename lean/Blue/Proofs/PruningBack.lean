import Blue.Proofs.PruningRel
namespace Blue.Cursor
open Blue.Cursor.Filtered

variable {E K : Type} [DecidableEq K] (cfg : PruneCfg E K) (xs : List E)

theorem ref_prev_at (q : Nat) : (Ref.mk xs (q+1)).prev = ⟨xs, q⟩ := by
  unfold Ref.prev; simp

theorem ref_prev_zero : (Ref.mk xs 0).prev = ⟨xs, 0⟩ := by
  unfold Ref.prev; simp

theorem ref_kv_zero : (Ref.mk xs 0).kv = none := by simp [Ref.kv]

/-- `skipBack` walks back over the run of entries whose key is `k`. -/
theorem skipBack_spec (k : K) :
    ∀ (fuel q : Nat), q ≤ xs.length → q < fuel →
      ∃ q', Pruning.skipBack cfg fuel ⟨xs, q⟩ (some k) = (⟨xs, q'⟩, decide (q' = 0)) ∧ q' ≤ q
        ∧ (∀ (t : Nat) (e : E), q' ≤ t → t < q → xs[t]? = some e → cfg.key e = k)
        ∧ (∀ e, 0 < q' → xs[q'-1]? = some e → cfg.key e ≠ k) := by
  intro fuel
  induction fuel with
  | zero => intro q _ h; omega
  | succ f ih =>
    intro q hq hf
    unfold Pruning.skipBack
    simp only
    cases q with
    | zero =>
      rw [ref_kv_zero]
      exact ⟨0, rfl, Nat.le_refl _, fun t e h1 h2 => by omega, fun e h => by omega⟩
    | succ q0 =>
      rw [ref_kv_at]
      have hlt : q0 < xs.length := by omega
      have he : xs[q0]? = some xs[q0] := by simp [hlt]
      rw [he]
      simp only
      by_cases hk : cfg.key xs[q0] = k
      · have : ¬ (cfg.key xs[q0] ≠ k) := by simp [hk]
        rw [if_neg this, ref_prev_at]
        obtain ⟨q', h1, h2, h3, h4⟩ := ih q0 (by omega) (by omega)
        refine ⟨q', h1, by omega, ?_, h4⟩
        intro t e ht1 ht2 hte
        by_cases htq : t = q0
        · subst htq; rw [he] at hte; cases hte; exact hk
        · exact h3 t e ht1 (by omega) hte
      · rw [if_pos hk]
        refine ⟨q0+1, by simp, Nat.le_refl _, fun t e h1 h2 => by omega, ?_⟩
        intro e _ hee
        simp at hee
        rw [he] at hee; cases hee; exact hk

/-- `backToRunStart` walks back while the entries are `tsOk` with key `target`. -/
theorem backToRunStart_spec (target : K) :
    ∀ (fuel q : Nat), q ≤ xs.length + 1 → q ≤ fuel →
      ∃ q', Pruning.backToRunStart cfg fuel ⟨xs, q⟩ target = ⟨xs, q'⟩ ∧ q' ≤ q - 1
        ∧ (∀ (t : Nat) (e : E), q' ≤ t → t + 1 < q → xs[t]? = some e → cfg.tsOk e = true ∧ cfg.key e = target)
        ∧ (∀ e, 0 < q' → xs[q'-1]? = some e → ¬ (cfg.tsOk e = true ∧ cfg.key e = target)) := by
  intro fuel
  induction fuel with
  | zero =>
    intro q _ h
    have : q = 0 := by omega
    subst this
    exact ⟨0, rfl, by omega, fun t e h1 h2 => by omega, fun e h => by omega⟩
  | succ f ih =>
    intro q hq hf
    unfold Pruning.backToRunStart
    simp only
    cases q with
    | zero =>
      rw [ref_prev_zero, ref_kv_zero]
      exact ⟨0, rfl, by omega, fun t e h1 h2 => by omega, fun e h => by omega⟩
    | succ q0 =>
      rw [ref_prev_at]
      cases q0 with
      | zero =>
        rw [ref_kv_zero]
        exact ⟨0, rfl, by omega, fun t e h1 h2 => by omega, fun e h => by omega⟩
      | succ q1 =>
        rw [ref_kv_at]
        have hlt : q1 < xs.length := by omega
        have he : xs[q1]? = some xs[q1] := by simp [hlt]
        rw [he]
        simp only
        by_cases hc : (!cfg.tsOk xs[q1] || cfg.key xs[q1] ≠ target) = true
        · rw [if_pos hc]
          refine ⟨q1+1, rfl, by omega, fun t e h1 h2 => by omega, ?_⟩
          intro e _ hee
          simp at hee
          rw [he] at hee; cases hee
          intro ⟨h1, h2⟩
          simp [h1, h2] at hc
        · rw [if_neg hc]
          have hc' : cfg.tsOk xs[q1] = true ∧ cfg.key xs[q1] = target := by
            simp at hc; exact hc
          obtain ⟨q', h1, h2, h3, h4⟩ := ih (q1+1) (by omega) (by omega)
          refine ⟨q', h1, by omega, ?_, h4⟩
          intro t e ht1 ht2 hte
          by_cases htq : t = q1
          · subst htq; rw [he] at hte; cases hte; exact hc'
          · exact h3 t e ht1 (by omega) hte

/-- `fwdToCand` walks forward to the first `tsOk` entry with key `target`, if one lies `d` steps ahead. -/
theorem fwdToCand_spec (target : K) :
    ∀ (d fuel q : Nat) (e : E), d < fuel → xs[q+d]? = some e → cfg.tsOk e = true → cfg.key e = target →
      (∀ (t : Nat) (e' : E), q ≤ t → t < q + d → xs[t]? = some e' → ¬ (cfg.tsOk e' = true ∧ cfg.key e' = target)) →
      Pruning.fwdToCand cfg fuel ⟨xs, q+1⟩ target = ⟨xs, q+d+1⟩ := by
  intro d
  induction d with
  | zero =>
    intro fuel q e hf he hts hk _
    cases fuel with
    | zero => omega
    | succ f =>
      unfold Pruning.fwdToCand
      rw [ref_kv_at]
      simp at he
      rw [he]
      simp [hts, hk]
  | succ d ih =>
    intro fuel q e hf he hts hk hnone
    cases fuel with
    | zero => omega
    | succ f =>
      unfold Pruning.fwdToCand
      rw [ref_kv_at]
      have hqlt : q < xs.length := by
        have := (List.getElem?_eq_some_iff.mp he).1; omega
      have heq : xs[q]? = some xs[q] := by simp [hqlt]
      rw [heq]
      simp only
      have hno := hnone q xs[q] (Nat.le_refl _) (by omega) heq
      have : ¬ ((cfg.tsOk xs[q] && decide (cfg.key xs[q] = target)) = true) := by
        simp; intro h1 h2; exact hno ⟨h1, h2⟩
      rw [if_neg this, ref_next_at xs q hqlt]
      have := ih f (q+1) e (by omega) (by rw [show q + 1 + d = q + (d + 1) by omega]; exact he) hts hk
        (fun t e' h1 h2 h3 => hnone t e' (by omega) (by omega) h3)
      rw [this]
      congr 1; omega

end Blue.Cursor
