import Blue.Model.CursorWorldW
import Blue.Proofs.CursorWorld
/-! `Blue.CursorWorldW`: the cursor world with the flush split into `flushInstall` / `flushClear`.
    Every step of it is either a step of `Blue.CursorWorld` on the base state (the unchanged events;
    `flushInstall f` IS the `compactInstall (cur ++ [f]) [(f, entries of imm)]` step) or `clearB`
    (`dropList` on the immutable memtable, `imm := none`), for which the three component invariants
    are kept by `memInv_of_slot` and by the fact that files, contents and cursors are untouched.
    So `WorldInv` of the base state + the window clause is inductive, and the theorems of
    `Blue.CursorWorld` are re-derived from the component lemmas. -/
namespace Blue.CursorWorldW
open Blue.Spec Blue.Cursor Blue.CursorWorld

variable {F K : Type} [DecidableEq F] [DecidableEq K]
variable {klt : K → K → Bool} {tomb : Ver K → Bool}

/-! ### the shape of a step -/

theorem installB_spec {s b : CursorWorld.St F K} {f : F} (h : installB s f = some b) :
    ∃ t, s.imm = some t ∧ s.fileData.all (fun p => !decide (p.1 = f)) = true ∧
      b = { s with files := FileRefs.step s.files (.install (curFiles s.files ++ [f])),
                   fileData := s.fileData ++ [(f, s.tabData.getD t [])] } := by
  unfold installB at h
  split at h
  · cases h
  · rename_i t ht
    split at h
    · rename_i hall
      cases h
      exact ⟨t, ht, hall, rfl⟩
    · cases h

/-- `flushInstall` is, on the base state, the `compactInstall` step with the files `cur ++ [f]` -/
theorem installB_is_compactInstall {s b : CursorWorld.St F K} {f : F} (h : installB s f = some b) :
    ∃ t, s.imm = some t ∧
      CursorWorld.step klt tomb s (.compactInstall (curFiles s.files ++ [f]) [(f, s.tabData.getD t [])]) = some b := by
  obtain ⟨t, ht, _, rfl⟩ := installB_spec h
  exact ⟨t, ht, rfl⟩

theorem clearB_spec {s b : CursorWorld.St F K} (h : clearB s = some b) :
    ∃ t ts, s.imm = some t ∧ onTable s.tables t .dropList = some ts ∧ b = { s with tables := ts, imm := none } := by
  unfold clearB at h
  split at h
  · cases h
  · rename_i t ht
    obtain ⟨ts, h1, rfl⟩ := Option.map_eq_some_iff.1 h
    exact ⟨t, ts, ht, h1, rfl⟩

/-- every step is a `Blue.CursorWorld` step of the base state, the install half, or the clear half -/
theorem step_cases {s s' : St F K} {e : Ev F K} (hs : step klt tomb s e = some s') :
    (∃ e', same e = some e' ∧ CursorWorld.step klt tomb s.base e' = some s'.base ∧ s'.win = s.win) ∨
    (∃ f, e = .flushInstall f ∧ s.win = none ∧ installB s.base f = some s'.base ∧ s'.win = some f) ∨
    (e = .flushClear ∧ (∃ f, s.win = some f) ∧ clearB s.base = some s'.base ∧ s'.win = none) := by
  cases e
  case flushInstall f =>
    simp only [step, same] at hs
    split at hs
    · cases hs
    · rename_i hw
      obtain ⟨b, hb, rfl⟩ := Option.map_eq_some_iff.1 hs
      exact Or.inr (Or.inl ⟨f, rfl, hw, hb, rfl⟩)
  case flushClear =>
    simp only [step, same] at hs
    split at hs
    · cases hs
    · rename_i f hw
      obtain ⟨b, hb, rfl⟩ := Option.map_eq_some_iff.1 hs
      exact Or.inr (Or.inr ⟨rfl, ⟨f, hw⟩, hb, rfl⟩)
  all_goals
    simp only [step, same] at hs
    obtain ⟨b, hb, rfl⟩ := Option.map_eq_some_iff.1 hs
    exact Or.inl ⟨_, rfl, hb, rfl⟩

theorem callOf_same {e : Ev F K} {e' : CursorWorld.Ev F K} (h : same e = some e') (i : Nat) :
    CursorWorld.callOf i e' = callOf i e := by
  cases e <;> simp only [same, Option.some.injEq, reduceCtorEq] at h <;> subst h <;> rfl

/-! ### the clear half keeps the three component invariants -/

theorem memInv_clearB {s b : CursorWorld.St F K} (h : MemInv s) (hc : clearB s = some b) : MemInv b := by
  obtain ⟨t, ts, _, h1, rfl⟩ := clearB_spec hc
  exact memInv_of_slot h (onTable_tabs h1 h.tabs) (onTable_length h1)
    (onTable_slot_same h1 (Or.inr (Or.inl rfl))) (Or.inr rfl) rfl

theorem filesInv_clearB {s b : CursorWorld.St F K} (h : FilesInv s) (hc : clearB s = some b) : FilesInv b := by
  obtain ⟨t, ts, _, h1, rfl⟩ := clearB_spec hc
  exact ⟨h.inv, h.nonempty, h.exact, h.beyond, h.counted_held⟩

theorem snapInv_clearB {s b : CursorWorld.St F K} (h : SnapInv klt tomb s) (hc : clearB s = some b) :
    SnapInv klt tomb b := by
  obtain ⟨t, ts, _, h1, rfl⟩ := clearB_spec hc
  exact h

theorem worldInv_clearB {s b : CursorWorld.St F K} (h : WorldInv klt tomb s) (hc : clearB s = some b) :
    WorldInv klt tomb b :=
  ⟨filesInv_clearB h.files hc, memInv_clearB h.mem hc, snapInv_clearB h.snap hc⟩

/-! ### the window clause -/

/-- in a window the entries of the immutable memtable are exactly the entries of file `f` -/
def WinOk (s : St F K) : Prop :=
  ∀ f, s.win = some f → ∃ t, s.base.imm = some t ∧
    s.base.fileData.find? (fun p => p.1 = f) = some (f, s.base.tabData.getD t [])

theorem dataOf_of_find {fd : List (F × List (Ver K))} {f : F} {d : List (Ver K)}
    (h : fd.find? (fun p => p.1 = f) = some (f, d)) : dataOf fd f = d := by
  unfold dataOf; rw [h]

theorem find_append_keep {fd more : List (F × List (Ver K))} {f : F} {p : F × List (Ver K)}
    (h : fd.find? (fun p => p.1 = f) = some p) : (fd ++ more).find? (fun p => p.1 = f) = some p := by
  rw [List.find?_append, h]; rfl

theorem find_fresh {fd : List (F × List (Ver K))} {f : F} (d : List (Ver K))
    (h : fd.all (fun p => !decide (p.1 = f)) = true) :
    (fd ++ [(f, d)]).find? (fun p => p.1 = f) = some (f, d) := by
  have hn : fd.find? (fun p => p.1 = f) = none := by
    rw [List.find?_eq_none]
    intro p hp
    have := List.all_eq_true.1 h p hp
    simpa using this
  rw [List.find?_append, hn]
  simp

/-- what a `Blue.CursorWorld` event other than `flush` does to `imm`, the memtable contents and the
    file contents: `imm` only changes at a rollover (from `none`), a memtable other than the mutable
    one keeps its entries, the file contents only grow at the end -/
theorem step_data {s s' : CursorWorld.St F K} {e : Ev F K} {e' : CursorWorld.Ev F K} (he : same e = some e')
    (hs : CursorWorld.step klt tomb s e' = some s') :
    (s.imm = none ∨ s'.imm = s.imm) ∧
    (∀ t, t + 1 < s.tables.length → s'.tabData.getD t [] = s.tabData.getD t []) ∧
    (∃ more, s'.fileData = s.fileData ++ more) ∧ s.tables.length ≤ s'.tables.length := by
  cases e <;> simp only [same, Option.some.injEq, reduceCtorEq] at he <;> subst he
  · -- write
    simp only [CursorWorld.step, Option.map_eq_some_iff] at hs
    obtain ⟨ts, h1, rfl⟩ := hs
    refine ⟨Or.inr rfl, ?_, ⟨[], by simp⟩, by show s.tables.length ≤ ts.length; rw [onTable_length h1]; exact Nat.le_refl _⟩
    intro t ht
    show (s.tabData.set (s.tables.length - 1) _).getD t [] = _
    simp only [List.getD_eq_getElem?_getD]
    rw [List.getElem?_set_ne (by omega)]
  · -- rollover
    simp only [CursorWorld.step] at hs
    split at hs
    · cases hs
    · rename_i hn
      cases hs
      refine ⟨Or.inl hn, ?_, ⟨[], by simp⟩, by simp⟩
      intro t ht
      show (s.tabData ++ [[]]).getD t [] = _
      simp only [List.getD_eq_getElem?_getD]
      by_cases hl : t < s.tabData.length
      · rw [List.getElem?_append_left hl]
      · rw [List.getElem?_eq_none (l := s.tabData) (by omega)]
        cases hg : (s.tabData ++ [[]])[t]? with
        | none => rfl
        | some x =>
          rcases getElem?_snoc_cases _ _ _ _ hg with h | ⟨_, rfl⟩
          · rw [List.getElem?_eq_none (by omega)] at h; cases h
          · rfl
  · -- compactInstall
    simp only [CursorWorld.step] at hs
    cases hs
    exact ⟨Or.inr rfl, fun _ _ => rfl, ⟨_, rfl⟩, Nat.le_refl _⟩
  · -- verifierPass
    simp only [CursorWorld.step] at hs
    cases hs
    exact ⟨Or.inr rfl, fun _ _ => rfl, ⟨[], by simp⟩, Nat.le_refl _⟩
  · -- openCursor
    simp only [CursorWorld.step, Option.map_eq_some_iff] at hs
    obtain ⟨r, h1, rfl⟩ := hs
    refine ⟨Or.inr rfl, fun _ _ => rfl, ⟨[], by simp⟩, ?_⟩
    -- the number of memtables is not needed to grow here; `openOn` keeps it
    show s.tables.length ≤ r.1.length
    cases r with
    | mk r1 r2 =>
      -- `openOn` only sets entries
      have : ∀ (tabs : List Nat) (ts ts' : List SkipOwn.St) (hs' : List (Nat × Nat)),
          openOn ts tabs = some (ts', hs') → ts'.length = ts.length := by
        intro tabs
        induction tabs with
        | nil => intro ts ts' hs' h; simp only [openOn] at h; cases h; rfl
        | cons t rest ih =>
          intro ts ts' hs' h
          obtain ⟨tb, ts1, hs1, _, h1', h2, _⟩ := openOn_cons h
          rw [ih _ _ _ h2, onTable_length h1']
      rw [this _ _ _ _ h1]; exact Nat.le_refl _
  · -- stepCursor
    simp only [CursorWorld.step] at hs
    split at hs
    · cases hs
    · rename_i c hc
      split at hs
      · obtain ⟨ts, h1, rfl⟩ := Option.map_eq_some_iff.1 hs
        refine ⟨Or.inr rfl, fun _ _ => rfl, ⟨[], by simp⟩, ?_⟩
        show s.tables.length ≤ ts.length
        have : ∀ (hs' : List (Nat × Nat)) (ts ts' : List SkipOwn.St),
            onHandles .use ts hs' = some ts' → ts'.length = ts.length := by
          intro hs'
          induction hs' with
          | nil => intro ts ts' h; simp only [onHandles] at h; cases h; rfl
          | cons x rest ih =>
            intro ts ts' h
            obtain ⟨a, b⟩ := x
            obtain ⟨ts1, h1', h2⟩ := onHandles_cons h
            rw [ih _ _ h2, onTable_length h1']
        rw [this _ _ _ h1]; exact Nat.le_refl _
      · cases hs
  · -- dropCursor
    simp only [CursorWorld.step] at hs
    split at hs
    · cases hs
    · rename_i c hc
      split at hs
      · obtain ⟨ts, h1, rfl⟩ := Option.map_eq_some_iff.1 hs
        refine ⟨Or.inr rfl, fun _ _ => rfl, ⟨[], by simp⟩, ?_⟩
        show s.tables.length ≤ ts.length
        have : ∀ (hs' : List (Nat × Nat)) (ts ts' : List SkipOwn.St),
            onHandles .dropIter ts hs' = some ts' → ts'.length = ts.length := by
          intro hs'
          induction hs' with
          | nil => intro ts ts' h; simp only [onHandles] at h; cases h; rfl
          | cons x rest ih =>
            intro ts ts' h
            obtain ⟨a, b⟩ := x
            obtain ⟨ts1, h1', h2⟩ := onHandles_cons h
            rw [ih _ _ h2, onTable_length h1']
        rw [this _ _ _ h1]; exact Nat.le_refl _
      · cases hs

/-- the invariant of the split machine: `WorldInv` of the base state + the window clause -/
structure WorldInvW (klt : K → K → Bool) (tomb : Ver K → Bool) (s : St F K) : Prop where
  world : WorldInv klt tomb s.base
  win : WinOk s

theorem worldInvW_init (files : List F) (data : List (F × List (Ver K))) :
    WorldInvW klt tomb (init files data : St F K) :=
  ⟨worldInv_init klt tomb files data, fun f hf => by cases hf⟩

theorem worldInvW_step {s s' : St F K} (h : WorldInvW klt tomb s) (e : Ev F K)
    (hs : step klt tomb s e = some s') : WorldInvW klt tomb s' := by
  rcases step_cases hs with ⟨e', he', hb, hw⟩ | ⟨f, rfl, hw, hb, hw'⟩ | ⟨rfl, ⟨f, hw⟩, hb, hw'⟩
  · refine ⟨worldInv_run [e'] h.world (by simp only [CursorWorld.run, hb]), ?_⟩
    intro f hf
    rw [hw] at hf
    obtain ⟨t, ht, hfd⟩ := h.win f hf
    obtain ⟨himm, htab, ⟨more, hmore⟩, _⟩ := step_data he' hb
    have himm' : s'.base.imm = some t := by
      rcases himm with hn | heq
      · rw [hn] at ht; cases ht
      · rw [heq]; exact ht
    refine ⟨t, himm', ?_⟩
    rw [hmore, htab t (h.world.mem.imm_lt t ht)]
    exact find_append_keep hfd
  · obtain ⟨t, ht, hc⟩ := installB_is_compactInstall (klt := klt) (tomb := tomb) hb
    refine ⟨worldInv_run [CursorWorld.Ev.compactInstall (curFiles s.base.files ++ [f]) [(f, s.base.tabData.getD t [])]] h.world
      (by simp only [CursorWorld.run, hc]), ?_⟩
    intro g hg
    rw [hw'] at hg
    cases hg
    obtain ⟨t', ht', hall, hbe⟩ := installB_spec hb
    rw [ht] at ht'; cases ht'
    rw [hbe]
    exact ⟨t, ht, find_fresh _ hall⟩
  · refine ⟨worldInv_clearB h.world hb, ?_⟩
    intro g hg
    rw [hw'] at hg; cases hg

theorem worldInvW_run : ∀ (evs : List (Ev F K)) {s s' : St F K},
    WorldInvW klt tomb s → run klt tomb s evs = some s' → WorldInvW klt tomb s'
  | [], s, s', h, hr => by simp only [run] at hr; cases hr; exact h
  | e :: evs, s, s', h, hr => by
    simp only [run] at hr
    split at hr
    · rename_i s1 hs1
      exact worldInvW_run evs (worldInvW_step h e hs1) hr
    · cases hr

/-! ### (1), (2), (4) of `Blue.CursorWorld`, re-derived for the split machine -/

/-- **(1) with the window clause**: in every state reached from a freshly opened store by ANY list of
    events of the split machine — the three component invariants, the exact `Arc` counts, the
    coupling of every live cursor (version referenced, files in `sst/`, handles held on memtables that
    have released nothing), and: IN A WINDOW the store still holds the immutable memtable and its
    entries are exactly the entries of the file `f` just installed; outside a window … nothing more -/
theorem world_inv_w (files : List F) (data : List (F × List (Ver K)))
    (evs : List (Ev F K)) {s : St F K} (hr : run klt tomb (init files data) evs = some s) :
    (FileRefs.Inv s.base.files ∧ (∀ tb ∈ s.base.tables, SkipOwn.Inv tb) ∧ SnapInv klt tomb s.base) ∧
    (∀ i, i < s.base.files.versions.length →
      FileRefs.holdersAt s.base.files i
        = outOf s.base i + (if i + 1 = s.base.files.versions.length then 1 else 0)) ∧
    (∀ (i : Nat) (c : CursorWorld.Cur K), s.base.cursors[i]? = some c → c.live = true →
      FileRefs.holdersAt s.base.files c.ver ≥ 1 ∧ (∀ f ∈ filesOf s.base.files c.ver, f ∈ s.base.files.sst) ∧
      ∀ x ∈ c.hs, ∃ tb, s.base.tables[x.1]? = some tb ∧ SkipOwn.held tb x.2 = true ∧ tb.freed = []) ∧
    (∀ f, s.win = some f → ∃ t, s.base.imm = some t ∧ t + 1 < s.base.tables.length ∧
      dataOf s.base.fileData f = s.base.tabData.getD t []) := by
  have ww := worldInvW_run evs (worldInvW_init files data) hr
  have w := ww.world
  refine ⟨⟨w.files.inv, w.mem.tabs, w.snap⟩, w.files.exact, ?_, ?_⟩
  · intro i c hc hl
    have hf := cursor_files_in_sst w.files i c hc hl
    refine ⟨hf.1, hf.2, ?_⟩
    intro x hx
    have hsl := w.mem.held i c hc hl x hx
    unfold slot at hsl
    cases hg : s.base.tables[x.1]? with
    | none => simp only [hg] at hsl; cases hsl
    | some tb =>
      simp only [hg] at hsl
      exact ⟨tb, rfl, hsl, ((table_released_iff w.mem x.1 tb hg).1 (Or.inr ⟨i, c, x.2, hc, hl, hx⟩))⟩
  · intro f hf
    obtain ⟨t, ht, hfd⟩ := ww.win f hf
    exact ⟨t, ht, w.mem.imm_lt t ht, dataOf_of_find hfd⟩

theorem stepCursor_base {s s' : St F K} {i : Nat} {o : Op (Ver K)}
    (hs : step klt tomb s (.stepCursor i o) = some s') :
    CursorWorld.step klt tomb s.base (.stepCursor i o) = some s'.base ∧ s'.win = s.win := by
  simp only [step, same] at hs
  obtain ⟨b, hb, rfl⟩ := Option.map_eq_some_iff.1 hs
  exact ⟨hb, rfl⟩

/-- **(2)** a `stepCursor` taken in any reached state of the split machine — in particular INSIDE a
    window and right after `flushClear` — goes through a live cursor; every memtable it dereferences
    has released no node, no use after free before or by it, every file of its version is in `sst/` -/
theorem cursor_step_safe_w (files : List F) (data : List (F × List (Ver K)))
    (evs : List (Ev F K)) {s s' : St F K} (hr : run klt tomb (init files data) evs = some s) (i : Nat) (o : Op (Ver K))
    (hs : step klt tomb s (.stepCursor i o) = some s') :
    ∃ c, s.base.cursors[i]? = some c ∧ c.live = true ∧
      (∀ x ∈ c.hs, ∃ tb, s.base.tables[x.1]? = some tb ∧ SkipOwn.held tb x.2 = true ∧ tb.freed = [] ∧ tb.uaf = false) ∧
      (∀ f ∈ filesOf s.base.files c.ver, f ∈ s.base.files.sst) ∧
      (∀ tb ∈ s'.base.tables, tb.uaf = false) := by
  have w := (worldInvW_run evs (worldInvW_init files data) hr).world
  have hb := (stepCursor_base hs).1
  obtain ⟨c, hc, hl, hm⟩ := step_cursor_memory w.mem i o hb
  refine ⟨c, hc, hl, hm, (cursor_files_in_sst w.files i c hc hl).2, ?_⟩
  intro tb htb
  exact ((memInv_step w.mem _ hb).tabs tb htb).nouaf

theorem step_enabled_w {s : St F K} (w : WorldInvW klt tomb s)
    (i : Nat) (c : CursorWorld.Cur K) (hc : s.base.cursors[i]? = some c) (hl : c.live = true) (o : Op (Ver K)) :
    ∃ s', step klt tomb s (.stepCursor i o) = some s' ∧ ∃ c', s'.base.cursors[i]? = some c' ∧ c'.live = true := by
  obtain ⟨b, hb, c', hc', hl'⟩ := step_enabled_of_inv w.world i c hc hl o
  exact ⟨⟨b, s.win⟩, by simp only [step, same, hb, Option.map_some], c', hc', hl'⟩

/-- … and the step is enabled for every live cursor of every reached state -/
theorem cursor_step_enabled_w (files : List F) (data : List (F × List (Ver K)))
    (evs : List (Ev F K)) {s : St F K} (hr : run klt tomb (init files data) evs = some s) (i : Nat) (c : CursorWorld.Cur K)
    (hc : s.base.cursors[i]? = some c) (hl : c.live = true) (o : Op (Ver K)) :
    ∃ s', step klt tomb s (.stepCursor i o) = some s' := by
  obtain ⟨s', h, _⟩ := step_enabled_w (worldInvW_run evs (worldInvW_init files data) hr) i c hc hl o
  exact ⟨s', h⟩

/-- **(4)** nothing leaks, in every reached state of the split machine -/
theorem drop_releases_w (files : List F) (data : List (F × List (Ver K)))
    (evs : List (Ev F K)) {s : St F K} (hr : run klt tomb (init files data) evs = some s) :
    (∀ (i : Nat) (v : FileRefs.Ver F), s.base.files.versions[i]? = some v → i + 1 < s.base.files.versions.length →
      outOf s.base i = 0 → v.holders = 0 ∧ v.counted = false) ∧
    (∀ (t : Nat) (tb : SkipOwn.St), s.base.tables[t]? = some tb →
      ((tb.listHeld = true ∨ ∃ (i : Nat) (c : CursorWorld.Cur K) (j : Nat), s.base.cursors[i]? = some c ∧ c.live = true ∧ (t, j) ∈ c.hs) →
        tb.freed = []) ∧
      (tb.listHeld = false →
        (∀ (i : Nat) (c : CursorWorld.Cur K) (j : Nat), s.base.cursors[i]? = some c → c.live = true → (t, j) ∉ c.hs) →
        tb.freed = List.range tb.nodes)) := by
  have w := (worldInvW_run evs (worldInvW_init files data) hr).world
  exact ⟨fun i v hv hn ho => version_released w.files i v hv hn ho,
    fun t tb hg => table_released_iff w.mem t tb hg⟩

/-! ### adjacent `flushInstall; flushClear` is `flush` -/

/-- the two halves taken back to back are the `flush` event of `Blue.CursorWorld` -/
theorem window_collapses_to_flush {s s1 s2 : St F K} {f : F}
    (ha : step klt tomb s (.flushInstall f) = some s1) (hb : step klt tomb s1 .flushClear = some s2) :
    CursorWorld.step klt tomb s.base (.flush f) = some s2.base ∧ s.win = none ∧ s2.win = none := by
  rcases step_cases ha with ⟨e', he', _⟩ | ⟨g, hg, hw, hi, _⟩ | ⟨hg, _⟩
  · simp only [same, reduceCtorEq] at he'
  · cases hg
    rcases step_cases hb with ⟨e', he', _⟩ | ⟨g', hg', _⟩ | ⟨_, _, hc, hw2⟩
    · simp only [same, reduceCtorEq] at he'
    · cases hg'
    · obtain ⟨t, ht, _, hs1⟩ := installB_spec hi
      obtain ⟨t', ts, ht', h1, hs2⟩ := clearB_spec hc
      rw [hs1] at ht' h1 hs2
      have : t' = t := by
        have : s.base.imm = some t' := ht'
        rw [ht] at this; cases this; rfl
      subst this
      refine ⟨?_, hw, hw2⟩
      have h1' : onTable s.base.tables t' .dropList = some ts := h1
      simp only [CursorWorld.step, ht, h1', Option.map_some, hs2]
  · cases hg

/-! ### the window opens with `f` in the current version -/

theorem curFiles_install {fs : FileRefs.St F} (hne : 0 < fs.versions.length) (files : List F) :
    curFiles (FileRefs.step fs (.install files)) = files := by
  obtain ⟨old, hv⟩ : ∃ old, fs.versions[fs.versions.length - 1]? = some old :=
    ⟨_, List.getElem?_eq_getElem (by omega)⟩
  obtain ⟨w, hvs, _⟩ := versions_install fs files old hv
  unfold curFiles
  rw [hvs]
  simp only [List.length_set, List.length_append, List.length_cons, List.length_nil]
  have : fs.versions.length + (0 + 1) - 1 = fs.versions.length := by omega
  rw [this, List.getElem?_set_ne (by omega)]
  simp

/-- `flushInstall f` taken in any reached state opens the window: the current version becomes
    `cur ++ [f]` (so the next `openCursor` captures a version that lists `f`) while `imm` still holds
    the memtable whose entries `f` holds -/
theorem flushInstall_opens_window (files : List F) (data : List (F × List (Ver K)))
    (evs : List (Ev F K)) {s s' : St F K} (hr : run klt tomb (init files data) evs = some s) (f : F)
    (hs : step klt tomb s (.flushInstall f) = some s') :
    s'.win = some f ∧ curFiles s'.base.files = curFiles s.base.files ++ [f] ∧ f ∈ curFiles s'.base.files ∧
      s'.base.imm = s.base.imm ∧ s'.base.tables = s.base.tables := by
  have w := (worldInvW_run evs (worldInvW_init files data) hr).world
  rcases step_cases hs with ⟨e', he', _⟩ | ⟨g, hg, _, hb, hw'⟩ | ⟨hg, _⟩
  · simp only [same, reduceCtorEq] at he'
  · cases hg
    obtain ⟨t, ht, _, hbe⟩ := installB_spec hb
    have hcf : curFiles s'.base.files = curFiles s.base.files ++ [f] := by
      rw [hbe]; exact curFiles_install w.files.nonempty _
    refine ⟨hw', hcf, by rw [hcf]; simp, by rw [hbe], by rw [hbe]⟩
  · cases hg

/-! ### calls on a cursor along a run -/

theorem step_calls_w {s s' : St F K} (e : Ev F K) (i : Nat) (c : CursorWorld.Cur K)
    (hs : step klt tomb s e = some s') (hc : s.base.cursors[i]? = some c) :
    ∃ c', s'.base.cursors[i]? = some c' ∧ c'.snap0 = c.snap0 ∧ c'.sb = c.sb ∧ c'.eb = c.eb ∧
      c'.hs = c.hs ∧ c'.ver = c.ver ∧ (c'.live = true → c.live = true) ∧
      Snap.opsOf c'.toks = Snap.opsOf c.toks ++ callOf i e := by
  rcases step_cases hs with ⟨e', he', hb, _⟩ | ⟨f, rfl, _, hb, _⟩ | ⟨rfl, _, hb, _⟩
  · obtain ⟨c', h0, h1, h2, h3, h4, h5, h6⟩ := step_calls e' i c hb hc
    refine ⟨c', h0, h1, h2, h3, h4, h5, ?_, by rw [h6, callOf_same he']⟩
    -- liveness never comes back
    intro hl'
    have sh := step_shape e' hb
    have hlt : i < s.base.cursors.length := (List.getElem?_eq_some_iff.mp hc).1
    cases e' with
    | write k =>
      rw [sh.2, List.getElem?_map, hc] at h0
      cases h0; exact hl'
    | openCursor sb eb =>
      obtain ⟨_, m, hh, v, hcur⟩ := sh
      rw [hcur, List.getElem?_append_left hlt, hc] at h0
      cases h0; exact hl'
    | stepCursor j o =>
      obtain ⟨_, cj, hcj, hcur⟩ := sh
      by_cases hji : j = i
      · subst hji
        rw [hc] at hcj; cases hcj
        rw [hcur, List.getElem?_set_self hlt] at h0
        cases h0; exact hl'
      · rw [hcur, List.getElem?_set_ne hji, hc] at h0
        cases h0; exact hl'
    | dropCursor j =>
      obtain ⟨_, cj, hcj, hcur⟩ := sh
      by_cases hji : j = i
      · subst hji
        rw [hc] at hcj; cases hcj
        rw [hcur, List.getElem?_set_self hlt] at h0
        cases h0; cases hl'
      · rw [hcur, List.getElem?_set_ne hji, hc] at h0
        cases h0; exact hl'
    | rollover => rw [sh.2, hc] at h0; cases h0; exact hl'
    | flush f => rw [sh.2, hc] at h0; cases h0; exact hl'
    | compactInstall files data => rw [sh.2, hc] at h0; cases h0; exact hl'
    | verifierPass => rw [sh.2, hc] at h0; cases h0; exact hl'
  · obtain ⟨t, ht, _, hbe⟩ := installB_spec hb
    refine ⟨c, by rw [hbe]; exact hc, rfl, rfl, rfl, rfl, rfl, id, by simp [callOf]⟩
  · obtain ⟨t, ts, _, _, hbe⟩ := clearB_spec hb
    refine ⟨c, by rw [hbe]; exact hc, rfl, rfl, rfl, rfl, rfl, id, by simp [callOf]⟩

theorem run_calls_w : ∀ (evs : List (Ev F K)) {s s' : St F K} (i : Nat) (c : CursorWorld.Cur K),
    run klt tomb s evs = some s' → s.base.cursors[i]? = some c →
    ∃ c', s'.base.cursors[i]? = some c' ∧ c'.snap0 = c.snap0 ∧ c'.sb = c.sb ∧ c'.eb = c.eb ∧
      c'.hs = c.hs ∧ c'.ver = c.ver ∧ (c'.live = true → c.live = true) ∧
      Snap.opsOf c'.toks = Snap.opsOf c.toks ++ callsOf i evs
  | [], s, s', i, c, hr, hc => by
    simp only [run] at hr
    cases hr
    exact ⟨c, hc, rfl, rfl, rfl, rfl, rfl, id, by simp [callsOf]⟩
  | e :: es, s, s', i, c, hr, hc => by
    simp only [run] at hr
    split at hr
    · rename_i s1 hs1
      obtain ⟨c1, hc1, a1, a2, a3, a4, a5, a7, a6⟩ := step_calls_w e i c hs1 hc
      obtain ⟨c2, hc2, b1, b2, b3, b4, b5, b7, b6⟩ := run_calls_w es i c1 hr hc1
      refine ⟨c2, hc2, b1.trans a1, b2.trans a2, b3.trans a3, b4.trans a4, b5.trans a5, fun h => a7 (b7 h), ?_⟩
      rw [b6, a6, List.append_assoc]; rfl
    · cases hr

/-- what `openCursor` adds -/
theorem openCursor_new {s1 s2 : St F K} {sb eb : Bound K} (h2 : step klt tomb s1 (.openCursor sb eb) = some s2) :
    ∃ hs, s2.base.cursors[s1.base.cursors.length]?
        = some ⟨s1.base.tables.length - 1, hs, s1.base.files.versions.length - 1, sb, eb, capture s1.base, true, capture s1.base, [], []⟩ ∧
      s2.win = s1.win ∧ CursorWorld.step klt tomb s1.base (.openCursor sb eb) = some s2.base ∧
      ∀ t, s1.base.imm = some t → ∃ j j', hs = [(s1.base.tables.length - 1, j), (t, j')] := by
  simp only [step, same] at h2
  obtain ⟨b, hb, rfl⟩ := Option.map_eq_some_iff.1 h2
  have hb0 := hb
  simp only [CursorWorld.step, Option.map_eq_some_iff] at hb
  obtain ⟨⟨r1, r2⟩, hr, rfl⟩ := hb
  refine ⟨r2, List.getElem?_concat_length, rfl, hb0, ?_⟩
  intro t ht
  rw [ht] at hr
  simp only [Option.toList] at hr
  obtain ⟨tb, ts1, hs', _, _, hr2, rfl⟩ := openOn_cons hr
  obtain ⟨tb2, ts2, hs'', _, _, hr3, rfl⟩ := openOn_cons hr2
  simp only [openOn, Option.some.injEq, Prod.mk.injEq] at hr3
  obtain ⟨_, rfl⟩ := hr3
  exact ⟨_, _, rfl⟩

/-! ### (3) a cursor opened INSIDE the window -/

theorem sorted_nodup (st : StrictTotal klt) {M : List (Ver K)} (h : Sorted klt M) : M.Nodup := by
  unfold Sorted at h
  refine List.Pairwise.imp ?_ h
  intro a b hab he
  subst he
  rw [(vlt_strictTotal st).irrefl a] at hab
  cases hab

theorem view_nodup (st : StrictTotal klt) (tomb : Ver K → Bool) (sb eb : Bound K) (h : Snap.Held K) :
    (Snap.view klt tomb sb eb h).Nodup := by
  unfold Snap.view
  exact ((sorted_nodup st (Snap.sortV_sorted st _)).filter _).filter _

/-- inside a window whose file is still in the current version: the captured children hold the
    flushed entries TWICE (immutable-memtable child and version child), and `Snap.view` — which sorts
    with `insertV`, dropping identical copies: the `scan_spec_dups` shape — is the view over the
    contents with one copy -/
theorem capture_in_window {s : St F K} (w : WorldInvW klt tomb s) {f : F} (hw : s.win = some f)
    (hf : f ∈ curFiles s.base.files) :
    ∃ (t : Nat) (pre post : List F), s.base.imm = some t ∧ curFiles s.base.files = pre ++ f :: post ∧
      (capture s.base).rest = s.base.tabData.getD t [] ++
        (pre.flatMap (dataOf s.base.fileData) ++ (s.base.tabData.getD t [] ++ post.flatMap (dataOf s.base.fileData))) ∧
      (captureOnce s.base).rest =
        pre.flatMap (dataOf s.base.fileData) ++ (s.base.tabData.getD t [] ++ post.flatMap (dataOf s.base.fileData)) ∧
      (capture s.base).mem = (captureOnce s.base).mem ∧ (capture s.base).ts = (captureOnce s.base).ts := by
  obtain ⟨t, ht, hfd⟩ := w.win f hw
  obtain ⟨pre, post, hpp⟩ := List.append_of_mem hf
  have hD := dataOf_of_find hfd
  refine ⟨t, pre, post, ht, hpp, ?_, ?_, rfl, rfl⟩
  · simp only [capture, ht, hpp, List.flatMap_append, List.flatMap_cons, hD]
  · simp only [captureOnce, hpp, List.flatMap_append, List.flatMap_cons, hD]

theorem view_capture_in_window (st : StrictTotal klt) (tomb : Ver K → Bool) (sb eb : Bound K)
    {s : St F K} (w : WorldInvW klt tomb s) {f : F} (hw : s.win = some f) (hf : f ∈ curFiles s.base.files) :
    Snap.view klt tomb sb eb (capture s.base) = Snap.view klt tomb sb eb (captureOnce s.base) := by
  obtain ⟨t, pre, post, _, _, h1, h2, h3, h4⟩ := capture_in_window w hw hf
  have := Snap.view_eq st tomb sb eb (capture s.base)
    (Snap.sortV klt ((captureOnce s.base).mem ++ (captureOnce s.base).rest)) (Snap.sortV_sorted st _) (by
      intro e
      rw [Snap.mem_sortV, h1, h2, h3]
      simp only [List.mem_append]
      constructor
      · rintro (h | h | h | h)
        · exact Or.inl h
        · exact Or.inr (Or.inr (Or.inl h))
        · exact Or.inr (Or.inr (Or.inr (Or.inl h)))
        · exact Or.inr (Or.inr (Or.inr (Or.inr h)))
      · rintro (h | h | h | h | h)
        · exact Or.inl h
        · exact Or.inr (Or.inr (Or.inl h))
        · exact Or.inr (Or.inl h)
        · exact Or.inr (Or.inr (Or.inl h))
        · exact Or.inr (Or.inr (Or.inr h)))
  rw [← this, h4]
  rfl

/-- **(3) for every cursor of the split machine** (opened inside a window or not): under any
    interleaving `evs2` it returns, call by call, what the reference cursor over the list captured at
    open time returns -/
theorem cursor_shows_open_time_contents_w (st : StrictTotal klt) (tomb : Ver K → Bool)
    (files : List F) (data : List (F × List (Ver K))) (evs1 evs2 : List (Ev F K)) (sb eb : Bound K)
    {s1 s2 s3 : St F K}
    (h1 : run klt tomb (init files data) evs1 = some s1)
    (h2 : step klt tomb s1 (.openCursor sb eb) = some s2)
    (h3 : run klt tomb s2 evs2 = some s3) :
    ∃ c, s3.base.cursors[s1.base.cursors.length]? = some c ∧ c.snap0 = capture s1.base ∧
      c.outs = Ref.run ⟨Snap.view klt tomb sb eb (capture s1.base), 0⟩ (callsOf s1.base.cursors.length evs2) := by
  have w1 := worldInvW_run evs1 (worldInvW_init files data) h1
  have w2 := worldInvW_step w1 _ h2
  have w3 := worldInvW_run evs2 w2 h3
  obtain ⟨hh, hc0, _, _, _⟩ := openCursor_new h2
  obtain ⟨c, hc, e1, e2, e3, _, _, _, e6⟩ := run_calls_w evs2 _ _ h3 hc0
  refine ⟨c, hc, e1, ?_⟩
  have hok := w3.world.snap c (List.mem_of_getElem? hc)
  have hr := Snap.run_eq_ref st tomb c.sb c.eb c.toks c.snap0
    (Snap.lateWritesAbove_of_forall _ _ hok.late)
  rw [hok.outs_eq, hr, e6, e1, e2, e3]
  rfl

/-- **(3) in the window**: a cursor opened INSIDE the flush window (file `f` installed and still in
    the current version, `state.imm` not yet cleared) has the flushed entries in TWO of its children
    (first three conjuncts: the list it captured), and under EVERY program and EVERY interleaving
    `evs2` of store events — `flushClear`, later flushes, compactions, verifier passes, writes, other
    cursors — it returns, call by call, what the reference cursor over the open-time contents with
    each entry ONCE (`captureOnce`) returns; that list has no (key, timestamp) twice.  `Snap.view`
    already drops identical copies (`sortV` inserts with `insertV`); the duplicate is in what is
    captured, not in what is shown. -/
theorem cursor_opened_in_window_shows_each_entry_once (st : StrictTotal klt) (tomb : Ver K → Bool)
    (files : List F) (data : List (F × List (Ver K))) (evs1 evs2 : List (Ev F K)) (sb eb : Bound K) (f : F)
    {s1 s2 s3 : St F K}
    (h1 : run klt tomb (init files data) evs1 = some s1)
    (hw : s1.win = some f) (hf : f ∈ curFiles s1.base.files)
    (h2 : step klt tomb s1 (.openCursor sb eb) = some s2)
    (h3 : run klt tomb s2 evs2 = some s3) :
    ∃ (t : Nat) (pre post : List F) (c : CursorWorld.Cur K),
      s1.base.imm = some t ∧ curFiles s1.base.files = pre ++ f :: post ∧
      (capture s1.base).rest = s1.base.tabData.getD t [] ++
        (pre.flatMap (dataOf s1.base.fileData) ++ (s1.base.tabData.getD t [] ++ post.flatMap (dataOf s1.base.fileData))) ∧
      s3.base.cursors[s1.base.cursors.length]? = some c ∧ c.snap0 = capture s1.base ∧
      (Snap.view klt tomb sb eb (captureOnce s1.base)).Nodup ∧
      c.outs = Ref.run ⟨Snap.view klt tomb sb eb (captureOnce s1.base), 0⟩ (callsOf s1.base.cursors.length evs2) := by
  have w1 := worldInvW_run evs1 (worldInvW_init files data) h1
  obtain ⟨t, pre, post, ht, hpp, hrest, _⟩ := capture_in_window w1 hw hf
  obtain ⟨c, hc, e1, ho⟩ := cursor_shows_open_time_contents_w st tomb files data evs1 evs2 sb eb h1 h2 h3
  refine ⟨t, pre, post, c, ht, hpp, hrest, hc, e1, view_nodup st tomb sb eb _, ?_⟩
  rw [ho, view_capture_in_window st tomb sb eb w1 hw hf]

theorem quiet_run_enabled_w : ∀ (ops : List (Op (Ver K))) {s : St F K},
    WorldInvW klt tomb s → ∀ (i : Nat) (c : CursorWorld.Cur K), s.base.cursors[i]? = some c → c.live = true →
    ∃ s', run klt tomb s (ops.map (fun o => (Ev.stepCursor i o : Ev F K))) = some s'
  | [], s, _, _, _, _, _ => ⟨s, rfl⟩
  | o :: ops, s, w, i, c, hc, hl => by
    obtain ⟨s1, h1, c1, hc1, hl1⟩ := step_enabled_w w i c hc hl o
    obtain ⟨s', h'⟩ := quiet_run_enabled_w ops (worldInvW_step w _ h1) i c1 hc1 hl1
    exact ⟨s', by simp only [List.map_cons, run, h1]; exact h'⟩

theorem callsOf_quiet_w (i : Nat) : ∀ ops : List (Op (Ver K)),
    callsOf i (ops.map (fun o => (Ev.stepCursor i o : Ev F K))) = ops
  | [] => rfl
  | o :: ops => by
    simp only [List.map_cons, callsOf, callOf, if_true, List.singleton_append, callsOf_quiet_w i ops]

/-- **(3), in the words of the property, for a cursor opened inside the window**: what it returned
    during ANY interleaving `evs2` (the `flushClear` that ends the window, later rollovers and
    flushes, compactions, verifier passes, writes, other cursors) is what it returns in the QUIET
    run in which nothing follows its open but its own calls (the window stays open) — and that run
    exists -/
theorem cursor_unmoved_by_store_w (st : StrictTotal klt) (tomb : Ver K → Bool)
    (files : List F) (data : List (F × List (Ver K))) (evs1 evs2 : List (Ev F K)) (sb eb : Bound K)
    {s1 s2 s3 : St F K}
    (h1 : run klt tomb (init files data) evs1 = some s1)
    (h2 : step klt tomb s1 (.openCursor sb eb) = some s2)
    (h3 : run klt tomb s2 evs2 = some s3) :
    ∃ (q : St F K) (c cq : CursorWorld.Cur K),
      run klt tomb s2 ((callsOf s1.base.cursors.length evs2).map
        (fun o => (Ev.stepCursor s1.base.cursors.length o : Ev F K))) = some q ∧
      s3.base.cursors[s1.base.cursors.length]? = some c ∧ q.base.cursors[s1.base.cursors.length]? = some cq ∧
      c.outs = cq.outs := by
  have w1 := worldInvW_run evs1 (worldInvW_init files data) h1
  have w2 := worldInvW_step w1 _ h2
  obtain ⟨hh, hc0, _, _, _⟩ := openCursor_new h2
  obtain ⟨q, hq⟩ := quiet_run_enabled_w (callsOf s1.base.cursors.length evs2) w2 _ _ hc0 rfl
  obtain ⟨c, hc, _, ho⟩ := cursor_shows_open_time_contents_w st tomb files data evs1 evs2 sb eb h1 h2 h3
  obtain ⟨cq, hcq, _, hoq⟩ := cursor_shows_open_time_contents_w st tomb files data evs1 _ sb eb h1 h2 hq
  rw [callsOf_quiet_w] at hoq
  exact ⟨q, c, cq, hq, hc, hcq, by rw [ho, hoq]⟩

/-! ### (4) the D-4 scenario inside the window -/

/-- `flushClear` drops the store's handle on the immutable memtable -/
theorem flushClear_drops_handle {s s' : St F K} (hs : step klt tomb s .flushClear = some s') :
    ∃ t tb', s.base.imm = some t ∧ s'.base.imm = none ∧ s'.base.tables[t]? = some tb' ∧ tb'.listHeld = false := by
  rcases step_cases hs with ⟨e', he', _⟩ | ⟨g, hg, _⟩ | ⟨_, _, hc, _⟩
  · simp only [same, reduceCtorEq] at he'
  · cases hg
  · obtain ⟨t, ts, ht, h1, hbe⟩ := clearB_spec hc
    obtain ⟨tb, tb', hg, hst, rfl⟩ := onTable_some h1
    refine ⟨t, tb', ht, by rw [hbe], ?_, ?_⟩
    · rw [hbe]
      exact List.getElem?_set_self (List.getElem?_eq_some_iff.mp hg).1
    · simp only [SkipOwn.step] at hst
      split at hst
      · simp only [Bool.false_eq_true, if_false] at hst
        cases hst; rfl
      · cases hst

/-- **(4) `window_cursor_memory`**: a cursor opened inside the window holds an iterator on the
    IMMUTABLE memtable `t`; after ANY events `evs2` — `flushClear` (the store drops its handle:
    `flushClear_drops_handle`), later flushes, compactions, verifier passes — as long as the cursor
    has not been dropped that iterator is held, memtable `t` has released NO node and no use after
    free has happened; once the store's handle is gone and no live cursor has a handle on `t`, every
    node of `t` is released (the D-4 scenario, inside the window) -/
theorem window_cursor_memory (files : List F) (data : List (F × List (Ver K)))
    (evs1 evs2 : List (Ev F K)) (sb eb : Bound K) (t : Nat)
    {s1 s2 s3 : St F K}
    (h1 : run klt tomb (init files data) evs1 = some s1)
    (hi : s1.base.imm = some t)
    (h2 : step klt tomb s1 (.openCursor sb eb) = some s2)
    (h3 : run klt tomb s2 evs2 = some s3) :
    ∃ (c : CursorWorld.Cur K) (j : Nat) (tb : SkipOwn.St),
      s3.base.cursors[s1.base.cursors.length]? = some c ∧ (t, j) ∈ c.hs ∧ s3.base.tables[t]? = some tb ∧
      (c.live = true → SkipOwn.held tb j = true ∧ tb.freed = [] ∧ tb.uaf = false) ∧
      (tb.listHeld = false →
        (∀ (i : Nat) (c' : CursorWorld.Cur K) (j' : Nat), s3.base.cursors[i]? = some c' → c'.live = true → (t, j') ∉ c'.hs) →
        tb.freed = List.range tb.nodes) := by
  have w1 := worldInvW_run evs1 (worldInvW_init files data) h1
  have w2 := worldInvW_step w1 _ h2
  have w3 := (worldInvW_run evs2 w2 h3).world
  obtain ⟨hh, hc0, _, _, hhs⟩ := openCursor_new h2
  obtain ⟨j0, j, rfl⟩ := hhs t hi
  obtain ⟨c, hc, _, _, _, e4, _, _, _⟩ := run_calls_w evs2 _ _ h3 hc0
  have hm : (t, j) ∈ c.hs := by rw [e4]; simp
  -- memtable `t` exists in `s3`
  have hlt1 : t + 1 < s1.base.tables.length := w1.world.mem.imm_lt t hi
  have hex : ∃ tb, s3.base.tables[t]? = some tb := by
    -- the number of memtables never shrinks
    have mono : ∀ (evs : List (Ev F K)) {a b : St F K}, run klt tomb a evs = some b →
        a.base.tables.length ≤ b.base.tables.length := by
      intro evs
      induction evs with
      | nil => intro a b h; simp only [run] at h; cases h; exact Nat.le_refl _
      | cons e es ih =>
        intro a b h
        simp only [run] at h
        split at h
        · rename_i a1 ha1
          refine Nat.le_trans ?_ (ih h)
          rcases step_cases ha1 with ⟨e', he', hb, _⟩ | ⟨f, _, _, hb, _⟩ | ⟨_, _, hb, _⟩
          · exact (step_data he' hb).2.2.2
          · obtain ⟨_, _, _, hbe⟩ := installB_spec hb
            rw [hbe]; exact Nat.le_refl _
          · obtain ⟨_, ts, _, h1', hbe⟩ := clearB_spec hb
            rw [hbe]; show a.base.tables.length ≤ ts.length
            rw [onTable_length h1']; exact Nat.le_refl _
        · cases h
    have := mono (Ev.openCursor sb eb :: evs2) (a := s1) (b := s3) (by simp only [run, h2]; exact h3)
    exact ⟨_, List.getElem?_eq_getElem (by omega)⟩
  obtain ⟨tb, hg⟩ := hex
  refine ⟨c, j, tb, hc, hm, hg, ?_, (table_released_iff w3.mem t tb hg).2⟩
  intro hl
  have hsl := w3.mem.held _ c hc hl (t, j) hm
  rw [slot_of_get hg] at hsl
  exact ⟨hsl, (table_released_iff w3.mem t tb hg).1 (Or.inr ⟨_, c, j, hc, hl, hm⟩),
    (w3.mem.tabs tb (List.mem_of_getElem? hg)).nouaf⟩

end Blue.CursorWorldW

#print axioms Blue.CursorWorldW.world_inv_w
#print axioms Blue.CursorWorldW.cursor_step_safe_w
#print axioms Blue.CursorWorldW.cursor_step_enabled_w
#print axioms Blue.CursorWorldW.drop_releases_w
#print axioms Blue.CursorWorldW.window_collapses_to_flush
#print axioms Blue.CursorWorldW.flushInstall_opens_window
#print axioms Blue.CursorWorldW.cursor_shows_open_time_contents_w
#print axioms Blue.CursorWorldW.cursor_opened_in_window_shows_each_entry_once
#print axioms Blue.CursorWorldW.cursor_unmoved_by_store_w
#print axioms Blue.CursorWorldW.window_cursor_memory
