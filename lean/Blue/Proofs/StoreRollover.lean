import Blue.Proofs.StoreHist
/-! Incarnations with the open-time manifest rollover in the operation list, and WITHOUT the
    manifest half of the `image false` assumption.

    `imageR b fs`: what the next process finds.  `b = true` (power loss): `image true` — everything
    unsynced is gone, files and manifest alike, no assumption.  `b = false` (process crash, the
    kernel keeps running): the manifest transactions written and not synced are STILL PENDING
    (`settleFiles false`: only the file half of the old assumption is kept — a log's / temporary's
    unsynced bytes count as on disk).  Every incarnation begins with the rollover of
    `Manifest::open` (`maniSync`: the rename of the rolled-over, synced manifest) and then does
    what `KeyValueStore::open` does to the directory it finds THEN (`recoverOps`).

    A power loss that arrives before the next incarnation has done anything is the power loss of
    the cut itself (`b = true` there): hypothesis `e.n = 0 → e.b = false` of `epochs_ok_rollover`
    (the composite "files settled, manifest lost" would be an artefact of the file-half
    assumption, not a directory the code can see). -/
namespace Blue.StoreFault
open Blue.StoreCrash

def imageR (b : Bool) (fs : Fs) : Fs := if b then image true fs else settleFiles false fs

/-- the directory is of the class `Img` once the open-time rollover has happened -/
def PreImg (fs : Fs) (k : Nat) : Prop := Img (step fs .maniSync) k

def epochOpsR (fs : Fs) (e : Epoch) : List Op :=
  (Op.maniSync :: (recoverOps (step fs .maniSync) ++ opsOf e.h (kvAfter (step fs .maniSync)))).take e.n

def runEpochsR : Fs → List Epoch → Fs
  | fs, [] => fs
  | fs, e :: es => runEpochsR (imageR e.b (run fs (epochOpsR fs e))) es

def ackedEpochsR : Fs → List Epoch → Nat
  | _, [] => 0
  | fs, e :: es => acked (epochOpsR fs e) + ackedEpochsR (imageR e.b (run fs (epochOpsR fs e))) es

def appendedEpochsR : Fs → List Epoch → Nat
  | _, [] => 0
  | fs, e :: es => appended (epochOpsR fs e) + appendedEpochsR (imageR e.b (run fs (epochOpsR fs e))) es

theorem rollover_imageR (b : Bool) (fs : Fs) : step (imageR b fs) .maniSync = image b fs := by
  cases b
  · exact rollover_settles_manifest fs
  · exact rollover_noop_after_power_loss fs

theorem image_false_rollover (fs : Fs) : image false (step fs .maniSync) = image false fs := by
  simp [step, image]

theorem img_image_false {g : Fs} {k : Nat} (h : Img g k) : Img (image false g) k := by
  obtain ⟨lB, lA, hB, pB, hA, pA⟩ := h.recOk
  obtain ⟨k', h1, h2, h3⟩ := img_image false h.wf ⟨lB, k, hB, pB, Nat.le_refl _, Nat.le_refl _⟩
    ⟨lA, k, hA, pA, Nat.le_refl _, Nat.le_refl _⟩
  have : k' = k := by omega
  subst this; exact h3

theorem acked_maniSync (l : List Op) : acked (Op.maniSync :: l) = acked l := by
  simp [acked]

theorem appended_maniSync (l : List Op) : appended (Op.maniSync :: l) = appended l := by
  simp [appended]

/-- an incarnation cut after `m + 1` calls: the rollover, then `m` calls of the old operation list
    on the directory the rollover leaves -/
theorem epochOpsR_succ (fs : Fs) (h : List Client) (m : Nat) (b : Bool) :
    epochOpsR fs ⟨h, m + 1, b⟩ = Op.maniSync :: epochOps (step fs .maniSync) ⟨h, m, b⟩ := by
  simp [epochOpsR, epochOps]

/-- **incarnation after incarnation, with the manifest rollover in the operation list**: a process
    crash leaves the unsynced manifest transactions PENDING (not durable); every incarnation starts
    with the rollover and is cut anywhere — before the rollover's rename, inside the recovery,
    inside its history — by a process crash or a power loss.  After the rollover of the next open
    the directory is of the class `Img` and reopens to a permutation of `0 … k'-1`, `k'` between
    all acknowledgements and all appends. -/
theorem epochs_ok_rollover : ∀ (es : List Epoch) (fs : Fs) (k : Nat), PreImg fs k →
    (∀ e ∈ es, e.n = 0 → e.b = false) →
    ∃ k', PreImg (runEpochsR fs es) k' ∧ k + ackedEpochsR fs es ≤ k' ∧ k' ≤ k + appendedEpochsR fs es
  | [], fs, k, h, _ => ⟨k, h, by simp [ackedEpochsR], by simp [appendedEpochsR]⟩
  | e :: es, fs, k, h, hz => by
    obtain ⟨hist, n, b⟩ := e
    have hz' : ∀ e ∈ es, e.n = 0 → e.b = false := fun e he => hz e (List.mem_cons_of_mem _ he)
    cases n with
    | zero =>
      have hb : b = false := hz ⟨hist, 0, b⟩ List.mem_cons_self rfl
      subst hb
      have hops : epochOpsR fs ⟨hist, 0, false⟩ = [] := by simp [epochOpsR]
      have hpre : PreImg (imageR false (run fs (epochOpsR fs ⟨hist, 0, false⟩))) k := by
        rw [hops]
        show Img (step (imageR false (run fs [])) .maniSync) k
        rw [rollover_imageR]
        show Img (image false fs) k
        rw [← image_false_rollover]
        exact img_image_false h
      obtain ⟨k', i1, i2, i3⟩ := epochs_ok_rollover es _ k hpre hz'
      refine ⟨k', i1, ?_, ?_⟩
      · show k + (acked (epochOpsR fs ⟨hist, 0, false⟩)
            + ackedEpochsR (imageR false (run fs (epochOpsR fs ⟨hist, 0, false⟩))) es) ≤ k'
        have ha : acked (epochOpsR fs ⟨hist, 0, false⟩) = 0 := by rw [hops]; rfl
        rw [ha]; omega
      · show k' ≤ k + (appended (epochOpsR fs ⟨hist, 0, false⟩)
            + appendedEpochsR (imageR false (run fs (epochOpsR fs ⟨hist, 0, false⟩))) es)
        have ha : appended (epochOpsR fs ⟨hist, 0, false⟩) = 0 := by rw [hops]; rfl
        rw [ha]; omega
    | succ m =>
      have hops := epochOpsR_succ fs hist m b
      have hrun : run fs (epochOpsR fs ⟨hist, m + 1, b⟩)
          = run (step fs .maniSync) (epochOps (step fs .maniSync) ⟨hist, m, b⟩) := by
        rw [hops]; rfl
      have hB : Ok (recoverB (run (step fs .maniSync) (epochOps (step fs .maniSync) ⟨hist, m, b⟩)))
          (k + acked (epochOps (step fs .maniSync) ⟨hist, m, b⟩))
          (k + appended (epochOps (step fs .maniSync) ⟨hist, m, b⟩)) := (epoch_ok h hist m).1
      have hA : Ok (recoverA (run (step fs .maniSync) (epochOps (step fs .maniSync) ⟨hist, m, b⟩)))
          (k + acked (epochOps (step fs .maniSync) ⟨hist, m, b⟩))
          (k + appended (epochOps (step fs .maniSync) ⟨hist, m, b⟩)) := (epoch_ok h hist m).2.1
      have hwf : Wf (run (step fs .maniSync) (epochOps (step fs .maniSync) ⟨hist, m, b⟩)) := (epoch_ok h hist m).2.2
      obtain ⟨k1, g1, g2, himg⟩ := img_image b hwf hB hA
      have hpre : PreImg (imageR b (run fs (epochOpsR fs ⟨hist, m + 1, b⟩))) k1 := by
        show Img (step (imageR b (run fs (epochOpsR fs ⟨hist, m + 1, b⟩))) .maniSync) k1
        rw [rollover_imageR, hrun]
        exact himg
      obtain ⟨k', i1, i2, i3⟩ := epochs_ok_rollover es _ k1 hpre hz'
      refine ⟨k', i1, ?_, ?_⟩
      · show k + (acked (epochOpsR fs ⟨hist, m + 1, b⟩)
            + ackedEpochsR (imageR b (run fs (epochOpsR fs ⟨hist, m + 1, b⟩))) es) ≤ k'
        have ha : acked (epochOpsR fs ⟨hist, m + 1, b⟩) = acked (epochOps (step fs .maniSync) ⟨hist, m, b⟩) := by
          rw [hops, acked_maniSync]
        rw [ha]; omega
      · show k' ≤ k + (appended (epochOpsR fs ⟨hist, m + 1, b⟩)
            + appendedEpochsR (imageR b (run fs (epochOpsR fs ⟨hist, m + 1, b⟩))) es)
        have ha : appended (epochOpsR fs ⟨hist, m + 1, b⟩) = appended (epochOps (step fs .maniSync) ⟨hist, m, b⟩) := by
          rw [hops, appended_maniSync]
        rw [ha]; omega

theorem preImg0 : PreImg fs0 0 := img0

/-- an incarnation ended by a surfaced fault at any of its calls — the rollover's rename, a call of
    the recovery, a call of the history — is an incarnation cut at that call (or right after it, if
    the call took effect): `epochs_ok_rollover` covers faults as it covers crashes -/
theorem fault_epoch_rollover (fs : Fs) (hist : List Client) (i : Nat) (e b : Bool) (op : Op)
    (hi : (Op.maniSync :: (recoverOps (step fs .maniSync) ++ opsOf hist (kvAfter (step fs .maniSync))))[i]? = some op)
    (hs : absorbed op = false) :
    faultOps (Op.maniSync :: (recoverOps (step fs .maniSync) ++ opsOf hist (kvAfter (step fs .maniSync)))) i e
      = epochOpsR fs ⟨hist, if e then i + 1 else i, b⟩ :=
  faultOps_cut hi hs e

/-- what `PreImg … k` gives: the directory as it is reopens under model (a) to a permutation of
    `0 … k-1`, and after the rollover of the next open under both models -/
theorem preImg_means {fs : Fs} {k : Nat} (h : PreImg fs k) :
    (∃ lA, recoverA fs = some lA ∧ lA.Perm (List.range k))
    ∧ ∃ lB, recoverB (step fs .maniSync) = some lB ∧ lB.Perm (List.range k) := by
  obtain ⟨lB, lA, hB, pB, hA, pA⟩ := h.recOk
  refine ⟨⟨lA, ?_, pA⟩, ⟨lB, hB, pB⟩⟩
  have : recoverA (step fs .maniSync) = recoverA fs := by
    simp [recoverA, step, recover]
  rw [← this]; exact hA

end Blue.StoreFault

#print axioms Blue.StoreFault.epochs_ok_rollover
#print axioms Blue.StoreFault.preImg_means
#print axioms Blue.StoreFault.fault_epoch_rollover
