import Blue.Proofs.WaitList
/-! Slot reuse in the wait list (property C18): the slot a successful `link` takes is not the slot
    of any guard that still exists — slots are reused only after `head` has passed them. -/
namespace Blue.WaitList

theorem link_slot_fresh {s s' : St} {idx : Nat} (h : Inv s) (hl : link s = some (s', idx)) :
    idx = s.tail ∧ ∀ j ∈ s.live, j % s.n ≠ idx % s.n := by
  unfold link at hl
  by_cases hfull : s.head + s.n ≤ s.tail
  · rw [if_pos hfull] at hl; cases hl
  · rw [if_neg hfull] at hl
    simp only [Option.some.injEq, Prod.mk.injEq] at hl
    obtain ⟨_, hidx⟩ := hl
    subst hidx
    refine ⟨rfl, ?_⟩
    intro j hj
    have hw := h.inWindow j hj
    exact slot_ne h.npos hw.2 (by omega)

/-- a `link` on a full ring does not go through (the caller waits), on any other it does -/
theorem link_blocks_iff_full (s : St) : link s = none ↔ s.head + s.n ≤ s.tail := by
  unfold link
  by_cases hfull : s.head + s.n ≤ s.tail
  · simp [hfull]
  · simp [hfull]

end Blue.WaitList
