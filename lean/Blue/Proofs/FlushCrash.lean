import Blue.Model.FlushCrash
namespace Blue.FlushCrash

structure Inv (fs : Fs) (kv : Kv) (flushed : List Name) : Prop where
  tmp : fs.tmp = []
  sst : ∀ c ∈ flushed, find fs.sst c = some ⟨c, c⟩
  md : fs.maniDurable = flushed
  mp : fs.maniPending = []
  logs : fs.logs = [(kv.cur, ⟨kv.content, kv.content⟩)]
  all : flushed.flatten ++ kv.content = List.range kv.next

theorem notin_flushed {flushed : List Name} {c : List Nat} {n : Nat}
    (h : flushed.flatten ++ c = List.range n) (hne : c ≠ []) : c ∉ flushed := by
  intro hin
  have hnd : (flushed.flatten ++ c).Nodup := by rw [h]; exact List.nodup_range
  rw [List.nodup_append] at hnd
  obtain ⟨x, hx⟩ := List.exists_mem_of_ne_nil c hne
  exact hnd.2.2 x (List.mem_flatten.mpr ⟨c, hin, hx⟩) x hx rfl

theorem logPart_nil (mani : List Name) : logPart mani [] = [] := rfl

theorem logPart_cons_empty (mani : List Name) (ds : List (List Nat)) :
    logPart mani ([] :: ds) = logPart mani ds := by
  unfold logPart
  rw [List.filter_cons]
  split <;> simp

theorem logPart_cons_notin {mani : List Name} {d : List Nat} (ds : List (List Nat)) (h : d ∉ mani) :
    logPart mani (d :: ds) = d ++ logPart mani ds := by
  unfold logPart
  rw [List.filter_cons]
  simp [h]

theorem logPart_cons_in {mani : List Name} {d : List Nat} (ds : List (List Nat)) (h : d ∈ mani) :
    logPart mani (d :: ds) = logPart mani ds := by
  unfold logPart
  rw [List.filter_cons]
  simp [h]

theorem logPart_single {mani : List Name} {d : List Nat} (h : d = [] ∨ d ∉ mani) :
    logPart mani [d] = d := by
  rcases h with rfl | h
  · rw [logPart_cons_empty]; rfl
  · rw [logPart_cons_notin _ h, logPart_nil, List.append_nil]

theorem recover_some {view : File → List Nat} {mani : List Name} {fs : Fs}
    (h : ∀ nm ∈ mani, (find fs.sst nm).map view = some nm) :
    recover view mani fs = some (mani.flatten ++ logPart mani (fs.logs.map (fun l => view l.2))) := by
  unfold recover; rw [if_pos h]

theorem find_cons_ne {k nm : Name} {f : File} {t : List (Name × File)} (h : k ≠ nm) :
    find ((k, f) :: t) nm = find t nm := by
  simp [find, h]

theorem find_cons_eq {k : Name} {f : File} {t : List (Name × File)} :
    find ((k, f) :: t) k = some f := by
  simp [find]

/-- at a block boundary the durable image recovers to exactly the batches written so far -/
theorem boundary_ok {fs : Fs} {kv : Kv} {flushed : List Name} (h : Inv fs kv flushed) :
    recoverB fs = some (List.range kv.next) := by
  unfold recoverB
  rw [recover_some (by rw [h.md]; intro nm hnm; rw [h.sst nm hnm]; rfl)]
  rw [h.md, h.logs]
  simp only [List.map_cons, List.map_nil]
  rw [logPart_single, h.all]
  by_cases hc : kv.content = []
  · exact Or.inl hc
  · exact Or.inr (notin_flushed h.all hc)

theorem put_block {fs : Fs} {kv : Kv} {flushed : List Name} (h : Inv fs kv flushed) :
    recoverB (run fs [.logAppend kv.cur kv.next]) = some (List.range kv.next)
    ∧ recoverB (run fs [.logAppend kv.cur kv.next, .logSync kv.cur]) = some (List.range (kv.next + 1))
    ∧ Inv (run fs (block kv .put)) (after kv .put) flushed := by
  obtain ⟨tmp, sst, md, mp, logs⟩ := fs
  obtain ⟨h1, h2, h3, h4, h5, h6⟩ := h
  simp only at h1 h2 h3 h4 h5
  subst h1 h3 h4 h5
  have hall' : md.flatten ++ (kv.content ++ [kv.next]) = List.range (kv.next + 1) := by
    rw [← List.append_assoc, h6, List.range_succ]
  have hsst : ∀ nm ∈ md, (find sst nm).map (·.durable) = some nm := by
    intro nm hnm; rw [h2 nm hnm]; rfl
  refine ⟨?_, ?_, ?_⟩
  · unfold recoverB
    simp only [run, List.foldl_cons, List.foldl_nil, step, List.map_cons, List.map_nil, if_true]
    rw [recover_some hsst]
    simp only [List.map_cons, List.map_nil]
    rw [logPart_single, h6]
    by_cases hc : kv.content = []
    · exact Or.inl hc
    · exact Or.inr (notin_flushed h6 hc)
  · unfold recoverB
    simp only [run, List.foldl_cons, List.foldl_nil, step, List.map_cons, List.map_nil, if_true]
    rw [recover_some hsst]
    simp only [List.map_cons, List.map_nil]
    rw [logPart_single, hall']
    exact Or.inr (notin_flushed hall' (by simp))
  · simp only [block, run, List.foldl_cons, List.foldl_nil, step, List.map_cons, List.map_nil, if_true, after]
    exact ⟨rfl, h2, rfl, rfl, rfl, hall'⟩

theorem flush_block {fs : Fs} {kv : Kv} {flushed : List Name} (h : Inv fs kv flushed)
    (hne : kv.content ≠ []) :
    (∀ n, n < 8 → recoverB (run fs ((block kv .flush).take n)) = some (List.range kv.next))
    ∧ Inv (run fs (block kv .flush)) (after kv .flush) (flushed ++ [kv.content]) := by
  obtain ⟨tmp, sst, md, mp, logs⟩ := fs
  obtain ⟨h1, h2, h3, h4, h5, h6⟩ := h
  simp only at h1 h2 h3 h4 h5
  subst h1 h3 h4 h5
  have hnot := notin_flushed h6 hne
  have hsst : ∀ nm ∈ md, (find sst nm).map (·.durable) = some nm := by
    intro nm hnm; rw [h2 nm hnm]; rfl
  have hsst' : ∀ f, ∀ nm ∈ md, (find ((kv.content, f) :: sst) nm).map (·.durable) = some nm := by
    intro f nm hnm
    rw [find_cons_ne (by intro he; subst he; exact hnot hnm)]
    exact hsst nm hnm
  have hsst'' : ∀ nm ∈ md ++ [kv.content],
      (find ((kv.content, ⟨kv.content, kv.content⟩) :: sst) nm).map (·.durable) = some nm := by
    intro nm hnm
    rw [List.mem_append] at hnm
    rcases hnm with hnm | hnm
    · exact hsst' _ nm hnm
    · simp only [List.mem_singleton] at hnm; subst hnm; rw [find_cons_eq]; rfl
  have hflat : (md ++ [kv.content]).flatten = List.range kv.next := by
    rw [← h6]; simp
  have hbefore : md.flatten ++ logPart md [kv.content, []] = List.range kv.next := by
    rw [logPart_cons_notin _ hnot, logPart_cons_empty, logPart_nil, List.append_nil, h6]
  have hafter : (md ++ [kv.content]).flatten ++ logPart (md ++ [kv.content]) [kv.content, []]
      = List.range kv.next := by
    rw [logPart_cons_in _ (by simp), logPart_cons_empty, logPart_nil, List.append_nil, hflat]
  have hne1 : (kv.cur + 1 = kv.cur) = False := by simp
  constructor
  · intro n hn
    simp only [block, if_neg hne]
    unfold recoverB
    rcases n with _ | _ | _ | _ | _ | _ | _ | _ | n
    · simp only [List.take, run, List.foldl_nil]
      rw [recover_some hsst]
      simp only [List.map_cons, List.map_nil]
      rw [logPart_single (Or.inr hnot), h6]
    · simp only [List.take, run, List.foldl_cons, List.foldl_nil, step, List.cons_append, List.nil_append]
      rw [recover_some hsst]
      simp only [List.map_cons, List.map_nil]
      exact congrArg some hbefore
    · simp only [List.take, run, List.foldl_cons, List.foldl_nil, step, List.cons_append, List.nil_append]
      rw [recover_some hsst]
      simp only [List.map_cons, List.map_nil]
      exact congrArg some hbefore
    · simp only [List.take, run, List.foldl_cons, List.foldl_nil, step, List.cons_append, List.nil_append]
      rw [recover_some hsst]
      simp only [List.map_cons, List.map_nil]
      exact congrArg some hbefore
    · simp only [List.take, run, List.foldl_cons, List.foldl_nil, step, List.cons_append, List.nil_append,
        List.map_cons, List.map_nil, if_true, find]
      rw [recover_some (hsst' _)]
      simp only [List.map_cons, List.map_nil]
      exact congrArg some hbefore
    · simp only [List.take, run, List.foldl_cons, List.foldl_nil, step, List.cons_append, List.nil_append,
        List.map_cons, List.map_nil, if_true, find]
      rw [recover_some (hsst' _)]
      simp only [List.map_cons, List.map_nil]
      exact congrArg some hbefore
    · simp only [List.take, run, List.foldl_cons, List.foldl_nil, step, List.cons_append, List.nil_append,
        List.map_cons, List.map_nil, if_true, find]
      rw [recover_some hsst'']
      simp only [List.map_cons, List.map_nil]
      exact congrArg some hafter
    · simp only [List.take, run, List.foldl_cons, List.foldl_nil, step, List.cons_append, List.nil_append,
        List.map_cons, List.map_nil, if_true, find]
      rw [recover_some hsst'']
      simp only [List.map_cons, List.map_nil]
      exact congrArg some hafter
    · omega
  · simp only [block, if_neg hne, after, run, List.foldl_cons, List.foldl_nil, step, List.cons_append,
      List.nil_append, List.map_cons, List.map_nil, if_true, find]
    refine ⟨?_, ?_, rfl, rfl, ?_, ?_⟩
    · simp
    · intro c hc
      rw [List.mem_append] at hc
      rcases hc with hc | hc
      · rw [find_cons_ne (by intro he; subst he; exact hnot hc)]; exact h2 c hc
      · simp only [List.mem_singleton] at hc; subst hc; exact find_cons_eq
    · simp
    · simp only [List.append_nil]; exact hflat

/-- the same lemmas for persistence model (a): everything written survives -/
theorem boundary_okA {fs : Fs} {kv : Kv} {flushed : List Name} (h : Inv fs kv flushed) :
    recoverA fs = some (List.range kv.next) := by
  unfold recoverA
  rw [h.md, h.mp, List.append_nil]
  rw [recover_some (by intro nm hnm; rw [h.sst nm hnm]; rfl)]
  rw [h.logs]
  simp only [List.map_cons, List.map_nil]
  rw [logPart_single, h.all]
  by_cases hc : kv.content = []
  · exact Or.inl hc
  · exact Or.inr (notin_flushed h.all hc)

theorem put_blockA {fs : Fs} {kv : Kv} {flushed : List Name} (h : Inv fs kv flushed) :
    recoverA (run fs [.logAppend kv.cur kv.next]) = some (List.range (kv.next + 1))
    ∧ recoverA (run fs [.logAppend kv.cur kv.next, .logSync kv.cur]) = some (List.range (kv.next + 1)) := by
  obtain ⟨tmp, sst, md, mp, logs⟩ := fs
  obtain ⟨h1, h2, h3, h4, h5, h6⟩ := h
  simp only at h1 h2 h3 h4 h5
  subst h1 h3 h4 h5
  have hall' : md.flatten ++ (kv.content ++ [kv.next]) = List.range (kv.next + 1) := by
    rw [← List.append_assoc, h6, List.range_succ]
  have hsst : ∀ nm ∈ md, (find sst nm).map (·.data) = some nm := by
    intro nm hnm; rw [h2 nm hnm]; rfl
  refine ⟨?_, ?_⟩
  · unfold recoverA
    simp only [run, List.foldl_cons, List.foldl_nil, step, List.map_cons, List.map_nil, if_true, List.append_nil]
    rw [recover_some hsst]
    simp only [List.map_cons, List.map_nil]
    rw [logPart_single, hall']
    exact Or.inr (notin_flushed hall' (by simp))
  · unfold recoverA
    simp only [run, List.foldl_cons, List.foldl_nil, step, List.map_cons, List.map_nil, if_true, List.append_nil]
    rw [recover_some hsst]
    simp only [List.map_cons, List.map_nil]
    rw [logPart_single, hall']
    exact Or.inr (notin_flushed hall' (by simp))

theorem flush_blockA {fs : Fs} {kv : Kv} {flushed : List Name} (h : Inv fs kv flushed)
    (hne : kv.content ≠ []) :
    ∀ n, n < 8 → recoverA (run fs ((block kv .flush).take n)) = some (List.range kv.next) := by
  obtain ⟨tmp, sst, md, mp, logs⟩ := fs
  obtain ⟨h1, h2, h3, h4, h5, h6⟩ := h
  simp only at h1 h2 h3 h4 h5
  subst h1 h3 h4 h5
  have hnot := notin_flushed h6 hne
  have hsst : ∀ nm ∈ md, (find sst nm).map (·.data) = some nm := by
    intro nm hnm; rw [h2 nm hnm]; rfl
  have hsst' : ∀ f, ∀ nm ∈ md, (find ((kv.content, f) :: sst) nm).map (·.data) = some nm := by
    intro f nm hnm
    rw [find_cons_ne (by intro he; subst he; exact hnot hnm)]
    exact hsst nm hnm
  have hsst'' : ∀ nm ∈ md ++ [kv.content],
      (find ((kv.content, ⟨kv.content, kv.content⟩) :: sst) nm).map (·.data) = some nm := by
    intro nm hnm
    rw [List.mem_append] at hnm
    rcases hnm with hnm | hnm
    · exact hsst' _ nm hnm
    · simp only [List.mem_singleton] at hnm; subst hnm; rw [find_cons_eq]; rfl
  have hflat : (md ++ [kv.content]).flatten = List.range kv.next := by
    rw [← h6]; simp
  have hbefore : md.flatten ++ logPart md [kv.content, []] = List.range kv.next := by
    rw [logPart_cons_notin _ hnot, logPart_cons_empty, logPart_nil, List.append_nil, h6]
  have hafter : (md ++ [kv.content]).flatten ++ logPart (md ++ [kv.content]) [kv.content, []]
      = List.range kv.next := by
    rw [logPart_cons_in _ (by simp), logPart_cons_empty, logPart_nil, List.append_nil, hflat]
  intro n hn
  simp only [block, if_neg hne]
  unfold recoverA
  rcases n with _ | _ | _ | _ | _ | _ | _ | _ | n
  · simp only [List.take, run, List.foldl_nil, List.append_nil]
    rw [recover_some hsst]
    simp only [List.map_cons, List.map_nil]
    rw [logPart_single (Or.inr hnot), h6]
  · simp only [List.take, run, List.foldl_cons, List.foldl_nil, step, List.cons_append, List.nil_append, List.append_nil]
    rw [recover_some hsst]
    simp only [List.map_cons, List.map_nil]
    exact congrArg some hbefore
  · simp only [List.take, run, List.foldl_cons, List.foldl_nil, step, List.cons_append, List.nil_append, List.append_nil]
    rw [recover_some hsst]
    simp only [List.map_cons, List.map_nil]
    exact congrArg some hbefore
  · simp only [List.take, run, List.foldl_cons, List.foldl_nil, step, List.cons_append, List.nil_append, List.append_nil]
    rw [recover_some hsst]
    simp only [List.map_cons, List.map_nil]
    exact congrArg some hbefore
  · simp only [List.take, run, List.foldl_cons, List.foldl_nil, step, List.cons_append, List.nil_append,
      List.map_cons, List.map_nil, if_true, find, List.append_nil]
    rw [recover_some (hsst' _)]
    simp only [List.map_cons, List.map_nil]
    exact congrArg some hbefore
  · simp only [List.take, run, List.foldl_cons, List.foldl_nil, step, List.cons_append, List.nil_append,
      List.map_cons, List.map_nil, if_true, find]
    rw [recover_some hsst'']
    simp only [List.map_cons, List.map_nil]
    exact congrArg some hafter
  · simp only [List.take, run, List.foldl_cons, List.foldl_nil, step, List.cons_append, List.nil_append,
      List.map_cons, List.map_nil, if_true, find, List.append_nil]
    rw [recover_some hsst'']
    simp only [List.map_cons, List.map_nil]
    exact congrArg some hafter
  · simp only [List.take, run, List.foldl_cons, List.foldl_nil, step, List.cons_append, List.nil_append,
      List.map_cons, List.map_nil, if_true, find, List.append_nil]
    rw [recover_some hsst'']
    simp only [List.map_cons, List.map_nil]
    exact congrArg some hafter
  · omega

theorem run_append (fs : Fs) (a b : List Op) : run fs (a ++ b) = run (run fs a) b := by
  unfold run; rw [List.foldl_append]

theorem acked_append (a b : List Op) : acked (a ++ b) = acked a + acked b := by
  unfold acked; rw [List.filter_append, List.length_append]

theorem appended_append (a b : List Op) : appended (a ++ b) = appended a + appended b := by
  unfold appended; rw [List.filter_append, List.length_append]

theorem flush_prefix_counts (kv : Kv) (n : Nat) :
    acked ((block kv .flush).take n) = 0 ∧ appended ((block kv .flush).take n) = 0 := by
  unfold acked appended
  constructor <;>
  · rw [List.length_eq_zero_iff, List.filter_eq_nil_iff]
    intro o ho
    have := List.mem_of_mem_take ho
    simp only [block] at this
    split at this
    · cases this
    · simp only [List.mem_cons, List.not_mem_nil, or_false] at this
      rcases this with rfl | rfl | rfl | rfl | rfl | rfl | rfl | rfl <;> simp

/-- **C02** (write and flush protocols, persistence model (b)): for every history of puts and
    flushes and every crash point `n` in its system-call sequence, reopening the durable image
    succeeds and yields exactly the batches `0 … k-1` with
    `acknowledged ≤ k ≤ appended`: every acknowledged batch, no invented batch, no gap, each batch
    wholly in or out. -/
theorem crash_recover_B : ∀ (h : List Client) (fs : Fs) (kv : Kv) (flushed : List Name),
    Inv fs kv flushed → ∀ n, ∃ k,
      recoverB (run fs ((opsOf h kv).take n)) = some (List.range k)
      ∧ kv.next + acked ((opsOf h kv).take n) ≤ k
      ∧ k ≤ kv.next + appended ((opsOf h kv).take n) := by
  intro h
  induction h with
  | nil =>
    intro fs kv flushed hinv n
    refine ⟨kv.next, ?_, ?_, ?_⟩
    · simp only [opsOf, List.take_nil, run, List.foldl_nil]; exact boundary_ok hinv
    · simp [opsOf, acked]
    · simp [opsOf]
  | cons c cs ih =>
    intro fs kv flushed hinv n
    simp only [opsOf]
    rw [List.take_append]
    cases c with
    | put =>
      obtain ⟨hp1, hp2, hp3⟩ := put_block hinv
      have hlen : (block kv .put).length = 3 := rfl
      rw [hlen]
      rcases n with _ | _ | _ | n
      · refine ⟨kv.next, ?_, by simp [acked], by simp⟩
        simp only [List.take_zero, List.append_nil, run, List.foldl_nil]
        exact boundary_ok hinv
      · refine ⟨kv.next, ?_, by simp [block, acked], by simp⟩
        simpa [block] using hp1
      · refine ⟨kv.next + 1, ?_, by simp [block, acked], by simp [block, appended]⟩
        simpa [block] using hp2
      · have htake : (block kv .put).take (n + 1 + 1 + 1) = block kv .put := by
          apply List.take_of_length_le; rw [hlen]; omega
        rw [htake, run_append, acked_append, appended_append]
        obtain ⟨k, hk1, hk2, hk3⟩ := ih _ _ _ hp3 (n + 1 + 1 + 1 - 3)
        refine ⟨k, hk1, ?_, ?_⟩
        · have : acked (block kv .put) = 1 := by simp [block, acked]
          have hn : (after kv .put).next = kv.next + 1 := rfl
          omega
        · have : appended (block kv .put) = 1 := by simp [block, appended]
          have hn : (after kv .put).next = kv.next + 1 := rfl
          omega
    | flush =>
      by_cases hne : kv.content = []
      · have hb : block kv .flush = [] := by simp [block, hne]
        have ha : after kv .flush = kv := by simp [after, hne]
        rw [hb, ha]
        simp only [List.take_nil, List.nil_append, List.length_nil, Nat.sub_zero]
        exact ih _ _ _ hinv n
      · obtain ⟨hf1, hf2⟩ := flush_block hinv hne
        have hlen : (block kv .flush).length = 8 := by simp [block, hne]
        rw [hlen]
        by_cases hn : n < 8
        · have h0 : n - 8 = 0 := by omega
          rw [h0, List.take_zero, List.append_nil]
          obtain ⟨c1, c2⟩ := flush_prefix_counts kv n
          exact ⟨kv.next, hf1 n hn, by omega, by omega⟩
        · have htake : (block kv .flush).take n = block kv .flush := by
            apply List.take_of_length_le; rw [hlen]; omega
          rw [htake, run_append, acked_append, appended_append]
          obtain ⟨k, hk1, hk2, hk3⟩ := ih _ _ _ hf2 (n - 8)
          have hc := flush_prefix_counts kv 8
          rw [List.take_of_length_le (by rw [hlen]; omega)] at hc
          have hnx : (after kv .flush).next = kv.next := by simp [after, hne]
          exact ⟨k, hk1, by omega, by omega⟩

/-- **C02**, persistence model (a) -/
theorem crash_recover_A : ∀ (h : List Client) (fs : Fs) (kv : Kv) (flushed : List Name),
    Inv fs kv flushed → ∀ n, ∃ k,
      recoverA (run fs ((opsOf h kv).take n)) = some (List.range k)
      ∧ kv.next + acked ((opsOf h kv).take n) ≤ k
      ∧ k ≤ kv.next + appended ((opsOf h kv).take n) := by
  intro h
  induction h with
  | nil =>
    intro fs kv flushed hinv n
    refine ⟨kv.next, ?_, ?_, ?_⟩
    · simp only [opsOf, List.take_nil, run, List.foldl_nil]; exact boundary_okA hinv
    · simp [opsOf, acked]
    · simp [opsOf]
  | cons c cs ih =>
    intro fs kv flushed hinv n
    simp only [opsOf]
    rw [List.take_append]
    cases c with
    | put =>
      obtain ⟨hp1, hp2⟩ := put_blockA hinv
      obtain ⟨_, _, hp3⟩ := put_block hinv
      have hlen : (block kv .put).length = 3 := rfl
      rw [hlen]
      rcases n with _ | _ | _ | n
      · refine ⟨kv.next, ?_, by simp [acked], by simp⟩
        simp only [List.take_zero, List.append_nil, run, List.foldl_nil]
        exact boundary_okA hinv
      · refine ⟨kv.next + 1, ?_, by simp [block, acked], by simp [block, appended]⟩
        simpa [block] using hp1
      · refine ⟨kv.next + 1, ?_, by simp [block, acked], by simp [block, appended]⟩
        simpa [block] using hp2
      · have htake : (block kv .put).take (n + 1 + 1 + 1) = block kv .put := by
          apply List.take_of_length_le; rw [hlen]; omega
        rw [htake, run_append, acked_append, appended_append]
        obtain ⟨k, hk1, hk2, hk3⟩ := ih _ _ _ hp3 (n + 1 + 1 + 1 - 3)
        refine ⟨k, hk1, ?_, ?_⟩
        · have : acked (block kv .put) = 1 := by simp [block, acked]
          have hn : (after kv .put).next = kv.next + 1 := rfl
          omega
        · have : appended (block kv .put) = 1 := by simp [block, appended]
          have hn : (after kv .put).next = kv.next + 1 := rfl
          omega
    | flush =>
      by_cases hne : kv.content = []
      · have hb : block kv .flush = [] := by simp [block, hne]
        have ha : after kv .flush = kv := by simp [after, hne]
        rw [hb, ha]
        simp only [List.take_nil, List.nil_append, List.length_nil, Nat.sub_zero]
        exact ih _ _ _ hinv n
      · obtain ⟨_, hf2⟩ := flush_block hinv hne
        have hf1 := flush_blockA hinv hne
        have hlen : (block kv .flush).length = 8 := by simp [block, hne]
        rw [hlen]
        by_cases hn : n < 8
        · have h0 : n - 8 = 0 := by omega
          rw [h0, List.take_zero, List.append_nil]
          obtain ⟨c1, c2⟩ := flush_prefix_counts kv n
          exact ⟨kv.next, hf1 n hn, by omega, by omega⟩
        · have htake : (block kv .flush).take n = block kv .flush := by
            apply List.take_of_length_le; rw [hlen]; omega
          rw [htake, run_append, acked_append, appended_append]
          obtain ⟨k, hk1, hk2, hk3⟩ := ih _ _ _ hf2 (n - 8)
          have hc := flush_prefix_counts kv 8
          rw [List.take_of_length_le (by rw [hlen]; omega)] at hc
          have hnx : (after kv .flush).next = kv.next := by simp [after, hne]
          exact ⟨k, hk1, by omega, by omega⟩

theorem inv0 : Inv fs0 kv0 [] := ⟨rfl, (by intro c hc; cases hc), rfl, rfl, rfl, rfl⟩

/-- from the empty store -/
theorem crash_recover_B_init (h : List Client) (n : Nat) : ∃ k,
    recoverB (run fs0 ((opsOf h kv0).take n)) = some (List.range k)
    ∧ acked ((opsOf h kv0).take n) ≤ k ∧ k ≤ appended ((opsOf h kv0).take n) := by
  obtain ⟨k, h1, h2, h3⟩ := crash_recover_B h fs0 kv0 [] inv0 n
  exact ⟨k, h1, by simpa [kv0] using h2, by simpa [kv0] using h3⟩

/-- non-vacuity: put, put, flush, put — crash right after the manifest edit is synced (17 calls
    into the sequence, log 0 still in place next to the SST made from it) -/
example : recoverB (run fs0 ((opsOf [.put, .put, .flush, .put] kv0).take 12)) = some [0, 1] := by decide

/-- mutant: the log goes to the trash before the manifest edit is synced — an acknowledged batch
    is gone -/
def flushBad (c : List Nat) (cur : Nat) : List Op :=
  [.logCreate (cur + 1), .tmpCreate c c, .tmpSync c, .link c, .logTrash cur, .maniAppend c, .maniSync, .tmpUnlink c]

theorem trash_before_manifest_loses :
    recoverB (run fs0 ((opsOf [.put] kv0 ++ flushBad [0] 0).take 8)) = some [] := by decide

/-- mutant: the SST is linked and named in the manifest without having been synced — reopen fails -/
def flushNoSync (c : List Nat) (cur : Nat) : List Op :=
  [.logCreate (cur + 1), .tmpCreate c c, .link c, .maniAppend c, .maniSync, .tmpUnlink c, .logTrash cur]

theorem unsynced_sst_breaks_reopen :
    recoverB (run fs0 (opsOf [.put] kv0 ++ flushNoSync [0] 0)) = none := by decide

end Blue.FlushCrash

#print axioms Blue.FlushCrash.crash_recover_B
#print axioms Blue.FlushCrash.crash_recover_B_init
#print axioms Blue.FlushCrash.crash_recover_A
