import Blue.Model.SstFile
import Blue.Proofs.SstOpen
import Blue.Proofs.SstMeta
/-! The cursor of a table opened from bytes (`Blue.SstOpen`: blocks loaded lazily through a loader
    that may fail) against the cursor of the table model of C10 (`Blue.Cursor.SstCur`: the blocks
    are there): when the loader returns block `i` of the list `L` for every `i < L.length`, the
    two machines take the same steps — `next`, `prev`, `seek`, the scan of `load`, the two probes
    of `metadata` — and no call returns an error. -/
namespace Blue.SstOpen
open Blue.Wire Blue.Block Blue.Sst Blue.Cursor

/-- the cursor is inside the table: at most at the end, and on a block only below the end -/
def WB (n m : Nat) (bc : Option (Ref KV)) : Prop := m ≤ n ∧ (bc.isSome = true → m < n)

theorem wb_none {n m : Nat} (h : m ≤ n) : WB n m none := ⟨h, by intro h; cases h⟩
theorem wb_some {n m : Nat} (b : Ref KV) (h : m < n) : WB n m (some b) := ⟨Nat.le_of_lt h, fun _ => h⟩

theorem sstnext_none (L : List (List KV)) (D : List KV) (f m : Nat) :
    SstCur.next (f + 1) ⟨L, D, m, none⟩ =
      if m ≥ L.length then ⟨L, D, L.length, none⟩
      else if (Ref.next ⟨L.getD m [], 0⟩).kv.isSome = true then ⟨L, D, m, some (Ref.next ⟨L.getD m [], 0⟩)⟩
      else SstCur.next f ⟨L, D, m + 1, none⟩ := rfl

theorem sstprev_none (L : List (List KV)) (D : List KV) (f m : Nat) :
    SstCur.prev (f + 1) ⟨L, D, m, none⟩ =
      if m = 0 then ⟨L, D, 0, none⟩
      else if (Ref.prev (Ref.last ⟨L.getD (m - 1) [], 0⟩)).kv.isSome = true then
        ⟨L, D, m - 1, some (Ref.prev (Ref.last ⟨L.getD (m - 1) [], 0⟩))⟩
      else SstCur.prev f ⟨L, D, m - 1, none⟩ := rfl

section sim
variable (L : List (List KV)) (D : List KV) (ld : Nat → Except Err (List KV))
  (hld : ∀ i, i < L.length → ld i = .ok (L.getD i []))
include hld

theorem nextG_sim : ∀ (f m : Nat) (bc : Option (Ref KV)), WB L.length m bc →
    ∃ m' bc', SstCur.next f ⟨L, D, m, bc⟩ = ⟨L, D, m', bc'⟩ ∧ nextG L.length ld f ⟨m, bc⟩ = .ok ⟨m', bc'⟩
      ∧ WB L.length m' bc'
  | 0, m, bc, hw => ⟨m, bc, rfl, rfl, hw⟩
  | f + 1, m, bc, hw => by
    rw [nextG_succ]
    cases bc with
    | none =>
      rw [sstnext_none]
      simp only
      by_cases hge : m ≥ L.length
      · simp only [if_pos hge]
        exact ⟨L.length, none, rfl, rfl, wb_none (Nat.le_refl _)⟩
      · simp only [if_neg hge]
        rw [hld m (by omega)]
        simp only
        by_cases hk : (Ref.next ⟨L.getD m [], 0⟩).kv.isSome = true
        · simp only [if_pos hk]
          exact ⟨m, _, rfl, rfl, wb_some _ (by omega)⟩
        · simp only [if_neg hk]
          exact nextG_sim f (m + 1) none (wb_none (by omega))
    | some b =>
      rw [next_some]
      simp only
      have hm : m < L.length := hw.2 rfl
      by_cases hk : b.next.kv.isSome = true
      · simp only [if_pos hk]
        exact ⟨m, _, rfl, rfl, wb_some _ hm⟩
      · simp only [if_neg hk]
        exact nextG_sim f (m + 1) none (wb_none (by omega))

theorem prevG_sim : ∀ (f m : Nat) (bc : Option (Ref KV)), WB L.length m bc →
    ∃ m' bc', SstCur.prev f ⟨L, D, m, bc⟩ = ⟨L, D, m', bc'⟩ ∧ prevG ld f ⟨m, bc⟩ = .ok ⟨m', bc'⟩
      ∧ WB L.length m' bc'
  | 0, m, bc, hw => ⟨m, bc, rfl, rfl, hw⟩
  | f + 1, m, bc, hw => by
    rw [prevG_succ]
    have hmle : m ≤ L.length := hw.1
    cases bc with
    | none =>
      rw [sstprev_none]
      simp only
      by_cases hz : m = 0
      · simp only [if_pos hz]
        exact ⟨0, none, rfl, rfl, wb_none (Nat.zero_le _)⟩
      · simp only [if_neg hz]
        rw [hld (m - 1) (by omega)]
        simp only
        by_cases hk : (Ref.prev (Ref.last ⟨L.getD (m - 1) [], 0⟩)).kv.isSome = true
        · simp only [if_pos hk]
          exact ⟨m - 1, _, rfl, rfl, wb_some _ (by omega)⟩
        · simp only [if_neg hk]
          exact prevG_sim f (m - 1) none (wb_none (by omega))
    | some b =>
      rw [prev_some]
      simp only
      have hm : m < L.length := hw.2 rfl
      by_cases hk : b.prev.kv.isSome = true
      · simp only [if_pos hk]
        exact ⟨m, _, rfl, rfl, wb_some _ hm⟩
      · simp only [if_neg hk]
        exact prevG_sim f m none (wb_none hmle)

theorem seekG_sim (k : List Nat) (m : Nat) (bc : Option (Ref KV)) :
    ∃ m' bc', SstCur.seek (atOrAfter k) ⟨L, D, m, bc⟩ = ⟨L, D, m', bc'⟩
      ∧ seekG L.length ld (SstCur.seekIndex ⟨L, D, m, bc⟩ (atOrAfter k)) k = .ok ⟨m', bc'⟩
      ∧ WB L.length m' bc' := by
  unfold seekG SstCur.seek
  simp only
  generalize SstCur.seekIndex ⟨L, D, m, bc⟩ (atOrAfter k) = idx
  by_cases hge : idx ≥ L.length
  · simp only [if_pos hge]
    exact ⟨L.length, none, rfl, rfl, wb_none (Nat.le_refl _)⟩
  · simp only [if_neg hge]
    rw [hld idx (by omega)]
    simp only [SstCur.loadBlock]
    by_cases hk : (Ref.seek (atOrAfter k) ⟨L.getD idx [], 0⟩).kv.isSome = true
    · refine ⟨idx, some (Ref.seek (atOrAfter k) ⟨L.getD idx [], 0⟩), ?_, ?_, wb_some _ (by omega)⟩
      · exact if_pos hk
      · rw [if_pos hk]
    · by_cases hge' : idx + 1 ≥ L.length
      · refine ⟨L.length, none, ?_, ?_, wb_none (Nat.le_refl _)⟩
        · split
          · contradiction
          · rfl
        · rw [if_neg hk, if_pos hge']
      · refine ⟨idx + 1, some (Ref.seek (atOrAfter k) ⟨L.getD (idx + 1) [], 0⟩), ?_, ?_, wb_some _ (by omega)⟩
        · split
          · contradiction
          · rfl
        · rw [if_neg hk, if_neg hge', hld (idx + 1) (by omega)]

/-- the scan of `load` -/
theorem scanG_sim (k : List Nat) (ts : Nat) : ∀ (f m : Nat) (bc : Option (Ref KV)), WB L.length m bc →
    ∃ m' bc', sscan k ts f ⟨L, D, m, bc⟩ = ⟨L, D, m', bc'⟩ ∧ scanG L.length ld k ts f ⟨m, bc⟩ = .ok ⟨m', bc'⟩
  | 0, m, bc, _ => ⟨m, bc, rfl, rfl⟩
  | f + 1, m, bc, hw => by
    rw [scanG_succ]
    simp only [sscan]
    have hkv : (LCur.mk m bc).kv = (SstCur.mk L D m bc).kv := rfl
    rw [hkv]
    cases (SstCur.mk L D m bc).kv with
    | none => exact ⟨m, bc, rfl, rfl⟩
    | some e =>
      simp only
      by_cases hlt : keyRefLt e.key e.ts k ts = true
      · simp only [if_pos hlt]
        obtain ⟨m', bc', h1, h2, h3⟩ := nextG_sim L D ld hld (L.length + 2) m bc hw
        have hs : sstep ⟨L, D, m, bc⟩ .next = ⟨L, D, m', bc'⟩ := h1
        rw [h2, hs]
        simp only
        exact scanG_sim k ts f m' bc' h3
      · simp only [if_neg hlt]
        exact ⟨m, bc, rfl, rfl⟩

end sim

/-- the index keys steer `seek` the same way whether they are read as entries of the index block
    or as the decoded `(key, BlockMetadata)` pairs -/
theorem seekIndex_eq (k : List Nat) : ∀ (ents : List (List Nat × BlockMeta)) (D : List KV),
    ents.map (·.1) = D.map (·.key) →
    (ents.takeWhile (fun e => keyLt e.1 k)).length = (D.takeWhile (fun d => !atOrAfter k d)).length
  | [], [], _ => rfl
  | [], _ :: _, h => by simp at h
  | _ :: _, [], h => by simp at h
  | e :: es, d :: ds, h => by
    simp only [List.map_cons, List.cons.injEq] at h
    have ih := seekIndex_eq k es ds h.2
    have hd : (!atOrAfter k d) = keyLt e.1 k := by simp [atOrAfter, h.1]
    simp only [List.takeWhile_cons, hd]
    cases keyLt e.1 k with
    | false => rfl
    | true => simp only [if_true, List.length_cons]; rw [ih]

/-! ### whole walks (`seek_to_first; next…` and `seek_to_last; prev…`, as C09 renders a file) -/
section walks
variable (L : List (List KV)) (hne : ∀ blk ∈ L, blk ≠ []) (ld : Nat → Except Err (List KV))
  (hld : ∀ i, i < L.length → ld i = .ok (L.getD i []))
include hne hld

theorem walkFwdG_sim : ∀ (F m : Nat) (bc : Option (Ref KV)) (p : Nat) (acc : List KV),
    SRel L m bc p → WB L.length m bc → p ≤ L.flatten.length → L.flatten.length - p + 1 ≤ F →
    walkFwdG L.length ld F ⟨m, bc⟩ acc = (acc.reverse ++ L.flatten.drop p, none)
  | 0, _, _, _, _, _, _, _, hF => by omega
  | F + 1, m, bc, p, acc, hr, hw, hp, hF => by
    rw [walkFwdG_succ]
    obtain ⟨m', bc', h1, h2, h3⟩ := nextG_sim L [] ld hld (L.length + 2) m bc hw
    obtain ⟨m2, bc2, h4, h5⟩ := Blue.Cursor.next_rel L [] hne hr
    rw [h1] at h4
    obtain ⟨rfl, rfl⟩ : m' = m2 ∧ bc' = bc2 := by
      have := SstCur.mk.inj h4; exact ⟨this.2.2.1, this.2.2.2⟩
    rw [h2]
    simp only
    have hpos : (Ref.next ⟨L.flatten, p⟩).pos = p + 1 := by unfold Ref.next; rw [if_pos hp]
    rw [hpos] at h5
    have hkv : (LCur.mk m' bc').kv = (Ref.mk L.flatten (p + 1)).kv := srel_kv h5 []
    rw [hkv]
    have hk : (Ref.mk L.flatten (p + 1)).kv = L.flatten[p]? := by simp [Ref.kv]
    rw [hk]
    by_cases hlt : p < L.flatten.length
    · rw [List.getElem?_eq_getElem hlt]
      simp only
      rw [walkFwdG_sim F m' bc' (p + 1) (L.flatten[p] :: acc) h5 h3 (by omega) (by omega)]
      rw [List.drop_eq_getElem_cons hlt]
      simp
    · have : L.flatten[p]? = none := List.getElem?_eq_none (by omega)
      rw [this]
      simp only
      rw [List.drop_eq_nil_of_le (by omega)]
      simp

theorem walkBwdG_sim : ∀ (F m : Nat) (bc : Option (Ref KV)) (p : Nat) (acc : List KV),
    SRel L m bc p → WB L.length m bc → p ≤ L.flatten.length + 1 → p ≤ F →
    walkBwdG L.length ld F ⟨m, bc⟩ acc = (acc.reverse ++ (L.flatten.take (p - 1)).reverse, none)
  | 0, _, _, p, acc, _, _, _, hF => by
    have : p = 0 := by omega
    subst this
    simp [walkBwdG]
  | F + 1, m, bc, p, acc, hr, hw, hp, hF => by
    rw [walkBwdG_succ]
    obtain ⟨m', bc', h1, h2, h3⟩ := prevG_sim L [] ld hld (L.length + 2) m bc hw
    obtain ⟨m2, bc2, h4, h5⟩ := Blue.Cursor.prev_rel L [] hne hr
    rw [h1] at h4
    obtain ⟨rfl, rfl⟩ : m' = m2 ∧ bc' = bc2 := by
      have := SstCur.mk.inj h4; exact ⟨this.2.2.1, this.2.2.2⟩
    rw [h2]
    simp only
    have hpos : (Ref.prev ⟨L.flatten, p⟩).pos = p - 1 := by
      unfold Ref.prev
      by_cases h0 : 0 < p
      · rw [if_pos h0]
      · rw [if_neg h0]; simp only; omega
    rw [hpos] at h5
    have hkv : (LCur.mk m' bc').kv = (Ref.mk L.flatten (p - 1)).kv := srel_kv h5 []
    rw [hkv]
    by_cases h1p : p ≤ 1
    · have hk : (Ref.mk L.flatten (p - 1)).kv = none := by
        have : p - 1 = 0 := by omega
        simp [Ref.kv, this]
      rw [hk]
      have : p - 1 = 0 := by omega
      simp [this]
    · have hlt : p - 2 < L.flatten.length := by omega
      have hk : (Ref.mk L.flatten (p - 1)).kv = some L.flatten[p - 2] := by
        have h0 : ¬ (p - 1 = 0) := by omega
        have e : p - 1 - 1 = p - 2 := by omega
        simp only [Ref.kv, h0, if_false, e]
        exact List.getElem?_eq_getElem hlt
      rw [hk]
      simp only
      rw [walkBwdG_sim F m' bc' (p - 1) (L.flatten[p - 2] :: acc) h5 h3 (by omega) (by omega)]
      have e : p - 1 = (p - 2) + 1 := by omega
      have e2 : p - 1 - 1 = p - 2 := by omega
      rw [e2]
      rw [e]
      simp
      rw [List.take_add_one, List.getElem?_eq_getElem hlt]
      simp only [Option.toList_some, List.reverse_append, List.reverse_cons, List.reverse_nil, List.nil_append,
        List.singleton_append]

end walks

/-! ### a table whose loader delivers the blocks `L` -/
section table
variable (crc : List Nat → Nat) (t : Opened) (L : List (List KV)) (D : List KV)
  (hn : t.entries.length = L.length)
  (hkeys : t.entries.map (·.1) = D.map (·.key))
  (hld : ∀ i, i < L.length → t.loadIdx crc i = .ok (L.getD i []))
include hn hkeys hld

theorem step_sim (op : KOp) (m : Nat) (bc : Option (Ref KV)) (hw : WB L.length m bc) :
    ∃ m' bc', sstep ⟨L, D, m, bc⟩ op = ⟨L, D, m', bc'⟩ ∧ t.step crc ⟨m, bc⟩ op = .ok ⟨m', bc'⟩
      ∧ WB L.length m' bc' := by
  cases op with
  | first => exact ⟨0, none, rfl, rfl, wb_none (Nat.zero_le _)⟩
  | last =>
    refine ⟨L.length, none, rfl, ?_, wb_none (Nat.le_refl _)⟩
    show Except.ok t.toLast = _
    unfold Opened.toLast; rw [hn]
  | next =>
    show ∃ m' bc', SstCur.next (L.length + 2) ⟨L, D, m, bc⟩ = _ ∧ t.next crc ⟨m, bc⟩ = _ ∧ _
    unfold Opened.next; rw [hn]
    exact nextG_sim L D _ hld _ m bc hw
  | prev =>
    show ∃ m' bc', SstCur.prev (L.length + 2) ⟨L, D, m, bc⟩ = _ ∧ t.prev crc ⟨m, bc⟩ = _ ∧ _
    unfold Opened.prev; rw [hn]
    exact prevG_sim L D _ hld _ m bc hw
  | seek k =>
    show ∃ m' bc', SstCur.seek (atOrAfter k) ⟨L, D, m, bc⟩ = _ ∧ t.seek crc k = _ ∧ _
    unfold Opened.seek; rw [hn]
    have : t.seekIndex k = SstCur.seekIndex ⟨L, D, m, bc⟩ (atOrAfter k) := seekIndex_eq k _ _ hkeys
    rw [this]
    exact seekG_sim L D _ hld k m bc

/-- **programs**: no call fails, and every observation is the table model's -/
theorem run_sim : ∀ (ops : List KOp) (m : Nat) (bc : Option (Ref KV)), WB L.length m bc →
    t.run crc ⟨m, bc⟩ ops = (SstCur.run ⟨L, D, m, bc⟩ (ops.map KOp.toOp)).map .ok
  | [], _, _, _ => rfl
  | op :: ops, m, bc, hw => by
    obtain ⟨m', bc', h1, h2, h3⟩ := step_sim crc t L D hn hkeys hld op m bc hw
    have hstep : (SstCur.mk L D m bc).step op.toOp = sstep ⟨L, D, m, bc⟩ op := by cases op <;> rfl
    simp only [Opened.run, h2, List.map_cons, SstCur.run, hstep, h1]
    rw [run_sim ops m' bc' h3]
    rfl

/-- **`Sst::load`** does not fail and is the table model's `load` run with the opened table's fuel -/
theorem load_sim (k : List Nat) (ts : Nat) :
    t.load crc k ts = .ok (loadedOf k (sscan k ts t.fuel (sstep ⟨L, D, 0, none⟩ (.seek k))).kv) := by
  unfold Opened.load loadG
  rw [hn]
  have hsi : t.seekIndex k = SstCur.seekIndex ⟨L, D, 0, none⟩ (atOrAfter k) := seekIndex_eq k _ _ hkeys
  rw [hsi]
  obtain ⟨m', bc', h1, h2, h3⟩ := seekG_sim L D _ hld k 0 none
  have hs : sstep ⟨L, D, 0, none⟩ (.seek k) = ⟨L, D, m', bc'⟩ := h1
  obtain ⟨m2, bc2, h4, h5⟩ := scanG_sim L D _ hld k ts t.fuel m' bc' h3
  rw [h2, hs, h4]
  simp only [h5]
  rfl

omit hkeys in
/-- **`Sst::metadata`** does not fail: the first and last key are found by the same two probes as
    in the table model; the other fields are the final block's and the file's length -/
theorem metadata_sim :
    t.metadata crc = .ok (Table.metadata ⟨L, D, t.fileSize, t.fin.setsum, t.fin.smallest, t.fin.biggest⟩) := by
  unfold Opened.metadata endsG
  rw [hn]
  obtain ⟨m1, b1, h1, h2, _⟩ := nextG_sim L D _ hld (L.length + 2) 0 none (wb_none (Nat.zero_le _))
  obtain ⟨m2, b2, h3, h4, _⟩ := prevG_sim L D _ hld (L.length + 2) L.length none (wb_none (Nat.le_refl _))
  rw [h2, h4]
  simp only
  have e1 : sstep (sstep (Table.cursor ⟨L, D, t.fileSize, t.fin.setsum, t.fin.smallest, t.fin.biggest⟩) .first) .next
      = ⟨L, D, m1, b1⟩ := h1
  have e2 : sstep (sstep (Table.cursor ⟨L, D, t.fileSize, t.fin.setsum, t.fin.smallest, t.fin.biggest⟩) .last) .prev
      = ⟨L, D, m2, b2⟩ := h3
  unfold Table.metadata Opened.metaOf
  simp only [e1, e2]
  rfl


omit hkeys in
/-- **whole walks**: forward delivers every entry in order, backward in reverse order, neither
    ends in an error -/
theorem walks_sim (hne : ∀ blk ∈ L, blk ≠ []) (hfuel : L.flatten.length + 1 ≤ t.fuel) :
    t.forward crc = (L.flatten, none) ∧ t.backward crc = (L.flatten.reverse, none) := by
  constructor
  · unfold Opened.forward Opened.toFirst
    rw [hn, walkFwdG_sim L hne _ hld t.fuel 0 none 0 [] SRel.first (wb_none (Nat.zero_le _)) (Nat.zero_le _) (by omega)]
    simp
  · unfold Opened.backward Opened.toLast
    rw [hn, walkBwdG_sim L hne _ hld t.fuel L.length none (L.flatten.length + 1) [] SRel.last
      (wb_none (Nat.le_refl _)) (Nat.le_refl _) (by omega)]
    rw [Nat.add_sub_cancel, List.take_length]
    simp

end table
end Blue.SstOpen
